(* C10 half (b), round trip — well-formedness of abstract grammars and layouts,
   and the statements proved in YpRound*.v.

   [wf_agram ag]       conditions on the abstract grammar alone (what the yacc
                       format can express without error): no duplicate
                       declarations, references resolve, rule blocks non-empty.
   [wf_layout l ag]    the layout fits the grammar: every gap is a layout text
                       (blanks, newlines, // and /* */ comments — [layout_text]
                       of YpSpec.v), with the constraints the syntax imposes
                       (newline-free where a directive must stay on its line, a
                       newline where a token list ends with the line, non-empty
                       between two identifier-like items); every name is spelled
                       in a style that can carry it (bare = an identifier that
                       %token declared; quoted = without that quote and '\n');
                       numerals denote the %expect value; %epp bodies are the
                       value with its quotes escaped; the blanks inside action
                       braces are blanks. *)
From Coq Require Import List Arith NArith ZArith Bool Lia.
From GV Require Import Common.Outcome C10.YpModel C10.YpSpec C10.YpPrint.
Import ListNotations.
Local Open Scope nat_scope.

(* ---- lexical conditions ---------------------------------------------------- *)
Definition first_ok (c : N) : bool := negb (is_blank c) && negb (c =? c_slash)%N.
(* the text starts with an item (not with layout), or is empty *)
Definition item_start (r : str) : Prop :=
  match r with [] => True | c :: _ => first_ok c = true end.

(* the name can be spelled in this style *)
Definition is_qname (q : qstyle) (n : str) : Prop :=
  match q with
  | QBare => is_ident n = true
  | _ => n <> [] /\ forallb (fun c => negb (c =? qchar q)%N && negb (c =? c_nl)%N) n = true
  end.
(* what must follow an occurrence *)
Definition tok_follow (q : qstyle) (rest : str) : Prop :=
  match q with QBare => not_starting tok_cont rest | _ => True end.

(* a gap inside a directive that must stay on its line: blanks, /* */ comments without
   newline, // comments (the code lets their newline pass) *)
Definition line_gap (l : str) : Prop := layout_text l /\ line_layout l.
(* the gap after a value read to the end of its line: it starts with that line's newline *)
Definition nl_gap (l : str) : Prop :=
  layout_text l /\ match l with c :: _ => is_nl c = true | [] => False end.
(* the gap that ends a %left / %avoid_insert line *)
Definition eol_gap (l : str) : Prop := layout_text l /\ 1 <= count_nl l.

(* ---- actions --------------------------------------------------------------- *)
(* braces balanced: every '}' closes an earlier '{' *)
Fixpoint brace_ok (d : nat) (s : str) : bool :=
  match s with
  | [] => d =? 0
  | c :: s' =>
      if (c =? c_lbrace)%N then brace_ok (S d) s'
      else if (c =? c_rbrace)%N then match d with 0 => false | S d' => brace_ok d' s' end
      else brace_ok d s'
  end.
Definition no_ws_hd (s : str) : Prop := match s with [] => True | c :: _ => is_whitespace c = false end.
(* the text is what the parser stores: trimmed *)
Definition trimmed (s : str) : Prop := no_ws_hd s /\ no_ws_hd (rev s).
(* NAMED CONDITION [naive_braces_balanced]: the braces of the action text balance when EVERY '{' and
   '}' character is counted — also those inside Rust string / char literals and comments of the
   action code, which is how parse_action finds the closing brace.  An action such as
   [ "{".to_string() ] is legal Rust (balanced once literals are skipped) but not naively balanced:
   it is outside the round trip, and [action_literal_brace_refuted] (YpRoundFindings.v) shows that
   the parser then builds a different grammar without reporting anything (known finding
   C10-action-literal-brace). *)
Definition naive_braces_balanced (a : str) : Prop := brace_ok 0 a = true.
Definition wf_action (a : str) : Prop := naive_braces_balanced a /\ trimmed a.
Definition wf_pad (p : str) : Prop := forallb is_whitespace p = true.

(* ---- texts read up to a single colon / up to the end of the line ------------- *)
(* every ':' of the text belongs to a "::" pair (read left to right) *)
Fixpoint colon_scan (s : str) : bool :=
  match s with
  | [] => true
  | c :: s' =>
      if (c =? c_colon)%N
      then match s' with c2 :: s'' => (c2 =? c_colon)%N && colon_scan s'' | [] => false end
      else colon_scan s'
  end.
Definition is_colon (c : N) : bool := (c =? c_colon)%N.
(* an action type (Grmtools dialect) / a %parse-param name: what parse_to_single_colon returns *)
Definition wf_rtype (t : str) : Prop := trimmed t /\ colon_scan t = true.
(* a value read by parse_to_eol after a newline-free gap: not empty, no newline, not starting like layout *)
Definition wf_eol_text (t : str) : Prop :=
  t <> [] /\ item_start t /\ forallb (fun c => negb (is_nl c)) t = true.

(* ---- productions ----------------------------------------------------------- *)
(* [D n]: n is declared by a %token directive *)
Definition wf_sym (D : str -> bool) (pl : play) (k : nat) (s : asym) : Prop :=
  is_qname (sym_q pl k s) (sym_name s) /\
  match s with
  | ARule n => D n = false
  | ATok n => match pq_sym pl k with QBare => D n = true | _ => True end
  end.

Fixpoint wf_syms (D : str -> bool) (pl : play) (k : nat) (ss : list asym) : Prop :=
  match ss with
  | [] => True
  | s :: ss' =>
      wf_sym D pl k s /\ layout_text (pg_sym pl k) /\
      (sym_q pl k s = QBare -> pg_sym pl k = [] ->
       match ss' with s' :: _ => sym_q pl (S k) s' <> QBare | [] => True end) /\
      wf_syms D pl (S k) ss'
  end.

Definition wf_prod (D : str -> bool) (pl : play) (p : aprod) : Prop :=
  wf_syms D pl 0 (ap_syms p) /\
  match ap_prec p with
  | Some t => is_qname (pq_prec pl) t /\ layout_text (pg_prec1 pl) /\ layout_text (pg_prec2 pl)
  | None => True
  end /\
  match ap_action p with
  | Some t => wf_action t /\ wf_pad (p_pad1 pl) /\ wf_pad (p_pad2 pl) /\ layout_text (pg_act pl)
  | None => True
  end /\
  layout_text (pg_empty pl) /\
  layout_text (pg_term pl).

Fixpoint wf_prods (D : str -> bool) (rl : rlay) (pi : nat) (ps : list aprod) : Prop :=
  match ps with
  | [] => True
  | p :: ps' => wf_prod D (r_play rl pi) p /\ wf_prods D rl (S pi) ps'
  end.

Definition wf_rule (D : str -> bool) (rl : rlay) (r : arule) : Prop :=
  is_name (ar_name r) = true /\ layout_text (rg_name rl) /\ layout_text (rg_colon rl) /\
  ar_prods r <> [] /\ wf_prods D rl 0 (ar_prods r) /\
  match ar_type r with
  | Some t => layout_text (rg_arrow rl) /\ wf_rtype t /\ wf_pad (r_tpad rl) /\
              item_start (t ++ r_tpad rl ++ [c_colon])
  | None => True
  end.

(* which blocks carry an action type: all of them in the Grmtools dialect, none otherwise *)
Definition rule_kind_ok (k : ykind) (r : arule) : Prop := ar_type r <> None <-> k = KGrmtools.

Fixpoint wf_rules (D : str -> bool) (l : layout) (r : nat) (rs : list arule) : Prop :=
  match rs with
  | [] => True
  | x :: rs' => wf_rule D (rlay_of l r) x /\ wf_rules D l (S r) rs'
  end.

(* ---- declarations ---------------------------------------------------------- *)
(* a token list: [inner] constrains the gaps between tokens, [last] the gap after the list *)
Fixpoint wf_toks (inner last : str -> Prop) (g : nat -> str) (q : nat -> qstyle) (k : nat) (ts : list str) : Prop :=
  match ts with
  | [] => True
  | t :: ts' =>
      is_qname (q k) t /\ layout_text (g (S k)) /\
      match ts' with
      | [] => last (g (S k))
      | _ :: _ => inner (g (S k)) /\ (q k = QBare -> q (S k) = QBare -> g (S k) <> [])
      end /\
      wf_toks inner last g q (S k) ts'
  end.

Definition any_gap (l : str) : Prop := True.
Definition nl0 (l : str) : Prop := count_nl l = 0.
Definition nl1 (l : str) : Prop := 1 <= count_nl l.

(* an %expect-unused list: rule names bare, tokens between quotes *)
Fixpoint wf_eus (g : nat -> str) (q : nat -> qstyle) (k : nat) (ss : list asym) : Prop :=
  match ss with
  | [] => True
  | s :: ss' =>
      match s with
      | ARule n => is_name n = true
      | ATok n => q k <> QBare /\ is_qname (q k) n
      end /\
      layout_text (g (S k)) /\
      match s, ss' with
      | ARule _, ARule _ :: _ => g (S k) <> []
      | _, _ => True
      end /\
      wf_eus g q (S k) ss'
  end.

Definition wf_numeral (ds : str) (v : N) : Prop :=
  ds <> [] /\ forallb is_digit ds = true /\ dec_value 0 ds = v /\ (v <= usize_max)%N.

Definition wf_decl (dl : dlay) (x : adecl) : Prop :=
  line_gap (dg dl 0) /\
  match x with
  | DStart n => is_name n = true /\ layout_text (dg dl 1)
  | DToken ts => ts <> [] /\ wf_toks any_gap any_gap (dg dl) (dq dl) 0 ts
  | DPrec _ ts => ts <> [] /\ wf_toks nl0 nl1 (dg dl) (dq dl) 0 ts
  | DEpp t v =>
      is_qname (dq dl 0) t /\ line_gap (dg dl 1) /\ d_sq dl <> QBare /\
      escaped (qchar (d_sq dl)) v (d_txt dl) /\ layout_text (dg dl 2)
  | DAvoid ts => ts <> [] /\ wf_toks nl0 nl1 (dg dl) (dq dl) 0 ts
  | DExpect v => wf_numeral (d_txt dl) v /\ layout_text (dg dl 1)
  | DExpectRR v => wf_numeral (d_txt dl) v /\ layout_text (dg dl 1)
  | DActiontype t => wf_eol_text t /\ nl_gap (dg dl 1)
  | DParseParam n t =>
      wf_rtype n /\ wf_pad (d_txt dl) /\ item_start (n ++ d_txt dl ++ [c_colon]) /\
      line_gap (dg dl 1) /\ not_starting is_colon (dg dl 1 ++ t) /\ wf_eol_text t /\ nl_gap (dg dl 2)
  | DParseGenerics t => wf_eol_text t /\ nl_gap (dg dl 1)
  | DExpectUnused ss => ss <> [] /\ wf_eus (dg dl) (dq dl) 0 ss
  | DImplicit ts => ts <> [] /\ wf_toks nl0 nl1 (dg dl) (dq dl) 0 ts
  end.

(* which declarations a dialect has *)
Definition decl_kind_ok (k : ykind) (x : adecl) : Prop :=
  match x with
  | DActiontype _ => k = KOriginal
  | DImplicit _ => k = KEco
  | _ => True
  end.

Fixpoint wf_decls (l : layout) (d : nat) (ds : list adecl) : Prop :=
  match ds with
  | [] => True
  | x :: ds' => wf_decl (dlay_of l d) x /\ wf_decls l (S d) ds'
  end.

(* ---- the whole file --------------------------------------------------------- *)
Definition declared_b (ag : agram) (n : str) : bool := mem_str (ag_tokens ag) n.

Definition wf_programs (l : layout) (ag : agram) : Prop :=
  match ag_programs ag with Some p => layout_text (l_gap l [5]) /\ starts_solid p | None => True end.

Definition wf_layout (l : layout) (ag : agram) : Prop :=
  layout_text (l_gap l [0]) /\ wf_decls l 0 (ag_decls ag) /\
  layout_text (l_gap l [2]) /\ wf_rules (declared_b ag) l 0 (ag_rules ag) /\
  wf_programs l ag.

(* what the AST-level state knows as %token-declared *)
Definition is_declared (a : gast) (n : str) : bool :=
  match get_index_of (a_tokens a) n with
  | Some idx => existsb (Nat.eqb idx) (a_token_directives a)
  | None => false
  end.

(* every index in the %token-directive set is the index of a token *)
Definition dirs_in_range (a : gast) : Prop :=
  forall idx, In idx (a_token_directives a) -> idx < List.length (a_tokens a).
(* the state knows exactly the names of D as %token-declared *)
Definition tok_inv (D : str -> bool) (a : gast) : Prop :=
  dirs_in_range a /\ forall x, is_declared a x = D x.

(* conditions on the abstract grammar alone *)
Definition count_decl (f : adecl -> bool) (ag : agram) : nat := List.length (filter f (ag_decls ag)).
Definition rule_tok_names (ag : agram) : list str :=
  flat_map (fun r => flat_map (fun p =>
     flat_map (fun s => match s with ATok n => [n] | ARule _ => [] end) (ap_syms p)
     ++ match ap_prec p with Some t => [t] | None => [] end) (ar_prods r)) (ag_rules ag).
Definition rule_refs (ag : agram) : list str :=
  flat_map (fun r => flat_map (fun p =>
     flat_map (fun s => match s with ARule n => [n] | ATok _ => [] end) (ap_syms p)) (ar_prods r)) (ag_rules ag).
Definition prec_uses (ag : agram) : list str :=
  flat_map (fun r => flat_map (fun p => match ap_prec p with Some t => [t] | None => [] end) (ar_prods r))
           (ag_rules ag).

(* names known as tokens at the end of the parse *)
Definition known_toks (ag : agram) : list str :=
  ag_tokens ag ++ ag_avoid ag ++ ag_implicit ag ++ rule_tok_names ag.

Definition wf_agram (k : ykind) (ag : agram) : Prop :=
  (* at most one %start, %expect, %expect-rr *)
  count_decl (fun d => match d with DStart _ => true | _ => false end) ag <= 1 /\
  count_decl (fun d => match d with DExpect _ => true | _ => false end) ag <= 1 /\
  count_decl (fun d => match d with DExpectRR _ => true | _ => false end) ag <= 1 /\
  (* a token has one precedence, one %epp entry, one %avoid_insert entry *)
  NoDup (flat_map snd (ag_precs ag)) /\
  NoDup (map fst (ag_epp ag)) /\
  NoDup (ag_avoid ag) /\
  (* there are rules; references resolve *)
  ag_rules ag <> [] /\
  (forall n, ag_start ag = Some n -> In n (map ar_name (ag_rules ag))) /\
  (forall n, In n (rule_refs ag) -> In n (map ar_name (ag_rules ag))) /\
  (forall t, In t (prec_uses ag) -> In t (flat_map snd (ag_precs ag))) /\
  (forall t, In t (map fst (ag_epp ag)) -> In t (known_toks ag)) /\
  (* the dialect: its declarations, action types on all rule blocks or on none; blocks of one
     rule agree on the type *)
  Forall (decl_kind_ok k) (ag_decls ag) /\
  Forall (rule_kind_ok k) (ag_rules ag) /\
  (forall r1 r2, In r1 (ag_rules ag) -> In r2 (ag_rules ag) -> ar_name r1 = ar_name r2 -> ar_type r1 = ar_type r2) /\
  (* at most one %actiontype, %parse-param, %parse-generics; a token is implicit once *)
  count_decl (fun d => match d with DActiontype _ => true | _ => false end) ag <= 1 /\
  count_decl (fun d => match d with DParseParam _ _ => true | _ => false end) ag <= 1 /\
  count_decl (fun d => match d with DParseGenerics _ => true | _ => false end) ag <= 1 /\
  NoDup (ag_implicit ag) /\
  (* %expect-unused names rules and tokens of the grammar *)
  (forall n, In (ARule n) (ag_expect_unused ag) -> In n (map ar_name (ag_rules ag))) /\
  (forall n, In (ATok n) (ag_expect_unused ag) -> In n (known_toks ag)).

(* ======================================================================== *)
(*  Statements                                                               *)
(* ======================================================================== *)
(* the parser functions of the repaired scanner, original dialect, on [src] *)
Definition P_ws (src : str) := ws true src (byte_len src) (fuel_for src).

(* an action between its braces, wherever it stands *)
Definition parse_action_roundtrip_stmt : Prop :=
  forall src pre pad1 a pad2 rest i nn,
    src = pre ++ c_lbrace :: (pad1 ++ a ++ pad2) ++ c_rbrace :: rest -> i = byte_len pre ->
    wf_action a -> wf_pad pad1 -> wf_pad pad2 ->
    parse_action src (byte_len src) (fuel_for src) nn i
    = Done (Ok (i + 1 + byte_len (pad1 ++ a ++ pad2) + 1, a, nn + count_nl (pad1 ++ a ++ pad2))).

(* ... and the span recorded for it, by the code as it is and with the repair *)
Definition action_span_roundtrip_stmt : Prop :=
  forall fa src pre pl a rest i,
    src = pre ++ c_lbrace :: (p_pad1 pl ++ a ++ p_pad2 pl) ++ c_rbrace :: rest -> i = byte_len pre ->
    wf_action a -> wf_pad (p_pad1 pl) -> wf_pad (p_pad2 pl) ->
    action_span fa src (i + 1) a = Done (act_span fa pl i a).

(* one rule block  name : alt | alt ... ;  followed by its layout, at any offset in
   any context: parse_rule followed by the parse_ws of parse_rules' loop adds exactly
   the rule's effect to the AST and leaves the cursor after it *)
Definition rule_roundtrip_stmt : Prop :=
  forall k fa fp D src pre rl r rest i n a g e,
    src = pre ++ print_rule rl r ++ rest -> i = byte_len pre ->
    wf_rule D rl r -> rule_kind_ok k r -> item_start rest ->
    tok_inv D a ->
    exists n',
      sbind (parse_rule true fa fp k src (byte_len src) (fuel_for src) (mkSt n a g e) i)
            (fun st j => P_ws src st j true)
      = Done (mkSt n' (rule_eff fa fp rl i (actiont_of g) r a) g e, Ok (i + byte_len (print_rule rl r))).

(* the rules section  %% rules  up to the end of the text or the "%%" of the programs section *)
Definition rules_end (rest : str) : Prop := rest = [] \/ exists r, rest = kw_pp ++ r.
Definition rules_roundtrip_stmt : Prop :=
  forall k fa fp D l src pre gap rs rest i n a g e,
    src = pre ++ kw_pp ++ gap ++ print_rules l 0 rs ++ rest -> i = byte_len pre ->
    layout_text gap -> wf_rules D l 0 rs -> Forall (rule_kind_ok k) rs -> rules_end rest ->
    tok_inv D a ->
    exists n',
      parse_rules true fa fp k src (byte_len src) (fuel_for src) (mkSt n a g e) i
      = Done (mkSt n' (rules_eff fa fp l 0 (i + 2 + byte_len gap) (actiont_of g) rs a) g e,
              Ok (i + 2 + byte_len gap + byte_len (print_rules l 0 rs))).

(* ---- declarations ----------------------------------------------------------- *)
(* what the AST must not yet contain for a declaration to be accepted without a
   Duplicate... error *)
Definition decl_pre (x : adecl) (a : gast) (g : option (str * span)) : Prop :=
  match x with
  | DStart _ => a_start a = None
  | DToken _ => True
  | DPrec _ ts => NoDup ts /\ forall t, In t ts -> assoc_get (a_precs a) t = None
  | DEpp t _ => assoc_get (a_epp a) t = None
  | DAvoid ts =>
      NoDup ts /\
      forall t, In t ts -> match a_avoid_insert a with Some m => assoc_get m t = None | None => True end
  | DExpect _ => a_expect a = None
  | DExpectRR _ => a_expectrr a = None
  | DActiontype _ => g = None
  | DParseParam _ _ | DParseGenerics _ | DExpectUnused _ => True
  | DImplicit ts =>
      NoDup ts /\
      forall t, In t ts -> match a_implicit_tokens a with Some m => assoc_get m t = None | None => True end
  end.

(* one declaration (keyword included) followed by another '%': one iteration of
   parse_declarations' loop adds exactly its effect and leaves the cursor after it *)
Definition decl_step_for (k : ykind) (x : adecl) : Prop :=
  forall src pre dl rest i f n a g e lvl,
    src = pre ++ print_decl dl x ++ 37%N :: rest -> i = byte_len pre ->
    wf_decl dl x -> decl_kind_ok k x -> decl_pre x a g ->
    exists n',
      decl_loop true k src (byte_len src) (fuel_for src) (S f) (mkSt n a g e) i lvl
      = decl_loop true k src (byte_len src) (fuel_for src) f
          (mkSt n' (decl_eff dl i lvl x a) (decl_gat dl i x g) e) (i + byte_len (print_decl dl x))
          (if is_prec x then S lvl else lvl).
Definition decl_step_stmt : Prop := forall k x, decl_step_for k x.

(* the chained precondition of a declaration list printed at [off] *)
Fixpoint decls_pre (l : layout) (d off lvl : nat) (ds : list adecl) (a : gast) (g : option (str * span)) : Prop :=
  match ds with
  | [] => True
  | x :: ds' =>
      decl_pre x a g /\
      decls_pre l (S d) (off + byte_len (print_decl (dlay_of l d) x)) (if is_prec x then S lvl else lvl) ds'
                (decl_eff (dlay_of l d) off lvl x a) (decl_gat (dlay_of l d) off x g)
  end.

(* the declarations section: leading layout, declarations, up to "%%" *)
Definition declarations_roundtrip_stmt : Prop :=
  forall k l ds src rest n a g e,
    src = l_gap l [0] ++ print_decls l 0 ds ++ kw_pp ++ rest ->
    layout_text (l_gap l [0]) -> wf_decls l 0 ds -> Forall (decl_kind_ok k) ds ->
    decls_pre l 0 (byte_len (l_gap l [0])) 0 ds a g ->
    exists n',
      parse_declarations true k src (byte_len src) (fuel_for src) (mkSt n a g e) 0
      = Done (mkSt n' (decls_eff l 0 (byte_len (l_gap l [0])) 0 ds a)
                   (decls_gat l 0 (byte_len (l_gap l [0])) ds g) e,
              Ok (byte_len (l_gap l [0]) + byte_len (print_decls l 0 ds))).

(* the syntactic conditions of [wf_agram] give the chained preconditions *)
Definition decls_pre_wf_stmt : Prop :=
  forall k l ag, wf_agram k ag -> decls_pre l 0 (decls_off l) 0 (ag_decls ag) ast_new None.
(* after the declarations the state knows exactly the %token names as declared *)
Definition decls_tok_inv_stmt : Prop :=
  forall l ag, tok_inv (declared_b ag) (decls_eff l 0 (decls_off l) 0 (ag_decls ag) ast_new).

(* validation of the denoted AST finds nothing *)
Definition validation_clean_stmt : Prop :=
  forall k fa fp l ag, wf_agram k ag -> wf_layout l ag ->
    complete_and_validate (ast_of fa fp l ag) = Done None.

(* ---- the whole file ----------------------------------------------------------- *)
(* parsing the printed grammar yields its AST, whatever the layout; the errors are
   exactly those of validating that AST *)
Definition yacc_parse_roundtrip_stmt : Prop :=
  forall k fa fp fu l ag, wf_agram k ag -> wf_layout l ag ->
    exists v,
      complete_and_validate (ast_of fa fp l ag) = Done v /\
      run_case true fa fp fu k (print l ag)
      = Done (TResult (ast_of fa fp l ag) (match v with Some e => [e] | None => [] end) (warnings_of fa fp fu l ag)).

Definition yacc_roundtrip_stmt : Prop :=
  forall k fa fp fu l ag, wf_agram k ag -> wf_layout l ag ->
    run_case true fa fp fu k (print l ag) = Done (TResult (ast_of fa fp l ag) [] (warnings_of fa fp fu l ag)).

(* the three dialects, by name *)
Definition yacc_roundtrip_original_stmt : Prop :=
  forall fa fp fu l ag, wf_agram KOriginal ag -> wf_layout l ag ->
    run_case true fa fp fu KOriginal (print l ag) = Done (TResult (ast_of fa fp l ag) [] (warnings_of fa fp fu l ag)).
Definition yacc_roundtrip_grmtools_stmt : Prop :=
  forall fa fp fu l ag, wf_agram KGrmtools ag -> wf_layout l ag ->
    run_case true fa fp fu KGrmtools (print l ag) = Done (TResult (ast_of fa fp l ag) [] (warnings_of fa fp fu l ag)).
Definition yacc_roundtrip_eco_stmt : Prop :=
  forall fa fp fu l ag, wf_agram KEco ag -> wf_layout l ag ->
    run_case true fa fp fu KEco (print l ag) = Done (TResult (ast_of fa fp l ag) [] (warnings_of fa fp fu l ag)).

(* ---- what the denoted AST contains: the abstract grammar, nothing else ----------- *)
Definition erase_sym (s : symbol) : asym :=
  match s with SRule n _ => ARule n | SToken n _ => ATok n end.
(* the rule block that owns each production, in order *)
Definition prod_owners (ag : agram) : list str :=
  flat_map (fun r => map (fun _ => ar_name r) (ar_prods r)) (ag_rules ag).
(* first occurrences *)
Fixpoint dedup (l : list str) : list str :=
  match l with
  | [] => []
  | x :: l' => x :: filter (fun y => negb (str_eqb x y)) (dedup l')
  end.
(* (token, level, kind) for every precedence line, levels counted from 0 in declaration order *)
Fixpoint prec_levels (lvl : nat) (ps : list (assoc * list str)) : list (str * nat * assoc) :=
  match ps with
  | [] => []
  | (k, ts) :: ps' => map (fun t => (t, lvl, k)) ts ++ prec_levels (S lvl) ps'
  end.
Definition has_avoid (ag : agram) : bool :=
  existsb (fun d => match d with DAvoid _ => true | _ => false end) (ag_decls ag).
Definition has_implicit (ag : agram) : bool :=
  existsb (fun d => match d with DImplicit _ => true | _ => false end) (ag_decls ag).
(* the action type of rule n: the one its (first) block carries, else the %actiontype *)
Definition rule_type (ag : agram) (n : str) : option str :=
  match find (fun r => str_eqb (ar_name r) n) (ag_rules ag) with
  | Some r => match ar_type r with Some t => Some t | None => ag_actiontype ag end
  | None => None
  end.

Definition ast_of_faithful_stmt : Prop :=
  forall k fa fp l ag, wf_agram k ag ->
    let A := ast_of fa fp l ag in
    (* productions: symbols (kind and name), %prec token, action text, in source order *)
    map (fun p => (map erase_sym (p_syms p), p_prec p, option_map fst (p_action p))) (a_prods A)
      = map (fun p => (ap_syms p, ap_prec p, ap_action p)) (flat_map ar_prods (ag_rules ag)) /\
    (* rules: one entry per distinct name in order of first block, owning exactly its blocks' productions *)
    map r_name (a_rules A) = dedup (map ar_name (ag_rules ag)) /\
    (forall r, In r (a_rules A) ->
       r_pidxs r = filter (fun i => str_eqb (nth i (prod_owners ag) []) (r_name r))
                          (seq 0 (List.length (prod_owners ag))) /\
       (* action type: the block's own (Grmtools dialect) or the %actiontype *)
       r_actiont r = rule_type ag (r_name r)) /\
    (* start rule: %start, else the first rule *)
    option_map fst (a_start A)
      = match ag_start ag with Some n => Some n | None => option_map ar_name (hd_error (ag_rules ag)) end /\
    (* precedences, %epp, %avoid_insert, %expect, %expect-rr *)
    map (fun x => (fst x, fst (fst (snd x)), snd (fst (snd x)))) (a_precs A) = prec_levels 0 (ag_precs ag) /\
    map (fun x => (fst x, fst (snd (snd x)))) (a_epp A) = ag_epp ag /\
    option_map (map fst) (a_avoid_insert A) = (if has_avoid ag then Some (ag_avoid ag) else None) /\
    option_map fst (a_expect A) = ag_expect ag /\
    option_map fst (a_expectrr A) = ag_expectrr ag /\
    (* %token-declared names; nothing else *)
    (forall n, is_declared A n = mem_str (ag_tokens ag) n) /\
    List.length (a_spans A) = List.length (a_tokens A) /\
    (* %implicit_tokens (Eco), %parse-param, %parse-generics, programs, %expect-unused *)
    option_map (map fst) (a_implicit_tokens A) = (if has_implicit ag then Some (ag_implicit ag) else None) /\
    a_parse_param A = ag_parse_param ag /\ a_parse_generics A = ag_parse_generics ag /\
    a_programs A = ag_programs ag /\ map erase_sym (a_expect_unused A) = ag_expect_unused ag.

(* the hypotheses of the round-trip theorems are satisfiable (witness: YpRoundExample.v) *)
Definition roundtrip_hyps_satisfiable_stmt : Prop :=
  forall k, exists l ag, wf_agram k ag /\ wf_layout l ag.

(* every rule block's action type is the action type of its rule: the one written after "->"
   (Grmtools dialect), else the %actiontype — this is where "blocks of one rule agree" is needed *)
Definition block_type (ag : agram) (x : arule) : option str :=
  match ar_type x with Some t => Some t | None => ag_actiontype ag end.
Definition ast_of_block_types_stmt : Prop :=
  forall k fa fp l ag, wf_agram k ag ->
    forall x, In x (ag_rules ag) ->
      exists r, In r (a_rules (ast_of fa fp l ag)) /\ r_name r = ar_name x /\ r_actiont r = block_type ag x.
