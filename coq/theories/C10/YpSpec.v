(* C10 half (b) / C12 (yacc part) — declarative definitions and statements about
   the mirror of YaccParser (YpModel.v). *)
From Coq Require Import List Arith NArith ZArith Bool Lia.
From GV Require Import Common.Outcome C10.YpModel.
Import ListNotations.
Local Open Scope nat_scope.

(* ---- layout: blanks, newlines, // comments, /* */ comments -------------- *)
(* code-point index of the first "*/" in a text *)
Fixpoint find_close (s : str) : option nat :=
  match s with
  | [] => None
  | c :: s' =>
      match s' with
      | d :: _ => if ((c =? c_star) && (d =? c_slash))%N then Some 0
                  else option_map S (find_close s')
      | [] => None
      end
  end.

Definition is_blank (c : N) : bool := is_sptab c || is_nl c.

Inductive layout_item : str -> Prop :=
| LI_blank : forall c, is_blank c = true -> layout_item [c]
| LI_line : forall body nl,
    forallb (fun c => negb (is_nl c)) body = true -> is_nl nl = true ->
    layout_item (c_slash :: c_slash :: body ++ [nl])
| LI_block : forall body,                         (* any text without "*/" *)
    find_close (body ++ [c_star; c_slash]) = Some (List.length body) ->
    layout_item (c_slash :: c_star :: body ++ [c_star; c_slash]).

Inductive layout_text : str -> Prop :=
| LT_nil : layout_text []
| LT_cons : forall it rest, layout_item it -> layout_text rest -> layout_text (it ++ rest).

(* what parse_ws stops at: end of text, a lone '/' at the end, '/' followed by
   something that opens no comment, or any non-blank character *)
Definition starts_solid (rest : str) : Prop :=
  match rest with
  | [] => True
  | c :: r =>
      is_blank c = false /\
      (c = c_slash -> match r with [] => True | d :: _ => d <> c_slash /\ d <> c_star end)
  end.

Definition count_nl (s : str) : nat := List.length (filter is_nl s).

(* parse_ws skips exactly the layout: for every text pre ++ l ++ rest with l a
   layout text and rest starting solid, parse_ws at |pre| returns |pre| + |l|
   and has counted the newline characters of l.  [inc = false] (the call after
   a directive keyword) is covered for layouts without newline characters. *)
Definition ws_skips_layout_for (fixed : bool) : Prop :=
  forall (pre l rest : str) (nn : nat) (inc : bool),
    layout_text l -> starts_solid rest ->
    (inc = false -> count_nl l = 0) ->
    let src := pre ++ l ++ rest in
    parse_ws fixed src (byte_len src) (fuel_for src) nn (byte_len pre) inc
    = Done (Ok (byte_len pre + byte_len l, nn + count_nl l)).

Definition ws_skips_layout_fixed_stmt : Prop := ws_skips_layout_for true.

(* the code as it is: refuted (DESIGN §9, parser.rs:1006-1026) *)
Definition ws_skips_layout_refuted_stmt : Prop :=
  exists (pre l rest : str) (nn : nat),
    layout_text l /\ starts_solid rest /\
    let src := pre ++ l ++ rest in
    parse_ws false src (byte_len src) (fuel_for src) nn (byte_len pre) true
    <> Done (Ok (byte_len pre + byte_len l, nn + count_nl l)).
