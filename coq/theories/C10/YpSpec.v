(* C10 half (b) / C12 (yacc part) — declarative definitions and statements about
   the mirror of YaccParser (YpModel.v). *)
From Coq Require Import List Arith NArith ZArith Bool Lia.
From GV Require Import Common.Outcome C10.YpModel.
Import ListNotations.
Local Open Scope nat_scope.

(* ---- layout: blanks, newlines, // comments, /* */ comments -------------- *)
(* code-point index of the first "*/" in a text *)
Fixpoint find_close (s : str) : option nat :=
  match s with
  | [] => None
  | c :: s' =>
      match s' with
      | d :: _ => if ((c =? c_star) && (d =? c_slash))%N then Some 0
                  else option_map S (find_close s')
      | [] => None
      end
  end.

Definition is_blank (c : N) : bool := is_sptab c || is_nl c.
Definition count_nl (s : str) : nat := List.length (filter is_nl s).

Inductive layout_item : str -> Prop :=
| LI_blank : forall c, is_blank c = true -> layout_item [c]
| LI_line : forall body nl,
    forallb (fun c => negb (is_nl c)) body = true -> is_nl nl = true ->
    layout_item (c_slash :: c_slash :: body ++ [nl])
| LI_block : forall body,                         (* any text without "*/" *)
    find_close (body ++ [c_star; c_slash]) = Some (List.length body) ->
    layout_item (c_slash :: c_star :: body ++ [c_star; c_slash]).

Inductive layout_text : str -> Prop :=
| LT_nil : layout_text []
| LT_cons : forall it rest, layout_item it -> layout_text rest -> layout_text (it ++ rest).

(* the layout parse_ws accepts when newlines are not allowed ([inc_newlines = false], the
   gap after a directive keyword): blanks and /* */ comments without newline character —
   and // comments, whose terminating newline the code consumes without looking at the flag *)
Inductive line_layout : str -> Prop :=
| LL_nil : line_layout []
| LL_cons : forall it rest, layout_item it ->
    (count_nl it = 0 \/ exists r, it = c_slash :: c_slash :: r) ->
    line_layout rest -> line_layout (it ++ rest).

(* what parse_ws stops at: end of text, a lone '/' at the end, '/' followed by
   something that opens no comment, or any non-blank character *)
Definition starts_solid (rest : str) : Prop :=
  match rest with
  | [] => True
  | c :: r =>
      is_blank c = false /\
      (c = c_slash -> match r with [] => True | d :: _ => d <> c_slash /\ d <> c_star end)
  end.

(* parse_ws skips exactly the layout: for every text pre ++ l ++ rest with l a
   layout text and rest starting solid, parse_ws at |pre| returns |pre| + |l|
   and has counted the newline characters of l.  [inc = false] (the call after
   a directive keyword) is covered for layouts without newline characters. *)
Definition ws_skips_layout_for (fixed : bool) : Prop :=
  forall (pre l rest : str) (nn : nat) (inc : bool),
    layout_text l -> starts_solid rest ->
    (inc = false -> count_nl l = 0) ->
    let src := pre ++ l ++ rest in
    parse_ws fixed src (byte_len src) (fuel_for src) nn (byte_len pre) inc
    = Done (Ok (byte_len pre + byte_len l, nn + count_nl l)).

Definition ws_skips_layout_fixed_stmt : Prop := ws_skips_layout_for true.

(* ... and [inc = false] in full: every line layout is skipped (newlines of // comments counted) *)
Definition ws_skips_line_layout_stmt : Prop :=
  forall (pre l rest : str) (nn : nat),
    line_layout l -> starts_solid rest ->
    let src := pre ++ l ++ rest in
    parse_ws true src (byte_len src) (fuel_for src) nn (byte_len pre) false
    = Done (Ok (byte_len pre + byte_len l, nn + count_nl l)).

(* the code as it is: refuted (DESIGN §9, parser.rs:1006-1026) *)
Definition ws_skips_layout_refuted_stmt : Prop :=
  exists (pre l rest : str) (nn : nat),
    layout_text l /\ starts_solid rest /\
    let src := pre ++ l ++ rest in
    parse_ws false src (byte_len src) (fuel_for src) nn (byte_len pre) true
    <> Done (Ok (byte_len pre + byte_len l, nn + count_nl l)).

(* ---- lexical round trips --------------------------------------------------- *)
(* printed forms *)
Definition is_name (n : str) : bool :=
  match n with c :: r => name_start c && forallb name_cont r | [] => false end.
Definition is_ident (n : str) : bool :=
  match n with c :: r => tok_start c && forallb tok_cont r | [] => false end.
Definition not_starting (p : N -> bool) (rest : str) : Prop :=
  match rest with [] => True | c :: _ => p c = false end.

(* a name as printed: the name itself, followed by something that cannot continue it *)
Definition parse_name_roundtrip_stmt : Prop :=
  forall pre n rest, is_name n = true -> not_starting name_cont rest ->
    let src := pre ++ n ++ rest in
    parse_name src (byte_len pre) = Done (Ok (byte_len pre + byte_len n, n))
    /\ slice src (byte_len pre) (byte_len pre + byte_len n) = Done n.

(* a token written as a bare identifier *)
Definition parse_token_bare_roundtrip_stmt : Prop :=
  forall pre n rest, is_ident n = true -> not_starting tok_cont rest ->
    let src := pre ++ n ++ rest in
    parse_token src (byte_len pre)
    = Done (Ok (byte_len pre + byte_len n, n, (byte_len pre, byte_len pre + byte_len n), false))
    /\ slice src (byte_len pre) (byte_len pre + byte_len n) = Done n.

(* a token written between quotes q (either kind): any non-empty name without q
   and without '\n'; the span selects the name, not the quotes *)
Definition parse_token_quoted_roundtrip_stmt : Prop :=
  forall pre q n rest,
    (q = c_sq \/ q = c_dq) -> n <> [] ->
    forallb (fun c => negb (c =? q)%N && negb (c =? c_nl)%N) n = true ->
    let src := pre ++ q :: n ++ q :: rest in
    parse_token src (byte_len pre)
    = Done (Ok (byte_len pre + byte_len n + 2, n,
                (byte_len pre + 1, byte_len pre + 1 + byte_len n), true))
    /\ slice src (byte_len pre + 1) (byte_len pre + 1 + byte_len n) = Done n.

(* %epp strings: v printed between quotes q with every q (and optionally the
   other quote) escaped by a backslash; v has no newline and no backslash *)
Inductive escaped (q : N) : str -> str -> Prop :=
| Esc_nil : escaped q [] []
| Esc_plain : forall c v b,
    c <> q -> c <> c_bslash -> is_nl c = false -> escaped q v b -> escaped q (c :: v) (c :: b)
| Esc_quote : forall c v b,
    (c = c_sq \/ c = c_dq) -> escaped q v b -> escaped q (c :: v) (c_bslash :: c :: b).

Definition parse_string_roundtrip_stmt : Prop :=
  forall pre q v body rest,
    (q = c_sq \/ q = c_dq) -> escaped q v body ->
    let src := pre ++ q :: body ++ q :: rest in
    parse_string src (byte_len src) (fuel_for src) (byte_len pre)
    = Done (Ok (byte_len pre + byte_len body + 2, v)).

(* %expect numbers: a non-empty digit string denoting a value <= usize::MAX *)
Definition parse_int_roundtrip_stmt : Prop :=
  forall pre ds rest v,
    ds <> [] -> forallb is_digit ds = true -> parse_usize ds = Some v ->
    not_starting is_digit rest ->
    let src := pre ++ ds ++ rest in
    parse_int src (byte_len src) (fuel_for src) (byte_len pre)
    = Done (Ok (byte_len pre + byte_len ds, v))
    /\ slice src (byte_len pre) (byte_len pre + byte_len ds) = Done ds.

(* Horner value of a digit string, the meaning of [parse_usize] *)
Fixpoint dec_value (acc : N) (ds : str) : N :=
  match ds with [] => acc | d :: r => dec_value (acc * 10 + (d - 48))%N r end.
Definition parse_usize_value_stmt : Prop :=
  forall ds, ds <> [] -> (dec_value 0 ds <= usize_max)%N -> parse_usize ds = Some (dec_value 0 ds).

(* ---- totality (C12, yacc part) --------------------------------------------- *)
(* ASTWithValidityInfo::new as mirrored, run with fuel |src| + 1, always returns:
   it never reaches a Panic site (slice off a boundary / out of range, unwrap,
   Span::new with end < start, index out of bounds, debug_assert!) and no loop
   runs out of fuel — for the code as it is and for every combination of the repairs *)
Definition yacc_parse_total_stmt : Prop :=
  forall (fixed fixed_aspan fixed_pspan fixed_precused : bool) (kind : ykind) (src : str),
    exists r, run_case fixed fixed_aspan fixed_pspan fixed_precused kind src = Done r.

(* ---- action spans ----------------------------------------------------------- *)
(* the span stored with an action selects the action text *)
Definition action_ok (src : str) (act : option (str * span)) : Prop :=
  match act with Some (t, (s, e)) => slice src s e = Done t | None => True end.

Definition action_spans_select_for (fixed_aspan : bool) : Prop :=
  forall fixed fixed_pspan fixed_precused kind src a errs w,
    run_case fixed fixed_aspan fixed_pspan fixed_precused kind src = Done (TResult a errs w) ->
    Forall (fun p => action_ok src (p_action p)) (a_prods a).

(* with the proposed repair: for every source text whatsoever *)
Definition action_span_fixed_stmt : Prop := action_spans_select_for true.

(* the code as it is: refuted (parser.rs:742) *)
Definition action_span_refuted_stmt : Prop :=
  exists fixed kind src, forall fixed_pspan fixed_precused,
    match run_case fixed false fixed_pspan fixed_precused kind src with
    | Done (TResult a _ _) => ~ Forall (fun p => action_ok src (p_action p)) (a_prods a)
    | _ => False
    end.
