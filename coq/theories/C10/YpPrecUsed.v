(* C10 / C03 -- GrammarAST::unused_symbols and the tokens named by %prec: proofs of the five
   statements of YpPrecUsedSpec.v.

   General part (every AST whatsoever, no well-formedness):
     [fold_seen]        what one walk over the symbols of a production adds to the work list, to
                        seen_rules and to seen_tokens;
     [seen_loop_inv]    invariant of the work-list loop, stated against the FINAL pair
                        (seen_rules, seen_tokens): every index still on the work list, and every
                        production of every rule in seen_rules, has been processed ([Processed]:
                        its rule symbols are in seen_rules, its token symbols in seen_tokens and,
                        for the code as it is, its %prec token is in seen_tokens);
     [seen_of_closed]   the same for the walk started at the start rule;
     [reach_processed]  hence every production of every reachable rule (reachability as in
                        YpPrecUsedSpec.v, independent of the work list) has been processed;
     [toks_skip]        the token loop of unused_symbols never reports a token its skip test accepts;
     [prec_token_is_used], [symbol_token_is_used], [warnings_are_unused].

   Witnesses:
     [um_src] / [um_ast]  the textbook unary-minus grammar: the pinned code reports UMINUS as an
                          unused token although the production carrying it is reachable
                          ([prec_only_token_unused_refuted]); the code as it is reports nothing;
     [ur_src] / [ur_ast]  a %prec token of an unreachable production is still reported by the code
                          as it is ([prec_token_unreachable_reported]).
   The examples [prec_token_is_used_sat] and [symbol_token_is_used_sat] show that the hypotheses of
   the two general theorems are satisfiable (on [um_ast]). *)
From Coq Require Import List Arith NArith Bool Strings.String Strings.Ascii.
From GV Require Import Common.Outcome C10.YpModel C10.YpPrecUsedSpec.
Import ListNotations.
Local Open Scope nat_scope.

(* ---- strings and string sets ------------------------------------------------ *)
Lemma pu_str_eqb_eq : forall a b, str_eqb a b = true <-> a = b.
Proof.
  induction a as [|x a IH]; intros [|y b]; simpl; split; intros H; try reflexivity; try discriminate H.
  - apply andb_true_iff in H. destruct H as [H1 H2]. apply N.eqb_eq in H1. apply IH in H2. congruence.
  - injection H as -> ->. apply andb_true_iff. split; [apply N.eqb_refl | apply IH; reflexivity].
Qed.

Lemma pu_mem_str_in : forall l n, mem_str l n = true <-> In n l.
Proof.
  intros l n. unfold mem_str. rewrite existsb_exists. split.
  - intros [x [Hx He]]. apply pu_str_eqb_eq in He. subst x. exact Hx.
  - intros H. exists n. split; [exact H | apply pu_str_eqb_eq; reflexivity].
Qed.

Lemma pu_add_str_in : forall l n x, In x (add_str l n) <-> x = n \/ In x l.
Proof.
  intros l n x. unfold add_str. destruct (mem_str l n) eqn:E.
  - apply pu_mem_str_in in E. split; [intros H; right; exact H | intros [->|H]; assumption].
  - simpl. split; [intros [<-|H]; [left; reflexivity | right; exact H] | intros [->|H]; [left; reflexivity | right; exact H]].
Qed.

Lemma pu_get_rule_name : forall rs n r, get_rule rs n = Some r -> r_name r = n.
Proof.
  induction rs as [|x rs IH]; intros n r H; simpl in H; [discriminate H|].
  destruct (str_eqb (r_name x) n) eqn:E.
  - injection H as <-. apply pu_str_eqb_eq. exact E.
  - apply IH. exact H.
Qed.

(* ---- one walk over the symbols of a production ------------------------------ *)
Lemma seen_sym_step : forall a s td sr stk td1 sr1 stk1,
  seen_sym a (td, sr, stk) s = (td1, sr1, stk1) ->
  incl td td1 /\ incl sr sr1 /\ incl stk stk1 /\
  (forall m sp, s = SRule m sp -> In m sr1) /\
  (forall n sp, s = SToken n sp -> In n stk1) /\
  (forall m, In m sr1 -> In m sr \/ forall r, get_rule (a_rules a) m = Some r -> incl (r_pidxs r) td1).
Proof.
  intros a s td sr stk td1 sr1 stk1 H. destruct s as [n sp|n sp]; simpl in H.
  - destruct (mem_str sr n) eqn:E.
    + injection H as <- <- <-. apply pu_mem_str_in in E.
      repeat split; try apply incl_refl.
      * intros m sp' Hm. injection Hm as <- _. exact E.
      * intros m sp' Hm. discriminate Hm.
      * intros m Hm. left. exact Hm.
    + destruct (get_rule (a_rules a) n) as [r|] eqn:G; injection H as <- <- <-.
      * repeat split; try apply incl_refl.
        -- apply incl_appl. apply incl_refl.
        -- apply incl_tl. apply incl_refl.
        -- intros m sp' Hm. injection Hm as <- _. left. reflexivity.
        -- intros m sp' Hm. discriminate Hm.
        -- intros m [<-|Hm]; [|left; exact Hm]. right. intros r' Hr'. rewrite G in Hr'.
           injection Hr' as <-. apply incl_appr. apply incl_refl.
      * repeat split; try apply incl_refl.
        -- apply incl_tl. apply incl_refl.
        -- intros m sp' Hm. injection Hm as <- _. left. reflexivity.
        -- intros m sp' Hm. discriminate Hm.
        -- intros m [<-|Hm]; [|left; exact Hm]. right. intros r' Hr'. rewrite G in Hr'. discriminate Hr'.
  - injection H as <- <- <-. repeat split; try apply incl_refl.
    + intros x Hx. apply pu_add_str_in. right. exact Hx.
    + intros m sp' Hm. discriminate Hm.
    + intros m sp' Hm. injection Hm as <- _. apply pu_add_str_in. left. reflexivity.
    + intros m Hm. left. exact Hm.
Qed.

Lemma fold_seen : forall a syms td sr stk td' sr' stk',
  fold_left (seen_sym a) syms (td, sr, stk) = (td', sr', stk') ->
  incl td td' /\ incl sr sr' /\ incl stk stk' /\
  (forall m sp, In (SRule m sp) syms -> In m sr') /\
  (forall n sp, In (SToken n sp) syms -> In n stk') /\
  (forall m, In m sr' -> In m sr \/ forall r, get_rule (a_rules a) m = Some r -> incl (r_pidxs r) td').
Proof.
  intros a. induction syms as [|s syms IH]; intros td sr stk td' sr' stk' H.
  - simpl in H. injection H as <- <- <-. repeat split; try apply incl_refl.
    + intros m sp [].
    + intros n sp [].
    + intros m Hm. left. exact Hm.
  - cbn [fold_left] in H. destruct (seen_sym a (td, sr, stk) s) as [[td1 sr1] stk1] eqn:E1.
    apply seen_sym_step in E1. destruct E1 as (A1 & A2 & A3 & A4 & A5 & A6).
    apply IH in H. destruct H as (B1 & B2 & B3 & B4 & B5 & B6).
    repeat split.
    + eapply incl_tran; eassumption.
    + eapply incl_tran; eassumption.
    + eapply incl_tran; eassumption.
    + intros m sp [->|Hm]; [apply B2; eapply A4; reflexivity | eapply B4; exact Hm].
    + intros n sp [->|Hn]; [apply B3; eapply A5; reflexivity | eapply B5; exact Hn].
    + intros m Hm. destruct (B6 m Hm) as [Hm1|Hr]; [|right; exact Hr].
      destruct (A6 m Hm1) as [Hm0|Hr]; [left; exact Hm0|].
      right. intros r Hg. eapply incl_tran; [apply Hr; exact Hg | exact B1].
Qed.

Lemma seen_prec_spec : forall fu p st,
  incl st (seen_prec fu p st) /\ (fu = true -> forall n, p_prec p = Some n -> In n (seen_prec fu p st)).
Proof.
  intros fu p st. unfold seen_prec. destruct fu.
  - destruct (p_prec p) as [n|].
    + split; [intros x Hx; apply pu_add_str_in; right; exact Hx|].
      intros _ n' Hn. injection Hn as <-. apply pu_add_str_in. left. reflexivity.
    + split; [apply incl_refl | intros _ n Hn; discriminate Hn].
  - split; [apply incl_refl | intros Hf; discriminate Hf].
Qed.

(* ---- the work-list loop ------------------------------------------------------ *)
Definition Processed (fu : bool) (a : gast) (SR ST : list str) (pidx : nat) : Prop :=
  forall p, nth_error (a_prods a) pidx = Some p ->
    (forall m sp, In (SRule m sp) (p_syms p) -> In m SR) /\
    (forall n sp, In (SToken n sp) (p_syms p) -> In n ST) /\
    (fu = true -> forall n, p_prec p = Some n -> In n ST).

Lemma seen_loop_inv : forall fu a f todo sr st SR ST,
  seen_loop fu f a todo sr st = Done (SR, ST) ->
  incl sr SR /\ incl st ST /\
  (forall pidx, In pidx todo -> Processed fu a SR ST pidx) /\
  (forall m, In m SR -> In m sr \/
     forall r, get_rule (a_rules a) m = Some r -> forall pidx, In pidx (r_pidxs r) -> Processed fu a SR ST pidx).
Proof.
  intros fu a. induction f as [|f IH]; intros todo sr st SR ST H; simpl in H; [discriminate H|].
  destruct (rev todo) as [|pidx rtodo] eqn:Er.
  - injection H as <- <-.
    assert (Et : todo = []) by (rewrite <- (rev_involutive todo), Er; reflexivity).
    subst todo. refine (conj _ (conj _ (conj _ _))); try apply incl_refl.
    + intros x [].
    + intros m Hm. left. exact Hm.
  - assert (Et : todo = rev rtodo ++ [pidx]) by (rewrite <- (rev_involutive todo), Er; reflexivity).
    unfold nth_checked in H. destruct (nth_error (a_prods a) pidx) as [p|] eqn:En; cbn [obind] in H; [|discriminate H].
    destruct (fold_left (seen_sym a) (p_syms p) (rev rtodo, sr, seen_prec fu p st)) as [[td' sr'] stk'] eqn:F.
    apply fold_seen in F. destruct F as (F1 & F2 & F3 & F4 & F5 & F6).
    apply IH in H. destruct H as (I1 & I2 & I3 & I4).
    destruct (seen_prec_spec fu p st) as [P1 P2].
    refine (conj _ (conj _ (conj _ _))).
    + eapply incl_tran; eassumption.
    + eapply incl_tran; [exact P1 | eapply incl_tran; eassumption].
    + intros x Hx. subst todo. apply in_app_or in Hx. destruct Hx as [Hx|[<-|[]]].
      * apply I3. apply F1. exact Hx.
      * intros p0 Hp0. rewrite En in Hp0. injection Hp0 as <-. refine (conj _ (conj _ _)).
        -- intros m sp Hm. apply I1. eapply F4. exact Hm.
        -- intros n sp Hn. apply I2. eapply F5. exact Hn.
        -- intros Hfu n Hn. apply I2. apply F3. apply P2; assumption.
    + intros m Hm. destruct (I4 m Hm) as [Hm'|Hr]; [|right; exact Hr].
      destruct (F6 m Hm') as [Hm0|Hr]; [left; exact Hm0|].
      right. intros r Hg x Hx. apply I3. eapply Hr; eassumption.
Qed.

Lemma seen_of_closed : forall fu a SR ST, seen_of fu a = Done (SR, ST) ->
  (forall n sp r, a_start a = Some (n, sp) -> get_rule (a_rules a) n = Some r ->
     forall pidx, In pidx (r_pidxs r) -> Processed fu a SR ST pidx) /\
  (forall m, In m SR -> forall r, get_rule (a_rules a) m = Some r ->
     forall pidx, In pidx (r_pidxs r) -> Processed fu a SR ST pidx).
Proof.
  intros fu a SR ST H. unfold seen_of in H.
  destruct (a_start a) as [[n0 sp0]|] eqn:Es.
  - destruct (get_rule (a_rules a) n0) as [r0|] eqn:G0.
    + apply seen_loop_inv in H. destruct H as (_ & _ & I3 & I4). split.
      * intros n sp r Hs Hg. injection Hs as <- _. rewrite G0 in Hg. injection Hg as <-. exact I3.
      * intros m Hm r Hg x Hx. destruct (I4 m Hm) as [[<-|[]]|Hr]; [|eapply Hr; eassumption].
        rewrite (pu_get_rule_name _ _ _ G0) in Hg. rewrite G0 in Hg. injection Hg as <-. apply I3. exact Hx.
    + injection H as <- <-. split.
      * intros n sp r Hs Hg. injection Hs as <- _. rewrite G0 in Hg. discriminate Hg.
      * intros m [].
  - injection H as <- <-. split.
    + intros n sp r Hs. discriminate Hs.
    + intros m [].
Qed.

Lemma reach_processed : forall fu a SR ST, seen_of fu a = Done (SR, ST) ->
  forall m, reach_rule a m -> forall r, get_rule (a_rules a) m = Some r ->
  forall pidx, In pidx (r_pidxs r) -> Processed fu a SR ST pidx.
Proof.
  intros fu a SR ST H. destruct (seen_of_closed _ _ _ _ H) as [C1 C2].
  intros m Hm. induction Hm as [n sp Hs|rn p m sp Hrn IH Hp Hin].
  - intros r Hg. eapply C1; eassumption.
  - destruct Hp as (r0 & pidx0 & G0 & Hi0 & Hn0).
    destruct (IH r0 G0 pidx0 Hi0 p Hn0) as (Q1 & _ & _).
    apply C2. eapply Q1. exact Hin.
Qed.

Lemma reach_prod_processed : forall fu a SR ST p, seen_of fu a = Done (SR, ST) -> reach_prod a p ->
  (forall m sp, In (SRule m sp) (p_syms p) -> In m SR) /\
  (forall n sp, In (SToken n sp) (p_syms p) -> In n ST) /\
  (fu = true -> forall n, p_prec p = Some n -> In n ST).
Proof.
  intros fu a SR ST p H (rn & Hrn & r & pidx & G & Hi & Hn).
  exact (reach_processed _ _ _ _ H rn Hrn r G pidx Hi p Hn).
Qed.

(* ---- the token loop of unused_symbols, with its skip test abstracted ---------- *)
Lemma toks_skip : forall (c : str -> bool) (spans : list span) l k r n sp,
  (fix toks (l : list str) (k : nat) {struct l} : outcome (list (wkind * str * span)) :=
     match l with
     | [] => Done []
     | t :: l' =>
         do rest <- toks l' (S k);
         if c t then Done rest
         else do sp <- nth_checked spans k; Done ((UnusedToken, t, sp) :: rest)
     end) l k = Done r -> In (UnusedToken, n, sp) r -> c n = false.
Proof.
  intros c spans. induction l as [|t l IH]; intros k r n sp H Hin.
  - injection H as <-. destruct Hin.
  - match type of H with obind ?x _ = _ => destruct x as [rest| |] eqn:Hr end; cbn [obind] in H;
      try discriminate H.
    destruct (c t) eqn:Ec; [injection H as <-; eapply IH; eassumption|].
    unfold nth_checked in H. destruct (nth_error spans k) as [sp0|]; cbn [obind] in H; [|discriminate H].
    injection H as <-. destruct Hin as [Hin|Hin].
    + injection Hin as <- _. exact Ec.
    + eapply IH; eassumption.
Qed.

(* a token in seen_tokens is not reported *)
Lemma seen_token_not_unused : forall fu a SR ST us n sp,
  seen_of fu a = Done (SR, ST) -> unused fu a = Done us -> In n ST -> ~ In (UnusedToken, n, sp) us.
Proof.
  intros fu a SR ST us n sp Hs H Hn Hin. unfold unused in H. rewrite Hs in H. cbn [obind] in H.
  match type of H with obind ?x _ = _ => destruct x as [wt| |] eqn:Hwt end; cbn [obind] in H;
    try discriminate H.
  injection H as <-. apply in_app_or in Hin. destruct Hin as [Hin|Hin].
  - apply in_flat_map in Hin. destruct Hin as [r [_ Hin]].
    destruct (_ || _) in Hin; [destruct Hin|]. destruct Hin as [Hin|[]]. discriminate Hin.
  - pose proof (toks_skip _ _ _ _ _ _ _ Hwt Hin) as Hc. cbv beta in Hc.
    apply orb_false_iff in Hc. destruct Hc as [_ Hc].
    apply pu_mem_str_in in Hn. rewrite Hn in Hc. discriminate Hc.
Qed.

Lemma unused_seen_of : forall fu a us, unused fu a = Done us -> exists SR ST, seen_of fu a = Done (SR, ST).
Proof.
  intros fu a us H. unfold unused in H. destruct (seen_of fu a) as [[SR ST]| |]; cbn [obind] in H; try discriminate H.
  exists SR, ST. reflexivity.
Qed.

(* ---- the three general theorems ----------------------------------------------- *)
Theorem prec_token_is_used : prec_token_is_used_stmt.
Proof.
  intros a us p n sp H Hr Hp. destruct (unused_seen_of _ _ _ H) as (SR & ST & Hs).
  destruct (reach_prod_processed _ _ _ _ _ Hs Hr) as (_ & _ & Q).
  eapply seen_token_not_unused; [exact Hs | exact H | apply Q; [reflexivity | exact Hp]].
Qed.

Theorem symbol_token_is_used : symbol_token_is_used_stmt.
Proof.
  intros fu a us p n sp sp' H Hr Hp. destruct (unused_seen_of _ _ _ H) as (SR & ST & Hs).
  destruct (reach_prod_processed _ _ _ _ _ Hs Hr) as (_ & Q & _).
  eapply seen_token_not_unused; [exact Hs | exact H | eapply Q; exact Hp].
Qed.

Theorem warnings_are_unused : warnings_are_unused_stmt.
Proof.
  intros fu a ws. unfold warnings. destruct (unused fu a) as [us| |]; cbn [obind]; split.
  - intros H. injection H as <-. exists us. split; reflexivity.
  - intros (us' & H & ->). injection H as <-. reflexivity.
  - intros H. discriminate H.
  - intros (us' & H & _). discriminate H.
  - intros H. discriminate H.
  - intros (us' & H & _). discriminate H.
Qed.

(* ---- witness 1: the unary-minus grammar ---------------------------------------- *)
Definition pu_lf : str := [10%N].
Definition pu_ast0 : gast :=
  mkAst None [] [] [] [] [] [] None None [] None None None None None [].

Definition um_src : str :=
  lit "%start E" ++ pu_lf ++ lit "%left '-'" ++ pu_lf ++ lit "%left UMINUS" ++ pu_lf ++ lit "%%" ++ pu_lf ++
  lit "E: E '-' E | '-' E %prec UMINUS | 'n';" ++ pu_lf.

Definition um_ast : gast :=
  Eval vm_compute in
    match run_case true false true false KOriginal um_src with
    | Done (TResult a _ _) => a
    | _ => pu_ast0
    end.

(* the production '-' E %prec UMINUS *)
Definition um_prod : production :=
  Eval vm_compute in nth 1 (a_prods um_ast) (mkProd [] None None (0, 0)).

Lemma um_prod_reachable : reach_prod um_ast um_prod.
Proof.
  exists (lit "E"). split.
  - eapply reach_start. vm_compute. reflexivity.
  - eexists. exists 1. split; [vm_compute; reflexivity|]. split; [vm_compute; tauto | vm_compute; reflexivity].
Qed.

Theorem prec_only_token_unused_refuted : prec_only_token_unused_refuted_stmt.
Proof.
  exists um_src, um_ast, [(UnusedToken, lit "UMINUS", (60, 66))], um_prod, (lit "UMINUS"), (60, 66).
  split; [vm_compute; reflexivity|].
  split; [vm_compute; reflexivity|].
  split; [exact um_prod_reachable|].
  split; [vm_compute; reflexivity|].
  split; [vm_compute; left; reflexivity|].
  vm_compute. reflexivity.
Qed.

(* the hypotheses of the two general theorems are satisfiable *)
Example prec_token_is_used_sat :
  unused true um_ast = Done [] /\ reach_prod um_ast um_prod /\ p_prec um_prod = Some (lit "UMINUS").
Proof.
  split; [vm_compute; reflexivity|]. split; [exact um_prod_reachable | vm_compute; reflexivity].
Qed.

Example symbol_token_is_used_sat :
  unused false um_ast = Done [(UnusedToken, lit "UMINUS", (60, 66))] /\ reach_prod um_ast um_prod /\
  In (SToken (lit "-") (49, 50)) (p_syms um_prod).
Proof.
  split; [vm_compute; reflexivity|]. split; [exact um_prod_reachable | vm_compute; left; reflexivity].
Qed.

(* ---- witness 2: a %prec token of an unreachable production ---------------------- *)
Definition ur_src : str :=
  lit "%start E" ++ pu_lf ++ lit "%left UM" ++ pu_lf ++ lit "%expect-unused X" ++ pu_lf ++ lit "%%" ++ pu_lf ++
  lit "E: 'n';" ++ pu_lf ++ lit "X: 'n' %prec UM;" ++ pu_lf.

Definition ur_ast : gast :=
  Eval vm_compute in
    match run_case true false true true KOriginal ur_src with
    | Done (TResult a _ _) => a
    | _ => pu_ast0
    end.

Definition ur_prod_e : production :=
  Eval vm_compute in nth 0 (a_prods ur_ast) (mkProd [] None None (0, 0)).
(* the production of X: 'n' %prec UM *)
Definition ur_prod_x : production :=
  Eval vm_compute in nth 1 (a_prods ur_ast) (mkProd [] None None (0, 0)).

Lemma ur_rule_prod_e : forall p, rule_prod ur_ast (lit "E") p -> p = ur_prod_e.
Proof.
  intros p (r & pidx & G & Hi & Hn). vm_compute in G. injection G as <-.
  simpl in Hi. destruct Hi as [<-|[]]. vm_compute in Hn. injection Hn as <-. reflexivity.
Qed.

Lemma ur_reach_only_e : forall m, reach_rule ur_ast m -> m = lit "E".
Proof.
  intros m H. induction H as [n sp Hs|rn p m sp Hrn IH Hp Hin].
  - vm_compute in Hs. injection Hs as <- _. reflexivity.
  - subst rn. apply ur_rule_prod_e in Hp. subst p. vm_compute in Hin.
    destruct Hin as [Hin|[]]. discriminate Hin.
Qed.

Theorem prec_token_unreachable_reported : prec_token_unreachable_reported_stmt.
Proof.
  exists ur_src, ur_ast, [(UnusedToken, lit "UM", (59, 61))], ur_prod_x, (lit "UM"), (59, 61).
  split; [vm_compute; reflexivity|].
  split; [vm_compute; reflexivity|].
  split; [vm_compute; right; left; reflexivity|].
  split.
  { intros (rn & Hrn & Hp). apply ur_reach_only_e in Hrn. subst rn.
    apply ur_rule_prod_e in Hp. discriminate Hp. }
  split; [vm_compute; reflexivity|].
  vm_compute. left. reflexivity.
Qed.

Print Assumptions prec_token_is_used.
Print Assumptions symbol_token_is_used.
Print Assumptions warnings_are_unused.
Print Assumptions prec_only_token_unused_refuted.
Print Assumptions prec_token_unreachable_reported.
