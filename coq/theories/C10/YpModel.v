(* C10 half (b) / C12 — character-level mirror of cfgrammar/src/lib/yacc/parser.rs
   (YaccParser) and of GrammarAST::complete_and_validate / warnings
   (cfgrammar/src/lib/yacc/ast.rs).

   Texts are lists of Unicode code points ([N]); the cursor [i] is a UTF-8 byte
   offset.  Every [&src[i..]] / [&src[i..j]] is [slice_from] / [slice] and
   returns [Panic] off a character boundary or out of range; [unwrap],
   [Span::new] with end < start, indexing and [debug_assert!] are [Panic]
   outcomes too.  Every [while] loop runs on [fuel] ([OutOfFuel] when exhausted).
   The two regexes RE_NAME / RE_TOKEN are explicit ASCII scanners.

   The functions follow the Rust control flow one by one and keep the Rust
   names.  [fixed = false] is the code as it is; [fixed = true] adds the
   proposed one-line repair of the block-comment scan ([continue] after a
   newline inside [/* */]).

   Definitions only; statements are in YpSpec.v, proofs in YpProofs.v. *)
From Coq Require Import List Arith NArith ZArith Bool Lia Strings.String Strings.Ascii.
From GV Require Import Common.Outcome.
Import ListNotations.
Local Open Scope nat_scope.

Definition str := list N.
Definition span := (nat * nat)%type.

(* a Rust string literal as code points *)
Definition lit (s : string) : str := map N_of_ascii (list_ascii_of_string s).

(* char::len_utf8 *)
Definition len_utf8 (c : N) : nat :=
  if (c <? 128)%N then 1
  else if (c <? 2048)%N then 2
  else if (c <? 65536)%N then 3
  else 4.

Fixpoint byte_len (s : str) : nat :=
  match s with [] => 0 | c :: s' => len_utf8 c + byte_len s' end.

(* &src[i..] *)
Fixpoint slice_from (src : str) (i : nat) : outcome str :=
  match i with
  | 0 => Done src
  | _ => match src with
         | [] => Panic
         | ch :: src' => if len_utf8 ch <=? i then slice_from src' (i - len_utf8 ch) else Panic
         end
  end.

(* &s[..n] *)
Fixpoint take_bytes (s : str) (n : nat) {struct s} : outcome str :=
  match n with
  | 0 => Done []
  | _ => match s with
         | [] => Panic
         | ch :: s' =>
             if len_utf8 ch <=? n
             then do r <- take_bytes s' (n - len_utf8 ch); Done (ch :: r)
             else Panic
         end
  end.

(* &src[i..j] *)
Definition slice (src : str) (i j : nat) : outcome str :=
  if j <? i then Panic else do r <- slice_from src i; take_bytes r (j - i).

(* Span::new *)
Definition mk_span (s e : nat) : outcome span := if e <? s then Panic else Done (s, e).

Fixpoint prefix_of (p s : str) : bool :=
  match p with
  | [] => true
  | a :: p' => match s with [] => false | b :: s' => (a =? b)%N && prefix_of p' s' end
  end.

Fixpoint str_eqb (a b : str) : bool :=
  match a, b with
  | [], [] => true
  | x :: a', y :: b' => (x =? y)%N && str_eqb a' b'
  | _, _ => false
  end.

(* ---- characters ---------------------------------------------------------- *)
Definition c_tab : N := 9.   Definition c_nl : N := 10.  Definition c_cr : N := 13.
Definition c_sp : N := 32.   Definition c_dq : N := 34.  Definition c_sq : N := 39.
Definition c_star : N := 42. Definition c_slash : N := 47. Definition c_colon : N := 58.
Definition c_bslash : N := 92. Definition c_lbrace : N := 123. Definition c_rbrace : N := 125.

Definition is_nl (c : N) : bool := ((c =? c_nl) || (c =? c_cr))%N.
Definition is_digit (c : N) : bool := ((48 <=? c) && (c <=? 57))%N.
Definition is_alpha_ (c : N) : bool :=
  (((97 <=? c) && (c <=? 122)) || ((65 <=? c) && (c <=? 90)) || (c =? 95))%N.
(* RE_NAME: ^[a-zA-Z_.] then any number of [a-zA-Z0-9_.] *)
Definition name_start (c : N) : bool := is_alpha_ c || (c =? 46)%N.
Definition name_cont (c : N) : bool := name_start c || is_digit c.
(* third alternative of RE_TOKEN: [a-zA-Z_] then any number of [a-zA-Z_0-9] *)
Definition tok_start (c : N) : bool := is_alpha_ c.
Definition tok_cont (c : N) : bool := is_alpha_ c || is_digit c.

(* char::is_whitespace (Unicode White_Space), used by str::trim *)
Definition is_whitespace (c : N) : bool :=
  (((9 <=? c) && (c <=? 13)) || (c =? 32) || (c =? 133) || (c =? 160) || (c =? 5760)
   || ((8192 <=? c) && (c <=? 8202)) || (c =? 8232) || (c =? 8233) || (c =? 8239)
   || (c =? 8287) || (c =? 12288))%N.
(* Pattern_White_Space (header.rs RE_LEADING_WS) *)
Definition is_pattern_ws (c : N) : bool :=
  (((9 <=? c) && (c <=? 13)) || (c =? 32) || (c =? 133) || (c =? 8206) || (c =? 8207)
   || (c =? 8232) || (c =? 8233))%N.

Fixpoint drop_while (p : N -> bool) (s : str) : str :=
  match s with [] => [] | c :: s' => if p c then drop_while p s' else s end.
Definition trim_start (s : str) : str := drop_while is_whitespace s.
Definition trim_end (s : str) : str := rev (drop_while is_whitespace (rev s)).
Definition trim (s : str) : str := trim_end (trim_start s).

Fixpoint count_while (p : N -> bool) (s : str) : nat :=
  match s with [] => 0 | c :: s' => if p c then S (count_while p s') else 0 end.

(* ---- the two regexes ------------------------------------------------------ *)
(* RE_NAME.find(r): Some (m.end()) — all matched characters are ASCII (1 byte) *)
Definition re_name (r : str) : option nat :=
  match r with
  | [] => None
  | c :: r' => if name_start c then Some (S (count_while name_cont r')) else None
  end.

(* bytes before the first [q], no '\n' on the way ('.' does not match '\n') *)
Fixpoint scan_quote (q : N) (r : str) : option nat :=
  match r with
  | [] => None
  | c :: r' =>
      if (c =? q)%N then Some 0
      else if (c =? c_nl)%N then None
      else match scan_quote q r' with Some n => Some (len_utf8 c + n) | None => None end
  end.

(* RE_TOKEN.find(r): a double-quoted [.+?], a single-quoted [.+?] or an identifier
   [a-zA-Z_][a-zA-Z_0-9]* (star), anchored, leftmost-first, lazy *)
Definition re_token (r : str) : option nat :=
  match r with
  | [] => None
  | c :: r' =>
      if ((c =? c_dq) || (c =? c_sq))%N then
        match r' with
        | [] => None
        | c1 :: r'' =>
            if (c1 =? c_nl)%N then None
            else match scan_quote c r'' with
                 | Some n => Some (1 + len_utf8 c1 + n + 1)
                 | None => None
                 end
        end
      else if tok_start c then Some (S (count_while tok_cont r'))
      else None
  end.

(* str::parse::<usize>() on a string of ASCII digits (usize = u64) *)
Definition usize_max : N := 18446744073709551615.
Definition parse_usize (s : str) : option N :=
  match s with
  | [] => None
  | _ => let v := fold_left (fun a c => (a * 10 + (c - 48))%N) s 0%N in
         if (v <=? usize_max)%N then Some v else None
  end.

(* ---- errors --------------------------------------------------------------- *)
Inductive ekind :=
| IllegalInteger | IllegalName | IllegalString | IncompleteRule | IncompleteComment
| IncompleteAction | MissingColon | MissingRightArrow | MismatchedBrace | NonEmptyProduction
| PrematureEnd | ProductionNotTerminated | ProgramsNotSupported | UnknownDeclaration
| PrecNotFollowedByToken | DuplicatePrecedence | DuplicateAvoidInsertDeclaration
| DuplicateImplicitTokensDeclaration | DuplicateExpectDeclaration | DuplicateExpectRRDeclaration
| DuplicateStartDeclaration | DuplicateActiontypeDeclaration | DuplicateEPP | ReachedEOL
| InvalidString | NoStartRule | UnknownSymbol
| InvalidStartRule (s : str) | UnknownRuleRef (s : str) | UnknownToken (s : str)
| NoPrecForToken (s : str) | UnknownEPP (s : str).

Definition ekind_tag (k : ekind) : nat :=
  match k with
  | IllegalInteger => 0 | IllegalName => 1 | IllegalString => 2 | IncompleteRule => 3
  | IncompleteComment => 4 | IncompleteAction => 5 | MissingColon => 6 | MissingRightArrow => 7
  | MismatchedBrace => 8 | NonEmptyProduction => 9 | PrematureEnd => 10
  | ProductionNotTerminated => 11 | ProgramsNotSupported => 12 | UnknownDeclaration => 13
  | PrecNotFollowedByToken => 14 | DuplicatePrecedence => 15
  | DuplicateAvoidInsertDeclaration => 16 | DuplicateImplicitTokensDeclaration => 17
  | DuplicateExpectDeclaration => 18 | DuplicateExpectRRDeclaration => 19
  | DuplicateStartDeclaration => 20 | DuplicateActiontypeDeclaration => 21 | DuplicateEPP => 22
  | ReachedEOL => 23 | InvalidString => 24 | NoStartRule => 25 | UnknownSymbol => 26
  | InvalidStartRule _ => 27 | UnknownRuleRef _ => 28 | UnknownToken _ => 29
  | NoPrecForToken _ => 30 | UnknownEPP _ => 31
  end.
Definition ekind_arg (k : ekind) : str :=
  match k with
  | InvalidStartRule s | UnknownRuleRef s | UnknownToken s | NoPrecForToken s | UnknownEPP s => s
  | _ => []
  end.
Definition ekind_eqb (a b : ekind) : bool :=
  (ekind_tag a =? ekind_tag b) && str_eqb (ekind_arg a) (ekind_arg b).

Record yerr := mkErr { e_kind : ekind; e_spans : list span }.
(* mk_error *)
Definition mk_error (k : ekind) (off : nat) : yerr := mkErr k [(off, off)].

Inductive res (A : Type) : Type := Ok (a : A) | Err (e : yerr).
Arguments Ok {A} a.
Arguments Err {A} e.
Definition pres (A : Type) := outcome (res A).

(* the [?] operator *)
Definition rbind {A B} (x : pres A) (f : A -> pres B) : pres B :=
  match x with
  | Done (Ok a) => f a
  | Done (Err e) => Done (Err e)
  | Panic => Panic
  | OutOfFuel => OutOfFuel
  end.
Notation "'try' x <- e1 ; e2" := (rbind e1 (fun x => e2))
  (at level 200, x pattern, e1 at level 100, e2 at level 200, right associativity).

(* add_duplicate_occurrence; [e.spans[0]] is an index expression *)
Fixpoint dup_find (errs : list yerr) (k : ekind) (orig dup : span) : outcome (option (list yerr)) :=
  match errs with
  | [] => Done None
  | e :: rest =>
      match e_spans e with
      | [] => if ekind_eqb (e_kind e) k then Panic else
              do r <- dup_find rest k orig dup;
              Done (match r with Some l => Some (e :: l) | None => None end)
      | s0 :: _ =>
          if ekind_eqb (e_kind e) k && ((fst s0 =? fst orig) && (snd s0 =? snd orig))
          then Done (Some (mkErr (e_kind e) (e_spans e ++ [dup]) :: rest))
          else do r <- dup_find rest k orig dup;
               Done (match r with Some l => Some (e :: l) | None => None end)
      end
  end.
Definition add_duplicate_occurrence (errs : list yerr) (k : ekind) (orig dup : span)
  : outcome (list yerr) :=
  do r <- dup_find errs k orig dup;
  Done (match r with Some l => l | None => errs ++ [mkErr k [orig; dup]] end).

(* ======================================================================== *)
(*  Lexical layer                                                            *)
(* ======================================================================== *)
Section Lexical.
Variable fixed : bool.     (* the block-comment repair *)
Variable src : str.        (* self.src *)
Variable len : nat.        (* self.src.len(), instantiated with [byte_len src] *)
Variable fuel : nat.       (* bound handed to every loop *)

(* self.src[i..].chars().next() *)
Definition char_at (i : nat) : outcome (option N) :=
  do r <- slice_from src i; Done (hd_error r).
(* ... .unwrap() *)
Definition next_char (i : nat) : outcome N :=
  do o <- char_at i; match o with Some c => Done c | None => Panic end.

(* lookahead_is *)
Definition lookahead_is (s : str) (i : nat) : outcome (option nat) :=
  do r <- slice_from src i;
  Done (if prefix_of s r then Some (i + byte_len s) else None).

(* the [for c in self.src[i..].chars()] loop of a // comment *)
Fixpoint line_comment (r : str) (i nn : nat) : nat * nat :=
  match r with
  | [] => (i, nn)
  | c :: r' => if is_nl c then (i + len_utf8 c, S nn) else line_comment r' (i + len_utf8 c) nn
  end.

Inductive block_res := BFound (i nn : nat) | BEol | BNotFound.

(* the [while k < self.src.len()] scan of a /* */ comment *)
Fixpoint block_loop (f : nat) (k nn : nat) (inc : bool) : outcome block_res :=
  match f with
  | 0 => OutOfFuel
  | S f' =>
      if negb (k <? len) then Done BNotFound else
      do c <- next_char k;
      let k1 := k + len_utf8 c in
      let check (nn1 : nat) :=
        if k1 <? len then
          do c2 <- next_char k1;
          if (c2 =? c_slash)%N then Done (BFound (k1 + len_utf8 c2) nn1)
          else block_loop f' k1 nn1 inc
        else block_loop f' k1 nn1 inc in
      if is_nl c then
        if negb inc then Done BEol
        else if fixed then block_loop f' k1 (S nn) inc
        else check (S nn)
      else if (c =? c_star)%N then check nn
      else block_loop f' k1 nn inc
  end.

(* parse_ws: returns (i, num_newlines) *)
Fixpoint ws_loop (f : nat) (nn i : nat) (inc : bool) : pres (nat * nat) :=
  match f with
  | 0 => OutOfFuel
  | S f' =>
      if negb (i <? len) then Done (Ok (i, nn)) else
      do c <- next_char i;
      if ((c =? c_sp) || (c =? c_tab))%N then ws_loop f' nn (i + len_utf8 c) inc
      else if is_nl c then
        if negb inc then Done (Err (mk_error ReachedEOL i))
        else ws_loop f' (S nn) (i + len_utf8 c) inc
      else if (c =? c_slash)%N then
        if i + len_utf8 c =? len then Done (Ok (i, nn))
        else
          let j := i + len_utf8 c in
          do c2 <- next_char j;
          if (c2 =? c_slash)%N then
            let i1 := j + len_utf8 c2 in
            do r <- slice_from src i1;
            let '(i2, nn2) := line_comment r i1 nn in
            ws_loop f' nn2 i2 inc
          else if (c2 =? c_star)%N then
            do b <- block_loop fuel (j + len_utf8 c2) nn inc;
            match b with
            | BFound i' nn' => ws_loop f' nn' i' inc
            | BEol => Done (Err (mk_error ReachedEOL i))
            | BNotFound => Done (Err (mk_error IncompleteComment i))
            end
          else Done (Ok (i, nn))
      else Done (Ok (i, nn))
  end.
Definition parse_ws (nn i : nat) (inc : bool) : pres (nat * nat) := ws_loop fuel nn i inc.

(* parse_name *)
Definition parse_name (i : nat) : pres (nat * str) :=
  do r <- slice_from src i;
  match re_name r with
  | Some e => do s <- slice src i (i + e); Done (Ok (i + e, s))
  | None => Done (Err (mk_error IllegalName i))
  end.

(* parse_token: (end, name, span, quoted) *)
Definition parse_token (i : nat) : pres (nat * str * span * bool) :=
  do r <- slice_from src i;
  match re_token r with
  | Some e =>
      do c <- next_char i;
      if ((c =? c_dq) || (c =? c_sq))%N then
        let start_cidx := i + 1 in
        if i + e =? 0 then Panic else
        let end_cidx := i + e - 1 in
        do s <- slice src start_cidx end_cidx;
        do sp <- mk_span start_cidx end_cidx;
        Done (Ok (i + e, s, sp, true))
      else
        do s <- slice src i (i + e);
        do sp <- mk_span i (i + e);
        Done (Ok (i + e, s, sp, false))
  | None => Done (Err (mk_error IllegalString i))
  end.

(* parse_action: (end, trimmed text, num_newlines) *)
Fixpoint action_loop (f : nat) (j : nat) (c : Z) (nn : nat) : outcome (nat * Z * nat) :=
  match f with
  | 0 => OutOfFuel
  | S f' =>
      if negb (j <? len) then Done (j, c, nn) else
      do ch <- next_char j;
      if (ch =? c_lbrace)%N then action_loop f' (j + len_utf8 ch) (c + 1)%Z nn
      else if (ch =? c_rbrace)%N then
        if (c =? 1)%Z then Done (j, 0%Z, nn)
        else action_loop f' (j + len_utf8 ch) (c - 1)%Z nn
      else if is_nl ch then action_loop f' (j + len_utf8 ch) c (S nn)
      else action_loop f' (j + len_utf8 ch) c nn
  end.
Definition parse_action (nn i : nat) : pres (nat * str * nat) :=
  do la <- lookahead_is [c_lbrace] i;
  match la with None => Panic | Some _ =>        (* debug_assert! *)
  do x <- action_loop fuel i 0%Z nn;
  let '(j, c, nn') := x in
  if (0 <? c)%Z then Done (Err (mk_error IncompleteAction i))
  else
    do lb <- lookahead_is [c_rbrace] j;
    match lb with None => Panic | Some _ =>      (* debug_assert! *)
    do s <- slice src (i + 1) j;
    Done (Ok (j + 1, trim s, nn'))
    end
  end.

(* parse_to_eol *)
Fixpoint eol_loop (f : nat) (j : nat) : outcome nat :=
  match f with
  | 0 => OutOfFuel
  | S f' =>
      if negb (j <? len) then Done j else
      do c <- next_char j;
      if is_nl c then Done j else eol_loop f' (j + len_utf8 c)
  end.
Definition parse_to_eol (i : nat) : pres (nat * str) :=
  do j <- eol_loop fuel i; do s <- slice src i j; Done (Ok (j, s)).

(* parse_to_single_colon: (end, trimmed text, num_newlines) *)
Fixpoint colon_loop (f : nat) (i j nn : nat) : pres (nat * str * nat) :=
  match f with
  | 0 => OutOfFuel
  | S f' =>
      if negb (j <? len) then Done (Err (mk_error ReachedEOL j)) else
      do c <- next_char j;
      if (c =? c_colon)%N then
        let k := j + 1 in
        do stop <- (if k =? len then Done true
                    else do r <- slice_from src k; Done (negb (prefix_of [c_colon] r)));
        if (stop : bool) then do s <- slice src i j; Done (Ok (j, trim s, nn))
        else colon_loop f' i (j + 2) nn
      else if is_nl c then colon_loop f' i (j + len_utf8 c) (S nn)
      else colon_loop f' i (j + len_utf8 c) nn
  end.
Definition parse_to_single_colon (nn i : nat) : pres (nat * str * nat) := colon_loop fuel i i nn.

(* parse_int::<usize> *)
Fixpoint int_loop (f : nat) (j : nat) : outcome nat :=
  match f with
  | 0 => OutOfFuel
  | S f' =>
      if negb (j <? len) then Done j else
      do c <- next_char j;
      if is_digit c then int_loop f' (j + 1) else Done j
  end.
Definition parse_int (i : nat) : pres (nat * N) :=
  do j <- int_loop fuel i;
  do s <- slice src i j;
  match parse_usize s with
  | Some n => Done (Ok (j, n))
  | None => Done (Err (mk_error IllegalInteger i))
  end.

(* parse_string *)
Fixpoint string_loop (f : nat) (qc : N) (i j : nat) (s : str) : pres (nat * str) :=
  match f with
  | 0 => OutOfFuel
  | S f' =>
      if negb (j <? len) then Done (Err (mk_error InvalidString j)) else
      do c <- next_char j;
      if is_nl c then Done (Err (mk_error InvalidString j))
      else if (c =? qc)%N then do t <- slice src i j; Done (Ok (j + 1, s ++ t))
      else if (c =? c_bslash)%N then
        do oc <- char_at (j + 1);
        match oc with
        | Some c2 =>
            if ((c2 =? c_sq) || (c2 =? c_dq))%N
            then do t <- slice src i j; string_loop f' qc (j + 1) (j + 2) (s ++ t)
            else Done (Err (mk_error InvalidString j))
        | None => Done (Err (mk_error InvalidString j))
        end
      else string_loop f' qc i (j + len_utf8 c) s
  end.
Definition parse_string (i : nat) : pres (nat * str) :=
  do l1 <- lookahead_is [c_sq] i;
  do qc <- match l1 with
           | Some _ => Done (Some c_sq)
           | None => do l2 <- lookahead_is [c_dq] i;
                     Done (match l2 with Some _ => Some c_dq | None => None end)
           end;
  match qc with
  | None => Done (Err (mk_error InvalidString i))
  | Some q => string_loop fuel q (i + 1) (i + 1) []
  end.

End Lexical.
