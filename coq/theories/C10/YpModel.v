(* C10 half (b) / C12 — character-level mirror of cfgrammar/src/lib/yacc/parser.rs
   (YaccParser) and of GrammarAST::complete_and_validate / warnings
   (cfgrammar/src/lib/yacc/ast.rs).

   Texts are lists of Unicode code points ([N]); the cursor [i] is a UTF-8 byte
   offset.  Every [&src[i..]] / [&src[i..j]] is [slice_from] / [slice] and
   returns [Panic] off a character boundary or out of range; [unwrap],
   [Span::new] with end < start, indexing and [debug_assert!] are [Panic]
   outcomes too.  Every [while] loop runs on [fuel] ([OutOfFuel] when exhausted).
   The two regexes RE_NAME / RE_TOKEN are explicit ASCII scanners.

   The functions follow the Rust control flow one by one and keep the Rust
   names.  [fixed = false] is the code as it is; [fixed = true] adds the
   proposed one-line repair of the block-comment scan ([continue] after a
   newline inside [/* */]).

   Definitions only; statements are in YpSpec.v, proofs in YpProofs.v. *)
From Coq Require Import List Arith NArith ZArith Bool Lia Strings.String Strings.Ascii.
From GV Require Import Common.Outcome.
Import ListNotations.
Local Open Scope nat_scope.

Definition str := list N.
Definition span := (nat * nat)%type.

(* a Rust string literal as code points *)
Definition lit (s : string) : str := map N_of_ascii (list_ascii_of_string s).

(* char::len_utf8 *)
Definition len_utf8 (c : N) : nat :=
  if (c <? 128)%N then 1
  else if (c <? 2048)%N then 2
  else if (c <? 65536)%N then 3
  else 4.

Fixpoint byte_len (s : str) : nat :=
  match s with [] => 0 | c :: s' => len_utf8 c + byte_len s' end.

(* &src[i..] *)
Fixpoint slice_from (src : str) (i : nat) : outcome str :=
  match i with
  | 0 => Done src
  | _ => match src with
         | [] => Panic
         | ch :: src' => if len_utf8 ch <=? i then slice_from src' (i - len_utf8 ch) else Panic
         end
  end.

(* &s[..n] *)
Fixpoint take_bytes (s : str) (n : nat) {struct s} : outcome str :=
  match n with
  | 0 => Done []
  | _ => match s with
         | [] => Panic
         | ch :: s' =>
             if len_utf8 ch <=? n
             then do r <- take_bytes s' (n - len_utf8 ch); Done (ch :: r)
             else Panic
         end
  end.

(* &src[i..j] *)
Definition slice (src : str) (i j : nat) : outcome str :=
  if j <? i then Panic else do r <- slice_from src i; take_bytes r (j - i).

(* Span::new *)
Definition mk_span (s e : nat) : outcome span := if e <? s then Panic else Done (s, e).

Fixpoint prefix_of (p s : str) : bool :=
  match p with
  | [] => true
  | a :: p' => match s with [] => false | b :: s' => (a =? b)%N && prefix_of p' s' end
  end.

Fixpoint str_eqb (a b : str) : bool :=
  match a, b with
  | [], [] => true
  | x :: a', y :: b' => (x =? y)%N && str_eqb a' b'
  | _, _ => false
  end.

(* ---- characters ---------------------------------------------------------- *)
Definition c_tab : N := 9.   Definition c_nl : N := 10.  Definition c_cr : N := 13.
Definition c_sp : N := 32.   Definition c_dq : N := 34.  Definition c_sq : N := 39.
Definition c_star : N := 42. Definition c_slash : N := 47. Definition c_colon : N := 58.
Definition c_bslash : N := 92. Definition c_lbrace : N := 123. Definition c_rbrace : N := 125.

Definition is_nl (c : N) : bool := ((c =? c_nl) || (c =? c_cr))%N.
Definition is_sptab (c : N) : bool := ((c =? c_sp) || (c =? c_tab))%N.
Definition is_digit (c : N) : bool := ((48 <=? c) && (c <=? 57))%N.
Definition is_alpha_ (c : N) : bool :=
  (((97 <=? c) && (c <=? 122)) || ((65 <=? c) && (c <=? 90)) || (c =? 95))%N.
(* RE_NAME: ^[a-zA-Z_.] then any number of [a-zA-Z0-9_.] *)
Definition name_start (c : N) : bool := is_alpha_ c || (c =? 46)%N.
Definition name_cont (c : N) : bool := name_start c || is_digit c.
(* third alternative of RE_TOKEN: [a-zA-Z_] then any number of [a-zA-Z_0-9] *)
Definition tok_start (c : N) : bool := is_alpha_ c.
Definition tok_cont (c : N) : bool := is_alpha_ c || is_digit c.

(* char::is_whitespace (Unicode White_Space), used by str::trim *)
Definition is_whitespace (c : N) : bool :=
  (((9 <=? c) && (c <=? 13)) || (c =? 32) || (c =? 133) || (c =? 160) || (c =? 5760)
   || ((8192 <=? c) && (c <=? 8202)) || (c =? 8232) || (c =? 8233) || (c =? 8239)
   || (c =? 8287) || (c =? 12288))%N.
(* Pattern_White_Space (header.rs RE_LEADING_WS) *)
Definition is_pattern_ws (c : N) : bool :=
  (((9 <=? c) && (c <=? 13)) || (c =? 32) || (c =? 133) || (c =? 8206) || (c =? 8207)
   || (c =? 8232) || (c =? 8233))%N.

Fixpoint drop_while (p : N -> bool) (s : str) : str :=
  match s with [] => [] | c :: s' => if p c then drop_while p s' else s end.
Definition trim_start (s : str) : str := drop_while is_whitespace s.
Definition trim_end (s : str) : str := rev (drop_while is_whitespace (rev s)).
Definition trim (s : str) : str := trim_end (trim_start s).

Fixpoint count_while (p : N -> bool) (s : str) : nat :=
  match s with [] => 0 | c :: s' => if p c then S (count_while p s') else 0 end.

(* ---- the two regexes ------------------------------------------------------ *)
(* RE_NAME.find(r): Some (m.end()) — all matched characters are ASCII (1 byte) *)
Definition re_name (r : str) : option nat :=
  match r with
  | [] => None
  | c :: r' => if name_start c then Some (S (count_while name_cont r')) else None
  end.

(* bytes before the first [q], no '\n' on the way ('.' does not match '\n') *)
Fixpoint scan_quote (q : N) (r : str) : option nat :=
  match r with
  | [] => None
  | c :: r' =>
      if (c =? q)%N then Some 0
      else if (c =? c_nl)%N then None
      else match scan_quote q r' with Some n => Some (len_utf8 c + n) | None => None end
  end.

(* RE_TOKEN.find(r): a double-quoted [.+?], a single-quoted [.+?] or an identifier
   [a-zA-Z_][a-zA-Z_0-9]* (star), anchored, leftmost-first, lazy *)
Definition re_token (r : str) : option nat :=
  match r with
  | [] => None
  | c :: r' =>
      if ((c =? c_dq) || (c =? c_sq))%N then
        match r' with
        | [] => None
        | c1 :: r'' =>
            if (c1 =? c_nl)%N then None
            else match scan_quote c r'' with
                 | Some n => Some (1 + len_utf8 c1 + n + 1)
                 | None => None
                 end
        end
      else if tok_start c then Some (S (count_while tok_cont r'))
      else None
  end.

(* str::parse::<usize>() on a string of ASCII digits (usize = u64) *)
Definition usize_max : N := 18446744073709551615.
Definition parse_usize (s : str) : option N :=
  match s with
  | [] => None
  | _ => let v := fold_left (fun a c => (a * 10 + (c - 48))%N) s 0%N in
         if (v <=? usize_max)%N then Some v else None
  end.

(* ---- errors --------------------------------------------------------------- *)
Inductive ekind :=
| IllegalInteger | IllegalName | IllegalString | IncompleteRule | IncompleteComment
| IncompleteAction | MissingColon | MissingRightArrow | MismatchedBrace | NonEmptyProduction
| PrematureEnd | ProductionNotTerminated | ProgramsNotSupported | UnknownDeclaration
| PrecNotFollowedByToken | DuplicatePrecedence | DuplicateAvoidInsertDeclaration
| DuplicateImplicitTokensDeclaration | DuplicateExpectDeclaration | DuplicateExpectRRDeclaration
| DuplicateStartDeclaration | DuplicateActiontypeDeclaration | DuplicateEPP | ReachedEOL
| InvalidString | NoStartRule | UnknownSymbol
| InvalidStartRule (s : str) | UnknownRuleRef (s : str) | UnknownToken (s : str)
| NoPrecForToken (s : str) | UnknownEPP (s : str).

Definition ekind_tag (k : ekind) : nat :=
  match k with
  | IllegalInteger => 0 | IllegalName => 1 | IllegalString => 2 | IncompleteRule => 3
  | IncompleteComment => 4 | IncompleteAction => 5 | MissingColon => 6 | MissingRightArrow => 7
  | MismatchedBrace => 8 | NonEmptyProduction => 9 | PrematureEnd => 10
  | ProductionNotTerminated => 11 | ProgramsNotSupported => 12 | UnknownDeclaration => 13
  | PrecNotFollowedByToken => 14 | DuplicatePrecedence => 15
  | DuplicateAvoidInsertDeclaration => 16 | DuplicateImplicitTokensDeclaration => 17
  | DuplicateExpectDeclaration => 18 | DuplicateExpectRRDeclaration => 19
  | DuplicateStartDeclaration => 20 | DuplicateActiontypeDeclaration => 21 | DuplicateEPP => 22
  | ReachedEOL => 23 | InvalidString => 24 | NoStartRule => 25 | UnknownSymbol => 26
  | InvalidStartRule _ => 27 | UnknownRuleRef _ => 28 | UnknownToken _ => 29
  | NoPrecForToken _ => 30 | UnknownEPP _ => 31
  end.
Definition ekind_arg (k : ekind) : str :=
  match k with
  | InvalidStartRule s | UnknownRuleRef s | UnknownToken s | NoPrecForToken s | UnknownEPP s => s
  | _ => []
  end.
Definition ekind_eqb (a b : ekind) : bool :=
  (ekind_tag a =? ekind_tag b) && str_eqb (ekind_arg a) (ekind_arg b).

Record yerr := mkErr { e_kind : ekind; e_spans : list span }.
(* mk_error *)
Definition mk_error (k : ekind) (off : nat) : yerr := mkErr k [(off, off)].

Inductive res (A : Type) : Type := Ok (a : A) | Err (e : yerr).
Arguments Ok {A} a.
Arguments Err {A} e.
Definition pres (A : Type) := outcome (res A).

(* the [?] operator *)
Definition rbind {A B} (x : pres A) (f : A -> pres B) : pres B :=
  match x with
  | Done (Ok a) => f a
  | Done (Err e) => Done (Err e)
  | Panic => Panic
  | OutOfFuel => OutOfFuel
  end.
Notation "'try' x <- e1 ; e2" := (rbind e1 (fun x => e2))
  (at level 200, x pattern, e1 at level 100, e2 at level 200, right associativity).

(* add_duplicate_occurrence; [e.spans[0]] is an index expression *)
Fixpoint dup_find (errs : list yerr) (k : ekind) (orig dup : span) : outcome (option (list yerr)) :=
  match errs with
  | [] => Done None
  | e :: rest =>
      match e_spans e with
      | [] => if ekind_eqb (e_kind e) k then Panic else
              do r <- dup_find rest k orig dup;
              Done (match r with Some l => Some (e :: l) | None => None end)
      | s0 :: _ =>
          if ekind_eqb (e_kind e) k && ((fst s0 =? fst orig) && (snd s0 =? snd orig))
          then Done (Some (mkErr (e_kind e) (e_spans e ++ [dup]) :: rest))
          else do r <- dup_find rest k orig dup;
               Done (match r with Some l => Some (e :: l) | None => None end)
      end
  end.
Definition add_duplicate_occurrence (errs : list yerr) (k : ekind) (orig dup : span)
  : outcome (list yerr) :=
  do r <- dup_find errs k orig dup;
  Done (match r with Some l => l | None => errs ++ [mkErr k [orig; dup]] end).

(* ======================================================================== *)
(*  Lexical layer                                                            *)
(* ======================================================================== *)
Section Lexical.
Variable fixed : bool.     (* the block-comment repair *)
Variable src : str.        (* self.src *)
Variable len : nat.        (* self.src.len(), instantiated with [byte_len src] *)
Variable fuel : nat.       (* bound handed to every loop *)

(* self.src[i..].chars().next() *)
Definition char_at (i : nat) : outcome (option N) :=
  do r <- slice_from src i; Done (hd_error r).
(* ... .unwrap() *)
Definition next_char (i : nat) : outcome N :=
  do o <- char_at i; match o with Some c => Done c | None => Panic end.

(* lookahead_is *)
Definition lookahead_is (s : str) (i : nat) : outcome (option nat) :=
  do r <- slice_from src i;
  Done (if prefix_of s r then Some (i + byte_len s) else None).

(* the [for c in self.src[i..].chars()] loop of a // comment *)
Fixpoint line_comment (r : str) (i nn : nat) : nat * nat :=
  match r with
  | [] => (i, nn)
  | c :: r' => if is_nl c then (i + len_utf8 c, S nn) else line_comment r' (i + len_utf8 c) nn
  end.

Inductive block_res := BFound (i nn : nat) | BEol | BNotFound.

(* the [while k < self.src.len()] scan of a /* */ comment *)
Fixpoint block_loop (f : nat) (k nn : nat) (inc : bool) : outcome block_res :=
  match f with
  | 0 => OutOfFuel
  | S f' =>
      if negb (k <? len) then Done BNotFound else
      do c <- next_char k;
      let k1 := k + len_utf8 c in
      let check (nn1 : nat) :=
        if k1 <? len then
          do c2 <- next_char k1;
          if (c2 =? c_slash)%N then Done (BFound (k1 + len_utf8 c2) nn1)
          else block_loop f' k1 nn1 inc
        else block_loop f' k1 nn1 inc in
      if is_nl c then
        if negb inc then Done BEol
        else if fixed then block_loop f' k1 (S nn) inc
        else check (S nn)
      else if (c =? c_star)%N then check nn
      else block_loop f' k1 nn inc
  end.

(* parse_ws: returns (i, num_newlines) *)
Fixpoint ws_loop (f : nat) (nn i : nat) (inc : bool) : pres (nat * nat) :=
  match f with
  | 0 => OutOfFuel
  | S f' =>
      if negb (i <? len) then Done (Ok (i, nn)) else
      do c <- next_char i;
      if is_sptab c then ws_loop f' nn (i + len_utf8 c) inc
      else if is_nl c then
        if negb inc then Done (Err (mk_error ReachedEOL i))
        else ws_loop f' (S nn) (i + len_utf8 c) inc
      else if (c =? c_slash)%N then
        if i + len_utf8 c =? len then Done (Ok (i, nn))
        else
          let j := i + len_utf8 c in
          do c2 <- next_char j;
          if (c2 =? c_slash)%N then
            let i1 := j + len_utf8 c2 in
            do r <- slice_from src i1;
            let '(i2, nn2) := line_comment r i1 nn in
            ws_loop f' nn2 i2 inc
          else if (c2 =? c_star)%N then
            do b <- block_loop fuel (j + len_utf8 c2) nn inc;
            match b with
            | BFound i' nn' => ws_loop f' nn' i' inc
            | BEol => Done (Err (mk_error ReachedEOL i))
            | BNotFound => Done (Err (mk_error IncompleteComment i))
            end
          else Done (Ok (i, nn))
      else Done (Ok (i, nn))
  end.
Definition parse_ws (nn i : nat) (inc : bool) : pres (nat * nat) := ws_loop fuel nn i inc.

(* parse_name *)
Definition parse_name (i : nat) : pres (nat * str) :=
  do r <- slice_from src i;
  match re_name r with
  | Some e => do s <- slice src i (i + e); Done (Ok (i + e, s))
  | None => Done (Err (mk_error IllegalName i))
  end.

(* parse_token: (end, name, span, quoted) *)
Definition parse_token (i : nat) : pres (nat * str * span * bool) :=
  do r <- slice_from src i;
  match re_token r with
  | Some e =>
      do c <- next_char i;
      if ((c =? c_dq) || (c =? c_sq))%N then
        let start_cidx := i + 1 in
        if i + e =? 0 then Panic else
        let end_cidx := i + e - 1 in
        do s <- slice src start_cidx end_cidx;
        do sp <- mk_span start_cidx end_cidx;
        Done (Ok (i + e, s, sp, true))
      else
        do s <- slice src i (i + e);
        do sp <- mk_span i (i + e);
        Done (Ok (i + e, s, sp, false))
  | None => Done (Err (mk_error IllegalString i))
  end.

(* parse_action: (end, trimmed text, num_newlines) *)
Fixpoint action_loop (f : nat) (j : nat) (c : Z) (nn : nat) : outcome (nat * Z * nat) :=
  match f with
  | 0 => OutOfFuel
  | S f' =>
      if negb (j <? len) then Done (j, c, nn) else
      do ch <- next_char j;
      if (ch =? c_lbrace)%N then action_loop f' (j + len_utf8 ch) (c + 1)%Z nn
      else if (ch =? c_rbrace)%N then
        if (c =? 1)%Z then Done (j, 0%Z, nn)
        else action_loop f' (j + len_utf8 ch) (c - 1)%Z nn
      else if is_nl ch then action_loop f' (j + len_utf8 ch) c (S nn)
      else action_loop f' (j + len_utf8 ch) c nn
  end.
Definition parse_action (nn i : nat) : pres (nat * str * nat) :=
  do la <- lookahead_is [c_lbrace] i;
  match la with None => Panic | Some _ =>        (* debug_assert! *)
  do x <- action_loop fuel i 0%Z nn;
  let '(j, c, nn') := x in
  if (0 <? c)%Z then Done (Err (mk_error IncompleteAction i))
  else
    do lb <- lookahead_is [c_rbrace] j;
    match lb with None => Panic | Some _ =>      (* debug_assert! *)
    do s <- slice src (i + 1) j;
    Done (Ok (j + 1, trim s, nn'))
    end
  end.

(* parse_to_eol *)
Fixpoint eol_loop (f : nat) (j : nat) : outcome nat :=
  match f with
  | 0 => OutOfFuel
  | S f' =>
      if negb (j <? len) then Done j else
      do c <- next_char j;
      if is_nl c then Done j else eol_loop f' (j + len_utf8 c)
  end.
Definition parse_to_eol (i : nat) : pres (nat * str) :=
  do j <- eol_loop fuel i; do s <- slice src i j; Done (Ok (j, s)).

(* parse_to_single_colon: (end, trimmed text, num_newlines) *)
Fixpoint colon_loop (f : nat) (i j nn : nat) : pres (nat * str * nat) :=
  match f with
  | 0 => OutOfFuel
  | S f' =>
      if negb (j <? len) then Done (Err (mk_error ReachedEOL j)) else
      do c <- next_char j;
      if (c =? c_colon)%N then
        let k := j + 1 in
        do stop <- (if k =? len then Done true
                    else do r <- slice_from src k; Done (negb (prefix_of [c_colon] r)));
        if (stop : bool) then do s <- slice src i j; Done (Ok (j, trim s, nn))
        else colon_loop f' i (j + 2) nn
      else if is_nl c then colon_loop f' i (j + len_utf8 c) (S nn)
      else colon_loop f' i (j + len_utf8 c) nn
  end.
Definition parse_to_single_colon (nn i : nat) : pres (nat * str * nat) := colon_loop fuel i i nn.

(* parse_int::<usize> *)
Fixpoint int_loop (f : nat) (j : nat) : outcome nat :=
  match f with
  | 0 => OutOfFuel
  | S f' =>
      if negb (j <? len) then Done j else
      do c <- next_char j;
      if is_digit c then int_loop f' (j + 1) else Done j
  end.
Definition parse_int (i : nat) : pres (nat * N) :=
  do j <- int_loop fuel i;
  do s <- slice src i j;
  match parse_usize s with
  | Some n => Done (Ok (j, n))
  | None => Done (Err (mk_error IllegalInteger i))
  end.

(* parse_string *)
Fixpoint string_loop (f : nat) (qc : N) (i j : nat) (s : str) : pres (nat * str) :=
  match f with
  | 0 => OutOfFuel
  | S f' =>
      if negb (j <? len) then Done (Err (mk_error InvalidString j)) else
      do c <- next_char j;
      if is_nl c then Done (Err (mk_error InvalidString j))
      else if (c =? qc)%N then do t <- slice src i j; Done (Ok (j + 1, s ++ t))
      else if (c =? c_bslash)%N then
        do oc <- char_at (j + 1);
        match oc with
        | Some c2 =>
            if ((c2 =? c_sq) || (c2 =? c_dq))%N
            then do t <- slice src i j; string_loop f' qc (j + 1) (j + 2) (s ++ t)
            else Done (Err (mk_error InvalidString j))
        | None => Done (Err (mk_error InvalidString j))
        end
      else string_loop f' qc i (j + len_utf8 c) s
  end.
Definition parse_string (i : nat) : pres (nat * str) :=
  do l1 <- lookahead_is [c_sq] i;
  do qc <- match l1 with
           | Some _ => Done (Some c_sq)
           | None => do l2 <- lookahead_is [c_dq] i;
                     Done (match l2 with Some _ => Some c_dq | None => None end)
           end;
  match qc with
  | None => Done (Err (mk_error InvalidString i))
  | Some q => string_loop fuel q (i + 1) (i + 1) []
  end.

End Lexical.

(* ======================================================================== *)
(*  GrammarAST                                                               *)
(* ======================================================================== *)
Inductive ykind := KOriginal | KGrmtools | KEco.
Inductive assoc := ALeft | ARight | ANonassoc.
Inductive symbol := SRule (n : str) (sp : span) | SToken (n : str) (sp : span).

Record production := mkProd {
  p_syms : list symbol;
  p_prec : option str;
  p_action : option (str * span);
  p_span : span }.

Record rule := mkRule {
  r_name : str; r_span : span;
  r_pidxs : list nat;
  r_actiont : option str }.

(* hash maps are association lists in insertion order (their iteration order
   is only observed by complete_and_validate's %epp check, see [first_unknown_epp]) *)
Record gast := mkAst {
  a_start : option (str * span);
  a_rules : list rule;                               (* IndexMap, insertion order *)
  a_prods : list production;
  a_token_directives : list nat;                     (* HashSet<usize> *)
  a_tokens : list str;                               (* IndexSet *)
  a_spans : list span;
  a_precs : list (str * (nat * assoc * span));
  a_avoid_insert : option (list (str * span));
  a_implicit_tokens : option (list (str * span));
  a_epp : list (str * (span * (str * span)));
  a_expect : option (N * span);
  a_expectrr : option (N * span);
  a_parse_param : option (str * str);
  a_parse_generics : option str;
  a_programs : option str;
  a_expect_unused : list symbol }.

(* GrammarAST::new *)
Definition ast_new : gast :=
  mkAst None [] [] [] [] [] [] None None [] None None None None None [].

Definition upd_start a v := mkAst v (a_rules a) (a_prods a) (a_token_directives a) (a_tokens a) (a_spans a) (a_precs a) (a_avoid_insert a) (a_implicit_tokens a) (a_epp a) (a_expect a) (a_expectrr a) (a_parse_param a) (a_parse_generics a) (a_programs a) (a_expect_unused a).
Definition upd_rules a v := mkAst (a_start a) v (a_prods a) (a_token_directives a) (a_tokens a) (a_spans a) (a_precs a) (a_avoid_insert a) (a_implicit_tokens a) (a_epp a) (a_expect a) (a_expectrr a) (a_parse_param a) (a_parse_generics a) (a_programs a) (a_expect_unused a).
Definition upd_prods a v := mkAst (a_start a) (a_rules a) v (a_token_directives a) (a_tokens a) (a_spans a) (a_precs a) (a_avoid_insert a) (a_implicit_tokens a) (a_epp a) (a_expect a) (a_expectrr a) (a_parse_param a) (a_parse_generics a) (a_programs a) (a_expect_unused a).
Definition upd_tokdirs a v := mkAst (a_start a) (a_rules a) (a_prods a) v (a_tokens a) (a_spans a) (a_precs a) (a_avoid_insert a) (a_implicit_tokens a) (a_epp a) (a_expect a) (a_expectrr a) (a_parse_param a) (a_parse_generics a) (a_programs a) (a_expect_unused a).
Definition upd_tokens a v := mkAst (a_start a) (a_rules a) (a_prods a) (a_token_directives a) v (a_spans a) (a_precs a) (a_avoid_insert a) (a_implicit_tokens a) (a_epp a) (a_expect a) (a_expectrr a) (a_parse_param a) (a_parse_generics a) (a_programs a) (a_expect_unused a).
Definition upd_spans a v := mkAst (a_start a) (a_rules a) (a_prods a) (a_token_directives a) (a_tokens a) v (a_precs a) (a_avoid_insert a) (a_implicit_tokens a) (a_epp a) (a_expect a) (a_expectrr a) (a_parse_param a) (a_parse_generics a) (a_programs a) (a_expect_unused a).
Definition upd_precs a v := mkAst (a_start a) (a_rules a) (a_prods a) (a_token_directives a) (a_tokens a) (a_spans a) v (a_avoid_insert a) (a_implicit_tokens a) (a_epp a) (a_expect a) (a_expectrr a) (a_parse_param a) (a_parse_generics a) (a_programs a) (a_expect_unused a).
Definition upd_avoid a v := mkAst (a_start a) (a_rules a) (a_prods a) (a_token_directives a) (a_tokens a) (a_spans a) (a_precs a) v (a_implicit_tokens a) (a_epp a) (a_expect a) (a_expectrr a) (a_parse_param a) (a_parse_generics a) (a_programs a) (a_expect_unused a).
Definition upd_implicit a v := mkAst (a_start a) (a_rules a) (a_prods a) (a_token_directives a) (a_tokens a) (a_spans a) (a_precs a) (a_avoid_insert a) v (a_epp a) (a_expect a) (a_expectrr a) (a_parse_param a) (a_parse_generics a) (a_programs a) (a_expect_unused a).
Definition upd_epp a v := mkAst (a_start a) (a_rules a) (a_prods a) (a_token_directives a) (a_tokens a) (a_spans a) (a_precs a) (a_avoid_insert a) (a_implicit_tokens a) v (a_expect a) (a_expectrr a) (a_parse_param a) (a_parse_generics a) (a_programs a) (a_expect_unused a).
Definition upd_expect a v := mkAst (a_start a) (a_rules a) (a_prods a) (a_token_directives a) (a_tokens a) (a_spans a) (a_precs a) (a_avoid_insert a) (a_implicit_tokens a) (a_epp a) v (a_expectrr a) (a_parse_param a) (a_parse_generics a) (a_programs a) (a_expect_unused a).
Definition upd_expectrr a v := mkAst (a_start a) (a_rules a) (a_prods a) (a_token_directives a) (a_tokens a) (a_spans a) (a_precs a) (a_avoid_insert a) (a_implicit_tokens a) (a_epp a) (a_expect a) v (a_parse_param a) (a_parse_generics a) (a_programs a) (a_expect_unused a).
Definition upd_parse_param a v := mkAst (a_start a) (a_rules a) (a_prods a) (a_token_directives a) (a_tokens a) (a_spans a) (a_precs a) (a_avoid_insert a) (a_implicit_tokens a) (a_epp a) (a_expect a) (a_expectrr a) v (a_parse_generics a) (a_programs a) (a_expect_unused a).
Definition upd_parse_generics a v := mkAst (a_start a) (a_rules a) (a_prods a) (a_token_directives a) (a_tokens a) (a_spans a) (a_precs a) (a_avoid_insert a) (a_implicit_tokens a) (a_epp a) (a_expect a) (a_expectrr a) (a_parse_param a) v (a_programs a) (a_expect_unused a).
Definition upd_programs a v := mkAst (a_start a) (a_rules a) (a_prods a) (a_token_directives a) (a_tokens a) (a_spans a) (a_precs a) (a_avoid_insert a) (a_implicit_tokens a) (a_epp a) (a_expect a) (a_expectrr a) (a_parse_param a) (a_parse_generics a) v (a_expect_unused a).
Definition upd_expect_unused a v := mkAst (a_start a) (a_rules a) (a_prods a) (a_token_directives a) (a_tokens a) (a_spans a) (a_precs a) (a_avoid_insert a) (a_implicit_tokens a) (a_epp a) (a_expect a) (a_expectrr a) (a_parse_param a) (a_parse_generics a) (a_programs a) v.

(* IndexSet::get_index_of *)
Fixpoint index_of (l : list str) (n : str) (k : nat) : option nat :=
  match l with [] => None | x :: l' => if str_eqb x n then Some k else index_of l' n (S k) end.
Definition get_index_of (l : list str) (n : str) : option nat := index_of l n 0.
(* IndexSet::insert_full: (index, newly inserted, set) *)
Definition insert_full (l : list str) (n : str) : nat * bool * list str :=
  match get_index_of l n with
  | Some k => (k, false, l)
  | None => (List.length l, true, l ++ [n])
  end.
(* if self.ast.tokens.insert(n) { self.ast.spans.push(span) } *)
Definition tokens_insert (a : gast) (n : str) (sp : span) : gast :=
  let '(_, fresh, toks) := insert_full (a_tokens a) n in
  if fresh then upd_spans (upd_tokens a toks) (a_spans a ++ [sp]) else a.
(* HashSet<usize>::insert *)
Definition nat_set_insert (l : list nat) (k : nat) : list nat :=
  if existsb (Nat.eqb k) l then l else l ++ [k].

Fixpoint assoc_get {V} (l : list (str * V)) (n : str) : option V :=
  match l with [] => None | (k, v) :: l' => if str_eqb k n then Some v else assoc_get l' n end.

(* get_rule *)
Fixpoint get_rule (rs : list rule) (n : str) : option rule :=
  match rs with [] => None | r :: rs' => if str_eqb (r_name r) n then Some r else get_rule rs' n end.
(* add_rule (only called when get_rule is None; IndexMap::insert replaces in place otherwise) *)
Fixpoint rules_insert (rs : list rule) (r : rule) : list rule :=
  match rs with
  | [] => [r]
  | x :: rs' => if str_eqb (r_name x) (r_name r) then r :: rs' else x :: rules_insert rs' r
  end.
Definition add_rule (a : gast) (n : str) (sp : span) (actiont : option str) : gast :=
  upd_rules a (rules_insert (a_rules a) (mkRule n sp [] actiont)).
(* add_prod: self.rules[&rule_name] panics on a missing key *)
Fixpoint rules_push_pidx (rs : list rule) (n : str) (pidx : nat) : option (list rule) :=
  match rs with
  | [] => None
  | x :: rs' =>
      if str_eqb (r_name x) n
      then Some (mkRule (r_name x) (r_span x) (r_pidxs x ++ [pidx]) (r_actiont x) :: rs')
      else match rules_push_pidx rs' n pidx with Some l => Some (x :: l) | None => None end
  end.
Definition add_prod (a : gast) (rn : str) (syms : list symbol) (prec : option str)
           (action : option (str * span)) (sp : span) : outcome gast :=
  match rules_push_pidx (a_rules a) rn (List.length (a_prods a)) with
  | None => Panic
  | Some rs => Done (upd_prods (upd_rules a rs) (a_prods a ++ [mkProd syms prec action sp]))
  end.

(* ======================================================================== *)
(*  Parser state: num_newlines, ast, global_actiontype, errs                 *)
(* ======================================================================== *)
Record pst := mkSt { nn : nat; ast : gast; gat : option (str * span); errs : list yerr }.
Definition set_nn (st : pst) (n : nat) := mkSt n (ast st) (gat st) (errs st).
Definition set_ast (st : pst) (a : gast) := mkSt (nn st) a (gat st) (errs st).
Definition set_gat (st : pst) (g : option (str * span)) := mkSt (nn st) (ast st) g (errs st).
Definition set_errs (st : pst) (e : list yerr) := mkSt (nn st) (ast st) (gat st) e.

(* state always survives (ASTWithValidityInfo keeps the partial AST) *)
Definition sres (A : Type) := outcome (pst * res A).
Definition sbind {A B} (x : sres A) (f : pst -> A -> sres B) : sres B :=
  match x with
  | Done (st, Ok a) => f st a
  | Done (st, Err e) => Done (st, Err e)
  | Panic => Panic
  | OutOfFuel => OutOfFuel
  end.
Notation "'bind' st , x <- e1 ; e2" := (sbind e1 (fun st x => e2))
  (at level 200, st name, x pattern, e1 at level 100, e2 at level 200, right associativity).

(* a lexical function that does not touch the state *)
Definition lift {A} (st : pst) (x : pres A) : sres A :=
  match x with
  | Done (Ok a) => Done (st, Ok a)
  | Done (Err e) => Done (st, Err e)
  | Panic => Panic
  | OutOfFuel => OutOfFuel
  end.
(* a lexical function that returns the new num_newlines as last component *)
Definition lift_nn {A} (st : pst) (x : pres (A * nat)) : sres A :=
  match x with
  | Done (Ok (a, n)) => Done (set_nn st n, Ok a)
  | Done (Err e) => Done (st, Err e)
  | Panic => Panic
  | OutOfFuel => OutOfFuel
  end.
(* an outcome without error channel *)
Definition lifto {A} (st : pst) (x : outcome A) : sres A :=
  match x with Done a => Done (st, Ok a) | Panic => Panic | OutOfFuel => OutOfFuel end.
Definition fail {A} (st : pst) (k : ekind) (off : nat) : sres A := Done (st, Err (mk_error k off)).
Definition ret {A} (st : pst) (a : A) : sres A := Done (st, Ok a).

(* keyword literals as code points (checked against the string literal by [kw_literals_ok]) *)
Definition kw_pp : str := [37; 37]%N.
Definition kw_percent : str := [37]%N.
Definition kw_token : str := [37; 116; 111; 107; 101; 110]%N.
Definition kw_actiontype : str := [37; 97; 99; 116; 105; 111; 110; 116; 121; 112; 101]%N.
Definition kw_start : str := [37; 115; 116; 97; 114; 116]%N.
Definition kw_epp : str := [37; 101; 112; 112]%N.
Definition kw_expect_rr : str := [37; 101; 120; 112; 101; 99; 116; 45; 114; 114]%N.
Definition kw_expect_unused : str := [37; 101; 120; 112; 101; 99; 116; 45; 117; 110; 117; 115; 101; 100]%N.
Definition kw_expect : str := [37; 101; 120; 112; 101; 99; 116]%N.
Definition kw_avoid_insert : str := [37; 97; 118; 111; 105; 100; 95; 105; 110; 115; 101; 114; 116]%N.
Definition kw_parse_param : str := [37; 112; 97; 114; 115; 101; 45; 112; 97; 114; 97; 109]%N.
Definition kw_parse_generics : str := [37; 112; 97; 114; 115; 101; 45; 103; 101; 110; 101; 114; 105; 99; 115]%N.
Definition kw_implicit_tokens : str := [37; 105; 109; 112; 108; 105; 99; 105; 116; 95; 116; 111; 107; 101; 110; 115]%N.
Definition kw_left : str := [37; 108; 101; 102; 116]%N.
Definition kw_right : str := [37; 114; 105; 103; 104; 116]%N.
Definition kw_nonassoc : str := [37; 110; 111; 110; 97; 115; 115; 111; 99]%N.
Definition kw_prec : str := [37; 112; 114; 101; 99]%N.
Definition kw_empty : str := [37; 101; 109; 112; 116; 121]%N.
Definition kw_arrow : str := [45; 62]%N.
Definition kw_colon : str := [58]%N.
Definition kw_bar : str := [124]%N.
Definition kw_semi : str := [59]%N.
Definition kw_dq : str := [34]%N.
Definition kw_sq : str := [39]%N.
Definition kw_lbrace : str := [123]%N.
Definition kw_grmtools : str := [37; 103; 114; 109; 116; 111; 111; 108; 115]%N.
Lemma kw_literals_ok :
  kw_pp = lit "%%"
  /\ kw_percent = lit "%"
  /\ kw_token = lit "%token"
  /\ kw_actiontype = lit "%actiontype"
  /\ kw_start = lit "%start"
  /\ kw_epp = lit "%epp"
  /\ kw_expect_rr = lit "%expect-rr"
  /\ kw_expect_unused = lit "%expect-unused"
  /\ kw_expect = lit "%expect"
  /\ kw_avoid_insert = lit "%avoid_insert"
  /\ kw_parse_param = lit "%parse-param"
  /\ kw_parse_generics = lit "%parse-generics"
  /\ kw_implicit_tokens = lit "%implicit_tokens"
  /\ kw_left = lit "%left"
  /\ kw_right = lit "%right"
  /\ kw_nonassoc = lit "%nonassoc"
  /\ kw_prec = lit "%prec"
  /\ kw_empty = lit "%empty"
  /\ kw_arrow = lit "->"
  /\ kw_colon = lit ":"
  /\ kw_bar = lit "|"
  /\ kw_semi = lit ";"
  /\ kw_dq = lit """"
  /\ kw_sq = lit "'"
  /\ kw_lbrace = lit "{"
  /\ kw_grmtools = lit "%grmtools".
Proof. repeat split; reflexivity. Qed.

(* the span recorded for an action whose braces open at pos_action_start - 1 and whose
   trimmed text is [a].  As it is: Span::new(pos_action_start, pos_action_start + a.len()).
   Proposed repair ([fixed_aspan]):
     let raw = &self.src[pos_action_start..];
     let lead = raw.len() - raw.trim_start().len();
     Span::new(pos_action_start + lead, pos_action_start + lead + a.len()) *)
Definition action_span (fixed_aspan : bool) (src : str) (pos_action_start : nat) (a : str) : outcome span :=
  if fixed_aspan then
    do raw <- slice_from src pos_action_start;
    let lead := byte_len raw - byte_len (trim_start raw) in
    mk_span (pos_action_start + lead) (pos_action_start + lead + byte_len a)
  else mk_span pos_action_start (pos_action_start + byte_len a).

(* the production end recorded at an action's opening brace (position i).  Pinned code:
   pos_prod_end = Some(i);  repaired (/repo 69c4b9b): pos_prod_end.get_or_insert(i) *)
Definition brace_pend (fixed_pspan : bool) (pend : option nat) (i : nat) : option nat :=
  if fixed_pspan then match pend with Some e => Some e | None => Some i end else Some i.

Section Parser.
Variable fixed : bool.        (* proposed repair of the block-comment scan *)
Variable fixed_aspan : bool.  (* proposed repair of the action span: skip the blanks after the brace *)
Variable fixed_pspan : bool.  (* repair of the production span (/repo 69c4b9b): the action's brace ends the span
                                 only when nothing was recorded before: pos_prod_end.get_or_insert(i) *)
Variable kind : ykind.     (* self.yacc_kind *)
Variable src : str.
Variable len : nat.
Variable fuel : nat.

Definition ws (st : pst) (i : nat) (inc : bool) : sres nat :=
  match parse_ws fixed src len fuel (nn st) i inc with
  | Done (Ok (i', n)) => Done (set_nn st n, Ok i')
  | Done (Err e) => Done (st, Err e)
  | Panic => Panic
  | OutOfFuel => OutOfFuel
  end.
Definition look (st : pst) (s : str) (i : nat) : sres (option nat) :=
  lifto st (lookahead_is src s i).
Definition is_some {A} (o : option A) : bool := match o with Some _ => true | None => false end.

Definition dup (st : pst) (k : ekind) (orig sp : span) : sres unit :=
  match add_duplicate_occurrence (errs st) k orig sp with
  | Done l => Done (set_errs st l, Ok tt)
  | Panic => Panic
  | OutOfFuel => OutOfFuel
  end.

(* ---- parse_declarations: one function per directive ---------------------- *)

(* %token: while i < len && lookahead_is("%", i).is_none() *)
Fixpoint token_loop (f : nat) (st : pst) (i : nat) : sres nat :=
  match f with
  | 0 => OutOfFuel
  | S f' =>
      if negb (i <? len) then ret st i else
      bind st, la <- look st kw_percent i;
      if is_some la then ret st i else
      bind st, t <- lift st (parse_token src i);
      let '(j, n, sp, _) := t in
      let '(idx, fresh, toks) := insert_full (a_tokens (ast st)) n in
      let a1 := if fresh then upd_spans (upd_tokens (ast st) toks) (a_spans (ast st) ++ [sp])
                else ast st in
      let a2 := upd_tokdirs a1 (nat_set_insert (a_token_directives a1) idx) in
      bind st, i' <- ws (set_ast st a2) j true;
      token_loop f' st i'
  end.
Definition decl_token (st : pst) (j : nat) : sres nat :=
  bind st, i <- ws st j false; token_loop fuel st i.

Definition decl_actiontype (st : pst) (j : nat) : sres nat :=
  bind st, i <- ws st j false;
  bind st, t <- lift st (parse_to_eol src len fuel i);
  let '(j, n) := t in
  bind st, sp <- lifto st (mk_span i j);
  bind st, _ <- match gat st with
                | Some (_, orig) => dup st DuplicateActiontypeDeclaration orig sp
                | None => ret (set_gat st (Some (n, sp))) tt
                end;
  ws st j true.

Definition decl_start (st : pst) (j : nat) : sres nat :=
  bind st, i <- ws st j false;
  bind st, t <- lift st (parse_name src i);
  let '(j, n) := t in
  bind st, sp <- lifto st (mk_span i j);
  bind st, _ <- match a_start (ast st) with
                | Some (_, orig) => dup st DuplicateStartDeclaration orig sp
                | None => ret (set_ast st (upd_start (ast st) (Some (n, sp)))) tt
                end;
  ws st j true.

Definition decl_epp (st : pst) (j : nat) : sres nat :=
  bind st, i <- ws st j false;
  bind st, t <- lift st (parse_token src i);
  let '(j, n, _, _) := t in
  bind st, sp <- lifto st (mk_span i j);
  bind st, i <- ws st j false;
  bind st, t2 <- lift st (parse_string src len fuel i);
  let '(j, v) := t2 in
  bind st, vsp <- lifto st (mk_span i j);
  bind st, _ <- match assoc_get (a_epp (ast st)) n with
                | Some (orig, _) => dup st DuplicateEPP orig sp
                | None => ret (set_ast st (upd_epp (ast st) (a_epp (ast st) ++ [(n, (sp, (v, vsp)))]))) tt
                end;
  ws st j true.

Definition decl_expectrr (st : pst) (j : nat) : sres nat :=
  bind st, i <- ws st j false;
  bind st, t <- lift st (parse_int src len fuel i);
  let '(j, n) := t in
  bind st, sp <- lifto st (mk_span i j);
  bind st, _ <- match a_expectrr (ast st) with
                | Some (_, orig) => dup st DuplicateExpectRRDeclaration orig sp
                | None => ret (set_ast st (upd_expectrr (ast st) (Some (n, sp)))) tt
                end;
  ws st j true.

Definition decl_expect (st : pst) (j : nat) : sres nat :=
  bind st, i <- ws st j false;
  bind st, t <- lift st (parse_int src len fuel i);
  let '(j, n) := t in
  bind st, sp <- lifto st (mk_span i j);
  bind st, _ <- match a_expect (ast st) with
                | Some (_, orig) => dup st DuplicateExpectDeclaration orig sp
                | None => ret (set_ast st (upd_expect (ast st) (Some (n, sp)))) tt
                end;
  ws st j true.

(* %expect-unused *)
Fixpoint expect_unused_loop (f : nat) (st : pst) (i : nat) : sres nat :=
  match f with
  | 0 => OutOfFuel
  | S f' =>
      if negb (i <? len) then ret st i else
      bind st, la <- look st kw_percent i;
      if is_some la then ret st i else
      bind st, j <-
        match parse_name src i with
        | Done (Ok (j, n)) =>
            bind st, sp <- lifto st (mk_span i j);
            ret (set_ast st (upd_expect_unused (ast st) (a_expect_unused (ast st) ++ [SRule n sp]))) j
        | Done (Err _) =>
            match parse_token src i with
            | Done (Ok (j, n, sp, _)) =>
                ret (set_ast st (upd_expect_unused (ast st) (a_expect_unused (ast st) ++ [SToken n sp]))) j
            | Done (Err _) => fail st UnknownSymbol i
            | Panic => Panic
            | OutOfFuel => OutOfFuel
            end
        | Panic => Panic
        | OutOfFuel => OutOfFuel
        end;
      bind st, i' <- ws st j true;
      expect_unused_loop f' st i'
  end.
Definition decl_expect_unused (st : pst) (j : nat) : sres nat :=
  bind st, i <- ws st j false; expect_unused_loop fuel st i.

(* %avoid_insert / %implicit_tokens: while j < len && num_newlines unchanged
   ([kwend] is the OUTER j of the Rust code: the loop condition never looks at i) *)
Fixpoint avoid_loop (f : nat) (st : pst) (kwend i nn0 : nat) : sres nat :=
  match f with
  | 0 => OutOfFuel
  | S f' =>
      if negb ((kwend <? len) && (nn st =? nn0)) then ret st i else
      bind st, t <- lift st (parse_token src i);
      let '(j, n, sp, _) := t in
      let a1 := tokens_insert (ast st) n sp in
      match a_avoid_insert a1 with
      | None => Panic                                   (* as_mut().unwrap() *)
      | Some m =>
          bind st, _ <- match assoc_get m n with
                        | Some orig => dup (set_ast st a1) DuplicateAvoidInsertDeclaration orig sp
                        | None => ret (set_ast st (upd_avoid a1 (Some (m ++ [(n, sp)])))) tt
                        end;
          bind st, i' <- ws st j true;
          avoid_loop f' st kwend i' nn0
      end
  end.
Definition decl_avoid_insert (st : pst) (j : nat) : sres nat :=
  bind st, i <- ws st j false;
  let nn0 := nn st in
  let st := match a_avoid_insert (ast st) with
            | None => set_ast st (upd_avoid (ast st) (Some []))
            | Some _ => st
            end in
  avoid_loop fuel st j i nn0.

Fixpoint implicit_loop (f : nat) (st : pst) (kwend i nn0 : nat) : sres nat :=
  match f with
  | 0 => OutOfFuel
  | S f' =>
      if negb ((kwend <? len) && (nn st =? nn0)) then ret st i else
      bind st, t <- lift st (parse_token src i);
      let '(j, n, sp, _) := t in
      let a1 := tokens_insert (ast st) n sp in
      match a_implicit_tokens a1 with
      | None => Panic
      | Some m =>
          bind st, _ <- match assoc_get m n with
                        | Some orig => dup (set_ast st a1) DuplicateImplicitTokensDeclaration orig sp
                        | None => ret (set_ast st (upd_implicit a1 (Some (m ++ [(n, sp)])))) tt
                        end;
          bind st, i' <- ws st j true;
          implicit_loop f' st kwend i' nn0
      end
  end.
Definition decl_implicit_tokens (st : pst) (j : nat) : sres nat :=
  bind st, i <- ws st j false;
  let nn0 := nn st in
  let st := match a_implicit_tokens (ast st) with
            | None => set_ast st (upd_implicit (ast st) (Some []))
            | Some _ => st
            end in
  implicit_loop fuel st j i nn0.

Definition decl_parse_param (st : pst) (j : nat) : sres nat :=
  bind st, i <- ws st j false;
  bind st, t <- lift_nn st (parse_to_single_colon src len fuel (nn st) i);
  let '(j, name) := t in
  bind st, la <- look st kw_colon j;
  match la with
  | None => fail st MissingColon j
  | Some j =>
      bind st, i <- ws st j false;
      bind st, t2 <- lift st (parse_to_eol src len fuel i);
      let '(j, ty) := t2 in
      ws (set_ast st (upd_parse_param (ast st) (Some (name, ty)))) j true
  end.

Definition decl_parse_generics (st : pst) (j : nat) : sres nat :=
  bind st, i <- ws st j false;
  bind st, t <- lift st (parse_to_eol src len fuel i);
  let '(j, ty) := t in
  ws (set_ast st (upd_parse_generics (ast st) (Some ty))) j true.

(* %left / %right / %nonassoc: while i < len && num_newlines unchanged *)
Fixpoint prec_loop (f : nat) (st : pst) (i nn0 : nat) (level : nat) (k : assoc) : sres nat :=
  match f with
  | 0 => OutOfFuel
  | S f' =>
      if negb ((i <? len) && (nn0 =? nn st)) then ret st i else
      bind st, t <- lift st (parse_token src i);
      let '(j, n, sp, _) := t in
      bind st, _ <- match assoc_get (a_precs (ast st)) n with
                    | Some (_, orig) => dup st DuplicatePrecedence orig sp
                    | None => ret (set_ast st (upd_precs (ast st) (a_precs (ast st) ++ [(n, (level, k, sp))]))) tt
                    end;
      bind st, i' <- ws st j true;
      prec_loop f' st i' nn0 level k
  end.
Definition decl_prec (st : pst) (kend : nat) (level : nat) (k : assoc) : sres nat :=
  bind st, i <- ws st kend false;
  prec_loop fuel st i (nn st) level k.

Definition is_original : bool := match kind with KOriginal => true | _ => false end.
Definition is_eco : bool := match kind with KEco => true | _ => false end.

(* the [while i < self.src.len()] loop of parse_declarations *)
Fixpoint decl_loop (f : nat) (st : pst) (i : nat) (prec_level : nat) : sres nat :=
  match f with
  | 0 => OutOfFuel
  | S f' =>
      if negb (i <? len) then
        (if i =? len then fail st PrematureEnd i else Panic)       (* debug_assert!(i == len) *)
      else
      let continue st i := decl_loop f' st i prec_level in
      bind st, la <- look st kw_pp i;
      if is_some la then ret st i else
      bind st, la <- look st kw_token i;
      match la with Some j => bind st, i <- decl_token st j; continue st i | None =>
      bind st, la <- (if is_original then look st kw_actiontype i else ret st None);
      match la with Some j => bind st, i <- decl_actiontype st j; continue st i | None =>
      bind st, la <- look st kw_start i;
      match la with Some j => bind st, i <- decl_start st j; continue st i | None =>
      bind st, la <- look st kw_epp i;
      match la with Some j => bind st, i <- decl_epp st j; continue st i | None =>
      bind st, la <- look st kw_expect_rr i;
      match la with Some j => bind st, i <- decl_expectrr st j; continue st i | None =>
      bind st, la <- look st kw_expect_unused i;
      match la with Some j => bind st, i <- decl_expect_unused st j; continue st i | None =>
      bind st, la <- look st kw_expect i;
      match la with Some j => bind st, i <- decl_expect st j; continue st i | None =>
      bind st, la <- look st kw_avoid_insert i;
      match la with Some j => bind st, i <- decl_avoid_insert st j; continue st i | None =>
      bind st, la <- look st kw_parse_param i;
      match la with Some j => bind st, i <- decl_parse_param st j; continue st i | None =>
      bind st, la <- look st kw_parse_generics i;
      match la with Some j => bind st, i <- decl_parse_generics st j; continue st i | None =>
      bind st, la <- (if is_eco then look st kw_implicit_tokens i else ret st None);
      match la with Some j => bind st, i <- decl_implicit_tokens st j; continue st i | None =>
      bind st, la <- look st kw_left i;
      bind st, ka <-
        match la with
        | Some j => ret st (Some (j, ALeft))
        | None =>
            bind st, la <- look st kw_right i;
            match la with
            | Some j => ret st (Some (j, ARight))
            | None =>
                bind st, la <- look st kw_nonassoc i;
                match la with
                | Some j => ret st (Some (j, ANonassoc))
                | None => ret st None
                end
            end
        end;
      match ka with
      | None => fail st UnknownDeclaration i
      | Some (k, a) =>
          bind st, i <- decl_prec st k prec_level a;
          decl_loop f' st i (S prec_level)
      end
      end end end end end end end end end end end
  end.

Definition parse_declarations (st : pst) (i : nat) : sres nat :=
  bind st, i <- ws st i true;
  decl_loop fuel st i 0.

(* ---- parse_rule ----------------------------------------------------------- *)
Definition add_prod_st (st : pst) (rn : str) (syms : list symbol) (prec : option str)
           (action : option (str * span)) (pstart : nat) (pend : option nat) (i : nat) : sres unit :=
  bind st, sp <- lifto st (mk_span pstart (match pend with Some e => e | None => i end));
  bind st, a <- lifto st (add_prod (ast st) rn syms prec action sp);
  ret (set_ast st a) tt.

Fixpoint rule_loop (f : nat) (st : pst) (rn : str) (i : nat) (syms : list symbol)
         (prec : option str) (action : option (str * span)) (pstart : nat) (pend : option nat)
  : sres nat :=
  match f with
  | 0 => OutOfFuel
  | S f' =>
      if negb (i <? len) then fail st IncompleteRule i else
      bind st, la <- look st kw_bar i;
      match la with
      | Some j =>
          bind st, _ <- add_prod_st st rn syms prec action pstart pend i;
          bind st, i <- ws st j true;
          rule_loop f' st rn i [] None None i None
      | None =>
      bind st, la <- look st kw_semi i;
      match la with
      | Some j =>
          bind st, _ <- add_prod_st st rn syms prec action pstart pend i;
          ret st j
      | None =>
      (* end of the loop body: i = self.parse_ws(i, true)?; next iteration *)
      let next st i syms prec action pend :=
        bind st, i <- ws st i true;
        rule_loop f' st rn i syms prec action pstart pend in
      bind st, l1 <- look st kw_dq i;
      bind st, l2 <- (if is_some l1 then ret st l1 else look st kw_sq i);
      if is_some l2 then
        bind st, t <- lift st (parse_token src i);
        let '(j, sym, sp, _) := t in
        bind st, i <- ws st j true;
        let st := set_ast st (tokens_insert (ast st) sym sp) in
        next st i (syms ++ [SToken sym sp]) prec action (Some j)
      else
      bind st, la <- look st kw_prec i;
      match la with
      | Some j =>
          bind st, i <- ws st j true;
          bind st, t <- lift st (parse_token src i);
          let '(k, sym, sp, _) := t in
          let st := set_ast st (tokens_insert (ast st) sym sp) in
          next st k syms (Some sym) action (Some k)
      | None =>
      bind st, la <- look st kw_lbrace i;
      if is_some la then
        let pos_action_start := i + 1 in
        bind st, t <- lift_nn st (parse_action src len fuel (nn st) i);
        let '(j, a) := t in
        bind st, i' <- ws st j true;
        bind st, asp <- lifto st (action_span fixed_aspan src pos_action_start a);
        bind st, t1 <- look st kw_bar i';
        bind st, t2 <- (if is_some t1 then ret st t1 else look st kw_semi i');
        if negb (is_some t2) then fail st ProductionNotTerminated i'
        else next st i' syms prec (Some (a, asp)) (brace_pend fixed_pspan pend i)
      else
      bind st, la <- look st kw_empty i;
      match la with
      | Some j =>
          bind st, k <- ws st j true;
          bind st, t1 <- look st kw_bar k;
          bind st, t2 <- (if is_some t1 then ret st t1 else look st kw_semi k);
          bind st, t3 <- (if is_some t2 then ret st t2 else look st kw_lbrace k);
          bind st, t4 <- (if is_some t3 then ret st t3 else look st kw_prec k);
          if negb (match syms with [] => true | _ => false end) || negb (is_some t4)
          then fail st NonEmptyProduction i
          else next st k syms prec action (Some j)
      | None =>
          bind st, t <- lift st (parse_token src i);
          let '(j, sym, sp, quoted) := t in
          let is_tok :=
            match get_index_of (a_tokens (ast st)) sym with
            | Some idx => (quoted : bool) || existsb (Nat.eqb idx) (a_token_directives (ast st))
            | None => false
            end in
          next st j (syms ++ [if is_tok then SToken sym sp else SRule sym sp]) prec action (Some j)
      end
      end
      end
      end
  end.

Definition parse_rule (st : pst) (i : nat) : sres nat :=
  bind st, t <- lift st (parse_name src i);
  let '(j, rn) := t in
  bind st, sp <- lifto st (mk_span i j);
  let st := match a_start (ast st) with
            | None => set_ast st (upd_start (ast st) (Some (rn, sp)))
            | Some _ => st
            end in
  bind st, i <-
    match kind with
    | KOriginal | KEco =>
        let st := match get_rule (a_rules (ast st)) rn with
                  | None => set_ast st (add_rule (ast st) rn sp
                                          (match gat st with Some (s, _) => Some s | None => None end))
                  | Some _ => st
                  end in
        ret st j
    | KGrmtools =>
        bind st, i <- ws st j true;
        bind st, la <- look st kw_arrow i;
        match la with
        | None => fail st MissingRightArrow i
        | Some j =>
            bind st, i <- ws st j true;
            bind st, t <- lift_nn st (parse_to_single_colon src len fuel (nn st) i);
            let '(j, actiont) := t in
            let st := match get_rule (a_rules (ast st)) rn with
                      | None => set_ast st (add_rule (ast st) rn sp (Some actiont))
                      | Some _ => st
                      end in
            ret st j
        end
    end;
  bind st, i <- ws st i true;
  bind st, la <- look st kw_colon i;
  match la with
  | None => fail st MissingColon i
  | Some j =>
      bind st, i <- ws st j true;
      rule_loop fuel st rn i [] None None i None
  end.

(* parse_rules *)
Fixpoint rules_loop (f : nat) (st : pst) (i : nat) : sres nat :=
  match f with
  | 0 => OutOfFuel
  | S f' =>
      if negb (i <? len) then ret st i else
      bind st, la <- look st kw_pp i;
      if is_some la then ret st i else
      bind st, i <- parse_rule st i;
      bind st, i <- ws st i true;
      rules_loop f' st i
  end.
Definition parse_rules (st : pst) (i : nat) : sres nat :=
  bind st, la <- look st kw_pp i;
  match la with
  | None => Panic                                             (* .unwrap() *)
  | Some i => bind st, i <- ws st i true; rules_loop fuel st i
  end.

(* parse_programs *)
Definition parse_programs (st : pst) (i : nat) : sres nat :=
  bind st, la <- look st kw_pp i;
  match la with
  | Some j =>
      bind st, i <- ws st j true;
      bind st, prog <- lifto st (slice_from src i);
      ret (set_ast st (upd_programs (ast st) (Some prog))) (i + byte_len prog)
  | None => ret st i
  end.

(* YaccParser::parse after the %grmtools section parser returned position 0;
   result: final state and the error vector *)
Definition st0 : pst := mkSt 0 ast_new None [].
Definition parse : outcome (pst * list yerr) :=
  do r1 <- parse_declarations st0 0;
  match r1 with
  | (st, Err e) => Done (st, errs st ++ [e])
  | (st, Ok i) =>
      do r2 <- parse_rules st i;
      match r2 with
      | (st, Err e) => Done (st, errs st ++ [e])
      | (st, Ok i) =>
          do r3 <- parse_programs st i;
          match r3 with
          | (st, Err e) => Done (st, errs st ++ [e])
          | (st, Ok _) => Done (st, errs st)
          end
      end
  end.

End Parser.

(* ======================================================================== *)
(*  GrammarAST::complete_and_validate                                        *)
(* ======================================================================== *)
Definition has_token (a : gast) (n : str) : bool := is_some (get_index_of (a_tokens a) n).
Definition has_rule (a : gast) (n : str) : bool := is_some (get_rule (a_rules a) n).

Fixpoint validate_syms (a : gast) (syms : list symbol) : option yerr :=
  match syms with
  | [] => None
  | SRule n sp :: rest =>
      if has_rule a n then validate_syms a rest else Some (mkErr (UnknownRuleRef n) [sp])
  | SToken n sp :: rest =>
      if has_token a n then validate_syms a rest else Some (mkErr (UnknownToken n) [sp])
  end.

Definition validate_prod (a : gast) (p : production) : option yerr :=
  match (match p_prec p with
         | Some n =>
             if negb (has_token a n) then Some (mkErr (UnknownToken n) [(0, 0)])
             else if negb (is_some (assoc_get (a_precs a) n)) then Some (mkErr (NoPrecForToken n) [(0, 0)])
             else None
         | None => None
         end) with
  | Some e => Some e
  | None => validate_syms a (p_syms p)
  end.

Fixpoint validate_pidxs (a : gast) (pidxs : list nat) : outcome (option yerr) :=
  match pidxs with
  | [] => Done None
  | pidx :: rest =>
      do p <- nth_checked (a_prods a) pidx;                       (* &self.prods[pidx] *)
      match validate_prod a p with
      | Some e => Done (Some e)
      | None => validate_pidxs a rest
      end
  end.

Fixpoint validate_rules (a : gast) (rs : list rule) : outcome (option yerr) :=
  match rs with
  | [] => Done None
  | r :: rest =>
      do e <- validate_pidxs a (r_pidxs r);
      match e with Some e => Done (Some e) | None => validate_rules a rest end
  end.

(* the implementation (since /repo 3e32e4e) filters its epp HashMap for the keys that are neither
   tokens nor implicit tokens and reports the one with the smallest key span, i.e. the one declared
   first; [a_epp] is kept in declaration order (a duplicate key is a DuplicateEPP error, never a
   second entry), so that is the first unknown entry of the list *)
Fixpoint first_unknown_epp (a : gast) (l : list (str * (span * (str * span)))) : option yerr :=
  match l with
  | [] => None
  | (k, (sp, _)) :: rest =>
      if has_token a k then first_unknown_epp a rest
      else if match a_implicit_tokens a with Some it => is_some (assoc_get it k) | None => false end
      then first_unknown_epp a rest
      else Some (mkErr (UnknownEPP k) [sp])
  end.

Fixpoint validate_expect_unused (a : gast) (l : list symbol) : option yerr :=
  match l with
  | [] => None
  | SRule n sp :: rest =>
      if has_rule a n then validate_expect_unused a rest else Some (mkErr (UnknownRuleRef n) [sp])
  | SToken n sp :: rest =>
      if has_token a n then validate_expect_unused a rest else Some (mkErr (UnknownToken n) [sp])
  end.

Definition complete_and_validate (a : gast) : outcome (option yerr) :=
  match a_start a with
  | None => Done (Some (mkErr NoStartRule [(0, 0)]))
  | Some (s, sp) =>
      if negb (has_rule a s) then Done (Some (mkErr (InvalidStartRule s) [sp])) else
      do e <- validate_rules a (a_rules a);
      match e with
      | Some e => Done (Some e)
      | None =>
          match first_unknown_epp a (a_epp a) with
          | Some e => Done (Some e)
          | None => Done (validate_expect_unused a (a_expect_unused a))
          end
      end
  end.

(* ======================================================================== *)
(*  GrammarAST::warnings (unused_symbols)                                     *)
(* ======================================================================== *)
Definition mem_str (l : list str) (n : str) : bool := existsb (str_eqb n) l.

(* the [while let Some(pidx) = todo.pop()] loop.  [fixed_precused] = /repo 4ff022d: the token
   named by [%prec] of a popped (= reachable) production is inserted into [seen_tokens] before the
   production's symbols are walked; the code before that commit looked at the symbols only *)
Definition add_str (l : list str) (n : str) : list str := if mem_str l n then l else n :: l.

Definition seen_prec (fixed_precused : bool) (p : production) (seen_t : list str) : list str :=
  if fixed_precused then match p_prec p with Some n => add_str seen_t n | None => seen_t end
  else seen_t.

Definition seen_sym (a : gast) (acc : list nat * list str * list str) (s : symbol)
  : list nat * list str * list str :=
  let '(td, sr, stk) := acc in
  match s with
  | SRule n _ =>
      if mem_str sr n then acc
      else match get_rule (a_rules a) n with
           | Some r => (td ++ r_pidxs r, n :: sr, stk)
           | None => (td, n :: sr, stk)
           end
  | SToken n _ => (td, sr, add_str stk n)
  end.

Fixpoint seen_loop (fixed_precused : bool) (f : nat) (a : gast) (todo : list nat) (seen_r seen_t : list str)
  : outcome (list str * list str) :=
  match f with
  | 0 => OutOfFuel
  | S f' =>
      match rev todo with
      | [] => Done (seen_r, seen_t)
      | pidx :: rtodo =>
          do p <- nth_checked (a_prods a) pidx;
          let '(todo', sr, stk) :=
            fold_left (seen_sym a) (p_syms p) (rev rtodo, seen_r, seen_prec fixed_precused p seen_t) in
          seen_loop fixed_precused f' a todo' sr stk
      end
  end.

Inductive wkind := UnusedRule | UnusedToken.

(* [seen_rules] / [seen_tokens] after the reachability walk from the start rule *)
Definition seen_of (fixed_precused : bool) (a : gast) : outcome (list str * list str) :=
  let start_rule := match a_start a with Some (n, _) => get_rule (a_rules a) n | None => None end in
  match start_rule with
  | Some r => seen_loop fixed_precused (S (List.length (a_prods a))) a (r_pidxs r) [r_name r] []
  | None => Done ([], [])
  end.

(* GrammarAST::unused_symbols with the name kept beside each entry: rules in [ast.rules] order,
   then tokens in [ast.tokens] order; [symidx.symbol(self)] indexes ast.spans[idx] *)
Definition unused (fixed_precused : bool) (a : gast) : outcome (list (wkind * str * span)) :=
  let eu_rules := flat_map (fun s => match s with SRule n _ => [n] | _ => [] end) (a_expect_unused a) in
  let eu_toks := flat_map (fun s => match s with SToken n _ => [n] | _ => [] end) (a_expect_unused a)
                 ++ match a_implicit_tokens a with Some it => map fst it | None => [] end in
  do seen <- seen_of fixed_precused a;
  let '(seen_r, seen_t) := seen in
  let wr := flat_map (fun r => if mem_str eu_rules (r_name r) || mem_str seen_r (r_name r) then []
                               else [(UnusedRule, r_name r, r_span r)]) (a_rules a) in
  let fix toks (l : list str) (k : nat) : outcome (list (wkind * str * span)) :=
    match l with
    | [] => Done []
    | t :: l' =>
        do rest <- toks l' (S k);
        if mem_str eu_toks t || mem_str seen_t t then Done rest
        else do sp <- nth_checked (a_spans a) k; Done ((UnusedToken, t, sp) :: rest)
    end in
  do wt <- toks (a_tokens a) 0;
  Done (wr ++ wt).

(* GrammarAST::warnings: kind and span of each unused symbol *)
Definition warnings (fixed_precused : bool) (a : gast) : outcome (list (wkind * span)) :=
  do us <- unused fixed_precused a;
  Done (map (fun x : wkind * str * span => (fst (fst x), snd x)) us).

(* ======================================================================== *)
(*  ASTWithValidityInfo::new                                                  *)
(* ======================================================================== *)
(* the %grmtools section parser is the other mirror (C12 header part); this one
   covers the sources on which it returns position 0, i.e. no [%grmtools]
   after leading Pattern_White_Space *)
Definition header_present (src : str) : bool :=
  prefix_of kw_grmtools (drop_while is_pattern_ws src).

Inductive top :=
| THeader
| TResult (a : gast) (errs : list yerr) (warns : outcome (list (wkind * span))).

Definition fuel_for (src : str) : nat := S (byte_len src).

Definition yacc_new_gen (fixed fixed_aspan fixed_pspan fixed_precused : bool) (fuel : nat) (kind : ykind) (src : str) : outcome top :=
  if header_present src then Done THeader else
  do r <- parse fixed fixed_aspan fixed_pspan kind src (byte_len src) fuel;
  let '(st, es) := r in
  do v <- complete_and_validate (ast st);
  Done (TResult (ast st) (es ++ match v with Some e => [e] | None => [] end) (warnings fixed_precused (ast st))).

(* the code as it is (/repo: block-comment scan bd895aa, production span 69c4b9b and %prec tokens
   counted as used 4ff022d repaired, action span not) *)
Definition yacc_new := yacc_new_gen true false true true.
Definition run_case (fixed fixed_aspan fixed_pspan fixed_precused : bool) (kind : ykind) (src : str) : outcome top :=
  yacc_new_gen fixed fixed_aspan fixed_pspan fixed_precused (fuel_for src) kind src.
