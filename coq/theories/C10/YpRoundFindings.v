(* C10 half (b), round trip — witnesses for what lies just outside the round trip's hypotheses
   (known findings of the check) and for the production-span repair:

   [prod_span_action_layout_refuted]   the code before /repo 69c4b9b (fp = false) on
       S : 'a' 'b'   /* c */ { x } ;   — the production's span runs up to the action's brace;
       with the repair (fp = true) the same pair gives the span of  'a' 'b'  ([ps_fixed_example]).
   [action_literal_brace_refuted]      known finding C10-action-literal-brace: a pair that is
       well-formed but for the NAMED CONDITION [naive_braces_balanced] of [wf_action]
       ([wf_layout_split]: [wf_layout] = [wf_layout_but_braces] + that condition on every action):
       S -> String: 'a' { "{".to_string() } | 'b' { "}".to_string() } ;   is accepted without error
       or warning and yields ONE production whose action swallows the alternative.
   [actiontype_layout_refuted]         known finding C10-actiontype-layout: blanks / a comment
       between an action type and the end of its line (the colon) are part of the type; a colon
       inside such a comment ends the type (the grammar is rejected). *)
From Coq Require Import List Arith NArith ZArith Bool Lia Strings.String Strings.Ascii.
From GV Require Import Common.Outcome C10.YpModel C10.YpSpec C10.YpProofs C10.YpPrint C10.YpRoundSpec
  C10.YpRoundSpansSpec C10.YpRoundExample.
Import ListNotations.
Local Open Scope nat_scope.

(* ======================================================================== *)
(*  The production span before /repo 69c4b9b                                  *)
(* ======================================================================== *)
Definition ps_ag : agram := mkAG []
  [mkARule (s "S") None [mkAProd [ATok (s "a"); ATok (s "b")] None (Some (s "x"))]] None.
Definition ps_lay : layout :=
  mkLay (look (s " ") [([4;0;0;0;1], s "   /* c */ ")]) (fun _ => QSq) (fun _ => s " ") (fun _ => false).

Example ps_source : print ps_lay ps_ag = s " %% S : 'a' 'b'   /* c */ { x } ; ".
Proof. vm_compute. reflexivity. Qed.

Example ps_wf_layout : wf_layout ps_lay ps_ag.
Proof.
  unfold wf_layout. split; [|split; [|split; [|split]]].
  - cbn. lt.
  - exact I.
  - cbn. lt.
  - cbn [ps_ag ag_rules wf_rules]. wf_tac.
    cbn. apply (lt_app (s "   ") (s "/* c */ ")); [apply lt_blanks; reflexivity|].
    apply (lt_app (s "/* c */") (s " ")); [apply (lt_block (s " c ")); reflexivity | apply lt_blanks; reflexivity].
  - exact I.
Qed.
Example ps_wf_agram : wf_agram KOriginal ps_ag.
Proof. unfold wf_agram. repeat split; ag_tac. Qed.

Lemma prod_span_action_layout_refuted : prod_span_action_layout_refuted_stmt.
Proof.
  exists ps_lay, ps_ag. split; [exact ps_wf_agram|]. split; [exact ps_wf_layout|].
  intros fa fu. exists (ast_of fa false ps_lay ps_ag), (warnings_of fa false fu ps_lay ps_ag).
  split; [destruct fa, fu; vm_compute; reflexivity|].
  unfold prod_spans_core. intros H.
  assert (E : map p_span (a_prods (ast_of fa false ps_lay ps_ag)) = [(8, 26)]) by (destruct fa; vm_compute; reflexivity).
  destruct (a_prods (ast_of fa false ps_lay ps_ag)) as [|pr [|pr' prs]]; try discriminate E.
  injection E as E. inversion H as [|? ? ? ? Hsel _]; subst. rewrite E in Hsel.
  vm_compute in Hsel. discriminate Hsel.
Qed.

(* the same pair with the repaired code: the span (8, 15) selects  'a' 'b'  *)
Example ps_fixed_example :
  forall fa, exists A w pr,
    run_case true fa true true KOriginal (print ps_lay ps_ag) = Done (TResult A [] w) /\
    a_prods A = [pr] /\ sel (print ps_lay ps_ag) (p_span pr) (s "'a' 'b'").
Proof.
  intros fa. destruct fa; vm_compute; do 3 eexists; (split; [reflexivity|split; reflexivity]).
Qed.

(* ======================================================================== *)
(*  Braces inside literals / comments of action code                          *)
(* ======================================================================== *)
(* [wf_layout] with the condition on action texts reduced to [trimmed] *)
Definition wf_prod_bb (D : str -> bool) (pl : play) (p : aprod) : Prop :=
  wf_syms D pl 0 (ap_syms p) /\
  match ap_prec p with
  | Some t => is_qname (pq_prec pl) t /\ layout_text (pg_prec1 pl) /\ layout_text (pg_prec2 pl)
  | None => True
  end /\
  match ap_action p with
  | Some t => trimmed t /\ wf_pad (p_pad1 pl) /\ wf_pad (p_pad2 pl) /\ layout_text (pg_act pl)
  | None => True
  end /\
  layout_text (pg_empty pl) /\
  layout_text (pg_term pl).
Fixpoint wf_prods_bb (D : str -> bool) (rl : rlay) (pi : nat) (ps : list aprod) : Prop :=
  match ps with
  | [] => True
  | p :: ps' => wf_prod_bb D (r_play rl pi) p /\ wf_prods_bb D rl (S pi) ps'
  end.
Definition wf_rule_bb (D : str -> bool) (rl : rlay) (r : arule) : Prop :=
  is_name (ar_name r) = true /\ layout_text (rg_name rl) /\ layout_text (rg_colon rl) /\
  ar_prods r <> [] /\ wf_prods_bb D rl 0 (ar_prods r) /\
  match ar_type r with
  | Some t => layout_text (rg_arrow rl) /\ wf_rtype t /\ wf_pad (r_tpad rl) /\
              item_start (t ++ r_tpad rl ++ [c_colon])
  | None => True
  end.
Fixpoint wf_rules_bb (D : str -> bool) (l : layout) (r : nat) (rs : list arule) : Prop :=
  match rs with
  | [] => True
  | x :: rs' => wf_rule_bb D (rlay_of l r) x /\ wf_rules_bb D l (S r) rs'
  end.
Definition wf_layout_but_braces (l : layout) (ag : agram) : Prop :=
  layout_text (l_gap l [0]) /\ wf_decls l 0 (ag_decls ag) /\
  layout_text (l_gap l [2]) /\ wf_rules_bb (declared_b ag) l 0 (ag_rules ag) /\
  wf_programs l ag.

(* the action texts of a grammar *)
Definition prod_actions (ps : list aprod) : list str :=
  flat_map (fun p => match ap_action p with Some t => [t] | None => [] end) ps.
Definition ag_actions (ag : agram) : list str := flat_map (fun r => prod_actions (ar_prods r)) (ag_rules ag).

Lemma wf_prods_split : forall D rl ps pi,
  wf_prods D rl pi ps <-> wf_prods_bb D rl pi ps /\ Forall naive_braces_balanced (prod_actions ps).
Proof.
  intros D rl ps. induction ps as [|p ps IH]; intros pi; cbn [wf_prods wf_prods_bb prod_actions flat_map].
  - split; [intros _; split; [exact I | constructor] | intros _; exact I].
  - fold (prod_actions ps). rewrite (IH (S pi)). unfold wf_prod, wf_prod_bb, wf_action.
    destruct (ap_action p) as [t|]; cbn [app]; [rewrite Forall_cons_iff|]; tauto.
Qed.

Lemma wf_rules_split : forall D l rs r,
  wf_rules D l r rs <->
  wf_rules_bb D l r rs /\ Forall naive_braces_balanced (flat_map (fun x => prod_actions (ar_prods x)) rs).
Proof.
  intros D l rs. induction rs as [|x rs IH]; intros r; cbn [wf_rules wf_rules_bb flat_map].
  - split; [intros _; split; [exact I | constructor] | intros _; exact I].
  - rewrite (IH (S r)). unfold wf_rule, wf_rule_bb. rewrite (wf_prods_split D (rlay_of l r) (ar_prods x) 0).
    rewrite Forall_app. tauto.
Qed.

(* [wf_layout] is [wf_layout_but_braces] plus the named condition on every action text *)
Definition wf_layout_split_stmt : Prop := forall l ag,
  wf_layout l ag <-> wf_layout_but_braces l ag /\ Forall naive_braces_balanced (ag_actions ag).
Lemma wf_layout_split : wf_layout_split_stmt.
Proof.
  intros l ag. unfold wf_layout, wf_layout_but_braces, ag_actions.
  rewrite (wf_rules_split (declared_b ag) l (ag_rules ag) 0). tauto.
Qed.

(*    %% S -> String: 'a' { "{".to_string() } | 'b' { "}".to_string() } ;     *)
Definition alb_ag : agram := mkAG []
  [mkARule (s "S") (Some (s "String"))
     [mkAProd [ATok (s "a")] None (Some (s """{"".to_string()"));
      mkAProd [ATok (s "b")] None (Some (s """}"".to_string()"))]] None.
Definition alb_lay : layout :=
  mkLay (fun _ => s " ") (fun _ => QSq) (look (s " ") [([3;0;3], [])]) (fun _ => false).

Example alb_source :
  print alb_lay alb_ag = s " %% S -> String: 'a' { ""{"".to_string() } | 'b' { ""}"".to_string() } ; ".
Proof. vm_compute. reflexivity. Qed.

Definition action_literal_brace_refuted_stmt : Prop :=
  exists l ag,
    (* well-formed but for the named condition, which both actions violate *)
    wf_agram KGrmtools ag /\ wf_layout_but_braces l ag /\
    Forall (fun a => ~ naive_braces_balanced a) (ag_actions ag) /\
    forall fa fp, exists A pr t,
      (* accepted: no error, no warning *)
      run_case true fa fp true KGrmtools (print l ag) = Done (TResult A [] (Done [])) /\
      (* two productions were written; the grammar has one, and only the token 'a' *)
      List.length (flat_map ar_prods (ag_rules ag)) = 2 /\
      a_prods A = [pr] /\ a_tokens A = [s "a"] /\
      (* its action text runs over the alternative *)
      p_action pr = Some (s """{"".to_string() } | 'b' { ""}"".to_string()", t) /\
      A <> ast_of fa fp l ag.

Lemma action_literal_brace_refuted : action_literal_brace_refuted_stmt.
Proof.
  exists alb_lay, alb_ag. split; [|split; [|split]].
  - unfold wf_agram. repeat split; ag_tac.
  - unfold wf_layout_but_braces. split; [|split; [|split; [|split]]].
    + cbn. lt.
    + exact I.
    + cbn. lt.
    + cbn [alb_ag ag_rules wf_rules_bb]. wf_tac.
    + exact I.
  - vm_compute. repeat constructor; discriminate.
  - intros fa fp.
    destruct (run_case true fa fp true KGrmtools (print alb_lay alb_ag)) as [[|A e w]| |] eqn:E;
      try (exfalso; destruct fa, fp; vm_compute in E; discriminate E).
    assert (Hp : exists pr t, e = [] /\ w = Done [] /\ a_prods A = [pr] /\ a_tokens A = [s "a"] /\
                   p_action pr = Some (s """{"".to_string() } | 'b' { ""}"".to_string()", t)).
    { destruct fa, fp; vm_compute in E; injection E as <- <- <-; do 2 eexists; repeat split; reflexivity. }
    destruct Hp as [pr [t [-> [-> [Hp [Ht Ha]]]]]].
    exists A, pr, t. repeat split; try assumption; try reflexivity.
    intros ->. assert (L : List.length (a_prods (ast_of fa fp alb_lay alb_ag)) = 2) by (destruct fa, fp; vm_compute; reflexivity).
    rewrite Hp in L. discriminate L.
Qed.

(* ======================================================================== *)
(*  Layout after an action type                                               *)
(* ======================================================================== *)
(* Original dialect: the declaration alone, with two trailing blanks, with a trailing comment *)
Definition atl_o0 : str := s "%actiontype u32" ++ nl ++ s "%%" ++ nl ++ s "S: 'a';".
Definition atl_o1 : str := s "%actiontype u32  " ++ nl ++ s "%%" ++ nl ++ s "S: 'a';".
Definition atl_o2 : str := s "%actiontype u32 // c" ++ nl ++ s "%%" ++ nl ++ s "S: 'a';".
(* Grmtools dialect: blanks, a comment, a comment with a colon between the type and its colon *)
Definition atl_g0 : str := s "%%" ++ nl ++ s "S -> u32 : 'a';".
Definition atl_g1 : str := s "%%" ++ nl ++ s "S -> u32 /* c */ : 'a';".
Definition atl_g2 : str := s "%%" ++ nl ++ s "S -> u32 // x: y" ++ nl ++ s " : 'a';".

Definition types_of (k : ykind) (src : str) : option (list (option str)) :=
  match run_case true false true true k src with
  | Done (TResult A [] (Done [])) => Some (map r_actiont (a_rules A))
  | _ => None
  end.

Definition actiontype_layout_refuted_stmt : Prop :=
  (* three layouts of one declaration, three different action types *)
  types_of KOriginal atl_o0 = Some [Some (s "u32")] /\
  types_of KOriginal atl_o1 = Some [Some (s "u32  ")] /\
  types_of KOriginal atl_o2 = Some [Some (s "u32 // c")] /\
  (* blanks before the colon are dropped, a comment is kept *)
  types_of KGrmtools atl_g0 = Some [Some (s "u32")] /\
  types_of KGrmtools atl_g1 = Some [Some (s "u32 /* c */")] /\
  (* the colon inside the comment ends the type: the grammar is rejected *)
  (exists A e es w, run_case true false true true KGrmtools atl_g2 = Done (TResult A (e :: es) w)).

Lemma actiontype_layout_refuted : actiontype_layout_refuted_stmt.
Proof.
  repeat split; try (vm_compute; reflexivity).
  vm_compute. do 4 eexists. reflexivity.
Qed.
