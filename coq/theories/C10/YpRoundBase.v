(* C10 half (b), round trip — the generic layer: "an item, then layout" for the
   state-passing parser functions of YpModel.v.

   Every lemma has the shape
       src = pre ++ <printed item> ++ rest  ->  i = byte_len pre  ->  <conditions on rest>  ->
       f (mkSt n a g e) i = Done (mkSt n' a' g e, Ok (i + byte_len <printed item>))
   so that it can be used by [rewrite] whatever arithmetic expression the cursor
   [i] is at that moment. *)
From Coq Require Import List Arith NArith ZArith Bool Lia.
From GV Require Import Common.Outcome C10.YpModel C10.YpSpec C10.YpProofs C10.YpPrint C10.YpRoundSpec.
Import ListNotations.
Local Open Scope nat_scope.

(* list equalities modulo re-association *)
Ltac lsolve :=
  subst; repeat (rewrite <- app_assoc); cbn [app]; repeat (rewrite <- app_assoc); cbn [app];
  try reflexivity; repeat f_equal.
Ltac feq := repeat first [reflexivity | lia | progress f_equal].
Ltac blen := rewrite ?byte_len_app; cbn [byte_len]; try lia.

(* ---- what an item starts with --------------------------------------------- *)

Lemma item_start_solid : forall r, item_start r -> starts_solid r.
Proof.
  intros [|c r] H; [exact I|]. simpl in H. unfold first_ok in H.
  apply andb_true_iff in H. destruct H as [Hb Hs].
  apply negb_true_iff in Hb. apply negb_true_iff in Hs. apply N.eqb_neq in Hs.
  split; [exact Hb|]. intros Hc. contradiction.
Qed.

Lemma item_start_cons : forall c r, first_ok c = true -> item_start (c :: r).
Proof. intros c r H. exact H. Qed.

Lemma item_start_app : forall a r, a <> [] -> item_start a -> item_start (a ++ r).
Proof. intros [|c a] r Hne H; [congruence|]. exact H. Qed.

Lemma tok_start_first_ok : forall c, tok_start c = true -> first_ok c = true.
Proof.
  intros c H. unfold tok_start, is_alpha_ in H. unfold first_ok, is_blank, is_sptab, is_nl, c_sp, c_tab, c_nl, c_cr, c_slash.
  nbool; repeat (apply andb_true_iff; split); apply negb_true_iff; repeat (apply orb_false_iff; split);
    apply N.eqb_neq; lia.
Qed.

Lemma name_start_first_ok : forall c, name_start c = true -> first_ok c = true.
Proof.
  intros c H. unfold name_start in H. apply orb_true_iff in H. destruct H as [H|H].
  - apply tok_start_first_ok. exact H.
  - apply N.eqb_eq in H. subst c. reflexivity.
Qed.

Lemma digit_first_ok : forall c, is_digit c = true -> first_ok c = true.
Proof.
  intros c H. unfold is_digit in H. unfold first_ok, is_blank, is_sptab, is_nl, c_sp, c_tab, c_nl, c_cr, c_slash.
  nbool; repeat (apply andb_true_iff; split); apply negb_true_iff; repeat (apply orb_false_iff; split);
    apply N.eqb_neq; lia.
Qed.

(* a layout text never starts like an identifier, a name or a number *)
Lemma layout_item_hd : forall it, layout_item it ->
  exists c r, it = c :: r /\ (is_blank c = true \/ c = c_slash).
Proof.
  intros it H. destruct H as [c Hc | body nl _ _ | body _].
  - exists c, []. split; [reflexivity | left; exact Hc].
  - eexists _, _. split; [reflexivity | right; reflexivity].
  - eexists _, _. split; [reflexivity | right; reflexivity].
Qed.

Lemma layout_text_hd : forall l, layout_text l -> l <> [] ->
  exists c r, l = c :: r /\ (is_blank c = true \/ c = c_slash).
Proof.
  intros l H. induction H as [|it rest Hit Hrest IH]; intros Hne; [congruence|].
  destruct (layout_item_hd it Hit) as [c [r [E Hc]]]. subst it.
  exists c, (r ++ rest). split; [reflexivity | exact Hc].
Qed.

Lemma blank_or_slash_not : forall (p : N -> bool) c,
  (forall x, p x = true -> first_ok x = true) ->
  (is_blank c = true \/ c = c_slash) -> p c = false.
Proof.
  intros p c Hp Hc. destruct (p c) eqn:E; [|reflexivity]. apply Hp in E.
  unfold first_ok in E. apply andb_true_iff in E. destruct E as [E1 E2].
  destruct Hc as [Hc|Hc].
  - rewrite Hc in E1. discriminate E1.
  - subst c. discriminate E2.
Qed.

Lemma tok_cont_first_ok : forall c, tok_cont c = true -> first_ok c = true.
Proof.
  intros c H. unfold tok_cont in H. apply orb_true_iff in H. destruct H as [H|H].
  - apply tok_start_first_ok. exact H.
  - apply digit_first_ok. exact H.
Qed.
Lemma name_cont_first_ok : forall c, name_cont c = true -> first_ok c = true.
Proof.
  intros c H. unfold name_cont in H. apply orb_true_iff in H. destruct H as [H|H].
  - apply name_start_first_ok. exact H.
  - apply digit_first_ok. exact H.
Qed.

(* after a non-empty layout text nothing continues an identifier / name / number *)
Lemma not_starting_layout : forall (p : N -> bool) l rest,
  (forall x, p x = true -> first_ok x = true) ->
  layout_text l -> l <> [] -> not_starting p (l ++ rest).
Proof.
  intros p l rest Hp Hl Hne. destruct (layout_text_hd l Hl Hne) as [c [r [E Hc]]]. subst l.
  simpl. apply blank_or_slash_not; assumption.
Qed.

(* ... and, whatever the gap, when the next item starts with a character that does not continue it *)
Lemma not_starting_gap : forall (p : N -> bool) l rest,
  (forall x, p x = true -> first_ok x = true) ->
  layout_text l -> not_starting p rest -> not_starting p (l ++ rest).
Proof.
  intros p l rest Hp Hl Hr. destruct l as [|c l']; [exact Hr|].
  apply not_starting_layout; try assumption. discriminate.
Qed.

(* ---- parse_ws in state form ------------------------------------------------ *)
Lemma ws_gap_solid : forall src pre l rest i n a g e inc,
  src = pre ++ l ++ rest -> i = byte_len pre ->
  layout_text l -> starts_solid rest -> (inc = false -> line_layout l) ->
  ws true src (byte_len src) (fuel_for src) (mkSt n a g e) i inc
  = Done (mkSt (n + count_nl l) a g e, Ok (i + byte_len l)).
Proof.
  intros src pre l rest i n a g e inc Hs Hi Hl Hr Hinc. subst i.
  unfold ws. cbn [nn]. destruct inc.
  - pose proof (ws_skips_layout_fixed pre l rest n true Hl Hr ltac:(intros HH; discriminate HH)) as H.
    cbn zeta in H. rewrite <- Hs in H. rewrite H. reflexivity.
  - pose proof (ws_skips_line_layout pre l rest n (Hinc eq_refl) Hr) as H.
    cbn zeta in H. rewrite <- Hs in H. rewrite H. reflexivity.
Qed.

Lemma ws_gap : forall src pre l rest i n a g e inc,
  src = pre ++ l ++ rest -> i = byte_len pre ->
  layout_text l -> item_start rest -> (inc = false -> line_layout l) ->
  ws true src (byte_len src) (fuel_for src) (mkSt n a g e) i inc
  = Done (mkSt (n + count_nl l) a g e, Ok (i + byte_len l)).
Proof.
  intros src pre l rest i n a g e inc Hs Hi Hl Hr Hinc.
  apply (ws_gap_solid src pre l rest); try assumption. apply item_start_solid. exact Hr.
Qed.

(* no layout at all: the cursor is already at an item *)
Lemma ws_none : forall src pre rest i n a g e inc,
  src = pre ++ rest -> i = byte_len pre -> item_start rest ->
  ws true src (byte_len src) (fuel_for src) (mkSt n a g e) i inc = Done (mkSt n a g e, Ok i).
Proof.
  intros src pre rest i n a g e inc Hs Hi Hr.
  rewrite (ws_gap src pre [] rest i n a g e inc); try assumption.
  - change (count_nl []) with 0. cbn [byte_len]. rewrite !Nat.add_0_r. reflexivity.
  - constructor.
  - intros _. constructor.
Qed.

(* ---- lookahead_is ---------------------------------------------------------- *)
Lemma look_at : forall src pre r st s i, src = pre ++ r -> i = byte_len pre ->
  look src st s i = Done (st, Ok (if prefix_of s r then Some (i + byte_len s) else None)).
Proof.
  intros src pre r st s i Hs Hi. subst i src. unfold look, lookahead_is.
  rewrite slice_from_app. cbn [obind lifto]. reflexivity.
Qed.

Lemma prefix_of_self : forall s r, prefix_of s (s ++ r) = true.
Proof. induction s as [|c s IH]; intros r; [reflexivity|]. simpl. rewrite N.eqb_refl. apply IH. Qed.

Lemma prefix_of_hd_ne : forall a p c r, a <> c -> prefix_of (a :: p) (c :: r) = false.
Proof. intros a p c r H. simpl. apply N.eqb_neq in H. rewrite H. reflexivity. Qed.

Lemma lt_len_at : forall src pre c r i, src = pre ++ c :: r -> i = byte_len pre ->
  (i <? byte_len src) = true.
Proof. intros src pre c r i Hs Hi. subst. apply lt_len_app. Qed.

Lemma not_lt_len_end : forall src i, i = byte_len src -> (i <? byte_len src) = false.
Proof. intros src i Hi. subst. apply Nat.ltb_irrefl. Qed.

(* the dialect-dependent lookaheads of parse_declarations' cascade, when the keyword is not there *)
Lemma look_actiontype_skip : forall k src pre r (st : pst) i, src = pre ++ r -> i = byte_len pre ->
  prefix_of kw_actiontype r = false ->
  (if is_original k then look src st kw_actiontype i else ret st None) = Done (st, Ok None).
Proof.
  intros k src pre r st i Hs Hi Hp. destruct k; cbn [is_original]; [|reflexivity ..].
  rewrite (look_at _ _ _ _ _ _ Hs Hi), Hp. reflexivity.
Qed.
Lemma look_implicit_skip : forall k src pre r (st : pst) i, src = pre ++ r -> i = byte_len pre ->
  prefix_of kw_implicit_tokens r = false ->
  (if is_eco k then look src st kw_implicit_tokens i else ret st None) = Done (st, Ok None).
Proof.
  intros k src pre r st i Hs Hi Hp. destruct k; cbn [is_eco]; try reflexivity.
  rewrite (look_at _ _ _ _ _ _ Hs Hi), Hp. reflexivity.
Qed.

(* ---- lexical items in state form ------------------------------------------ *)

Lemma qchar_cases : forall q, qchar q = c_sq \/ qchar q = c_dq.
Proof. intros [| |]; [left | left | right]; reflexivity. Qed.

Lemma byte_len_print_tok : forall q n, byte_len (print_tok q n) = byte_len n + 2 * tok_off q.
Proof.
  intros [| |] n; cbn [print_tok tok_off]; rewrite ?Nat.mul_0_r, ?Nat.add_0_r; try reflexivity;
    cbn [byte_len]; rewrite byte_len_app; cbn [byte_len qchar];
    change (len_utf8 c_sq) with 1; change (len_utf8 c_dq) with 1; lia.
Qed.

Lemma parse_token_at : forall src pre q n rest i,
  src = pre ++ print_tok q n ++ rest -> i = byte_len pre ->
  is_qname q n -> tok_follow q rest ->
  parse_token src i
  = Done (Ok (i + byte_len (print_tok q n), n, tok_span q i n, match q with QBare => false | _ => true end)).
Proof.
  intros src pre q n rest i Hs Hi Hn Hf. subst i.
  destruct q.
  - cbn [print_tok] in *. cbn [is_qname tok_follow] in *.
    destruct (parse_token_bare_roundtrip pre n rest Hn Hf) as [H _]. cbn zeta in H.
    rewrite <- Hs in H. rewrite H. unfold tok_span. cbn [tok_off]. rewrite !Nat.add_0_r. reflexivity.
  - cbn [print_tok qchar] in *. destruct Hn as [Hne Hn].
    destruct (parse_token_quoted_roundtrip pre c_sq n rest (or_introl eq_refl) Hne Hn) as [H _].
    cbn zeta in H. cbn [app] in Hs. rewrite <- app_assoc in Hs. cbn [app] in Hs. rewrite <- Hs in H. rewrite H.
    unfold tok_span. cbn [tok_off]. cbn [byte_len]. rewrite byte_len_app. cbn [byte_len].
    change (len_utf8 c_sq) with 1. feq.
  - cbn [print_tok qchar] in *. destruct Hn as [Hne Hn].
    destruct (parse_token_quoted_roundtrip pre c_dq n rest (or_intror eq_refl) Hne Hn) as [H _].
    cbn zeta in H. cbn [app] in Hs. rewrite <- app_assoc in Hs. cbn [app] in Hs. rewrite <- Hs in H. rewrite H.
    unfold tok_span. cbn [tok_off]. cbn [byte_len]. rewrite byte_len_app. cbn [byte_len].
    change (len_utf8 c_dq) with 1. feq.
Qed.

(* first character of an occurrence *)
Lemma print_tok_hd : forall q n, is_qname q n ->
  exists c r, print_tok q n = c :: r /\
    match q with QBare => tok_start c = true | _ => c = qchar q end.
Proof.
  intros [| |] n H; cbn [print_tok is_qname] in *.
  - destruct n as [|c r]; [discriminate H|]. simpl in H. apply andb_true_iff in H.
    exists c, r. split; [reflexivity | tauto].
  - eexists _, _. split; reflexivity.
  - eexists _, _. split; reflexivity.
Qed.

Lemma print_tok_item_start : forall q n r, is_qname q n -> item_start (print_tok q n ++ r).
Proof.
  intros q n r H. destruct (print_tok_hd q n H) as [c [t [E Hc]]]. rewrite E. simpl.
  destruct q.
  - apply tok_start_first_ok. exact Hc.
  - subst c. reflexivity.
  - subst c. reflexivity.
Qed.

Lemma mk_span_le : forall s e, s <= e -> mk_span s e = Done (s, e).
Proof. intros s e H. unfold mk_span. destruct (Nat.ltb_spec e s); [lia | reflexivity]. Qed.

(* ---- keyword dispatch ------------------------------------------------------ *)
Definition hd_is (s : str) (c : N) : bool := match s with a :: _ => (a =? c)%N | [] => true end.
Lemma prefix_of_hd_false : forall s c r, hd_is s c = false -> prefix_of s (c :: r) = false.
Proof. intros [|a p] c r H; [discriminate H|]. simpl in *. rewrite H. reflexivity. Qed.

(* an identifier does not start like any keyword or punctuation *)
Lemma tok_start_hd : forall c, tok_start c = true ->
  forall s, In s [kw_bar; kw_semi; kw_dq; kw_sq; kw_prec; kw_lbrace; kw_empty; kw_percent; kw_pp; kw_colon] ->
  hd_is s c = false.
Proof.
  intros c H s Hs. unfold tok_start, is_alpha_ in H.
  simpl in Hs.
  repeat (destruct Hs as [Hs|Hs];
          [subst s; unfold hd_is;
           lazy delta [kw_bar kw_semi kw_dq kw_sq kw_prec kw_lbrace kw_empty kw_percent kw_pp kw_colon];
           lazy iota beta; apply N.eqb_neq; intros E; subst c; discriminate H|]).
  contradiction.
Qed.

(* one lookahead at the position described by [Hs : src = pre ++ c :: r] and [Hi : i = byte_len pre]:
   the keyword is there ([prefix_of_self]) or its first character differs *)
(* decide a lookahead by computation when the text at the cursor starts with concrete characters *)
Ltac look_eval :=
  match goal with
  | |- context [prefix_of ?s ?r] =>
      let b := eval lazy in (prefix_of s r) in
      match b with
      | true => change (prefix_of s r) with true
      | false => change (prefix_of s r) with false
      end
  end.
Ltac look1 Hs Hi :=
  rewrite (look_at _ _ _ _ _ _ Hs Hi);
  first [ look_eval
        | rewrite prefix_of_self
        | rewrite prefix_of_hd_false by (first [reflexivity | auto 12 using in_eq, in_cons]) ];
  cbn [sbind is_some ret].

(* normalise the state after [set_ast]/[set_nn] on an explicit [mkSt] *)
Ltac stn := unfold set_ast, set_nn, set_errs, set_gat; cbn [nn ast gat errs].
