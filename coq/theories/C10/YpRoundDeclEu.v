(* C10 half (b), round trip — the %expect-unused directive: one iteration of
   parse_declarations' loop on  %expect-unused s0 s1 ...  followed by the next '%'.
   Rule names are printed bare (read by parse_name), tokens between quotes
   (parse_name fails on the quote, parse_token reads them). *)
From Coq Require Import List Arith NArith ZArith Bool Lia.
From GV Require Import Common.Outcome C10.YpModel C10.YpSpec C10.YpProofs C10.YpPrint C10.YpRoundSpec C10.YpRoundBase.
Import ListNotations.
Local Open Scope nat_scope.

(* ---- keyword dispatch ------------------------------------------------------- *)
Lemma pf_pp_eu : forall r, prefix_of kw_pp (kw_expect_unused ++ r) = false. Proof. reflexivity. Qed.
Lemma pf_token_eu : forall r, prefix_of kw_token (kw_expect_unused ++ r) = false. Proof. reflexivity. Qed.
Lemma pf_actiontype_eu : forall r, prefix_of kw_actiontype (kw_expect_unused ++ r) = false. Proof. reflexivity. Qed.
Lemma pf_start_eu : forall r, prefix_of kw_start (kw_expect_unused ++ r) = false. Proof. reflexivity. Qed.
Lemma pf_epp_eu : forall r, prefix_of kw_epp (kw_expect_unused ++ r) = false. Proof. reflexivity. Qed.
Lemma pf_rr_eu : forall r, prefix_of kw_expect_rr (kw_expect_unused ++ r) = false. Proof. reflexivity. Qed.

Lemma prefix_percent_pct : forall r, prefix_of kw_percent (37%N :: r) = true.
Proof. reflexivity. Qed.

(* ---- the items of the list --------------------------------------------------- *)
Lemma name_hd : forall n, is_name n = true -> exists c r, n = c :: r /\ name_start c = true.
Proof.
  intros [|c r] H; [discriminate H|]. simpl in H. apply andb_true_iff in H.
  exists c, r. split; [reflexivity | tauto].
Qed.

Lemma name_start_not_pct : forall c r, name_start c = true -> prefix_of kw_percent (c :: r) = false.
Proof.
  intros c r H. apply prefix_of_hd_false. unfold hd_is, kw_percent.
  apply N.eqb_neq. intros E. subst c. discriminate H.
Qed.

Lemma quoted_tok_follow : forall q r, q <> QBare -> tok_follow q r.
Proof. intros [| |] r H; [congruence | exact I | exact I]. Qed.

(* first character of a quoted occurrence *)
Lemma quoted_hd : forall q n, q <> QBare -> exists r, print_tok q n = qchar q :: r.
Proof.
  intros [| |] n H; [congruence | |]; cbn [print_tok]; eexists; reflexivity.
Qed.

Lemma qchar_not_name_start : forall q, name_start (qchar q) = false.
Proof. intros [| |]; reflexivity. Qed.
Lemma qchar_not_name_cont : forall q, name_cont (qchar q) = false.
Proof. intros [| |]; reflexivity. Qed.
Lemma qchar_not_pct : forall q r, prefix_of kw_percent (qchar q :: r) = false.
Proof. intros [| |] r; reflexivity. Qed.

(* parse_name fails on a quoted token: RE_NAME does not match a quote character *)
Lemma parse_name_quoted : forall src pre q n rest i,
  src = pre ++ print_tok q n ++ rest -> i = byte_len pre -> q <> QBare ->
  parse_name src i = Done (Err (mk_error IllegalName i)).
Proof.
  intros src pre q n rest i Hs Hi Hq. destruct (quoted_hd q n Hq) as [r E].
  rewrite E in Hs. cbn [app] in Hs. subst i src.
  unfold parse_name. rewrite slice_from_app. cbn [obind re_name].
  rewrite qchar_not_name_start. reflexivity.
Qed.

(* a printed %expect-unused list followed by '%' starts with an item *)
Lemma eus_item_start : forall g q k ss rest,
  wf_eus g q k ss -> item_start (print_eus g q k ss ++ 37%N :: rest).
Proof.
  intros g q k [|s ss] rest Hw.
  - reflexivity.
  - cbn [print_eus]. destruct Hw as [Hq _]. rewrite <- app_assoc.
    destruct s as [nm|nm]; cbn [eu_q sym_name].
    + cbn [print_tok]. destruct (name_hd nm Hq) as [c [r [E Hc]]]. subst nm.
      cbn [app]. apply item_start_cons. apply name_start_first_ok. exact Hc.
    + destruct Hq as [_ Hq]. apply print_tok_item_start. exact Hq.
Qed.

(* what follows a bare rule name of an %expect-unused list does not continue it *)
Lemma eus_follow : forall g q k nm ss rest,
  wf_eus g q k (ARule nm :: ss) ->
  not_starting name_cont (g (S k) ++ print_eus g q (S k) ss ++ 37%N :: rest).
Proof.
  intros g q k nm ss rest Hw. destruct Hw as [_ [Hl [Hm Hw]]].
  destruct (g (S k)) as [|c l] eqn:Eg.
  - cbn [app]. destruct ss as [|s' ss'].
    + reflexivity.
    + cbn [print_eus]. destruct s' as [nm'|nm'].
      * exfalso. apply Hm. reflexivity.
      * destruct Hw as [[Hq' _] _]. cbn [eu_q sym_name].
        destruct (quoted_hd (q (S k)) nm' Hq') as [r E]. rewrite E.
        cbn [app not_starting]. apply qchar_not_name_cont.
  - apply not_starting_layout.
    + exact name_cont_first_ok.
    + exact Hl.
    + discriminate.
Qed.

Lemma eu_item_pos : forall g q k s ss, wf_eus g q k (s :: ss) ->
  1 <= byte_len (print_tok (eu_q q k s) (sym_name s)).
Proof.
  intros g q k s ss Hw. destruct Hw as [Hq _]. destruct s as [nm|nm]; cbn [eu_q sym_name].
  - cbn [print_tok]. destruct (name_hd nm Hq) as [c [r [E _]]]. subst nm.
    cbn [byte_len]. pose proof (len_utf8_pos c). lia.
  - destruct Hq as [Hq _]. rewrite byte_len_print_tok.
    destruct (q k); [congruence | |]; cbn [tok_off]; lia.
Qed.

Lemma eus_length_le : forall g q ss k,
  wf_eus g q k ss -> List.length ss <= byte_len (print_eus g q k ss).
Proof.
  intros g q ss. induction ss as [|s ss IH]; intros k Hw.
  - cbn [List.length]. lia.
  - pose proof (eu_item_pos _ _ _ _ _ Hw) as Hp.
    destruct Hw as [_ [_ [_ Hw]]]. cbn [print_eus List.length].
    rewrite !byte_len_app. pose proof (IH _ Hw). lia.
Qed.

(* ---- the loop ---------------------------------------------------------------- *)
Lemma eu_loop_items : forall g q ss k src pre rest i f n a g0 e,
  src = pre ++ print_eus g q k ss ++ 37%N :: rest -> i = byte_len pre ->
  wf_eus g q k ss ->
  List.length ss < f ->
  exists n',
    expect_unused_loop true src (byte_len src) (fuel_for src) f (mkSt n a g0 e) i
    = Done (mkSt n' (fold_left ins_eu (eu_occs g q k i ss) a) g0 e,
            Ok (i + byte_len (print_eus g q k ss))).
Proof.
  intros g q ss. induction ss as [|s ss IH]; intros k src pre rest i f n a g0 e Hs Hi Hw Hf.
  - destruct f as [|f]; [cbn [List.length] in Hf; lia|].
    cbn [print_eus app] in Hs. exists n.
    cbn [expect_unused_loop]. rewrite (lt_len_at _ _ _ _ _ Hs Hi). cbn [negb].
    rewrite (look_at _ _ _ _ _ _ Hs Hi). rewrite prefix_percent_pct.
    cbn [sbind is_some ret print_eus eu_occs fold_left byte_len].
    rewrite Nat.add_0_r. reflexivity.
  - destruct f as [|f]; [cbn [List.length] in Hf; lia|].
    cbn [List.length] in Hf.
    assert (Hf' : List.length ss < f) by lia.
    destruct s as [nm|nm].
    + (* a rule name, bare *)
      pose proof (eus_follow _ _ _ _ _ rest Hw) as Hfol.
      destruct Hw as [Hq [Hl [_ Hw]]].
      cbn [print_eus eu_q sym_name print_tok] in Hs |- *.
      set (nxt := print_eus g q (S k) ss ++ 37%N :: rest) in *.
      assert (Hst : src = pre ++ nm ++ g (S k) ++ nxt) by (rewrite Hs; unfold nxt; lsolve).
      destruct (name_hd nm Hq) as [c [r [Et Hc]]].
      assert (Hs0 : src = pre ++ c :: (r ++ g (S k) ++ nxt)) by (rewrite Hst, Et; lsolve).
      assert (Hs1 : src = (pre ++ nm) ++ g (S k) ++ nxt) by (rewrite Hst; lsolve).
      assert (Hi1 : i + byte_len nm = byte_len (pre ++ nm)) by (subst i; blen).
      assert (Hs2 : src = ((pre ++ nm) ++ g (S k)) ++ print_eus g q (S k) ss ++ 37%N :: rest)
        by (rewrite Hst; unfold nxt; lsolve).
      assert (Hi2 : i + byte_len nm + byte_len (g (S k)) = byte_len ((pre ++ nm) ++ g (S k)))
        by (subst i; blen).
      assert (Hnx : item_start nxt) by (unfold nxt; apply eus_item_start; exact Hw).
      destruct (IH (S k) src _ rest _ f (n + count_nl (g (S k)))
                   (ins_eu a (SRule nm (tok_span QBare i nm))) g0 e Hs2 Hi2 Hw Hf') as [n' Hn'].
      exists n'.
      cbn [expect_unused_loop]. rewrite (lt_len_at _ _ _ _ _ Hs0 Hi). cbn [negb].
      rewrite (look_at _ _ _ _ _ _ Hs0 Hi).
      rewrite (name_start_not_pct _ _ Hc). cbn [sbind is_some ret].
      destruct (parse_name_roundtrip pre nm (g (S k) ++ nxt) Hq Hfol) as [Hpn _].
      cbn zeta in Hpn. rewrite <- Hst, <- Hi in Hpn. rewrite Hpn.
      rewrite mk_span_le by lia. cbn [lifto sbind ret ast]. stn.
      rewrite (ws_gap _ _ _ _ _ _ _ _ _ true Hs1 Hi1 Hl Hnx) by (intros HH; discriminate HH).
      cbn [sbind].
      cbn [eu_occs fold_left eu_q sym_name print_tok].
      unfold tok_span in Hn' |- *. cbn [tok_off] in Hn' |- *. rewrite !Nat.add_0_r in Hn' |- *.
      unfold ins_eu in Hn' |- *.
      rewrite Hn'. rewrite !byte_len_app. rewrite !Nat.add_assoc. reflexivity.
    + (* a token, between quotes *)
      destruct Hw as [[Hqb Hq] [Hl [_ Hw]]].
      cbn [print_eus eu_q sym_name] in Hs |- *.
      set (nxt := print_eus g q (S k) ss ++ 37%N :: rest) in *.
      assert (Hst : src = pre ++ print_tok (q k) nm ++ g (S k) ++ nxt) by (rewrite Hs; unfold nxt; lsolve).
      destruct (quoted_hd (q k) nm Hqb) as [r Et].
      assert (Hs0 : src = pre ++ qchar (q k) :: (r ++ g (S k) ++ nxt)) by (rewrite Hst, Et; lsolve).
      assert (Hs1 : src = (pre ++ print_tok (q k) nm) ++ g (S k) ++ nxt) by (rewrite Hst; lsolve).
      assert (Hi1 : i + byte_len (print_tok (q k) nm) = byte_len (pre ++ print_tok (q k) nm)) by (subst i; blen).
      assert (Hs2 : src = ((pre ++ print_tok (q k) nm) ++ g (S k)) ++ print_eus g q (S k) ss ++ 37%N :: rest)
        by (rewrite Hst; unfold nxt; lsolve).
      assert (Hi2 : i + byte_len (print_tok (q k) nm) + byte_len (g (S k))
                    = byte_len ((pre ++ print_tok (q k) nm) ++ g (S k))) by (subst i; blen).
      assert (Hnx : item_start nxt) by (unfold nxt; apply eus_item_start; exact Hw).
      destruct (IH (S k) src _ rest _ f (n + count_nl (g (S k)))
                   (ins_eu a (SToken nm (tok_span (q k) i nm))) g0 e Hs2 Hi2 Hw Hf') as [n' Hn'].
      exists n'.
      cbn [expect_unused_loop]. rewrite (lt_len_at _ _ _ _ _ Hs0 Hi). cbn [negb].
      rewrite (look_at _ _ _ _ _ _ Hs0 Hi).
      rewrite qchar_not_pct. cbn [sbind is_some ret].
      rewrite (parse_name_quoted _ _ _ _ _ _ Hst Hi Hqb).
      rewrite (parse_token_at _ _ _ _ _ _ Hst Hi Hq (quoted_tok_follow _ _ Hqb)).
      cbn [sbind ret ast]. stn.
      rewrite (ws_gap _ _ _ _ _ _ _ _ _ true Hs1 Hi1 Hl Hnx) by (intros HH; discriminate HH).
      cbn [sbind].
      cbn [eu_occs fold_left eu_q sym_name].
      unfold ins_eu in Hn' |- *.
      rewrite Hn'. rewrite !byte_len_app. rewrite !Nat.add_assoc. reflexivity.
Qed.

(* ---- the declaration --------------------------------------------------------- *)
Lemma decl_step_expect_unused : forall k ss, decl_step_for k (DExpectUnused ss).
Proof.
  intros k ss src pre dl rest i f n a g e lvl Hs Hi Hwf _ _.
  destruct Hwf as [[Hl0 Hnl0] [Hne Hw]].
  cbn [print_decl] in Hs. cbn [is_prec].
  set (body := print_eus (dg dl) (dq dl) 0 ss) in *.
  assert (Hsk : src = pre ++ kw_expect_unused ++ dg dl 0 ++ body ++ 37%N :: rest) by (rewrite Hs; lsolve).
  assert (Hs0 : src = pre ++ 37%N :: ([101; 120; 112; 101; 99; 116; 45; 117; 110; 117; 115; 101; 100]%N
                                        ++ dg dl 0 ++ body ++ 37%N :: rest))
    by (rewrite Hsk; reflexivity).
  assert (Hs1 : src = (pre ++ kw_expect_unused) ++ dg dl 0 ++ body ++ 37%N :: rest) by (rewrite Hsk; lsolve).
  assert (Hi1 : i + byte_len kw_expect_unused = byte_len (pre ++ kw_expect_unused)) by (subst i; blen).
  assert (Hs2 : src = ((pre ++ kw_expect_unused) ++ dg dl 0) ++ body ++ 37%N :: rest) by (rewrite Hsk; lsolve).
  assert (Hi2 : i + byte_len kw_expect_unused + byte_len (dg dl 0)
                = byte_len ((pre ++ kw_expect_unused) ++ dg dl 0))
    by (subst i; blen).
  assert (Hnx : item_start (body ++ 37%N :: rest)) by (unfold body; apply eus_item_start; exact Hw).
  assert (Hfu : List.length ss < fuel_for src).
  { unfold fuel_for. pose proof (eus_length_le _ _ _ _ Hw) as Hle. fold body in Hle.
    rewrite Hs2, !byte_len_app. lia. }
  destruct (eu_loop_items (dg dl) (dq dl) ss 0 src _ rest _ (fuel_for src) (n + count_nl (dg dl 0))
              a g e Hs2 Hi2 Hw Hfu) as [n' Hn'].
  exists n'.
  cbn [decl_loop].
  rewrite (lt_len_at _ _ _ _ _ Hs0 Hi). cbn [negb].
  rewrite (look_at _ _ _ _ _ _ Hsk Hi), pf_pp_eu. cbn [sbind is_some ret].
  rewrite (look_at _ _ _ _ _ _ Hsk Hi), pf_token_eu. cbn [sbind is_some ret].
  rewrite (look_actiontype_skip k _ _ _ _ _ Hsk Hi (pf_actiontype_eu _)). cbn [sbind is_some ret].
  rewrite (look_at _ _ _ _ _ _ Hsk Hi), pf_start_eu. cbn [sbind is_some ret].
  rewrite (look_at _ _ _ _ _ _ Hsk Hi), pf_epp_eu. cbn [sbind is_some ret].
  rewrite (look_at _ _ _ _ _ _ Hsk Hi), pf_rr_eu. cbn [sbind is_some ret].
  rewrite (look_at _ _ _ _ _ _ Hsk Hi), prefix_of_self. cbn [sbind is_some ret].
  unfold decl_expect_unused.
  rewrite (ws_gap _ _ _ _ _ _ _ _ _ false Hs1 Hi1 Hl0 Hnx) by (intros _; exact Hnl0).
  cbn [sbind].
  rewrite Hn'. cbn [sbind].
  unfold decl_eff, decl_gat. cbn [print_decl]. fold body.
  replace (i + byte_len (dg dl 0) + byte_len kw_expect_unused)
    with (i + byte_len kw_expect_unused + byte_len (dg dl 0)) by lia.
  replace (i + byte_len (kw_expect_unused ++ dg dl 0 ++ body))
    with (i + byte_len kw_expect_unused + byte_len (dg dl 0) + byte_len body) by (rewrite !byte_len_app; lia).
  reflexivity.
Qed.
