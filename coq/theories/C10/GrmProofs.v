(* C10 (a) — proofs of the statements of GrmSpec.v. *)
From Coq Require Import List Arith NArith Bool Lia.
From GV Require Import Common.Outcome C10.GrmModel C10.GrmSpec C10.GrmLemmas C10.GrmLoop.
Import ListNotations.

(* ---- names ----------------------------------------------------------------------- *)

Definition env_of (a : ast) (sn n1 n2 : name) : names_env :=
  match eco_implicit a with
  | Some _ => mkEnv sn (Some n1) (Some n2)
                ((sn, (0, 0)) :: (n1, (0, 0)) :: (n2, (0, 0)) :: src_rule_names a)
  | None => mkEnv sn None None ((sn, (0, 0)) :: src_rule_names a)
  end.

Definition added_of (a : ast) (sn n1 n2 : name) : list name :=
  match eco_implicit a with Some _ => [sn; n1; n2] | None => [sn] end.

Lemma mk_names_ok a : exists sn n1 n2,
  is_fresh START_RULE (src_names a) sn /\ is_fresh IMPLICIT_RULE (src_names a) n1 /\
  is_fresh IMPLICIT_START_RULE (src_names a) n2 /\ mk_names a = Done (env_of a sn n1 n2).
Proof.
  destruct (fresh_spec (src_names a) START_RULE) as [sn [E0 F0]]; [discriminate|].
  destruct (fresh_spec (src_names a) IMPLICIT_RULE) as [n1 [E1 F1]]; [discriminate|].
  destruct (fresh_spec (src_names a) IMPLICIT_START_RULE) as [n2 [E2 F2]]; [discriminate|].
  exists sn, n1, n2. repeat split; try assumption.
  unfold mk_names, env_of, eco_implicit. rewrite E0. simpl obind.
  destruct (a_kind a); try reflexivity.
  destruct (a_implicit a); [|reflexivity]. rewrite E1, E2. reflexivity.
Qed.

Lemma map_fst_src a : map fst (src_rule_names a) = src_names a.
Proof. unfold src_rule_names, src_names. rewrite map_map. reflexivity. Qed.

Lemma env_names a sn n1 n2 :
  map fst (e_rule_names (env_of a sn n1 n2)) = added_of a sn n1 n2 ++ src_names a.
Proof.
  unfold env_of, added_of. destruct (eco_implicit a); simpl; rewrite map_fst_src; reflexivity.
Qed.

Lemma eco_implicit_Some a l : eco_implicit a = Some l ->
  exists keys, a_implicit a = Some keys /\ l = filter (fun t => mem t keys) (a_tokens a).
Proof.
  unfold eco_implicit. destruct (a_kind a); try discriminate.
  destruct (a_implicit a) as [keys|]; simpl; [|discriminate].
  intros H. inversion H. eauto.
Qed.

Lemma eco_implicit_tokens a l t : eco_implicit a = Some l -> In t l -> In t (a_tokens a).
Proof.
  intros He Ht. destruct (eco_implicit_Some a l He) as [keys [_ ->]].
  apply filter_In in Ht. tauto.
Qed.

(* ---- token tables ------------------------------------------------------------------ *)

Lemma tok_names_gen a : forall toks sps pre, a_spans a = pre ++ sps -> length sps = length toks ->
  tok_names a toks (length pre) = Done (map Some (combine sps toks)).
Proof.
  induction toks as [|k toks IH]; intros sps pre Hs Hl.
  - destruct sps; [reflexivity|discriminate].
  - destruct sps as [|sp sps]; [discriminate|]. simpl in Hl. injection Hl as Hl.
    simpl tok_names. rewrite Hs. rewrite (nth_checked_app_mid pre sps sp _ eq_refl). simpl obind.
    specialize (IH sps (pre ++ [sp])). rewrite app_length in IH. simpl in IH.
    rewrite Nat.add_1_r in IH. rewrite IH; [reflexivity| |assumption].
    rewrite <- app_assoc. exact Hs.
Qed.

Lemma tok_names_ok a : wf_ast a ->
  tok_names a (a_tokens a) 0 = Done (map Some (combine (a_spans a) (a_tokens a))).
Proof.
  intros Hwf. apply (tok_names_gen a (a_tokens a) (a_spans a) []); [reflexivity|].
  apply (wf_spans_len a Hwf).
Qed.

(* ---- %avoid_insert ------------------------------------------------------------------ *)

Lemma upd_map_nodup {B} (g : name -> B) (l : list name) x t v : forall i,
  NoDup l -> index_of x l = Some i ->
  upd (map g l ++ t) i v = map (fun y => if name_dec y x then v else g y) l ++ t.
Proof.
  induction l as [|y l IH]; intros i Hnd Hi; simpl in Hi; [discriminate|].
  inversion Hnd as [|z l' Hni Hnd']; subst.
  destruct (name_dec x y) as [He|Hne].
  - inversion Hi; subst. simpl. destruct (name_dec y y) as [_|Hn]; [|congruence].
    f_equal. f_equal. apply map_ext_in. intros z Hz.
    destruct (name_dec z y) as [->|_]; [contradiction|reflexivity].
  - destruct (index_of x l) as [j|] eqn:Ej; simpl in Hi; [|discriminate]. inversion Hi; subst.
    simpl. destruct (name_dec y x) as [He|_]; [congruence|]. f_equal. apply IH; auto.
Qed.

Lemma mem_cons y x l : mem y (x :: l) = if name_dec y x then true else mem y l.
Proof.
  unfold mem. simpl. destruct (name_dec y x) as [_|_]; [reflexivity|].
  destruct (index_of y l); reflexivity.
Qed.

Lemma mem_ext y l1 l2 : (forall x, In x l1 <-> In x l2) -> mem y l1 = mem y l2.
Proof.
  intros H. destruct (mem y l2) eqn:E.
  - apply mem_In. apply H. apply mem_In. assumption.
  - apply mem_false. intros Hi. apply mem_false in E. apply E. apply H. assumption.
Qed.

Lemma avoid_fold a : NoDup (a_tokens a) -> forall l acc,
  (forall x, In x l -> In x (a_tokens a)) ->
  ofold (fun v n => do t <- token_map a n; set_nth v t true) l
        (map (fun t => mem t acc) (a_tokens a) ++ [false]) =
  Done (map (fun t => mem t (rev l ++ acc)) (a_tokens a) ++ [false]).
Proof.
  intros Hnd. induction l as [|x l IH]; intros acc H; [reflexivity|].
  simpl ofold. assert (Hx : In x (a_tokens a)) by (apply H; left; reflexivity).
  rewrite (token_map_ok a x Hx). simpl obind.
  destruct (idx_In x (a_tokens a) Hx) as [Hidx Hlt].
  unfold set_nth. rewrite app_length, map_length. fold (tidx_of a x).
  destruct (Nat.ltb_spec (tidx_of a x) (length (a_tokens a) + length [false])) as [_|Hge];
    [|unfold tidx_of in Hge; lia].
  simpl obind. rewrite (upd_map_nodup _ _ x _ _ _ Hnd Hidx).
  assert (Heq : map (fun y => if name_dec y x then true else mem y acc) (a_tokens a) =
                map (fun t => mem t (x :: acc)) (a_tokens a)).
  { apply map_ext. intros y. rewrite mem_cons. reflexivity. }
  rewrite Heq. rewrite IH by (intros y Hy; apply H; right; assumption).
  simpl rev. rewrite <- app_assoc. reflexivity.
Qed.

Lemma map_const_list {A B} (d : B) (l : list A) : map (fun _ => d) l = repeat d (length l).
Proof. induction l as [|x l IH]; simpl; [reflexivity|]. rewrite IH. reflexivity. Qed.

Lemma repeat_snoc {A} (d : A) n : repeat d (S n) = repeat d n ++ [d].
Proof. induction n as [|n IH]; [reflexivity|]. simpl in *. rewrite <- IH. reflexivity. Qed.

Lemma mk_avoid_ok a : wf_ast a -> mk_avoid a (S (length (a_tokens a))) = Done (x_avoid a).
Proof.
  intros Hwf. unfold mk_avoid, x_avoid. destruct (a_avoid a) as [l|] eqn:El; [|reflexivity].
  rewrite repeat_snoc. rewrite <- (map_const_list false (a_tokens a)).
  change (map (fun _ : name => false) (a_tokens a)) with (map (fun t => mem t []) (a_tokens a)).
  rewrite (avoid_fold a (wf_tokens_nodup a Hwf) l []).
  - simpl obind. f_equal. f_equal. f_equal. apply map_ext. intros t. apply mem_ext.
    intros x. rewrite app_nil_r. symmetry. apply in_rev.
  - intros x Hx. eapply (wf_avoid a Hwf); eauto.
Qed.

(* ---- the productions cfgrammar adds (first iterations of the loop) ------------------- *)

Lemma implicit_fold a : forall l P Q R acts asp rp ats cur,
  (forall t, In t l -> In t (a_tokens a)) -> nth_error rp 1 = Some cur ->
  ofold (implicit_prod a 1) l (mkSt P Q R acts asp rp ats) =
  Done (mkSt (P ++ map (fun t => Some [GT (tidx_of a t); GR 1]) l)
             (Q ++ repeat (Some None) (length l)) (R ++ repeat (Some 1) (length l))
             acts asp (upd rp 1 (cur ++ seq (length P) (length l))) ats).
Proof.
  induction l as [|t l IH]; intros P Q R acts asp rp ats cur H Hcur.
  - simpl. rewrite !app_nil_r. rewrite upd_same by assumption. reflexivity.
  - simpl ofold. unfold implicit_prod at 1. cbn [b_rprods b_prods]. unfold push_at. rewrite Hcur.
    simpl obind. rewrite (token_map_ok a t) by (apply H; left; reflexivity). simpl obind.
    unfold push_prod. cbn [b_prods b_precs b_prules b_actions b_aspans b_atypes].
    rewrite (IH _ _ _ _ _ _ _ (cur ++ [length P])).
    + rewrite upd_upd. rewrite app_length. simpl length. rewrite Nat.add_1_r.
      rewrite <- !app_assoc. reflexivity.
    + intros t' Ht'. apply H. right. assumption.
    + apply nth_error_upd_same. apply nth_error_Some. congruence.
Qed.

Section Faithful.
  Variable a : ast.
  Hypothesis Hwf : wf_ast a.
  Variables sn n1 n2 : name.
  Hypothesis F0 : is_fresh START_RULE (src_names a) sn.
  Hypothesis F1 : is_fresh IMPLICIT_RULE (src_names a) n1.
  Hypothesis F2 : is_fresh IMPLICIT_START_RULE (src_names a) n2.

  Let E := env_of a sn n1 n2.
  Let added := added_of a sn n1 n2.
  Let n := length (a_prods a).
  Let m := length (a_rules a).

  Lemma fresh_notin base x : is_fresh base (src_names a) x -> ~ In x (src_names a).
  Proof. intros [k [_ [H _]]]. exact H. Qed.

  Lemma Hdist : NoDup [sn; n1; n2].
  Proof. eapply added_names_distinct; eauto. Qed.

  Lemma HE : map fst (e_rule_names E) = added ++ src_names a.
  Proof. apply env_names. Qed.

  Lemma Hadd : forall x, In x added -> ~ In x (src_names a).
  Proof.
    unfold added, added_of. intros x Hx. destruct (eco_implicit a).
    - destruct Hx as [<-|[<-|[<-|[]]]]; eapply fresh_notin; eauto.
    - destruct Hx as [<-|[]]; eapply fresh_notin; eauto.
  Qed.

  Lemma Hoff : length added = off a.
  Proof. unfold added, added_of, off. destruct (eco_implicit a); reflexivity. Qed.

  Lemma Hsr : In (e_start_rule E) added.
  Proof. unfold E, env_of, added, added_of. destruct (eco_implicit a); left; reflexivity. Qed.

  Lemma Hisr : forall x, e_implicit_start_rule E = Some x -> In x added.
  Proof.
    unfold E, env_of, added, added_of. destruct (eco_implicit a); simpl; intros x Hx; [|discriminate].
    inversion Hx; subst. right. right. left. reflexivity.
  Qed.

  Lemma Hir : forall x, e_implicit_rule E = Some x -> In x added.
  Proof.
    unfold E, env_of, added, added_of. destruct (eco_implicit a); simpl; intros x Hx; [|discriminate].
    inversion Hx; subst. right. left. reflexivity.
  Qed.

  Lemma sn_ne_n1 : sn <> n1.
  Proof. pose proof Hdist as H. inversion H as [|x l Hni _]; subst. intros He. apply Hni. left. auto. Qed.
  Lemma sn_ne_n2 : sn <> n2.
  Proof. pose proof Hdist as H. inversion H as [|x l Hni _]; subst. intros He. apply Hni. right. left. auto. Qed.
  Lemma n1_ne_n2 : n1 <> n2.
  Proof.
    pose proof Hdist as H. inversion H as [|x l _ H']; subst. inversion H' as [|x l Hni _]; subst.
    intros He. apply Hni. left. auto.
  Qed.

  Lemma rule_map_sn : rule_map E sn = Done 0.
  Proof.
    unfold rule_map. rewrite HE. unfold added, added_of. destruct (eco_implicit a); simpl;
      destruct (name_dec sn sn) as [_|Hn]; congruence.
  Qed.

  Lemma rule_map_n1 l : eco_implicit a = Some l -> rule_map E n1 = Done 1.
  Proof.
    intros He. unfold rule_map. rewrite HE. unfold added, added_of. rewrite He. simpl.
    destruct (name_dec n1 sn) as [Hx|_]; [exfalso; apply sn_ne_n1; auto|].
    destruct (name_dec n1 n1) as [_|Hn]; [reflexivity|congruence].
  Qed.

  Lemma rule_map_n2 l : eco_implicit a = Some l -> rule_map E n2 = Done 2.
  Proof.
    intros He. unfold rule_map. rewrite HE. unfold added, added_of. rewrite He. simpl.
    destruct (name_dec n2 sn) as [Hx|_]; [exfalso; apply sn_ne_n2; auto|].
    destruct (name_dec n2 n1) as [Hx|_]; [exfalso; apply n1_ne_n2; auto|].
    destruct (name_dec n2 n2) as [_|Hn]; [reflexivity|congruence].
  Qed.

  Lemma Hir1 : match eco_implicit a with
               | Some _ => exists x, e_implicit_rule E = Some x /\ rule_map E x = Done 1
               | None => e_implicit_rule E = None
               end.
  Proof.
    destruct (eco_implicit a) as [l|] eqn:He.
    - exists n1. split; [unfold E, env_of; rewrite He; reflexivity|]. eapply rule_map_n1; eauto.
    - unfold E, env_of. rewrite He. reflexivity.
  Qed.

  Definition start_name : name := match a_start a with Some s => s | None => [] end.

  Lemma start_ok : a_start a = Some start_name /\ In start_name (src_names a).
  Proof.
    destruct (wf_start a Hwf) as [s [Hs Hi]]. unfold start_name. rewrite Hs. split; [reflexivity|exact Hi].
  Qed.

  Lemma rule_map_start : rule_map E start_name = Done (user_start a).
  Proof.
    destruct start_ok as [Hs Hi].
    rewrite (rule_map_src a E added HE Hadd Hoff _ Hi). unfold user_start. rewrite Hs. reflexivity.
  Qed.

  Definition s0 : bstate :=
    mkSt (repeat None n) (repeat None n) (repeat None n) (repeat None n) (repeat None n)
         (repeat [] (length (map fst (e_rule_names E)))) (repeat None (length (map fst (e_rule_names E)))).

  (* what the pushes leave behind the source part *)
  Definition t1 : list (option (list gsym)) := map Some (x_added_prods a).
  Definition t2 : list (option (option prec)) := repeat (Some None) (n_added a).
  Definition t3 : list (option nat) :=
    map Some match eco_implicit a with
             | None => [0]
             | Some l => [0] ++ repeat 1 (length l + 1) ++ [2]
             end.
  Definition t4 : list (option text) := [None].
  Definition A0 : list (list nat) :=
    match eco_implicit a with
    | None => [[n]]
    | Some l => [[n]; seq (n + 1) (length l + 1); [n + length l + 2]]
    end.

  Lemma len_rn : length (map fst (e_rule_names E)) = off a + m.
  Proof. rewrite HE, app_length, Hoff. unfold src_names. rewrite map_length. reflexivity. Qed.

  Lemma added_phase :
    ofold (step a E start_name) added s0 =
    Done (St a [] t1 t2 t3 t4 (A0 ++ repeat [] m) (repeat None (off a) ++ repeat None m)).
  Proof.
    unfold St. rewrite !G_nil. fold n. unfold s0. rewrite len_rn.
    unfold added, added_of, t1, t2, t3, t4, A0, x_added_prods, n_added, off.
    destruct (eco_implicit a) as [l|] eqn:He.
    - (* Eco with implicit tokens: ^, ~, ^~ *)
      destruct (eco_implicit_Some a l He) as [keys [Himp Hl]].
      assert (HeS : e_start_rule E = sn) by (unfold E, env_of; rewrite He; reflexivity).
      assert (HeI : e_implicit_rule E = Some n1) by (unfold E, env_of; rewrite He; reflexivity).
      assert (HeIS : e_implicit_start_rule E = Some n2) by (unfold E, env_of; rewrite He; reflexivity).
      cbn [ofold].
      (* ^ *)
      unfold step at 1. rewrite rule_map_sn. simpl obind. rewrite HeS, name_eqb_refl.
      cbn [b_rprods b_prods]. unfold push_at. cbn [repeat Nat.add nth_error]. simpl obind.
      rewrite HeIS. rewrite (rule_map_n2 l He). simpl obind.
      unfold push_prod. cbn [b_prods b_precs b_prules b_actions b_aspans b_atypes upd].
      (* ~ *)
      unfold step at 1. rewrite (rule_map_n1 l He). simpl obind. rewrite HeS.
      rewrite (name_eqb_neq n1 sn) by (intros Hx; apply sn_ne_n1; auto).
      rewrite HeIS. cbn [opt_name_is]. rewrite (name_eqb_neq n2 n1) by (intros Hx; apply n1_ne_n2; auto).
      rewrite HeI. cbn [opt_name_is]. rewrite name_eqb_refl. rewrite Himp. simpl obind. rewrite <- Hl.
      rewrite (implicit_fold a l _ _ _ _ _ _ _ []).
      2:{ intros t Ht. eapply eco_implicit_tokens; eauto. }
      2:{ reflexivity. }
      simpl obind. cbn [b_rprods b_prods]. unfold push_at. cbn [upd nth_error app]. simpl obind.
      unfold push_prod. cbn [b_prods b_precs b_prules b_actions b_aspans b_atypes upd].
      (* ^~ *)
      unfold step at 1. rewrite (rule_map_n2 l He). simpl obind. rewrite HeS.
      rewrite (name_eqb_neq n2 sn) by (intros Hx; apply sn_ne_n2; auto).
      rewrite HeIS. cbn [opt_name_is]. rewrite name_eqb_refl.
      cbn [b_rprods b_prods]. unfold push_at. cbn [upd nth_error]. simpl obind.
      rewrite HeI. rewrite (rule_map_n1 l He). simpl obind. rewrite rule_map_start. simpl obind.
      unfold push_prod. cbn [b_prods b_precs b_prules b_actions b_aspans b_atypes upd].
      rewrite !app_length, !repeat_length, !map_length. cbn [length].
      f_equal. f_equal.
      + rewrite <- !app_assoc. f_equal. cbn [map app]. f_equal. rewrite map_app, map_map. reflexivity.
      + rewrite <- !app_assoc. f_equal. cbn [app]. clear. induction (length l) as [|k IH]; [reflexivity|].
        simpl. simpl in IH. rewrite IH. reflexivity.
      + rewrite <- !app_assoc. f_equal. cbn [app map]. f_equal. clear.
        induction (length l) as [|k IH]; [reflexivity|]. simpl. rewrite IH. reflexivity.
      + f_equal. f_equal.
        * rewrite (Nat.add_1_r (length l)). rewrite seq_S. reflexivity.
        * f_equal. f_equal. lia.
    - (* plain: ^ only *)
      assert (HeS : e_start_rule E = sn) by (unfold E, env_of; rewrite He; reflexivity).
      assert (HeIS : e_implicit_start_rule E = None) by (unfold E, env_of; rewrite He; reflexivity).
      cbn [ofold]. unfold step at 1. rewrite rule_map_sn. simpl obind. rewrite HeS, name_eqb_refl.
      cbn [b_rprods b_prods]. unfold push_at. cbn [repeat Nat.add nth_error]. simpl obind.
      rewrite HeIS. rewrite rule_map_start. simpl obind.
      unfold push_prod. cbn [b_prods b_precs b_prules b_actions b_aspans b_atypes upd].
      rewrite repeat_length. reflexivity.
  Qed.

  Lemma loop_ok :
    ofold (step a E start_name) (map fst (e_rule_names E)) s0 =
    Done (St a (rev (all_pidxs a)) t1 t2 t3 t4 (A0 ++ map ar_pidxs (a_rules a))
             (repeat None (off a) ++ map ar_actiont (a_rules a))).
  Proof.
    rewrite HE. rewrite ofold_app. rewrite added_phase. simpl obind.
    assert (HA : length A0 = off a) by (unfold A0, off; destruct (eco_implicit a); reflexivity).
    pose proof (src_rules_ok a Hwf E added start_name HE Hadd Hoff Hsr Hisr Hir Hir1
                  A0 t1 t2 t3 t4 HA (a_rules a) [] eq_refl) as H.
    simpl in H. rewrite !app_nil_r in H. exact H.
  Qed.
End Faithful.

(* ---- assembling the object ------------------------------------------------------------ *)

Lemma W1 a : map (w1 a) (seq 0 (length (a_prods a))) = map Some (map (x_prod a) (a_prods a)).
Proof.
  rewrite map_map. rewrite <- (map_nth_seq (fun p => Some (x_prod a p)) (a_prods a) dummy_prod).
  reflexivity.
Qed.
Lemma W2 a : map (w2 a) (seq 0 (length (a_prods a))) = map Some (map (x_prec a) (a_prods a)).
Proof.
  rewrite map_map. rewrite <- (map_nth_seq (fun p => Some (x_prec a p)) (a_prods a) dummy_prod).
  reflexivity.
Qed.
Lemma W3 a : map (w3 a) (seq 0 (length (a_prods a))) =
             map Some (map (fun i => off a + owner_in (a_rules a) i) (seq 0 (length (a_prods a)))).
Proof. rewrite map_map. reflexivity. Qed.
Lemma W4 a : map (w4 a) (seq 0 (length (a_prods a))) =
             map (fun p => option_map fst (ap_action p)) (a_prods a).
Proof.
  rewrite <- (map_nth_seq (fun p => option_map fst (ap_action p)) (a_prods a) dummy_prod). reflexivity.
Qed.
Lemma W5 a : map (w5 a) (seq 0 (length (a_prods a))) =
             map (fun p => option_map snd (ap_action p)) (a_prods a).
Proof.
  rewrite <- (map_nth_seq (fun p => option_map snd (ap_action p)) (a_prods a) dummy_prod). reflexivity.
Qed.

Lemma resize_pad {A} (l : list A) k d : resize l (length l + k) d = l ++ repeat d k.
Proof.
  unfold resize. rewrite firstn_all2 by lia. f_equal. f_equal. lia.
Qed.

Lemma length_x_prods a : length (x_prods a) = length (a_prods a) + n_added a.
Proof.
  unfold x_prods, x_added_prods, n_added. rewrite app_length, map_length.
  destruct (eco_implicit a) as [l|]; [|reflexivity].
  rewrite !app_length, map_length. simpl. lia.
Qed.

Lemma n_added_pos a : n_added a = S (n_added a - 1).
Proof. unfold n_added. destruct (eco_implicit a); lia. Qed.

Lemma build_ok fixed a sn n1 n2 : wf_ast a ->
  is_fresh START_RULE (src_names a) sn -> is_fresh IMPLICIT_RULE (src_names a) n1 ->
  is_fresh IMPLICIT_START_RULE (src_names a) n2 -> mk_names a = Done (env_of a sn n1 n2) ->
  build_grammar fixed a = Done (expected fixed a sn n1 n2).
Proof.
  intros Hwf F0 F1 F2 Hmk. unfold build_grammar. rewrite Hmk. simpl obind.
  rewrite (tok_names_ok a Hwf). simpl obind.
  destruct (start_ok a Hwf) as [Hst _]. rewrite Hst. simpl obind.
  fold (s0 a sn n1 n2). rewrite (loop_ok a Hwf sn n1 n2 F0 F1 F2). simpl obind.
  assert (Hlen : length (map Some (combine (a_spans a) (a_tokens a)) ++ [@None (span * name)]) =
                 S (length (a_tokens a))).
  { rewrite app_length, map_length, combine_length, (wf_spans_len a Hwf), Nat.min_id. simpl. lia. }
  rewrite Hlen. rewrite (mk_avoid_ok a Hwf). simpl obind.
  assert (HeS : e_start_rule (env_of a sn n1 n2) = sn) by (unfold env_of; destruct (eco_implicit a); reflexivity).
  rewrite HeS. rewrite (rule_map_sn a sn n1 n2). simpl obind.
  assert (Hcover : forall i, i < length (a_prods a) -> In i (rev (all_pidxs a))).
  { intros i Hi. apply -> in_rev. apply (wf_pidxs_cover a Hwf). assumption. }
  unfold St. cbn [b_rprods b_prules b_prods b_precs b_actions b_aspans b_atypes].
  rewrite !(G_full a _ _ _ Hcover). rewrite W1, W2, W3, W4, W5.
  assert (HA0 : nth_checked (A0 a ++ map ar_pidxs (a_rules a)) 0 = Done [length (a_prods a)]).
  { unfold A0. destruct (eco_implicit a); reflexivity. }
  rewrite HA0. simpl obind.
  unfold t1, t2, t3.
  rewrite <- !map_app. rewrite !unwrap_all_map_Some. simpl obind.
  assert (Hprecs : map Some (map (x_prec a) (a_prods a)) ++ repeat (Some None) (n_added a) =
                   map Some (map (x_prec a) (a_prods a) ++ repeat None (n_added a))).
  { rewrite map_app. f_equal. clear. induction (n_added a) as [|k IH]; [reflexivity|]. simpl. rewrite IH. reflexivity. }
  rewrite Hprecs. rewrite unwrap_all_map_Some. simpl obind.
  assert (Hir : match e_implicit_rule (env_of a sn n1 n2) with
                | Some x => do i <- rule_map (env_of a sn n1 n2) x; Done (Some i)
                | None => Done None
                end = Done (match eco_implicit a with Some _ => Some 1 | None => None end)).
  { destruct (eco_implicit a) as [l|] eqn:He.
    - assert (H1 : e_implicit_rule (env_of a sn n1 n2) = Some n1) by (unfold env_of; rewrite He; reflexivity).
      rewrite H1. rewrite (rule_map_n1 a sn n1 n2 F0 F1 F2 l He). reflexivity.
    - assert (H1 : e_implicit_rule (env_of a sn n1 n2) = None) by (unfold env_of; rewrite He; reflexivity).
      rewrite H1. reflexivity. }
  rewrite Hir. simpl obind.
  unfold expected.
  assert (Hrn : e_rule_names (env_of a sn n1 n2) = x_rule_names a sn n1 n2).
  { unfold env_of, x_rule_names, src_rule_names. destruct (eco_implicit a); reflexivity. }
  assert (Hpl : length (map (x_prod a) (a_prods a) ++ x_added_prods a) = length (a_prods a) + n_added a).
  { apply length_x_prods. }
  assert (Heof : length (map Some (combine (a_spans a) (a_tokens a))) = length (a_tokens a)).
  { rewrite map_length, combine_length, (wf_spans_len a Hwf), Nat.min_id. reflexivity. }
  rewrite Hrn, Hpl, Heof.
  assert (Hsp : (if fixed then resize (map ap_span (a_prods a)) (length (a_prods a) + n_added a) (0, 0)
                 else map ap_span (a_prods a)) = x_prod_spans fixed a).
  { unfold x_prod_spans. destruct fixed; [|rewrite app_nil_r; reflexivity].
    rewrite <- (map_length ap_span (a_prods a)). apply resize_pad. }
  assert (Hac : (if fixed then resize (map (fun p => option_map fst (ap_action p)) (a_prods a) ++ t4)
                                      (length (a_prods a) + n_added a) None
                 else map (fun p => option_map fst (ap_action p)) (a_prods a) ++ t4) = x_actions fixed a).
  { unfold x_actions, t4. destruct fixed; [|reflexivity].
    rewrite (n_added_pos a).
    replace (length (a_prods a) + S (n_added a - 1)) with
      (length (map (fun p => option_map fst (ap_action p)) (a_prods a) ++ [None]) + (n_added a - 1))
      by (rewrite app_length, map_length; simpl; lia).
    rewrite resize_pad. rewrite <- app_assoc. reflexivity. }
  assert (Has : (if fixed then resize (map (fun p => option_map snd (ap_action p)) (a_prods a))
                                      (length (a_prods a) + n_added a) None
                 else map (fun p => option_map snd (ap_action p)) (a_prods a)) = x_action_spans fixed a).
  { unfold x_action_spans. destruct fixed; [|rewrite app_nil_r; reflexivity].
    rewrite <- (map_length (fun p => option_map snd (ap_action p)) (a_prods a)). apply resize_pad. }
  rewrite Hsp, Hac, Has.
  reflexivity.
Qed.

Lemma build_faithful : build_faithful_stmt.
Proof.
  intros fixed a Hwf. destruct (mk_names_ok a) as [sn [n1 [n2 [F0 [F1 [F2 Hmk]]]]]].
  exists sn, n1, n2. repeat split; try assumption. apply build_ok; assumption.
Qed.

Lemma build_total : build_total_stmt.
Proof.
  intros fixed a Hwf. destruct (build_faithful fixed a Hwf) as [sn [n1 [n2 [_ [_ [_ H]]]]]]. eauto.
Qed.

(* ---- rule names stay unique --------------------------------------------------------------- *)

Lemma nodup_app_intro {A} (l1 l2 : list A) :
  NoDup l1 -> NoDup l2 -> (forall x, In x l1 -> ~ In x l2) -> NoDup (l1 ++ l2).
Proof.
  induction l1 as [|x l1 IH]; intros H1 H2 Hd; simpl; [assumption|].
  inversion H1 as [|y l Hni Hnd]; subst. constructor.
  - intros Hi. apply in_app_or in Hi. destruct Hi as [Hi|Hi]; [contradiction|].
    apply (Hd x (or_introl eq_refl) Hi).
  - apply IH; auto. intros y Hy. apply Hd. right. assumption.
Qed.

Lemma rule_names_unique : rule_names_unique_stmt.
Proof.
  intros fixed a g Hwf Hb.
  destruct (build_faithful fixed a Hwf) as [sn [n1 [n2 [F0 [F1 [F2 H]]]]]].
  rewrite H in Hb. inversion Hb; subst g. clear Hb. cbn [expected g_rule_names].
  assert (Hn : map fst (x_rule_names a sn n1 n2) = added_of a sn n1 n2 ++ src_names a).
  { rewrite <- env_names. unfold env_of, x_rule_names, src_rule_names.
    destruct (eco_implicit a); reflexivity. }
  rewrite Hn. apply nodup_app_intro.
  - unfold added_of. destruct (eco_implicit a).
    + eapply added_names_distinct; eauto.
    + constructor; [intros []|constructor].
  - apply (wf_rules_nodup a Hwf).
  - apply (Hadd a sn n1 n2 F0 F1 F2).
Qed.

(* ---- the boolean well-formedness check is sound ------------------------------------------- *)

Lemma nodupb_sound l : nodupb l = true -> NoDup l.
Proof.
  induction l as [|x l IH]; simpl; intros H; [constructor|].
  apply andb_prop in H. destruct H as [H1 H2]. constructor; [|auto].
  apply negb_true_iff in H1. apply mem_false. assumption.
Qed.

Lemma nodup_natb_sound l : nodup_natb l = true -> NoDup l.
Proof.
  induction l as [|x l IH]; simpl; intros H; [constructor|].
  apply andb_prop in H. destruct H as [H1 H2]. constructor; [|auto].
  apply negb_true_iff in H1. intros Hi. apply memn_In in Hi. unfold memn in Hi. congruence.
Qed.

Lemma wf_astb_sound : wf_astb_sound_stmt.
Proof.
  intros a H. unfold wf_astb in H.
  repeat (apply andb_prop in H; destruct H as [H ?H]).
  rename H into Hr, H0 into Himp, H1 into Hav, H2 into Hpr, H3 into Hlen, H4 into Hnd,
         H5 into Hrg, H6 into Hst, H7 into Hsp, H8 into Htk.
  rewrite forallb_forall in Hrg. rewrite forallb_forall in Hpr.
  apply Nat.eqb_eq in Hlen. apply Nat.eqb_eq in Hsp.
  assert (Hrange : forall p, In p (all_pidxs a) -> p < length (a_prods a)).
  { intros p Hp. apply Nat.ltb_lt. apply Hrg. assumption. }
  assert (Hnd' : NoDup (all_pidxs a)) by (apply nodup_natb_sound; assumption).
  constructor.
  - apply nodupb_sound; assumption.
  - apply nodupb_sound; assumption.
  - assumption.
  - destruct (a_start a) as [s|]; [|discriminate]. exists s. split; [reflexivity|].
    apply mem_In. assumption.
  - assumption.
  - assumption.
  - intros p Hp.
    assert (Hincl : incl (seq 0 (length (a_prods a))) (all_pidxs a)).
    { apply NoDup_length_incl; [assumption|rewrite seq_length; lia|].
      intros q Hq. apply in_seq. specialize (Hrange q Hq). lia. }
    apply Hincl. apply in_seq. lia.
  - intros p s Hp Hs. specialize (Hpr p Hp). unfold prod_ok in Hpr.
    apply andb_prop in Hpr. destruct Hpr as [Hsy _]. rewrite forallb_forall in Hsy.
    specialize (Hsy s Hs). destruct s as [x|x]; simpl in *; apply mem_In; assumption.
  - intros p x Hp Hx. specialize (Hpr p Hp). unfold prod_ok in Hpr.
    apply andb_prop in Hpr. destruct Hpr as [_ Hp2]. rewrite Hx in Hp2.
    destruct (assoc x (a_precs a)) as [pr|]; [eauto|discriminate].
  - intros l x Hl Hx. unfold names_in_tokens in Hav. rewrite Hl in Hav.
    rewrite forallb_forall in Hav. apply mem_In. apply Hav. assumption.
  - intros l x Hl Hx. unfold names_in_tokens in Himp. rewrite Hl in Himp.
    rewrite forallb_forall in Himp. apply mem_In. apply Himp. assumption.
Qed.

(* ---- dense and in range (fixed constructor) ------------------------------------------------ *)

Lemma nth_checked_defined {A} (l : list A) i : i < length l -> defined (nth_checked l i).
Proof.
  intros H. unfold defined, nth_checked. destruct (nth_error l i) as [x|] eqn:E; [eauto|].
  apply nth_error_None in E. lia.
Qed.

Lemma nth_checked_In {A} (l : list A) i x : nth_checked l i = Done x -> In x l.
Proof.
  unfold nth_checked. destruct (nth_error l i) as [y|] eqn:E; [|discriminate].
  intros H; inversion H; subst. eapply nth_error_In; eauto.
Qed.

Lemma owner_lt rs i : In i (concat (map ar_pidxs rs)) -> owner_in rs i < length rs.
Proof.
  induction rs as [|r rs IH]; simpl; intros H; [destruct H|].
  destruct (existsb (Nat.eqb i) (ar_pidxs r)) eqn:E; [lia|].
  apply in_app_or in H. destruct H as [H|H].
  - apply memn_In in H. unfold memn in H. congruence.
  - specialize (IH H). lia.
Qed.

Lemma token_idx_go_range l x : forall i t, token_idx_go l x i = Some t -> i <= t < i + length l.
Proof.
  induction l as [|o l IH]; intros i t H; simpl in H; [discriminate|].
  destruct o as [[sp m]|].
  - destruct (name_dec m x) as [_|_].
    + inversion H; subst. simpl. lia.
    + specialize (IH _ _ H). simpl. lia.
  - specialize (IH _ _ H). simpl. lia.
Qed.

Lemma tokens_map_go_range l : forall i x t, In (x, t) (tokens_map_go l i) -> i <= t < i + length l.
Proof.
  induction l as [|o l IH]; intros i x t H; simpl in H; [destruct H|].
  destruct o as [[sp m]|].
  - destruct H as [H|H].
    + inversion H; subst. simpl. lia.
    + specialize (IH _ _ _ H). simpl. lia.
  - specialize (IH _ _ _ H). simpl. lia.
Qed.

Section InRange.
  Variable a : ast.
  Hypothesis Hwf : wf_ast a.
  Variables sn n1 n2 : name.
  Let g := expected true a sn n1 n2.
  Let n := length (a_prods a).
  Let m := length (a_rules a).
  Let T := length (a_tokens a).

  Lemma L_rules : rules_len g = off a + m.
  Proof.
    unfold rules_len, g, expected, x_rule_names, off. cbn [g_rule_names].
    rewrite app_length, map_length. destruct (eco_implicit a); reflexivity.
  Qed.
  Lemma L_prods : prods_len g = n + n_added a.
  Proof. unfold prods_len, g, expected. cbn [g_prods]. apply length_x_prods. Qed.
  Lemma L_tokens : tokens_len g = T + 1.
  Proof.
    unfold tokens_len, g, expected, x_token_names. cbn [g_token_names].
    rewrite app_length, map_length, combine_length, (wf_spans_len a Hwf), Nat.min_id. reflexivity.
  Qed.
  Lemma L_prules : length (g_prods_rules g) = n + n_added a.
  Proof.
    unfold g, expected, x_prods_rules, n_added, n_src. cbn [g_prods_rules].
    rewrite app_length, map_length, seq_length. destruct (eco_implicit a) as [l|]; [|reflexivity].
    rewrite !app_length, repeat_length. simpl. fold n. lia.
  Qed.
  Lemma L_rprods : length (g_rules_prods g) = off a + m.
  Proof.
    unfold g, expected, x_rules_prods, off. cbn [g_rules_prods]. rewrite app_length, map_length.
    destruct (eco_implicit a); reflexivity.
  Qed.

  Lemma off_pos : 1 <= off a /\ (forall l, eco_implicit a = Some l -> off a = 3).
  Proof. unfold off. destruct (eco_implicit a); split; try lia; intros; try reflexivity; discriminate. Qed.

  Lemma ridx_lt x : In x (map ar_name (a_rules a)) -> ridx_of a x < off a + m.
  Proof.
    intros H. unfold ridx_of. destruct (idx_In _ _ H) as [_ Hlt]. rewrite map_length in Hlt.
    fold m in Hlt. lia.
  Qed.
  Lemma tidx_lt x : In x (a_tokens a) -> tidx_of a x < T + 1.
  Proof. intros H. unfold tidx_of. destruct (idx_In _ _ H) as [_ Hlt]. fold T in Hlt. lia. Qed.

  Lemma user_start_lt : user_start a < off a + m.
  Proof.
    destruct (wf_start a Hwf) as [s [Hs Hi]]. unfold user_start. rewrite Hs. apply ridx_lt; assumption.
  Qed.

  Lemma syms_in_range : forall syms, In syms (g_prods g) -> forall s, In s syms -> sym_in_range g s.
  Proof.
    intros syms Hin s Hs. unfold sym_in_range. rewrite L_rules, L_tokens.
    unfold g, expected, x_prods in Hin. cbn [g_prods] in Hin.
    apply in_app_or in Hin. destruct Hin as [Hin|Hin].
    - apply in_map_iff in Hin. destruct Hin as [p [<- Hp]]. unfold x_prod in Hs.
      apply in_flat_map in Hs. destruct Hs as [y [Hy Hs]].
      pose proof (wf_syms a Hwf p y Hp Hy) as Hres.
      destruct y as [x|x]; simpl in Hs, Hres.
      + destruct Hs as [<-|[]]. apply ridx_lt; assumption.
      + destruct Hs as [<-|Hs]; [apply tidx_lt; assumption|].
        destruct (eco_implicit a) as [l|] eqn:He; [|destruct Hs].
        destruct Hs as [<-|[]]. destruct off_pos as [_ Ho]. rewrite (Ho l He). lia.
    - unfold x_added_prods in Hin. destruct (eco_implicit a) as [l|] eqn:He.
      + destruct off_pos as [_ Ho]. pose proof (Ho l He) as Ho3.
        apply in_app_or in Hin. destruct Hin as [Hin|Hin].
        { destruct Hin as [<-|[]]. destruct Hs as [<-|[]]. lia. }
        apply in_app_or in Hin. destruct Hin as [Hin|Hin].
        { apply in_map_iff in Hin. destruct Hin as [t [<- Ht]].
          destruct Hs as [<-|[<-|[]]]; [|lia].
          apply tidx_lt. eapply eco_implicit_tokens; eauto. }
        apply in_app_or in Hin. destruct Hin as [Hin|Hin].
        { destruct Hin as [<-|[]]. destruct Hs. }
        destruct Hin as [<-|[]]. destruct Hs as [<-|[<-|[]]]; [lia|apply user_start_lt].
      + destruct Hin as [<-|[]]. destruct Hs as [<-|[]]. apply user_start_lt.
  Qed.

  Lemma prules_in_range : forall r, In r (g_prods_rules g) -> r < off a + m.
  Proof.
    intros r Hin. unfold g, expected, x_prods_rules in Hin. cbn [g_prods_rules] in Hin.
    apply in_app_or in Hin. destruct Hin as [Hin|Hin].
    - apply in_map_iff in Hin. destruct Hin as [i [<- Hi]]. apply in_seq in Hi.
      assert (Ho : owner_in (a_rules a) i < length (a_rules a)).
      { apply owner_lt. apply (wf_pidxs_cover a Hwf). unfold n_src in Hi. lia. }
      fold m in Ho. lia.
    - destruct (eco_implicit a) as [l|] eqn:He.
      + destruct off_pos as [_ Ho]. rewrite (Ho l He).
        apply in_app_or in Hin. destruct Hin as [[<-|[]]|Hin]; [lia|].
        apply in_app_or in Hin. destruct Hin as [Hin|[<-|[]]]; [|lia].
        apply repeat_spec in Hin. subst. lia.
      + destruct Hin as [<-|[]]. destruct off_pos. lia.
  Qed.

  Lemma rprods_in_range : forall ps, In ps (g_rules_prods g) -> forall p, In p ps -> p < n + n_added a.
  Proof.
    intros ps Hin p Hp. unfold g, expected, x_rules_prods, n_added, n_src in *. cbn [g_rules_prods] in Hin.
    fold n in Hin. apply in_app_or in Hin. destruct Hin as [Hin|Hin].
    - destruct (eco_implicit a) as [l|].
      + destruct Hin as [<-|[<-|[<-|[]]]].
        * destruct Hp as [<-|[]]. lia.
        * apply in_seq in Hp. lia.
        * destruct Hp as [<-|[]]. lia.
      + destruct Hin as [<-|[]]. destruct Hp as [<-|[]]. lia.
    - apply in_map_iff in Hin. destruct Hin as [r [<- Hr]].
      assert (Hlt : p < length (a_prods a)).
      { apply (wf_pidxs_range a Hwf). unfold all_pidxs. apply in_concat. exists (ar_pidxs r).
        split; [apply in_map; assumption|assumption]. }
      fold n in Hlt. destruct (eco_implicit a); lia.
  Qed.

  Lemma expected_in_range : obj_in_range g.
  Proof.
    assert (Hna : 1 <= n_added a) by (unfold n_added; destruct (eco_implicit a); lia).
    constructor.
    - rewrite L_prods. unfold start_prod, g, expected, n_src. cbn [g_start_prod]. fold n. lia.
    - rewrite L_tokens. unfold eof_token_idx, g, expected. cbn [g_eof]. fold T. lia.
    - intros r Hr. rewrite L_rules. unfold implicit_rule, g, expected in Hr. cbn [g_implicit_rule] in Hr.
      destruct (eco_implicit a) as [l|] eqn:He; [|discriminate]. inversion Hr; subst.
      destruct off_pos as [_ Ho]. rewrite (Ho l He). lia.
    - unfold start_rule_idx, prod_to_rule.
      destruct (nth_checked_defined (g_prods_rules g) (g_start_prod g)) as [r Hr].
      { rewrite L_prules. unfold g, expected, n_src. cbn [g_start_prod]. fold n. lia. }
      exists r. split; [assumption|]. rewrite L_rules. apply prules_in_range.
      eapply nth_checked_In; eauto.
    - intros r Hr. rewrite L_rules in Hr.
      assert (Hrn : r < length (g_rule_names g)) by (pose proof L_rules as H; unfold rules_len in H; lia).
      repeat split.
      + unfold rule_name_str. destruct (nth_checked_defined _ _ Hrn) as [x Hx]. rewrite Hx. eexists; reflexivity.
      + unfold rule_name_span. destruct (nth_checked_defined _ _ Hrn) as [x Hx]. rewrite Hx. eexists; reflexivity.
      + unfold actiontype. apply nth_checked_defined.
        unfold g, expected, x_actiontypes. cbn [g_actiontypes].
        rewrite app_length, repeat_length, map_length. fold m. lia.
      + unfold rule_to_prods.
        destruct (nth_checked_defined (g_rules_prods g) r) as [ps Hps]; [rewrite L_rprods; lia|].
        exists ps. split; [assumption|]. intros p Hp. rewrite L_prods.
        eapply rprods_in_range; [eapply nth_checked_In; eauto|assumption].
    - intros p Hp. rewrite L_prods in Hp.
      assert (Hpn : p < length (g_prods g)) by (pose proof L_prods as H; unfold prods_len in H; lia).
      repeat split.
      + unfold prod_at, prod_len. destruct (nth_checked_defined _ _ Hpn) as [syms Hs].
        exists syms. rewrite Hs. repeat split; try reflexivity.
        apply syms_in_range. eapply nth_checked_In; eauto.
      + unfold prod_to_rule.
        destruct (nth_checked_defined (g_prods_rules g) p) as [r Hr]; [rewrite L_prules; lia|].
        exists r. split; [assumption|]. rewrite L_rules. apply prules_in_range.
        eapply nth_checked_In; eauto.
      + unfold prod_precedence. apply nth_checked_defined.
        unfold g, expected, x_prod_precs. cbn [g_prod_precs].
        rewrite app_length, map_length, repeat_length. fold n. lia.
      + unfold prod_span. apply nth_checked_defined.
        unfold g, expected, x_prod_spans. cbn [g_prod_spans].
        rewrite app_length, map_length, repeat_length. fold n. lia.
      + unfold action. apply nth_checked_defined.
        unfold g, expected, x_actions. cbn [g_actions].
        rewrite app_length, map_length, repeat_length. fold n. lia.
      + unfold action_span. apply nth_checked_defined.
        unfold g, expected, x_action_spans. cbn [g_action_spans].
        rewrite app_length, map_length, repeat_length. fold n. lia.
    - intros t Ht. rewrite L_tokens in Ht.
      assert (Htn : t < length (g_token_names g)) by (pose proof L_tokens as H; unfold tokens_len in H; lia).
      repeat split.
      + unfold token_name. destruct (nth_checked_defined _ _ Htn) as [x Hx]. rewrite Hx. eexists; reflexivity.
      + unfold token_precedence. apply nth_checked_defined.
        unfold g, expected, x_token_precs. cbn [g_token_precs]. rewrite app_length, map_length. fold T. simpl. lia.
      + unfold token_epp. apply nth_checked_defined.
        unfold g, expected, x_token_epp. cbn [g_token_epp]. rewrite app_length, map_length. fold T. simpl. lia.
      + unfold token_span. destruct (nth_checked_defined _ _ Htn) as [x Hx]. rewrite Hx. eexists; reflexivity.
      + unfold avoid_insert, g, expected, x_avoid. cbn [g_avoid_insert].
        destruct (a_avoid a) as [l|]; [|eexists; reflexivity].
        apply nth_checked_defined. rewrite app_length, map_length. fold T. simpl. lia.
    - intros x r Hr. unfold rule_idx in Hr. apply index_of_lt in Hr. rewrite map_length in Hr. exact Hr.
    - intros x t Ht. unfold token_idx in Ht. apply token_idx_go_range in Ht. unfold tokens_len. lia.
    - intros x t Ht. unfold tokens_map in Ht. apply tokens_map_go_range in Ht. unfold tokens_len. lia.
  Qed.
End InRange.

Lemma build_dense_in_range : build_dense_in_range_stmt.
Proof.
  intros a g Hwf Hb. destruct (build_faithful true a Hwf) as [sn [n1 [n2 [_ [_ [_ H]]]]]].
  rewrite H in Hb. inversion Hb; subst g. apply expected_in_range. assumption.
Qed.

(* ---- the code as it is: witnesses ------------------------------------------------------------ *)

(* %%  S: 'a';                                      (any kind) *)
Definition ex_plain : ast :=
  mkAst KOriginal (Some [83%N])
        [mkARule [83%N] (3, 4) [0] None]
        [mkAProd [AToken [97%N]] None None (6, 9)]
        [[97%N]] [(7, 8)] [] None None [] None None None None None.

(* %implicit_tokens w  %%  S: 'a';                  (Eco) *)
Definition ex_eco : ast :=
  mkAst KEco (Some [83%N])
        [mkARule [83%N] (22, 23) [0] None]
        [mkAProd [AToken [97%N]] None None (25, 28)]
        [[119%N]; [97%N]] [(17, 18); (26, 27)] [] None (Some [[119%N]]) [] None None None None None.

Lemma ex_plain_wf : wf_ast ex_plain.
Proof. apply wf_astb_sound. vm_compute. reflexivity. Qed.
Lemma ex_eco_wf : wf_ast ex_eco.
Proof. apply wf_astb_sound. vm_compute. reflexivity. Qed.

Lemma build_dense_in_range_refuted : build_dense_in_range_refuted_stmt.
Proof.
  eexists ex_plain, _. split; [exact ex_plain_wf|]. split; [vm_compute; reflexivity|].
  split; [vm_compute; lia|]. split; [reflexivity|]. split; [reflexivity|].
  intros H. destruct (ir_prod _ H 1) as [_ [_ [_ [[v Hv] _]]]]; [vm_compute; lia|].
  vm_compute in Hv. discriminate.
Qed.

Lemma build_eco_actions_refuted : build_eco_actions_refuted_stmt.
Proof.
  eexists ex_eco, _, 1, [2; 3], 2. split; [exact ex_eco_wf|]. split; [vm_compute; reflexivity|].
  split; [reflexivity|]. split; [reflexivity|]. split; [left; reflexivity|].
  split; reflexivity.
Qed.

(* the hypotheses of the theorems are satisfiable, and the fixed constructor's
   object on the two witnesses is in range *)
Example wf_ast_satisfiable : exists a, wf_ast a /\ a_kind a = KEco /\ a_implicit a <> None.
Proof. exists ex_eco. split; [exact ex_eco_wf|]. split; [reflexivity|discriminate]. Qed.
