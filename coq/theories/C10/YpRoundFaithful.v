(* C10 half (b), round trip — the AST [ast_of fa fp l ag] that a printed grammar denotes
   CONTAINS EXACTLY the abstract grammar [ag] ([ast_of_faithful]): productions in
   source order, one rule per distinct name in order of first block owning exactly
   the productions of its blocks, the start rule, precedence levels, %epp pairs,
   %avoid_insert, %expect / %expect-rr, the %token-declared names, %implicit_tokens,
   %parse-param, %parse-generics, %expect-unused, the programs section and the action
   type of every rule (its first block's own, else the %actiontype); nothing else.

   No parsing here: pure facts about [decls_eff] / [rules_eff].  Every conjunct is a
   statement about one projection of the AST; for each projection there is a lemma
   generalised over the starting AST and the offsets (induction over the
   declaration / rule / production list). *)
From Coq Require Import List Arith NArith ZArith Bool Lia.
From GV Require Import Common.Outcome C10.YpModel C10.YpSpec C10.YpProofs C10.YpTotal C10.YpPrint C10.YpRoundSpec C10.YpRoundBase C10.YpRoundInv C10.YpRoundDeclLines C10.YpRoundDeclInv C10.YpRoundValid.
Import ListNotations.
Local Open Scope nat_scope.

(* ======================================================================== *)
(*  small list facts                                                          *)
(* ======================================================================== *)
Lemma ff_filter_filter : forall (A : Type) (f g : A -> bool) l,
  filter f (filter g l) = filter (fun x => g x && f x) l.
Proof.
  intros A f g l. induction l as [|x l IH]; [reflexivity|]. cbn [filter].
  destruct (g x); cbn [filter andb]; [destruct (f x); rewrite IH; reflexivity | exact IH].
Qed.

Lemma ff_filter_none : forall (A : Type) (f : A -> bool) l,
  (forall x, In x l -> f x = false) -> filter f l = [].
Proof.
  intros A f l. induction l as [|x l IH]; intros H; [reflexivity|]. cbn [filter].
  rewrite (H x (or_introl eq_refl)). apply IH. intros y Hy. apply H. right. exact Hy.
Qed.

Lemma ff_filter_all : forall (A : Type) (l : list A), filter (fun _ => true) l = l.
Proof. intros A l. induction l as [|x l IH]; [reflexivity|]. cbn [filter]. rewrite IH. reflexivity. Qed.

Lemma ff_nodup_snoc : forall (A : Type) (l : list A) x, NoDup l -> ~ In x l -> NoDup (l ++ [x]).
Proof.
  intros A l x H. induction H as [|y l Hy Hl IH]; intros Hx.
  - cbn [app]. constructor; [intros [] | constructor].
  - cbn [app]. constructor.
    + intros Hi. apply in_app_or in Hi. destruct Hi as [Hi|[Hi|[]]]; [exact (Hy Hi)|].
      apply Hx. left. symmetry. exact Hi.
    + apply IH. intros Hi. apply Hx. right. exact Hi.
Qed.

Lemma ff_mem_str_in : forall l n, mem_str l n = true <-> In n l.
Proof.
  intros l n. unfold mem_str. induction l as [|x l IH]; cbn [existsb In].
  - split; [discriminate | intros []].
  - rewrite orb_true_iff, IH, str_eqb_eq. split; (intros [H|H]; [left; symmetry; exact H | right; exact H]).
Qed.

Lemma ff_mem_str_not_in : forall l n, mem_str l n = false <-> ~ In n l.
Proof.
  intros l n. rewrite <- ff_mem_str_in. destruct (mem_str l n); split; intros H; try reflexivity; try discriminate.
  - exfalso. apply H. reflexivity.
Qed.

(* ---- "append if absent" over a list = first occurrences -------------------------- *)
Definition addn (T : list str) (x : str) : list str := if mem_str T x then T else T ++ [x].

Lemma fold_addn : forall ns T,
  fold_left addn ns T = T ++ filter (fun y => negb (mem_str T y)) (dedup ns).
Proof.
  induction ns as [|x ns IH]; intros T; cbn [fold_left dedup filter].
  - rewrite app_nil_r. reflexivity.
  - rewrite IH. unfold addn. destruct (mem_str T x) eqn:E; cbn [negb].
    + f_equal. rewrite ff_filter_filter. apply filter_ext. intros y.
      destruct (str_eqb x y) eqn:Exy; cbn [negb andb]; [|reflexivity].
      apply str_eqb_eq in Exy. subst y. rewrite E. reflexivity.
    + rewrite <- app_assoc. cbn [app]. f_equal. f_equal.
      rewrite ff_filter_filter. apply filter_ext. intros y.
      rewrite mem_str_app. unfold mem_str at 2. cbn [existsb]. rewrite orb_false_r, negb_orb.
      rewrite (str_eqb_sym y x). apply andb_comm.
Qed.

Lemma fold_addn_nil : forall ns, fold_left addn ns [] = dedup ns.
Proof. intros ns. rewrite fold_addn. cbn [app mem_str existsb negb]. apply ff_filter_all. Qed.

(* ======================================================================== *)
(*  the rule table                                                            *)
(* ======================================================================== *)
Lemma get_rule_mem : forall rs n, is_some (get_rule rs n) = mem_str (map r_name rs) n.
Proof.
  intros rs n. unfold mem_str. induction rs as [|x rs IH]; [reflexivity|].
  cbn [get_rule map existsb]. rewrite (str_eqb_sym n (r_name x)).
  destruct (str_eqb (r_name x) n); [reflexivity | exact IH].
Qed.

Lemma get_rule_none_not_in : forall rs n, get_rule rs n = None -> ~ In n (map r_name rs).
Proof.
  intros rs n H. apply ff_mem_str_not_in. rewrite <- get_rule_mem, H. reflexivity.
Qed.

Lemma has_rule_in : forall a n, has_rule a n = true -> In n (map r_name (a_rules a)).
Proof. intros a n H. apply ff_mem_str_in. rewrite <- get_rule_mem. exact H. Qed.

Lemma rules_insert_fresh : forall rs r, get_rule rs (r_name r) = None -> rules_insert rs r = rs ++ [r].
Proof.
  induction rs as [|x rs IH]; intros r H; [reflexivity|]. cbn [get_rule rules_insert app] in *.
  destruct (str_eqb (r_name x) (r_name r)); [discriminate H|]. rewrite IH by exact H. reflexivity.
Qed.

Lemma push_names : forall rs n k rs', rules_push_pidx rs n k = Some rs' -> map r_name rs' = map r_name rs.
Proof.
  induction rs as [|x rs IH]; intros n k rs' H; cbn [rules_push_pidx] in H; [discriminate H|].
  destruct (str_eqb (r_name x) n).
  - injection H as <-. reflexivity.
  - destruct (rules_push_pidx rs n k) as [l|] eqn:El; [|discriminate H]. injection H as <-.
    cbn [map]. rewrite (IH n k l El). reflexivity.
Qed.

(* with pairwise distinct names, exactly the rule of that name gets the index *)
Lemma push_spec : forall rs n k rs', rules_push_pidx rs n k = Some rs' -> NoDup (map r_name rs) ->
  forall r', In r' rs' ->
    (In r' rs /\ str_eqb n (r_name r') = false) \/
    (exists r, In r rs /\ r_name r = n /\
               r' = mkRule (r_name r) (r_span r) (r_pidxs r ++ [k]) (r_actiont r)).
Proof.
  induction rs as [|x rs IH]; intros n k rs' H Hnd; cbn [rules_push_pidx] in H; [discriminate H|].
  cbn [map] in Hnd. inversion Hnd as [|y ys Hnx Hnd' Ey]; subst y ys.
  destruct (str_eqb (r_name x) n) eqn:E.
  - injection H as <-. intros r' [<-|Hi].
    + right. exists x. split; [left; reflexivity|]. split; [apply str_eqb_eq; exact E | reflexivity].
    + left. split; [right; exact Hi|].
      destruct (str_eqb n (r_name r')) eqn:E2; [|reflexivity]. exfalso.
      apply str_eqb_eq in E. apply str_eqb_eq in E2. apply Hnx. rewrite E, E2. apply in_map. exact Hi.
  - destruct (rules_push_pidx rs n k) as [l|] eqn:El; [|discriminate H]. injection H as <-.
    intros r' [<-|Hi].
    + left. split; [left; reflexivity|]. rewrite str_eqb_sym. exact E.
    + destruct (IH n k l El Hnd' r' Hi) as [[Hin He]|[r [Hin [Hrn Hr']]]].
      * left. split; [right; exact Hin | exact He].
      * right. exists r. split; [right; exact Hin|]. split; assumption.
Qed.

(* ======================================================================== *)
(*  generic preservation through the rules section                            *)
(* ======================================================================== *)
Section RulesPres.
Variable P : gast -> Prop.
Hypothesis P_tok : forall a n sp, P a -> P (tokens_insert a n sp).
Hypothesis P_prod : forall a rn syms prec act sp, P a -> P (add_prod_t a rn syms prec act sp).
Hypothesis P_head : forall off at_ n a, P a -> P (rule_head_eff off at_ n a).

Lemma syms_ins_pres : forall pl ss k off a, P a -> P (syms_ins pl k off ss a).
Proof.
  intros pl ss. induction ss as [|s ss IH]; intros k off a H; cbn [syms_ins]; [exact H|].
  apply IH. destruct (sym_q pl k s); [exact H | apply P_tok; exact H ..].
Qed.

Lemma prod_eff_pres : forall fa fp pl rn off p a, P a -> P (prod_eff fa fp pl rn off p a).
Proof.
  intros fa fp pl rn off p a H. unfold prod_eff. apply P_prod.
  destruct (ap_prec p); [apply P_tok|]; apply syms_ins_pres; exact H.
Qed.

Lemma prods_eff_pres : forall fa fp rl rn ps pi off a, P a -> P (prods_eff fa fp rl rn pi off ps a).
Proof.
  intros fa fp rl rn ps. induction ps as [|p ps IH]; intros pi off a H; cbn [prods_eff]; [exact H|].
  apply IH. apply prod_eff_pres. exact H.
Qed.

Lemma rule_eff_pres : forall fa fp rl off at_ r a, P a -> P (rule_eff fa fp rl off at_ r a).
Proof. intros. unfold rule_eff. apply prods_eff_pres. apply P_head. assumption. Qed.

Lemma rules_eff_pres : forall fa fp l at_ rs r off a, P a -> P (rules_eff fa fp l r off at_ rs a).
Proof.
  intros fa fp l at_ rs. induction rs as [|x rs IH]; intros r off a H; cbn [rules_eff]; [exact H|].
  apply IH. apply rule_eff_pres. exact H.
Qed.
End RulesPres.

(* ======================================================================== *)
(*  generic preservation through the declarations section                     *)
(* ======================================================================== *)
Section DeclsPres.
Variable P : gast -> Prop.
Hypothesis P_declared : forall a o, P a -> P (ins_declared a o).
Hypothesis P_prec : forall lvl k a o, P a -> P (ins_prec lvl k a o).
Hypothesis P_avoid : forall a o, P a -> P (ins_avoid a o).
Hypothesis P_implicit : forall a o, P a -> P (ins_implicit a o).
Hypothesis P_eu : forall a s, P a -> P (ins_eu a s).
Hypothesis P_start : forall a v, P a -> P (upd_start a v).
Hypothesis P_epp : forall a v, P a -> P (upd_epp a v).
Hypothesis P_avoid0 : forall a v, P a -> P (upd_avoid a v).
Hypothesis P_expect : forall a v, P a -> P (upd_expect a v).
Hypothesis P_expectrr : forall a v, P a -> P (upd_expectrr a v).
Hypothesis P_implicit0 : forall a v, P a -> P (upd_implicit a v).
Hypothesis P_pp : forall a v, P a -> P (upd_parse_param a v).
Hypothesis P_pg : forall a v, P a -> P (upd_parse_generics a v).

Lemma fold_pres : forall (O : Type) (f : gast -> O -> gast), (forall a o, P a -> P (f a o)) ->
  forall occs a, P a -> P (fold_left f occs a).
Proof.
  intros O f Hf occs. induction occs as [|o occs IH]; intros a H; cbn [fold_left]; [exact H|].
  apply IH. apply Hf. exact H.
Qed.

Lemma decl_eff_pres : forall dl off lvl x a, P a -> P (decl_eff dl off lvl x a).
Proof.
  intros dl off lvl x a H. destruct x as [n|ts|k ts|t v|ts|v|v|t|nm t|t|ss|ts]; cbn [decl_eff].
  - apply P_start. exact H.
  - apply fold_pres; [exact P_declared | exact H].
  - apply fold_pres; [apply P_prec | exact H].
  - apply P_epp. exact H.
  - apply fold_pres; [exact P_avoid|]. destruct (a_avoid_insert a); [exact H | apply P_avoid0; exact H].
  - apply P_expect. exact H.
  - apply P_expectrr. exact H.
  - exact H.
  - apply P_pp. exact H.
  - apply P_pg. exact H.
  - apply fold_pres; [exact P_eu | exact H].
  - apply fold_pres; [exact P_implicit|]. destruct (a_implicit_tokens a); [exact H | apply P_implicit0; exact H].
Qed.

Lemma decls_eff_pres : forall l ds d off lvl a, P a -> P (decls_eff l d off lvl ds a).
Proof.
  intros l ds. induction ds as [|x ds IH]; intros d off lvl a H; cbn [decls_eff]; [exact H|].
  apply IH. apply decl_eff_pres. exact H.
Qed.
End DeclsPres.

(* ======================================================================== *)
(*  what each section leaves alone                                            *)
(* ======================================================================== *)
(* the part of the AST the declarations never touch *)
Definition rpart (a : gast) := (a_rules a, a_prods a, a_programs a).
(* the part of the AST the rules never touch *)
Definition dpart (a : gast) :=
  (a_precs a, a_epp a, a_avoid_insert a, a_expect a, a_expectrr a,
   a_implicit_tokens a, a_parse_param a, a_parse_generics a, a_programs a, a_expect_unused a).

Lemma tokens_insert_rpart : forall a n sp, rpart (tokens_insert a n sp) = rpart a.
Proof. intros a n sp. destruct (tokens_insert_cases a n sp) as [[_ E]|[_ E]]; rewrite E; reflexivity. Qed.
Lemma tokens_insert_dpart : forall a n sp, dpart (tokens_insert a n sp) = dpart a.
Proof. intros a n sp. destruct (tokens_insert_cases a n sp) as [[_ E]|[_ E]]; rewrite E; reflexivity. Qed.

Lemma ins_declared_rpart : forall a o, rpart (ins_declared a o) = rpart a.
Proof.
  intros a o. unfold ins_declared, insert_full. destruct (get_index_of (a_tokens a) (fst o)); reflexivity.
Qed.

Lemma decls_eff_rpart : forall l ds d off lvl a, rpart (decls_eff l d off lvl ds a) = rpart a.
Proof.
  intros l ds d off lvl a.
  apply (decls_eff_pres (fun a' => rpart a' = rpart a)); try (intros; assumption); try reflexivity.
  - intros a' o H. rewrite ins_declared_rpart. exact H.
  - intros a' o H. unfold ins_avoid. rewrite <- H, <- (tokens_insert_rpart a' (fst o) (snd o)). reflexivity.
  - intros a' o H. unfold ins_implicit. rewrite <- H, <- (tokens_insert_rpart a' (fst o) (snd o)). reflexivity.
Qed.

Lemma add_prod_t_dpart : forall a rn syms prec act sp, dpart (add_prod_t a rn syms prec act sp) = dpart a.
Proof.
  intros a rn syms prec act sp. unfold add_prod_t, add_prod.
  destruct (rules_push_pidx (a_rules a) rn (List.length (a_prods a))); reflexivity.
Qed.

Lemma rule_head_dpart : forall off at_ n a, dpart (rule_head_eff off at_ n a) = dpart a.
Proof.
  intros off at_ n a. unfold rule_head_eff. destruct (a_start a); cbn; destruct (get_rule _ n); reflexivity.
Qed.

Lemma rules_eff_dpart : forall fa fp l at_ rs r off a, dpart (rules_eff fa fp l r off at_ rs a) = dpart a.
Proof.
  intros fa fp l at_ rs r off a. apply (rules_eff_pres (fun a' => dpart a' = dpart a)); [| | |reflexivity].
  - intros a' n sp H. rewrite tokens_insert_dpart. exact H.
  - intros a' rn syms prec act sp H. rewrite add_prod_t_dpart. exact H.
  - intros off' at' n a' H. rewrite rule_head_dpart. exact H.
Qed.

(* ---- as many spans as tokens ----------------------------------------------------- *)
Definition span_len (a : gast) : Prop := List.length (a_spans a) = List.length (a_tokens a).

Lemma span_len_tokens_insert : forall a n sp, span_len a -> span_len (tokens_insert a n sp).
Proof.
  intros a n sp H. destruct (tokens_insert_cases a n sp) as [[_ E]|[_ E]]; rewrite E; [exact H|].
  unfold span_len in *. cbn [a_spans a_tokens upd_spans upd_tokens]. rewrite !app_length, H. reflexivity.
Qed.

Lemma span_len_ins_declared : forall a o, span_len a -> span_len (ins_declared a o).
Proof.
  intros a o H. unfold ins_declared, insert_full.
  destruct (get_index_of (a_tokens a) (fst o)); unfold span_len in *;
    cbn [a_spans a_tokens upd_spans upd_tokens upd_tokdirs]; [exact H|].
  rewrite !app_length, H. reflexivity.
Qed.

Lemma span_len_decls : forall l ds d off lvl a, span_len a -> span_len (decls_eff l d off lvl ds a).
Proof.
  intros l ds d off lvl a. apply (decls_eff_pres span_len); try (intros; assumption).
  - exact span_len_ins_declared.
  - intros a' o H. unfold ins_avoid. apply (span_len_tokens_insert a' (fst o) (snd o)) in H. exact H.
  - intros a' o H. unfold ins_implicit. apply (span_len_tokens_insert a' (fst o) (snd o)) in H. exact H.
Qed.

Lemma span_len_rules : forall fa fp l at_ rs r off a, span_len a -> span_len (rules_eff fa fp l r off at_ rs a).
Proof.
  intros fa fp l at_ rs r off a. apply (rules_eff_pres span_len).
  - exact span_len_tokens_insert.
  - intros a' rn syms prec act sp H. unfold add_prod_t, add_prod.
    destruct (rules_push_pidx (a_rules a') rn (List.length (a_prods a'))); exact H.
  - intros off' at' n a' H. unfold rule_head_eff.
    destruct (a_start a'); cbn; destruct (get_rule _ n); exact H.
Qed.

(* ---- %token-declared names --------------------------------------------------------- *)
Lemma rules_eff_inv : forall fa fp D l at_ rs r off a, tok_inv D a -> tok_inv D (rules_eff fa fp l r off at_ rs a).
Proof.
  intros fa fp D l at_ rs r off a. apply (rules_eff_pres (tok_inv D)).
  - intros. apply tok_inv_tokens_insert. assumption.
  - intros. apply tok_inv_add_prod_t. assumption.
  - intros. apply tok_inv_rule_head. assumption.
Qed.

(* ======================================================================== *)
(*  the declarations, projection by projection                                *)
(* ======================================================================== *)
Definition prv (x : str * (nat * assoc * span)) : str * nat * assoc :=
  (fst x, fst (fst (snd x)), snd (fst (snd x))).
Definition epv (x : str * (span * (str * span))) : str * str := (fst x, fst (snd (snd x))).

Definition sel_start (d : adecl) : list str := match d with DStart n => [n] | _ => [] end.
Definition sel_expect (d : adecl) : list N := match d with DExpect v => [v] | _ => [] end.
Definition sel_expectrr (d : adecl) : list N := match d with DExpectRR v => [v] | _ => [] end.
Definition sel_prec (d : adecl) : list (assoc * list str) := match d with DPrec k ts => [(k, ts)] | _ => [] end.
Definition sel_epp (d : adecl) : list (str * str) := match d with DEpp t v => [(t, v)] | _ => [] end.
Definition is_davoid (d : adecl) : bool := match d with DAvoid _ => true | _ => false end.
Definition is_dimplicit (d : adecl) : bool := match d with DImplicit _ => true | _ => false end.
Definition sel_at (d : adecl) : list str := match d with DActiontype t => [t] | _ => [] end.
Definition sel_pp (d : adecl) : list (str * str) := match d with DParseParam n t => [(n, t)] | _ => [] end.
Definition sel_pg (d : adecl) : list str := match d with DParseGenerics t => [t] | _ => [] end.

Lemma fold_prec_precs : forall lvl k occs a,
  a_precs (fold_left (ins_prec lvl k) occs a)
  = a_precs a ++ map (fun o => (fst o, (lvl, k, snd o))) occs.
Proof.
  intros lvl k. induction occs as [|o occs IH]; intros a; cbn [fold_left map].
  - rewrite app_nil_r. reflexivity.
  - rewrite IH. unfold ins_prec. cbn [a_precs upd_precs]. rewrite <- app_assoc. reflexivity.
Qed.

Lemma decl_eff_view : forall dl off lvl x a,
  option_map fst (a_start (decl_eff dl off lvl x a))
    = match hd_error (sel_start x) with Some n => Some n | None => option_map fst (a_start a) end /\
  option_map fst (a_expect (decl_eff dl off lvl x a))
    = match hd_error (sel_expect x) with Some n => Some n | None => option_map fst (a_expect a) end /\
  option_map fst (a_expectrr (decl_eff dl off lvl x a))
    = match hd_error (sel_expectrr x) with Some n => Some n | None => option_map fst (a_expectrr a) end /\
  map prv (a_precs (decl_eff dl off lvl x a)) = map prv (a_precs a) ++ prec_levels lvl (sel_prec x) /\
  map epv (a_epp (decl_eff dl off lvl x a)) = map epv (a_epp a) ++ sel_epp x /\
  option_map (map fst) (a_avoid_insert (decl_eff dl off lvl x a))
    = match x with
      | DAvoid ts => Some (ak a ++ ts)
      | _ => option_map (map fst) (a_avoid_insert a)
      end /\
  option_map (map fst) (a_implicit_tokens (decl_eff dl off lvl x a))
    = match x with
      | DImplicit ts => Some (ik a ++ ts)
      | _ => option_map (map fst) (a_implicit_tokens a)
      end.
Proof.
  intros dl off lvl x a. destruct x as [n|ts|k ts|t v|ts|v|v|t|nm t|t|ss|ts];
    cbn [decl_eff sel_start sel_expect sel_expectrr sel_prec sel_epp hd_error prec_levels].
  - (* %start *) cbn. rewrite !app_nil_r. repeat split; reflexivity.
  - (* %token *)
    destruct (fold_declared_frame
                (tok_occs (dg dl) (dq dl) 0 (off + byte_len (dg dl 0) + byte_len kw_token) ts) a)
      as [H1 [H2 [H3 [H4 [H5 H6]]]]].
    rewrite fold_declared_implicit, H1, H2, H3, H4, H5, H6, !app_nil_r. repeat split; reflexivity.
  - (* %left ... *)
    set (occs := tok_occs (dg dl) (dq dl) 0 (off + byte_len (dg dl 0) + byte_len (kw_assoc k)) ts).
    destruct (fold_prec_frame lvl k occs a) as [H1 [H2 [H3 [_ [H5 [H6 _]]]]]].
    rewrite fold_prec_implicit, H1, H2, H3, H5, H6, fold_prec_precs, !app_nil_r. repeat split; try reflexivity.
    assert (Hocc : map fst occs = ts) by apply map_fst_tok_occs.
    rewrite map_app. f_equal. rewrite <- Hocc, !map_map. reflexivity.
  - (* %epp *) cbn [a_start a_expect a_expectrr a_precs a_epp a_avoid_insert a_implicit_tokens upd_epp].
    rewrite map_app, !app_nil_r. repeat split; reflexivity.
  - (* %avoid_insert *)
    set (occs := tok_occs (dg dl) (dq dl) 0 (off + byte_len (dg dl 0) + byte_len kw_avoid_insert) ts).
    assert (Hocc : map fst occs = ts) by apply map_fst_tok_occs.
    destruct (a_avoid_insert a) as [m|] eqn:Ea.
    + destruct (fold_avoid_frame occs a m Ea) as [H1 [H2 [H3 [H4 [H5 H6]]]]].
      unfold ak. rewrite fold_avoid_implicit, H1, H2, H3, H4, H5, H6, Ea, !app_nil_r. cbn [option_map].
      rewrite map_app, Hocc. repeat split; reflexivity.
    + assert (E0 : a_avoid_insert (upd_avoid a (Some [])) = Some []) by reflexivity.
      destruct (fold_avoid_frame occs (upd_avoid a (Some [])) [] E0) as [H1 [H2 [H3 [H4 [H5 H6]]]]].
      unfold ak. rewrite fold_avoid_implicit, H1, H2, H3, H4, H5, H6, Ea, !app_nil_r.
      cbn [a_start a_expect a_expectrr a_precs a_epp a_implicit_tokens upd_avoid app option_map].
      rewrite Hocc. repeat split; reflexivity.
  - (* %expect *) cbn. rewrite !app_nil_r. repeat split; reflexivity.
  - (* %expect-rr *) cbn. rewrite !app_nil_r. repeat split; reflexivity.
  - (* %actiontype *) rewrite !app_nil_r. repeat split; reflexivity.
  - (* %parse-param *) cbn. rewrite !app_nil_r. repeat split; reflexivity.
  - (* %parse-generics *) cbn. rewrite !app_nil_r. repeat split; reflexivity.
  - (* %expect-unused *)
    set (occs := eu_occs (dg dl) (dq dl) 0 (off + byte_len (dg dl 0) + byte_len kw_expect_unused) ss).
    pose proof (fold_eu_dsens occs a) as HH.
    unfold dsens in HH. injection HH as H1 H2 H3 H4 H5 H6 H7.
    rewrite H1, H2, H3, H4, H5, H6, H7, !app_nil_r. repeat split; reflexivity.
  - (* %implicit_tokens *)
    set (occs := tok_occs (dg dl) (dq dl) 0 (off + byte_len (dg dl 0) + byte_len kw_implicit_tokens) ts).
    assert (Hocc : map fst occs = ts) by apply map_fst_tok_occs.
    destruct (a_implicit_tokens a) as [m|] eqn:Ea.
    + destruct (fold_implicit_frame occs a m Ea) as [H1 [H2 [H3 [H4 [H5 [H6 H7]]]]]].
      unfold ik. rewrite H1, H2, H3, H4, H5, H6, H7, Ea, !app_nil_r. cbn [option_map].
      rewrite map_app, Hocc. repeat split; reflexivity.
    + assert (E0 : a_implicit_tokens (upd_implicit a (Some [])) = Some []) by reflexivity.
      destruct (fold_implicit_frame occs (upd_implicit a (Some [])) [] E0) as [H1 [H2 [H3 [H4 [H5 [H6 H7]]]]]].
      unfold ik. rewrite H1, H2, H3, H4, H5, H6, H7, Ea, !app_nil_r.
      cbn [a_start a_expect a_expectrr a_precs a_epp a_avoid_insert upd_implicit app option_map].
      rewrite Hocc. repeat split; reflexivity.
Qed.

(* ---- %parse-param / %parse-generics ---------------------------------------------- *)
Definition ppart (a : gast) := (a_parse_param a, a_parse_generics a).

Lemma tokens_insert_ppart : forall a n sp, ppart (tokens_insert a n sp) = ppart a.
Proof. intros a n sp. destruct (tokens_insert_cases a n sp) as [[_ E]|[_ E]]; rewrite E; reflexivity. Qed.

Lemma ins_declared_ppart : forall a o, ppart (ins_declared a o) = ppart a.
Proof.
  intros a o. unfold ins_declared, insert_full. destruct (get_index_of (a_tokens a) (fst o)); reflexivity.
Qed.

Lemma ins_avoid_ppart : forall a o, ppart (ins_avoid a o) = ppart a.
Proof. intros a o. unfold ins_avoid. rewrite <- (tokens_insert_ppart a (fst o) (snd o)). reflexivity. Qed.

Lemma ins_implicit_ppart : forall a o, ppart (ins_implicit a o) = ppart a.
Proof. intros a o. unfold ins_implicit. rewrite <- (tokens_insert_ppart a (fst o) (snd o)). reflexivity. Qed.

Lemma fold_ppart : forall (O : Type) (f : gast -> O -> gast), (forall a o, ppart (f a o) = ppart a) ->
  forall occs a, ppart (fold_left f occs a) = ppart a.
Proof.
  intros O f Hf occs. induction occs as [|o occs IH]; intros a; cbn [fold_left]; [reflexivity|].
  rewrite IH. apply Hf.
Qed.

Lemma decl_eff_ppart : forall dl off lvl x a,
  ppart (decl_eff dl off lvl x a)
  = (match hd_error (sel_pp x) with Some v => Some v | None => a_parse_param a end,
     match hd_error (sel_pg x) with Some v => Some v | None => a_parse_generics a end).
Proof.
  intros dl off lvl x a. destruct x as [n|ts|k ts|t v|ts|v|v|t|nm t|t|ss|ts]; cbn [decl_eff sel_pp sel_pg hd_error].
  - reflexivity.
  - rewrite (fold_ppart _ ins_declared ins_declared_ppart). reflexivity.
  - rewrite (fold_ppart _ (ins_prec lvl k)); [reflexivity | intros; reflexivity].
  - reflexivity.
  - rewrite (fold_ppart _ ins_avoid ins_avoid_ppart). destruct (a_avoid_insert a); reflexivity.
  - reflexivity.
  - reflexivity.
  - reflexivity.
  - reflexivity.
  - reflexivity.
  - rewrite (fold_ppart _ ins_eu); [reflexivity | intros; reflexivity].
  - rewrite (fold_ppart _ ins_implicit ins_implicit_ppart). destruct (a_implicit_tokens a); reflexivity.
Qed.

Lemma decl_eff_pp : forall dl off lvl x a,
  a_parse_param (decl_eff dl off lvl x a)
  = match hd_error (sel_pp x) with Some v => Some v | None => a_parse_param a end.
Proof.
  intros dl off lvl x a. pose proof (decl_eff_ppart dl off lvl x a) as HH. unfold ppart in HH.
  injection HH as H1 H2. exact H1.
Qed.

Lemma decl_eff_pg : forall dl off lvl x a,
  a_parse_generics (decl_eff dl off lvl x a)
  = match hd_error (sel_pg x) with Some v => Some v | None => a_parse_generics a end.
Proof.
  intros dl off lvl x a. pose proof (decl_eff_ppart dl off lvl x a) as HH. unfold ppart in HH.
  injection HH as H1 H2. exact H2.
Qed.

(* ---- %actiontype: the type in force after the declarations ------------------------- *)
Lemma decls_gat_once : forall l ds d off g, List.length (flat_map sel_at ds) <= 1 ->
  actiont_of (decls_gat l d off ds g)
  = match hd_error (flat_map sel_at ds) with Some t => Some t | None => actiont_of g end.
Proof.
  intros l ds. induction ds as [|x ds IH]; intros d off g H; cbn [decls_gat flat_map]; [reflexivity|].
  cbn [flat_map] in H. rewrite app_length in H. rewrite IH by lia.
  destruct x as [n|ts|k ts|t v|ts|v|v|t|nm t|t|ss|ts]; cbn [sel_at decl_gat app hd_error List.length] in *;
    try reflexivity.
  destruct (flat_map sel_at ds) as [|u s]; [reflexivity | cbn [List.length] in H; lia].
Qed.

(* a value set by at most one declaration *)
Lemma decls_eff_once : forall (T : Type) (pr : gast -> option T) (sel : adecl -> list T),
  (forall x, List.length (sel x) <= 1) ->
  (forall dl off lvl x a,
     pr (decl_eff dl off lvl x a) = match hd_error (sel x) with Some v => Some v | None => pr a end) ->
  forall l ds d off lvl a, List.length (flat_map sel ds) <= 1 ->
    pr (decls_eff l d off lvl ds a)
    = match hd_error (flat_map sel ds) with Some v => Some v | None => pr a end.
Proof.
  intros T pr sel Hlen Hstep l ds. induction ds as [|x ds IH]; intros d off lvl a H;
    cbn [decls_eff flat_map]; [reflexivity|].
  cbn [flat_map] in H. rewrite app_length in H.
  rewrite IH by lia. rewrite Hstep. specialize (Hlen x).
  destruct (sel x) as [|v [|w s]]; cbn [app hd_error List.length] in *.
  - reflexivity.
  - destruct (flat_map sel ds) as [|u s]; [reflexivity | cbn [List.length] in H; lia].
  - lia.
Qed.

Lemma length_flat_map_sel : forall (T : Type) (sel : adecl -> list T) (f : adecl -> bool),
  (forall x, List.length (sel x) = if f x then 1 else 0) ->
  forall ds, List.length (flat_map sel ds) = List.length (filter f ds).
Proof.
  intros T sel f H ds. induction ds as [|x ds IH]; [reflexivity|].
  cbn [flat_map filter]. rewrite app_length, H, IH. destruct (f x); reflexivity.
Qed.

Lemma decls_eff_precs : forall l ds d off lvl a,
  map prv (a_precs (decls_eff l d off lvl ds a))
  = map prv (a_precs a) ++ prec_levels lvl (flat_map sel_prec ds).
Proof.
  intros l ds. induction ds as [|x ds IH]; intros d off lvl a; cbn [decls_eff flat_map].
  - cbn [prec_levels]. rewrite app_nil_r. reflexivity.
  - rewrite IH. destruct (decl_eff_view (dlay_of l d) off lvl x a) as [_ [_ [_ [H _]]]]. rewrite H.
    rewrite <- app_assoc. f_equal.
    destruct x; cbn [sel_prec is_prec app prec_levels]; try reflexivity.
    rewrite app_nil_r. reflexivity.
Qed.

Lemma decls_eff_epp : forall l ds d off lvl a,
  map epv (a_epp (decls_eff l d off lvl ds a)) = map epv (a_epp a) ++ flat_map sel_epp ds.
Proof.
  intros l ds. induction ds as [|x ds IH]; intros d off lvl a; cbn [decls_eff flat_map].
  - rewrite app_nil_r. reflexivity.
  - rewrite IH. destruct (decl_eff_view (dlay_of l d) off lvl x a) as [_ [_ [_ [_ [H _]]]]]. rewrite H.
    rewrite <- app_assoc. reflexivity.
Qed.

Lemma decls_eff_avoid : forall l ds d off lvl a,
  option_map (map fst) (a_avoid_insert (decls_eff l d off lvl ds a))
  = match option_map (map fst) (a_avoid_insert a) with
    | Some m => Some (m ++ flat_map avoid_toks ds)
    | None => if existsb is_davoid ds then Some (flat_map avoid_toks ds) else None
    end.
Proof.
  intros l ds. induction ds as [|x ds IH]; intros d off lvl a; cbn [decls_eff flat_map existsb].
  - destruct (option_map (map fst) (a_avoid_insert a)); [rewrite app_nil_r|]; reflexivity.
  - rewrite IH. destruct (decl_eff_view (dlay_of l d) off lvl x a) as [_ [_ [_ [_ [_ [H _]]]]]]. rewrite H.
    destruct x as [n|ts|k ts|t v|ts|v|v|t|nm t|t|ss|ts]; cbn [avoid_toks is_davoid app orb]; try reflexivity.
    unfold ak. destruct (a_avoid_insert a) as [m|]; cbn [option_map app].
    + rewrite <- app_assoc. reflexivity.
    + reflexivity.
Qed.

Lemma decls_eff_implicit : forall l ds d off lvl a,
  option_map (map fst) (a_implicit_tokens (decls_eff l d off lvl ds a))
  = match option_map (map fst) (a_implicit_tokens a) with
    | Some m => Some (m ++ flat_map implicit_toks ds)
    | None => if existsb is_dimplicit ds then Some (flat_map implicit_toks ds) else None
    end.
Proof.
  intros l ds. induction ds as [|x ds IH]; intros d off lvl a; cbn [decls_eff flat_map existsb].
  - destruct (option_map (map fst) (a_implicit_tokens a)); [rewrite app_nil_r|]; reflexivity.
  - rewrite IH. destruct (decl_eff_view (dlay_of l d) off lvl x a) as [_ [_ [_ [_ [_ [_ H]]]]]]. rewrite H.
    destruct x as [n|ts|k ts|t v|ts|v|v|t|nm t|t|ss|ts]; cbn [implicit_toks is_dimplicit app orb]; try reflexivity.
    unfold ik. destruct (a_implicit_tokens a) as [m|]; cbn [option_map app].
    + rewrite <- app_assoc. reflexivity.
    + reflexivity.
Qed.

(* ======================================================================== *)
(*  the rules section: start rule and rule names                              *)
(* ======================================================================== *)
Lemma prods_eff_start : forall fa fp rl rn ps pi off a, a_start (prods_eff fa fp rl rn pi off ps a) = a_start a.
Proof.
  intros fa fp rl rn ps pi off a. apply (prods_eff_pres (fun a' => a_start a' = a_start a)); [| |reflexivity].
  - intros a' n sp H. rewrite tokens_insert_start. exact H.
  - intros a' rn' syms prec act sp H.
    destruct (add_prod_t_frame a' rn' syms prec act sp) as [_ [_ [E _]]]. rewrite E. exact H.
Qed.

Lemma rule_head_start : forall off at_ n a,
  a_start (rule_head_eff off at_ n a)
  = match a_start a with Some s => Some s | None => Some (n, (off, off + byte_len n)) end.
Proof.
  intros off at_ n a. unfold rule_head_eff. destruct (a_start a) eqn:E; cbn; destruct (get_rule _ n);
    cbn; try rewrite E; reflexivity.
Qed.

Lemma rules_eff_start : forall fa fp l at_ rs r off a,
  option_map fst (a_start (rules_eff fa fp l r off at_ rs a))
  = match option_map fst (a_start a) with
    | Some n => Some n
    | None => option_map ar_name (hd_error rs)
    end.
Proof.
  intros fa fp l at_ rs. induction rs as [|x rs IH]; intros r off a; cbn [rules_eff hd_error option_map].
  - destruct (option_map fst (a_start a)); reflexivity.
  - rewrite IH. unfold rule_eff. rewrite prods_eff_start, rule_head_start.
    destruct (a_start a) as [[s sp]|]; reflexivity.
Qed.

Lemma add_prod_t_names : forall a rn syms prec act sp,
  map r_name (a_rules (add_prod_t a rn syms prec act sp)) = map r_name (a_rules a).
Proof.
  intros a rn syms prec act sp. unfold add_prod_t, add_prod.
  destruct (rules_push_pidx (a_rules a) rn (List.length (a_prods a))) as [rs|] eqn:E; [|reflexivity].
  cbn [a_rules upd_prods upd_rules]. exact (push_names _ _ _ _ E).
Qed.

Lemma prods_eff_names : forall fa fp rl rn ps pi off a,
  map r_name (a_rules (prods_eff fa fp rl rn pi off ps a)) = map r_name (a_rules a).
Proof.
  intros fa fp rl rn ps pi off a.
  apply (prods_eff_pres (fun a' => map r_name (a_rules a') = map r_name (a_rules a))); [| |reflexivity].
  - intros a' n sp H. rewrite tokens_insert_rules. exact H.
  - intros a' rn' syms prec act sp H. rewrite add_prod_t_names. exact H.
Qed.

Lemma rule_head_rules : forall off at_ n a,
  a_rules (rule_head_eff off at_ n a)
  = match get_rule (a_rules a) n with
    | Some _ => a_rules a
    | None => a_rules a ++ [mkRule n (off, off + byte_len n) [] at_]
    end.
Proof.
  intros off at_ n a. unfold rule_head_eff.
  set (a1 := match a_start a with None => _ | Some _ => a end).
  assert (E1 : a_rules a1 = a_rules a) by (unfold a1; destruct (a_start a); reflexivity).
  rewrite E1. destruct (get_rule (a_rules a) n) eqn:E; [exact E1|].
  unfold add_rule. cbn [a_rules upd_rules]. rewrite E1.
  apply rules_insert_fresh. cbn [r_name]. exact E.
Qed.

Lemma rule_head_prods : forall off at_ n a, a_prods (rule_head_eff off at_ n a) = a_prods a.
Proof.
  intros off at_ n a. unfold rule_head_eff. destruct (a_start a); cbn; destruct (get_rule _ n); reflexivity.
Qed.

Lemma rule_head_names : forall off at_ n a,
  map r_name (a_rules (rule_head_eff off at_ n a)) = addn (map r_name (a_rules a)) n.
Proof.
  intros off at_ n a. rewrite rule_head_rules. unfold addn. rewrite <- get_rule_mem.
  destruct (get_rule (a_rules a) n); cbn [is_some]; [reflexivity|].
  rewrite map_app. reflexivity.
Qed.

Lemma rules_eff_names : forall fa fp l at_ rs r off a,
  map r_name (a_rules (rules_eff fa fp l r off at_ rs a))
  = fold_left addn (map ar_name rs) (map r_name (a_rules a)).
Proof.
  intros fa fp l at_ rs. induction rs as [|x rs IH]; intros r off a; cbn [rules_eff map fold_left]; [reflexivity|].
  rewrite IH. unfold rule_eff. rewrite prods_eff_names, rule_head_names. reflexivity.
Qed.

(* ======================================================================== *)
(*  the rules section: productions and their owners                           *)
(* ======================================================================== *)
Definition pview (p : production) : list asym * option str * option str :=
  (map erase_sym (p_syms p), p_prec p, option_map fst (p_action p)).
Definition apview (p : aprod) : list asym * option str * option str :=
  (ap_syms p, ap_prec p, ap_action p).
(* the productions owned by the rule called n *)
Definition owned (owners : list str) (n : str) : list nat :=
  filter (fun i => str_eqb (nth i owners []) n) (seq 0 (List.length owners)).

Lemma owned_snoc : forall owners x n,
  owned (owners ++ [x]) n = owned owners n ++ (if str_eqb x n then [List.length owners] else []).
Proof.
  intros owners x n. unfold owned. rewrite app_length. cbn [List.length]. rewrite Nat.add_1_r, seq_S, filter_app.
  f_equal.
  - apply filter_ext_in. intros i Hi. apply in_seq in Hi. rewrite app_nth1 by lia. reflexivity.
  - cbn [filter Nat.add]. rewrite nth_middle. destruct (str_eqb x n); reflexivity.
Qed.

Lemma owned_nil : forall owners n, ~ In n owners -> owned owners n = [].
Proof.
  intros owners n H. unfold owned. apply ff_filter_none. intros i Hi. apply in_seq in Hi.
  destruct (str_eqb (nth i owners []) n) eqn:E; [|reflexivity]. exfalso. apply H.
  apply str_eqb_eq in E. rewrite <- E. apply nth_In. lia.
Qed.

Lemma erase_syms_out : forall pl ss k off, map erase_sym (syms_out pl k off ss) = ss.
Proof.
  intros pl ss. induction ss as [|s ss IH]; intros k off; cbn [syms_out map]; [reflexivity|].
  rewrite IH. destruct s; reflexivity.
Qed.

(* the action type of the rule called n after the blocks [done]: the one of its FIRST block
   (the block's own, else the %actiontype [at_]) *)
Definition tyf (at_ : option str) (done : list arule) (n : str) : option str :=
  match find (fun x => str_eqb (ar_name x) n) done with
  | Some x => rule_at_ at_ x
  | None => None
  end.

Lemma tyf_snoc_in : forall at_ done x n, In n (map ar_name done) -> tyf at_ (done ++ [x]) n = tyf at_ done n.
Proof.
  intros at_ done x n. unfold tyf. induction done as [|y done IH]; intros H; [destruct H|].
  cbn [app find]. destruct (str_eqb (ar_name y) n) eqn:E; [reflexivity|].
  apply IH. destruct H as [H|H]; [|exact H].
  cbn [map] in H. rewrite H, str_eqb_refl in E. discriminate E.
Qed.

Lemma tyf_snoc_new : forall at_ done x,
  ~ In (ar_name x) (map ar_name done) -> tyf at_ (done ++ [x]) (ar_name x) = rule_at_ at_ x.
Proof.
  intros at_ done x. unfold tyf. induction done as [|y done IH]; intros H.
  - cbn [app find]. rewrite str_eqb_refl. reflexivity.
  - cbn [app find]. destruct (str_eqb (ar_name y) (ar_name x)) eqn:E.
    + exfalso. apply H. left. apply str_eqb_eq. exact E.
    + apply IH. intros Hi. apply H. right. exact Hi.
Qed.

Lemma in_addn : forall T y n, In n (addn T y) <-> In n T \/ n = y.
Proof.
  intros T y n. unfold addn. destruct (mem_str T y) eqn:E.
  - split; [intros H; left; exact H|]. intros [H| ->]; [exact H | apply ff_mem_str_in; exact E].
  - split.
    + intros H. apply in_app_or in H. destruct H as [H|[H|[]]]; [left; exact H | right; symmetry; exact H].
    + intros [H| ->]; apply in_or_app; [left; exact H | right; left; reflexivity].
Qed.

(* the invariant of the rules section: [owners] / [pl] = owner / content of every production so far;
   [ty] = the action type of every rule so far, by name *)
Definition RI (ty : str -> option str) (a : gast) (owners : list str)
              (pl : list (list asym * option str * option str)) : Prop :=
  map pview (a_prods a) = pl /\
  List.length (a_prods a) = List.length owners /\
  NoDup (map r_name (a_rules a)) /\
  (forall o, In o owners -> In o (map r_name (a_rules a))) /\
  (forall r, In r (a_rules a) -> r_pidxs r = owned owners (r_name r) /\ r_actiont r = ty (r_name r)).

Lemma RI_same : forall ty a a' owners pl,
  a_rules a' = a_rules a -> a_prods a' = a_prods a -> RI ty a owners pl -> RI ty a' owners pl.
Proof. intros ty a a' owners pl Hr Hp H. unfold RI in *. rewrite Hr, Hp. exact H. Qed.

(* only the types of the rules there are matter *)
Lemma RI_ty_ext : forall ty ty' a owners pl,
  (forall r, In r (a_rules a) -> ty (r_name r) = ty' (r_name r)) -> RI ty a owners pl -> RI ty' a owners pl.
Proof.
  intros ty ty' a owners pl Ht [H1 [H2 [H3 [H4 H5]]]]. unfold RI.
  split; [exact H1|]. split; [exact H2|]. split; [exact H3|]. split; [exact H4|].
  intros r Hr. destruct (H5 r Hr) as [Hp Ha]. split; [exact Hp|]. rewrite <- (Ht r Hr). exact Ha.
Qed.

(* a block head adds the rule, with the block's type, only when there is no rule of that name yet *)
Lemma RI_head : forall ty off at' n a owners pl,
  RI ty a owners pl -> (get_rule (a_rules a) n = None -> ty n = at') ->
  RI ty (rule_head_eff off at' n a) owners pl.
Proof.
  intros ty off at' n a owners pl [H1 [H2 [H3 [H4 H5]]]] Hty. unfold RI.
  rewrite rule_head_prods, rule_head_rules. destruct (get_rule (a_rules a) n) eqn:E.
  - repeat split; try assumption; apply H5; assumption.
  - pose proof (get_rule_none_not_in _ _ E) as Hn.
    split; [exact H1|]. split; [exact H2|]. split; [|split].
    + rewrite map_app. cbn [map r_name]. apply ff_nodup_snoc; assumption.
    + intros o Ho. rewrite map_app. apply in_or_app. left. apply H4. exact Ho.
    + intros r Hr. apply in_app_or in Hr. destruct Hr as [Hr|[<-|[]]]; [apply H5; exact Hr|].
      cbn [r_pidxs r_name r_actiont]. split; [|symmetry; apply Hty; reflexivity].
      symmetry. apply owned_nil. intros Ho. apply Hn. apply H4. exact Ho.
Qed.

Lemma RI_add_prod : forall ty a owners pl rn syms prec act sp,
  RI ty a owners pl -> has_rule a rn = true ->
  RI ty (add_prod_t a rn syms prec act sp) (owners ++ [rn]) (pl ++ [pview (mkProd syms prec act sp)]).
Proof.
  intros ty a owners pl rn syms prec act sp [H1 [H2 [H3 [H4 H5]]]] Hr.
  unfold add_prod_t, add_prod.
  destruct (rules_push_pidx (a_rules a) rn (List.length (a_prods a))) as [rs|] eqn:E.
  - unfold RI. cbn [a_rules a_prods upd_prods upd_rules].
    pose proof (push_names _ _ _ _ E) as Hn.
    split; [rewrite map_app, H1; reflexivity|].
    split; [rewrite !app_length, H2; reflexivity|].
    split; [rewrite Hn; exact H3|]. split.
    + intros o Ho. rewrite Hn. apply in_app_or in Ho. destruct Ho as [Ho|[<-|[]]]; [apply H4; exact Ho|].
      apply has_rule_in. exact Hr.
    + intros r' Hr'. rewrite owned_snoc.
      destruct (push_spec _ _ _ _ E H3 r' Hr') as [[Hin He]|[r [Hin [Hrn ->]]]].
      * rewrite He, app_nil_r. apply H5. exact Hin.
      * cbn [r_pidxs r_name r_actiont]. destruct (H5 r Hin) as [Hp Ha]. rewrite Hrn in Hp, Ha.
        rewrite Hrn, str_eqb_refl, Hp, H2. split; [reflexivity | exact Ha].
  - exfalso. apply (rules_push_some (a_rules a) rn (List.length (a_prods a))); [|exact E].
    unfold has_rule in Hr. destruct (get_rule (a_rules a) rn); [discriminate | discriminate Hr].
Qed.

Lemma RI_prod : forall ty fa fp pl' rn off p a owners pl,
  RI ty a owners pl -> has_rule a rn = true ->
  RI ty (prod_eff fa fp pl' rn off p a) (owners ++ [rn]) (pl ++ [apview p]).
Proof.
  intros ty fa fp pl' rn off p a owners pl H Hr. unfold prod_eff.
  set (a1 := syms_ins pl' 0 (prod_o0 pl' off p) (ap_syms p) a).
  set (a2 := match ap_prec p with Some t => tokens_insert a1 t _ | None => a1 end).
  destruct (syms_ins_frame pl' (ap_syms p) 0 (prod_o0 pl' off p) a) as [F1 [F2 _]]. fold a1 in F1, F2.
  assert (G1 : a_rules a2 = a_rules a).
  { unfold a2. destruct (ap_prec p); [rewrite tokens_insert_rules|]; exact F1. }
  assert (G2 : a_prods a2 = a_prods a).
  { unfold a2. destruct (ap_prec p); [rewrite tokens_insert_prods|]; exact F2. }
  assert (Hr2 : has_rule a2 rn = true) by (unfold has_rule in *; rewrite G1; exact Hr).
  pose proof (RI_add_prod ty a2 owners pl rn (syms_out pl' 0 (prod_o0 pl' off p) (ap_syms p)) (ap_prec p)
                (match ap_action p with Some t => Some (t, act_span fa pl' (prod_o2 pl' off p) t) | None => None end)
                (off, match prod_pend fp pl' off p with Some e => e | None => prod_o3 pl' off p end)
                (RI_same ty a a2 owners pl G1 G2 H) Hr2) as R.
  replace (apview p) with
    (pview (mkProd (syms_out pl' 0 (prod_o0 pl' off p) (ap_syms p)) (ap_prec p)
                   (match ap_action p with Some t => Some (t, act_span fa pl' (prod_o2 pl' off p) t) | None => None end)
                   (off, match prod_pend fp pl' off p with Some e => e | None => prod_o3 pl' off p end))).
  - exact R.
  - unfold pview, apview. cbn [p_syms p_prec p_action]. rewrite erase_syms_out.
    destruct (ap_action p); reflexivity.
Qed.

Lemma RI_prods : forall ty fa fp rl rn ps pi off a owners pl,
  RI ty a owners pl -> has_rule a rn = true ->
  RI ty (prods_eff fa fp rl rn pi off ps a) (owners ++ map (fun _ => rn) ps) (pl ++ map apview ps).
Proof.
  intros ty fa fp rl rn ps. induction ps as [|p ps IH]; intros pi off a owners pl H Hr; cbn [prods_eff map].
  - rewrite !app_nil_r. exact H.
  - replace (owners ++ rn :: map (fun _ => rn) ps) with ((owners ++ [rn]) ++ map (fun _ : aprod => rn) ps)
      by (rewrite <- app_assoc; reflexivity).
    replace (pl ++ apview p :: map apview ps) with ((pl ++ [apview p]) ++ map apview ps)
      by (rewrite <- app_assoc; reflexivity).
    apply IH.
    + apply RI_prod; assumption.
    + rewrite prod_eff_has_rule. exact Hr.
Qed.

Lemma RI_rule : forall ty at_ fa fp rl off r a owners pl,
  RI ty a owners pl ->
  (get_rule (a_rules a) (ar_name r) = None -> ty (ar_name r) = rule_at_ at_ r) ->
  RI ty (rule_eff fa fp rl off at_ r a) (owners ++ map (fun _ => ar_name r) (ar_prods r))
     (pl ++ map apview (ar_prods r)).
Proof.
  intros ty at_ fa fp rl off r a owners pl H Hty. unfold rule_eff. apply RI_prods.
  - apply RI_head; assumption.
  - apply rule_head_has_rule.
Qed.

Lemma rule_eff_names : forall fa fp rl off at_ r a,
  map r_name (a_rules (rule_eff fa fp rl off at_ r a)) = addn (map r_name (a_rules a)) (ar_name r).
Proof. intros fa fp rl off at_ r a. unfold rule_eff. rewrite prods_eff_names, rule_head_names. reflexivity. Qed.

(* [done] = the blocks before: the rule table has exactly their names, each rule with the type
   of its first block *)
Lemma RI_rules : forall at_ fa fp l rs r off a owners pl done,
  RI (tyf at_ done) a owners pl ->
  (forall n, In n (map r_name (a_rules a)) <-> In n (map ar_name done)) ->
  RI (tyf at_ (done ++ rs)) (rules_eff fa fp l r off at_ rs a)
     (owners ++ flat_map (fun x => map (fun _ => ar_name x) (ar_prods x)) rs)
     (pl ++ map apview (flat_map ar_prods rs)).
Proof.
  intros at_ fa fp l rs. induction rs as [|x rs IH]; intros r off a owners pl done H Hn; cbn [rules_eff flat_map map].
  - rewrite !app_nil_r. exact H.
  - replace (done ++ x :: rs) with ((done ++ [x]) ++ rs) by (rewrite <- app_assoc; reflexivity).
    rewrite map_app, !app_assoc. apply IH.
    + apply RI_rule.
      * apply (RI_ty_ext (tyf at_ done)); [|exact H]. intros r0 Hr0. symmetry. apply tyf_snoc_in.
        apply Hn. apply in_map. exact Hr0.
      * intros E. apply tyf_snoc_new. intros Hi. apply (get_rule_none_not_in _ _ E). apply Hn. exact Hi.
    + intros n. rewrite rule_eff_names, in_addn, map_app, in_app_iff, Hn. cbn [map In].
      split; (intros [Hi|Hi]; [left; exact Hi | right]).
      * left. symmetry. exact Hi.
      * destruct Hi as [Hi|[]]. symmetry. exact Hi.
Qed.

(* ======================================================================== *)
(*  assembly                                                                  *)
(* ======================================================================== *)
Lemma ast_of_faithful : ast_of_faithful_stmt.
Proof.
  intros k fa fp l ag Hwf A.
  destruct Hwf as [Hs [He [Hr [_ [_ [_ [_ [_ [_ [_ [_ [_ [_ [_ [Hat [Hpp [Hpg _]]]]]]]]]]]]]]]]].
  unfold count_decl in Hs, He, Hr, Hat, Hpp, Hpg.
  set (D := decls_eff l 0 (decls_off l) 0 (ag_decls ag) ast_new).
  (* the %actiontype in force *)
  assert (Eat : actiont_of (gat_of l ag) = ag_actiontype ag).
  { unfold gat_of. rewrite (decls_gat_once l (ag_decls ag) 0 (decls_off l) None).
    - unfold ag_actiontype. fold sel_at. cbn [actiont_of].
      destruct (hd_error (flat_map sel_at (ag_decls ag))); reflexivity.
    - rewrite (length_flat_map_sel str sel_at
                 (fun d => match d with DActiontype _ => true | _ => false end)); [exact Hat|].
      intros x. destruct x; reflexivity. }
  set (at_ := ag_actiontype ag) in *.
  set (A0 := rules_eff fa fp l 0 (rules_off l ag) at_ (ag_rules ag) D).
  assert (EA0 : A0 = rules_eff fa fp l 0 (rules_off l ag) at_ (ag_rules ag) D) by reflexivity.
  (* the programs section *)
  assert (EA : A = programs_eff ag A0) by (unfold A, ast_of; rewrite Eat; reflexivity).
  assert (PJ : (a_prods A = a_prods A0 /\ a_rules A = a_rules A0 /\ a_start A = a_start A0 /\
                a_precs A = a_precs A0 /\ a_epp A = a_epp A0 /\ a_avoid_insert A = a_avoid_insert A0 /\
                a_expect A = a_expect A0 /\ a_expectrr A = a_expectrr A0 /\ a_tokens A = a_tokens A0 /\
                a_spans A = a_spans A0 /\ a_token_directives A = a_token_directives A0 /\
                a_implicit_tokens A = a_implicit_tokens A0 /\ a_parse_param A = a_parse_param A0 /\
                a_parse_generics A = a_parse_generics A0 /\ a_expect_unused A = a_expect_unused A0) /\
               a_programs A = match ag_programs ag with Some p => Some p | None => a_programs A0 end).
  { rewrite EA. unfold programs_eff. destruct (ag_programs ag); repeat split; reflexivity. }
  clearbody A.
  destruct PJ as [[P1 [P2 [P3 [P4 [P5 [P6 [P7 [P8 [P9 [P10 [P11 [P12 [P13 [P14 P15]]]]]]]]]]]]]] P16].
  unfold is_declared.
  rewrite P1, P2, P3, P4, P5, P6, P7, P8, P9, P10, P11, P12, P13, P14, P15, P16.
  (* what the declarations leave alone *)
  pose proof (decls_eff_rpart l (ag_decls ag) 0 (decls_off l) 0 ast_new) as HD. fold D in HD.
  unfold rpart in HD. cbn [ast_new a_rules a_prods a_programs] in HD.
  injection HD as HD1 HD2 HD3.
  (* what the rules leave alone *)
  pose proof (rules_eff_dpart fa fp l at_ (ag_rules ag) 0 (rules_off l ag) D) as HR. rewrite <- EA0 in HR.
  unfold dpart in HR. injection HR as HR1 HR2 HR3 HR4 HR5 HR6 HR7 HR8 HR9 HR10.
  (* the rules section *)
  assert (RI0 : RI (tyf at_ []) D [] []).
  { unfold RI. rewrite HD1, HD2. cbn [map List.length]. repeat split; try reflexivity.
    - constructor.
    - intros o [].
    - destruct H.
    - destruct H. }
  assert (Hn0 : forall n, In n (map r_name (a_rules D)) <-> In n (map ar_name (@nil arule))).
  { intros n. rewrite HD1. cbn [map]. split; intros H; exact H. }
  pose proof (RI_rules at_ fa fp l (ag_rules ag) 0 (rules_off l ag) D [] [] [] RI0 Hn0) as R.
  rewrite <- EA0 in R. cbn [app] in R. destruct R as [R1 [R2 [R3 [R4 R5]]]].
  split; [exact R1|].
  split.
  { rewrite EA0, rules_eff_names, HD1. cbn [map]. apply fold_addn_nil. }
  split.
  { intros r Hin. destruct (R5 r Hin) as [Hp Ha]. split; [exact Hp | exact Ha]. }
  split.
  { rewrite EA0, rules_eff_start. unfold D.
    rewrite (decls_eff_once str (fun a => option_map fst (a_start a)) sel_start).
    - cbn [ast_new a_start option_map]. unfold ag_start. fold sel_start.
      destruct (hd_error (flat_map sel_start (ag_decls ag))); reflexivity.
    - intros x. destruct x; cbn; lia.
    - intros dl off lvl x a. apply decl_eff_view.
    - rewrite (length_flat_map_sel str sel_start
                 (fun d => match d with DStart _ => true | _ => false end)); [exact Hs|].
      intros x. destruct x; reflexivity. }
  split.
  { rewrite HR1. unfold D. fold prv. rewrite decls_eff_precs. reflexivity. }
  split.
  { rewrite HR2. unfold D. fold epv. rewrite decls_eff_epp. reflexivity. }
  split.
  { rewrite HR3. unfold D. rewrite decls_eff_avoid. reflexivity. }
  split.
  { rewrite HR4. unfold D.
    rewrite (decls_eff_once N (fun a => option_map fst (a_expect a)) sel_expect).
    - cbn [ast_new a_expect option_map]. unfold ag_expect. fold sel_expect.
      destruct (hd_error (flat_map sel_expect (ag_decls ag))); reflexivity.
    - intros x. destruct x; cbn; lia.
    - intros dl off lvl x a. apply decl_eff_view.
    - rewrite (length_flat_map_sel N sel_expect
                 (fun d => match d with DExpect _ => true | _ => false end)); [exact He|].
      intros x. destruct x; reflexivity. }
  split.
  { rewrite HR5. unfold D.
    rewrite (decls_eff_once N (fun a => option_map fst (a_expectrr a)) sel_expectrr).
    - cbn [ast_new a_expectrr option_map]. unfold ag_expectrr. fold sel_expectrr.
      destruct (hd_error (flat_map sel_expectrr (ag_decls ag))); reflexivity.
    - intros x. destruct x; cbn; lia.
    - intros dl off lvl x a. apply decl_eff_view.
    - rewrite (length_flat_map_sel N sel_expectrr
                 (fun d => match d with DExpectRR _ => true | _ => false end)); [exact Hr|].
      intros x. destruct x; reflexivity. }
  split.
  { pose proof (rules_eff_inv fa fp (declared_b ag) l at_ (ag_rules ag) 0 (rules_off l ag) D
                  (decls_tok_inv l ag)) as [_ Hd].
    rewrite <- EA0 in Hd. exact Hd. }
  split.
  { rewrite EA0. apply span_len_rules. unfold D. apply span_len_decls. reflexivity. }
  split.
  { rewrite HR6. unfold D. rewrite decls_eff_implicit. reflexivity. }
  split.
  { rewrite HR7. unfold D.
    rewrite (decls_eff_once (str * str) a_parse_param sel_pp).
    - cbn [ast_new a_parse_param]. unfold ag_parse_param. fold sel_pp.
      destruct (hd_error (flat_map sel_pp (ag_decls ag))); reflexivity.
    - intros x. destruct x; cbn; lia.
    - exact decl_eff_pp.
    - rewrite (length_flat_map_sel (str * str) sel_pp
                 (fun d => match d with DParseParam _ _ => true | _ => false end)); [exact Hpp|].
      intros x. destruct x; reflexivity. }
  split.
  { rewrite HR8. unfold D.
    rewrite (decls_eff_once str a_parse_generics sel_pg).
    - cbn [ast_new a_parse_generics]. unfold ag_parse_generics. fold sel_pg.
      destruct (hd_error (flat_map sel_pg (ag_decls ag))); reflexivity.
    - intros x. destruct x; cbn; lia.
    - exact decl_eff_pg.
    - rewrite (length_flat_map_sel str sel_pg
                 (fun d => match d with DParseGenerics _ => true | _ => false end)); [exact Hpg|].
      intros x. destruct x; reflexivity. }
  split.
  { rewrite HR9, HD3. destruct (ag_programs ag); reflexivity. }
  rewrite HR10. unfold D.
  destruct (decls_eff_facts (ag_decls ag) l 0 (decls_off l) 0 ast_new) as [_ [_ [_ [H _]]]].
  rewrite H. reflexivity.
Qed.

(* ---- every block's action type arrives ------------------------------------------- *)
Lemma in_dedup : forall l n, In n (dedup l) <-> In n l.
Proof.
  induction l as [|x l IH]; intros n; cbn [dedup]; [tauto|]. split.
  - intros [H|H]; [left; exact H|]. apply filter_In in H. right. apply IH. tauto.
  - intros [H|H]; [left; exact H|].
    destruct (str_eqb x n) eqn:E.
    + left. apply str_eqb_eq. exact E.
    + right. apply filter_In. split; [apply IH; exact H | rewrite E; reflexivity].
Qed.

Lemma find_first_block : forall rs x, In x rs ->
  exists y, find (fun r => str_eqb (ar_name r) (ar_name x)) rs = Some y /\ In y rs /\ ar_name y = ar_name x.
Proof.
  induction rs as [|z rs IH]; intros x Hx; [destruct Hx|]. cbn [find].
  destruct (str_eqb (ar_name z) (ar_name x)) eqn:E.
  - exists z. split; [reflexivity|]. split; [left; reflexivity | apply str_eqb_eq; exact E].
  - destruct Hx as [Hx|Hx]; [subst z; rewrite str_eqb_refl in E; discriminate E|].
    destruct (IH x Hx) as [y [H1 [H2 H3]]]. exists y. split; [exact H1|]. split; [right; exact H2 | exact H3].
Qed.

Lemma ast_of_block_types : ast_of_block_types_stmt.
Proof.
  intros k fa fp l ag Hag x Hx.
  pose proof (ast_of_faithful k fa fp l ag Hag) as HF. cbv zeta in HF.
  destruct HF as [_ [Hnames [Hrules _]]].
  assert (Hagree : forall r1 r2, In r1 (ag_rules ag) -> In r2 (ag_rules ag) -> ar_name r1 = ar_name r2 -> ar_type r1 = ar_type r2).
  { unfold wf_agram in Hag. decompose [and] Hag. assumption. }
  assert (Hin : In (ar_name x) (map r_name (a_rules (ast_of fa fp l ag)))).
  { rewrite Hnames. apply in_dedup. apply in_map. exact Hx. }
  apply in_map_iff in Hin. destruct Hin as [r [Hn Hr]].
  exists r. split; [exact Hr|]. split; [exact Hn|].
  destruct (Hrules r Hr) as [_ Ht]. rewrite Ht, Hn. unfold rule_type, block_type.
  destruct (find_first_block (ag_rules ag) x Hx) as [y [Hf [Hy Hny]]]. rewrite Hf.
  rewrite (Hagree y x Hy Hx Hny). reflexivity.
Qed.
