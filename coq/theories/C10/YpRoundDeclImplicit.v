(* C10 half (b), round trip — the Eco directive %implicit_tokens ([decl_step_implicit]).
   Exact analogue of %avoid_insert (YpRoundDeclLines.v): the token list ends with the
   line, the newline counter is tracked exactly ([wf_toks nl0 nl1]). *)
From Coq Require Import List Arith NArith ZArith Bool Lia.
From GV Require Import Common.Outcome C10.YpModel C10.YpSpec C10.YpProofs C10.YpPrint C10.YpRoundSpec C10.YpRoundBase C10.YpRoundDeclLines.
Import ListNotations.
Local Open Scope nat_scope.

Lemma tokens_insert_implicit : forall a n sp, a_implicit_tokens (tokens_insert a n sp) = a_implicit_tokens a.
Proof.
  intros a n sp. unfold tokens_insert, insert_full.
  destruct (get_index_of (a_tokens a) n); reflexivity.
Qed.

(* ---- %implicit_tokens: the token loop ---------------------------------------- *)
Lemma ins_implicit_some : forall a m t sp, a_implicit_tokens a = Some m ->
  ins_implicit a (t, sp) = upd_implicit (tokens_insert a t sp) (Some (m ++ [(t, sp)])).
Proof.
  intros a m t sp Ha. unfold ins_implicit. cbn [fst snd]. rewrite tokens_insert_implicit, Ha. reflexivity.
Qed.

Lemma implicit_loop_toks : forall g q ts' t k src pre rest i f n a g0 e kwend m,
  src = pre ++ print_toks g q k (t :: ts') ++ 37%N :: rest -> i = byte_len pre ->
  (kwend <? byte_len src) = true ->
  wf_toks nl0 nl1 g q k (t :: ts') ->
  NoDup (t :: ts') -> a_implicit_tokens a = Some m ->
  (forall x, In x (t :: ts') -> assoc_get m x = None) ->
  length (t :: ts') < f ->
  exists n',
  implicit_loop true src (byte_len src) (fuel_for src) f (mkSt n a g0 e) kwend i n
  = Done (mkSt n' (fold_left ins_implicit (tok_occs g q k i (t :: ts')) a) g0 e,
          Ok (i + byte_len (print_toks g q k (t :: ts')))).
Proof.
  intros g q ts'. induction ts' as [|t' ts'' IH];
    intros t k src pre rest i f n a g0 e kwend m Hs Hi Hk Hw Hnd Ha Hnone Hf.
  - (* the last token of the line *)
    destruct f as [|f]; [cbn [length] in Hf; lia|].
    pose proof (toks_follow _ _ g q k t [] rest Hw) as Hfol.
    destruct Hw as [Hq [Hl [Hlast _]]]. unfold nl1 in Hlast.
    cbn [print_toks app] in Hs, Hfol |- *. rewrite app_nil_r in *.
    assert (Hs' : src = pre ++ print_tok (q k) t ++ (g (S k) ++ 37%N :: rest)) by (rewrite Hs; lsolve).
    cbn [implicit_loop]. rewrite Hk. cbn [nn]. rewrite Nat.eqb_refl. cbn [andb negb].
    rewrite (parse_token_at _ _ _ _ _ _ Hs' Hi Hq Hfol). cbn [lift sbind ast].
    rewrite tokens_insert_implicit, Ha.
    rewrite (Hnone t (or_introl eq_refl)). cbn [sbind ret]. stn.
    assert (Hs1 : src = (pre ++ print_tok (q k) t) ++ g (S k) ++ 37%N :: rest) by (rewrite Hs; lsolve).
    assert (Hi1 : i + byte_len (print_tok (q k) t) = byte_len (pre ++ print_tok (q k) t)) by (subst i; blen).
    rewrite (ws_gap _ _ _ _ _ _ _ _ _ true Hs1 Hi1 Hl (item_start_pct rest)) by (intros HH; discriminate HH).
    cbn [sbind].
    destruct f as [|f]; [cbn [length] in Hf; lia|].
    cbn [implicit_loop]. cbn [nn].
    assert (Hne : (n + count_nl (g (S k)) =? n) = false) by (apply Nat.eqb_neq; lia).
    rewrite Hne, andb_false_r. cbn [negb]. unfold ret.
    eexists. cbn [tok_occs fold_left]. rewrite (ins_implicit_some _ _ _ _ Ha).
    rewrite byte_len_app, Nat.add_assoc. reflexivity.
  - (* an inner token *)
    destruct f as [|f]; [cbn [length] in Hf; lia|].
    pose proof (toks_follow _ _ g q k t (t' :: ts'') rest Hw) as Hfol.
    destruct Hw as [Hq [Hl [[Hin _] Hw']]]. unfold nl0 in Hin.
    assert (Hq' : is_qname (q (S k)) t') by exact (proj1 Hw').
    change (print_toks g q k (t :: t' :: ts''))
      with (print_tok (q k) t ++ g (S k) ++ print_toks g q (S k) (t' :: ts'')) in *.
    set (T := print_toks g q (S k) (t' :: ts'')) in *.
    assert (Hs' : src = pre ++ print_tok (q k) t ++ (g (S k) ++ T ++ 37%N :: rest)) by (rewrite Hs; lsolve).
    cbn [implicit_loop]. rewrite Hk. cbn [nn]. rewrite Nat.eqb_refl. cbn [andb negb].
    rewrite (parse_token_at _ _ _ _ _ _ Hs' Hi Hq Hfol). cbn [lift sbind ast].
    rewrite tokens_insert_implicit, Ha.
    rewrite (Hnone t (or_introl eq_refl)). cbn [sbind ret]. stn.
    assert (Hs1 : src = (pre ++ print_tok (q k) t) ++ g (S k) ++ (T ++ 37%N :: rest)) by (rewrite Hs; lsolve).
    assert (Hi1 : i + byte_len (print_tok (q k) t) = byte_len (pre ++ print_tok (q k) t)) by (subst i; blen).
    assert (Hr : item_start (T ++ 37%N :: rest)).
    { subst T. cbn [print_toks]. rewrite <- !app_assoc. apply print_tok_item_start. exact Hq'. }
    rewrite (ws_gap _ _ _ _ _ _ _ _ _ true Hs1 Hi1 Hl Hr) by (intros HH; discriminate HH).
    cbn [sbind]. rewrite Hin, Nat.add_0_r.
    assert (Hs2 : src = ((pre ++ print_tok (q k) t) ++ g (S k)) ++ T ++ 37%N :: rest) by (rewrite Hs; lsolve).
    assert (Hi2 : i + byte_len (print_tok (q k) t) + byte_len (g (S k))
                  = byte_len ((pre ++ print_tok (q k) t) ++ g (S k))) by (subst i; blen).
    inversion Hnd as [|? ? Hnin Hnd']; subst.
    edestruct (IH t' (S k) _ _ rest _ f n
                 (upd_implicit (tokens_insert a t (tok_span (q k) (byte_len pre) t))
                               (Some (m ++ [(t, tok_span (q k) (byte_len pre) t)])))
                 g0 e kwend (m ++ [(t, tok_span (q k) (byte_len pre) t)])
                 Hs2 Hi2 Hk Hw' Hnd' eq_refl) as [n' H].
    + intros x Hx. apply assoc_get_snoc_none.
      * apply Hnone. right. exact Hx.
      * intros E. subst x. contradiction.
    + cbn [length] in Hf |- *. lia.
    + exists n'. rewrite H. cbn [tok_occs fold_left]. rewrite (ins_implicit_some _ _ _ _ Ha).
      f_equal. f_equal. f_equal. subst T. cbn [print_toks]. rewrite !byte_len_app. lia.
Qed.

Lemma decl_step_implicit : forall yk ts, decl_step_for yk (DImplicit ts).
Proof.
  intros yk ts src pre dl rest i f n a g e lvl Hs Hi Hw Hk0 Hp.
  cbn [decl_kind_ok] in Hk0. subst yk.
  destruct Hw as [[Hl0 Hc0] [Hne Hw]]. destruct Hp as [Hnd Hnone].
  destruct ts as [|t ts']; [congruence|].
  cbn [print_decl] in Hs. cbn [is_prec print_decl].
  set (T := print_toks (dg dl) (dq dl) 0 (t :: ts')) in *.
  assert (Hq : is_qname (dq dl 0) t) by exact (proj1 Hw).
  assert (Hr : item_start (T ++ 37%N :: rest)).
  { subst T. cbn [print_toks]. rewrite <- !app_assoc. apply print_tok_item_start. exact Hq. }
  assert (Hs0 : src = pre ++ (kw_implicit_tokens ++ dg dl 0 ++ T ++ 37%N :: rest)) by (rewrite Hs; lsolve).
  assert (Hs1 : src = (pre ++ kw_implicit_tokens) ++ dg dl 0 ++ T ++ 37%N :: rest) by (rewrite Hs; lsolve).
  assert (Hi1 : i + byte_len kw_implicit_tokens = byte_len (pre ++ kw_implicit_tokens)) by (subst i; blen).
  assert (Hs2 : src = ((pre ++ kw_implicit_tokens) ++ dg dl 0) ++ T ++ 37%N :: rest) by (rewrite Hs; lsolve).
  assert (Hi2 : i + byte_len kw_implicit_tokens + byte_len (dg dl 0)
                = byte_len ((pre ++ kw_implicit_tokens) ++ dg dl 0)) by (subst i; blen).
  assert (Hfuel : length (t :: ts') < fuel_for src).
  { pose proof (length_le_print_toks _ _ _ _ _ _ Hw) as Hlen. fold T in Hlen.
    unfold fuel_for. rewrite Hs, !byte_len_app. lia. }
  assert (Hk : (i + byte_len kw_implicit_tokens <? byte_len src) = true).
  { apply Nat.ltb_lt. rewrite Hs. subst i. rewrite !byte_len_app. cbn [byte_len].
    pose proof (len_utf8_pos 37%N). lia. }
  assert (Hlt : (i <? byte_len src) = true) by exact (lt_len_at _ _ _ _ _ Hs0 Hi).
  cbn [decl_loop]. rewrite Hlt. cbn [negb].
  cascade1 KEco Hs0 Hi. do 3 lookF Hs0 Hi. cbn [is_eco]. lookT Hs0 Hi.
  unfold decl_implicit_tokens.
  rewrite (ws_gap _ _ _ _ _ _ _ _ _ false Hs1 Hi1 Hl0 Hr) by (intros _; exact Hc0).
  cbn [sbind nn ast]. unfold decl_eff.
  replace (i + byte_len (dg dl 0) + byte_len kw_implicit_tokens)
    with (i + byte_len kw_implicit_tokens + byte_len (dg dl 0)) by lia.
  destruct (a_implicit_tokens a) as [m|] eqn:Ha.
  - destruct (implicit_loop_toks (dg dl) (dq dl) ts' t 0 src _ rest _ (fuel_for src)
                (n + count_nl (dg dl 0)) a g e (i + byte_len kw_implicit_tokens) m
                Hs2 Hi2 Hk Hw Hnd Ha Hnone Hfuel) as [n' Hloop].
    fold T in Hloop. exists n'. rewrite Hloop. cbn [sbind].
    f_equal. rewrite !byte_len_app. lia.
  - stn.
    destruct (implicit_loop_toks (dg dl) (dq dl) ts' t 0 src _ rest _ (fuel_for src)
                (n + count_nl (dg dl 0)) (upd_implicit a (Some [])) g e (i + byte_len kw_implicit_tokens) []
                Hs2 Hi2 Hk Hw Hnd eq_refl (fun x _ => eq_refl) Hfuel) as [n' Hloop].
    fold T in Hloop. exists n'. rewrite Hloop. cbn [sbind].
    f_equal. rewrite !byte_len_app. lia.
Qed.
