(* C10 half (b), round trip — validating the AST a printed grammar denotes finds
   nothing ([validation_clean]): the start rule exists, every production index is
   in range, every symbol of every production resolves (rule references to a rule
   block, tokens to a %token / %avoid_insert name or a quoted occurrence, %prec
   tokens to a token with a precedence), every %epp key is a token and there is no
   %expect-unused list.

   Route: the three look-ups validation performs (token set, rule table, precedence
   table) only grow along all the effect functions ([grows]); the productions that
   the rules phase appends mention only names of the abstract grammar ([okp], for a
   FIXED target); each name of the abstract grammar is known at the end. *)
From Coq Require Import List Arith NArith ZArith Bool Lia.
From GV Require Import Common.Outcome C10.YpModel C10.YpSpec C10.YpProofs C10.YpTotal C10.YpPrint C10.YpRoundSpec C10.YpRoundBase C10.YpRoundInv C10.YpRoundDeclLines.
Import ListNotations.
Local Open Scope nat_scope.

(* ======================================================================== *)
(*  Look-ups                                                                  *)
(* ======================================================================== *)
Lemma index_of_some_in : forall l n k j, index_of l n k = Some j -> In n l.
Proof.
  induction l as [|x l IH]; intros n k j H; simpl in H; [discriminate H|].
  destruct (str_eqb x n) eqn:E.
  - apply str_eqb_eq in E. left. exact E.
  - right. eapply IH. exact H.
Qed.

Lemma index_of_in : forall l n k, In n l -> index_of l n k <> None.
Proof.
  induction l as [|x l IH]; intros n k H; simpl in *; [contradiction|].
  destruct (str_eqb x n) eqn:E; [discriminate|].
  destruct H as [H|H]; [subst x; rewrite str_eqb_refl in E; discriminate E | apply IH; exact H].
Qed.

Lemma has_token_iff : forall a n, has_token a n = true <-> In n (a_tokens a).
Proof.
  intros a n. unfold has_token, get_index_of. split; intros H.
  - destruct (index_of (a_tokens a) n 0) as [j|] eqn:E; [|discriminate H]. eapply index_of_some_in. exact E.
  - pose proof (index_of_in _ _ 0 H) as Hn. destruct (index_of (a_tokens a) n 0); [reflexivity | congruence].
Qed.

Lemma assoc_get_app_some : forall V (l m : list (str * V)) n,
  assoc_get l n <> None -> assoc_get (l ++ m) n <> None.
Proof.
  intros V l m n. induction l as [|[k v] l IH]; intros H; simpl in *; [congruence|].
  destruct (str_eqb k n); [discriminate | apply IH; exact H].
Qed.

Lemma assoc_get_snoc_self : forall V (l : list (str * V)) k v, assoc_get (l ++ [(k, v)]) k <> None.
Proof.
  intros V l k v. induction l as [|[k0 v0] l IH]; simpl.
  - rewrite str_eqb_refl. discriminate.
  - destruct (str_eqb k0 k); [discriminate | exact IH].
Qed.

Lemma mem_str_in : forall l n, mem_str l n = true -> In n l.
Proof.
  intros l n H. unfold mem_str in H. apply existsb_exists in H. destruct H as [x [Hx He]].
  apply str_eqb_eq in He. subst x. exact Hx.
Qed.

(* ======================================================================== *)
(*  What validation looks up only grows                                       *)
(* ======================================================================== *)
Definition grows (a a' : gast) : Prop :=
  incl (a_tokens a) (a_tokens a') /\
  (forall m, has_rule a m = true -> has_rule a' m = true) /\
  (forall m, assoc_get (a_precs a) m <> None -> assoc_get (a_precs a') m <> None).

Lemma grows_refl : forall a, grows a a.
Proof. intros a. split; [apply incl_refl|]. split; intros m H; exact H. Qed.

Lemma grows_trans : forall a b c, grows a b -> grows b c -> grows a c.
Proof.
  intros a b c [H1 [H2 H3]] [G1 [G2 G3]]. split; [eapply incl_tran; eassumption|].
  split; intros m H; [apply G2, H2, H | apply G3, H3, H].
Qed.

Lemma grows_same : forall a a',
  a_tokens a' = a_tokens a -> a_rules a' = a_rules a -> a_precs a' = a_precs a -> grows a a'.
Proof.
  intros a a' Ht Hr Hp. unfold grows, has_rule. rewrite Ht, Hr, Hp.
  split; [apply incl_refl|]. split; intros m H; exact H.
Qed.

Lemma fold_left_rel : forall (R : gast -> gast -> Prop) (f : gast -> str * span -> gast),
  (forall a, R a a) -> (forall a b c, R a b -> R b c -> R a c) -> (forall a o, R a (f a o)) ->
  forall l a, R a (fold_left f l a).
Proof.
  intros R f Hr Ht Hf. induction l as [|o l IH]; intros a; simpl; [apply Hr|].
  eapply Ht; [apply Hf | apply IH].
Qed.

Lemma fold_left_reach : forall (f : gast -> str * span -> gast) (Q : gast -> str -> Prop),
  (forall a o, Q (f a o) (fst o)) -> (forall a o t, Q a t -> Q (f a o) t) ->
  forall l a t, Q a t \/ In t (map fst l) -> Q (fold_left f l a) t.
Proof.
  intros f Q Hs Hm. induction l as [|o l IH]; intros a t H; simpl.
  - destruct H as [H|[]]. exact H.
  - apply IH. simpl in H. destruct H as [H|[H|H]].
    + left. apply Hm. exact H.
    + left. subst t. apply Hs.
    + right. exact H.
Qed.

(* ---- tokens_insert --------------------------------------------------------- *)
Lemma tokens_insert_incl : forall a n sp, incl (a_tokens a) (a_tokens (tokens_insert a n sp)).
Proof.
  intros a n sp. destruct (tokens_insert_cases a n sp) as [[_ E]|[_ E]]; rewrite E.
  - apply incl_refl.
  - cbn [a_tokens upd_spans upd_tokens]. apply incl_appl, incl_refl.
Qed.

Lemma tokens_insert_self : forall a n sp, In n (a_tokens (tokens_insert a n sp)).
Proof.
  intros a n sp. destruct (tokens_insert_cases a n sp) as [[H E]|[_ E]]; rewrite E.
  - unfold get_index_of in H. destruct (index_of (a_tokens a) n 0) eqn:E1; [|congruence].
    eapply index_of_some_in. exact E1.
  - cbn [a_tokens upd_spans upd_tokens]. apply in_or_app. right. left. reflexivity.
Qed.

Lemma grows_tokens_insert : forall a n sp, grows a (tokens_insert a n sp).
Proof.
  intros a n sp. split; [apply tokens_insert_incl|]. split.
  - intros m H. rewrite has_rule_tokens_insert. exact H.
  - intros m H. destruct (tokens_insert_frame a n sp) as [_ [_ [_ [_ [Hp _]]]]]. rewrite Hp. exact H.
Qed.

(* ---- add_prod --------------------------------------------------------------- *)
Lemma add_prod_t_cases : forall a rn syms prec act sp,
  add_prod_t a rn syms prec act sp = a \/
  exists rs', rules_push_pidx (a_rules a) rn (List.length (a_prods a)) = Some rs' /\
    add_prod_t a rn syms prec act sp
    = upd_prods (upd_rules a rs') (a_prods a ++ [mkProd syms prec act sp]).
Proof.
  intros a rn syms prec act sp. unfold add_prod_t, add_prod.
  destruct (rules_push_pidx (a_rules a) rn (List.length (a_prods a))) as [rs'|] eqn:E.
  - right. exists rs'. split; reflexivity.
  - left. reflexivity.
Qed.

Lemma add_prod_t_frame2 : forall a rn syms prec act sp,
  a_precs (add_prod_t a rn syms prec act sp) = a_precs a /\
  a_epp (add_prod_t a rn syms prec act sp) = a_epp a /\
  a_expect_unused (add_prod_t a rn syms prec act sp) = a_expect_unused a.
Proof.
  intros a rn syms prec act sp.
  destruct (add_prod_t_cases a rn syms prec act sp) as [E|[rs' [_ E]]]; rewrite E; repeat split; reflexivity.
Qed.

Lemma grows_add_prod_t : forall a rn syms prec act sp, grows a (add_prod_t a rn syms prec act sp).
Proof.
  intros a rn syms prec act sp.
  destruct (add_prod_t_frame a rn syms prec act sp) as [Ht [_ [_ Hr]]].
  destruct (add_prod_t_frame2 a rn syms prec act sp) as [Hp _].
  split; [rewrite Ht; apply incl_refl|]. split.
  - intros m H. rewrite Hr. exact H.
  - intros m H. rewrite Hp. exact H.
Qed.

(* ======================================================================== *)
(*  The declarations                                                          *)
(* ======================================================================== *)
Lemma tok_occs_fst : forall g q ts k off, map fst (tok_occs g q k off ts) = ts.
Proof.
  intros g q ts. induction ts as [|t ts IH]; intros k off; cbn [tok_occs map fst]; [reflexivity|].
  rewrite IH. reflexivity.
Qed.

(* what the declarations leave alone *)
Definition dfr (a a' : gast) : Prop :=
  a_rules a' = a_rules a /\ a_prods a' = a_prods a /\ a_expect_unused a' = a_expect_unused a /\
  a_epp a' = a_epp a /\ a_start a' = a_start a.

Lemma dfr_refl : forall a, dfr a a.
Proof. intros a. repeat split; reflexivity. Qed.
Lemma dfr_trans : forall a b c, dfr a b -> dfr b c -> dfr a c.
Proof.
  intros a b c [H1 [H2 [H3 [H4 H5]]]] [G1 [G2 [G3 [G4 G5]]]].
  repeat split; congruence.
Qed.

Lemma ins_declared_cases : forall a o,
  (get_index_of (a_tokens a) (fst o) <> None /\ exists d, ins_declared a o = upd_tokdirs a d) \/
  (exists d, ins_declared a o
             = upd_tokdirs (upd_spans (upd_tokens a (a_tokens a ++ [fst o])) (a_spans a ++ [snd o])) d).
Proof.
  intros a o. unfold ins_declared, insert_full.
  destruct (get_index_of (a_tokens a) (fst o)) as [k|] eqn:E.
  - left. split; [discriminate|]. eexists. reflexivity.
  - right. eexists. reflexivity.
Qed.

Lemma ins_declared_self : forall a o, In (fst o) (a_tokens (ins_declared a o)).
Proof.
  intros a o. destruct (ins_declared_cases a o) as [[H [d E]]|[d E]]; rewrite E;
    cbn [a_tokens upd_tokdirs upd_spans upd_tokens].
  - unfold get_index_of in H. destruct (index_of (a_tokens a) (fst o) 0) eqn:E1; [|congruence].
    eapply index_of_some_in. exact E1.
  - apply in_or_app. right. left. reflexivity.
Qed.

Lemma grows_ins_declared : forall a o, grows a (ins_declared a o).
Proof.
  intros a o. destruct (ins_declared_cases a o) as [[_ [d E]]|[d E]]; rewrite E.
  - apply grows_same; reflexivity.
  - split; [cbn [a_tokens upd_tokdirs upd_spans upd_tokens]; apply incl_appl, incl_refl|].
    split; intros m H; exact H.
Qed.

Lemma dfr_ins_declared : forall a o, dfr a (ins_declared a o).
Proof.
  intros a o. destruct (ins_declared_cases a o) as [[_ [d E]]|[d E]]; rewrite E; repeat split; reflexivity.
Qed.

Lemma grows_ins_prec : forall lvl k a o, grows a (ins_prec lvl k a o).
Proof.
  intros lvl k a o. unfold ins_prec. split; [apply incl_refl|]. split.
  - intros m H. exact H.
  - intros m H. cbn [a_precs upd_precs]. apply assoc_get_app_some. exact H.
Qed.

Lemma ins_prec_self : forall lvl k a o, assoc_get (a_precs (ins_prec lvl k a o)) (fst o) <> None.
Proof. intros lvl k a o. unfold ins_prec. cbn [a_precs upd_precs]. apply assoc_get_snoc_self. Qed.

Lemma dfr_ins_prec : forall lvl k a o, dfr a (ins_prec lvl k a o).
Proof. intros. repeat split; reflexivity. Qed.

Lemma grows_ins_avoid : forall a o, grows a (ins_avoid a o).
Proof.
  intros a o. unfold ins_avoid. eapply grows_trans; [apply (grows_tokens_insert a (fst o) (snd o))|].
  apply grows_same; reflexivity.
Qed.

Lemma ins_avoid_self : forall a o, In (fst o) (a_tokens (ins_avoid a o)).
Proof. intros a o. unfold ins_avoid. cbn [a_tokens upd_avoid]. apply tokens_insert_self. Qed.

Lemma dfr_ins_avoid : forall a o, dfr a (ins_avoid a o).
Proof.
  intros a o. unfold ins_avoid.
  destruct (tokens_insert_frame a (fst o) (snd o)) as [H1 [H2 [H3 [_ [_ [_ [_ [H8 [_ [_ [_ [_ [_ H14]]]]]]]]]]]]].
  unfold dfr. cbn [a_rules a_prods a_expect_unused a_epp a_start upd_avoid].
  repeat split; assumption.
Qed.

Lemma grows_ins_implicit : forall a o, grows a (ins_implicit a o).
Proof.
  intros a o. unfold ins_implicit. eapply grows_trans; [apply (grows_tokens_insert a (fst o) (snd o))|].
  apply grows_same; reflexivity.
Qed.

Lemma ins_implicit_self : forall a o, In (fst o) (a_tokens (ins_implicit a o)).
Proof. intros a o. unfold ins_implicit. cbn [a_tokens upd_implicit]. apply tokens_insert_self. Qed.

Lemma dfr_ins_implicit : forall a o, dfr a (ins_implicit a o).
Proof.
  intros a o. unfold ins_implicit.
  destruct (tokens_insert_frame a (fst o) (snd o)) as [H1 [H2 [H3 [_ [_ [_ [_ [H8 [_ [_ [_ [_ [_ H14]]]]]]]]]]]]].
  unfold dfr. cbn [a_rules a_prods a_expect_unused a_epp a_start upd_implicit].
  repeat split; assumption.
Qed.

(* %expect-unused appends symbols; nothing else *)
Definition eu_syms (x : adecl) : list asym := match x with DExpectUnused ss => ss | _ => [] end.

Lemma erase_eu_occs : forall g q ss k off, map erase_sym (eu_occs g q k off ss) = ss.
Proof.
  intros g q ss. induction ss as [|s ss IH]; intros k off; cbn [eu_occs map]; [reflexivity|].
  rewrite IH. destruct s; reflexivity.
Qed.

Lemma fold_eu_facts : forall occs a,
  grows a (fold_left ins_eu occs a) /\
  a_rules (fold_left ins_eu occs a) = a_rules a /\
  a_prods (fold_left ins_eu occs a) = a_prods a /\
  a_expect_unused (fold_left ins_eu occs a) = a_expect_unused a ++ occs /\
  a_epp (fold_left ins_eu occs a) = a_epp a /\
  a_start (fold_left ins_eu occs a) = a_start a.
Proof.
  induction occs as [|o occs IH]; intros a; cbn [fold_left].
  - rewrite app_nil_r. split; [apply grows_refl|]. repeat split; reflexivity.
  - destruct (IH (ins_eu a o)) as [G [H1 [H2 [H3 [H4 H5]]]]].
    split; [eapply grows_trans; [|exact G]; apply grows_same; reflexivity|].
    rewrite H1, H2, H3, H4, H5. unfold ins_eu. cbn [a_rules a_prods a_expect_unused a_epp a_start upd_expect_unused].
    rewrite <- app_assoc. repeat split; reflexivity.
Qed.

(* one declaration *)
Lemma decl_eff_facts : forall dl off lvl x a,
  grows a (decl_eff dl off lvl x a) /\
  a_rules (decl_eff dl off lvl x a) = a_rules a /\
  a_prods (decl_eff dl off lvl x a) = a_prods a /\
  map erase_sym (a_expect_unused (decl_eff dl off lvl x a)) = map erase_sym (a_expect_unused a) ++ eu_syms x /\
  map fst (a_epp (decl_eff dl off lvl x a))
  = map fst (a_epp a) ++ map fst (match x with DEpp t v => [(t, v)] | _ => [] end) /\
  match x with
  | DStart n => exists sp, a_start (decl_eff dl off lvl x a) = Some (n, sp)
  | _ => a_start (decl_eff dl off lvl x a) = a_start a
  end.
Proof.
  intros dl off lvl x a. destruct x as [n|ts|k ts|t v|ts|v|v|t|nm t|t|ss|ts]; cbn [decl_eff map fst eu_syms]; rewrite ?app_nil_r.
  - split; [apply grows_same; reflexivity|]. repeat split; try reflexivity. eexists. reflexivity.
  - pose proof (fold_left_rel dfr ins_declared dfr_refl dfr_trans dfr_ins_declared
                  (tok_occs (dg dl) (dq dl) 0 (off + byte_len (dg dl 0) + byte_len kw_token) ts) a)
      as [H1 [H2 [H3 [H4 H5]]]].
    split; [apply (fold_left_rel grows ins_declared grows_refl grows_trans grows_ins_declared)|].
    rewrite H4, H3. repeat split; try assumption; reflexivity.
  - pose proof (fold_left_rel dfr (ins_prec lvl k) dfr_refl dfr_trans (dfr_ins_prec lvl k)
                  (tok_occs (dg dl) (dq dl) 0 (off + byte_len (dg dl 0) + byte_len (kw_assoc k)) ts) a)
      as [H1 [H2 [H3 [H4 H5]]]].
    split; [apply (fold_left_rel grows (ins_prec lvl k) grows_refl grows_trans (grows_ins_prec lvl k))|].
    rewrite H4, H3. repeat split; try assumption; reflexivity.
  - split; [apply grows_same; reflexivity|]. cbn [a_epp upd_epp]. rewrite map_app.
    repeat split; reflexivity.
  - set (a0 := match a_avoid_insert a with None => upd_avoid a (Some []) | Some _ => a end).
    assert (G0 : grows a a0) by (unfold a0; destruct (a_avoid_insert a); apply grows_same; reflexivity).
    assert (F0 : dfr a a0) by (unfold a0; destruct (a_avoid_insert a); repeat split; reflexivity).
    pose proof (dfr_trans _ _ _ F0
                  (fold_left_rel dfr ins_avoid dfr_refl dfr_trans dfr_ins_avoid
                     (tok_occs (dg dl) (dq dl) 0 (off + byte_len (dg dl 0) + byte_len kw_avoid_insert) ts) a0))
      as [H1 [H2 [H3 [H4 H5]]]].
    split; [eapply grows_trans; [exact G0|];
            apply (fold_left_rel grows ins_avoid grows_refl grows_trans grows_ins_avoid)|].
    rewrite H4, H3. repeat split; try assumption; reflexivity.
  - split; [apply grows_same; reflexivity|]. repeat split; reflexivity.
  - split; [apply grows_same; reflexivity|]. repeat split; reflexivity.
  - split; [apply grows_refl|]. repeat split; reflexivity.
  - split; [apply grows_same; reflexivity|]. repeat split; reflexivity.
  - split; [apply grows_same; reflexivity|]. repeat split; reflexivity.
  - destruct (fold_eu_facts (eu_occs (dg dl) (dq dl) 0 (off + byte_len (dg dl 0) + byte_len kw_expect_unused) ss) a)
      as [G [H1 [H2 [H3 [H4 H5]]]]].
    split; [exact G|]. rewrite H3, H4, map_app, erase_eu_occs. repeat split; assumption.
  - set (a0 := match a_implicit_tokens a with None => upd_implicit a (Some []) | Some _ => a end).
    assert (G0 : grows a a0) by (unfold a0; destruct (a_implicit_tokens a); apply grows_same; reflexivity).
    assert (F0 : dfr a a0) by (unfold a0; destruct (a_implicit_tokens a); repeat split; reflexivity).
    pose proof (dfr_trans _ _ _ F0
                  (fold_left_rel dfr ins_implicit dfr_refl dfr_trans dfr_ins_implicit
                     (tok_occs (dg dl) (dq dl) 0 (off + byte_len (dg dl 0) + byte_len kw_implicit_tokens) ts) a0))
      as [H1 [H2 [H3 [H4 H5]]]].
    split; [eapply grows_trans; [exact G0|];
            apply (fold_left_rel grows ins_implicit grows_refl grows_trans grows_ins_implicit)|].
    rewrite H4, H3. repeat split; try assumption; reflexivity.
Qed.

Lemma decl_implicit_known : forall dl off lvl ts a t, In t ts ->
  In t (a_tokens (decl_eff dl off lvl (DImplicit ts) a)).
Proof.
  intros dl off lvl ts a t H. cbn [decl_eff].
  apply (fold_left_reach ins_implicit (fun a t => In t (a_tokens a))).
  - apply ins_implicit_self.
  - intros a1 o t1 H1. apply (grows_ins_implicit a1 o). exact H1.
  - right. rewrite tok_occs_fst. exact H.
Qed.

(* what one declaration makes known *)
Lemma decl_token_known : forall dl off lvl ts a t, In t ts ->
  In t (a_tokens (decl_eff dl off lvl (DToken ts) a)).
Proof.
  intros dl off lvl ts a t H. cbn [decl_eff].
  apply (fold_left_reach ins_declared (fun a t => In t (a_tokens a))).
  - apply ins_declared_self.
  - intros a1 o t1 H1. apply (grows_ins_declared a1 o). exact H1.
  - right. rewrite tok_occs_fst. exact H.
Qed.

Lemma decl_avoid_known : forall dl off lvl ts a t, In t ts ->
  In t (a_tokens (decl_eff dl off lvl (DAvoid ts) a)).
Proof.
  intros dl off lvl ts a t H. cbn [decl_eff].
  apply (fold_left_reach ins_avoid (fun a t => In t (a_tokens a))).
  - apply ins_avoid_self.
  - intros a1 o t1 H1. apply (grows_ins_avoid a1 o). exact H1.
  - right. rewrite tok_occs_fst. exact H.
Qed.

Lemma decl_prec_known : forall dl off lvl k ts a t, In t ts ->
  assoc_get (a_precs (decl_eff dl off lvl (DPrec k ts) a)) t <> None.
Proof.
  intros dl off lvl k ts a t H. cbn [decl_eff].
  apply (fold_left_reach (ins_prec lvl k) (fun a t => assoc_get (a_precs a) t <> None)).
  - apply ins_prec_self.
  - intros a1 o t1 H1. apply (grows_ins_prec lvl k a1 o). exact H1.
  - right. rewrite tok_occs_fst. exact H.
Qed.

(* all declarations *)
Lemma decls_eff_facts : forall ds l d off lvl a,
  grows a (decls_eff l d off lvl ds a) /\
  a_rules (decls_eff l d off lvl ds a) = a_rules a /\
  a_prods (decls_eff l d off lvl ds a) = a_prods a /\
  map erase_sym (a_expect_unused (decls_eff l d off lvl ds a))
  = map erase_sym (a_expect_unused a) ++ flat_map eu_syms ds /\
  map fst (a_epp (decls_eff l d off lvl ds a))
  = map fst (a_epp a) ++ map fst (flat_map (fun d => match d with DEpp t v => [(t, v)] | _ => [] end) ds) /\
  (a_start (decls_eff l d off lvl ds a) = a_start a \/
   exists n sp, In (DStart n) ds /\ a_start (decls_eff l d off lvl ds a) = Some (n, sp)).
Proof.
  induction ds as [|x ds IH]; intros l d off lvl a; cbn [decls_eff flat_map].
  - split; [apply grows_refl|]. cbn [map]. rewrite !app_nil_r. repeat split; try reflexivity. left. reflexivity.
  - destruct (decl_eff_facts (dlay_of l d) off lvl x a) as [G [H1 [H2 [H3 [H4 H5]]]]].
    destruct (IH l (S d) (off + byte_len (print_decl (dlay_of l d) x)) (if is_prec x then S lvl else lvl)
                 (decl_eff (dlay_of l d) off lvl x a)) as [G' [K1 [K2 [K3 [K4 K5]]]]].
    split; [eapply grows_trans; eassumption|].
    split; [congruence|]. split; [congruence|]. split; [rewrite K3, H3, app_assoc; reflexivity|]. split.
    + rewrite K4, H4, map_app, app_assoc. reflexivity.
    + destruct K5 as [K5|[n [sp [Hi K5]]]].
      * rewrite K5. destruct x as [n|ts|k ts|t v|ts|v|v|t|nm t|t|ss|ts]; try (left; exact H5).
        destruct H5 as [sp H5]. right. exists n, sp. split; [left; reflexivity | exact H5].
      * right. exists n, sp. split; [right; exact Hi | exact K5].
Qed.

Lemma decls_eff_reach : forall (Q : gast -> Prop) x,
  (forall a a', grows a a' -> Q a -> Q a') ->
  (forall dl off lvl a, Q (decl_eff dl off lvl x a)) ->
  forall ds l d off lvl a, In x ds -> Q (decls_eff l d off lvl ds a).
Proof.
  intros Q x Hm Hx. induction ds as [|y ds IH]; intros l d off lvl a Hi; [destruct Hi|].
  cbn [decls_eff]. destruct Hi as [Hi|Hi].
  - subst y. eapply Hm; [apply decls_eff_facts | apply Hx].
  - apply IH. exact Hi.
Qed.

(* with at most one %start, any %start is the first *)
Lemma start_unique : forall ds n,
  List.length (filter (fun d => match d with DStart _ => true | _ => false end) ds) <= 1 ->
  In (DStart n) ds ->
  hd_error (flat_map (fun d => match d with DStart n => [n] | _ => [] end) ds) = Some n.
Proof.
  induction ds as [|d ds IH]; intros n Hc Hi; [destruct Hi|].
  destruct Hi as [Hi|Hi].
  - subst d. reflexivity.
  - destruct d as [n0|ts|k ts|t v|ts|v|v|t|nm t|t|ss|ts]; try (simpl in Hc |- *; apply IH; assumption).
    simpl in Hc. exfalso.
    assert (H : In (DStart n) (filter (fun d => match d with DStart _ => true | _ => false end) ds))
      by (apply filter_In; split; [exact Hi | reflexivity]).
    destruct (filter (fun d => match d with DStart _ => true | _ => false end) ds); [destruct H | simpl in Hc; lia].
Qed.

(* ======================================================================== *)
(*  The rules                                                                 *)
(* ======================================================================== *)
(* what the rules phase leaves alone, on top of [grows] *)
Definition rstep (a a' : gast) : Prop :=
  grows a a' /\ a_precs a' = a_precs a /\ a_epp a' = a_epp a /\
  a_expect_unused a' = a_expect_unused a /\
  (forall s, a_start a = Some s -> a_start a' = Some s).

Lemma rstep_refl : forall a, rstep a a.
Proof. intros a. split; [apply grows_refl|]. repeat split; try reflexivity. intros s H; exact H. Qed.

Lemma rstep_trans : forall a b c, rstep a b -> rstep b c -> rstep a c.
Proof.
  intros a b c [H1 [H2 [H3 [H4 H5]]]] [G1 [G2 [G3 [G4 G5]]]].
  split; [eapply grows_trans; eassumption|].
  split; [congruence|]. split; [congruence|]. split; [congruence|].
  intros s H. apply G5, H5, H.
Qed.

Lemma rstep_tokens_insert : forall a n sp, rstep a (tokens_insert a n sp).
Proof.
  intros a n sp. split; [apply grows_tokens_insert|].
  destruct (tokens_insert_frame a n sp) as [H1 [_ [_ [_ [H5 [_ [_ [H8 [_ [_ [_ [_ [_ H14]]]]]]]]]]]]].
  repeat split; try assumption. intros s H. rewrite H1. exact H.
Qed.

Lemma rstep_add_prod_t : forall a rn syms prec act sp, rstep a (add_prod_t a rn syms prec act sp).
Proof.
  intros a rn syms prec act sp. split; [apply grows_add_prod_t|].
  destruct (add_prod_t_frame2 a rn syms prec act sp) as [H1 [H2 H3]].
  destruct (add_prod_t_frame a rn syms prec act sp) as [_ [_ [Hs _]]].
  repeat split; try assumption. intros s H. rewrite Hs. exact H.
Qed.

Lemma rstep_syms_ins : forall pl ss k off a, rstep a (syms_ins pl k off ss a).
Proof.
  intros pl ss. induction ss as [|s ss IH]; intros k off a; cbn [syms_ins]; [apply rstep_refl|].
  eapply rstep_trans; [|apply IH].
  destruct (sym_q pl k s); [apply rstep_refl | apply rstep_tokens_insert ..].
Qed.

Lemma rstep_prod_eff : forall fa fp pl rn off p a, rstep a (prod_eff fa fp pl rn off p a).
Proof.
  intros fa fp pl rn off p a. unfold prod_eff. cbv zeta.
  eapply rstep_trans; [|apply rstep_add_prod_t].
  eapply rstep_trans; [apply (rstep_syms_ins pl (ap_syms p) 0 (prod_o0 pl off p) a)|].
  destruct (ap_prec p); [apply rstep_tokens_insert | apply rstep_refl].
Qed.

Lemma rstep_prods_eff : forall fa fp rl rn ps pi off a, rstep a (prods_eff fa fp rl rn pi off ps a).
Proof.
  intros fa fp rl rn ps. induction ps as [|p ps IH]; intros pi off a; cbn [prods_eff]; [apply rstep_refl|].
  eapply rstep_trans; [apply rstep_prod_eff | apply IH].
Qed.

(* the rule head *)
Lemma rule_head_fields : forall off at_ n a,
  a_tokens (rule_head_eff off at_ n a) = a_tokens a /\
  a_precs (rule_head_eff off at_ n a) = a_precs a /\
  a_epp (rule_head_eff off at_ n a) = a_epp a /\
  a_expect_unused (rule_head_eff off at_ n a) = a_expect_unused a /\
  a_prods (rule_head_eff off at_ n a) = a_prods a /\
  (forall s, a_start a = Some s -> a_start (rule_head_eff off at_ n a) = Some s) /\
  (a_start a = None -> exists sp, a_start (rule_head_eff off at_ n a) = Some (n, sp)) /\
  (a_rules (rule_head_eff off at_ n a) = a_rules a \/
   a_rules (rule_head_eff off at_ n a)
   = rules_insert (a_rules a) (mkRule n (off, off + byte_len n) [] at_)).
Proof.
  intros off at_ n a. unfold rule_head_eff. cbv zeta.
  destruct (a_start a) as [s0|] eqn:Es; cbn [a_rules upd_start]; destruct (get_rule (a_rules a) n);
    unfold add_rule;
    cbn [a_tokens a_precs a_epp a_expect_unused a_prods a_start a_rules upd_start upd_rules];
    repeat split; try reflexivity; try (intros s H; first [exact H | discriminate H | rewrite <- H; exact Es]);
    try (intros H; first [discriminate H | eexists; reflexivity]); auto.
Qed.

Lemma rstep_rule_head : forall off at_ n a, rstep a (rule_head_eff off at_ n a).
Proof.
  intros off at_ n a.
  destruct (rule_head_fields off at_ n a) as [Ht [Hp [He [Hu [_ [Hs [_ Hr]]]]]]].
  split; [|repeat split; assumption].
  split; [rewrite Ht; apply incl_refl|]. split.
  - intros m H. unfold has_rule in *. destruct Hr as [Hr|Hr]; rewrite Hr; [exact H|].
    rewrite get_rule_rules_insert. rewrite H. reflexivity.
  - intros m H. rewrite Hp. exact H.
Qed.

Lemma rstep_rule_eff : forall fa fp rl off at_ r a, rstep a (rule_eff fa fp rl off at_ r a).
Proof.
  intros. unfold rule_eff. eapply rstep_trans; [apply rstep_rule_head | apply rstep_prods_eff].
Qed.

Lemma rstep_rules_eff : forall fa fp l rs r off at_ a, rstep a (rules_eff fa fp l r off at_ rs a).
Proof.
  intros fa fp l rs. induction rs as [|x rs IH]; intros r off at_ a; cbn [rules_eff]; [apply rstep_refl|].
  eapply rstep_trans; [apply rstep_rule_eff | apply IH].
Qed.

(* every rule block's name is a rule at the end *)
Lemma rules_eff_has_rule : forall fa fp l rs r off at_ a x, In x rs ->
  has_rule (rules_eff fa fp l r off at_ rs a) (ar_name x) = true.
Proof.
  intros fa fp l rs. induction rs as [|y rs IH]; intros r off at_ a x Hi; [destruct Hi|].
  cbn [rules_eff]. destruct Hi as [Hi|Hi].
  - subst y. apply (rstep_rules_eff fa fp l rs (S r) _ at_ _).
    unfold rule_eff. apply (rstep_prods_eff fa fp (rlay_of l r) (ar_name x) (ar_prods x) 0 _ _).
    apply rule_head_has_rule.
  - apply IH. exact Hi.
Qed.

(* the start rule *)
Lemma rules_eff_start : forall fa fp l rs r off at_ a, rs <> [] ->
  (forall s, a_start a = Some s -> a_start (rules_eff fa fp l r off at_ rs a) = Some s) /\
  (a_start a = None -> exists x sp, In x rs /\ a_start (rules_eff fa fp l r off at_ rs a) = Some (ar_name x, sp)).
Proof.
  intros fa fp l rs r off at_ a Hne. split.
  - apply rstep_rules_eff.
  - intros Hn. destruct rs as [|x rs]; [congruence|]. cbn [rules_eff].
    destruct (rule_head_fields off (rule_at_ at_ x) (ar_name x) a) as [_ [_ [_ [_ [_ [_ [Hs _]]]]]]].
    destruct (Hs Hn) as [sp Hsp]. exists x, sp. split; [left; reflexivity|].
    apply (rstep_rules_eff fa fp l rs (S r) _ at_ _). unfold rule_eff.
    apply (rstep_prods_eff fa fp (rlay_of l r) (ar_name x) (ar_prods x) 0 _ _). exact Hsp.
Qed.

(* ---- the tokens the rules use ------------------------------------------------ *)
(* the token names a production uses *)
Definition atoks (p : aprod) (n : str) : Prop := In (ATok n) (ap_syms p) \/ ap_prec p = Some n.

Section Toks.
Variable D : str -> bool.
(* the %token-declared names are tokens *)
Definition knows (a : gast) : Prop := forall n, D n = true -> In n (a_tokens a).

Lemma knows_grows : forall a a', grows a a' -> knows a -> knows a'.
Proof. intros a a' [G _] H n Hn. apply G, H, Hn. Qed.

Lemma syms_ins_toks : forall pl ss k off a n,
  wf_syms D pl k ss -> knows a -> In (ATok n) ss -> In n (a_tokens (syms_ins pl k off ss a)).
Proof.
  intros pl ss. induction ss as [|s ss IH]; intros k off a n Hw Hk Hi; [destruct Hi|].
  cbn [syms_ins]. cbn [wf_syms] in Hw. destruct Hw as [Hs [_ [_ Hw]]].
  destruct Hi as [Hi|Hi].
  - subst s. destruct Hs as [_ Hs]. cbn [sym_q sym_name].
    apply (rstep_syms_ins pl ss (S k) _ _).
    destruct (pq_sym pl k); [apply Hk; exact Hs | apply tokens_insert_self ..].
  - apply IH; [exact Hw| |exact Hi].
    destruct (sym_q pl k s); [exact Hk | eapply knows_grows; [apply grows_tokens_insert | exact Hk] ..].
Qed.

Lemma prod_eff_toks : forall fa fp pl rn off p a n,
  wf_prod D pl p -> knows a -> atoks p n -> In n (a_tokens (prod_eff fa fp pl rn off p a)).
Proof.
  intros fa fp pl rn off p a n [Hw _] Hk Hn. unfold prod_eff. cbv zeta.
  apply (grows_add_prod_t _ rn _ _ _ _).
  destruct Hn as [Hn|Hn].
  - assert (H : In n (a_tokens (syms_ins pl 0 (prod_o0 pl off p) (ap_syms p) a)))
      by (apply syms_ins_toks; assumption).
    destruct (ap_prec p); [apply tokens_insert_incl; exact H | exact H].
  - rewrite Hn. apply tokens_insert_self.
Qed.

Lemma prods_eff_toks : forall fa fp rl rn ps pi off a p n,
  wf_prods D rl pi ps -> knows a -> In p ps -> atoks p n ->
  In n (a_tokens (prods_eff fa fp rl rn pi off ps a)).
Proof.
  intros fa fp rl rn ps. induction ps as [|q ps IH]; intros pi off a p n Hw Hk Hi Hn; [destruct Hi|].
  cbn [prods_eff]. cbn [wf_prods] in Hw. destruct Hw as [Hq Hw]. destruct Hi as [Hi|Hi].
  - subst q. apply (rstep_prods_eff fa fp rl rn ps (S pi) _ _). apply prod_eff_toks; assumption.
  - apply (IH (S pi) _ _ p n Hw); [|exact Hi|exact Hn].
    eapply knows_grows; [apply rstep_prod_eff | exact Hk].
Qed.

Lemma rule_eff_toks : forall fa fp rl off at_ r a p n,
  wf_rule D rl r -> knows a -> In p (ar_prods r) -> atoks p n ->
  In n (a_tokens (rule_eff fa fp rl off at_ r a)).
Proof.
  intros fa fp rl off at_ r a p n [_ [_ [_ [_ [Hw _]]]]] Hk Hi Hn. unfold rule_eff.
  apply (prods_eff_toks fa fp rl (ar_name r) (ar_prods r) 0 _ _ p n Hw); [|exact Hi|exact Hn].
  eapply knows_grows; [apply rstep_rule_head | exact Hk].
Qed.

Lemma rules_eff_toks : forall fa fp l rs r off at_ a x p n,
  wf_rules D l r rs -> knows a -> In x rs -> In p (ar_prods x) -> atoks p n ->
  In n (a_tokens (rules_eff fa fp l r off at_ rs a)).
Proof.
  intros fa fp l rs. induction rs as [|y rs IH]; intros r off at_ a x p n Hw Hk Hi Hp Hn; [destruct Hi|].
  cbn [rules_eff]. cbn [wf_rules] in Hw. destruct Hw as [Hy Hw]. destruct Hi as [Hi|Hi].
  - subst y. apply (rstep_rules_eff fa fp l rs (S r) _ at_ _). eapply rule_eff_toks; eassumption.
  - apply (IH (S r) _ at_ _ x p n Hw); [|exact Hi|exact Hp|exact Hn].
    eapply knows_grows; [apply rstep_rule_eff | exact Hk].
Qed.
End Toks.

(* ---- the productions mention only names of a fixed target ------------------------ *)
Section Target.
Variables RNp TKp PRp : str -> Prop.

Definition okp (p : production) : Prop :=
  (forall n sp, In (SRule n sp) (p_syms p) -> RNp n) /\
  (forall n sp, In (SToken n sp) (p_syms p) -> TKp n) /\
  (forall t, p_prec p = Some t -> TKp t /\ PRp t).
Definition okap (p : aprod) : Prop :=
  (forall n, In (ARule n) (ap_syms p) -> RNp n) /\
  (forall n, In (ATok n) (ap_syms p) -> TKp n) /\
  (forall t, ap_prec p = Some t -> TKp t /\ PRp t).

(* indexes in range, productions fine *)
Definition pinv (a : gast) : Prop := pidx_ok a /\ Forall okp (a_prods a).

Lemma pinv_same : forall a a', a_rules a' = a_rules a -> a_prods a' = a_prods a -> pinv a -> pinv a'.
Proof. intros a a' Hr Hp [H1 H2]. unfold pinv, pidx_ok in *. rewrite Hr, Hp. split; assumption. Qed.

Lemma syms_out_rule : forall pl ss k off n sp, In (SRule n sp) (syms_out pl k off ss) -> In (ARule n) ss.
Proof.
  intros pl ss. induction ss as [|s ss IH]; intros k off n sp H; cbn [syms_out] in H; [destruct H|].
  destruct H as [H|H].
  - left. destruct s; cbn [sym_at] in H; [injection H as -> _; reflexivity | discriminate H].
  - right. eapply IH. exact H.
Qed.

Lemma syms_out_tok : forall pl ss k off n sp, In (SToken n sp) (syms_out pl k off ss) -> In (ATok n) ss.
Proof.
  intros pl ss. induction ss as [|s ss IH]; intros k off n sp H; cbn [syms_out] in H; [destruct H|].
  destruct H as [H|H].
  - left. destruct s; cbn [sym_at] in H; [discriminate H | injection H as -> _; reflexivity].
  - right. eapply IH. exact H.
Qed.

Lemma push_pidx_forall : forall (P : nat -> Prop) rs n k rs',
  rules_push_pidx rs n k = Some rs' -> P k ->
  Forall (fun r => Forall P (r_pidxs r)) rs -> Forall (fun r => Forall P (r_pidxs r)) rs'.
Proof.
  intros P rs. induction rs as [|x rs IH]; intros n k rs' H Pk HF; simpl in H; [discriminate H|].
  inversion HF as [|? ? Hx Hrs]; subst.
  destruct (str_eqb (r_name x) n).
  - injection H as <-. constructor; [|exact Hrs]. cbn [r_pidxs]. apply Forall_app.
    split; [exact Hx | constructor; [exact Pk | constructor]].
  - destruct (rules_push_pidx rs n k) as [l|] eqn:El; [|discriminate H]. injection H as <-.
    constructor; [exact Hx | eapply IH; eassumption].
Qed.

Lemma pinv_add_prod_t : forall a rn syms prec act sp,
  pinv a -> okp (mkProd syms prec act sp) -> pinv (add_prod_t a rn syms prec act sp).
Proof.
  intros a rn syms prec act sp [H1 H2] Hok.
  destruct (add_prod_t_cases a rn syms prec act sp) as [E|[rs' [Hp E]]]; rewrite E; [split; assumption|].
  unfold pinv, pidx_ok in *. cbn [a_rules a_prods upd_prods upd_rules]. split.
  - rewrite app_length. apply (push_pidx_forall _ _ _ _ _ Hp); [simpl; lia|].
    eapply Forall_impl; [|exact H1]. intros r Hr. eapply Forall_impl; [|exact Hr].
    intros q Hq. simpl in *. lia.
  - apply Forall_app. split; [exact H2 | constructor; [exact Hok | constructor]].
Qed.

Lemma pinv_prod_eff : forall fa fp pl rn off p a, pinv a -> okap p -> pinv (prod_eff fa fp pl rn off p a).
Proof.
  intros fa fp pl rn off p a H [O1 [O2 O3]]. unfold prod_eff. cbv zeta. apply pinv_add_prod_t.
  - destruct (syms_ins_frame pl (ap_syms p) 0 (prod_o0 pl off p) a) as [Hr [Hp _]].
    apply (pinv_same a); [| |exact H];
      destruct (ap_prec p); rewrite ?tokens_insert_rules, ?tokens_insert_prods; assumption.
  - unfold okp. cbn [p_syms p_prec]. split; [|split].
    + intros n sp Hi. apply O1. eapply syms_out_rule. exact Hi.
    + intros n sp Hi. apply O2. eapply syms_out_tok. exact Hi.
    + exact O3.
Qed.

Lemma pinv_prods_eff : forall fa fp rl rn ps pi off a,
  pinv a -> (forall p, In p ps -> okap p) -> pinv (prods_eff fa fp rl rn pi off ps a).
Proof.
  intros fa fp rl rn ps. induction ps as [|p ps IH]; intros pi off a H Ho; cbn [prods_eff]; [exact H|].
  apply IH.
  - apply pinv_prod_eff; [exact H | apply Ho; left; reflexivity].
  - intros q Hq. apply Ho. right. exact Hq.
Qed.

Lemma pinv_rule_head : forall off at_ n a, pinv a -> pinv (rule_head_eff off at_ n a).
Proof.
  intros off at_ n a [H1 H2].
  destruct (rule_head_fields off at_ n a) as [_ [_ [_ [_ [Hp [_ [_ Hr]]]]]]].
  unfold pinv, pidx_ok in *. rewrite Hp. split; [|exact H2].
  destruct Hr as [Hr|Hr]; rewrite Hr; [exact H1|].
  apply rules_insert_pidx; [reflexivity | exact H1].
Qed.

Lemma pinv_rules_eff : forall fa fp l rs r off at_ a,
  pinv a -> (forall x p, In x rs -> In p (ar_prods x) -> okap p) ->
  pinv (rules_eff fa fp l r off at_ rs a).
Proof.
  intros fa fp l rs. induction rs as [|x rs IH]; intros r off at_ a H Ho; cbn [rules_eff]; [exact H|].
  apply IH.
  - unfold rule_eff. apply pinv_prods_eff; [apply pinv_rule_head; exact H|].
    intros p Hp. apply (Ho x p); [left; reflexivity | exact Hp].
  - intros y p Hy Hp. apply (Ho y p); [right; exact Hy | exact Hp].
Qed.
End Target.

(* ======================================================================== *)
(*  Validation                                                                *)
(* ======================================================================== *)
Lemma validate_syms_ok : forall a syms,
  (forall n sp, In (SRule n sp) syms -> has_rule a n = true) ->
  (forall n sp, In (SToken n sp) syms -> has_token a n = true) ->
  validate_syms a syms = None.
Proof.
  intros a syms. induction syms as [|s syms IH]; intros Hr Ht; [reflexivity|].
  cbn [validate_syms]. destruct s as [n sp|n sp].
  - rewrite (Hr n sp) by (left; reflexivity).
    apply IH; intros m sp' Hi; [apply (Hr m sp') | apply (Ht m sp')]; right; exact Hi.
  - rewrite (Ht n sp) by (left; reflexivity).
    apply IH; intros m sp' Hi; [apply (Hr m sp') | apply (Ht m sp')]; right; exact Hi.
Qed.

Definition okp_at (a : gast) : production -> Prop :=
  okp (fun n => has_rule a n = true) (fun n => has_token a n = true)
      (fun n => assoc_get (a_precs a) n <> None).

Lemma validate_prod_ok : forall a p, okp_at a p -> validate_prod a p = None.
Proof.
  intros a p [H1 [H2 H3]]. unfold validate_prod.
  destruct (p_prec p) as [t|].
  - destruct (H3 t eq_refl) as [Ht Hp]. rewrite Ht. cbn [negb].
    destruct (assoc_get (a_precs a) t); [cbn [is_some negb] | congruence].
    apply validate_syms_ok; assumption.
  - apply validate_syms_ok; assumption.
Qed.

Lemma validate_pidxs_ok : forall a pidxs,
  Forall (fun p => p < List.length (a_prods a)) pidxs ->
  Forall (fun p => validate_prod a p = None) (a_prods a) ->
  validate_pidxs a pidxs = Done None.
Proof.
  intros a pidxs. induction pidxs as [|k ks IH]; intros H Hv; [reflexivity|].
  inversion H as [|? ? Hk Hks]; subst. cbn [validate_pidxs]. unfold nth_checked.
  destruct (nth_error (a_prods a) k) as [p|] eqn:En.
  - cbn [obind]. apply nth_error_In in En. rewrite Forall_forall in Hv. rewrite (Hv p En).
    apply IH; [exact Hks | rewrite Forall_forall; exact Hv].
  - apply nth_error_None in En. lia.
Qed.

Lemma validate_rules_ok : forall a rs,
  Forall (fun r => Forall (fun p => p < List.length (a_prods a)) (r_pidxs r)) rs ->
  Forall (fun p => validate_prod a p = None) (a_prods a) ->
  validate_rules a rs = Done None.
Proof.
  intros a rs. induction rs as [|x rs IH]; intros H Hv; [reflexivity|].
  inversion H as [|? ? Hx Hrs]; subst. cbn [validate_rules].
  rewrite (validate_pidxs_ok a (r_pidxs x) Hx Hv). cbn [obind]. apply IH; assumption.
Qed.

Lemma first_unknown_epp_ok : forall a l,
  (forall k, In k (map fst l) -> has_token a k = true) -> first_unknown_epp a l = None.
Proof.
  intros a l. induction l as [|[k [sp v]] l IH]; intros H; [reflexivity|].
  cbn [first_unknown_epp]. rewrite (H k) by (left; reflexivity).
  apply IH. intros k' Hk'. apply H. right. exact Hk'.
Qed.

Lemma validate_expect_unused_ok : forall a l,
  (forall s, In s l -> match s with SRule n _ => has_rule a n = true | SToken n _ => has_token a n = true end) ->
  validate_expect_unused a l = None.
Proof.
  intros a l. induction l as [|s l IH]; intros H; [reflexivity|].
  cbn [validate_expect_unused]. pose proof (H s (or_introl eq_refl)) as Hs.
  destruct s as [n sp|n sp]; rewrite Hs; apply IH; intros s' Hs'; apply H; right; exact Hs'.
Qed.

(* the programs text plays no part in validation *)
Lemma validate_syms_programs : forall a p syms, validate_syms (upd_programs a p) syms = validate_syms a syms.
Proof.
  intros a p syms. induction syms as [|[n sp|n sp] rest IH]; cbn [validate_syms]; [reflexivity | |].
  - change (has_rule (upd_programs a p) n) with (has_rule a n). rewrite IH. reflexivity.
  - change (has_token (upd_programs a p) n) with (has_token a n). rewrite IH. reflexivity.
Qed.
Lemma validate_prod_programs : forall a p x, validate_prod (upd_programs a p) x = validate_prod a x.
Proof.
  intros a p x. unfold validate_prod. rewrite validate_syms_programs.
  destruct (p_prec x) as [n|]; [|reflexivity].
  change (has_token (upd_programs a p) n) with (has_token a n).
  change (a_precs (upd_programs a p)) with (a_precs a). reflexivity.
Qed.
Lemma validate_pidxs_programs : forall a p l, validate_pidxs (upd_programs a p) l = validate_pidxs a l.
Proof.
  intros a p l. induction l as [|i l IH]; cbn [validate_pidxs]; [reflexivity|].
  change (a_prods (upd_programs a p)) with (a_prods a).
  destruct (nth_checked (a_prods a) i) as [x| |]; cbn [obind]; try reflexivity.
  rewrite validate_prod_programs, IH. reflexivity.
Qed.
Lemma validate_rules_programs : forall a p l, validate_rules (upd_programs a p) l = validate_rules a l.
Proof.
  intros a p l. induction l as [|r l IH]; cbn [validate_rules]; [reflexivity|].
  rewrite validate_pidxs_programs, IH. reflexivity.
Qed.
Lemma first_unknown_epp_programs : forall a p l, first_unknown_epp (upd_programs a p) l = first_unknown_epp a l.
Proof.
  intros a p l. induction l as [|[k [sp v]] l IH]; cbn [first_unknown_epp]; [reflexivity|].
  change (has_token (upd_programs a p) k) with (has_token a k).
  change (a_implicit_tokens (upd_programs a p)) with (a_implicit_tokens a). rewrite IH. reflexivity.
Qed.
Lemma validate_eu_programs : forall a p l, validate_expect_unused (upd_programs a p) l = validate_expect_unused a l.
Proof.
  intros a p l. induction l as [|[n sp|n sp] l IH]; cbn [validate_expect_unused]; [reflexivity | |].
  - change (has_rule (upd_programs a p) n) with (has_rule a n). rewrite IH. reflexivity.
  - change (has_token (upd_programs a p) n) with (has_token a n). rewrite IH. reflexivity.
Qed.
Lemma validate_programs : forall a p, complete_and_validate (upd_programs a p) = complete_and_validate a.
Proof.
  intros a p. unfold complete_and_validate.
  change (a_start (upd_programs a p)) with (a_start a).
  destruct (a_start a) as [[s sp]|]; [|reflexivity].
  change (has_rule (upd_programs a p) s) with (has_rule a s).
  change (a_rules (upd_programs a p)) with (a_rules a).
  change (a_epp (upd_programs a p)) with (a_epp a).
  change (a_expect_unused (upd_programs a p)) with (a_expect_unused a).
  rewrite validate_rules_programs, first_unknown_epp_programs, validate_eu_programs. reflexivity.
Qed.

(* ---- names of the abstract grammar ------------------------------------------------ *)
Lemma in_tok_syms : forall ss t,
  In t (flat_map (fun s => match s with ATok n => [n] | ARule _ => [] end) ss) <-> In (ATok t) ss.
Proof.
  intros ss t. rewrite in_flat_map. split.
  - intros [s [Hs Ht]]. destruct s as [n|n]; [destruct Ht|]. destruct Ht as [<-|[]]. exact Hs.
  - intros H. exists (ATok t). split; [exact H | left; reflexivity].
Qed.

Lemma in_rule_syms : forall ss t,
  In t (flat_map (fun s => match s with ARule n => [n] | ATok _ => [] end) ss) <-> In (ARule t) ss.
Proof.
  intros ss t. rewrite in_flat_map. split.
  - intros [s [Hs Ht]]. destruct s as [n|n]; [|destruct Ht]. destruct Ht as [<-|[]]. exact Hs.
  - intros H. exists (ARule t). split; [exact H | left; reflexivity].
Qed.

Lemma in_rule_tok_names : forall ag t,
  In t (rule_tok_names ag) <-> exists x p, In x (ag_rules ag) /\ In p (ar_prods x) /\ atoks p t.
Proof.
  intros ag t. unfold rule_tok_names, atoks. rewrite in_flat_map. split.
  - intros [x [Hx H]]. apply in_flat_map in H. destruct H as [p [Hp H]].
    exists x, p. split; [exact Hx|]. split; [exact Hp|].
    apply in_app_or in H. destruct H as [H|H].
    + left. apply in_tok_syms. exact H.
    + right. destruct (ap_prec p) as [t'|]; [|destruct H]. destruct H as [<-|[]]. reflexivity.
  - intros [x [p [Hx [Hp H]]]]. exists x. split; [exact Hx|]. apply in_flat_map. exists p.
    split; [exact Hp|]. apply in_or_app. destruct H as [H|H].
    + left. apply in_tok_syms. exact H.
    + right. rewrite H. left. reflexivity.
Qed.

Lemma in_rule_refs : forall ag x p n,
  In x (ag_rules ag) -> In p (ar_prods x) -> In (ARule n) (ap_syms p) -> In n (rule_refs ag).
Proof.
  intros ag x p n Hx Hp Hn. unfold rule_refs. apply in_flat_map. exists x. split; [exact Hx|].
  apply in_flat_map. exists p. split; [exact Hp|]. apply in_rule_syms. exact Hn.
Qed.

Lemma in_prec_uses : forall ag x p t,
  In x (ag_rules ag) -> In p (ar_prods x) -> ap_prec p = Some t -> In t (prec_uses ag).
Proof.
  intros ag x p t Hx Hp Ht. unfold prec_uses. apply in_flat_map. exists x. split; [exact Hx|].
  apply in_flat_map. exists p. split; [exact Hp|]. rewrite Ht. left. reflexivity.
Qed.

Lemma in_ag_tokens : forall ag t, In t (ag_tokens ag) -> exists ts, In (DToken ts) (ag_decls ag) /\ In t ts.
Proof.
  intros ag t H. unfold ag_tokens in H. apply in_flat_map in H. destruct H as [d [Hd H]].
  destruct d as [n|ts|k ts|t' v|ts|v|v|t0|nm t0|t0|ss|ts]; try destruct H. exists ts. split; assumption.
Qed.

Lemma in_ag_avoid : forall ag t, In t (ag_avoid ag) -> exists ts, In (DAvoid ts) (ag_decls ag) /\ In t ts.
Proof.
  intros ag t H. unfold ag_avoid in H. apply in_flat_map in H. destruct H as [d [Hd H]].
  destruct d as [n|ts|k ts|t' v|ts|v|v|t0|nm t0|t0|ss|ts]; try destruct H. exists ts. split; assumption.
Qed.

Lemma in_ag_implicit : forall ag t, In t (ag_implicit ag) -> exists ts, In (DImplicit ts) (ag_decls ag) /\ In t ts.
Proof.
  intros ag t H. unfold ag_implicit in H. apply in_flat_map in H. destruct H as [d [Hd H]].
  destruct d as [n|ts|k ts|t' v|ts|v|v|t0|nm t0|t0|ss|ts]; try destruct H. exists ts. split; assumption.
Qed.

Lemma in_ag_precs : forall ag t, In t (flat_map snd (ag_precs ag)) ->
  exists k ts, In (DPrec k ts) (ag_decls ag) /\ In t ts.
Proof.
  intros ag t H. apply in_flat_map in H. destruct H as [[k ts] [Hk H]]. cbn [snd] in H.
  unfold ag_precs in Hk. apply in_flat_map in Hk. destruct Hk as [d [Hd Hk]].
  destruct d as [n|ts'|k' ts'|t' v|ts'|v|v|t0|nm t0|t0|ss|ts']; try destruct Hk.
  - injection H0 as -> ->. exists k, ts. split; assumption.
  - destruct H0.
Qed.

(* ======================================================================== *)
(*  The theorem                                                               *)
(* ======================================================================== *)
Lemma validation_clean : validation_clean_stmt.
Proof.
  intros yk fa fp l ag Hag Hl.
  destruct Hag as [Hs1 [_ [_ [_ [_ [_ [Hne [Hst [Hrefs [Hprec [Hepp [_ [_ [_ [_ [_ [_ [_ [Heur Heut]]]]]]]]]]]]]]]]]]].
  destruct Hl as [_ [_ [_ [Hwr _]]]].
  unfold ast_of.
  assert (Hprog : forall a, complete_and_validate (programs_eff ag a) = complete_and_validate a).
  { intros a. unfold programs_eff. destruct (ag_programs ag); [apply validate_programs | reflexivity]. }
  rewrite Hprog. clear Hprog.
  set (A0 := decls_eff l 0 (decls_off l) 0 (ag_decls ag) ast_new).
  set (AT := actiont_of (gat_of l ag)).
  set (A := rules_eff fa fp l 0 (rules_off l ag) AT (ag_rules ag) A0).
  destruct (decls_eff_facts (ag_decls ag) l 0 (decls_off l) 0 ast_new) as [_ [D1 [D2 [D3 [D4 D5]]]]].
  fold A0 in D1, D2, D3, D4, D5. cbn [a_rules a_prods a_expect_unused a_epp a_start ast_new map app] in D1, D2, D3, D4, D5.
  pose proof (rstep_rules_eff fa fp l (ag_rules ag) 0 (rules_off l ag) AT A0) as [G [R1 [R2 [R3 R4]]]].
  fold A in G, R1, R2, R3, R4.
  (* names *)
  assert (HRN : forall n, In n (map ar_name (ag_rules ag)) -> has_rule A n = true).
  { intros n Hn. apply in_map_iff in Hn. destruct Hn as [x [<- Hx]]. apply rules_eff_has_rule. exact Hx. }
  assert (Htok0 : forall t, In t (ag_tokens ag) -> In t (a_tokens A0)).
  { intros t Ht. destruct (in_ag_tokens ag t Ht) as [ts [Hd Hi]].
    apply (decls_eff_reach (fun a => In t (a_tokens a)) (DToken ts)); [| |exact Hd].
    - intros a a' [Gi _] H. apply Gi, H.
    - intros dl off lvl a. apply decl_token_known. exact Hi. }
  assert (Havo0 : forall t, In t (ag_avoid ag) -> In t (a_tokens A0)).
  { intros t Ht. destruct (in_ag_avoid ag t Ht) as [ts [Hd Hi]].
    apply (decls_eff_reach (fun a => In t (a_tokens a)) (DAvoid ts)); [| |exact Hd].
    - intros a a' [Gi _] H. apply Gi, H.
    - intros dl off lvl a. apply decl_avoid_known. exact Hi. }
  assert (Himp0 : forall t, In t (ag_implicit ag) -> In t (a_tokens A0)).
  { intros t Ht. destruct (in_ag_implicit ag t Ht) as [ts [Hd Hi]].
    apply (decls_eff_reach (fun a => In t (a_tokens a)) (DImplicit ts)); [| |exact Hd].
    - intros a a' [Gi _] H. apply Gi, H.
    - intros dl off lvl a. apply decl_implicit_known. exact Hi. }
  assert (HPR : forall t, In t (flat_map snd (ag_precs ag)) -> assoc_get (a_precs A) t <> None).
  { intros t Ht. rewrite R1. destruct (in_ag_precs ag t Ht) as [k [ts [Hd Hi]]].
    apply (decls_eff_reach (fun a => assoc_get (a_precs a) t <> None) (DPrec k ts)); [| |exact Hd].
    - intros a a' [_ [_ Gp]] H. apply Gp, H.
    - intros dl off lvl a. apply decl_prec_known. exact Hi. }
  assert (Hk0 : knows (declared_b ag) A0).
  { intros n Hn. apply Htok0. apply mem_str_in. exact Hn. }
  assert (Hrt : forall x p t, In x (ag_rules ag) -> In p (ar_prods x) -> atoks p t -> has_token A t = true).
  { intros x p t Hx Hp Ht. apply has_token_iff.
    apply (rules_eff_toks (declared_b ag) fa fp l (ag_rules ag) 0 _ AT A0 x p t Hwr Hk0 Hx Hp Ht). }
  assert (HTK : forall t, In t (known_toks ag) -> has_token A t = true).
  { intros t Ht. unfold known_toks in Ht. apply in_app_or in Ht. destruct Ht as [Ht|Ht].
    - apply has_token_iff. apply G. apply Htok0. exact Ht.
    - apply in_app_or in Ht. destruct Ht as [Ht|Ht]; [|apply in_app_or in Ht; destruct Ht as [Ht|Ht]].
      + apply has_token_iff. apply G. apply Havo0. exact Ht.
      + apply has_token_iff. apply G. apply Himp0. exact Ht.
      + apply in_rule_tok_names in Ht. destruct Ht as [x [p [Hx [Hp Ht]]]]. exact (Hrt x p t Hx Hp Ht). }
  (* productions *)
  assert (HP : pinv (fun n => has_rule A n = true) (fun n => has_token A n = true)
                    (fun n => assoc_get (a_precs A) n <> None) A).
  { apply pinv_rules_eff.
    - unfold pinv, pidx_ok. rewrite D1, D2. split; constructor.
    - intros x p Hx Hp. split; [|split].
      + intros n Hn. apply HRN, Hrefs. eapply in_rule_refs; eassumption.
      + intros n Hn. apply (Hrt x p n Hx Hp). left. exact Hn.
      + intros t Ht. split.
        * apply (Hrt x p t Hx Hp). right. exact Ht.
        * apply HPR, Hprec. eapply in_prec_uses; eassumption. }
  destruct HP as [HP1 HP2].
  (* the start rule *)
  assert (HS : exists s sp, a_start A = Some (s, sp) /\ has_rule A s = true).
  { destruct (rules_eff_start fa fp l (ag_rules ag) 0 (rules_off l ag) AT A0 Hne) as [S1 S2]. fold A in S1, S2.
    destruct D5 as [D5|[n [sp [Hi D5]]]].
    - destruct (S2 D5) as [x [sp [Hx Hs]]]. exists (ar_name x), sp. split; [exact Hs|].
      apply HRN. apply in_map. exact Hx.
    - exists n, sp. split; [apply S1; exact D5|]. apply HRN, Hst.
      unfold ag_start. apply start_unique; [exact Hs1 | exact Hi]. }
  destruct HS as [s [sp [HS1 HS2]]].
  unfold complete_and_validate. rewrite HS1, HS2. cbn [negb].
  rewrite (validate_rules_ok A (a_rules A) HP1).
  - cbn [obind]. rewrite first_unknown_epp_ok.
    + rewrite validate_expect_unused_ok; [reflexivity|].
      intros s0 Hs0. rewrite R3 in Hs0. apply (in_map erase_sym) in Hs0. rewrite D3 in Hs0.
      destruct s0 as [n0 sp0|n0 sp0]; cbn [erase_sym] in Hs0.
      * apply HRN, Heur. exact Hs0.
      * apply HTK, Heut. exact Hs0.
    + intros k Hk. apply HTK, Hepp. rewrite R2 in Hk. rewrite D4 in Hk. exact Hk.
  - eapply Forall_impl; [|exact HP2]. intros p Hp. apply validate_prod_ok. exact Hp.
Qed.
