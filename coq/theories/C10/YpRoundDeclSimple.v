(* C10 half (b), round trip — one iteration of parse_declarations' loop for the
   four loop-free directives: %start, %expect, %expect-rr, %epp. *)
From Coq Require Import List Arith NArith ZArith Bool Lia.
From GV Require Import Common.Outcome C10.YpModel C10.YpSpec C10.YpProofs C10.YpPrint C10.YpRoundSpec C10.YpRoundBase.
Import ListNotations.
Local Open Scope nat_scope.

Lemma pct_item_start : forall r, item_start (37%N :: r).
Proof. intros r. reflexivity. Qed.

(* ---- %start ---------------------------------------------------------------- *)
Lemma pf_pp_start : forall r, prefix_of kw_pp (kw_start ++ r) = false. Proof. reflexivity. Qed.
Lemma pf_token_start : forall r, prefix_of kw_token (kw_start ++ r) = false. Proof. reflexivity. Qed.
Lemma pf_actiontype_start : forall r, prefix_of kw_actiontype (kw_start ++ r) = false. Proof. reflexivity. Qed.

Lemma decl_step_start : forall k nm, decl_step_for k (DStart nm).
Proof.
  intros k nm src pre dl rest i f n a g e lvl Hs Hi Hwf Hk Hpre.
  cbn [print_decl] in Hs. cbn [wf_decl] in Hwf. destruct Hwf as [[Hl0 Hn0] [Hname Hl1]].
  cbn [decl_pre] in Hpre.
  assert (Hs0 : src = pre ++ (kw_start ++ (dg dl 0 ++ nm ++ dg dl 1 ++ 37%N :: rest))) by (rewrite Hs; lsolve).
  cbn [decl_loop is_prec].
  rewrite (lt_len_at _ _ _ _ _ Hs0 Hi). cbn [negb].
  rewrite (look_at _ _ _ _ _ _ Hs0 Hi), pf_pp_start. cbn [sbind is_some ret lift lifto].
  rewrite (look_at _ _ _ _ _ _ Hs0 Hi), pf_token_start. cbn [sbind is_some ret lift lifto].
  rewrite (look_actiontype_skip k _ _ _ _ _ Hs0 Hi (pf_actiontype_start _)). cbn [sbind is_some ret lift lifto].
  rewrite (look_at _ _ _ _ _ _ Hs0 Hi), prefix_of_self. cbn [sbind is_some ret lift lifto].
  unfold decl_start.
  assert (Hs1 : src = (pre ++ kw_start) ++ dg dl 0 ++ (nm ++ dg dl 1 ++ 37%N :: rest)) by (rewrite Hs; lsolve).
  assert (Hi1 : i + byte_len kw_start = byte_len (pre ++ kw_start)) by (subst i; blen).
  assert (Hr1 : item_start (nm ++ dg dl 1 ++ 37%N :: rest)).
  { destruct nm as [|c nm']; [discriminate Hname|]. cbn [is_name] in Hname. apply andb_true_iff in Hname.
    apply item_start_cons. apply name_start_first_ok. tauto. }
  rewrite (ws_gap _ _ _ _ _ _ _ _ _ false Hs1 Hi1 Hl0 Hr1) by (intros _; exact Hn0).
  cbn [sbind].
  assert (Hns : not_starting name_cont (dg dl 1 ++ 37%N :: rest)).
  { apply not_starting_gap; [exact name_cont_first_ok | exact Hl1 | reflexivity]. }
  destruct (parse_name_roundtrip ((pre ++ kw_start) ++ dg dl 0) nm (dg dl 1 ++ 37%N :: rest) Hname Hns) as [Hpn _].
  cbn zeta in Hpn.
  assert (Hs2 : src = ((pre ++ kw_start) ++ dg dl 0) ++ nm ++ dg dl 1 ++ 37%N :: rest) by (rewrite Hs; lsolve).
  assert (Hi2 : i + byte_len kw_start + byte_len (dg dl 0) = byte_len ((pre ++ kw_start) ++ dg dl 0)) by (subst i; blen).
  rewrite <- Hs2, <- Hi2 in Hpn. rewrite Hpn. cbn [lift sbind].
  rewrite mk_span_le by lia. cbn [lifto sbind ast]. rewrite Hpre. cbn [ret sbind]. stn.
  assert (Hs3 : src = (((pre ++ kw_start) ++ dg dl 0) ++ nm) ++ dg dl 1 ++ 37%N :: rest) by (rewrite Hs; lsolve).
  assert (Hi3 : i + byte_len kw_start + byte_len (dg dl 0) + byte_len nm = byte_len (((pre ++ kw_start) ++ dg dl 0) ++ nm)) by (subst i; blen).
  rewrite (ws_gap _ _ _ _ _ _ _ _ _ true Hs3 Hi3 Hl1 (pct_item_start rest)) by (intros HH; discriminate HH).
  cbn [sbind]. eexists. unfold decl_eff. cbn [print_decl]. rewrite !byte_len_app. feq.
Qed.

(* ---- %expect --------------------------------------------------------------- *)
Lemma pf_pp_expect : forall r, prefix_of kw_pp (kw_expect ++ r) = false. Proof. reflexivity. Qed.
Lemma pf_token_expect : forall r, prefix_of kw_token (kw_expect ++ r) = false. Proof. reflexivity. Qed.
Lemma pf_actiontype_expect : forall r, prefix_of kw_actiontype (kw_expect ++ r) = false. Proof. reflexivity. Qed.
Lemma pf_start_expect : forall r, prefix_of kw_start (kw_expect ++ r) = false. Proof. reflexivity. Qed.
Lemma pf_epp_expect : forall r, prefix_of kw_epp (kw_expect ++ r) = false. Proof. reflexivity. Qed.

Definition is_dash (c : N) : bool := (45 =? c)%N.
Lemma dash_first_ok : forall c, is_dash c = true -> first_ok c = true.
Proof. intros c H. unfold is_dash in H. apply N.eqb_eq in H. subst c. reflexivity. Qed.
Lemma digit_not_dash : forall c, is_digit c = true -> is_dash c = false.
Proof.
  intros c H. unfold is_dash. apply N.eqb_neq. intros E. subst c. discriminate H.
Qed.
Lemma pf_rr_expect : forall r, not_starting is_dash r -> prefix_of kw_expect_rr (kw_expect ++ r) = false.
Proof.
  intros [|c r] H; [reflexivity|]. cbn [not_starting] in H. unfold is_dash in H.
  unfold kw_expect_rr, kw_expect. cbn [app prefix_of]. rewrite H. reflexivity.
Qed.
Lemma pf_unused_expect : forall r, not_starting is_dash r -> prefix_of kw_expect_unused (kw_expect ++ r) = false.
Proof.
  intros [|c r] H; [reflexivity|]. cbn [not_starting] in H. unfold is_dash in H.
  unfold kw_expect_unused, kw_expect. cbn [app prefix_of]. rewrite H. reflexivity.
Qed.

(* what a numeral looks like from outside *)
Lemma numeral_facts : forall ds v tail, wf_numeral ds v -> 
  ds <> [] /\ forallb is_digit ds = true /\ parse_usize ds = Some v
  /\ item_start (ds ++ tail) /\ not_starting is_dash (ds ++ tail).
Proof.
  intros ds v tail [Hne [Hd [Hv Hm]]]. repeat split; try assumption.
  - subst v. apply parse_usize_value; assumption.
  - destruct ds as [|c ds']; [congruence|]. cbn [forallb] in Hd. apply andb_true_iff in Hd.
    apply item_start_cons. apply digit_first_ok. tauto.
  - destruct ds as [|c ds']; [congruence|]. cbn [forallb] in Hd. apply andb_true_iff in Hd.
    cbn [app not_starting]. apply digit_not_dash. tauto.
Qed.

Lemma decl_step_expect : forall k v, decl_step_for k (DExpect v).
Proof.
  intros k v src pre dl rest i f n a g e lvl Hs Hi Hwf Hk Hpre.
  cbn [print_decl] in Hs. cbn [wf_decl] in Hwf. destruct Hwf as [[Hl0 Hn0] [Hnum Hl1]].
  cbn [decl_pre] in Hpre.
  destruct (numeral_facts _ _ (dg dl 1 ++ 37%N :: rest) Hnum) as [Hne [Hd [Hpu [Hr1 Hnd]]]].
  assert (Hs0 : src = pre ++ (kw_expect ++ (dg dl 0 ++ d_txt dl ++ dg dl 1 ++ 37%N :: rest))) by (rewrite Hs; lsolve).
  assert (Hdash : not_starting is_dash (dg dl 0 ++ d_txt dl ++ dg dl 1 ++ 37%N :: rest)).
  { apply not_starting_gap; [exact dash_first_ok | exact Hl0 | exact Hnd]. }
  cbn [decl_loop is_prec].
  rewrite (lt_len_at _ _ _ _ _ Hs0 Hi). cbn [negb].
  rewrite (look_at _ _ _ _ _ _ Hs0 Hi), pf_pp_expect. cbn [sbind is_some ret lift lifto].
  rewrite (look_at _ _ _ _ _ _ Hs0 Hi), pf_token_expect. cbn [sbind is_some ret lift lifto].
  rewrite (look_actiontype_skip k _ _ _ _ _ Hs0 Hi (pf_actiontype_expect _)). cbn [sbind is_some ret lift lifto].
  rewrite (look_at _ _ _ _ _ _ Hs0 Hi), pf_start_expect. cbn [sbind is_some ret lift lifto].
  rewrite (look_at _ _ _ _ _ _ Hs0 Hi), pf_epp_expect. cbn [sbind is_some ret lift lifto].
  rewrite (look_at _ _ _ _ _ _ Hs0 Hi), (pf_rr_expect _ Hdash). cbn [sbind is_some ret lift lifto].
  rewrite (look_at _ _ _ _ _ _ Hs0 Hi), (pf_unused_expect _ Hdash). cbn [sbind is_some ret lift lifto].
  rewrite (look_at _ _ _ _ _ _ Hs0 Hi), prefix_of_self. cbn [sbind is_some ret lift lifto].
  unfold decl_expect.
  assert (Hs1 : src = (pre ++ kw_expect) ++ dg dl 0 ++ (d_txt dl ++ dg dl 1 ++ 37%N :: rest)) by (rewrite Hs; lsolve).
  assert (Hi1 : i + byte_len kw_expect = byte_len (pre ++ kw_expect)) by (subst i; blen).
  rewrite (ws_gap _ _ _ _ _ _ _ _ _ false Hs1 Hi1 Hl0 Hr1) by (intros _; exact Hn0).
  cbn [sbind].
  assert (Hns : not_starting is_digit (dg dl 1 ++ 37%N :: rest)).
  { apply not_starting_gap; [exact digit_first_ok | exact Hl1 | reflexivity]. }
  destruct (parse_int_roundtrip ((pre ++ kw_expect) ++ dg dl 0) (d_txt dl) (dg dl 1 ++ 37%N :: rest) v Hne Hd Hpu Hns) as [Hpn _].
  cbn zeta in Hpn.
  assert (Hs2 : src = ((pre ++ kw_expect) ++ dg dl 0) ++ d_txt dl ++ dg dl 1 ++ 37%N :: rest) by (rewrite Hs; lsolve).
  assert (Hi2 : i + byte_len kw_expect + byte_len (dg dl 0) = byte_len ((pre ++ kw_expect) ++ dg dl 0)) by (subst i; blen).
  rewrite <- Hs2, <- Hi2 in Hpn. rewrite Hpn. cbn [lift sbind].
  rewrite mk_span_le by lia. cbn [lifto sbind ast]. rewrite Hpre. cbn [ret sbind]. stn.
  assert (Hs3 : src = (((pre ++ kw_expect) ++ dg dl 0) ++ d_txt dl) ++ dg dl 1 ++ 37%N :: rest) by (rewrite Hs; lsolve).
  assert (Hi3 : i + byte_len kw_expect + byte_len (dg dl 0) + byte_len (d_txt dl) = byte_len (((pre ++ kw_expect) ++ dg dl 0) ++ d_txt dl)) by (subst i; blen).
  rewrite (ws_gap _ _ _ _ _ _ _ _ _ true Hs3 Hi3 Hl1 (pct_item_start rest)) by (intros HH; discriminate HH).
  cbn [sbind]. eexists. unfold decl_eff. cbn [print_decl]. rewrite !byte_len_app. feq.
Qed.

(* ---- %expect-rr ------------------------------------------------------------ *)
Lemma pf_pp_rr : forall r, prefix_of kw_pp (kw_expect_rr ++ r) = false. Proof. reflexivity. Qed.
Lemma pf_token_rr : forall r, prefix_of kw_token (kw_expect_rr ++ r) = false. Proof. reflexivity. Qed.
Lemma pf_actiontype_rr : forall r, prefix_of kw_actiontype (kw_expect_rr ++ r) = false. Proof. reflexivity. Qed.
Lemma pf_start_rr : forall r, prefix_of kw_start (kw_expect_rr ++ r) = false. Proof. reflexivity. Qed.
Lemma pf_epp_rr : forall r, prefix_of kw_epp (kw_expect_rr ++ r) = false. Proof. reflexivity. Qed.

Lemma decl_step_expectrr : forall k v, decl_step_for k (DExpectRR v).
Proof.
  intros k v src pre dl rest i f n a g e lvl Hs Hi Hwf Hk Hpre.
  cbn [print_decl] in Hs. cbn [wf_decl] in Hwf. destruct Hwf as [[Hl0 Hn0] [Hnum Hl1]].
  cbn [decl_pre] in Hpre.
  destruct (numeral_facts _ _ (dg dl 1 ++ 37%N :: rest) Hnum) as [Hne [Hd [Hpu [Hr1 _]]]].
  assert (Hs0 : src = pre ++ (kw_expect_rr ++ (dg dl 0 ++ d_txt dl ++ dg dl 1 ++ 37%N :: rest))) by (rewrite Hs; lsolve).
  cbn [decl_loop is_prec].
  rewrite (lt_len_at _ _ _ _ _ Hs0 Hi). cbn [negb].
  rewrite (look_at _ _ _ _ _ _ Hs0 Hi), pf_pp_rr. cbn [sbind is_some ret lift lifto].
  rewrite (look_at _ _ _ _ _ _ Hs0 Hi), pf_token_rr. cbn [sbind is_some ret lift lifto].
  rewrite (look_actiontype_skip k _ _ _ _ _ Hs0 Hi (pf_actiontype_rr _)). cbn [sbind is_some ret lift lifto].
  rewrite (look_at _ _ _ _ _ _ Hs0 Hi), pf_start_rr. cbn [sbind is_some ret lift lifto].
  rewrite (look_at _ _ _ _ _ _ Hs0 Hi), pf_epp_rr. cbn [sbind is_some ret lift lifto].
  rewrite (look_at _ _ _ _ _ _ Hs0 Hi), prefix_of_self. cbn [sbind is_some ret lift lifto].
  unfold decl_expectrr.
  assert (Hs1 : src = (pre ++ kw_expect_rr) ++ dg dl 0 ++ (d_txt dl ++ dg dl 1 ++ 37%N :: rest)) by (rewrite Hs; lsolve).
  assert (Hi1 : i + byte_len kw_expect_rr = byte_len (pre ++ kw_expect_rr)) by (subst i; blen).
  rewrite (ws_gap _ _ _ _ _ _ _ _ _ false Hs1 Hi1 Hl0 Hr1) by (intros _; exact Hn0).
  cbn [sbind].
  assert (Hns : not_starting is_digit (dg dl 1 ++ 37%N :: rest)).
  { apply not_starting_gap; [exact digit_first_ok | exact Hl1 | reflexivity]. }
  destruct (parse_int_roundtrip ((pre ++ kw_expect_rr) ++ dg dl 0) (d_txt dl) (dg dl 1 ++ 37%N :: rest) v Hne Hd Hpu Hns) as [Hpn _].
  cbn zeta in Hpn.
  assert (Hs2 : src = ((pre ++ kw_expect_rr) ++ dg dl 0) ++ d_txt dl ++ dg dl 1 ++ 37%N :: rest) by (rewrite Hs; lsolve).
  assert (Hi2 : i + byte_len kw_expect_rr + byte_len (dg dl 0) = byte_len ((pre ++ kw_expect_rr) ++ dg dl 0)) by (subst i; blen).
  rewrite <- Hs2, <- Hi2 in Hpn. rewrite Hpn. cbn [lift sbind].
  rewrite mk_span_le by lia. cbn [lifto sbind ast]. rewrite Hpre. cbn [ret sbind]. stn.
  assert (Hs3 : src = (((pre ++ kw_expect_rr) ++ dg dl 0) ++ d_txt dl) ++ dg dl 1 ++ 37%N :: rest) by (rewrite Hs; lsolve).
  assert (Hi3 : i + byte_len kw_expect_rr + byte_len (dg dl 0) + byte_len (d_txt dl) = byte_len (((pre ++ kw_expect_rr) ++ dg dl 0) ++ d_txt dl)) by (subst i; blen).
  rewrite (ws_gap _ _ _ _ _ _ _ _ _ true Hs3 Hi3 Hl1 (pct_item_start rest)) by (intros HH; discriminate HH).
  cbn [sbind]. eexists. unfold decl_eff. cbn [print_decl]. rewrite !byte_len_app. feq.
Qed.

(* ---- %epp ------------------------------------------------------------------ *)
Lemma pf_pp_epp : forall r, prefix_of kw_pp (kw_epp ++ r) = false. Proof. reflexivity. Qed.
Lemma pf_token_epp : forall r, prefix_of kw_token (kw_epp ++ r) = false. Proof. reflexivity. Qed.
Lemma pf_actiontype_epp : forall r, prefix_of kw_actiontype (kw_epp ++ r) = false. Proof. reflexivity. Qed.
Lemma pf_start_epp : forall r, prefix_of kw_start (kw_epp ++ r) = false. Proof. reflexivity. Qed.

Lemma len_qchar : forall q, len_utf8 (qchar q) = 1.
Proof. intros [| |]; reflexivity. Qed.
Lemma qchar_item_start : forall q r, item_start (qchar q :: r).
Proof. intros [| |] r; reflexivity. Qed.
Lemma qchar_not_tok_cont : forall q, tok_cont (qchar q) = false.
Proof. intros [| |]; reflexivity. Qed.

Lemma decl_step_epp : forall k t v, decl_step_for k (DEpp t v).
Proof.
  intros k t v src pre dl rest i f n a g e lvl Hs Hi Hwf Hk Hpre.
  cbn [print_decl] in Hs. cbn [wf_decl] in Hwf.
  destruct Hwf as [[Hl0 Hn0] [Hq [[Hl1 Hn1] [Hsq [Hesc Hl2]]]]].
  cbn [decl_pre] in Hpre.
  set (q := qchar (d_sq dl)) in *.
  set (tk := print_tok (dq dl 0) t) in *.
  assert (Hs0 : src = pre ++ (kw_epp ++ (dg dl 0 ++ tk ++ dg dl 1 ++ q :: d_txt dl ++ q :: dg dl 2 ++ 37%N :: rest))) by (rewrite Hs; lsolve).
  cbn [decl_loop is_prec].
  rewrite (lt_len_at _ _ _ _ _ Hs0 Hi). cbn [negb].
  rewrite (look_at _ _ _ _ _ _ Hs0 Hi), pf_pp_epp. cbn [sbind is_some ret lift lifto].
  rewrite (look_at _ _ _ _ _ _ Hs0 Hi), pf_token_epp. cbn [sbind is_some ret lift lifto].
  rewrite (look_actiontype_skip k _ _ _ _ _ Hs0 Hi (pf_actiontype_epp _)). cbn [sbind is_some ret lift lifto].
  rewrite (look_at _ _ _ _ _ _ Hs0 Hi), pf_start_epp. cbn [sbind is_some ret lift lifto].
  rewrite (look_at _ _ _ _ _ _ Hs0 Hi), prefix_of_self. cbn [sbind is_some ret lift lifto].
  unfold decl_epp.
  (* gap after the keyword *)
  assert (Hs1 : src = (pre ++ kw_epp) ++ dg dl 0 ++ (tk ++ dg dl 1 ++ q :: d_txt dl ++ q :: dg dl 2 ++ 37%N :: rest)) by (rewrite Hs; lsolve).
  assert (Hi1 : i + byte_len kw_epp = byte_len (pre ++ kw_epp)) by (subst i; blen).
  rewrite (ws_gap _ _ _ _ _ _ _ _ _ false Hs1 Hi1 Hl0 (print_tok_item_start _ _ _ Hq)) by (intros _; exact Hn0).
  cbn [sbind].
  (* the key *)
  assert (Hs2 : src = ((pre ++ kw_epp) ++ dg dl 0) ++ tk ++ (dg dl 1 ++ q :: d_txt dl ++ q :: dg dl 2 ++ 37%N :: rest)) by (rewrite Hs; lsolve).
  assert (Hi2 : i + byte_len kw_epp + byte_len (dg dl 0) = byte_len ((pre ++ kw_epp) ++ dg dl 0)) by (subst i; blen).
  assert (Hf : tok_follow (dq dl 0) (dg dl 1 ++ q :: d_txt dl ++ q :: dg dl 2 ++ 37%N :: rest)).
  { destruct (dq dl 0); cbn [tok_follow]; try exact I.
    apply not_starting_gap; [exact tok_cont_first_ok | exact Hl1 | apply qchar_not_tok_cont]. }
  rewrite (parse_token_at _ _ _ _ _ _ Hs2 Hi2 Hq Hf). fold tk. cbn [lift sbind].
  rewrite mk_span_le by lia. cbn [lifto sbind].
  (* gap after the key *)
  assert (Hs3 : src = (((pre ++ kw_epp) ++ dg dl 0) ++ tk) ++ dg dl 1 ++ (q :: d_txt dl ++ q :: dg dl 2 ++ 37%N :: rest)) by (rewrite Hs; lsolve).
  assert (Hi3 : i + byte_len kw_epp + byte_len (dg dl 0) + byte_len tk = byte_len (((pre ++ kw_epp) ++ dg dl 0) ++ tk)) by (subst i; blen).
  rewrite (ws_gap _ _ _ _ _ _ _ _ _ false Hs3 Hi3 Hl1 (qchar_item_start _ _)) by (intros _; exact Hn1).
  cbn [sbind].
  (* the value *)
  pose proof (parse_string_roundtrip ((((pre ++ kw_epp) ++ dg dl 0) ++ tk) ++ dg dl 1) q v (d_txt dl) (dg dl 2 ++ 37%N :: rest) (qchar_cases _) Hesc) as Hps.
  cbn zeta in Hps.
  assert (Hs4 : src = ((((pre ++ kw_epp) ++ dg dl 0) ++ tk) ++ dg dl 1) ++ q :: d_txt dl ++ q :: dg dl 2 ++ 37%N :: rest) by (rewrite Hs; lsolve).
  assert (Hi4 : i + byte_len kw_epp + byte_len (dg dl 0) + byte_len tk + byte_len (dg dl 1) = byte_len ((((pre ++ kw_epp) ++ dg dl 0) ++ tk) ++ dg dl 1)) by (subst i; blen).
  rewrite <- Hs4, <- Hi4 in Hps. rewrite Hps. cbn [lift sbind].
  rewrite mk_span_le by lia. cbn [lifto sbind ast]. rewrite Hpre. cbn [ret sbind]. stn.
  (* gap after the value *)
  assert (Hs5 : src = (((((pre ++ kw_epp) ++ dg dl 0) ++ tk) ++ dg dl 1) ++ q :: d_txt dl ++ [q]) ++ dg dl 2 ++ 37%N :: rest) by (rewrite Hs; lsolve).
  assert (Hi5 : i + byte_len kw_epp + byte_len (dg dl 0) + byte_len tk + byte_len (dg dl 1) + byte_len (d_txt dl) + 2
                = byte_len (((((pre ++ kw_epp) ++ dg dl 0) ++ tk) ++ dg dl 1) ++ q :: d_txt dl ++ [q])).
  { subst i. rewrite ?byte_len_app. cbn [byte_len]. rewrite ?byte_len_app. cbn [byte_len]. unfold q. rewrite len_qchar. lia. }
  rewrite (ws_gap _ _ _ _ _ _ _ _ _ true Hs5 Hi5 Hl2 (pct_item_start rest)) by (intros HH; discriminate HH).
  cbn [sbind]. eexists. unfold decl_eff. cbn [print_decl]. fold q tk.
  rewrite ?byte_len_app. cbn [byte_len]. rewrite ?byte_len_app. cbn [byte_len]. unfold q. rewrite len_qchar. feq.
Qed.
