(* C10 half (b), round trip: the statements/lemmas that Properties/C10round.v re-exports *)
From GV Require Export Common.Outcome C10.YpModel C10.YpSpec C10.YpPrint C10.YpRoundSpec C10.YpRoundSpansSpec
  C10.YpRoundAction C10.YpRoundLex C10.YpRoundDeclSimple C10.YpRoundDeclToken C10.YpRoundDeclLines
  C10.YpRoundDeclEol C10.YpRoundDeclEu C10.YpRoundDeclImplicit C10.YpRoundDeclInv
  C10.YpRoundValid C10.YpRoundFaithful C10.YpRoundSpans C10.YpRoundExample C10.YpRound C10.YpRoundPspan C10.YpRoundFindings.
