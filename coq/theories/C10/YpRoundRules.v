(* C10 half (b), round trip — the rules section: one lemma per item kind of
   parse_rule's loop (one iteration each), then productions, rule blocks and the
   whole section. *)
From Coq Require Import List Arith NArith ZArith Bool Lia.
From GV Require Import Common.Outcome C10.YpModel C10.YpSpec C10.YpProofs C10.YpPrint C10.YpRoundSpec C10.YpRoundBase C10.YpRoundInv.
Import ListNotations.
Local Open Scope nat_scope.

Definition sym_cls (a : gast) (pl : play) (k : nat) (s : asym) : Prop :=
  match s with
  | ARule n => is_declared a n = false
  | ATok n => match pq_sym pl k with QBare => is_declared a n = true | _ => True end
  end.


Lemma rl_step_sym : forall fa src pre pl k s rest i f n a g e rn syms prec act pstart pend,
  src = pre ++ print_sym pl k s ++ pg_sym pl k ++ rest -> i = byte_len pre ->
  is_qname (sym_q pl k s) (sym_name s) ->
  tok_follow (sym_q pl k s) (pg_sym pl k ++ rest) ->
  layout_text (pg_sym pl k) -> item_start rest -> sym_cls a pl k s ->
  rule_loop true fa src (byte_len src) (fuel_for src) (S f) (mkSt n a g e) rn i syms prec act pstart pend
  = rule_loop true fa src (byte_len src) (fuel_for src) f
      (mkSt (n + count_nl (pg_sym pl k))
            (match sym_q pl k s with QBare => a | _ => tokens_insert a (sym_name s) (sym_span_at pl k i s) end) g e)
      rn (sym_next pl k i s) (syms ++ [sym_at pl k i s]) prec act pstart (Some (i + byte_len (print_sym pl k s))).
Proof.
  intros fa src pre pl k s rest i f n a g e rn syms prec act pstart pend Hs Hi Hq Hf Hl Hr Hc.
  unfold print_sym in *.
  destruct (print_tok_hd _ _ Hq) as [c [t [Et Hc0]]].
  assert (Hs0 : src = pre ++ c :: (t ++ pg_sym pl k ++ rest)) by (rewrite Hs, Et; lsolve).
  cbn [rule_loop].
  rewrite (lt_len_at _ _ _ _ _ Hs0 Hi). cbn [negb].
  pose proof (parse_token_at _ _ _ _ _ _ Hs Hi Hq Hf) as Hpt.
  assert (Hs1 : src = (pre ++ print_tok (sym_q pl k s) (sym_name s)) ++ pg_sym pl k ++ rest) by (rewrite Hs; lsolve).
  assert (Hi1 : i + byte_len (print_tok (sym_q pl k s) (sym_name s)) = byte_len (pre ++ print_tok (sym_q pl k s) (sym_name s))) by (subst i; blen).
  assert (Hs2 : src = ((pre ++ print_tok (sym_q pl k s) (sym_name s)) ++ pg_sym pl k) ++ rest) by (rewrite Hs; lsolve).
  assert (Hi2 : i + byte_len (print_tok (sym_q pl k s) (sym_name s)) + byte_len (pg_sym pl k) = byte_len ((pre ++ print_tok (sym_q pl k s) (sym_name s)) ++ pg_sym pl k)) by (subst i; blen).
  destruct (sym_q pl k s) eqn:Eq.
  - (* bare *)
    pose proof (tok_start_hd c Hc0) as Hh.
    do 7 look1 Hs0 Hi.
    rewrite Hpt. cbn [lift sbind].
    rewrite (ws_gap _ _ _ _ _ _ _ _ _ true Hs1 Hi1 Hl Hr) by (intros HH; discriminate HH).
    cbn [sbind ast].
    unfold sym_next, sym_at, sym_span_at, print_sym. rewrite Eq.
    replace (match get_index_of (a_tokens a) (sym_name s) with
             | Some idx => false || existsb (Nat.eqb idx) (a_token_directives a)
             | None => false end) with (is_declared a (sym_name s)) by reflexivity.
    destruct s as [nm|nm]; cbn [sym_cls sym_name sym_q] in *.
    + rewrite Hc. reflexivity.
    + rewrite Eq in Hc. rewrite Hc. reflexivity.
  - (* single quotes *)
    cbn [qchar] in Hc0. subst c.
    do 2 look1 Hs0 Hi. look1 Hs0 Hi.
    rewrite (look_at _ _ _ _ _ _ Hs0 Hi). change (prefix_of kw_sq (c_sq :: t ++ pg_sym pl k ++ rest)) with true.
    cbn [sbind is_some ret].
    rewrite Hpt. cbn [lift sbind].
    rewrite (ws_gap _ _ _ _ _ _ _ _ _ true Hs1 Hi1 Hl Hr) by (intros HH; discriminate HH).
    cbn [sbind]; unfold set_ast; cbn [ast nn gat errs].
    rewrite (ws_none _ _ _ _ _ _ _ _ true Hs2 Hi2 Hr).
    cbn [sbind].
    unfold sym_next, sym_at, sym_span_at, print_sym. rewrite Eq.
    destruct s as [nm|nm]; cbn [sym_q] in Eq; [discriminate Eq|]. cbn [sym_name]. reflexivity.
  - cbn [qchar] in Hc0. subst c.
    do 2 look1 Hs0 Hi.
    rewrite (look_at _ _ _ _ _ _ Hs0 Hi). change (prefix_of kw_dq (c_dq :: t ++ pg_sym pl k ++ rest)) with true.
    cbn [sbind is_some ret].
    rewrite Hpt. cbn [lift sbind].
    rewrite (ws_gap _ _ _ _ _ _ _ _ _ true Hs1 Hi1 Hl Hr) by (intros HH; discriminate HH).
    cbn [sbind]; unfold set_ast; cbn [ast nn gat errs].
    rewrite (ws_none _ _ _ _ _ _ _ _ true Hs2 Hi2 Hr).
    cbn [sbind].
    unfold sym_next, sym_at, sym_span_at, print_sym. rewrite Eq.
    destruct s as [nm|nm]; cbn [sym_q] in Eq; [discriminate Eq|]. cbn [sym_name]. reflexivity.
Qed.

(* ---- %prec token ------------------------------------------------------------ *)
Lemma kw_prec_len : byte_len kw_prec = 5. Proof. reflexivity. Qed.
Lemma kw_empty_len : byte_len kw_empty = 6. Proof. reflexivity. Qed.

Lemma rl_step_prec : forall fa src pre pl t rest i f n a g e rn syms prec act pstart pend,
  src = pre ++ kw_prec ++ pg_prec1 pl ++ print_tok (pq_prec pl) t ++ pg_prec2 pl ++ rest -> i = byte_len pre ->
  is_qname (pq_prec pl) t -> tok_follow (pq_prec pl) (pg_prec2 pl ++ rest) ->
  layout_text (pg_prec1 pl) -> layout_text (pg_prec2 pl) -> item_start rest ->
  rule_loop true fa src (byte_len src) (fuel_for src) (S f) (mkSt n a g e) rn i syms prec act pstart pend
  = rule_loop true fa src (byte_len src) (fuel_for src) f
      (mkSt (n + count_nl (pg_prec1 pl) + count_nl (pg_prec2 pl))
            (tokens_insert a t (tok_span (pq_prec pl) (i + 5 + byte_len (pg_prec1 pl)) t)) g e)
      rn (i + 5 + byte_len (pg_prec1 pl) + byte_len (print_tok (pq_prec pl) t) + byte_len (pg_prec2 pl))
      syms (Some t) act pstart
      (Some (i + 5 + byte_len (pg_prec1 pl) + byte_len (print_tok (pq_prec pl) t))).
Proof.
  intros fa src pre pl t rest i f n a g e rn syms prec act pstart pend Hs Hi Hq Hf Hl1 Hl2 Hr.
  set (tk := print_tok (pq_prec pl) t) in *.
  assert (Hs0 : src = pre ++ 37%N :: ([112; 114; 101; 99]%N ++ pg_prec1 pl ++ tk ++ pg_prec2 pl ++ rest))
    by (rewrite Hs; reflexivity).
  cbn [rule_loop].
  rewrite (lt_len_at _ _ _ _ _ Hs0 Hi). cbn [negb].
  do 4 look1 Hs0 Hi.
  assert (Hs0' : src = pre ++ kw_prec ++ (pg_prec1 pl ++ tk ++ pg_prec2 pl ++ rest)) by exact Hs.
  look1 Hs0' Hi. rewrite kw_prec_len.
  assert (Hs1 : src = (pre ++ kw_prec) ++ pg_prec1 pl ++ (tk ++ pg_prec2 pl ++ rest)) by (rewrite Hs; lsolve).
  assert (Hi1 : i + 5 = byte_len (pre ++ kw_prec)) by (subst i; rewrite byte_len_app, kw_prec_len; reflexivity).
  rewrite (ws_gap _ _ _ _ _ _ _ _ _ true Hs1 Hi1 Hl1 (print_tok_item_start _ _ _ Hq)) by (intros HH; discriminate HH).
  cbn [sbind].
  assert (Hs2 : src = ((pre ++ kw_prec) ++ pg_prec1 pl) ++ tk ++ (pg_prec2 pl ++ rest)) by (rewrite Hs; lsolve).
  assert (Hi2 : i + 5 + byte_len (pg_prec1 pl) = byte_len ((pre ++ kw_prec) ++ pg_prec1 pl))
    by (subst i; rewrite !byte_len_app, kw_prec_len; reflexivity).
  rewrite (parse_token_at _ _ _ _ _ _ Hs2 Hi2 Hq Hf). cbn [lift sbind]. stn.
  assert (Hs3 : src = (((pre ++ kw_prec) ++ pg_prec1 pl) ++ tk) ++ pg_prec2 pl ++ rest) by (rewrite Hs; lsolve).
  assert (Hi3 : i + 5 + byte_len (pg_prec1 pl) + byte_len tk = byte_len (((pre ++ kw_prec) ++ pg_prec1 pl) ++ tk))
    by (subst i; rewrite !byte_len_app, kw_prec_len; reflexivity).
  rewrite (ws_gap _ _ _ _ _ _ _ _ _ true Hs3 Hi3 Hl2 Hr) by (intros HH; discriminate HH).
  cbn [sbind]. reflexivity.
Qed.

(* ---- %empty ------------------------------------------------------------------- *)
(* what may follow %empty (and its gap): a terminator, an action or %prec *)
Definition empty_follow (rest : str) : Prop :=
  exists r, rest = c_bar :: r \/ rest = c_semi :: r \/ rest = c_lbrace :: r \/ rest = kw_prec ++ r.

Lemma empty_follow_item_start : forall rest, empty_follow rest -> item_start rest.
Proof. intros rest [r [H|[H|[H|H]]]]; subst rest; reflexivity. Qed.

Lemma rl_step_empty : forall fa src pre pl rest i f n a g e rn prec act pstart pend,
  src = pre ++ kw_empty ++ pg_empty pl ++ rest -> i = byte_len pre ->
  layout_text (pg_empty pl) -> empty_follow rest ->
  rule_loop true fa src (byte_len src) (fuel_for src) (S f) (mkSt n a g e) rn i [] prec act pstart pend
  = rule_loop true fa src (byte_len src) (fuel_for src) f
      (mkSt (n + count_nl (pg_empty pl)) a g e)
      rn (i + 6 + byte_len (pg_empty pl)) [] prec act pstart (Some (i + 6)).
Proof.
  intros fa src pre pl rest i f n a g e rn prec act pstart pend Hs Hi Hl Hfo.
  pose proof (empty_follow_item_start _ Hfo) as Hr.
  assert (Hs0 : src = pre ++ 37%N :: ([101; 109; 112; 116; 121]%N ++ pg_empty pl ++ rest))
    by (rewrite Hs; reflexivity).
  cbn [rule_loop].
  rewrite (lt_len_at _ _ _ _ _ Hs0 Hi). cbn [negb].
  do 4 look1 Hs0 Hi.
  rewrite (look_at _ _ _ _ _ _ Hs0 Hi).
  change (prefix_of kw_prec (37%N :: [101; 109; 112; 116; 121]%N ++ pg_empty pl ++ rest)) with false.
  cbn [sbind is_some ret].
  look1 Hs0 Hi.
  assert (Hs0' : src = pre ++ kw_empty ++ (pg_empty pl ++ rest)) by exact Hs.
  look1 Hs0' Hi. rewrite kw_empty_len.
  assert (Hs1 : src = (pre ++ kw_empty) ++ pg_empty pl ++ rest) by (rewrite Hs; lsolve).
  assert (Hi1 : i + 6 = byte_len (pre ++ kw_empty)) by (subst i; rewrite byte_len_app, kw_empty_len; reflexivity).
  rewrite (ws_gap _ _ _ _ _ _ _ _ _ true Hs1 Hi1 Hl Hr) by (intros HH; discriminate HH).
  cbn [sbind].
  assert (Hs2 : src = ((pre ++ kw_empty) ++ pg_empty pl) ++ rest) by (rewrite Hs; lsolve).
  assert (Hi2 : i + 6 + byte_len (pg_empty pl) = byte_len ((pre ++ kw_empty) ++ pg_empty pl))
    by (subst i; rewrite !byte_len_app, kw_empty_len; reflexivity).
  assert (Hla : forall st,
    (bind st7, t1 <- look src st kw_bar (i + 6 + byte_len (pg_empty pl));
     bind st8, t2 <- (if is_some t1 then ret st7 t1 else look src st7 kw_semi (i + 6 + byte_len (pg_empty pl)));
     bind st9, t3 <- (if is_some t2 then ret st8 t2 else look src st8 kw_lbrace (i + 6 + byte_len (pg_empty pl)));
     bind st10, t4 <- (if is_some t3 then ret st9 t3 else look src st9 kw_prec (i + 6 + byte_len (pg_empty pl)));
     ret st10 (is_some t4)) = Done (st, Ok true)).
  { intros st. destruct Hfo as [r [H|[H|[H|H]]]]; subst rest.
    - look1 Hs2 Hi2. reflexivity.
    - do 2 look1 Hs2 Hi2. reflexivity.
    - do 3 look1 Hs2 Hi2. reflexivity.
    - assert (Hs2' : src = ((pre ++ kw_empty) ++ pg_empty pl) ++ 37%N :: ([112; 114; 101; 99]%N ++ r))
        by (rewrite Hs2; reflexivity).
      do 3 look1 Hs2' Hi2. look1 Hs2 Hi2. reflexivity. }
  destruct Hfo as [r [H|[H|[H|H]]]]; subst rest.
  - look1 Hs2 Hi2. cbn [negb orb].
    rewrite (ws_none _ _ _ _ _ _ _ _ true Hs2 Hi2 Hr). cbn [sbind]. reflexivity.
  - do 2 look1 Hs2 Hi2. cbn [negb orb].
    rewrite (ws_none _ _ _ _ _ _ _ _ true Hs2 Hi2 Hr). cbn [sbind]. reflexivity.
  - do 3 look1 Hs2 Hi2. cbn [negb orb].
    rewrite (ws_none _ _ _ _ _ _ _ _ true Hs2 Hi2 Hr). cbn [sbind]. reflexivity.
  - assert (Hs2' : src = ((pre ++ kw_empty) ++ pg_empty pl) ++ 37%N :: ([112; 114; 101; 99]%N ++ r))
      by (rewrite Hs2; reflexivity).
    do 3 look1 Hs2' Hi2. look1 Hs2 Hi2. cbn [negb orb].
    rewrite (ws_none _ _ _ _ _ _ _ _ true Hs2 Hi2 Hr). cbn [sbind]. reflexivity.
Qed.
