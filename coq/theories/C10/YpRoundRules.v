(* C10 half (b), round trip — the rules section: one lemma per item kind of
   parse_rule's loop (one iteration each), then productions, rule blocks and the
   whole section. *)
From Coq Require Import List Arith NArith ZArith Bool Lia.
From GV Require Import Common.Outcome C10.YpModel C10.YpSpec C10.YpProofs C10.YpPrint C10.YpRoundSpec C10.YpRoundBase C10.YpRoundInv C10.YpRoundAction C10.YpRoundLex.
Import ListNotations.
Local Open Scope nat_scope.

Definition sym_cls (a : gast) (pl : play) (k : nat) (s : asym) : Prop :=
  match s with
  | ARule n => is_declared a n = false
  | ATok n => match pq_sym pl k with QBare => is_declared a n = true | _ => True end
  end.


Lemma rl_step_sym : forall fa fp src pre pl k s rest i f n a g e rn syms prec act pstart pend,
  src = pre ++ print_sym pl k s ++ pg_sym pl k ++ rest -> i = byte_len pre ->
  is_qname (sym_q pl k s) (sym_name s) ->
  tok_follow (sym_q pl k s) (pg_sym pl k ++ rest) ->
  layout_text (pg_sym pl k) -> item_start rest -> sym_cls a pl k s ->
  rule_loop true fa fp src (byte_len src) (fuel_for src) (S f) (mkSt n a g e) rn i syms prec act pstart pend
  = rule_loop true fa fp src (byte_len src) (fuel_for src) f
      (mkSt (n + count_nl (pg_sym pl k))
            (match sym_q pl k s with QBare => a | _ => tokens_insert a (sym_name s) (sym_span_at pl k i s) end) g e)
      rn (sym_next pl k i s) (syms ++ [sym_at pl k i s]) prec act pstart (Some (i + byte_len (print_sym pl k s))).
Proof.
  intros fa fp src pre pl k s rest i f n a g e rn syms prec act pstart pend Hs Hi Hq Hf Hl Hr Hc.
  unfold print_sym in *.
  destruct (print_tok_hd _ _ Hq) as [c [t [Et Hc0]]].
  assert (Hs0 : src = pre ++ c :: (t ++ pg_sym pl k ++ rest)) by (rewrite Hs, Et; lsolve).
  cbn [rule_loop].
  rewrite (lt_len_at _ _ _ _ _ Hs0 Hi). cbn [negb].
  pose proof (parse_token_at _ _ _ _ _ _ Hs Hi Hq Hf) as Hpt.
  assert (Hs1 : src = (pre ++ print_tok (sym_q pl k s) (sym_name s)) ++ pg_sym pl k ++ rest) by (rewrite Hs; lsolve).
  assert (Hi1 : i + byte_len (print_tok (sym_q pl k s) (sym_name s)) = byte_len (pre ++ print_tok (sym_q pl k s) (sym_name s))) by (subst i; blen).
  assert (Hs2 : src = ((pre ++ print_tok (sym_q pl k s) (sym_name s)) ++ pg_sym pl k) ++ rest) by (rewrite Hs; lsolve).
  assert (Hi2 : i + byte_len (print_tok (sym_q pl k s) (sym_name s)) + byte_len (pg_sym pl k) = byte_len ((pre ++ print_tok (sym_q pl k s) (sym_name s)) ++ pg_sym pl k)) by (subst i; blen).
  destruct (sym_q pl k s) eqn:Eq.
  - (* bare *)
    pose proof (tok_start_hd c Hc0) as Hh.
    do 7 look1 Hs0 Hi.
    rewrite Hpt. cbn [lift sbind].
    rewrite (ws_gap _ _ _ _ _ _ _ _ _ true Hs1 Hi1 Hl Hr) by (intros HH; discriminate HH).
    cbn [sbind ast].
    unfold sym_next, sym_at, sym_span_at, print_sym. rewrite Eq.
    replace (match get_index_of (a_tokens a) (sym_name s) with
             | Some idx => false || existsb (Nat.eqb idx) (a_token_directives a)
             | None => false end) with (is_declared a (sym_name s)) by reflexivity.
    destruct s as [nm|nm]; cbn [sym_cls sym_name sym_q] in *.
    + rewrite Hc. reflexivity.
    + rewrite Eq in Hc. rewrite Hc. reflexivity.
  - (* single quotes *)
    cbn [qchar] in Hc0. subst c.
    do 2 look1 Hs0 Hi. look1 Hs0 Hi.
    rewrite (look_at _ _ _ _ _ _ Hs0 Hi). change (prefix_of kw_sq (c_sq :: t ++ pg_sym pl k ++ rest)) with true.
    cbn [sbind is_some ret].
    rewrite Hpt. cbn [lift sbind].
    rewrite (ws_gap _ _ _ _ _ _ _ _ _ true Hs1 Hi1 Hl Hr) by (intros HH; discriminate HH).
    cbn [sbind]; unfold set_ast; cbn [ast nn gat errs].
    rewrite (ws_none _ _ _ _ _ _ _ _ true Hs2 Hi2 Hr).
    cbn [sbind].
    unfold sym_next, sym_at, sym_span_at, print_sym. rewrite Eq.
    destruct s as [nm|nm]; cbn [sym_q] in Eq; [discriminate Eq|]. cbn [sym_name]. reflexivity.
  - cbn [qchar] in Hc0. subst c.
    do 2 look1 Hs0 Hi.
    rewrite (look_at _ _ _ _ _ _ Hs0 Hi). change (prefix_of kw_dq (c_dq :: t ++ pg_sym pl k ++ rest)) with true.
    cbn [sbind is_some ret].
    rewrite Hpt. cbn [lift sbind].
    rewrite (ws_gap _ _ _ _ _ _ _ _ _ true Hs1 Hi1 Hl Hr) by (intros HH; discriminate HH).
    cbn [sbind]; unfold set_ast; cbn [ast nn gat errs].
    rewrite (ws_none _ _ _ _ _ _ _ _ true Hs2 Hi2 Hr).
    cbn [sbind].
    unfold sym_next, sym_at, sym_span_at, print_sym. rewrite Eq.
    destruct s as [nm|nm]; cbn [sym_q] in Eq; [discriminate Eq|]. cbn [sym_name]. reflexivity.
Qed.

(* ---- %prec token ------------------------------------------------------------ *)
Lemma kw_prec_len : byte_len kw_prec = 5. Proof. reflexivity. Qed.
Lemma kw_empty_len : byte_len kw_empty = 6. Proof. reflexivity. Qed.

Lemma rl_step_prec : forall fa fp src pre pl t rest i f n a g e rn syms prec act pstart pend,
  src = pre ++ kw_prec ++ pg_prec1 pl ++ print_tok (pq_prec pl) t ++ pg_prec2 pl ++ rest -> i = byte_len pre ->
  is_qname (pq_prec pl) t -> tok_follow (pq_prec pl) (pg_prec2 pl ++ rest) ->
  layout_text (pg_prec1 pl) -> layout_text (pg_prec2 pl) -> item_start rest ->
  rule_loop true fa fp src (byte_len src) (fuel_for src) (S f) (mkSt n a g e) rn i syms prec act pstart pend
  = rule_loop true fa fp src (byte_len src) (fuel_for src) f
      (mkSt (n + count_nl (pg_prec1 pl) + count_nl (pg_prec2 pl))
            (tokens_insert a t (tok_span (pq_prec pl) (i + 5 + byte_len (pg_prec1 pl)) t)) g e)
      rn (i + 5 + byte_len (pg_prec1 pl) + byte_len (print_tok (pq_prec pl) t) + byte_len (pg_prec2 pl))
      syms (Some t) act pstart
      (Some (i + 5 + byte_len (pg_prec1 pl) + byte_len (print_tok (pq_prec pl) t))).
Proof.
  intros fa fp src pre pl t rest i f n a g e rn syms prec act pstart pend Hs Hi Hq Hf Hl1 Hl2 Hr.
  set (tk := print_tok (pq_prec pl) t) in *.
  assert (Hs0 : src = pre ++ 37%N :: ([112; 114; 101; 99]%N ++ pg_prec1 pl ++ tk ++ pg_prec2 pl ++ rest))
    by (rewrite Hs; reflexivity).
  cbn [rule_loop].
  rewrite (lt_len_at _ _ _ _ _ Hs0 Hi). cbn [negb].
  do 4 look1 Hs0 Hi.
  assert (Hs0' : src = pre ++ kw_prec ++ (pg_prec1 pl ++ tk ++ pg_prec2 pl ++ rest)) by exact Hs.
  look1 Hs0' Hi. rewrite kw_prec_len.
  assert (Hs1 : src = (pre ++ kw_prec) ++ pg_prec1 pl ++ (tk ++ pg_prec2 pl ++ rest)) by (rewrite Hs; lsolve).
  assert (Hi1 : i + 5 = byte_len (pre ++ kw_prec)) by (subst i; rewrite byte_len_app, kw_prec_len; reflexivity).
  rewrite (ws_gap _ _ _ _ _ _ _ _ _ true Hs1 Hi1 Hl1 (print_tok_item_start _ _ _ Hq)) by (intros HH; discriminate HH).
  cbn [sbind].
  assert (Hs2 : src = ((pre ++ kw_prec) ++ pg_prec1 pl) ++ tk ++ (pg_prec2 pl ++ rest)) by (rewrite Hs; lsolve).
  assert (Hi2 : i + 5 + byte_len (pg_prec1 pl) = byte_len ((pre ++ kw_prec) ++ pg_prec1 pl))
    by (subst i; rewrite !byte_len_app, kw_prec_len; reflexivity).
  rewrite (parse_token_at _ _ _ _ _ _ Hs2 Hi2 Hq Hf). cbn [lift sbind]. stn.
  assert (Hs3 : src = (((pre ++ kw_prec) ++ pg_prec1 pl) ++ tk) ++ pg_prec2 pl ++ rest) by (rewrite Hs; lsolve).
  assert (Hi3 : i + 5 + byte_len (pg_prec1 pl) + byte_len tk = byte_len (((pre ++ kw_prec) ++ pg_prec1 pl) ++ tk))
    by (subst i; rewrite !byte_len_app, kw_prec_len; reflexivity).
  rewrite (ws_gap _ _ _ _ _ _ _ _ _ true Hs3 Hi3 Hl2 Hr) by (intros HH; discriminate HH).
  cbn [sbind]. reflexivity.
Qed.

(* ---- %empty ------------------------------------------------------------------- *)
(* what may follow %empty (and its gap): a terminator, an action or %prec *)
Definition empty_follow (rest : str) : Prop :=
  exists r, rest = c_bar :: r \/ rest = c_semi :: r \/ rest = c_lbrace :: r \/ rest = kw_prec ++ r.

Lemma empty_follow_item_start : forall rest, empty_follow rest -> item_start rest.
Proof. intros rest [r [H|[H|[H|H]]]]; subst rest; reflexivity. Qed.

Lemma rl_step_empty : forall fa fp src pre pl rest i f n a g e rn prec act pstart pend,
  src = pre ++ kw_empty ++ pg_empty pl ++ rest -> i = byte_len pre ->
  layout_text (pg_empty pl) -> empty_follow rest ->
  rule_loop true fa fp src (byte_len src) (fuel_for src) (S f) (mkSt n a g e) rn i [] prec act pstart pend
  = rule_loop true fa fp src (byte_len src) (fuel_for src) f
      (mkSt (n + count_nl (pg_empty pl)) a g e)
      rn (i + 6 + byte_len (pg_empty pl)) [] prec act pstart (Some (i + 6)).
Proof.
  intros fa fp src pre pl rest i f n a g e rn prec act pstart pend Hs Hi Hl Hfo.
  pose proof (empty_follow_item_start _ Hfo) as Hr.
  assert (Hs0 : src = pre ++ 37%N :: ([101; 109; 112; 116; 121]%N ++ pg_empty pl ++ rest))
    by (rewrite Hs; reflexivity).
  cbn [rule_loop].
  rewrite (lt_len_at _ _ _ _ _ Hs0 Hi). cbn [negb].
  do 4 look1 Hs0 Hi.
  rewrite (look_at _ _ _ _ _ _ Hs0 Hi).
  change (prefix_of kw_prec (37%N :: [101; 109; 112; 116; 121]%N ++ pg_empty pl ++ rest)) with false.
  cbn [sbind is_some ret].
  look1 Hs0 Hi.
  assert (Hs0' : src = pre ++ kw_empty ++ (pg_empty pl ++ rest)) by exact Hs.
  look1 Hs0' Hi. rewrite kw_empty_len.
  assert (Hs1 : src = (pre ++ kw_empty) ++ pg_empty pl ++ rest) by (rewrite Hs; lsolve).
  assert (Hi1 : i + 6 = byte_len (pre ++ kw_empty)) by (subst i; rewrite byte_len_app, kw_empty_len; reflexivity).
  rewrite (ws_gap _ _ _ _ _ _ _ _ _ true Hs1 Hi1 Hl Hr) by (intros HH; discriminate HH).
  cbn [sbind].
  assert (Hs2 : src = ((pre ++ kw_empty) ++ pg_empty pl) ++ rest) by (rewrite Hs; lsolve).
  assert (Hi2 : i + 6 + byte_len (pg_empty pl) = byte_len ((pre ++ kw_empty) ++ pg_empty pl))
    by (subst i; rewrite !byte_len_app, kw_empty_len; reflexivity).
  destruct Hfo as [r [H|[H|[H|H]]]]; subst rest.
  - look1 Hs2 Hi2. cbn [negb orb].
    rewrite (ws_none _ _ _ _ _ _ _ _ true Hs2 Hi2 Hr). cbn [sbind]. reflexivity.
  - do 2 look1 Hs2 Hi2. cbn [negb orb].
    rewrite (ws_none _ _ _ _ _ _ _ _ true Hs2 Hi2 Hr). cbn [sbind]. reflexivity.
  - do 3 look1 Hs2 Hi2. cbn [negb orb].
    rewrite (ws_none _ _ _ _ _ _ _ _ true Hs2 Hi2 Hr). cbn [sbind]. reflexivity.
  - assert (Hs2' : src = ((pre ++ kw_empty) ++ pg_empty pl) ++ 37%N :: ([112; 114; 101; 99]%N ++ r))
      by (rewrite Hs2; reflexivity).
    do 3 look1 Hs2' Hi2. look1 Hs2 Hi2. cbn [negb orb].
    rewrite (ws_none _ _ _ _ _ _ _ _ true Hs2 Hi2 Hr). cbn [sbind]. reflexivity.
Qed.

(* ---- terminators ---------------------------------------------------------------- *)
Definition pend_or (pend : option nat) (i : nat) : nat := match pend with Some e => e | None => i end.

Lemma add_prod_st_ok : forall n a g e rn syms prec act pstart pend i,
  has_rule a rn = true -> pstart <= pend_or pend i ->
  add_prod_st (mkSt n a g e) rn syms prec act pstart pend i
  = Done (mkSt n (add_prod_t a rn syms prec act (pstart, pend_or pend i)) g e, Ok tt).
Proof.
  intros n a g e rn syms prec act pstart pend i Hr Hle. unfold add_prod_st.
  fold (pend_or pend i). rewrite mk_span_le by exact Hle. cbn [lifto sbind ast].
  rewrite add_prod_done by exact Hr. cbn [lifto sbind]. stn. reflexivity.
Qed.

Lemma rl_step_bar : forall fa fp src pre gt rest i f n a g e rn syms prec act pstart pend,
  src = pre ++ c_bar :: gt ++ rest -> i = byte_len pre ->
  layout_text gt -> item_start rest ->
  has_rule a rn = true -> pstart <= pend_or pend i ->
  rule_loop true fa fp src (byte_len src) (fuel_for src) (S f) (mkSt n a g e) rn i syms prec act pstart pend
  = rule_loop true fa fp src (byte_len src) (fuel_for src) f
      (mkSt (n + count_nl gt) (add_prod_t a rn syms prec act (pstart, pend_or pend i)) g e)
      rn (i + 1 + byte_len gt) [] None None (i + 1 + byte_len gt) None.
Proof.
  intros fa fp src pre gt rest i f n a g e rn syms prec act pstart pend Hs Hi Hl Hr Hru Hle.
  cbn [rule_loop].
  rewrite (lt_len_at _ _ _ _ _ Hs Hi). cbn [negb].
  look1 Hs Hi.
  rewrite add_prod_st_ok by assumption. cbn [sbind].
  assert (Hs1 : src = (pre ++ [c_bar]) ++ gt ++ rest) by (rewrite Hs; lsolve).
  assert (Hi1 : i + byte_len kw_bar = byte_len (pre ++ [c_bar])) by (subst i; rewrite byte_len_app; reflexivity).
  rewrite (ws_gap _ _ _ _ _ _ _ _ _ true Hs1 Hi1 Hl Hr) by (intros HH; discriminate HH).
  cbn [sbind]. change (byte_len kw_bar) with 1. reflexivity.
Qed.

Lemma rl_step_semi : forall fa fp src pre rest i f n a g e rn syms prec act pstart pend,
  src = pre ++ c_semi :: rest -> i = byte_len pre ->
  has_rule a rn = true -> pstart <= pend_or pend i ->
  rule_loop true fa fp src (byte_len src) (fuel_for src) (S f) (mkSt n a g e) rn i syms prec act pstart pend
  = Done (mkSt n (add_prod_t a rn syms prec act (pstart, pend_or pend i)) g e, Ok (i + 1)).
Proof.
  intros fa fp src pre rest i f n a g e rn syms prec act pstart pend Hs Hi Hru Hle.
  cbn [rule_loop].
  rewrite (lt_len_at _ _ _ _ _ Hs Hi). cbn [negb].
  do 2 look1 Hs Hi.
  rewrite add_prod_st_ok by assumption. cbn [sbind ret]. reflexivity.
Qed.

(* ---- actions ---------------------------------------------------------------------- *)
(* an action is followed (after its gap) by a terminator *)
Definition term_start (rest : str) : Prop := exists r, rest = c_bar :: r \/ rest = c_semi :: r.
Lemma term_item_start : forall rest, term_start rest -> item_start rest.
Proof. intros rest [r [H|H]]; subst rest; reflexivity. Qed.

Lemma rl_step_action : forall fa fp src pre pl t rest i f n a g e rn syms prec act pstart pend,
  src = pre ++ c_lbrace :: (p_pad1 pl ++ t ++ p_pad2 pl) ++ c_rbrace :: pg_act pl ++ rest -> i = byte_len pre ->
  wf_action t -> wf_pad (p_pad1 pl) -> wf_pad (p_pad2 pl) -> layout_text (pg_act pl) -> term_start rest ->
  exists n',
  rule_loop true fa fp src (byte_len src) (fuel_for src) (S f) (mkSt n a g e) rn i syms prec act pstart pend
  = rule_loop true fa fp src (byte_len src) (fuel_for src) f (mkSt n' a g e)
      rn (i + 1 + byte_len (p_pad1 pl ++ t ++ p_pad2 pl) + 1 + byte_len (pg_act pl))
      syms prec (Some (t, act_span fa pl i t)) pstart (brace_pend fp pend i).
Proof.
  intros fa fp src pre pl t rest i f n a g e rn syms prec act pstart pend Hs Hi Ha Hp1 Hp2 Hl Ht.
  pose proof (term_item_start _ Ht) as Hr.
  set (body := p_pad1 pl ++ t ++ p_pad2 pl) in *.
  eexists.
  cbn [rule_loop].
  rewrite (lt_len_at _ _ _ _ _ Hs Hi). cbn [negb].
  do 6 look1 Hs Hi.
  cbn [nn].
  rewrite (parse_action_roundtrip _ _ _ _ _ _ _ n Hs Hi Ha Hp1 Hp2).
  cbn [lift_nn sbind]. stn.
  assert (Hs1 : src = ((pre ++ [c_lbrace]) ++ body ++ [c_rbrace]) ++ pg_act pl ++ rest) by (rewrite Hs; lsolve).
  assert (Hi1 : i + 1 + byte_len body + 1 = byte_len ((pre ++ [c_lbrace]) ++ body ++ [c_rbrace]))
    by (subst i; rewrite !byte_len_app; cbn [byte_len]; change (len_utf8 c_lbrace) with 1;
        change (len_utf8 c_rbrace) with 1; lia).
  rewrite (ws_gap _ _ _ _ _ _ _ _ _ true Hs1 Hi1 Hl Hr) by (intros HH; discriminate HH).
  cbn [sbind].
  rewrite (action_span_roundtrip fa _ _ _ _ _ _ Hs Hi Ha Hp1 Hp2). cbn [lifto sbind].
  assert (Hs2 : src = (((pre ++ [c_lbrace]) ++ body ++ [c_rbrace]) ++ pg_act pl) ++ rest) by (rewrite Hs; lsolve).
  assert (Hi2 : i + 1 + byte_len body + 1 + byte_len (pg_act pl)
                = byte_len (((pre ++ [c_lbrace]) ++ body ++ [c_rbrace]) ++ pg_act pl))
    by (rewrite Hi1; rewrite (byte_len_app _ (pg_act pl)); reflexivity).
  destruct Ht as [r [H|H]]; subst rest.
  - look1 Hs2 Hi2. cbn [negb].
    rewrite (ws_none _ _ _ _ _ _ _ _ true Hs2 Hi2 Hr). cbn [sbind]. reflexivity.
  - do 2 look1 Hs2 Hi2. cbn [negb].
    rewrite (ws_none _ _ _ _ _ _ _ _ true Hs2 Hi2 Hr). cbn [sbind]. reflexivity.
Qed.

(* ======================================================================== *)
(*  A run of symbols                                                         *)
(* ======================================================================== *)
Lemma wf_sym_cls : forall D pl k s a, wf_sym D pl k s -> tok_inv D a -> sym_cls a pl k s.
Proof.
  intros D pl k s a [_ H] [_ Hd]. destruct s as [nm|nm]; cbn [sym_cls].
  - rewrite Hd. exact H.
  - destruct (pq_sym pl k); [rewrite Hd; exact H | exact I ..].
Qed.

Lemma quote_not_tok_cont : forall q, q <> QBare -> tok_cont (qchar q) = false.
Proof. intros [| |] H; [congruence | reflexivity ..]. Qed.

Lemma print_syms_item_start : forall D pl ss k rest,
  wf_syms D pl k ss -> item_start rest -> item_start (print_syms pl k ss ++ rest).
Proof.
  intros D pl [|s ss] k rest Hw Hr; [exact Hr|]. cbn [print_syms wf_syms] in *.
  destruct Hw as [[Hq _] _]. unfold print_sym. rewrite <- app_assoc. apply print_tok_item_start. exact Hq.
Qed.

(* what follows symbol k of a run *)
Lemma syms_follow : forall D pl k s ss rest,
  wf_syms D pl k (s :: ss) -> not_starting tok_cont rest ->
  tok_follow (sym_q pl k s) (pg_sym pl k ++ print_syms pl (S k) ss ++ rest).
Proof.
  intros D pl k s ss rest Hw Hr. cbn [wf_syms] in Hw. destruct Hw as [_ [Hl [Hsep Hw']]].
  destruct (sym_q pl k s) eqn:Eq; cbn [tok_follow]; try exact I.
  destruct (pg_sym pl k) as [|c gp] eqn:Eg.
  - cbn [app]. destruct ss as [|s' ss']; [exact Hr|].
    specialize (Hsep eq_refl eq_refl). cbn [print_syms wf_syms] in *.
    destruct Hw' as [[Hq' _] _]. unfold print_sym.
    destruct (print_tok_hd _ _ Hq') as [c' [t' [E' Hc']]]. rewrite E'. cbn [app not_starting].
    destruct (sym_q pl (S k) s'); [congruence | subst c'; reflexivity ..].
  - apply not_starting_layout; [exact tok_cont_first_ok | exact Hl | discriminate].
Qed.

Lemma rl_syms : forall fa fp D pl ss k src pre rest i f n a g e rn syms prec act pstart pend,
  src = pre ++ print_syms pl k ss ++ rest -> i = byte_len pre ->
  wf_syms D pl k ss -> tok_inv D a ->
  item_start rest -> not_starting tok_cont rest ->
  exists n',
  rule_loop true fa fp src (byte_len src) (fuel_for src) (List.length ss + f) (mkSt n a g e) rn i syms prec act pstart pend
  = rule_loop true fa fp src (byte_len src) (fuel_for src) f (mkSt n' (syms_ins pl k i ss a) g e) rn
      (i + byte_len (print_syms pl k ss)) (syms ++ syms_out pl k i ss) prec act pstart (syms_pend pl k i ss pend).
Proof.
  intros fa fp D pl ss. induction ss as [|s ss IH];
    intros k src pre rest i f n a g e rn syms prec act pstart pend Hs Hi Hw Hinv Hr Hnt.
  - exists n. cbn [List.length Nat.add print_syms byte_len syms_ins syms_out syms_pend].
    rewrite Nat.add_0_r, app_nil_r. reflexivity.
  - cbn [List.length Nat.add print_syms syms_ins syms_out syms_pend].
    pose proof Hw as Hw0. cbn [wf_syms] in Hw. destruct Hw as [Hws [Hl [_ Hw']]].
    assert (Hs1 : src = pre ++ print_sym pl k s ++ pg_sym pl k ++ (print_syms pl (S k) ss ++ rest))
      by (rewrite Hs; cbn [print_syms]; lsolve).
    rewrite (rl_step_sym fa fp _ _ _ _ _ _ _ _ n a g e rn syms prec act pstart pend Hs1 Hi
               (proj1 Hws) (syms_follow _ _ _ _ _ _ Hw0 Hnt) Hl
               (print_syms_item_start _ _ _ _ _ Hw' Hr) (wf_sym_cls _ _ _ _ _ Hws Hinv)).
    assert (Hs2 : src = (pre ++ print_sym pl k s ++ pg_sym pl k) ++ print_syms pl (S k) ss ++ rest)
      by (rewrite Hs; cbn [print_syms]; lsolve).
    assert (Hi2 : sym_next pl k i s = byte_len (pre ++ print_sym pl k s ++ pg_sym pl k))
      by (unfold sym_next; subst i; rewrite !byte_len_app; lia).
    assert (Hinv' : tok_inv D (match sym_q pl k s with
                               | QBare => a
                               | _ => tokens_insert a (sym_name s) (sym_span_at pl k i s)
                               end))
      by (destruct (sym_q pl k s); [exact Hinv | apply tok_inv_tokens_insert; exact Hinv ..]).
    destruct (IH (S k) src _ rest _ f (n + count_nl (pg_sym pl k)) _ g e rn (syms ++ [sym_at pl k i s])
                 prec act pstart (Some (i + byte_len (print_sym pl k s))) Hs2 Hi2 Hw' Hinv' Hr Hnt) as [n' Hn'].
    exists n'. rewrite Hn'. rewrite <- app_assoc. cbn [app].
    f_equal. unfold sym_next. rewrite !byte_len_app. lia.
Qed.

(* ======================================================================== *)
(*  One production (up to its terminator)                                    *)
(* ======================================================================== *)
(* text that starts with '%', '{', '|' or ';' *)
Definition punct_start (r : str) : Prop :=
  exists c r', r = c :: r' /\ (c = 37%N \/ c = c_lbrace \/ c = c_bar \/ c = c_semi).

Lemma punct_item_start : forall r, punct_start r -> item_start r.
Proof. intros r [c [r' [E [H|[H|[H|H]]]]]]; subst r c; reflexivity. Qed.
Lemma punct_not_tok_cont : forall r, punct_start r -> not_starting tok_cont r.
Proof. intros r [c [r' [E [H|[H|[H|H]]]]]]; subst r c; reflexivity. Qed.
Lemma term_punct : forall r, term_start r -> punct_start r.
Proof. intros r [r' [H|H]]; subst r; eexists _, _; split; [reflexivity | tauto | reflexivity | tauto]. Qed.

Lemma action_punct : forall pl p rest, term_start rest -> punct_start (print_action pl p ++ rest).
Proof.
  intros pl p rest Ht. unfold print_action. destruct (ap_action p).
  - eexists _, _. split; [reflexivity | tauto].
  - apply term_punct. exact Ht.
Qed.
Lemma prec_punct : forall pl p rest, term_start rest -> punct_start (print_prec pl p ++ print_action pl p ++ rest).
Proof.
  intros pl p rest Ht. unfold print_prec. destruct (ap_prec p).
  - eexists _, _. split; [reflexivity | tauto].
  - apply action_punct. exact Ht.
Qed.

Lemma stage_empty : forall fa fp src pre (b : bool) pl rest i f n a g e rn prec act pstart pend,
  src = pre ++ (if b then kw_empty ++ pg_empty pl else []) ++ rest -> i = byte_len pre ->
  layout_text (pg_empty pl) -> (b = true -> empty_follow rest) ->
  exists n',
  rule_loop true fa fp src (byte_len src) (fuel_for src) ((if b then 1 else 0) + f) (mkSt n a g e) rn i [] prec act pstart pend
  = rule_loop true fa fp src (byte_len src) (fuel_for src) f (mkSt n' a g e) rn
      (i + byte_len (if b then kw_empty ++ pg_empty pl else [])) [] prec act pstart
      (if b then Some (i + byte_len kw_empty) else pend).
Proof.
  intros fa fp src pre b pl rest i f n a g e rn prec act pstart pend Hs Hi Hl Hf. destruct b.
  - eexists. cbn [Nat.add]. rewrite <- app_assoc in Hs.
    rewrite (rl_step_empty fa fp _ _ _ _ _ _ n a g e rn prec act pstart pend Hs Hi Hl (Hf eq_refl)).
    rewrite byte_len_app, kw_empty_len. rewrite Nat.add_assoc. reflexivity.
  - exists n. cbn [Nat.add byte_len]. rewrite Nat.add_0_r. reflexivity.
Qed.

Lemma stage_prec : forall fa fp src pre pl (o : option str) rest i f n a g e rn syms act pstart pend,
  src = pre ++ (match o with Some t => kw_prec ++ pg_prec1 pl ++ print_tok (pq_prec pl) t ++ pg_prec2 pl | None => [] end)
            ++ rest -> i = byte_len pre ->
  match o with
  | Some t => is_qname (pq_prec pl) t /\ layout_text (pg_prec1 pl) /\ layout_text (pg_prec2 pl)
  | None => True
  end ->
  item_start rest -> not_starting tok_cont rest ->
  exists n',
  rule_loop true fa fp src (byte_len src) (fuel_for src) ((match o with Some _ => 1 | None => 0 end) + f)
            (mkSt n a g e) rn i syms None act pstart pend
  = rule_loop true fa fp src (byte_len src) (fuel_for src) f
      (mkSt n' (match o with
                | Some t => tokens_insert a t (tok_span (pq_prec pl) (i + byte_len kw_prec + byte_len (pg_prec1 pl)) t)
                | None => a
                end) g e) rn
      (i + byte_len (match o with Some t => kw_prec ++ pg_prec1 pl ++ print_tok (pq_prec pl) t ++ pg_prec2 pl | None => [] end))
      syms o act pstart
      (match o with
       | Some t => Some (i + byte_len kw_prec + byte_len (pg_prec1 pl) + byte_len (print_tok (pq_prec pl) t))
       | None => pend
       end).
Proof.
  intros fa fp src pre pl o rest i f n a g e rn syms act pstart pend Hs Hi Hw Hr Hnt. destruct o as [t|].
  - destruct Hw as [Hq [Hl1 Hl2]]. eexists. cbn [Nat.add].
    assert (Hs' : src = pre ++ kw_prec ++ pg_prec1 pl ++ print_tok (pq_prec pl) t ++ pg_prec2 pl ++ rest)
      by (rewrite Hs; lsolve).
    assert (Hf : tok_follow (pq_prec pl) (pg_prec2 pl ++ rest)).
    { destruct (pq_prec pl); cbn [tok_follow]; try exact I.
      apply not_starting_gap; [exact tok_cont_first_ok | exact Hl2 | exact Hnt]. }
    rewrite (rl_step_prec fa fp _ _ _ _ _ _ _ n a g e rn syms None act pstart pend Hs' Hi Hq Hf Hl1 Hl2 Hr).
    rewrite !byte_len_app, kw_prec_len. f_equal. lia.
  - exists n. cbn [Nat.add byte_len]. rewrite Nat.add_0_r. reflexivity.
Qed.

Lemma stage_action : forall fa fp src pre pl (o : option str) rest i f n a g e rn syms prec pstart pend,
  src = pre ++ (match o with Some t => c_lbrace :: (p_pad1 pl ++ t ++ p_pad2 pl) ++ c_rbrace :: pg_act pl | None => [] end)
            ++ rest -> i = byte_len pre ->
  match o with
  | Some t => wf_action t /\ wf_pad (p_pad1 pl) /\ wf_pad (p_pad2 pl) /\ layout_text (pg_act pl)
  | None => True
  end ->
  term_start rest ->
  exists n',
  rule_loop true fa fp src (byte_len src) (fuel_for src) ((match o with Some _ => 1 | None => 0 end) + f)
            (mkSt n a g e) rn i syms prec None pstart pend
  = rule_loop true fa fp src (byte_len src) (fuel_for src) f (mkSt n' a g e) rn
      (i + byte_len (match o with Some t => c_lbrace :: (p_pad1 pl ++ t ++ p_pad2 pl) ++ c_rbrace :: pg_act pl | None => [] end))
      syms prec (match o with Some t => Some (t, act_span fa pl i t) | None => None end) pstart
      (match o with Some _ => brace_pend fp pend i | None => pend end).
Proof.
  intros fa fp src pre pl o rest i f n a g e rn syms prec pstart pend Hs Hi Hw Ht. destruct o as [t|].
  - destruct Hw as [Ha [Hp1 [Hp2 Hl]]]. cbn [Nat.add].
    assert (Hs' : src = pre ++ c_lbrace :: (p_pad1 pl ++ t ++ p_pad2 pl) ++ c_rbrace :: pg_act pl ++ rest)
      by (rewrite Hs; lsolve).
    destruct (rl_step_action fa fp _ _ _ _ _ _ f n a g e rn syms prec None pstart pend Hs' Hi Ha Hp1 Hp2 Hl Ht)
      as [n' Hn'].
    exists n'. rewrite Hn'. f_equal. cbn [byte_len]. rewrite ?byte_len_app. cbn [byte_len].
    change (len_utf8 c_lbrace) with 1. change (len_utf8 c_rbrace) with 1. rewrite ?byte_len_app. lia.
  - exists n. cbn [Nat.add byte_len]. rewrite Nat.add_0_r. reflexivity.
Qed.

Definition opt1 {A} (o : option A) : nat := match o with Some _ => 1 | None => 0 end.
Definition body_steps (pl : play) (p : aprod) : nat :=
  (if uses_empty pl p then 1 else 0) + (List.length (ap_syms p) + (opt1 (ap_prec p) + opt1 (ap_action p))).

(* the AST just before add_prod, and the action handed to it *)
Definition prod_pre_ast (pl : play) (i : nat) (p : aprod) (a : gast) : gast :=
  match ap_prec p with
  | Some t => tokens_insert (syms_ins pl 0 (prod_o0 pl i p) (ap_syms p) a) t
                (tok_span (pq_prec pl) (prec_tok_off pl i p) t)
  | None => syms_ins pl 0 (prod_o0 pl i p) (ap_syms p) a
  end.
Definition prod_act (fa : bool) (pl : play) (i : nat) (p : aprod) : option (str * span) :=
  match ap_action p with Some t => Some (t, act_span fa pl (prod_o2 pl i p) t) | None => None end.

Lemma prod_eff_unfold : forall fa fp pl rn i p a,
  prod_eff fa fp pl rn i p a
  = add_prod_t (prod_pre_ast pl i p a) rn (syms_out pl 0 (prod_o0 pl i p) (ap_syms p)) (ap_prec p)
      (prod_act fa pl i p) (i, pend_or (prod_pend fp pl i p) (prod_o3 pl i p)).
Proof. reflexivity. Qed.

Lemma uses_empty_nil : forall pl p, uses_empty pl p = true -> ap_syms p = [].
Proof.
  intros pl p H. unfold uses_empty in H. apply andb_true_iff in H. destruct H as [_ H].
  destruct (ap_syms p); [reflexivity | discriminate H].
Qed.

Lemma empty_follow_body : forall pl p rest, ap_syms p = [] -> term_start rest ->
  empty_follow (print_syms pl 0 (ap_syms p) ++ print_prec pl p ++ print_action pl p ++ rest).
Proof.
  intros pl p rest Hn Ht. rewrite Hn. cbn [print_syms app]. unfold print_prec, print_action.
  destruct (ap_prec p) as [t|].
  - eexists. right. right. right. rewrite <- app_assoc. reflexivity.
  - cbn [app]. destruct (ap_action p) as [t|].
    + eexists. right. right. left. reflexivity.
    + cbn [app]. destruct Ht as [r [H|H]]; subst rest; eexists; [left | right; left]; reflexivity.
Qed.

Lemma rl_prod_body : forall fa fp D pl p src pre rest i f n a g e rn,
  src = pre ++ print_prod pl p ++ rest -> i = byte_len pre ->
  wf_prod D pl p -> tok_inv D a -> term_start rest ->
  exists n',
  rule_loop true fa fp src (byte_len src) (fuel_for src) (body_steps pl p + f) (mkSt n a g e) rn i [] None None i None
  = rule_loop true fa fp src (byte_len src) (fuel_for src) f (mkSt n' (prod_pre_ast pl i p a) g e) rn
      (prod_o3 pl i p) (syms_out pl 0 (prod_o0 pl i p) (ap_syms p)) (ap_prec p) (prod_act fa pl i p) i
      (prod_pend fp pl i p).
Proof.
  intros fa fp D pl p src pre rest i f n a g e rn Hs Hi Hw Hinv Ht.
  destruct Hw as [Hws [Hwp [Hwa [Hle Hlt]]]].
  unfold print_prod in Hs. unfold body_steps.
  set (TE := print_empty pl p) in *. set (TS := print_syms pl 0 (ap_syms p)) in *.
  set (TP := print_prec pl p) in *. set (TA := print_action pl p) in *.
  pose proof (prec_punct pl p rest Ht) as Hpp. fold TP TA in Hpp.
  pose proof (action_punct pl p rest Ht) as Hpa. fold TA in Hpa.
  (* %empty *)
  assert (Hs1 : src = pre ++ TE ++ (TS ++ TP ++ TA ++ rest)) by (rewrite Hs; lsolve).
  destruct (stage_empty fa fp src pre (uses_empty pl p) pl (TS ++ TP ++ TA ++ rest) i
              (List.length (ap_syms p) + (opt1 (ap_prec p) + (opt1 (ap_action p) + f))) n a g e rn None None i None
              Hs1 Hi Hle (fun Hu => empty_follow_body pl p rest (uses_empty_nil pl p Hu) Ht)) as [n1 H1].
  rewrite <- !Nat.add_assoc. rewrite H1. clear H1.
  fold (print_empty pl p). fold TE.
  (* symbols *)
  assert (Hs2 : src = (pre ++ TE) ++ TS ++ (TP ++ TA ++ rest)) by (rewrite Hs; lsolve).
  assert (Hi2 : i + byte_len TE = byte_len (pre ++ TE)) by (subst i; rewrite byte_len_app; reflexivity).
  destruct (rl_syms fa fp D pl (ap_syms p) 0 src _ _ _ (opt1 (ap_prec p) + (opt1 (ap_action p) + f)) n1 a g e rn []
              None None i (if uses_empty pl p then Some (i + byte_len kw_empty) else None)
              Hs2 Hi2 Hws Hinv (punct_item_start _ Hpp) (punct_not_tok_cont _ Hpp)) as [n2 H2].
  rewrite H2. clear H2. cbn [app]. fold TS.
  (* %prec *)
  assert (Hs3 : src = ((pre ++ TE) ++ TS) ++ TP ++ (TA ++ rest)) by (rewrite Hs; lsolve).
  assert (Hi3 : i + byte_len TE + byte_len TS = byte_len ((pre ++ TE) ++ TS))
    by (subst i; rewrite !byte_len_app; reflexivity).
  unfold TP, print_prec in Hs3.
  destruct (stage_prec fa fp src _ pl (ap_prec p) _ _ (opt1 (ap_action p) + f) n2
              (syms_ins pl 0 (i + byte_len TE) (ap_syms p) a) g e rn
              (syms_out pl 0 (i + byte_len TE) (ap_syms p)) None i
              (syms_pend pl 0 (i + byte_len TE) (ap_syms p) (if uses_empty pl p then Some (i + byte_len kw_empty) else None))
              Hs3 Hi3 Hwp (punct_item_start _ Hpa) (punct_not_tok_cont _ Hpa)) as [n3 H3].
  unfold opt1 at 1. rewrite H3. clear H3.
  fold (print_prec pl p). fold TP.
  (* action *)
  assert (Hs4 : src = (((pre ++ TE) ++ TS) ++ TP) ++ TA ++ rest) by (rewrite Hs; lsolve).
  assert (Hi4 : i + byte_len TE + byte_len TS + byte_len TP = byte_len (((pre ++ TE) ++ TS) ++ TP))
    by (subst i; rewrite !byte_len_app; reflexivity).
  unfold TA, print_action in Hs4.
  destruct (stage_action fa fp src _ pl (ap_action p) _ _ f n3
              (match ap_prec p with
               | Some t => tokens_insert (syms_ins pl 0 (i + byte_len TE) (ap_syms p) a) t
                             (tok_span (pq_prec pl) (i + byte_len TE + byte_len TS + byte_len kw_prec + byte_len (pg_prec1 pl)) t)
               | None => syms_ins pl 0 (i + byte_len TE) (ap_syms p) a
               end) g e rn
              (syms_out pl 0 (i + byte_len TE) (ap_syms p)) (ap_prec p) i
              (match ap_prec p with
               | Some t => Some (i + byte_len TE + byte_len TS + byte_len kw_prec + byte_len (pg_prec1 pl)
                                 + byte_len (print_tok (pq_prec pl) t))
               | None => syms_pend pl 0 (i + byte_len TE) (ap_syms p)
                           (if uses_empty pl p then Some (i + byte_len kw_empty) else None)
               end)
              Hs4 Hi4 Hwa Ht) as [n4 H4].
  unfold opt1. rewrite H4. clear H4.
  fold (print_action pl p). fold TA.
  exists n4. reflexivity.
Qed.

(* ======================================================================== *)
(*  alt | alt ... ;                                                          *)
(* ======================================================================== *)
Lemma syms_pend_ge : forall pl ss k off pend lo,
  lo <= off -> (forall x, pend = Some x -> lo <= x) ->
  forall x, syms_pend pl k off ss pend = Some x -> lo <= x.
Proof.
  intros pl ss. induction ss as [|s ss IH]; intros k off pend lo Hlo Hp x Hx; cbn [syms_pend] in Hx.
  - apply Hp. exact Hx.
  - apply (IH (S k) (sym_next pl k off s) (Some (off + byte_len (print_sym pl k s))) lo); try exact Hx.
    + unfold sym_next. lia.
    + intros y Hy. injection Hy as <-. lia.
Qed.

Lemma prod_pend_ge : forall fp pl i p, i <= pend_or (prod_pend fp pl i p) (prod_o3 pl i p).
Proof.
  intros fp pl i p. unfold prod_pend. cbv zeta.
  assert (H0 : i <= prod_o0 pl i p) by (unfold prod_o0; lia).
  assert (H1 : i <= prod_o1 pl i p) by (unfold prod_o1; lia).
  assert (H2 : i <= prod_o2 pl i p) by (unfold prod_o2; lia).
  assert (H3 : i <= prod_o3 pl i p) by (unfold prod_o3; lia).
  set (pe1 := syms_pend pl 0 (prod_o0 pl i p) (ap_syms p)
                (if uses_empty pl p then Some (i + byte_len kw_empty) else None)).
  assert (Hpe1 : forall x, pe1 = Some x -> i <= x).
  { intros x E.
    apply (syms_pend_ge pl (ap_syms p) 0 (prod_o0 pl i p)
             (if uses_empty pl p then Some (i + byte_len kw_empty) else None) i H0) with (x := x); [|exact E].
    intros y Hy. destruct (uses_empty pl p); [injection Hy as <-; lia | discriminate Hy]. }
  set (pe2 := match ap_prec p with
              | Some t => Some (prec_tok_off pl i p + byte_len (print_tok (pq_prec pl) t))
              | None => pe1
              end).
  assert (Hpe2 : forall x, pe2 = Some x -> i <= x).
  { intros x E. unfold pe2 in E.
    destruct (ap_prec p); [injection E as <-; unfold prec_tok_off; lia | apply Hpe1; exact E]. }
  destruct (ap_action p).
  - unfold brace_pend. destruct fp; [|cbn [pend_or]; exact H2].
    destruct pe2 as [x|]; cbn [pend_or]; [apply Hpe2; reflexivity | exact H2].
  - destruct pe2 as [x|]; cbn [pend_or]; [apply Hpe2; reflexivity | exact H3].
Qed.

Lemma prod_pre_ast_has_rule : forall pl i p a m, has_rule (prod_pre_ast pl i p a) m = has_rule a m.
Proof.
  intros. unfold prod_pre_ast. destruct (ap_prec p); rewrite ?has_rule_tokens_insert; apply has_rule_syms_ins.
Qed.

Fixpoint prods_steps (rl : rlay) (pi : nat) (ps : list aprod) : nat :=
  match ps with
  | [] => 0
  | p :: ps' => body_steps (r_play rl pi) p + S (prods_steps rl (S pi) ps')
  end.

Lemma print_prods_item_start : forall D rl ps pi rest,
  wf_prods D rl pi ps -> item_start rest -> item_start (print_prods rl pi ps ++ rest).
Proof.
  intros D rl [|p ps] pi rest Hw Hr; [exact Hr|]. cbn [print_prods wf_prods] in *.
  destruct Hw as [[Hws _] _]. unfold print_prod, print_empty.
  destruct (uses_empty (r_play rl pi) p) eqn:Eu; [reflexivity|]. cbn [app].
  destruct (ap_syms p) as [|s ss] eqn:Es.
  - cbn [print_syms app]. unfold print_prec. destruct (ap_prec p); [reflexivity|]. cbn [app].
    unfold print_action. destruct (ap_action p); [reflexivity|]. cbn [app]. destruct ps; reflexivity.
  - cbn [print_syms wf_syms] in *. destruct Hws as [[Hq _] _]. unfold print_sym.
    repeat rewrite <- app_assoc. apply print_tok_item_start. exact Hq.
Qed.

Lemma rl_prods : forall fa fp D rl rn ps pi src pre rest i f n a g e,
  ps <> [] ->
  src = pre ++ print_prods rl pi ps ++ rest -> i = byte_len pre ->
  wf_prods D rl pi ps -> tok_inv D a -> has_rule a rn = true -> item_start rest ->
  exists n',
  sbind (rule_loop true fa fp src (byte_len src) (fuel_for src) (prods_steps rl pi ps + f)
                   (mkSt n a g e) rn i [] None None i None)
        (fun st j => P_ws src st j true)
  = Done (mkSt n' (prods_eff fa fp rl rn pi i ps a) g e, Ok (i + byte_len (print_prods rl pi ps))).
Proof.
  intros fa fp D rl rn ps. induction ps as [|p ps IH]; intros pi src pre rest i f n a g e Hne Hs Hi Hw Hinv Hru Hr;
    [congruence|].
  cbn [print_prods prods_steps prods_eff wf_prods] in *. destruct Hw as [Hwp Hw'].
  set (pl := r_play rl pi) in *.
  pose proof Hwp as [_ [_ [_ [_ Hlt]]]].
  replace (body_steps pl p + S (prods_steps rl (S pi) ps) + f)
    with (body_steps pl p + S (prods_steps rl (S pi) ps + f)) by lia.
  destruct ps as [|p' ps'].
  - (* last production: ';' *)
    assert (Hs1 : src = pre ++ print_prod pl p ++ (c_semi :: pg_term pl ++ rest)) by (rewrite Hs; lsolve).
    assert (Ht : term_start (c_semi :: pg_term pl ++ rest)) by (eexists; right; reflexivity).
    destruct (rl_prod_body fa fp D pl p src pre _ i (S (prods_steps rl (S pi) [] + f)) n a g e rn Hs1 Hi Hwp Hinv Ht)
      as [n1 H1].
    rewrite H1. clear H1.
    assert (Hs2 : src = (pre ++ print_prod pl p) ++ c_semi :: (pg_term pl ++ rest)) by (rewrite Hs; lsolve).
    assert (Hi2 : prod_o3 pl i p = byte_len (pre ++ print_prod pl p)).
    { unfold prod_o3, prod_o2, prod_o1, prod_o0, print_prod. subst i. rewrite !byte_len_app. lia. }
    rewrite (rl_step_semi fa fp _ _ _ _ _ n1 _ g e rn _ _ _ i _ Hs2 Hi2).
    2:{ rewrite prod_pre_ast_has_rule. exact Hru. }
    2:{ apply prod_pend_ge. }
    cbn [sbind]. unfold P_ws.
    assert (Hs3 : src = ((pre ++ print_prod pl p) ++ [c_semi]) ++ pg_term pl ++ rest) by (rewrite Hs; lsolve).
    assert (Hi3 : prod_o3 pl i p + 1 = byte_len ((pre ++ print_prod pl p) ++ [c_semi]))
      by (rewrite Hi2; rewrite (byte_len_app _ [c_semi]); reflexivity).
    rewrite (ws_gap _ _ _ _ _ _ _ _ _ true Hs3 Hi3 Hlt Hr) by (intros HH; discriminate HH).
    eexists. rewrite <- prod_eff_unfold. cbn [prods_eff]. f_equal. f_equal. f_equal.
    rewrite Hi2. rewrite !byte_len_app. cbn [byte_len]. rewrite byte_len_app. cbn [byte_len].
    change (len_utf8 c_semi) with 1. cbn [print_prods byte_len]. subst i. lia.
  - (* '|' and the next production *)
    set (ps := p' :: ps') in *.
    assert (Hs1 : src = pre ++ print_prod pl p ++ (c_bar :: pg_term pl ++ print_prods rl (S pi) ps ++ rest))
      by (rewrite Hs; lsolve).
    assert (Ht : term_start (c_bar :: pg_term pl ++ print_prods rl (S pi) ps ++ rest)) by (eexists; left; reflexivity).
    destruct (rl_prod_body fa fp D pl p src pre _ i (S (prods_steps rl (S pi) ps + f)) n a g e rn Hs1 Hi Hwp Hinv Ht)
      as [n1 H1].
    rewrite H1. clear H1.
    assert (Hs2 : src = (pre ++ print_prod pl p) ++ c_bar :: pg_term pl ++ (print_prods rl (S pi) ps ++ rest))
      by (rewrite Hs; lsolve).
    assert (Hi2 : prod_o3 pl i p = byte_len (pre ++ print_prod pl p)).
    { unfold prod_o3, prod_o2, prod_o1, prod_o0, print_prod. subst i. rewrite !byte_len_app. lia. }
    rewrite (rl_step_bar fa fp _ _ _ _ _ _ n1 _ g e rn _ _ _ i _ Hs2 Hi2 Hlt
               (print_prods_item_start _ _ _ _ _ Hw' Hr)).
    2:{ rewrite prod_pre_ast_has_rule. exact Hru. }
    2:{ apply prod_pend_ge. }
    rewrite <- prod_eff_unfold.
    assert (Hs3 : src = (pre ++ print_prod pl p ++ c_bar :: pg_term pl) ++ print_prods rl (S pi) ps ++ rest)
      by (rewrite Hs; lsolve).
    assert (Hi3 : prod_o3 pl i p + 1 + byte_len (pg_term pl) = byte_len (pre ++ print_prod pl p ++ c_bar :: pg_term pl)).
    { rewrite Hi2. rewrite !byte_len_app. cbn [byte_len]. change (len_utf8 c_bar) with 1. lia. }
    destruct (IH (S pi) src _ rest _ f (n1 + count_nl (pg_term pl)) (prod_eff fa fp pl rn i p a) g e
                 ltac:(discriminate) Hs3 Hi3 Hw' (prod_eff_inv _ _ _ _ _ _ _ _ Hinv)
                 ltac:(rewrite prod_eff_has_rule; exact Hru) Hr) as [n2 H2].
    exists n2. unfold prod_next. rewrite H2. f_equal. f_equal. f_equal.
    rewrite Hi3. rewrite !byte_len_app. cbn [byte_len]. rewrite !byte_len_app. subst i. lia.
Qed.

(* ======================================================================== *)
(*  One rule block                                                           *)
(* ======================================================================== *)
Lemma print_tok_pos : forall q t, is_qname q t -> 1 <= byte_len (print_tok q t).
Proof.
  intros q t H. rewrite byte_len_print_tok. destruct q; cbn [tok_off]; try lia.
  cbn [is_qname] in H. destruct t as [|c t]; [discriminate H|]. cbn [byte_len]. pose proof (len_utf8_pos c). lia.
Qed.

Lemma syms_steps_le : forall D pl ss k, wf_syms D pl k ss -> List.length ss <= byte_len (print_syms pl k ss).
Proof.
  intros D pl ss. induction ss as [|s ss IH]; intros k Hw; [cbn; lia|].
  cbn [wf_syms] in Hw. destruct Hw as [[Hq _] [_ [_ Hw']]]. cbn [List.length print_syms].
  rewrite !byte_len_app. specialize (IH (S k) Hw'). pose proof (print_tok_pos _ _ Hq). unfold print_sym. lia.
Qed.

Lemma body_steps_le : forall D pl p, wf_prod D pl p -> body_steps pl p <= byte_len (print_prod pl p).
Proof.
  intros D pl p [Hws _]. unfold body_steps, print_prod. rewrite !byte_len_app.
  pose proof (syms_steps_le _ _ _ _ Hws).
  assert (H1 : (if uses_empty pl p then 1 else 0) <= byte_len (print_empty pl p)).
  { unfold print_empty. destruct (uses_empty pl p); [rewrite byte_len_app, kw_empty_len|]; lia. }
  assert (H2 : opt1 (ap_prec p) <= byte_len (print_prec pl p)).
  { unfold print_prec, opt1. destruct (ap_prec p); [rewrite byte_len_app, kw_prec_len|]; lia. }
  assert (H3 : opt1 (ap_action p) <= byte_len (print_action pl p)).
  { unfold print_action, opt1. destruct (ap_action p); [cbn [byte_len]; change (len_utf8 c_lbrace) with 1|]; lia. }
  lia.
Qed.

Lemma prods_steps_le : forall D rl ps pi, wf_prods D rl pi ps -> prods_steps rl pi ps <= byte_len (print_prods rl pi ps).
Proof.
  intros D rl ps. induction ps as [|p ps IH]; intros pi Hw; [cbn; lia|].
  cbn [wf_prods] in Hw. destruct Hw as [Hp Hw']. cbn [prods_steps print_prods].
  rewrite byte_len_app. cbn [byte_len]. rewrite byte_len_app.
  pose proof (body_steps_le _ _ _ Hp). specialize (IH (S pi) Hw').
  assert (1 <= len_utf8 (match ps with [] => c_semi | _ :: _ => c_bar end)) by apply len_utf8_pos. lia.
Qed.

Lemma colon_not_name_cont : name_cont c_colon = false.
Proof. reflexivity. Qed.

(* the productions of a block never start with a colon *)
Lemma print_prods_not_colon : forall D rl ps pi rest,
  ps <> [] -> wf_prods D rl pi ps -> not_starting is_colon (print_prods rl pi ps ++ rest).
Proof.
  intros D rl [|p ps] pi rest Hne Hw; [congruence|]. cbn [print_prods wf_prods] in *.
  destruct Hw as [[Hws _] _]. unfold print_prod, print_empty.
  destruct (uses_empty (r_play rl pi) p) eqn:Eu; [reflexivity|]. cbn [app].
  destruct (ap_syms p) as [|s ss] eqn:Es.
  - cbn [print_syms app]. unfold print_prec. destruct (ap_prec p); [reflexivity|]. cbn [app].
    unfold print_action. destruct (ap_action p); [reflexivity|]. cbn [app]. destruct ps; reflexivity.
  - cbn [print_syms wf_syms] in *. destruct Hws as [[Hq _] _]. unfold print_sym.
    destruct (print_tok_hd _ _ Hq) as [c [t [E Hc]]]. rewrite E. repeat rewrite <- app_assoc. cbn [app not_starting].
    unfold is_colon. destruct (sym_q (r_play rl pi) 0 s).
    + pose proof (tok_start_hd c Hc kw_colon ltac:(simpl; tauto)) as Hh. unfold hd_is, kw_colon in Hh.
      rewrite N.eqb_sym. exact Hh.
    + subst c. reflexivity.
    + subst c. reflexivity.
Qed.

(* from the colon on: gap, productions, the layout after the block *)
Lemma rule_tail_at : forall fa fp D src pre rl r rest j n a1 g e,
  src = pre ++ c_colon :: rg_colon rl ++ print_prods rl 0 (ar_prods r) ++ rest -> j = byte_len pre ->
  layout_text (rg_colon rl) -> ar_prods r <> [] -> wf_prods D rl 0 (ar_prods r) -> item_start rest ->
  tok_inv D a1 -> has_rule a1 (ar_name r) = true ->
  exists n',
    sbind (sbind (ws true src (byte_len src) (fuel_for src) (mkSt n a1 g e) (j + 1) true)
                 (fun st i => rule_loop true fa fp src (byte_len src) (fuel_for src) (fuel_for src) st (ar_name r) i [] None None i None))
          (fun st j => P_ws src st j true)
    = Done (mkSt n' (prods_eff fa fp rl (ar_name r) 0 (j + 1 + byte_len (rg_colon rl)) (ar_prods r) a1) g e,
            Ok (j + 1 + byte_len (rg_colon rl) + byte_len (print_prods rl 0 (ar_prods r)))).
Proof.
  intros fa fp D src pre rl r rest j n a1 g e Hs Hj Hl2 Hne Hwp Hr Hinv Hru.
  set (body := print_prods rl 0 (ar_prods r)) in *.
  assert (Hs3 : src = (pre ++ [c_colon]) ++ rg_colon rl ++ (body ++ rest)) by (rewrite Hs; lsolve).
  assert (Hi3 : j + 1 = byte_len (pre ++ [c_colon])) by (subst j; rewrite !byte_len_app; reflexivity).
  rewrite (ws_gap _ _ _ _ _ _ _ _ _ true Hs3 Hi3 Hl2 (print_prods_item_start _ _ _ _ _ Hwp Hr))
    by (intros HH; discriminate HH).
  cbn [sbind].
  assert (Hs4 : src = ((pre ++ [c_colon]) ++ rg_colon rl) ++ body ++ rest) by (rewrite Hs; lsolve).
  assert (Hi4 : j + 1 + byte_len (rg_colon rl) = byte_len ((pre ++ [c_colon]) ++ rg_colon rl))
    by (subst j; rewrite !byte_len_app; reflexivity).
  assert (Hfuel : fuel_for src = prods_steps rl 0 (ar_prods r) + (fuel_for src - prods_steps rl 0 (ar_prods r))).
  { pose proof (prods_steps_le _ _ _ _ Hwp) as Hle. fold body in Hle. unfold fuel_for.
    rewrite Hs. rewrite !byte_len_app. cbn [byte_len]. rewrite !byte_len_app. lia. }
  match goal with
  | |- context [rule_loop true fa fp src (byte_len src) (fuel_for src) (fuel_for src) ?st] =>
      replace (rule_loop true fa fp src (byte_len src) (fuel_for src) (fuel_for src) st)
        with (rule_loop true fa fp src (byte_len src) (fuel_for src)
                (prods_steps rl 0 (ar_prods r) + (fuel_for src - prods_steps rl 0 (ar_prods r))) st)
        by (rewrite <- Hfuel; reflexivity)
  end.
  destruct (rl_prods fa fp D rl (ar_name r) (ar_prods r) 0 src _ rest _ (fuel_for src - prods_steps rl 0 (ar_prods r))
              (n + count_nl (rg_colon rl)) a1 g e Hne Hs4 Hi4 Hwp Hinv Hru Hr) as [n' Hn'].
  exists n'. rewrite Hn'. reflexivity.
Qed.

(* a block without action type: Original and Eco dialects *)
Lemma rule_at_plain : forall fa fp D src pre rl r rest i n a g e,
  src = pre ++ print_rule rl r ++ rest -> i = byte_len pre ->
  wf_rule D rl r -> ar_type r = None -> item_start rest -> tok_inv D a ->
  exists n',
    sbind (parse_rule true fa fp KOriginal src (byte_len src) (fuel_for src) (mkSt n a g e) i)
          (fun st j => P_ws src st j true)
    = Done (mkSt n' (rule_eff fa fp rl i (actiont_of g) r a) g e, Ok (i + byte_len (print_rule rl r))).
Proof.
  intros fa fp D src pre rl r rest i n a g e Hs Hi [Hn [Hl1 [Hl2 [Hne [Hwp _]]]]] Hty Hr Hinv.
  unfold print_rule, print_rtype in Hs. rewrite Hty in Hs. cbn [app] in Hs.
  set (nm := ar_name r) in *. set (body := print_prods rl 0 (ar_prods r)) in *.
  assert (Hs0 : src = pre ++ nm ++ (rg_name rl ++ c_colon :: rg_colon rl ++ body ++ rest)) by (rewrite Hs; lsolve).
  unfold parse_rule.
  assert (Hnf : not_starting name_cont (rg_name rl ++ c_colon :: rg_colon rl ++ body ++ rest)).
  { apply not_starting_gap; [exact name_cont_first_ok | exact Hl1 | exact colon_not_name_cont]. }
  destruct (parse_name_roundtrip pre nm _ Hn Hnf) as [Hpn _]. cbn zeta in Hpn.
  rewrite <- Hs0, <- Hi in Hpn. rewrite Hpn. cbn [lift sbind].
  rewrite mk_span_le by lia. cbn [lifto sbind].
  (* the state after the head *)
  match goal with
  | |- context [@ret nat ?X _] =>
      replace X with (mkSt n (rule_head_eff i (actiont_of g) nm a) g e)
        by (unfold rule_head_eff, actiont_of; cbn [ast gat]; destruct (a_start a);
            unfold set_ast; cbn [ast gat nn errs]; destruct (get_rule _ nm); reflexivity)
  end.
  cbn [ret sbind].
  set (a1 := rule_head_eff i (actiont_of g) nm a).
  (* gap, colon *)
  assert (Hs1 : src = (pre ++ nm) ++ rg_name rl ++ (c_colon :: rg_colon rl ++ body ++ rest)) by (rewrite Hs; lsolve).
  assert (Hi1 : i + byte_len nm = byte_len (pre ++ nm)) by (subst i; rewrite byte_len_app; reflexivity).
  rewrite (ws_gap _ _ _ _ _ _ _ _ _ true Hs1 Hi1 Hl1 ltac:(reflexivity)) by (intros HH; discriminate HH).
  cbn [sbind].
  assert (Hs2 : src = ((pre ++ nm) ++ rg_name rl) ++ c_colon :: (rg_colon rl ++ body ++ rest)) by (rewrite Hs; lsolve).
  assert (Hi2 : i + byte_len nm + byte_len (rg_name rl) = byte_len ((pre ++ nm) ++ rg_name rl))
    by (subst i; rewrite !byte_len_app; reflexivity).
  look1 Hs2 Hi2. change (byte_len kw_colon) with 1.
  destruct (rule_tail_at fa fp D src _ rl r rest _ (n + count_nl (rg_name rl)) a1 g e Hs2 Hi2 Hl2 Hne Hwp Hr
              (tok_inv_rule_head _ _ _ _ _ Hinv) (rule_head_has_rule _ _ _ _)) as [n' Hn'].
  exists n'. fold nm in Hn'. rewrite Hn'. unfold rule_eff, rule_body_off, rule_at_, print_rtype. rewrite Hty. fold nm a1.
  f_equal. f_equal; [f_equal; f_equal; cbn [byte_len]; lia|]. f_equal.
  unfold print_rule, print_rtype. rewrite Hty. fold nm body. cbn [app]. rewrite ?byte_len_app. cbn [byte_len]. rewrite ?byte_len_app.
  change (len_utf8 c_colon) with 1. lia.
Qed.

(* a block with its action type: Grmtools dialect *)
Lemma arrow_not_name_cont : forall r, not_starting name_cont (kw_arrow ++ r).
Proof. intros r. reflexivity. Qed.

Lemma rule_at_typed : forall fa fp D src pre rl r ty rest i n a g e,
  src = pre ++ print_rule rl r ++ rest -> i = byte_len pre ->
  wf_rule D rl r -> ar_type r = Some ty -> item_start rest -> tok_inv D a ->
  exists n',
    sbind (parse_rule true fa fp KGrmtools src (byte_len src) (fuel_for src) (mkSt n a g e) i)
          (fun st j => P_ws src st j true)
    = Done (mkSt n' (rule_eff fa fp rl i (actiont_of g) r a) g e, Ok (i + byte_len (print_rule rl r))).
Proof.
  intros fa fp D src pre rl r ty rest i n a g e Hs Hi [Hn [Hl1 [Hl2 [Hne [Hwp Hty0]]]]] Hty Hr Hinv.
  rewrite Hty in Hty0. destruct Hty0 as [Hla [Hwt [Hpad Hits]]].
  unfold print_rule, print_rtype in Hs. rewrite Hty in Hs.
  set (nm := ar_name r) in *. set (body := print_prods rl 0 (ar_prods r)) in *.
  set (tail := c_colon :: rg_colon rl ++ body ++ rest).
  assert (Hs0 : src = pre ++ nm ++ (rg_name rl ++ kw_arrow ++ rg_arrow rl ++ ty ++ r_tpad rl ++ tail))
    by (rewrite Hs; unfold tail; lsolve).
  unfold parse_rule.
  assert (Hnf : not_starting name_cont (rg_name rl ++ kw_arrow ++ rg_arrow rl ++ ty ++ r_tpad rl ++ tail)).
  { apply not_starting_gap; [exact name_cont_first_ok | exact Hl1 | apply arrow_not_name_cont]. }
  destruct (parse_name_roundtrip pre nm _ Hn Hnf) as [Hpn _]. cbn zeta in Hpn.
  rewrite <- Hs0, <- Hi in Hpn. rewrite Hpn. cbn [lift sbind].
  rewrite mk_span_le by lia. cbn [lifto sbind].
  set (a0 := match a_start a with None => upd_start a (Some (nm, (i, i + byte_len nm))) | Some _ => a end).
  match goal with
  | |- context [ws true src (byte_len src) (fuel_for src) ?X (i + byte_len nm) true] =>
      replace X with (mkSt n a0 g e)
        by (unfold a0; cbn [ast]; destruct (a_start a); unfold set_ast; cbn [ast gat nn errs]; reflexivity)
  end.
  (* gap, arrow, gap *)
  assert (Hs1 : src = (pre ++ nm) ++ rg_name rl ++ (kw_arrow ++ rg_arrow rl ++ ty ++ r_tpad rl ++ tail))
    by (rewrite Hs0; lsolve).
  assert (Hi1 : i + byte_len nm = byte_len (pre ++ nm)) by (subst i; rewrite byte_len_app; reflexivity).
  rewrite (ws_gap _ _ _ _ _ _ _ _ _ true Hs1 Hi1 Hl1 ltac:(reflexivity)) by (intros HH; discriminate HH).
  cbn [sbind].
  assert (Hs2 : src = ((pre ++ nm) ++ rg_name rl) ++ kw_arrow ++ (rg_arrow rl ++ ty ++ r_tpad rl ++ tail))
    by (rewrite Hs0; lsolve).
  assert (Hi2 : i + byte_len nm + byte_len (rg_name rl) = byte_len ((pre ++ nm) ++ rg_name rl))
    by (subst i; rewrite !byte_len_app; reflexivity).
  look1 Hs2 Hi2. change (byte_len kw_arrow) with 2.
  assert (Hs3 : src = (((pre ++ nm) ++ rg_name rl) ++ kw_arrow) ++ rg_arrow rl ++ (ty ++ r_tpad rl ++ tail))
    by (rewrite Hs0; lsolve).
  assert (Hi3 : i + byte_len nm + byte_len (rg_name rl) + 2 = byte_len (((pre ++ nm) ++ rg_name rl) ++ kw_arrow))
    by (subst i; rewrite !byte_len_app; reflexivity).
  assert (Hit : item_start (ty ++ r_tpad rl ++ tail)).
  { unfold tail. destruct ty as [|c ty']; [destruct (r_tpad rl) as [|c p']; [reflexivity | exact Hits] | exact Hits]. }
  rewrite (ws_gap _ _ _ _ _ _ _ _ _ true Hs3 Hi3 Hla Hit) by (intros HH; discriminate HH).
  cbn [sbind nn].
  (* the type *)
  assert (Hs4 : src = ((((pre ++ nm) ++ rg_name rl) ++ kw_arrow) ++ rg_arrow rl) ++ ty ++ r_tpad rl ++ c_colon :: (rg_colon rl ++ body ++ rest))
    by (rewrite Hs0; unfold tail; lsolve).
  assert (Hi4 : i + byte_len nm + byte_len (rg_name rl) + 2 + byte_len (rg_arrow rl)
                = byte_len ((((pre ++ nm) ++ rg_name rl) ++ kw_arrow) ++ rg_arrow rl))
    by (subst i; rewrite !byte_len_app; reflexivity).
  assert (Hnc : not_starting is_colon (rg_colon rl ++ body ++ rest)).
  { destruct (rg_colon rl) as [|c gp] eqn:Eg.
    - cbn [app]. apply (print_prods_not_colon D); assumption.
    - destruct (layout_text_hd _ Hl2 ltac:(discriminate)) as [c' [r' [E Hc']]]. injection E as <- <-.
      cbn [app not_starting]. unfold is_colon. destruct Hc' as [Hb|Hb]; [|subst c; reflexivity].
      apply N.eqb_neq. intros Ec. subst c. discriminate Hb. }
  rewrite (to_colon_at _ _ _ _ _ _ _ a0 g e Hs4 Hi4 Hwt Hpad Hnc). cbn [sbind].
  (* the state after the head *)
  match goal with
  | |- context [@ret nat ?X _] =>
      replace X with (mkSt (n + count_nl (rg_name rl) + count_nl (rg_arrow rl) + count_nl (ty ++ r_tpad rl))
                           (rule_head_eff i (Some ty) nm a) g e)
        by (unfold rule_head_eff; fold a0; cbn [ast gat]; unfold set_ast; cbn [ast gat nn errs];
            destruct (get_rule _ nm); reflexivity)
  end.
  cbn [ret sbind].
  set (a1 := rule_head_eff i (Some ty) nm a).
  (* at the colon *)
  assert (Hs5 : src = (((((pre ++ nm) ++ rg_name rl) ++ kw_arrow) ++ rg_arrow rl) ++ ty ++ r_tpad rl) ++ c_colon :: (rg_colon rl ++ body ++ rest))
    by (rewrite Hs0; unfold tail; lsolve).
  assert (Hi5 : i + byte_len nm + byte_len (rg_name rl) + 2 + byte_len (rg_arrow rl) + byte_len (ty ++ r_tpad rl)
                = byte_len (((((pre ++ nm) ++ rg_name rl) ++ kw_arrow) ++ rg_arrow rl) ++ ty ++ r_tpad rl))
    by (subst i; rewrite !byte_len_app; reflexivity).
  rewrite (ws_none _ _ _ _ _ _ _ _ true Hs5 Hi5 ltac:(reflexivity)). cbn [sbind].
  look1 Hs5 Hi5. change (byte_len kw_colon) with 1.
  destruct (rule_tail_at fa fp D src _ rl r rest _ (n + count_nl (rg_name rl) + count_nl (rg_arrow rl) + count_nl (ty ++ r_tpad rl))
              a1 g e Hs5 Hi5 Hl2 Hne Hwp Hr
              (tok_inv_rule_head _ _ _ _ _ Hinv) (rule_head_has_rule _ _ _ _)) as [n' Hn'].
  exists n'. fold nm in Hn'. rewrite Hn'. unfold rule_eff, rule_body_off, rule_at_, print_rtype. rewrite Hty. fold nm a1.
  f_equal. f_equal; [f_equal; f_equal; rewrite ?byte_len_app; change (byte_len kw_arrow) with 2; lia|]. f_equal.
  unfold print_rule, print_rtype. rewrite Hty. fold nm body. rewrite ?byte_len_app. cbn [byte_len]. rewrite ?byte_len_app.
  change (len_utf8 c_colon) with 1. change (byte_len kw_arrow) with 2. lia.
Qed.

Lemma parse_rule_eco : forall fa fp src len fuel st i,
  parse_rule true fa fp KEco src len fuel st i = parse_rule true fa fp KOriginal src len fuel st i.
Proof. reflexivity. Qed.

Lemma rule_at : forall k fa fp D src pre rl r rest i n a g e,
  src = pre ++ print_rule rl r ++ rest -> i = byte_len pre ->
  wf_rule D rl r -> rule_kind_ok k r -> item_start rest -> tok_inv D a ->
  exists n',
    sbind (parse_rule true fa fp k src (byte_len src) (fuel_for src) (mkSt n a g e) i)
          (fun st j => P_ws src st j true)
    = Done (mkSt n' (rule_eff fa fp rl i (actiont_of g) r a) g e, Ok (i + byte_len (print_rule rl r))).
Proof.
  intros k fa fp D src pre rl r rest i n a g e Hs Hi Hw Hk Hr Hinv.
  destruct (ar_type r) as [ty|] eqn:Ety.
  - assert (k = KGrmtools) by (apply Hk; rewrite Ety; discriminate). subst k.
    apply (rule_at_typed fa fp D src pre rl r ty rest); assumption.
  - assert (Hk' : k <> KGrmtools) by (intros E; apply Hk in E; rewrite Ety in E; congruence).
    destruct k; [ | congruence | rewrite parse_rule_eco ];
      apply (rule_at_plain fa fp D src pre rl r rest); assumption.
Qed.

(* ======================================================================== *)
(*  The rules section                                                        *)
(* ======================================================================== *)
Lemma name_start_not_pct : forall c, name_start c = true -> hd_is kw_pp c = false.
Proof.
  intros c H. unfold hd_is, kw_pp. apply N.eqb_neq. intros E. subst c. discriminate H.
Qed.

Lemma print_rule_hd : forall rl r, is_name (ar_name r) = true ->
  exists c t, print_rule rl r = c :: t /\ name_start c = true.
Proof.
  intros rl r H. unfold print_rule. destruct (ar_name r) as [|c t]; [discriminate H|].
  simpl in H. apply andb_true_iff in H. exists c. eexists. split; [reflexivity | tauto].
Qed.

Lemma print_rules_item_start : forall D l rs r, wf_rules D l r rs -> item_start (print_rules l r rs).
Proof.
  intros D l [|x rs] r Hw; [exact I|]. cbn [print_rules wf_rules] in *. destruct Hw as [[Hn _] _].
  destruct (print_rule_hd (rlay_of l r) x Hn) as [c [t [E Hc]]]. rewrite E. cbn [app item_start].
  apply name_start_first_ok. exact Hc.
Qed.

Lemma rules_end_item_start : forall rest, rules_end rest -> item_start rest.
Proof. intros rest [H|[r H]]; subst rest; reflexivity. Qed.

Lemma print_rules_item_start_app : forall D l rs r rest,
  wf_rules D l r rs -> item_start rest -> item_start (print_rules l r rs ++ rest).
Proof.
  intros D l [|x rs] r rest Hw Hr; [exact Hr|]. cbn [print_rules wf_rules] in *. destruct Hw as [[Hn _] _].
  destruct (print_rule_hd (rlay_of l r) x Hn) as [c [t [E Hc]]]. rewrite E. cbn [app item_start].
  apply name_start_first_ok. exact Hc.
Qed.

Lemma rules_loop_at : forall k fa fp D l rs r src pre rest i f n a g e,
  src = pre ++ print_rules l r rs ++ rest -> i = byte_len pre ->
  wf_rules D l r rs -> Forall (rule_kind_ok k) rs -> rules_end rest -> tok_inv D a -> List.length rs < f ->
  exists n',
    rules_loop true fa fp k src (byte_len src) (fuel_for src) f (mkSt n a g e) i
    = Done (mkSt n' (rules_eff fa fp l r i (actiont_of g) rs a) g e, Ok (i + byte_len (print_rules l r rs))).
Proof.
  intros k fa fp D l rs. induction rs as [|x rs IH]; intros r src pre rest i f n a g e Hs Hi Hw Hk He Hinv Hf.
  - destruct f as [|f]; [cbn in Hf; lia|]. cbn [print_rules app] in Hs.
    exists n. cbn [rules_loop]. destruct He as [He|[r' He]]; subst rest.
    + rewrite app_nil_r in Hs. subst pre. rewrite (not_lt_len_end _ _ Hi). cbn [negb ret print_rules byte_len rules_eff].
      rewrite Nat.add_0_r. reflexivity.
    + assert (Hs0 : src = pre ++ 37%N :: (37%N :: r')) by (rewrite Hs; reflexivity).
      rewrite (lt_len_at _ _ _ _ _ Hs0 Hi). cbn [negb].
      look1 Hs Hi. cbn [print_rules byte_len rules_eff]. rewrite Nat.add_0_r. reflexivity.
  - destruct f as [|f]; [cbn in Hf; lia|]. cbn [List.length] in Hf.
    cbn [print_rules wf_rules rules_eff] in *. destruct Hw as [Hwr Hw'].
    inversion Hk as [|x' rs' Hkx Hk']; subst x' rs'.
    pose proof Hwr as [Hn _].
    destruct (print_rule_hd (rlay_of l r) x Hn) as [c [t [E Hc]]].
    assert (Hs0 : src = pre ++ c :: (t ++ print_rules l (S r) rs ++ rest)) by (rewrite Hs, E; lsolve).
    cbn [rules_loop]. rewrite (lt_len_at _ _ _ _ _ Hs0 Hi). cbn [negb].
    rewrite (look_at _ _ _ _ _ _ Hs0 Hi). rewrite prefix_of_hd_false by (apply name_start_not_pct; exact Hc).
    cbn [sbind is_some].
    assert (Hs1 : src = pre ++ print_rule (rlay_of l r) x ++ (print_rules l (S r) rs ++ rest)) by (rewrite Hs; lsolve).
    destruct (rule_at k fa fp D src pre _ x _ i n a g e Hs1 Hi Hwr Hkx
                (print_rules_item_start_app _ _ _ _ _ Hw' (rules_end_item_start _ He)) Hinv) as [n1 H1].
    destruct (parse_rule true fa fp k src (byte_len src) (fuel_for src) (mkSt n a g e) i)
      as [[st1 [j|er]]| |] eqn:EX; cbn [sbind] in H1; try discriminate H1.
    cbn [sbind]. unfold P_ws in H1. rewrite H1. cbn [sbind].
    assert (Hs2 : src = (pre ++ print_rule (rlay_of l r) x) ++ print_rules l (S r) rs ++ rest) by (rewrite Hs; lsolve).
    assert (Hi2 : i + byte_len (print_rule (rlay_of l r) x) = byte_len (pre ++ print_rule (rlay_of l r) x))
      by (subst i; rewrite byte_len_app; reflexivity).
    destruct (IH (S r) src _ rest _ f n1 (rule_eff fa fp (rlay_of l r) i (actiont_of g) x a) g e Hs2 Hi2 Hw' Hk' He
                 (rule_eff_inv fa fp D _ _ _ _ _ Hinv) ltac:(lia)) as [n2 H2].
    exists n2. rewrite H2. f_equal. f_equal. f_equal. rewrite byte_len_app. lia.
Qed.

Lemma rules_section_at : forall k fa fp D l src pre gap rs rest i n a g e,
  src = pre ++ kw_pp ++ gap ++ print_rules l 0 rs ++ rest -> i = byte_len pre ->
  layout_text gap -> wf_rules D l 0 rs -> Forall (rule_kind_ok k) rs -> rules_end rest -> tok_inv D a ->
  exists n',
    parse_rules true fa fp k src (byte_len src) (fuel_for src) (mkSt n a g e) i
    = Done (mkSt n' (rules_eff fa fp l 0 (i + 2 + byte_len gap) (actiont_of g) rs a) g e,
            Ok (i + 2 + byte_len gap + byte_len (print_rules l 0 rs))).
Proof.
  intros k fa fp D l src pre gap rs rest i n a g e Hs Hi Hl Hw Hk He Hinv.
  unfold parse_rules. look1 Hs Hi. change (byte_len kw_pp) with 2.
  assert (Hs1 : src = (pre ++ kw_pp) ++ gap ++ (print_rules l 0 rs ++ rest)) by (rewrite Hs; lsolve).
  assert (Hi1 : i + 2 = byte_len (pre ++ kw_pp)) by (subst i; rewrite byte_len_app; reflexivity).
  rewrite (ws_gap _ _ _ _ _ _ _ _ _ true Hs1 Hi1 Hl
             (print_rules_item_start_app _ _ _ _ _ Hw (rules_end_item_start _ He))) by (intros HH; discriminate HH).
  cbn [sbind].
  assert (Hs2 : src = ((pre ++ kw_pp) ++ gap) ++ print_rules l 0 rs ++ rest) by (rewrite Hs; lsolve).
  assert (Hi2 : i + 2 + byte_len gap = byte_len ((pre ++ kw_pp) ++ gap)) by (subst i; rewrite !byte_len_app; reflexivity).
  assert (Hlen : List.length rs < fuel_for src).
  { unfold fuel_for. rewrite Hs2. rewrite (byte_len_app _ (print_rules l 0 rs ++ rest)), (byte_len_app (print_rules l 0 rs)).
    assert (Hle : forall rs r, wf_rules D l r rs -> List.length rs <= byte_len (print_rules l r rs)).
    { clear. intros rs. induction rs as [|x rs IH]; intros r Hw; [cbn; lia|].
      cbn [wf_rules print_rules List.length] in *. destruct Hw as [[Hn _] Hw'].
      destruct (print_rule_hd (rlay_of l r) x Hn) as [c [t [E _]]].
      rewrite byte_len_app, E. cbn [byte_len]. pose proof (len_utf8_pos c). specialize (IH _ Hw'). lia. }
    specialize (Hle rs 0 Hw). lia. }
  destruct (rules_loop_at k fa fp D l rs 0 src _ rest _ (fuel_for src) (n + count_nl gap) a g e Hs2 Hi2 Hw Hk He Hinv Hlen) as [n' Hn'].
  exists n'. rewrite Hn'. reflexivity.
Qed.
