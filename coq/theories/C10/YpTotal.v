(* C12 (yacc part) — totality of the mirror of YaccParser: every function returns
   (never Panic, never OutOfFuel with fuel > |src|) and leaves the cursor on a
   character boundary. *)
From Coq Require Import List Arith NArith ZArith Bool Lia.
From GV Require Import Common.Outcome C10.YpModel C10.YpSpec C10.YpProofs.
Import ListNotations.
Local Open Scope nat_scope.

(* ======================================================================== *)
(*  Totality: valid cursor positions                                          *)
(* ======================================================================== *)
Definition vpos (src : str) (i : nat) : Prop := exists pre r, src = pre ++ r /\ byte_len pre = i.

Lemma vpos_0 : forall src, vpos src 0.
Proof. intros src. exists [], src. split; reflexivity. Qed.

Lemma vpos_len : forall src, vpos src (byte_len src).
Proof. intros src. exists src, []. split; [rewrite app_nil_r; reflexivity | reflexivity]. Qed.

Lemma vpos_le : forall src i, vpos src i -> i <= byte_len src.
Proof. intros src i [pre [r [H1 H2]]]. subst. rewrite byte_len_app. lia. Qed.

Lemma vpos_slice_from : forall src i, vpos src i ->
  exists pre r, src = pre ++ r /\ byte_len pre = i /\ slice_from src i = Done r.
Proof.
  intros src i [pre [r [H1 H2]]]. exists pre, r. repeat split; try assumption.
  subst. apply slice_from_app.
Qed.

Lemma vpos_next : forall src i, vpos src i -> i < byte_len src ->
  exists c, next_char src i = Done c /\ char_at src i = Done (Some c) /\ vpos src (i + len_utf8 c).
Proof.
  intros src i [pre [r [H1 H2]]] Hlt. destruct r as [|c tl].
  - subst. rewrite app_nil_r in Hlt. lia.
  - exists c. subst. split; [apply next_char_app|]. split; [apply char_at_app|].
    exists (pre ++ [c]), tl. split; [apply snoc_app | apply byte_len_snoc].
Qed.

Lemma char_at_total : forall src i, vpos src i -> exists o, char_at src i = Done o.
Proof.
  intros src i Hv. destruct (vpos_slice_from src i Hv) as [pre [r [_ [_ Hs]]]].
  unfold char_at. rewrite Hs. eexists. reflexivity.
Qed.

Lemma prefix_of_app : forall p s, prefix_of p s = true -> exists t, s = p ++ t.
Proof.
  induction p as [|a p IH]; intros s H.
  - exists s. reflexivity.
  - destruct s as [|b s]; [discriminate H|]. simpl in H. apply andb_true_iff in H.
    destruct H as [Hab Hp]. apply N.eqb_eq in Hab. subst b.
    destruct (IH s Hp) as [t Ht]. exists t. subst s. reflexivity.
Qed.

Definition look_post (src : str) (s : str) (i : nat) (o : option nat) : Prop :=
  match o with Some j => j = i + byte_len s /\ vpos src j | None => True end.

Lemma vpos_look : forall src s i, vpos src i ->
  exists o, lookahead_is src s i = Done o /\ look_post src s i o.
Proof.
  intros src s i Hv. destruct (vpos_slice_from src i Hv) as [pre [r [H1 [H2 Hs]]]].
  unfold lookahead_is. rewrite Hs. cbn [obind].
  destruct (prefix_of s r) eqn:Hp.
  - eexists. split; [reflexivity|]. split; [reflexivity|].
    destruct (prefix_of_app s r Hp) as [t Ht]. exists (pre ++ s), t.
    split; [subst; rewrite <- app_assoc; reflexivity | rewrite byte_len_app; lia].
  - exists None. split; [reflexivity | exact I].
Qed.

Lemma prefix_cmp : forall (a b c d : str),
  a ++ b = c ++ d -> byte_len a <= byte_len c -> exists m, c = a ++ m.
Proof.
  induction a as [|x a IH]; intros b c d H Hle.
  - exists c. reflexivity.
  - destruct c as [|y c].
    + simpl in Hle. pose proof (len_utf8_pos x). lia.
    + simpl in H. injection H as Hxy H. subst y. simpl in Hle.
      destruct (IH b c d H) as [m Hm]; [lia|]. exists m. subst c. reflexivity.
Qed.

Lemma vpos_slice : forall src i j, vpos src i -> vpos src j -> i <= j ->
  exists s, slice src i j = Done s /\ byte_len s = j - i.
Proof.
  intros src i j [p1 [r1 [H1 H1']]] [p2 [r2 [H2 H2']]] Hle.
  destruct (prefix_cmp p1 r1 p2 r2) as [m Hm]; [congruence | lia |].
  exists m. subst p2. rewrite byte_len_app in H2'.
  assert (Hsrc : src = p1 ++ m ++ r2) by (rewrite H2, <- app_assoc; reflexivity).
  rewrite Hsrc. subst i j. rewrite slice_app. split; [reflexivity | lia].
Qed.

Lemma mk_span_total : forall s e, s <= e -> mk_span s e = Done (s, e).
Proof. intros s e H. unfold mk_span. destruct (Nat.ltb_spec e s); [lia | reflexivity]. Qed.

(* ---- lexical layer: every function returns, on a character boundary ------- *)
Definition lex_post {A} (P : A -> Prop) (x : pres A) : Prop :=
  match x with Done (Ok a) => P a | Done (Err _) => True | _ => False end.

Lemma line_comment_vpos : forall r src pre i nn,
  src = pre ++ r -> byte_len pre = i ->
  vpos src (fst (line_comment r i nn)) /\ i <= fst (line_comment r i nn).
Proof.
  induction r as [|c r IH]; intros src pre i nn Hs Hi.
  - simpl. split; [exists pre, []; split; assumption | lia].
  - simpl. destruct (is_nl c).
    + simpl. split; [|lia]. exists (pre ++ [c]), r. split; [rewrite Hs; apply snoc_app | rewrite byte_len_snoc; lia].
    + destruct (IH src (pre ++ [c]) (i + len_utf8 c) nn) as [H1 H2].
      * rewrite Hs. apply snoc_app.
      * rewrite byte_len_snoc. lia.
      * split; [exact H1 | lia].
Qed.

Lemma block_loop_total : forall fixed src f k nn inc,
  vpos src k -> byte_len src - k < f ->
  exists b, block_loop fixed src (byte_len src) f k nn inc = Done b /\
            match b with BFound i _ => vpos src i /\ k < i | _ => True end.
Proof.
  intros fixed src f. induction f as [|f IH]; intros k nn inc Hv Hf; [lia|].
  cbn [block_loop]. destruct (Nat.ltb_spec k (byte_len src)) as [Hlt|Hge]; cbn [negb].
  2:{ exists BNotFound. split; [reflexivity | exact I]. }
  destruct (vpos_next src k Hv Hlt) as [c [Hnc [_ Hv1]]]. rewrite Hnc. cbn [obind].
  pose proof (len_utf8_pos c) as Hc.
  assert (Hrec : forall nn1, exists b,
             block_loop fixed src (byte_len src) f (k + len_utf8 c) nn1 inc = Done b /\
             match b with BFound i _ => vpos src i /\ k < i | _ => True end).
  { intros nn1. destruct (IH (k + len_utf8 c) nn1 inc Hv1) as [b [Hb Hp]]; [lia|].
    exists b. split; [exact Hb|]. destruct b; try exact I. destruct Hp. split; [assumption|lia]. }
  assert (Hcheck : forall nn1, exists b,
             (if k + len_utf8 c <? byte_len src
              then do c2 <- next_char src (k + len_utf8 c);
                   if (c2 =? c_slash)%N then Done (BFound (k + len_utf8 c + len_utf8 c2) nn1)
                   else block_loop fixed src (byte_len src) f (k + len_utf8 c) nn1 inc
              else block_loop fixed src (byte_len src) f (k + len_utf8 c) nn1 inc) = Done b /\
             match b with BFound i _ => vpos src i /\ k < i | _ => True end).
  { intros nn1. destruct (Nat.ltb_spec (k + len_utf8 c) (byte_len src)) as [Hlt1|Hge1]; [|apply Hrec].
    destruct (vpos_next src _ Hv1 Hlt1) as [c2 [Hnc2 [_ Hv2]]]. rewrite Hnc2. cbn [obind].
    destruct (c2 =? c_slash)%N; [|apply Hrec].
    eexists. split; [reflexivity|]. split; [exact Hv2 | pose proof (len_utf8_pos c2); lia]. }
  destruct (is_nl c).
  - destruct inc; cbn [negb].
    + destruct fixed; [apply Hrec | apply Hcheck].
    + exists BEol. split; [reflexivity | exact I].
  - destruct (c =? c_star)%N; [apply Hcheck | apply Hrec].
Qed.

Definition pos_post (src : str) (i : nat) (strict : bool) (j : nat) : Prop :=
  vpos src j /\ (if strict then i < j else i <= j).

Lemma ws_loop_total : forall fixed src fuel f nn i inc,
  byte_len src < fuel -> vpos src i -> byte_len src - i < f ->
  lex_post (fun r => pos_post src i false (fst r))
           (ws_loop fixed src (byte_len src) fuel f nn i inc).
Proof.
  intros fixed src fuel f. induction f as [|f IH]; intros nn i inc Hfuel Hv Hf; [lia|].
  cbn [ws_loop]. destruct (Nat.ltb_spec i (byte_len src)) as [Hlt|Hge]; cbn [negb].
  2:{ simpl. split; [exact Hv | lia]. }
  destruct (vpos_next src i Hv Hlt) as [c [Hnc [_ Hv1]]]. rewrite Hnc. cbn [obind].
  pose proof (len_utf8_pos c) as Hc.
  assert (Hrec : forall nn1 i1, vpos src i1 -> i < i1 ->
            lex_post (fun r => pos_post src i false (fst r))
                     (ws_loop fixed src (byte_len src) fuel f nn1 i1 inc)).
  { intros nn1 i1 Hv' Hlt'. specialize (IH nn1 i1 inc Hfuel Hv').
    destruct (ws_loop fixed src (byte_len src) fuel f nn1 i1 inc) as [[[j n]|e]| |]; simpl in *;
      try (apply IH; lia); try exact I.
    destruct IH as [H1 H2]; [lia|]. split; [exact H1 | lia]. }
  destruct (is_sptab c); [apply Hrec; [exact Hv1 | lia]|].
  destruct (is_nl c).
  { destruct inc; cbn [negb]; [apply Hrec; [exact Hv1 | lia] | exact I]. }
  destruct (c =? c_slash)%N eqn:Hsl.
  2:{ simpl. split; [exact Hv | lia]. }
  destruct (Nat.eqb_spec (i + len_utf8 c) (byte_len src)) as [He|Hne].
  { simpl. split; [exact Hv | lia]. }
  assert (Hlt1 : i + len_utf8 c < byte_len src) by (pose proof (vpos_le _ _ Hv1); lia).
  destruct (vpos_next src _ Hv1 Hlt1) as [c2 [Hnc2 [_ Hv2]]]. rewrite Hnc2. cbn [obind].
  pose proof (len_utf8_pos c2) as Hc2.
  destruct (c2 =? c_slash)%N.
  - destruct (vpos_slice_from src _ Hv2) as [pre [r [Hs [Hb Hsf]]]]. rewrite Hsf. cbn [obind].
    destruct (line_comment_vpos r src pre (i + len_utf8 c + len_utf8 c2) nn Hs Hb) as [Hl1 Hl2].
    destruct (line_comment r (i + len_utf8 c + len_utf8 c2) nn) as [i2 nn2]. simpl in Hl1, Hl2.
    apply Hrec; [exact Hl1 | lia].
  - destruct (c2 =? c_star)%N.
    2:{ simpl. split; [exact Hv | lia]. }
    destruct (block_loop_total fixed src fuel (i + len_utf8 c + len_utf8 c2) nn inc Hv2) as [b [Hb Hp]]; [lia|].
    rewrite Hb. cbn [obind]. destruct b as [i' nn'| |]; try exact I.
    destruct Hp as [Hp1 Hp2]. apply Hrec; [exact Hp1 | lia].
Qed.

Lemma parse_ws_total : forall fixed src fuel nn i inc,
  byte_len src < fuel -> vpos src i ->
  lex_post (fun r => pos_post src i false (fst r)) (parse_ws fixed src (byte_len src) fuel nn i inc).
Proof.
  intros. unfold parse_ws. apply ws_loop_total; try assumption. pose proof (vpos_le _ _ H0). lia.
Qed.
Lemma parse_name_total : forall src i, vpos src i ->
  lex_post (fun r => pos_post src i true (fst r)) (parse_name src i).
Proof.
  intros src i Hv. destruct (vpos_slice_from src i Hv) as [pre [r [Hs [Hb Hsf]]]].
  unfold parse_name. rewrite Hsf. cbn [obind].
  destruct r as [|c r']; [exact I|]. cbn [re_name].
  destruct (name_start c) eqn:Hc; [|exact I].
  (* the matched text is a prefix of r *)
  set (k := count_while name_cont r').
  assert (Hpre : exists m t, r' = m ++ t /\ List.length m = k /\ forallb name_cont m = true).
  { subst k. clear. induction r' as [|d r IH].
    - exists [], []. repeat split.
    - simpl. destruct (name_cont d) eqn:Hd.
      + destruct IH as [m [t [H1 [H2 H3]]]]. exists (d :: m), t.
        split; [simpl; congruence|]. split; [simpl; congruence|]. simpl. rewrite Hd. exact H3.
      + exists [], (d :: r). repeat split. }
  destruct Hpre as [m [t [Hr [Hlen Hm]]]].
  assert (Hbl : byte_len (c :: m) = S k).
  { rewrite (byte_len_ascii name_cont (c :: m) name_cont_ascii).
    - simpl. congruence.
    - simpl. unfold name_cont at 1. rewrite Hc. exact Hm. }
  assert (Hsrc : src = pre ++ (c :: m) ++ t) by (rewrite Hs, Hr; reflexivity).
  assert (Hsl : slice src i (i + S k) = Done (c :: m)).
  { rewrite <- Hbl, <- Hb. rewrite Hsrc. apply slice_app. }
  rewrite Hsl. cbn [obind]. simpl. split; [|lia].
  exists (pre ++ c :: m), t. split; [rewrite Hsrc, <- app_assoc; reflexivity|].
  rewrite byte_len_app. lia.
Qed.
Lemma count_while_split : forall p (r : str),
  exists m t, r = m ++ t /\ List.length m = count_while p r /\ forallb p m = true.
Proof.
  intros p r. induction r as [|d r IH].
  - exists [], []. repeat split.
  - simpl. destruct (p d) eqn:Hd.
    + destruct IH as [m [t [H1 [H2 H3]]]]. exists (d :: m), t.
      split; [simpl; congruence|]. split; [simpl; congruence|]. simpl. rewrite Hd. exact H3.
    + exists [], (d :: r). repeat split.
Qed.

Lemma scan_quote_split : forall q r n, scan_quote q r = Some n ->
  exists m t, r = m ++ q :: t /\ byte_len m = n.
Proof.
  intros q r. induction r as [|c r IH]; intros n H; [discriminate H|].
  simpl in H. destruct (c =? q)%N eqn:Hq.
  - injection H as <-. apply N.eqb_eq in Hq. subst c. exists [], r. split; reflexivity.
  - destruct (c =? c_nl)%N; [discriminate H|].
    destruct (scan_quote q r) as [n'|]; [|discriminate H]. injection H as <-.
    destruct (IH n' eq_refl) as [m [t [H1 H2]]]. exists (c :: m), t.
    split; [simpl; congruence | simpl; lia].
Qed.

Lemma vpos_app : forall src pre r, src = pre ++ r -> vpos src (byte_len pre).
Proof. intros src pre r H. exists pre, r. split; [exact H | reflexivity]. Qed.

Lemma parse_token_total : forall src i, vpos src i ->
  lex_post (fun r => pos_post src i true (fst (fst (fst r)))) (parse_token src i).
Proof.
  intros src i Hv. destruct (vpos_slice_from src i Hv) as [pre [r [Hs [Hb Hsf]]]].
  unfold parse_token. rewrite Hsf. cbn [obind].
  destruct r as [|c r']; [exact I|]. cbn [re_token].
  assert (Hnc : next_char src i = Done c) by (rewrite Hs, <- Hb; apply next_char_app).
  destruct ((c =? c_dq) || (c =? c_sq))%N eqn:Hq.
  - (* quoted *)
    assert (Hc1 : len_utf8 c = 1).
    { apply orb_true_iff in Hq. destruct Hq as [H|H]; apply N.eqb_eq in H; subst c; reflexivity. }
    destruct r' as [|c1 r'']; [exact I|].
    destruct (c1 =? c_nl)%N; [exact I|].
    destruct (scan_quote c r'') as [n|] eqn:Hsq; [|exact I].
    destruct (scan_quote_split c r'' n Hsq) as [m [t [Hr Hm]]].
    rewrite Hnc. cbn [obind]. rewrite Hq.
    pose proof (len_utf8_pos c1) as Hc1p.
    destruct (Nat.eqb_spec (i + (1 + len_utf8 c1 + n + 1)) 0) as [H0|_]; [lia|].
    assert (Hsrc1 : src = (pre ++ [c]) ++ (c1 :: m) ++ c :: t)
      by (rewrite Hs, Hr, <- app_assoc; reflexivity).
    assert (Hv1 : vpos src (i + 1)).
    { replace (i + 1) with (byte_len (pre ++ [c])) by (rewrite byte_len_snoc; lia).
      apply (vpos_app _ _ _ Hsrc1). }
    assert (Hsrc2 : src = (pre ++ [c] ++ c1 :: m) ++ c :: t)
      by (rewrite Hsrc1; repeat rewrite <- app_assoc; reflexivity).
    assert (Hv2 : vpos src (i + (1 + len_utf8 c1 + n + 1) - 1)).
    { replace (i + (1 + len_utf8 c1 + n + 1) - 1) with (byte_len (pre ++ [c] ++ c1 :: m))
        by (rewrite !byte_len_app; simpl byte_len; lia).
      apply (vpos_app _ _ _ Hsrc2). }
    destruct (vpos_slice src _ _ Hv1 Hv2) as [s [Hsl _]]; [lia|].
    rewrite Hsl. cbn [obind]. rewrite mk_span_total by lia. cbn [obind]. simpl.
    split; [|lia].
    assert (Hsrc3 : src = ((pre ++ [c] ++ c1 :: m) ++ [c]) ++ t)
      by (rewrite Hsrc2; repeat rewrite <- app_assoc; reflexivity).
    match goal with |- vpos src ?x =>
      replace x with (byte_len ((pre ++ [c] ++ c1 :: m) ++ [c]))
        by (rewrite !byte_len_app; simpl byte_len; lia) end.
    apply (vpos_app _ _ _ Hsrc3).
  - destruct (tok_start c) eqn:Hc; [|exact I].
    destruct (count_while_split tok_cont r') as [m [t [Hr [Hlen Hm]]]].
    set (k := count_while tok_cont r') in *.
    assert (Hbl : byte_len (c :: m) = S k).
    { rewrite (byte_len_ascii tok_cont (c :: m) tok_cont_ascii).
      - simpl. congruence.
      - simpl. unfold tok_cont at 1. unfold tok_start in Hc. rewrite Hc. exact Hm. }
    assert (Hsrc : src = pre ++ (c :: m) ++ t) by (rewrite Hs, Hr; reflexivity).
    assert (Hsl : slice src i (i + S k) = Done (c :: m)).
    { rewrite <- Hbl, <- Hb. rewrite Hsrc. apply slice_app. }
    rewrite Hnc. cbn [obind]. rewrite Hq. rewrite Hsl. cbn [obind].
    rewrite mk_span_total by lia. cbn [obind]. simpl. split; [|lia].
    assert (Hsrc' : src = (pre ++ c :: m) ++ t) by (rewrite Hsrc, <- app_assoc; reflexivity).
    match goal with |- vpos src ?x =>
      replace x with (byte_len (pre ++ c :: m)) by (rewrite byte_len_app; lia) end.
    apply (vpos_app _ _ _ Hsrc').
Qed.
Lemma char_at_some : forall src k c, vpos src k -> char_at src k = Done (Some c) ->
  vpos src (k + len_utf8 c) /\ k < byte_len src /\ next_char src k = Done c.
Proof.
  intros src k c Hv H. destruct (vpos_slice_from src k Hv) as [pre [r [Hs [Hb Hsf]]]].
  unfold char_at in H. rewrite Hsf in H. cbn [obind] in H. destruct r as [|d t]; [discriminate H|].
  simpl in H. injection H as <-. split.
  - replace (k + len_utf8 d) with (byte_len (pre ++ [d])) by (rewrite byte_len_snoc; lia).
    apply (vpos_app src (pre ++ [d]) t). rewrite Hs. apply snoc_app.
  - split.
    + rewrite Hs, byte_len_app. simpl. pose proof (len_utf8_pos d). lia.
    + unfold next_char, char_at. rewrite Hsf. reflexivity.
Qed.

Lemma next_char_look : forall src j c, vpos src j -> next_char src j = Done c ->
  lookahead_is src [c] j = Done (Some (j + len_utf8 c)).
Proof.
  intros src j c Hv H. destruct (vpos_slice_from src j Hv) as [pre [r [Hs [Hb Hsf]]]].
  unfold next_char, char_at in H. rewrite Hsf in H. cbn [obind] in H.
  destruct r as [|d t]; [discriminate H|]. simpl in H. injection H as <-.
  unfold lookahead_is. rewrite Hsf. cbn [obind prefix_of]. rewrite N.eqb_refl. simpl. f_equal. f_equal. lia.
Qed.

Lemma look_next_char : forall src j c k, vpos src j -> lookahead_is src [c] j = Done (Some k) ->
  next_char src j = Done c /\ j < byte_len src.
Proof.
  intros src j c k Hv H. destruct (vpos_slice_from src j Hv) as [pre [r [Hs [Hb Hsf]]]].
  unfold lookahead_is in H. rewrite Hsf in H. cbn [obind] in H.
  destruct r as [|d t]; [discriminate H|]. simpl in H.
  destruct (c =? d)%N eqn:Hcd; [|discriminate H]. apply N.eqb_eq in Hcd. subst d.
  split.
  - unfold next_char, char_at. rewrite Hsf. reflexivity.
  - rewrite Hs, byte_len_app. simpl. pose proof (len_utf8_pos c). lia.
Qed.

(* parse_action *)
Lemma action_loop_total : forall src f j c nn,
  vpos src j -> (1 <= c)%Z -> byte_len src - j < f ->
  exists j' c' nn', action_loop src (byte_len src) f j c nn = Done (j', c', nn') /\
    vpos src j' /\ j <= j' /\
    ((0 < c')%Z \/ (c' = 0%Z /\ next_char src j' = Done c_rbrace)).
Proof.
  intros src f. induction f as [|f IH]; intros j c nn Hv Hc Hf; [lia|].
  cbn [action_loop]. destruct (Nat.ltb_spec j (byte_len src)) as [Hlt|Hge]; cbn [negb].
  { destruct (vpos_next src j Hv Hlt) as [ch [Hnc [_ Hv1]]]. rewrite Hnc. cbn [obind].
    pose proof (len_utf8_pos ch) as Hch.
    assert (Hrec : forall c1 nn1, (1 <= c1)%Z -> exists j' c' nn',
               action_loop src (byte_len src) f (j + len_utf8 ch) c1 nn1 = Done (j', c', nn') /\
               vpos src j' /\ j <= j' /\ ((0 < c')%Z \/ (c' = 0%Z /\ next_char src j' = Done c_rbrace))).
    { intros c1 nn1 Hc1. destruct (IH (j + len_utf8 ch) c1 nn1 Hv1 Hc1) as [j' [c' [nn' [H1 [H2 [H3 H4]]]]]]; [lia|].
      exists j', c', nn'. repeat split; try assumption. lia. }
    destruct (ch =? c_lbrace)%N; [apply Hrec; lia|].
    destruct (ch =? c_rbrace)%N eqn:Hrb.
    - destruct (Z.eqb_spec c 1).
      + exists j, 0%Z, nn. repeat split; try assumption; try lia.
        right. split; [reflexivity|]. apply N.eqb_eq in Hrb. subst ch. exact Hnc.
      + apply Hrec. lia.
    - destruct (is_nl ch); apply Hrec; lia. }
  exists j, c, nn. repeat split; try assumption; try lia.
Qed.

Lemma parse_action_total : forall src fuel nn i k,
  byte_len src < fuel -> vpos src i -> lookahead_is src [c_lbrace] i = Done (Some k) ->
  lex_post (fun r => pos_post src i true (fst (fst r))) (parse_action src (byte_len src) fuel nn i).
Proof.
  intros src fuel nn i k Hfuel Hv Hla. unfold parse_action. rewrite Hla. cbn [obind].
  destruct (look_next_char src i c_lbrace k Hv Hla) as [Hnc Hlt].
  destruct fuel as [|f]; [lia|]. cbn [action_loop].
  destruct (Nat.ltb_spec i (byte_len src)) as [_|Hge]; [|lia]. cbn [negb]. rewrite Hnc. cbn [obind].
  rewrite N.eqb_refl. change (len_utf8 c_lbrace) with 1.
  destruct (vpos_next src i Hv Hlt) as [ch [Hnc' [_ Hv1]]].
  rewrite Hnc in Hnc'. injection Hnc' as <-. change (len_utf8 c_lbrace) with 1 in Hv1.
  destruct (action_loop_total src f (i + 1) (0 + 1)%Z nn Hv1) as [j' [c' [nn' [H1 [H2 [H3 H4]]]]]]; [lia|lia|].
  rewrite H1. cbn [obind].
  destruct H4 as [Hpos|[Hz Hrb]].
  - apply Z.ltb_lt in Hpos. rewrite Hpos. exact I.
  - subst c'. change (0 <? 0)%Z with false. cbv iota.
    rewrite (next_char_look src j' c_rbrace H2 Hrb). cbn [obind].
    destruct (vpos_slice src (i + 1) j' Hv1 H2 H3) as [s [Hsl _]]. rewrite Hsl. cbn [obind].
    simpl. split; [|lia].
    assert (Hlt' : j' < byte_len src).
    { destruct (Nat.lt_ge_cases j' (byte_len src)) as [Hl|Hg]; [exact Hl|].
      exfalso. pose proof (vpos_le _ _ H2).
      destruct (vpos_slice_from src j' H2) as [pre [r [Hs [Hb Hsf]]]].
      unfold next_char, char_at in Hrb. rewrite Hsf in Hrb. cbn [obind] in Hrb.
      destruct r as [|d t]; [discriminate Hrb|].
      rewrite Hs, byte_len_app in Hg. simpl in Hg. pose proof (len_utf8_pos d). lia. }
    destruct (vpos_next src j' H2 Hlt') as [ch [Hnc2 [_ Hv2]]].
    rewrite Hrb in Hnc2. injection Hnc2 as <-. exact Hv2.
Qed.

Lemma byte_len_0 : forall s, byte_len s = 0 -> s = [].
Proof. intros s H. destruct s as [|c s]; [reflexivity|]. simpl in H. pose proof (len_utf8_pos c). lia. Qed.

Lemma vpos_slice_strong : forall src i j, vpos src i -> vpos src j -> i <= j ->
  exists p s r, src = p ++ s ++ r /\ byte_len p = i /\ byte_len s = j - i /\ slice src i j = Done s.
Proof.
  intros src i j [p1 [r1 [H1 H1']]] [p2 [r2 [H2 H2']]] Hle.
  destruct (prefix_cmp p1 r1 p2 r2) as [m Hm]; [congruence | lia |].
  exists p1, m, r2. subst p2. rewrite byte_len_app in H2'.
  assert (Hsrc : src = p1 ++ m ++ r2) by (rewrite H2, <- app_assoc; reflexivity).
  split; [exact Hsrc|]. split; [exact H1'|]. split; [lia|].
  rewrite Hsrc. subst i j. apply slice_app.
Qed.

(* what parse_action returns: the text between the braces, trimmed *)
Definition act_rel (src : str) (i j : nat) (a : str) : Prop :=
  exists pre s rest, src = pre ++ c_lbrace :: s ++ c_rbrace :: rest /\ byte_len pre = i /\
                     j = i + 1 + byte_len s + 1 /\ a = trim s.

Lemma parse_action_rel : forall src fuel nn i k,
  byte_len src < fuel -> vpos src i -> lookahead_is src [c_lbrace] i = Done (Some k) ->
  lex_post (fun r => act_rel src i (fst (fst r)) (snd (fst r))) (parse_action src (byte_len src) fuel nn i).
Proof.
  intros src fuel nn i k Hfuel Hv Hla. unfold parse_action. rewrite Hla. cbn [obind].
  destruct (look_next_char src i c_lbrace k Hv Hla) as [Hnc Hlt].
  destruct fuel as [|f]; [lia|]. cbn [action_loop].
  destruct (Nat.ltb_spec i (byte_len src)) as [_|Hge]; [|lia]. cbn [negb]. rewrite Hnc. cbn [obind].
  rewrite N.eqb_refl. change (len_utf8 c_lbrace) with 1.
  destruct (vpos_next src i Hv Hlt) as [ch [Hnc' [_ Hv1]]].
  rewrite Hnc in Hnc'. injection Hnc' as <-. change (len_utf8 c_lbrace) with 1 in Hv1.
  destruct (action_loop_total src f (i + 1) (0 + 1)%Z nn Hv1) as [j' [c' [nn' [H1 [H2 [H3 H4]]]]]]; [lia|lia|].
  rewrite H1. cbn [obind].
  destruct H4 as [Hpos|[Hz Hrb]].
  - apply Z.ltb_lt in Hpos. rewrite Hpos. exact I.
  - subst c'. change (0 <? 0)%Z with false. cbv iota.
    rewrite (next_char_look src j' c_rbrace H2 Hrb). cbn [obind].
    destruct (vpos_slice_strong src (i + 1) j' Hv1 H2 H3) as [p [s [r [Hsrc [Hp [Hs Hsl]]]]]].
    rewrite Hsl. cbn [obind]. simpl.
    (* r starts with the closing brace *)
    assert (Hr : exists rest, r = c_rbrace :: rest).
    { assert (Hsf : slice_from src j' = Done r).
      { replace j' with (byte_len (p ++ s)) by (rewrite byte_len_app; lia).
        rewrite Hsrc, app_assoc. apply slice_from_app. }
      unfold next_char, char_at in Hrb. rewrite Hsf in Hrb. cbn [obind] in Hrb.
      destruct r as [|d t]; [discriminate Hrb|]. simpl in Hrb. injection Hrb as ->. exists t. reflexivity. }
    destruct Hr as [rest Hr]. subst r.
    (* p is the text before the opening brace plus the brace *)
    destruct (vpos_slice_from src i Hv) as [pre [r0 [Hs0 [Hb0 Hsf0]]]].
    assert (Hr0 : exists t0, r0 = c_lbrace :: t0).
    { unfold next_char, char_at in Hnc. rewrite Hsf0 in Hnc. cbn [obind] in Hnc.
      destruct r0 as [|d t]; [discriminate Hnc|]. simpl in Hnc. injection Hnc as ->. exists t. reflexivity. }
    destruct Hr0 as [t0 Hr0]. subst r0.
    assert (Hpp : p = pre ++ [c_lbrace]).
    { destruct (prefix_cmp (pre ++ [c_lbrace]) t0 p (s ++ c_rbrace :: rest)) as [m Hm].
      - rewrite <- app_assoc. cbn [app]. congruence.
      - rewrite byte_len_snoc. change (len_utf8 c_lbrace) with 1. lia.
      - assert (Hm0 : byte_len m = 0).
        { rewrite Hm, byte_len_app, byte_len_snoc in Hp. change (len_utf8 c_lbrace) with 1 in Hp. lia. }
        apply byte_len_0 in Hm0. subst m. rewrite app_nil_r in Hm. exact Hm. }
    exists pre, s, rest. split; [rewrite Hsrc, Hpp, <- app_assoc; reflexivity|].
    split; [exact Hb0|]. split; [lia | reflexivity].
Qed.

Lemma action_span_total : forall fa src pas a, vpos src pas -> exists sp, action_span fa src pas a = Done sp.
Proof.
  intros fa src pas a Hv. unfold action_span. destruct fa.
  - destruct (vpos_slice_from src pas Hv) as [pre [r [_ [_ Hsf]]]]. rewrite Hsf. cbn [obind].
    rewrite mk_span_total by lia. eexists. reflexivity.
  - rewrite mk_span_total by lia. eexists. reflexivity.
Qed.

(* parse_to_eol *)
Lemma eol_loop_total : forall src f j, vpos src j -> byte_len src - j < f ->
  exists k, eol_loop src (byte_len src) f j = Done k /\ vpos src k /\ j <= k.
Proof.
  intros src f. induction f as [|f IH]; intros j Hv Hf; [lia|].
  cbn [eol_loop]. destruct (Nat.ltb_spec j (byte_len src)) as [Hlt|Hge]; cbn [negb].
  2:{ exists j. repeat split; [exact Hv | lia]. }
  destruct (vpos_next src j Hv Hlt) as [c [Hnc [_ Hv1]]]. rewrite Hnc. cbn [obind].
  pose proof (len_utf8_pos c). destruct (is_nl c).
  - exists j. repeat split; [exact Hv | lia].
  - destruct (IH (j + len_utf8 c) Hv1) as [k [H1 [H2 H3]]]; [lia|]. exists k. repeat split; try assumption. lia.
Qed.

Lemma parse_to_eol_total : forall src fuel i, byte_len src < fuel -> vpos src i ->
  lex_post (fun r => pos_post src i false (fst r)) (parse_to_eol src (byte_len src) fuel i).
Proof.
  intros src fuel i Hfuel Hv. unfold parse_to_eol.
  destruct (eol_loop_total src fuel i Hv) as [k [H1 [H2 H3]]]; [pose proof (vpos_le _ _ Hv); lia|].
  rewrite H1. cbn [obind]. destruct (vpos_slice src i k Hv H2 H3) as [s [Hsl _]]. rewrite Hsl. cbn [obind].
  simpl. split; assumption.
Qed.

(* parse_to_single_colon *)
Lemma colon_loop_total : forall src f i j nn, vpos src i -> vpos src j -> i <= j ->
  byte_len src - j < f ->
  lex_post (fun r => pos_post src i false (fst (fst r))) (colon_loop src (byte_len src) f i j nn).
Proof.
  intros src f. induction f as [|f IH]; intros i j nn Hvi Hv Hij Hf; [lia|].
  cbn [colon_loop]. destruct (Nat.ltb_spec j (byte_len src)) as [Hlt|Hge]; cbn [negb]; [|exact I].
  destruct (vpos_next src j Hv Hlt) as [c [Hnc [_ Hv1]]]. rewrite Hnc. cbn [obind].
  pose proof (len_utf8_pos c) as Hc.
  assert (Hrec : forall nn1, lex_post (fun r => pos_post src i false (fst (fst r)))
                                      (colon_loop src (byte_len src) f i (j + len_utf8 c) nn1)).
  { intros nn1. apply IH; try assumption; lia. }
  destruct (c =? c_colon)%N eqn:Hcc.
  2:{ destruct (is_nl c); apply Hrec. }
  apply N.eqb_eq in Hcc. subst c. change (len_utf8 c_colon) with 1 in *.
  destruct (vpos_slice src i j Hvi Hv Hij) as [s [Hsl _]].
  destruct (Nat.eqb_spec (j + 1) (byte_len src)) as [He|Hne].
  - cbn [obind]. rewrite Hsl. cbn [obind]. simpl. split; assumption.
  - destruct (vpos_slice_from src (j + 1) Hv1) as [pre [r [Hs [Hb Hsf]]]]. rewrite Hsf. cbn [obind].
    destruct (prefix_of [c_colon] r) eqn:Hp; cbn [negb].
    + (* "::" *)
      destruct (prefix_of_app _ _ Hp) as [t Ht].
      assert (Hv2 : vpos src (j + 2)).
      { replace (j + 2) with (byte_len (pre ++ [c_colon])) by (rewrite byte_len_snoc; change (len_utf8 c_colon) with 1; lia).
        apply (vpos_app src (pre ++ [c_colon]) t). rewrite Hs, Ht, <- app_assoc. reflexivity. }
      apply IH; try assumption; lia.
    + rewrite Hsl. cbn [obind]. simpl. split; assumption.
Qed.

Lemma parse_to_single_colon_total : forall src fuel nn i, byte_len src < fuel -> vpos src i ->
  lex_post (fun r => pos_post src i false (fst (fst r))) (parse_to_single_colon src (byte_len src) fuel nn i).
Proof.
  intros. unfold parse_to_single_colon. apply colon_loop_total; try assumption; try lia.
Qed.

(* parse_int *)
Lemma int_loop_total : forall src f j, vpos src j -> byte_len src - j < f ->
  exists k, int_loop src (byte_len src) f j = Done k /\ vpos src k /\ j <= k.
Proof.
  intros src f. induction f as [|f IH]; intros j Hv Hf; [lia|].
  cbn [int_loop]. destruct (Nat.ltb_spec j (byte_len src)) as [Hlt|Hge]; cbn [negb].
  2:{ exists j. repeat split; [exact Hv | lia]. }
  destruct (vpos_next src j Hv Hlt) as [c [Hnc [_ Hv1]]]. rewrite Hnc. cbn [obind].
  destruct (is_digit c) eqn:Hd.
  - rewrite (ascii_len1 c (is_digit_ascii c Hd)) in Hv1.
    destruct (IH (j + 1) Hv1) as [k [H1 [H2 H3]]]; [lia|]. exists k. repeat split; try assumption. lia.
  - exists j. repeat split; [exact Hv | lia].
Qed.

Lemma parse_int_total : forall src fuel i, byte_len src < fuel -> vpos src i ->
  lex_post (fun r => pos_post src i false (fst r)) (parse_int src (byte_len src) fuel i).
Proof.
  intros src fuel i Hfuel Hv. unfold parse_int.
  destruct (int_loop_total src fuel i Hv) as [k [H1 [H2 H3]]]; [pose proof (vpos_le _ _ Hv); lia|].
  rewrite H1. cbn [obind]. destruct (vpos_slice src i k Hv H2 H3) as [s [Hsl _]]. rewrite Hsl. cbn [obind].
  destruct (parse_usize s); [|exact I]. simpl. split; assumption.
Qed.

(* parse_string *)
Lemma string_loop_total : forall src f qc i j s, len_utf8 qc = 1 ->
  vpos src i -> vpos src j -> i <= j -> byte_len src - j < f ->
  lex_post (fun r => pos_post src j true (fst r)) (string_loop src (byte_len src) f qc i j s).
Proof.
  intros src f. induction f as [|f IH]; intros qc i j s Hq1 Hvi Hv Hij Hf; [lia|].
  cbn [string_loop]. destruct (Nat.ltb_spec j (byte_len src)) as [Hlt|Hge]; cbn [negb]; [|exact I].
  destruct (vpos_next src j Hv Hlt) as [c [Hnc [_ Hv1]]]. rewrite Hnc. cbn [obind].
  pose proof (len_utf8_pos c) as Hc.
  destruct (is_nl c); [exact I|].
  destruct (vpos_slice src i j Hvi Hv Hij) as [t [Hsl _]].
  destruct (c =? qc)%N eqn:Hq.
  { rewrite Hsl. cbn [obind]. simpl. apply N.eqb_eq in Hq. subst qc. rewrite Hq1 in Hv1.
    split; [exact Hv1 | lia]. }
  destruct (c =? c_bslash)%N eqn:Hb.
  - apply N.eqb_eq in Hb. subst c. change (len_utf8 c_bslash) with 1 in Hv1.
    destruct (char_at_total src (j + 1) Hv1) as [o Ho]. rewrite Ho. cbn [obind].
    destruct o as [c2|]; [|exact I].
    destruct ((c2 =? c_sq) || (c2 =? c_dq))%N eqn:Hc2; [|exact I].
    rewrite Hsl. cbn [obind].
    destruct (char_at_some src (j + 1) c2 Hv1 Ho) as [Hv2 [Hlt2 _]].
    assert (H21 : len_utf8 c2 = 1).
    { apply orb_true_iff in Hc2. destruct Hc2 as [H|H]; apply N.eqb_eq in H; subst c2; reflexivity. }
    rewrite H21 in Hv2. replace (j + 1 + 1) with (j + 2) in Hv2 by lia.
    assert (IH' := IH qc (j + 1) (j + 2) (s ++ t) Hq1 Hv1 Hv2).
    destruct (string_loop src (byte_len src) f qc (j + 1) (j + 2) (s ++ t)) as [[[k v]|e]| |];
      simpl in *; try (apply IH'; lia); try exact I.
    destruct IH' as [H1 H2]; [lia|lia|]. split; [exact H1 | lia].
  - assert (IH' := IH qc i (j + len_utf8 c) s Hq1 Hvi Hv1).
    destruct (string_loop src (byte_len src) f qc i (j + len_utf8 c) s) as [[[k v]|e]| |];
      simpl in *; try (apply IH'; lia); try exact I.
    destruct IH' as [H1 H2]; [lia|lia|]. split; [exact H1 | lia].
Qed.

Lemma parse_string_total : forall src fuel i, byte_len src < fuel -> vpos src i ->
  lex_post (fun r => pos_post src i true (fst r)) (parse_string src (byte_len src) fuel i).
Proof.
  intros src fuel i Hfuel Hv. unfold parse_string.
  destruct (vpos_look src [c_sq] i Hv) as [o1 [H1 P1]]. rewrite H1. cbn [obind].
  assert (Hgo : forall q, len_utf8 q = 1 -> vpos src (i + 1) ->
            lex_post (fun r => pos_post src i true (fst r))
                     (string_loop src (byte_len src) fuel q (i + 1) (i + 1) [])).
  { intros q Hq1 Hv1. assert (HH := string_loop_total src fuel q (i + 1) (i + 1) [] Hq1 Hv1 Hv1).
    destruct (string_loop src (byte_len src) fuel q (i + 1) (i + 1) []) as [[[k v]|e]| |];
      simpl in *; try (apply HH; lia); try exact I.
    destruct HH as [Ha Hb]; [lia | pose proof (vpos_le _ _ Hv1); lia |]. split; [exact Ha | lia]. }
  destruct o1 as [k1|].
  - cbn [obind]. simpl in P1. destruct P1 as [Hk Hvk]. change (byte_len [c_sq]) with 1 in Hk. subst k1.
    apply Hgo; [reflexivity | exact Hvk].
  - destruct (vpos_look src [c_dq] i Hv) as [o2 [H2 P2]]. rewrite H2. cbn [obind].
    destruct o2 as [k2|]; [|exact I].
    simpl in P2. destruct P2 as [Hk Hvk]. change (byte_len [c_dq]) with 1 in Hk. subst k2.
    apply Hgo; [reflexivity | exact Hvk].
Qed.
(* ======================================================================== *)
(*  Totality: the stateful layer                                              *)
(* ======================================================================== *)
Lemma str_eqb_eq : forall a b, str_eqb a b = true <-> a = b.
Proof.
  induction a as [|x a IH]; intros b; destruct b as [|y b]; simpl; split; intros H;
    try reflexivity; try discriminate H.
  - apply andb_true_iff in H. destruct H as [H1 H2]. apply N.eqb_eq in H1. apply IH in H2. congruence.
  - injection H as -> ->. rewrite N.eqb_refl. apply IH. reflexivity.
Qed.
Lemma str_eqb_refl : forall a, str_eqb a a = true.
Proof. intros a. apply str_eqb_eq. reflexivity. Qed.

Definition errs_ok (l : list yerr) : Prop := Forall (fun e => e_spans e <> []) l.
Definition pidx_ok (a : gast) : Prop :=
  Forall (fun r => Forall (fun p => p < List.length (a_prods a)) (r_pidxs r)) (a_rules a).

Section WithPA.
(* a predicate on the action field of every production of the AST (True for totality;
   "the span selects the text" for the repaired action span) *)
Variable PA : option (str * span) -> Prop.

(* state invariant; [av]/[im]: the %avoid_insert / %implicit_tokens map exists;
   [rn]: the rule being parsed is in the rule table *)
Definition Inv (av im : bool) (rn : option str) (st : pst) : Prop :=
  errs_ok (errs st) /\ pidx_ok (ast st) /\
  (av = true -> a_avoid_insert (ast st) <> None) /\
  (im = true -> a_implicit_tokens (ast st) <> None) /\
  (forall n, rn = Some n -> has_rule (ast st) n = true) /\
  Forall (fun p => PA (p_action p)) (a_prods (ast st)).

Definition Inv0 := Inv false false None.

Lemma Inv_weaken : forall av im rn st, Inv av im rn st -> Inv0 st.
Proof.
  intros av im rn st [H1 [H2 [_ [_ [_ H6]]]]]. unfold Inv0, Inv. repeat split; try assumption; intros; discriminate.
Qed.

Definition sgoodP {A} (I : pst -> Prop) (P : A -> Prop) (x : sres A) : Prop :=
  match x with
  | Done (st, Ok a) => I st /\ P a
  | Done (st, Err _) => I st
  | _ => False
  end.

Lemma sgoodP_bind : forall {A B} (I : pst -> Prop) (P : A -> Prop) (Q : B -> Prop)
                           (x : sres A) (f : pst -> A -> sres B),
  sgoodP I P x -> (forall st a, I st -> P a -> sgoodP I Q (f st a)) -> sgoodP I Q (sbind x f).
Proof.
  intros A B I P Q x f Hx Hf. destruct x as [[st [a|e]]| |]; simpl in *; try contradiction.
  - destruct Hx. apply Hf; assumption.
  - exact Hx.
Qed.

Lemma sgoodP_weaken : forall {A} (I J : pst -> Prop) (P Q : A -> Prop) (x : sres A),
  (forall st, I st -> J st) -> (forall a, P a -> Q a) -> sgoodP I P x -> sgoodP J Q x.
Proof.
  intros A I J P Q x HI HP Hx. destruct x as [[st [a|e]]| |]; simpl in *; try contradiction.
  - destruct Hx. split; auto.
  - auto.
Qed.

Lemma sgoodP_ret : forall {A} (I : pst -> Prop) (P : A -> Prop) st a, I st -> P a -> sgoodP I P (ret st a).
Proof. intros. simpl. split; assumption. Qed.
Lemma sgoodP_fail : forall {A} (I : pst -> Prop) (P : A -> Prop) st k off, I st -> sgoodP I P (@fail A st k off).
Proof. intros. simpl. assumption. Qed.

Lemma sgoodP_lift : forall {A} (I : pst -> Prop) (P : A -> Prop) st (x : pres A),
  I st -> lex_post P x -> sgoodP I P (lift st x).
Proof. intros A I P st x HI Hx. destruct x as [[a|e]| |]; simpl in *; try contradiction; auto. Qed.

Lemma sgoodP_lift_nn : forall {A} (I : pst -> Prop) (P : A -> Prop) st (x : pres (A * nat)),
  I st -> (forall n, I (set_nn st n)) -> lex_post (fun r => P (fst r)) x -> sgoodP I P (lift_nn st x).
Proof.
  intros A I P st x HI Hn Hx. destruct x as [[[a n]|e]| |]; simpl in *; try contradiction; auto.
Qed.

Lemma sgoodP_lifto : forall {A} (I : pst -> Prop) (P : A -> Prop) st (x : outcome A) a,
  x = Done a -> I st -> P a -> sgoodP I P (lifto st x).
Proof. intros. subst x. simpl. split; assumption. Qed.

Lemma Inv_set_nn : forall av im rn st n, Inv av im rn st -> Inv av im rn (set_nn st n).
Proof. intros av im rn st n H. exact H. Qed.

Section TotalParser.
Variable fixed fixed_aspan fixed_pspan : bool.
Variable kind : ykind.
Variable src : str.
Variable fuel : nat.
Hypothesis Hfuel : byte_len src < fuel.
Let len := byte_len src.

Lemma ws_good : forall av im rn st i inc, Inv av im rn st -> vpos src i ->
  sgoodP (Inv av im rn) (pos_post src i false) (ws fixed src len fuel st i inc).
Proof.
  intros av im rn st i inc HI Hv. unfold ws.
  pose proof (parse_ws_total fixed src fuel (nn st) i inc Hfuel Hv) as H.
  fold len in H. destruct (parse_ws fixed src len fuel (nn st) i inc) as [[[j n]|e]| |];
    simpl in *; try contradiction; auto.
Qed.

Lemma look_good : forall av im rn st s i, Inv av im rn st -> vpos src i ->
  sgoodP (Inv av im rn) (look_post src s i) (look src st s i).
Proof.
  intros av im rn st s i HI Hv. unfold look. destruct (vpos_look src s i Hv) as [o [H P]].
  rewrite H. simpl. split; assumption.
Qed.

Lemma dup_find_ok : forall l k o d, errs_ok l ->
  exists r, dup_find l k o d = Done r /\ match r with Some l' => errs_ok l' | None => True end.
Proof.
  induction l as [|e l IH]; intros k o d Hl.
  - exists None. split; [reflexivity | exact I].
  - inversion Hl as [|? ? He Hl']; subst. simpl.
    destruct (e_spans e) as [|s0 ss] eqn:Hsp; [congruence|].
    destruct (ekind_eqb (e_kind e) k && ((fst s0 =? fst o) && (snd s0 =? snd o))).
    + eexists. split; [reflexivity|]. constructor; [|exact Hl']. simpl. destruct ss; discriminate.
    + destruct (IH k o d Hl') as [r [Hr Pr]]. rewrite Hr. cbn [obind].
      destruct r as [l'|]; eexists; (split; [reflexivity|]); [|exact I].
      constructor; [congruence | exact Pr].
Qed.

Lemma dup_good : forall av im rn st k o d, Inv av im rn st ->
  sgoodP (Inv av im rn) (fun _ : unit => True) (dup st k o d).
Proof.
  intros av im rn st k o d HI. unfold dup, add_duplicate_occurrence.
  destruct HI as [He HI]. destruct (dup_find_ok (errs st) k o d He) as [r [Hr Pr]].
  rewrite Hr. cbn [obind]. simpl. split; [|exact I]. split; [|exact HI].
  destruct r as [l'|]; simpl; [exact Pr|].
  apply Forall_app. split; [exact He|]. constructor; [discriminate | constructor].
Qed.

End TotalParser.
Lemma Inv_frame : forall av im rn st a',
  Inv av im rn st ->
  a_rules a' = a_rules (ast st) -> a_prods a' = a_prods (ast st) ->
  (a_avoid_insert (ast st) <> None -> a_avoid_insert a' <> None) ->
  (a_implicit_tokens (ast st) <> None -> a_implicit_tokens a' <> None) ->
  Inv av im rn (set_ast st a').
Proof.
  intros av im rn st a' [H1 [H2 [H3 [H4 [H5 H6]]]]] Hr Hp Ha Hi.
  unfold Inv, pidx_ok, has_rule in *. cbn [errs ast set_ast]. rewrite Hr, Hp.
  repeat split; auto.
Qed.

Lemma tokens_insert_frame : forall a n sp,
  a_rules (tokens_insert a n sp) = a_rules a /\ a_prods (tokens_insert a n sp) = a_prods a /\
  a_avoid_insert (tokens_insert a n sp) = a_avoid_insert a /\
  a_implicit_tokens (tokens_insert a n sp) = a_implicit_tokens a.
Proof.
  intros a n sp. unfold tokens_insert. destruct (insert_full (a_tokens a) n) as [[idx fresh] toks].
  destruct fresh; repeat split; reflexivity.
Qed.

Lemma Inv_tokens_insert : forall av im rn st n sp,
  Inv av im rn st -> Inv av im rn (set_ast st (tokens_insert (ast st) n sp)).
Proof.
  intros av im rn st n sp HI. destruct (tokens_insert_frame (ast st) n sp) as [H1 [H2 [H3 H4]]].
  apply Inv_frame; try assumption; [rewrite H3 | rewrite H4]; auto.
Qed.

Lemma Inv_set_gat : forall av im rn st g, Inv av im rn st -> Inv av im rn (set_gat st g).
Proof. intros av im rn st g H. exact H. Qed.

Ltac frame HI := apply Inv_frame; [exact HI | reflexivity | reflexivity
                                   | first [intros _; discriminate | intros Hx; exact Hx]
                                   | first [intros _; discriminate | intros Hx; exact Hx]].

Lemma pos_post_refl : forall src i, vpos src i -> pos_post src i false i.
Proof. intros. split; [assumption | simpl; lia]. Qed.

Lemma pos_post_trans : forall src i j k b1 b2,
  pos_post src i b1 j -> pos_post src j b2 k -> pos_post src i (b1 || b2) k.
Proof.
  intros src i j k b1 b2 [H1 H2] [H3 H4]. split; [exact H3|].
  destruct b1, b2; simpl in *; lia.
Qed.

Lemma pos_post_weak : forall src i j b, pos_post src i b j -> pos_post src i false j.
Proof. intros src i j b [H1 H2]. split; [exact H1|]. destruct b; simpl in *; lia. Qed.

Section TotalDecls.
Variable fixed : bool.
Variable src : str.
Variable fuel : nat.
Hypothesis Hfuel : byte_len src < fuel.
Let len := byte_len src.

Local Notation WS := (ws fixed src len fuel).
Local Notation good I i b := (sgoodP I (pos_post src i b)).

(* continue with a result that started from a later position *)
Lemma good_from : forall (I : pst -> Prop) i j b1 b2 (x : sres nat),
  pos_post src i b1 j -> good I j b2 x -> good I i (b1 || b2) x.
Proof.
  intros I i j b1 b2 x Hij Hx. eapply sgoodP_weaken; [intros st H; exact H | | exact Hx].
  intros k Hk. eapply pos_post_trans; eassumption.
Qed.

Lemma good_weak : forall (I : pst -> Prop) i b (x : sres nat), good I i b x -> good I i false x.
Proof.
  intros I i b x Hx. eapply sgoodP_weaken; [intros st H; exact H | | exact Hx].
  intros k Hk. eapply pos_post_weak; eassumption.
Qed.

Lemma token_loop_good : forall f av im rn st i, Inv av im rn st -> vpos src i -> len - i < f ->
  good (Inv av im rn) i false (token_loop fixed src len fuel f st i).
Proof.
  induction f as [|f IH]; intros av im rn st i HI Hv Hf; [lia|].
  cbn [token_loop]. destruct (Nat.ltb_spec i len) as [Hlt|Hge]; cbn [negb].
  2:{ apply sgoodP_ret; [exact HI | apply pos_post_refl; exact Hv]. }
  eapply sgoodP_bind; [apply look_good; eassumption|]. intros st1 la HI1 _.
  destruct la as [k|]; cbn [is_some].
  { apply sgoodP_ret; [exact HI1 | apply pos_post_refl; exact Hv]. }
  eapply sgoodP_bind; [apply sgoodP_lift; [exact HI1 | apply parse_token_total; exact Hv]|].
  intros st2 t HI2 Ht. destruct t as [[[j n] sp] q]. simpl in Ht.
  destruct (insert_full (a_tokens (ast st2)) n) as [[idx fresh] toks].
  eapply sgoodP_bind.
  { apply ws_good; [exact Hfuel | | exact (proj1 Ht)].
    destruct fresh; frame HI2. }
  intros st3 i' HI3 Hi'.
  apply good_weak with (b := true || (false || false)).
  eapply good_from; [exact Ht|]. eapply good_from; [exact Hi'|].
  apply IH; [exact HI3 | exact (proj1 Hi') |].
  destruct Ht as [_ Ht]. destruct Hi' as [_ Hi']. simpl in Ht, Hi'. lia.
Qed.


Ltac bind_ws HI Hv :=
  eapply sgoodP_bind; [apply ws_good; [exact Hfuel | exact HI | exact Hv] |].
Ltac fin_ws HI Hv :=
  eapply sgoodP_weaken; [intros ? Hst; exact Hst | | apply ws_good; [exact Hfuel | exact HI | exact Hv]];
  let k := fresh "k" in let Hk1 := fresh "Hk" in let Hk2 := fresh "Hk" in
  intros k [Hk1 Hk2]; split; [exact Hk1 | simpl in *; lia].
Ltac bind_span HI :=
  eapply sgoodP_bind; [eapply sgoodP_lifto with (P := fun _ => True);
                       [apply mk_span_total; simpl in *; lia | exact HI | exact I] |].

Lemma decl_token_good : forall av im rn st j, Inv av im rn st -> vpos src j ->
  good (Inv av im rn) j false (decl_token fixed src len fuel st j).
Proof.
  intros av im rn st j HI Hv. unfold decl_token. bind_ws HI Hv. intros st1 i HI1 Hi.
  apply good_weak with (b := false || false). eapply good_from; [exact Hi|].
  apply token_loop_good; [exact HI1 | exact (proj1 Hi) | pose proof (vpos_le _ _ (proj1 Hi)); unfold len; lia].
Qed.

Lemma decl_actiontype_good : forall av im rn st j, Inv av im rn st -> vpos src j ->
  good (Inv av im rn) j false (decl_actiontype fixed src len fuel st j).
Proof.
  intros av im rn st j HI Hv. unfold decl_actiontype. bind_ws HI Hv. intros st1 i HI1 [Hvi Hi].
  eapply sgoodP_bind; [apply sgoodP_lift; [exact HI1 | apply parse_to_eol_total; [exact Hfuel | exact Hvi]]|].
  intros st2 t HI2 Ht. destruct t as [j2 n]. destruct Ht as [Hv2 Hj2]. simpl in Hv2, Hj2.
  bind_span HI2. intros st3 sp HI3 _.
  eapply sgoodP_bind with (P := fun _ : unit => True).
  { destruct (gat st3) as [[g orig]|]; [apply dup_good; exact HI3 | apply sgoodP_ret; [exact HI3 | exact I]]. }
  intros st4 u HI4 _. fin_ws HI4 Hv2.
Qed.

Lemma decl_start_good : forall av im rn st j, Inv av im rn st -> vpos src j ->
  good (Inv av im rn) j false (decl_start fixed src len fuel st j).
Proof.
  intros av im rn st j HI Hv. unfold decl_start. bind_ws HI Hv. intros st1 i HI1 [Hvi Hi].
  eapply sgoodP_bind; [apply sgoodP_lift; [exact HI1 | apply parse_name_total; exact Hvi]|].
  intros st2 t HI2 Ht. destruct t as [j2 n]. destruct Ht as [Hv2 Hj2]. simpl in Hv2, Hj2.
  bind_span HI2. intros st3 sp HI3 _.
  eapply sgoodP_bind with (P := fun _ : unit => True).
  { destruct (a_start (ast st3)) as [[g orig]|]; [apply dup_good; exact HI3 |].
    apply sgoodP_ret; [frame HI3 | exact I]. }
  intros st4 u HI4 _. fin_ws HI4 Hv2.
Qed.

Lemma decl_epp_good : forall av im rn st j, Inv av im rn st -> vpos src j ->
  good (Inv av im rn) j false (decl_epp fixed src len fuel st j).
Proof.
  intros av im rn st j HI Hv. unfold decl_epp. bind_ws HI Hv. intros st1 i HI1 [Hvi Hi].
  eapply sgoodP_bind; [apply sgoodP_lift; [exact HI1 | apply parse_token_total; exact Hvi]|].
  intros st2 t HI2 Ht. destruct t as [[[j2 n] sp0] q]. destruct Ht as [Hv2 Hj2]. simpl in Hv2, Hj2.
  bind_span HI2. intros st3 sp HI3 _.
  bind_ws HI3 Hv2. intros st4 i4 HI4 [Hv4 Hi4].
  eapply sgoodP_bind; [apply sgoodP_lift; [exact HI4 | apply parse_string_total; [exact Hfuel | exact Hv4]]|].
  intros st5 t2 HI5 Ht2. destruct t2 as [j5 v]. destruct Ht2 as [Hv5 Hj5]. simpl in Hv5, Hj5.
  bind_span HI5. intros st6 vsp HI6 _.
  eapply sgoodP_bind with (P := fun _ : unit => True).
  { destruct (assoc_get (a_epp (ast st6)) n) as [[orig vv]|]; [apply dup_good; exact HI6 |].
    apply sgoodP_ret; [frame HI6 | exact I]. }
  intros st7 u HI7 _. fin_ws HI7 Hv5.
Qed.

Lemma decl_expectrr_good : forall av im rn st j, Inv av im rn st -> vpos src j ->
  good (Inv av im rn) j false (decl_expectrr fixed src len fuel st j).
Proof.
  intros av im rn st j HI Hv. unfold decl_expectrr. bind_ws HI Hv. intros st1 i HI1 [Hvi Hi].
  eapply sgoodP_bind; [apply sgoodP_lift; [exact HI1 | apply parse_int_total; [exact Hfuel | exact Hvi]]|].
  intros st2 t HI2 Ht. destruct t as [j2 n]. destruct Ht as [Hv2 Hj2]. simpl in Hv2, Hj2.
  bind_span HI2. intros st3 sp HI3 _.
  eapply sgoodP_bind with (P := fun _ : unit => True).
  { destruct (a_expectrr (ast st3)) as [[g orig]|]; [apply dup_good; exact HI3 |].
    apply sgoodP_ret; [frame HI3 | exact I]. }
  intros st4 u HI4 _. fin_ws HI4 Hv2.
Qed.

Lemma decl_expect_good : forall av im rn st j, Inv av im rn st -> vpos src j ->
  good (Inv av im rn) j false (decl_expect fixed src len fuel st j).
Proof.
  intros av im rn st j HI Hv. unfold decl_expect. bind_ws HI Hv. intros st1 i HI1 [Hvi Hi].
  eapply sgoodP_bind; [apply sgoodP_lift; [exact HI1 | apply parse_int_total; [exact Hfuel | exact Hvi]]|].
  intros st2 t HI2 Ht. destruct t as [j2 n]. destruct Ht as [Hv2 Hj2]. simpl in Hv2, Hj2.
  bind_span HI2. intros st3 sp HI3 _.
  eapply sgoodP_bind with (P := fun _ : unit => True).
  { destruct (a_expect (ast st3)) as [[g orig]|]; [apply dup_good; exact HI3 |].
    apply sgoodP_ret; [frame HI3 | exact I]. }
  intros st4 u HI4 _. fin_ws HI4 Hv2.
Qed.

Lemma decl_parse_generics_good : forall av im rn st j, Inv av im rn st -> vpos src j ->
  good (Inv av im rn) j false (decl_parse_generics fixed src len fuel st j).
Proof.
  intros av im rn st j HI Hv. unfold decl_parse_generics. bind_ws HI Hv. intros st1 i HI1 [Hvi Hi].
  eapply sgoodP_bind; [apply sgoodP_lift; [exact HI1 | apply parse_to_eol_total; [exact Hfuel | exact Hvi]]|].
  intros st2 t HI2 Ht. destruct t as [j2 ty]. destruct Ht as [Hv2 Hj2]. simpl in Hv2, Hj2.
  assert (HI3 : Inv av im rn (set_ast st2 (upd_parse_generics (ast st2) (Some ty)))) by (frame HI2).
  fin_ws HI3 Hv2.
Qed.

Lemma decl_parse_param_good : forall av im rn st j, Inv av im rn st -> vpos src j ->
  good (Inv av im rn) j false (decl_parse_param fixed src len fuel st j).
Proof.
  intros av im rn st j HI Hv. unfold decl_parse_param. bind_ws HI Hv. intros st1 i HI1 [Hvi Hi].
  eapply sgoodP_bind.
  { apply sgoodP_lift_nn with (P := fun r : nat * str => pos_post src i false (fst r));
      [exact HI1 | intros n; exact HI1 |].
    exact (parse_to_single_colon_total src fuel (nn st1) i Hfuel Hvi). }
  intros st2 t HI2 Ht. destruct t as [j2 name]. destruct Ht as [Hv2 Hj2]. simpl in Hv2, Hj2.
  eapply sgoodP_bind; [apply look_good; eassumption|]. intros st3 la HI3 Hla.
  destruct la as [j3|]; [|apply sgoodP_fail; exact HI3].
  destruct Hla as [Hj3 Hv3]. change (byte_len kw_colon) with 1 in Hj3.
  bind_ws HI3 Hv3. intros st4 i4 HI4 [Hv4 Hi4].
  eapply sgoodP_bind; [apply sgoodP_lift; [exact HI4 | apply parse_to_eol_total; [exact Hfuel | exact Hv4]]|].
  intros st5 t2 HI5 Ht2. destruct t2 as [j5 ty]. destruct Ht2 as [Hv5 Hj5]. simpl in Hv5, Hj5.
  assert (HI6 : Inv av im rn (set_ast st5 (upd_parse_param (ast st5) (Some (name, ty))))) by (frame HI5).
  fin_ws HI6 Hv5.
Qed.

Lemma expect_unused_loop_good : forall f av im rn st i, Inv av im rn st -> vpos src i -> len - i < f ->
  good (Inv av im rn) i false (expect_unused_loop fixed src len fuel f st i).
Proof.
  induction f as [|f IH]; intros av im rn st i HI Hv Hf; [lia|].
  cbn [expect_unused_loop]. destruct (Nat.ltb_spec i len) as [Hlt|Hge]; cbn [negb].
  2:{ apply sgoodP_ret; [exact HI | apply pos_post_refl; exact Hv]. }
  eapply sgoodP_bind; [apply look_good; eassumption|]. intros st1 la HI1 _.
  destruct la as [k|]; cbn [is_some].
  { apply sgoodP_ret; [exact HI1 | apply pos_post_refl; exact Hv]. }
  eapply sgoodP_bind with (P := pos_post src i true).
  { pose proof (parse_name_total src i Hv) as Hn.
    destruct (parse_name src i) as [[[j n]|e]| |]; simpl in Hn; try contradiction.
    - destruct Hn as [Hvj Hj]. bind_span HI1. intros st2 sp HI2 _.
      apply sgoodP_ret; [frame HI2 | split; assumption].
    - pose proof (parse_token_total src i Hv) as Ht.
      destruct (parse_token src i) as [[[[[j n] sp] q]|e']| |]; simpl in Ht; try contradiction.
      + apply sgoodP_ret; [frame HI1 | exact Ht].
      + apply sgoodP_fail. exact HI1. }
  intros st2 j HI2 [Hvj Hj].
  bind_ws HI2 Hvj. intros st3 i' HI3 [Hvi' Hi'].
  eapply sgoodP_weaken; [intros ? H; exact H | | apply IH; [exact HI3 | exact Hvi' | simpl in *; lia]].
  intros k [Hk1 Hk2]; split; [exact Hk1 | simpl in *; lia].
Qed.

Lemma decl_expect_unused_good : forall av im rn st j, Inv av im rn st -> vpos src j ->
  good (Inv av im rn) j false (decl_expect_unused fixed src len fuel st j).
Proof.
  intros av im rn st j HI Hv. unfold decl_expect_unused. bind_ws HI Hv. intros st1 i HI1 Hi.
  apply good_weak with (b := false || false). eapply good_from; [exact Hi|].
  apply expect_unused_loop_good; [exact HI1 | exact (proj1 Hi) | pose proof (vpos_le _ _ (proj1 Hi)); unfold len; lia].
Qed.

Lemma avoid_loop_good : forall f im rn st kwend i nn0, Inv true im rn st -> vpos src i -> len - i < f ->
  good (Inv true im rn) i false (avoid_loop fixed src len fuel f st kwend i nn0).
Proof.
  induction f as [|f IH]; intros im rn st kwend i nn0 HI Hv Hf; [lia|].
  cbn [avoid_loop]. destruct ((kwend <? len) && (nn st =? nn0)); cbn [negb].
  2:{ apply sgoodP_ret; [exact HI | apply pos_post_refl; exact Hv]. }
  eapply sgoodP_bind; [apply sgoodP_lift; [exact HI | apply parse_token_total; exact Hv]|].
  intros st2 t HI2 Ht. destruct t as [[[j n] sp] q]. destruct Ht as [Hvj Hj]. simpl in Hvj, Hj.
  pose proof (Inv_tokens_insert true im rn st2 n sp HI2) as HIa.
  destruct (tokens_insert_frame (ast st2) n sp) as [_ [_ [Hav _]]].
  destruct (a_avoid_insert (tokens_insert (ast st2) n sp)) as [m|] eqn:Hm.
  2:{ exfalso. destruct HI2 as [_ [_ [H3 _]]]. apply (H3 eq_refl). rewrite <- Hav. reflexivity. }
  eapply sgoodP_bind with (P := fun _ : unit => True).
  { destruct (assoc_get m n) as [orig|]; [apply dup_good; exact HIa|].
    apply sgoodP_ret; [|exact I].
    change (Inv true im rn (set_ast (set_ast st2 (tokens_insert (ast st2) n sp))
              (upd_avoid (ast (set_ast st2 (tokens_insert (ast st2) n sp))) (Some (m ++ [(n, sp)]))))).
    frame HIa. }
  intros st3 u HI3 _. bind_ws HI3 Hvj. intros st4 i' HI4 [Hvi' Hi'].
  pose proof (vpos_le _ _ Hvi') as Hle.
  eapply sgoodP_weaken; [intros ? H; exact H | | apply IH; [exact HI4 | exact Hvi' | unfold len in *; simpl in *; lia]].
  intros k [Hk1 Hk2]; split; [exact Hk1 | simpl in *; lia].
Qed.

Lemma Inv_av_intro : forall av im rn st, Inv av im rn st -> a_avoid_insert (ast st) <> None -> Inv true im rn st.
Proof. intros av im rn st [H1 [H2 [H3 [H4 [H5 H6]]]]] Ha. repeat split; auto. Qed.
Lemma Inv_av_drop : forall av im rn st, Inv true im rn st -> Inv av im rn st.
Proof. intros av im rn st [H1 [H2 [H3 [H4 [H5 H6]]]]]. repeat split; auto. Qed.
Lemma Inv_im_intro : forall av im rn st, Inv av im rn st -> a_implicit_tokens (ast st) <> None -> Inv av true rn st.
Proof. intros av im rn st [H1 [H2 [H3 [H4 [H5 H6]]]]] Ha. repeat split; auto. Qed.
Lemma Inv_im_drop : forall av im rn st, Inv av true rn st -> Inv av im rn st.
Proof. intros av im rn st [H1 [H2 [H3 [H4 [H5 H6]]]]]. repeat split; auto. Qed.

Lemma decl_avoid_insert_good : forall av im rn st j, Inv av im rn st -> vpos src j ->
  good (Inv av im rn) j false (decl_avoid_insert fixed src len fuel st j).
Proof.
  intros av im rn st j HI Hv. unfold decl_avoid_insert. bind_ws HI Hv. intros st1 i HI1 [Hvi Hi].
  eapply sgoodP_weaken with (I := Inv true im rn) (P := pos_post src i false);
    [intros s Hs; apply Inv_av_drop; exact Hs | intros k [Hk1 Hk2]; split; [exact Hk1 | simpl in *; lia] |].
  apply avoid_loop_good; [| exact Hvi | pose proof (vpos_le _ _ Hvi); unfold len; lia].
  destruct (a_avoid_insert (ast st1)) eqn:Ha.
  - apply (Inv_av_intro av); [exact HI1 | rewrite Ha; discriminate].
  - apply (Inv_av_intro av); [frame HI1 | simpl; discriminate].
Qed.

Lemma implicit_loop_good : forall f av rn st kwend i nn0, Inv av true rn st -> vpos src i -> len - i < f ->
  good (Inv av true rn) i false (implicit_loop fixed src len fuel f st kwend i nn0).
Proof.
  induction f as [|f IH]; intros av rn st kwend i nn0 HI Hv Hf; [lia|].
  cbn [implicit_loop]. destruct ((kwend <? len) && (nn st =? nn0)); cbn [negb].
  2:{ apply sgoodP_ret; [exact HI | apply pos_post_refl; exact Hv]. }
  eapply sgoodP_bind; [apply sgoodP_lift; [exact HI | apply parse_token_total; exact Hv]|].
  intros st2 t HI2 Ht. destruct t as [[[j n] sp] q]. destruct Ht as [Hvj Hj]. simpl in Hvj, Hj.
  pose proof (Inv_tokens_insert av true rn st2 n sp HI2) as HIa.
  destruct (tokens_insert_frame (ast st2) n sp) as [_ [_ [_ Him]]].
  destruct (a_implicit_tokens (tokens_insert (ast st2) n sp)) as [m|] eqn:Hm.
  2:{ exfalso. destruct HI2 as [_ [_ [_ [H4 _]]]]. apply (H4 eq_refl). rewrite <- Him. reflexivity. }
  eapply sgoodP_bind with (P := fun _ : unit => True).
  { destruct (assoc_get m n) as [orig|]; [apply dup_good; exact HIa|].
    apply sgoodP_ret; [|exact I].
    change (Inv av true rn (set_ast (set_ast st2 (tokens_insert (ast st2) n sp))
              (upd_implicit (ast (set_ast st2 (tokens_insert (ast st2) n sp))) (Some (m ++ [(n, sp)]))))).
    frame HIa. }
  intros st3 u HI3 _. bind_ws HI3 Hvj. intros st4 i' HI4 [Hvi' Hi'].
  pose proof (vpos_le _ _ Hvi') as Hle.
  eapply sgoodP_weaken; [intros ? H; exact H | | apply IH; [exact HI4 | exact Hvi' | unfold len in *; simpl in *; lia]].
  intros k [Hk1 Hk2]; split; [exact Hk1 | simpl in *; lia].
Qed.

Lemma decl_implicit_tokens_good : forall av im rn st j, Inv av im rn st -> vpos src j ->
  good (Inv av im rn) j false (decl_implicit_tokens fixed src len fuel st j).
Proof.
  intros av im rn st j HI Hv. unfold decl_implicit_tokens. bind_ws HI Hv. intros st1 i HI1 [Hvi Hi].
  eapply sgoodP_weaken with (I := Inv av true rn) (P := pos_post src i false);
    [intros s Hs; apply Inv_im_drop; exact Hs | intros k [Hk1 Hk2]; split; [exact Hk1 | simpl in *; lia] |].
  apply implicit_loop_good; [| exact Hvi | pose proof (vpos_le _ _ Hvi); unfold len; lia].
  destruct (a_implicit_tokens (ast st1)) eqn:Ha.
  - apply (Inv_im_intro av im); [exact HI1 | rewrite Ha; discriminate].
  - apply (Inv_im_intro av im); [frame HI1 | simpl; discriminate].
Qed.

Lemma prec_loop_good : forall f av im rn st i nn0 level k, Inv av im rn st -> vpos src i -> len - i < f ->
  good (Inv av im rn) i false (prec_loop fixed src len fuel f st i nn0 level k).
Proof.
  induction f as [|f IH]; intros av im rn st i nn0 level k HI Hv Hf; [lia|].
  cbn [prec_loop]. destruct ((i <? len) && (nn0 =? nn st)); cbn [negb].
  2:{ apply sgoodP_ret; [exact HI | apply pos_post_refl; exact Hv]. }
  eapply sgoodP_bind; [apply sgoodP_lift; [exact HI | apply parse_token_total; exact Hv]|].
  intros st2 t HI2 Ht. destruct t as [[[j n] sp] q]. destruct Ht as [Hvj Hj]. simpl in Hvj, Hj.
  eapply sgoodP_bind with (P := fun _ : unit => True).
  { destruct (assoc_get (a_precs (ast st2)) n) as [[pp orig]|]; [apply dup_good; exact HI2|].
    apply sgoodP_ret; [frame HI2 | exact I]. }
  intros st3 u HI3 _. bind_ws HI3 Hvj. intros st4 i' HI4 [Hvi' Hi'].
  pose proof (vpos_le _ _ Hvi') as Hle.
  eapply sgoodP_weaken; [intros ? H; exact H | | apply IH; [exact HI4 | exact Hvi' | unfold len in *; simpl in *; lia]].
  intros k' [Hk1 Hk2]; split; [exact Hk1 | simpl in *; lia].
Qed.

Lemma decl_prec_good : forall av im rn st j level k, Inv av im rn st -> vpos src j ->
  good (Inv av im rn) j false (decl_prec fixed src len fuel st j level k).
Proof.
  intros av im rn st j level k HI Hv. unfold decl_prec. bind_ws HI Hv. intros st1 i HI1 Hi.
  apply good_weak with (b := false || false). eapply good_from; [exact Hi|].
  apply prec_loop_good; [exact HI1 | exact (proj1 Hi) | pose proof (vpos_le _ _ (proj1 Hi)); unfold len; lia].
Qed.

Lemma look_good2 : forall av im rn st s i, Inv av im rn st -> vpos src i ->
  sgoodP (Inv av im rn) (fun la => look_post src s i la /\ lookahead_is src s i = Done la) (look src st s i).
Proof.
  intros av im rn st s i HI Hv. unfold look. destruct (vpos_look src s i Hv) as [o [H P]].
  rewrite H. simpl. split; [assumption | split; [assumption | reflexivity]].
Qed.

(* parse_declarations returns Ok only at "%%" *)
Definition at_pp (j : nat) : Prop := exists k, lookahead_is src kw_pp j = Done (Some k).

Variable kind : ykind.

(* one directive of parse_declarations: lookahead, handler, next iteration *)
Ltac kwlen H :=
  match type of H with
  | _ = _ + byte_len ?k => let n := eval vm_compute in (byte_len k) in change (byte_len k) with n in H
  end.

Ltac dir IH L :=
  match goal with
  | HI : Inv _ _ _ ?s, Hv : vpos _ ?i |- sgoodP _ _ (sbind (look _ ?s _ ?i) _) =>
      eapply sgoodP_bind; [apply look_good; [exact HI | exact Hv] |];
      let st' := fresh "st" in let la := fresh "la" in let HI' := fresh "HI" in let Hla := fresh "Hla" in
      intros st' la HI' Hla; destruct la as [?j|];
      [ let Hj := fresh "Hj" in let Hvj := fresh "Hvj" in
        destruct Hla as [Hj Hvj]; kwlen Hj;
        eapply sgoodP_bind; [apply L; [exact HI' | exact Hvj] |];
        let st'' := fresh "st" in let i' := fresh "i" in let HI'' := fresh "HI" in
        let Hvi' := fresh "Hvi" in let Hi' := fresh "Hi" in
        intros st'' i' HI'' [Hvi' Hi'];
        pose proof (vpos_le _ _ Hvi');
        eapply sgoodP_weaken;
        [intros ? Hst; exact Hst | | apply IH; [exact HI'' | exact Hvi' | unfold len in *; simpl in *; lia]];
        let k := fresh "k" in let Hk1 := fresh "Hk" in let Hk2 := fresh "Hk" in
        intros k [[Hk1 Hk2] Hk3]; split; [split; [exact Hk1 | simpl in *; lia] | exact Hk3]
      | clear Hla ]
  end.

Lemma decl_loop_good : forall f av im rn st i pl, Inv av im rn st -> vpos src i -> len - i < f ->
  sgoodP (Inv av im rn) (fun j => pos_post src i false j /\ at_pp j) (decl_loop fixed kind src len fuel f st i pl).
Proof.
  induction f as [|f IH]; intros av im rn st i pl HI Hv Hf; [lia|].
  cbn [decl_loop]. destruct (Nat.ltb_spec i len) as [Hlt|Hge]; cbn [negb].
  2:{ pose proof (vpos_le _ _ Hv). destruct (Nat.eqb_spec i len); [apply sgoodP_fail; exact HI | unfold len in *; lia]. }
  cbn zeta.
  (* %% *)
  eapply sgoodP_bind; [apply look_good2; [exact HI | exact Hv] |]. intros mst1 mla1 mHI1 [_ mHeq1].
  destruct mla1 as [k1|]; cbn [is_some].
  { apply sgoodP_ret; [exact mHI1 | split; [apply pos_post_refl; exact Hv | exists k1; exact mHeq1]]. }
  dir IH decl_token_good.
  (* %actiontype, Original only *)
  eapply sgoodP_bind with (P := look_post src kw_actiontype i).
  { destruct (is_original kind); [apply look_good; [eassumption | exact Hv] | apply sgoodP_ret; [eassumption | exact I]]. }
  intros mst3 mla3 mHI3 mHla3. destruct mla3 as [mj3|].
  { destruct mHla3 as [mHj3 mHvj3]. kwlen mHj3.
    eapply sgoodP_bind; [apply decl_actiontype_good; [exact mHI3 | exact mHvj3] |].
    intros mst4 mi4 mHI4 [mHvi4 mHi4]. pose proof (vpos_le _ _ mHvi4).
    eapply sgoodP_weaken; [intros ? Hst; exact Hst | | apply IH; [exact mHI4 | exact mHvi4 | unfold len in *; simpl in *; lia]].
    intros k [[Hk1 Hk2] Hk3]; split; [split; [exact Hk1 | simpl in *; lia] | exact Hk3]. }
  clear mHla3.
  dir IH decl_start_good.
  dir IH decl_epp_good.
  dir IH decl_expectrr_good.
  dir IH decl_expect_unused_good.
  dir IH decl_expect_good.
  dir IH decl_avoid_insert_good.
  dir IH decl_parse_param_good.
  dir IH decl_parse_generics_good.
  (* %implicit_tokens, Eco only *)
  eapply sgoodP_bind with (P := look_post src kw_implicit_tokens i).
  { destruct (is_eco kind); [apply look_good; [eassumption | exact Hv] | apply sgoodP_ret; [eassumption | exact I]]. }
  intros mst5 mla5 mHI5 mHla5. destruct mla5 as [mj5|].
  { destruct mHla5 as [mHj5 mHvj5]. kwlen mHj5.
    eapply sgoodP_bind; [apply decl_implicit_tokens_good; [exact mHI5 | exact mHvj5] |].
    intros mst6 mi6 mHI6 [mHvi6 mHi6]. pose proof (vpos_le _ _ mHvi6).
    eapply sgoodP_weaken; [intros ? Hst; exact Hst | | apply IH; [exact mHI6 | exact mHvi6 | unfold len in *; simpl in *; lia]].
    intros k [[Hk1 Hk2] Hk3]; split; [split; [exact Hk1 | simpl in *; lia] | exact Hk3]. }
  clear mHla5.
  (* %left / %right / %nonassoc *)
  eapply sgoodP_bind; [apply look_good; [eassumption | exact Hv] |]. intros mst7 mla7 mHI7 mHla7.
  eapply sgoodP_bind with (P := fun ka : option (nat * assoc) =>
                                  match ka with Some (k, _) => vpos src k /\ i < k | None => True end).
  { destruct mla7 as [mj7|].
    - destruct mHla7 as [mHj7 mHvj7]. kwlen mHj7. apply sgoodP_ret; [exact mHI7 | split; [exact mHvj7 | lia]].
    - eapply sgoodP_bind; [apply look_good; [exact mHI7 | exact Hv] |]. intros mst8 mla8 mHI8 mHla8.
      destruct mla8 as [mj8|].
      + destruct mHla8 as [mHj8 mHvj8]. kwlen mHj8. apply sgoodP_ret; [exact mHI8 | split; [exact mHvj8 | lia]].
      + eapply sgoodP_bind; [apply look_good; [exact mHI8 | exact Hv] |]. intros mst9 mla9 mHI9 mHla9.
        destruct mla9 as [mj9|].
        * destruct mHla9 as [mHj9 mHvj9]. kwlen mHj9. apply sgoodP_ret; [exact mHI9 | split; [exact mHvj9 | lia]].
        * apply sgoodP_ret; [exact mHI9 | exact I]. }
  intros mst10 ka mHI10 Hka. destruct ka as [[k a]|]; [|apply sgoodP_fail; exact mHI10].
  destruct Hka as [Hvk Hk].
  eapply sgoodP_bind; [apply decl_prec_good; [exact mHI10 | exact Hvk] |].
  intros mst11 mi11 mHI11 [mHvi11 mHi11]. pose proof (vpos_le _ _ mHvi11).
  eapply sgoodP_weaken; [intros ? Hst; exact Hst | | apply IH; [exact mHI11 | exact mHvi11 | unfold len in *; simpl in *; lia]].
  intros k' [[Hk1 Hk2] Hk3]; split; [split; [exact Hk1 | simpl in *; lia] | exact Hk3].
Qed.

Lemma parse_declarations_good : forall av im rn st i, Inv av im rn st -> vpos src i ->
  sgoodP (Inv av im rn) (fun j => pos_post src i false j /\ at_pp j)
         (parse_declarations fixed kind src len fuel st i).
Proof.
  intros av im rn st i HI Hv. unfold parse_declarations. bind_ws HI Hv. intros st1 i1 HI1 [Hv1 Hi1].
  pose proof (vpos_le _ _ Hv1).
  eapply sgoodP_weaken; [intros ? Hst; exact Hst | |
    apply decl_loop_good; [exact HI1 | exact Hv1 | unfold len; lia]].
  intros k [[Hk1 Hk2] Hk3]; split; [split; [exact Hk1 | simpl in *; lia] | exact Hk3].
Qed.

End TotalDecls.
(* ---- rules ---------------------------------------------------------------- *)
Lemma get_rule_rules_insert : forall rs r m,
  is_some (get_rule (rules_insert rs r) m) = is_some (get_rule rs m) || str_eqb (r_name r) m.
Proof.
  induction rs as [|x rs IH]; intros r m.
  - simpl. destruct (str_eqb (r_name r) m); reflexivity.
  - simpl. destruct (str_eqb (r_name x) (r_name r)) eqn:Hxr.
    + apply str_eqb_eq in Hxr. simpl. rewrite Hxr.
      destruct (str_eqb (r_name r) m); simpl; [reflexivity | rewrite orb_false_r; reflexivity].
    + simpl. destruct (str_eqb (r_name x) m); [reflexivity | apply IH].
Qed.

Lemma rules_insert_pidx : forall (P : nat -> Prop) rs r, r_pidxs r = [] ->
  Forall (fun r => Forall P (r_pidxs r)) rs -> Forall (fun r => Forall P (r_pidxs r)) (rules_insert rs r).
Proof.
  intros P rs r Hr. induction rs as [|x rs IH]; intros H.
  - simpl. constructor; [rewrite Hr; constructor | constructor].
  - inversion H as [|? ? Hx Hrs]; subst. simpl. destruct (str_eqb (r_name x) (r_name r)).
    + constructor; [rewrite Hr; constructor | exact Hrs].
    + constructor; [exact Hx | apply IH; exact Hrs].
Qed.

Lemma Inv_add_rule : forall av im rn st n sp at_,
  Inv av im rn st -> Inv av im rn (set_ast st (add_rule (ast st) n sp at_)) /\
                     has_rule (add_rule (ast st) n sp at_) n = true.
Proof.
  intros av im rn st n sp at_ [H1 [H2 [H3 [H4 [H5 H6]]]]]. split.
  - unfold Inv, pidx_ok, has_rule, add_rule in *. cbn [errs ast set_ast a_rules a_prods upd_rules
      a_avoid_insert a_implicit_tokens].
    repeat split; auto.
    + apply rules_insert_pidx; [reflexivity | exact H2].
    + intros m Hm. rewrite get_rule_rules_insert. rewrite (H5 m Hm). reflexivity.
  - unfold has_rule, add_rule. cbn [a_rules upd_rules]. rewrite get_rule_rules_insert.
    cbn [r_name]. rewrite str_eqb_refl. apply orb_true_r.
Qed.

Lemma rules_push_pidx_some : forall rs n k, is_some (get_rule rs n) = true ->
  exists rs', rules_push_pidx rs n k = Some rs' /\
    (forall m, is_some (get_rule rs' m) = is_some (get_rule rs m)) /\
    (forall P : nat -> Prop, P k -> Forall (fun r => Forall P (r_pidxs r)) rs ->
                             Forall (fun r => Forall P (r_pidxs r)) rs').
Proof.
  induction rs as [|x rs IH]; intros n k H; [discriminate H|].
  simpl in H. simpl. destruct (str_eqb (r_name x) n) eqn:Hx.
  - eexists. split; [reflexivity|]. split.
    + intros m. simpl. destruct (str_eqb (r_name x) m); reflexivity.
    + intros P Pk HF. inversion HF as [|? ? Hx' Hrs]; subst. constructor; [|exact Hrs].
      simpl. apply Forall_app. split; [exact Hx' | constructor; [exact Pk | constructor]].
  - destruct (IH n k H) as [rs' [H1 [H2 H3]]]. rewrite H1. eexists. split; [reflexivity|]. split.
    + intros m. simpl. destruct (str_eqb (r_name x) m); [reflexivity | apply H2].
    + intros P Pk HF. inversion HF as [|? ? Hx' Hrs]; subst. constructor; [exact Hx' | apply H3; assumption].
Qed.

Lemma add_prod_good : forall av im rn st n syms prec action sp,
  Inv av im rn st -> has_rule (ast st) n = true -> PA action ->
  exists a', add_prod (ast st) n syms prec action sp = Done a' /\ Inv av im rn (set_ast st a').
Proof.
  intros av im rn st n syms prec action sp [H1 [H2 [H3 [H4 [H5 H6]]]]] Hn Hact.
  unfold add_prod. unfold has_rule in Hn.
  destruct (rules_push_pidx_some (a_rules (ast st)) n (List.length (a_prods (ast st))) Hn) as [rs' [Hr [Hg Hp]]].
  rewrite Hr. eexists. split; [reflexivity|].
  unfold Inv, pidx_ok, has_rule in *. cbn [errs ast set_ast a_rules a_prods upd_rules upd_prods
      a_avoid_insert a_implicit_tokens].
  repeat split; auto.
  - rewrite app_length. simpl. apply Hp; [lia|].
    eapply Forall_impl; [|exact H2]. intros r Hr'. eapply Forall_impl; [|exact Hr']. intros p Hp'. simpl in Hp'. lia.
  - intros m Hm. rewrite Hg. apply H5. exact Hm.
  - apply Forall_app. split; [exact H6 | constructor; [exact Hact | constructor]].
Qed.

Definition pend_ok (pstart : nat) (pend : option nat) : Prop :=
  match pend with Some e => pstart <= e | None => True end.

Section TotalRules.
Variable fixed fixed_aspan fixed_pspan : bool.
Variable kind : ykind.
Variable src : str.
Variable fuel : nat.
Hypothesis Hfuel : byte_len src < fuel.
Let len := byte_len src.
Hypothesis HPA_none : PA None.
Hypothesis HPA_act : forall i j a asp,
  act_rel src i j a -> action_span fixed_aspan src (i + 1) a = Done asp -> PA (Some (a, asp)).

Local Notation good I i b := (sgoodP I (pos_post src i b)).

Ltac bind_ws HI Hv :=
  eapply sgoodP_bind; [apply (ws_good fixed src fuel Hfuel); [exact HI | exact Hv] |].
Ltac bind_span HI :=
  eapply sgoodP_bind; [eapply sgoodP_lifto with (P := fun _ => True);
                       [apply mk_span_total; simpl in *; lia | exact HI | exact I] |].

Ltac blook HI Hv := eapply sgoodP_bind; [apply look_good2; [exact HI | exact Hv] |].

Lemma add_prod_st_good : forall av im st rn syms prec action pstart pend i,
  Inv av im (Some rn) st -> pstart <= i -> pend_ok pstart pend -> PA action ->
  sgoodP (Inv av im (Some rn)) (fun _ : unit => True) (add_prod_st st rn syms prec action pstart pend i).
Proof.
  intros av im st rn syms prec action pstart pend i HI Hi Hp Hact. unfold add_prod_st.
  rewrite mk_span_total by (destruct pend as [e|]; simpl in Hp; lia).
  cbn [lifto sbind].
  assert (Hn : has_rule (ast st) rn = true) by (destruct HI as [_ [_ [_ [_ [H5 _]]]]]; apply H5; reflexivity).
  destruct (add_prod_good av im (Some rn) st rn syms prec action
              (pstart, match pend with Some e => e | None => i end) HI Hn Hact) as [a' [Ha HIa]].
  rewrite Ha. cbn [lifto sbind ret]. simpl. split; [exact HIa | exact I].
Qed.

Lemma rule_loop_good : forall f av im st rn i syms prec action pstart pend,
  Inv av im (Some rn) st -> vpos src i -> len - i < f -> pstart <= i -> pend_ok pstart pend -> PA action ->
  good (Inv av im (Some rn)) i false
       (rule_loop fixed fixed_aspan fixed_pspan src len fuel f st rn i syms prec action pstart pend).
Proof.
  induction f as [|f IH]; intros av im st rn i syms prec action pstart pend HI Hv Hf Hps Hpe Hact; [lia|].
  cbn [rule_loop]. destruct (Nat.ltb_spec i len) as [Hlt|Hge]; cbn [negb]; [|apply sgoodP_fail; exact HI].
  cbn zeta.
  (* the end of the loop body, then the next iteration *)
  assert (Hnext : forall st' i' syms' prec' action' pend',
            Inv av im (Some rn) st' -> vpos src i' -> i < i' -> pend_ok pstart pend' -> PA action' ->
            good (Inv av im (Some rn)) i false
                 (sbind (ws fixed src len fuel st' i' true)
                        (fun st i => rule_loop fixed fixed_aspan fixed_pspan src len fuel f st rn i syms' prec' action' pstart pend'))).
  { intros st' i' syms' prec' action' pend' HI' Hv' Hlt' Hpe' Hact'.
    bind_ws HI' Hv'. intros st2 i2 HI2 [Hv2 Hi2]. pose proof (vpos_le _ _ Hv2).
    eapply sgoodP_weaken; [intros ? Hst; exact Hst | |
      apply IH; [exact HI2 | exact Hv2 | unfold len in *; simpl in *; lia | simpl in *; lia | exact Hpe' | exact Hact']].
    intros k [Hk1 Hk2]; split; [exact Hk1 | simpl in *; lia]. }
  (* | *)
  blook HI Hv. intros st1 la1 HI1 [Hla1 _]. destruct la1 as [j1|].
  { destruct Hla1 as [Hj1 Hvj1]. change (byte_len kw_bar) with 1 in Hj1.
    eapply sgoodP_bind; [apply add_prod_st_good; [exact HI1 | exact Hps | exact Hpe | exact Hact] |].
    intros st2 u HI2 _. bind_ws HI2 Hvj1. intros st3 i3 HI3 [Hv3 Hi3]. pose proof (vpos_le _ _ Hv3).
    eapply sgoodP_weaken; [intros ? Hst; exact Hst | |
      apply IH; [exact HI3 | exact Hv3 | unfold len in *; simpl in *; lia | lia | exact I | exact HPA_none]].
    intros k [Hk1 Hk2]; split; [exact Hk1 | simpl in *; lia]. }
  (* ; *)
  blook HI1 Hv. intros st2 la2 HI2 [Hla2 _]. destruct la2 as [j2|].
  { destruct Hla2 as [Hj2 Hvj2]. change (byte_len kw_semi) with 1 in Hj2.
    eapply sgoodP_bind; [apply add_prod_st_good; [exact HI2 | exact Hps | exact Hpe | exact Hact] |].
    intros st3 u HI3 _. apply sgoodP_ret; [exact HI3 | split; [exact Hvj2 | simpl; lia]]. }
  (* quoted token *)
  blook HI2 Hv. intros st3 l1 HI3 _.
  eapply sgoodP_bind with (P := fun _ : option nat => True).
  { destruct (is_some l1); [apply sgoodP_ret; [exact HI3 | exact I]|].
    eapply sgoodP_weaken; [intros ? Hst; exact Hst | intros; exact I | apply look_good2; [exact HI3 | exact Hv]]. }
  intros st4 l2 HI4 _. destruct (is_some l2).
  { eapply sgoodP_bind; [apply sgoodP_lift; [exact HI4 | apply parse_token_total; exact Hv]|].
    intros st5 t HI5 Ht. destruct t as [[[j sym] sp] q]. destruct Ht as [Hvj Hj]. simpl in Hvj, Hj.
    bind_ws HI5 Hvj. intros st6 i6 HI6 [Hv6 Hi6].
    apply Hnext; [apply Inv_tokens_insert; exact HI6 | exact Hv6 | simpl in *; lia | simpl; lia | exact Hact]. }
  (* %prec *)
  blook HI4 Hv. intros st5 la5 HI5 [Hla5 _]. destruct la5 as [j5|].
  { destruct Hla5 as [Hj5 Hvj5]. change (byte_len kw_prec) with 5 in Hj5.
    bind_ws HI5 Hvj5. intros st6 i6 HI6 [Hv6 Hi6].
    eapply sgoodP_bind; [apply sgoodP_lift; [exact HI6 | apply parse_token_total; exact Hv6]|].
    intros st7 t HI7 Ht. destruct t as [[[k sym] sp] q]. destruct Ht as [Hvk Hk]. simpl in Hvk, Hk.
    apply Hnext; [apply Inv_tokens_insert; exact HI7 | exact Hvk | simpl in *; lia | simpl in *; lia | exact Hact]. }
  (* action *)
  blook HI5 Hv. intros st6 la6 HI6 [Hla6 Heq6]. destruct la6 as [j6|]; cbn [is_some].
  { destruct Hla6 as [Hj6 Hvj6]. change (byte_len kw_lbrace) with 1 in Hj6. subst j6.
    eapply sgoodP_bind.
    { apply sgoodP_lift_nn with (P := fun r : nat * str => pos_post src i true (fst r) /\ act_rel src i (fst r) (snd r));
        [exact HI6 | intros n; exact HI6 |].
      pose proof (parse_action_total src fuel (nn st6) i (i + 1) Hfuel Hv Heq6) as Hp1.
      pose proof (parse_action_rel src fuel (nn st6) i (i + 1) Hfuel Hv Heq6) as Hp2.
      unfold len.
      destruct (parse_action src (byte_len src) fuel (nn st6) i) as [[[[jj aa] nn']|e]| |]; simpl in *;
        try contradiction; try exact I. split; assumption. }
    intros st7 t HI7 Ht. destruct t as [j a]. destruct Ht as [[Hvj Hj] Hrel]. simpl in Hvj, Hj, Hrel.
    bind_ws HI7 Hvj. intros st8 i8 HI8 [Hv8 Hi8].
    eapply sgoodP_bind with (P := fun asp : span => PA (Some (a, asp))).
    { destruct (action_span_total fixed_aspan src (i + 1) a Hvj6) as [asp Hasp].
      eapply sgoodP_lifto; [exact Hasp | exact HI8 | exact (HPA_act i j a asp Hrel Hasp)]. }
    intros st9 asp HI9 Hasp.
    blook HI9 Hv8. intros st10 t1 HI10 _.
    eapply sgoodP_bind with (P := fun _ : option nat => True).
    { destruct (is_some t1); [apply sgoodP_ret; [exact HI10 | exact I]|].
      eapply sgoodP_weaken; [intros ? Hst; exact Hst | intros; exact I | apply look_good2; [exact HI10 | exact Hv8]]. }
    intros st11 t2 HI11 _. destruct (is_some t2); cbn [negb]; [|apply sgoodP_fail; exact HI11].
    apply Hnext; [exact HI11 | exact Hv8 | simpl in *; lia | | exact Hasp].
    unfold brace_pend, pend_ok in *. destruct fixed_pspan; [destruct pend|]; simpl in *; lia. }
  (* %empty *)
  blook HI6 Hv. intros st7 la7 HI7 [Hla7 _]. destruct la7 as [j7|].
  { destruct Hla7 as [Hj7 Hvj7]. change (byte_len kw_empty) with 6 in Hj7.
    bind_ws HI7 Hvj7. intros st8 k HI8 [Hvk Hk].
    blook HI8 Hvk. intros st9 t1 HI9 _.
    eapply sgoodP_bind with (P := fun _ : option nat => True).
    { destruct (is_some t1); [apply sgoodP_ret; [exact HI9 | exact I]|].
      eapply sgoodP_weaken; [intros ? Hst; exact Hst | intros; exact I | apply look_good2; [exact HI9 | exact Hvk]]. }
    intros st10 t2 HI10 _.
    eapply sgoodP_bind with (P := fun _ : option nat => True).
    { destruct (is_some t2); [apply sgoodP_ret; [exact HI10 | exact I]|].
      eapply sgoodP_weaken; [intros ? Hst; exact Hst | intros; exact I | apply look_good2; [exact HI10 | exact Hvk]]. }
    intros st11 t3 HI11 _.
    eapply sgoodP_bind with (P := fun _ : option nat => True).
    { destruct (is_some t3); [apply sgoodP_ret; [exact HI11 | exact I]|].
      eapply sgoodP_weaken; [intros ? Hst; exact Hst | intros; exact I | apply look_good2; [exact HI11 | exact Hvk]]. }
    intros st12 t4 HI12 _.
    destruct (negb match syms with [] => true | _ :: _ => false end || negb (is_some t4));
      [apply sgoodP_fail; exact HI12|].
    apply Hnext; [exact HI12 | exact Hvk | simpl in *; lia | simpl; lia | exact Hact]. }
  (* a name: token or rule reference *)
  eapply sgoodP_bind; [apply sgoodP_lift; [exact HI7 | apply parse_token_total; exact Hv]|].
  intros st8 t HI8 Ht. destruct t as [[[j sym] sp] q]. destruct Ht as [Hvj Hj]. simpl in Hvj, Hj.
  apply Hnext; [exact HI8 | exact Hvj | exact Hj | simpl; lia | exact Hact].
Qed.

(* success and error invariants may differ (the rule enters the table on the way) *)
Definition sgood3 {A} (E I : pst -> Prop) (P : A -> Prop) (x : sres A) : Prop :=
  match x with
  | Done (st, Ok a) => I st /\ P a
  | Done (st, Err _) => E st
  | _ => False
  end.

Lemma sgood3_bind : forall {A B} (E I J : pst -> Prop) (P : A -> Prop) (Q : B -> Prop)
                           (x : sres A) (f : pst -> A -> sres B),
  sgood3 E I P x -> (forall st a, I st -> P a -> sgood3 E J Q (f st a)) -> sgood3 E J Q (sbind x f).
Proof.
  intros A B E I J P Q x f Hx Hf. destruct x as [[st [a|e]]| |]; simpl in *; try contradiction.
  - destruct Hx. apply Hf; assumption.
  - exact Hx.
Qed.

Lemma sgoodP_to3 : forall {A} (E I : pst -> Prop) (P : A -> Prop) (x : sres A),
  (forall st, I st -> E st) -> sgoodP I P x -> sgood3 E I P x.
Proof.
  intros A E I P x HE Hx. destruct x as [[st [a|e]]| |]; simpl in *; try contradiction; auto.
Qed.

Lemma sgood3_toP : forall {A} (E I : pst -> Prop) (P : A -> Prop) (x : sres A),
  (forall st, I st -> E st) -> sgood3 E I P x -> sgoodP E P x.
Proof.
  intros A E I P x HE Hx. destruct x as [[st [a|e]]| |]; simpl in *; try contradiction; auto.
  destruct Hx. split; auto.
Qed.

Lemma Inv_rn_intro : forall av im st n, Inv av im None st -> has_rule (ast st) n = true -> Inv av im (Some n) st.
Proof.
  intros av im st n [H1 [H2 [H3 [H4 [H5 H6]]]]] Hn. repeat split; auto. intros m Hm. injection Hm as <-. exact Hn.
Qed.
Lemma Inv_rn_drop : forall av im rn st, Inv av im rn st -> Inv av im None st.
Proof. intros av im rn st [H1 [H2 [H3 [H4 [H5 H6]]]]]. repeat split; auto. intros m Hm. discriminate Hm. Qed.

Lemma ensure_rule_inv : forall av im st rn sp at_,
  Inv av im None st ->
  Inv av im (Some rn)
      (match get_rule (a_rules (ast st)) rn with
       | None => set_ast st (add_rule (ast st) rn sp at_)
       | Some _ => st
       end).
Proof.
  intros av im st rn sp at_ HI. destruct (get_rule (a_rules (ast st)) rn) eqn:Hg.
  - apply Inv_rn_intro; [exact HI | unfold has_rule; rewrite Hg; reflexivity].
  - destruct (Inv_add_rule av im None st rn sp at_ HI) as [H1 H2]. apply Inv_rn_intro; assumption.
Qed.

Lemma parse_rule_good : forall av im st i, Inv av im None st -> vpos src i ->
  good (Inv av im None) i true (parse_rule fixed fixed_aspan fixed_pspan kind src len fuel st i).
Proof.
  intros av im st i HI Hv. unfold parse_rule.
  eapply sgoodP_bind; [apply sgoodP_lift; [exact HI | apply parse_name_total; exact Hv]|].
  intros st1 t HI1 Ht. destruct t as [j rn]. destruct Ht as [Hvj Hj]. simpl in Hvj, Hj.
  bind_span HI1. intros st2 sp HI2 _.
  set (st3 := match a_start (ast st2) with
              | Some _ => st2
              | None => set_ast st2 (upd_start (ast st2) (Some (rn, sp)))
              end).
  assert (HI3 : Inv av im None st3).
  { subst st3. destruct (a_start (ast st2)); [exact HI2 | frame HI2]. }
  clearbody st3.
  apply (sgood3_toP (Inv av im None) (Inv av im (Some rn))); [intros s Hs; eapply Inv_rn_drop; exact Hs|].
  eapply sgood3_bind with (I := Inv av im (Some rn)) (P := pos_post src i true).
  { destruct kind.
    - simpl. split; [apply ensure_rule_inv; exact HI3 | split; assumption].
    - (* Grmtools *)
      eapply sgood3_bind.
      { apply sgoodP_to3; [intros s Hs; exact Hs|]. apply (ws_good fixed src fuel Hfuel); [exact HI3 | exact Hvj]. }
      intros st4 i4 HI4 [Hv4 Hi4].
      eapply sgood3_bind.
      { apply sgoodP_to3; [intros s Hs; exact Hs|]. apply look_good2; [exact HI4 | exact Hv4]. }
      intros st5 la HI5 [Hla _]. destruct la as [j5|]; [|simpl; exact HI5].
      destruct Hla as [Hj5 Hvj5]. change (byte_len kw_arrow) with 2 in Hj5.
      eapply sgood3_bind.
      { apply sgoodP_to3; [intros s Hs; exact Hs|]. apply (ws_good fixed src fuel Hfuel); [exact HI5 | exact Hvj5]. }
      intros st6 i6 HI6 [Hv6 Hi6].
      eapply sgood3_bind.
      { apply sgoodP_to3; [intros s Hs; exact Hs|].
        apply sgoodP_lift_nn with (P := fun r : nat * str => pos_post src i6 false (fst r));
          [exact HI6 | intros n; exact HI6 |].
        exact (parse_to_single_colon_total src fuel (nn st6) i6 Hfuel Hv6). }
      intros st7 t7 HI7 Ht7. destruct t7 as [j7 actiont]. destruct Ht7 as [Hv7 Hj7]. simpl in Hv7, Hj7.
      simpl. split; [apply ensure_rule_inv; exact HI7 | split; [exact Hv7 | simpl in *; lia]].
    - simpl. split; [apply ensure_rule_inv; exact HI3 | split; assumption]. }
  intros st4 i4 HI4 [Hv4 Hi4]. simpl in Hi4.
  apply sgoodP_to3; [intros s Hs; eapply Inv_rn_drop; exact Hs|].
  bind_ws HI4 Hv4. intros st5 i5 HI5 [Hv5 Hi5].
  blook HI5 Hv5. intros st6 la HI6 [Hla _]. destruct la as [j6|]; [|apply sgoodP_fail; exact HI6].
  destruct Hla as [Hj6 Hvj6]. change (byte_len kw_colon) with 1 in Hj6.
  bind_ws HI6 Hvj6. intros st7 i7 HI7 [Hv7 Hi7]. pose proof (vpos_le _ _ Hv7).
  eapply sgoodP_weaken; [intros ? Hst; exact Hst | |
    apply rule_loop_good; [exact HI7 | exact Hv7 | unfold len; lia | lia | exact I | exact HPA_none]].
  intros k [Hk1 Hk2]; split; [exact Hk1 | simpl in *; lia].
Qed.

Lemma rules_loop_good : forall f av im st i, Inv av im None st -> vpos src i -> len - i < f ->
  good (Inv av im None) i false (rules_loop fixed fixed_aspan fixed_pspan kind src len fuel f st i).
Proof.
  induction f as [|f IH]; intros av im st i HI Hv Hf; [lia|].
  cbn [rules_loop]. destruct (Nat.ltb_spec i len) as [Hlt|Hge]; cbn [negb].
  2:{ apply sgoodP_ret; [exact HI | apply pos_post_refl; exact Hv]. }
  blook HI Hv. intros st1 la HI1 _. destruct la as [k|]; cbn [is_some].
  { apply sgoodP_ret; [exact HI1 | apply pos_post_refl; exact Hv]. }
  eapply sgoodP_bind; [apply parse_rule_good; [exact HI1 | exact Hv]|].
  intros st2 i2 HI2 [Hv2 Hi2]. bind_ws HI2 Hv2. intros st3 i3 HI3 [Hv3 Hi3]. pose proof (vpos_le _ _ Hv3).
  eapply sgoodP_weaken; [intros ? Hst; exact Hst | |
    apply IH; [exact HI3 | exact Hv3 | unfold len in *; simpl in *; lia]].
  intros k [Hk1 Hk2]; split; [exact Hk1 | simpl in *; lia].
Qed.

(* parse_rules is entered at "%%" (parse_declarations returns Ok only there) *)
Lemma parse_rules_good : forall av im st i k, Inv av im None st -> vpos src i ->
  lookahead_is src kw_pp i = Done (Some k) ->
  good (Inv av im None) i false (parse_rules fixed fixed_aspan fixed_pspan kind src len fuel st i).
Proof.
  intros av im st i k HI Hv Hla. unfold parse_rules, look. rewrite Hla. cbn [lifto sbind].
  destruct (vpos_look src kw_pp i Hv) as [o [Ho Po]]. rewrite Hla in Ho. injection Ho as <-.
  destruct Po as [Hk Hvk]. change (byte_len kw_pp) with 2 in Hk.
  bind_ws HI Hvk. intros st1 i1 HI1 [Hv1 Hi1]. pose proof (vpos_le _ _ Hv1).
  eapply sgoodP_weaken; [intros ? Hst; exact Hst | |
    apply rules_loop_good; [exact HI1 | exact Hv1 | unfold len; lia]].
  intros k' [Hk1 Hk2]; split; [exact Hk1 | simpl in *; lia].
Qed.

Lemma parse_programs_good : forall av im st i, Inv av im None st -> vpos src i ->
  sgoodP (Inv av im None) (fun _ : nat => True) (parse_programs fixed src len fuel st i).
Proof.
  intros av im st i HI Hv. unfold parse_programs.
  blook HI Hv. intros st1 la HI1 [Hla _]. destruct la as [j|]; [|apply sgoodP_ret; [exact HI1 | exact I]].
  destruct Hla as [Hj Hvj].
  bind_ws HI1 Hvj. intros st2 i2 HI2 [Hv2 Hi2].
  destruct (vpos_slice_from src i2 Hv2) as [pre [r [_ [_ Hsf]]]].
  eapply sgoodP_bind; [eapply sgoodP_lifto with (P := fun _ => True); [exact Hsf | exact HI2 | exact I] |].
  intros st3 prog HI3 _. apply sgoodP_ret; [frame HI3 | exact I].
Qed.

Lemma Inv0_st0 : Inv0 st0.
Proof.
  unfold Inv0, Inv, st0, errs_ok, pidx_ok. simpl.
  repeat split; try constructor; intros; discriminate.
Qed.

Lemma parse_total : exists st es,
  parse fixed fixed_aspan fixed_pspan kind src len fuel = Done (st, es) /\ Inv0 st.
Proof.
  unfold parse.
  pose proof (parse_declarations_good fixed src fuel Hfuel kind false false None st0 0 Inv0_st0 (vpos_0 src)) as H1.
  fold len in H1.
  destruct (parse_declarations fixed kind src len fuel st0 0) as [[st1 [i1|e1]]| |]; simpl in H1; try contradiction.
  2:{ cbn [obind]. eexists. eexists. split; [reflexivity | exact H1]. }
  destruct H1 as [HI1 [[Hv1 _] [k Hk]]]. cbn [obind].
  pose proof (parse_rules_good false false st1 i1 k HI1 Hv1 Hk) as H2.
  destruct (parse_rules fixed fixed_aspan fixed_pspan kind src len fuel st1 i1) as [[st2 [i2|e2]]| |]; simpl in H2; try contradiction.
  2:{ cbn [obind]. eexists. eexists. split; [reflexivity | exact H2]. }
  destruct H2 as [HI2 [Hv2 _]]. cbn [obind].
  pose proof (parse_programs_good false false st2 i2 HI2 Hv2) as H3.
  destruct (parse_programs fixed src len fuel st2 i2) as [[st3 [i3|e3]]| |]; simpl in H3; try contradiction.
  - destruct H3 as [HI3 _]. cbn [obind]. eexists. eexists. split; [reflexivity | exact HI3].
  - cbn [obind]. eexists. eexists. split; [reflexivity | exact H3].
Qed.

End TotalRules.
End WithPA.

(* complete_and_validate only indexes prods through pidxs *)
Lemma validate_pidxs_total : forall a pidxs, Forall (fun p => p < List.length (a_prods a)) pidxs ->
  exists r, validate_pidxs a pidxs = Done r.
Proof.
  intros a pidxs. induction pidxs as [|p ps IH]; intros H.
  - eexists. reflexivity.
  - inversion H as [|? ? Hp Hps]; subst. simpl. unfold nth_checked.
    destruct (nth_error (a_prods a) p) as [pr|] eqn:Hn.
    + cbn [obind]. destruct (validate_prod a pr); [eexists; reflexivity | apply IH; exact Hps].
    + apply nth_error_None in Hn. lia.
Qed.

Lemma validate_rules_total : forall a rs,
  Forall (fun r => Forall (fun p => p < List.length (a_prods a)) (r_pidxs r)) rs ->
  exists r, validate_rules a rs = Done r.
Proof.
  intros a rs. induction rs as [|x rs IH]; intros H.
  - eexists. reflexivity.
  - inversion H as [|? ? Hx Hrs]; subst. simpl.
    destruct (validate_pidxs_total a (r_pidxs x) Hx) as [r Hr]. rewrite Hr. cbn [obind].
    destruct r; [eexists; reflexivity | apply IH; exact Hrs].
Qed.

Lemma complete_and_validate_total : forall a, pidx_ok a -> exists r, complete_and_validate a = Done r.
Proof.
  intros a Hp. unfold complete_and_validate. destruct (a_start a) as [[s sp]|]; [|eexists; reflexivity].
  destruct (negb (has_rule a s)); [eexists; reflexivity|].
  destruct (validate_rules_total a (a_rules a) Hp) as [r Hr]. rewrite Hr. cbn [obind].
  destruct r; [eexists; reflexivity|]. destruct (first_unknown_epp a (a_epp a)); eexists; reflexivity.
Qed.

Lemma yacc_parse_total : yacc_parse_total_stmt.
Proof.
  intros fixed fixed_aspan fixed_pspan fixed_precused kind src. unfold run_case, yacc_new_gen.
  destruct (header_present src); [eexists; reflexivity|].
  assert (Hfuel : byte_len src < fuel_for src) by (unfold fuel_for; lia).
  destruct (parse_total (fun _ => True) fixed fixed_aspan fixed_pspan kind src (fuel_for src) Hfuel I
                        (fun _ _ _ _ _ _ => I)) as [st [es [Hp HI]]].
  rewrite Hp. cbn [obind].
  destruct HI as [_ [Hpidx _]].
  destruct (complete_and_validate_total (ast st) Hpidx) as [v Hv]. rewrite Hv. cbn [obind].
  eexists. reflexivity.
Qed.
(* ======================================================================== *)
(*  Action spans under the proposed repair                                    *)
(* ======================================================================== *)
Lemma drop_while_app_stop : forall p s c rest, p c = false ->
  drop_while p (s ++ c :: rest) = drop_while p s ++ c :: rest.
Proof.
  intros p s c rest Hc. induction s as [|x s IH]; simpl.
  - rewrite Hc. reflexivity.
  - destruct (p x); [exact IH | reflexivity].
Qed.

Lemma drop_while_prefix : forall p s, exists w, s = w ++ drop_while p s.
Proof.
  intros p s. induction s as [|x s IH]; simpl.
  - exists []. reflexivity.
  - destruct (p x).
    + destruct IH as [w Hw]. exists (x :: w). simpl. congruence.
    + exists []. reflexivity.
Qed.

Lemma trim_end_suffix : forall t, exists w, t = trim_end t ++ w.
Proof.
  intros t. unfold trim_end. destruct (drop_while_prefix is_whitespace (rev t)) as [w Hw].
  exists (rev w). rewrite <- rev_app_distr, <- Hw, rev_involutive. reflexivity.
Qed.

Lemma action_span_fixed_selects : forall src i j a asp,
  act_rel src i j a -> action_span true src (i + 1) a = Done asp -> action_ok src (Some (a, asp)).
Proof.
  intros src i j a asp [pre [s [rest [Hsrc [Hi [Hj Ha]]]]]] Hsp.
  assert (Hsrc1 : src = (pre ++ [c_lbrace]) ++ s ++ c_rbrace :: rest)
    by (rewrite Hsrc, <- app_assoc; reflexivity).
  unfold action_span in Hsp.
  assert (Hsf : slice_from src (i + 1) = Done (s ++ c_rbrace :: rest)).
  { replace (i + 1) with (byte_len (pre ++ [c_lbrace])) by (rewrite byte_len_snoc; change (len_utf8 c_lbrace) with 1; lia).
    rewrite Hsrc1. apply slice_from_app. }
  rewrite Hsf in Hsp. cbn [obind] in Hsp.
  unfold trim_start in Hsp. rewrite drop_while_app_stop in Hsp by reflexivity.
  destruct (drop_while_prefix is_whitespace s) as [w1 Hw1].
  destruct (trim_end_suffix (drop_while is_whitespace s)) as [w2 Hw2].
  assert (Hat : a = trim_end (drop_while is_whitespace s)) by (rewrite Ha; reflexivity).
  rewrite <- Hat in Hw2.
  assert (Hlead : byte_len (s ++ c_rbrace :: rest) - byte_len (drop_while is_whitespace s ++ c_rbrace :: rest)
                  = byte_len w1).
  { rewrite Hw1 at 1. rewrite !byte_len_app. lia. }
  rewrite Hlead in Hsp. rewrite mk_span_total in Hsp by lia. injection Hsp as <-.
  simpl.
  assert (Hsrc2 : src = (pre ++ [c_lbrace] ++ w1) ++ a ++ (w2 ++ c_rbrace :: rest)).
  { rewrite Hsrc1. rewrite Hw1 at 1. rewrite Hw2 at 1. repeat rewrite <- app_assoc. reflexivity. }
  replace (i + 1 + byte_len w1) with (byte_len (pre ++ [c_lbrace] ++ w1))
    by (rewrite !byte_len_app; simpl byte_len; change (len_utf8 c_lbrace) with 1; lia).
  rewrite Hsrc2 at 1. apply slice_app.
Qed.

Lemma action_span_fixed : action_span_fixed_stmt.
Proof.
  intros fixed fixed_pspan fixed_precused kind src a errs w Hrun. unfold run_case, yacc_new_gen in Hrun.
  destruct (header_present src); [discriminate Hrun|].
  assert (Hfuel : byte_len src < fuel_for src) by (unfold fuel_for; lia).
  destruct (parse_total (action_ok src) fixed true fixed_pspan kind src (fuel_for src) Hfuel I
              (action_span_fixed_selects src)) as [st [es [Hp HI]]].
  rewrite Hp in Hrun. cbn [obind] in Hrun.
  destruct (complete_and_validate (ast st)) as [v| |]; cbn [obind] in Hrun; try discriminate Hrun.
  injection Hrun as <- _ _.
  destruct HI as [_ [_ [_ [_ [_ H6]]]]]. exact H6.
Qed.

(* the code as it is, on "%%\nA:{ x};": the action "x" gets the span (6,7), which selects " " *)
Definition refuted_src : str := [37; 37; 10; 65; 58; 123; 32; 120; 125; 59]%N.

Lemma action_span_refuted_run : forall fp fu, exists a e w p,
  run_case false false fp fu KOriginal refuted_src = Done (TResult a e w) /\
  a_prods a = [p] /\ p_action p = Some ([120%N], (6, 7)).
Proof. intros [|] [|]; vm_compute; do 4 eexists; (split; [reflexivity | split; reflexivity]). Qed.

Lemma action_span_refuted : action_span_refuted_stmt.
Proof.
  exists false, KOriginal, refuted_src. intros fp fu.
  destruct (action_span_refuted_run fp fu) as [a [e [w [p [H1 [H2 H3]]]]]].
  rewrite H1, H2. intros H. apply Forall_inv in H. rewrite H3 in H.
  vm_compute in H. discriminate H.
Qed.
