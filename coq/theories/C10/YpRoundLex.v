(* C10 half (b), round trip — the two "read up to" scanners: parse_to_single_colon
   (Grmtools action types, %parse-param names) and parse_to_eol (%actiontype,
   %parse-param types, %parse-generics). *)
From Coq Require Import List Arith NArith ZArith Bool Lia.
From GV Require Import Common.Outcome C10.YpModel C10.YpSpec C10.YpProofs C10.YpPrint C10.YpRoundSpec
  C10.YpRoundBase C10.YpRoundAction.
Import ListNotations.
Local Open Scope nat_scope.

Lemma next_char_at : forall src pre c r i, src = pre ++ c :: r -> i = byte_len pre -> next_char src i = Done c.
Proof. intros src pre c r i Hs Hi. subst. apply next_char_app. Qed.
Lemma slice_from_at : forall src pre r i, src = pre ++ r -> i = byte_len pre -> slice_from src i = Done r.
Proof. intros src pre r i Hs Hi. subst. apply slice_from_app. Qed.

(* ---- parse_to_single_colon -------------------------------------------------- *)
Lemma colon_not_nl : is_nl c_colon = false.
Proof. reflexivity. Qed.
Ltac fin3 :=
  match goal with
  | |- Done (Ok (?a, trim ?x, ?n)) = Done (Ok (?b, trim ?y, ?m)) =>
      replace a with b by (rewrite ?byte_len_app; cbn [byte_len]; change (len_utf8 c_colon) with 1; lia);
      replace x with y by (rewrite <- ?app_assoc; reflexivity);
      replace n with m by (rewrite ?count_nl_cons, ?colon_not_nl; lia);
      reflexivity
  end.

Lemma colon_loop_scan : forall m body, List.length body <= m ->
  forall src pre0 done rest i f nn,
  src = pre0 ++ done ++ body ++ c_colon :: rest -> i = byte_len pre0 ->
  colon_scan body = true -> not_starting is_colon rest ->
  List.length body < f ->
  colon_loop src (byte_len src) f i (i + byte_len done) nn
  = Done (Ok (i + byte_len done + byte_len body, trim (done ++ body), nn + count_nl body)).
Proof.
  induction m as [|m IH]; intros body Hm src pre0 done rest i f nn Hs Hi Hsc Hr Hf.
  - destruct body as [|c body]; [|cbn in Hm; lia].
    destruct f as [|f]; [cbn in Hf; lia|].
    cbn [app] in Hs.
    assert (Hs0 : src = (pre0 ++ done) ++ c_colon :: rest) by (rewrite Hs; lsolve).
    assert (Hj : i + byte_len done = byte_len (pre0 ++ done)) by (subst i; rewrite byte_len_app; reflexivity).
    cbn [colon_loop]. rewrite (lt_len_at _ _ _ _ _ Hs0 Hj). cbn [negb].
    rewrite (next_char_at _ _ _ _ _ Hs0 Hj). cbn [obind]. rewrite N.eqb_refl.
    assert (Hstop : (if i + byte_len done + 1 =? byte_len src then Done true
                     else obind (slice_from src (i + byte_len done + 1))
                                (fun r => Done (negb (prefix_of [c_colon] r)))) = Done true).
    { destruct rest as [|c2 rest'].
      - rewrite Hj. rewrite Hs0. rewrite (byte_len_app _ [c_colon]). cbn [byte_len]. change (len_utf8 c_colon) with 1.
        rewrite Nat.add_0_r, Nat.eqb_refl. reflexivity.
      - destruct (i + byte_len done + 1 =? byte_len src); [reflexivity|].
        assert (Hs1 : src = ((pre0 ++ done) ++ [c_colon]) ++ c2 :: rest') by (rewrite Hs0; lsolve).
        assert (Hj1 : i + byte_len done + 1 = byte_len ((pre0 ++ done) ++ [c_colon]))
          by (rewrite Hj, (byte_len_app _ [c_colon]); reflexivity).
        rewrite (slice_from_at _ _ _ _ Hs1 Hj1). cbn [obind prefix_of].
        cbn [not_starting] in Hr. unfold is_colon in Hr. rewrite N.eqb_sym, Hr. reflexivity. }
    rewrite Hstop. cbn [obind].
    assert (Hsl : slice src i (i + byte_len done) = Done done).
    { rewrite Hs. subst i. apply slice_app. }
    rewrite Hsl. cbn [obind]. rewrite app_nil_r. cbn [byte_len]. change (count_nl []) with 0.
    rewrite !Nat.add_0_r. reflexivity.
  - destruct body as [|c body].
    + apply (IH [] ltac:(cbn; lia) src pre0 done rest); assumption.
    + destruct f as [|f]; [cbn in Hf; lia|]. cbn [List.length] in Hm, Hf.
      assert (Hs0 : src = (pre0 ++ done) ++ c :: (body ++ c_colon :: rest)) by (rewrite Hs; lsolve).
      assert (Hj : i + byte_len done = byte_len (pre0 ++ done)) by (subst i; rewrite byte_len_app; reflexivity).
      cbn [colon_loop]. rewrite (lt_len_at _ _ _ _ _ Hs0 Hj). cbn [negb].
      rewrite (next_char_at _ _ _ _ _ Hs0 Hj). cbn [obind].
      cbn [colon_scan] in Hsc.
      destruct (c =? c_colon)%N eqn:Ec.
      * apply N.eqb_eq in Ec. subst c.
        destruct body as [|c2 body']; [discriminate Hsc|].
        apply andb_true_iff in Hsc. destruct Hsc as [E2 Hsc]. apply N.eqb_eq in E2. subst c2.
        assert (Hne : (i + byte_len done + 1 =? byte_len src) = false).
        { apply Nat.eqb_neq. rewrite Hj. rewrite Hs0. rewrite (byte_len_app (pre0 ++ done)). cbn [byte_len app].
          change (len_utf8 c_colon) with 1. lia. }
        rewrite Hne.
        assert (Hs1 : src = ((pre0 ++ done) ++ [c_colon]) ++ c_colon :: (body' ++ c_colon :: rest)) by (rewrite Hs0; lsolve).
        assert (Hj1 : i + byte_len done + 1 = byte_len ((pre0 ++ done) ++ [c_colon]))
          by (rewrite Hj, (byte_len_app _ [c_colon]); reflexivity).
        rewrite (slice_from_at _ _ _ _ Hs1 Hj1). cbn [obind prefix_of]. rewrite N.eqb_refl. cbn [negb andb].
        assert (Hs2 : src = pre0 ++ (done ++ [c_colon; c_colon]) ++ body' ++ c_colon :: rest) by (rewrite Hs; lsolve).
        replace (i + byte_len done + 2) with (i + byte_len (done ++ [c_colon; c_colon]))
          by (rewrite byte_len_app; cbn [byte_len]; change (len_utf8 c_colon) with 1; lia).
        cbn [List.length] in Hm, Hf.
        rewrite (IH body' ltac:(lia) src pre0 (done ++ [c_colon; c_colon]) rest i f nn Hs2 Hi Hsc Hr ltac:(lia)).
        fin3.
      * assert (Hs2 : src = pre0 ++ (done ++ [c]) ++ body ++ c_colon :: rest) by (rewrite Hs; lsolve).
        assert (Hj2 : i + byte_len done + len_utf8 c = i + byte_len (done ++ [c]))
          by (rewrite byte_len_app; cbn [byte_len]; lia).
        rewrite Hj2.
        destruct (is_nl c) eqn:En.
        -- rewrite (IH body ltac:(lia) src pre0 (done ++ [c]) rest i f (S nn) Hs2 Hi Hsc Hr ltac:(lia)).
           rewrite count_nl_cons, En. fin3.
        -- rewrite (IH body ltac:(lia) src pre0 (done ++ [c]) rest i f nn Hs2 Hi Hsc Hr ltac:(lia)).
           rewrite count_nl_cons, En. fin3.
Qed.

Lemma ws_not_colon : forall c, is_whitespace c = true -> (c =? c_colon)%N = false.
Proof.
  intros c H. apply N.eqb_neq. intros E. subst c. discriminate H.
Qed.

(* blanks after a text whose colons are paired *)
Lemma colon_scan_pad : forall m t, List.length t <= m -> forall pad,
  colon_scan t = true -> wf_pad pad -> colon_scan (t ++ pad) = true.
Proof.
  induction m as [|m IH]; intros t Hm pad Ht Hp.
  - destruct t; [|cbn in Hm; lia]. cbn [app]. clear Ht.
    induction pad as [|c pad IHp]; [reflexivity|].
    apply wf_pad_cons in Hp. destruct Hp as [Hc Hp]. cbn [colon_scan].
    rewrite (ws_not_colon c Hc). apply IHp. exact Hp.
  - destruct t as [|c t]; [apply (IH [] ltac:(cbn; lia)); assumption|].
    cbn [List.length] in Hm. cbn [app colon_scan] in *.
    destruct (c =? c_colon)%N.
    + destruct t as [|c2 t']; [discriminate Ht|]. cbn [app].
      apply andb_true_iff in Ht. destruct Ht as [E Ht]. rewrite E. cbn [andb].
      cbn [List.length] in Hm. apply IH; [lia | assumption ..].
    + apply IH; [lia | assumption ..].
Qed.

(* the text between the cursor and a single colon, in state form *)
Lemma to_colon_at : forall src pre t pad rest i n a g e,
  src = pre ++ t ++ pad ++ c_colon :: rest -> i = byte_len pre ->
  wf_rtype t -> wf_pad pad -> not_starting is_colon rest ->
  lift_nn (mkSt n a g e) (parse_to_single_colon src (byte_len src) (fuel_for src) n i)
  = Done (mkSt (n + count_nl (t ++ pad)) a g e, Ok (i + byte_len (t ++ pad), t)).
Proof.
  intros src pre t pad rest i n a g e Hs Hi [Htr Hsc] Hp Hr.
  unfold parse_to_single_colon.
  assert (Hs0 : src = pre ++ [] ++ (t ++ pad) ++ c_colon :: rest) by (rewrite Hs; lsolve).
  pose proof (colon_loop_scan (List.length (t ++ pad)) (t ++ pad) (le_n _) src pre [] rest i (fuel_for src) n
                Hs0 Hi (colon_scan_pad _ t (le_n _) pad Hsc Hp) Hr) as H.
  cbn [byte_len app] in H. rewrite Nat.add_0_r in H.
  rewrite H.
  - cbn [lift_nn]. unfold set_nn. cbn [ast gat errs].
    pose proof (trim_pads [] t pad eq_refl Hp Htr) as Ht. cbn [app] in Ht. rewrite Ht. reflexivity.
  - unfold fuel_for. rewrite Hs0. pose proof (length_le_byte_len (t ++ pad)) as HL.
    rewrite !byte_len_app. rewrite byte_len_app in HL. cbn [byte_len]. lia.
Qed.

(* ---- parse_to_eol ----------------------------------------------------------- *)
Lemma eol_loop_scan : forall t src pre0 done c rest i f,
  src = pre0 ++ done ++ t ++ c :: rest -> i = byte_len pre0 -> is_nl c = true ->
  forallb (fun c => negb (is_nl c)) t = true ->
  List.length t < f ->
  eol_loop src (byte_len src) f (i + byte_len done) = Done (i + byte_len done + byte_len t).
Proof.
  induction t as [|x t IH]; intros src pre0 done c rest i f Hs Hi Hc Ht Hf.
  - destruct f as [|f]; [cbn in Hf; lia|]. cbn [app] in Hs.
    assert (Hs0 : src = (pre0 ++ done) ++ c :: rest) by (rewrite Hs; lsolve).
    assert (Hj : i + byte_len done = byte_len (pre0 ++ done)) by (subst i; rewrite byte_len_app; reflexivity).
    cbn [eol_loop]. rewrite (lt_len_at _ _ _ _ _ Hs0 Hj). cbn [negb].
    rewrite (next_char_at _ _ _ _ _ Hs0 Hj). cbn [obind]. rewrite Hc. cbn [byte_len]. rewrite Nat.add_0_r. reflexivity.
  - destruct f as [|f]; [cbn in Hf; lia|]. cbn [List.length] in Hf.
    cbn [forallb] in Ht. apply andb_true_iff in Ht. destruct Ht as [Hx Ht]. apply negb_true_iff in Hx.
    assert (Hs0 : src = (pre0 ++ done) ++ x :: (t ++ c :: rest)) by (rewrite Hs; lsolve).
    assert (Hj : i + byte_len done = byte_len (pre0 ++ done)) by (subst i; rewrite byte_len_app; reflexivity).
    cbn [eol_loop]. rewrite (lt_len_at _ _ _ _ _ Hs0 Hj). cbn [negb].
    rewrite (next_char_at _ _ _ _ _ Hs0 Hj). cbn [obind]. rewrite Hx.
    assert (Hs2 : src = pre0 ++ (done ++ [x]) ++ t ++ c :: rest) by (rewrite Hs; lsolve).
    replace (i + byte_len done + len_utf8 x) with (i + byte_len (done ++ [x]))
      by (rewrite byte_len_app; cbn [byte_len]; lia).
    rewrite (IH src pre0 (done ++ [x]) c rest i f Hs2 Hi Hc Ht ltac:(lia)).
    f_equal. rewrite byte_len_app. cbn [byte_len]. lia.
Qed.

Lemma to_eol_at : forall src pre t c rest i (st : pst),
  src = pre ++ t ++ c :: rest -> i = byte_len pre -> is_nl c = true ->
  forallb (fun c => negb (is_nl c)) t = true ->
  lift st (parse_to_eol src (byte_len src) (fuel_for src) i) = Done (st, Ok (i + byte_len t, t)).
Proof.
  intros src pre t c rest i st Hs Hi Hc Ht. unfold parse_to_eol.
  assert (Hs0 : src = pre ++ [] ++ t ++ c :: rest) by (rewrite Hs; reflexivity).
  pose proof (eol_loop_scan t src pre [] c rest i (fuel_for src) Hs0 Hi Hc Ht) as H.
  cbn [byte_len] in H. rewrite Nat.add_0_r in H. rewrite H.
  - cbn [obind].
    assert (Hsl : slice src i (i + byte_len t) = Done t) by (rewrite Hs; subst i; apply slice_app).
    rewrite Hsl. reflexivity.
  - unfold fuel_for. rewrite Hs. pose proof (length_le_byte_len t). rewrite !byte_len_app. lia.
Qed.

(* a gap that starts with a newline character *)
Lemma nl_gap_hd : forall l, nl_gap l -> exists c r, l = c :: r /\ is_nl c = true /\ layout_text l.
Proof.
  intros [|c r] [Hl Hc]; [contradiction|]. exists c, r. repeat split; assumption.
Qed.
