(* C10 (a) — mirror of cfgrammar/src/lib/yacc/grammar.rs
   [YaccGrammar::new_from_ast_with_validity_info] (lines 141-395) and of the
   accessors (398-620), over an abstract [GrammarAST].

   Names and texts are lists of code units ([list N]); spans are pairs of byte
   offsets; indices (RIdx/PIdx/TIdx/SIdx) are list positions ([nat]; the
   narrowing to StorageT is C20's subject).  Every Rust panic site (index,
   unwrap, HashMap index) is an explicit [Panic]; the three "make the name
   longer until it is fresh" loops run on fuel.  The IndexMap [ast.rules] and
   IndexSet [ast.tokens] are lists in insertion order (keys are unique by
   construction of those containers: [wf_astb] below checks it on every dumped
   AST); the HashMaps [precs]/[epp] are association lists (only looked up);
   the HashMap [implicit_tokens] is only used as a set (since the upstream fix
   "Eco implicit-token productions were numbered in hash-map order" the
   constructor walks [ast.tokens] and filters by membership), so [a_implicit]
   is the list of its keys in any order.

   [fixed = false] is the code as it is; [fixed = true] is the code after the
   proposed fix (prod_spans / actions / action_spans resized to prods.len()).

   Definitions only; specification in GrmSpec.v, proofs in GrmProofs.v. *)
From Coq Require Import List Arith NArith Bool Lia.
From GV Require Import Common.Outcome.
Import ListNotations.

Definition name := list N.
Definition text := list N.
Definition span := (nat * nat)%type.

Definition name_dec : forall x y : name, {x = y} + {x <> y} := list_eq_dec N.eq_dec.
Definition name_eqb (x y : name) : bool := if name_dec x y then true else false.

(* ---- the abstract AST (ast.rs: GrammarAST, Rule, Production, Symbol) ----- *)

Inductive asym := ARule (n : name) | AToken (n : name).

Inductive assoc_kind := ALeft | ARight | ANonassoc.
Definition prec := (nat * assoc_kind)%type.        (* Precedence { level, kind } *)

Record aprod := mkAProd {
  ap_syms : list asym;
  ap_prec : option name;                 (* %prec TOKEN *)
  ap_action : option (text * span);
  ap_span : span
}.

Record arule := mkARule {
  ar_name : name;                        (* the IndexMap key (= Rule.name.0) *)
  ar_span : span;                        (* Rule.name.1 *)
  ar_pidxs : list nat;
  ar_actiont : option text
}.

Inductive ykind := KOriginal | KGrmtools | KEco.

Record ast := mkAst {
  a_kind : ykind;
  a_start : option name;
  a_rules : list arule;                  (* IndexMap order *)
  a_prods : list aprod;
  a_tokens : list name;                  (* IndexSet order *)
  a_spans : list span;                   (* ast.spans: one per token *)
  a_precs : list (name * prec);
  a_avoid : option (list name);          (* keys of avoid_insert *)
  a_implicit : option (list name);       (* keys of implicit_tokens (any order) *)
  a_epp : list (name * text);
  a_expect : option nat;
  a_expectrr : option nat;
  a_parse_param : option (text * text);
  a_parse_generics : option text;
  a_programs : option text
}.

(* ---- the grammar object (struct YaccGrammar) ---------------------------- *)

Inductive gsym := GT (t : nat) | GR (r : nat).

Record grammar_obj := mkObj {
  g_rule_names : list (name * span);               (* rules_len = its length *)
  g_token_names : list (option (span * name));     (* tokens_len = its length *)
  g_token_precs : list (option prec);
  g_token_epp : list (option text);
  g_eof : nat;
  g_prods : list (list gsym);                      (* prods_len = its length *)
  g_rules_prods : list (list nat);
  g_prods_rules : list nat;
  g_prod_precs : list (option prec);
  g_prod_spans : list span;
  g_start_prod : nat;
  g_implicit_rule : option nat;
  g_actions : list (option text);
  g_action_spans : list (option span);
  g_actiontypes : list (option text);
  g_avoid_insert : option (list bool);             (* the Vob *)
  g_expect : option nat;
  g_expectrr : option nat;
  g_parse_param : option (text * text);
  g_parse_generics : option text;
  g_programs : option text
}.

(* ---- small helpers -------------------------------------------------------- *)

Fixpoint index_of (x : name) (l : list name) : option nat :=
  match l with
  | [] => None
  | y :: l' => if name_dec x y then Some 0 else option_map S (index_of x l')
  end.

Definition mem (x : name) (l : list name) : bool :=
  match index_of x l with Some _ => true | None => false end.

Fixpoint assoc {B} (x : name) (l : list (name * B)) : option B :=
  match l with
  | [] => None
  | (y, b) :: l' => if name_dec x y then Some b else assoc x l'
  end.

Fixpoint upd {A} (l : list A) (i : nat) (v : A) : list A :=
  match l, i with
  | [], _ => []
  | _ :: l', 0 => v :: l'
  | y :: l', S i' => y :: upd l' i' v
  end.

(* l[i] = v *)
Definition set_nth {A} (l : list A) (i : nat) (v : A) : outcome (list A) :=
  if i <? length l then Done (upd l i v) else Panic.

(* l[i].push(v) *)
Definition push_at {A} (l : list (list A)) (i : nat) (v : A) : outcome (list (list A)) :=
  match nth_error l i with
  | Some ps => Done (upd l i (ps ++ [v]))
  | None => Panic
  end.

Fixpoint ofold {S X} (f : S -> X -> outcome S) (l : list X) (s : S) : outcome S :=
  match l with
  | [] => Done s
  | x :: l' => do s' <- f s x; ofold f l' s'
  end.

(* .into_iter().map(Option::unwrap).collect() *)
Fixpoint unwrap_all {A} (l : list (option A)) : outcome (list A) :=
  match l with
  | [] => Done []
  | Some x :: l' => do r <- unwrap_all l'; Done (x :: r)
  | None :: _ => Panic
  end.

(* Vec::resize(n, d) *)
Definition resize {A} (l : list A) (n : nat) (d : A) : list A :=
  firstn n l ++ repeat d (n - length l).

(* ---- fresh names ---------------------------------------------------------- *)

Definition START_RULE : name := [94%N].                       (* "^" *)
Definition IMPLICIT_RULE : name := [126%N].                   (* "~" *)
Definition IMPLICIT_START_RULE : name := [94%N; 126%N].       (* "^~" *)

(* let mut n = base; while ast.rules.get(&n).is_some() { n += base } *)
Fixpoint fresh_go (fuel : nat) (names : list name) (base cur : name) : outcome name :=
  if mem cur names then
    match fuel with
    | 0 => OutOfFuel
    | S f => fresh_go f names base (cur ++ base)
    end
  else Done cur.

Definition fresh (names : list name) (base : name) : outcome name :=
  fresh_go (length names) names base base.

(* ---- the constructor ------------------------------------------------------ *)

Record names_env := mkEnv {
  e_start_rule : name;
  e_implicit_rule : option name;
  e_implicit_start_rule : option name;
  e_rule_names : list (name * span)
}.

(* the vectors the main loop mutates *)
Record bstate := mkSt {
  b_prods : list (option (list gsym));
  b_precs : list (option (option prec));
  b_prules : list (option nat);
  b_actions : list (option text);
  b_aspans : list (option span);
  b_rprods : list (list nat);
  b_atypes : list (option text)
}.

Definition opt_name_is (o : option name) (n : name) : bool :=
  match o with Some m => name_eqb m n | None => false end.

(* for astsym in astprod.symbols.iter().rev() { if let Token(n) = astsym { …; break } } *)
Fixpoint first_token (l : list asym) : option name :=
  match l with
  | [] => None
  | AToken n :: _ => Some n
  | ARule _ :: l' => first_token l'
  end.

Section Build.
  Variable fixed : bool.
  Variable a : ast.

  Definition src_names : list name := map ar_name (a_rules a).
  Definition src_rule_names : list (name * span) :=
    map (fun r => (ar_name r, ar_span r)) (a_rules a).

  (* grammar.rs:167-216 *)
  Definition mk_names : outcome names_env :=
    do start_rule <- fresh src_names START_RULE;
    match a_kind a, a_implicit a with
    | KEco, Some _ =>
        do n1 <- fresh src_names IMPLICIT_RULE;
        do n2 <- fresh src_names IMPLICIT_START_RULE;
        Done (mkEnv start_rule (Some n1) (Some n2)
                ((start_rule, (0, 0)) :: (n1, (0, 0)) :: (n2, (0, 0)) :: src_rule_names))
    | _, _ =>
        Done (mkEnv start_rule None None ((start_rule, (0, 0)) :: src_rule_names))
    end.

  (* ast.rules[name] *)
  Definition find_rule (n : name) : outcome arule :=
    match find (fun r => name_eqb n (ar_name r)) (a_rules a) with
    | Some r => Done r
    | None => Panic
    end.

  (* grammar.rs:227-228: Some((ast.spans[i], k.clone())) *)
  Fixpoint tok_names (toks : list name) (i : nat) : outcome (list (option (span * name))) :=
    match toks with
    | [] => Done []
    | k :: ts =>
        do sp <- nth_checked (a_spans a) i;
        do r <- tok_names ts (S i);
        Done (Some (sp, k) :: r)
    end.

  Definition tok_precs : list (option prec) :=
    map (fun k => assoc k (a_precs a)) (a_tokens a) ++ [None].

  Definition tok_epp : list (option text) :=
    map (fun k => Some (match assoc k (a_epp a) with Some s => s | None => k end)) (a_tokens a)
    ++ [None].

  (* token_map[n] : named tokens sit at their IndexSet position *)
  Definition token_map (n : name) : outcome nat :=
    match index_of n (a_tokens a) with Some i => Done i | None => Panic end.

  Section Loop.
    Variable E : names_env.
    Variable start_name : name.

    (* rule_map[n] : position in rule_names (names are pairwise distinct, see
       GrmProofs.rule_names_nodup, so "first" and "last inserted" coincide) *)
    Definition rule_map (n : name) : outcome nat :=
      match index_of n (map fst (e_rule_names E)) with Some i => Done i | None => Panic end.

    (* grammar.rs:314-326 *)
    Definition conv_sym (s : asym) : outcome (list gsym) :=
      match s with
      | ARule n => do r <- rule_map n; Done [GR r]
      | AToken n =>
          do t <- token_map n;
          match e_implicit_rule E with
          | Some ir => do r <- rule_map ir; Done [GT t; GR r]
          | None => Done [GT t]
          end
      end.

    Fixpoint conv_syms (l : list asym) : outcome (list gsym) :=
      match l with
      | [] => Done []
      | s :: l' => do x <- conv_sym s; do r <- conv_syms l'; Done (x ++ r)
      end.

    (* grammar.rs:327-339 *)
    Definition prod_prec_of (ap : aprod) : outcome (option prec) :=
      match ap_prec ap with
      | Some n =>
          match assoc n (a_precs a) with Some p => Done (Some p) | None => Panic end
      | None =>
          match first_token (rev (ap_syms ap)) with
          | Some n => Done (assoc n (a_precs a))
          | None => Done None
          end
      end.

    (* prods.push(..); prod_precs.push(Some(None)); prods_rules.push(Some(ridx));
       [and actions.push(None) for the start production only] *)
    Definition push_prod (s : bstate) (rp : list (list nat)) (p : list gsym) (ridx : nat)
               (with_action : bool) : bstate :=
      mkSt (b_prods s ++ [Some p]) (b_precs s ++ [Some None]) (b_prules s ++ [Some ridx])
           (if with_action then b_actions s ++ [None] else b_actions s)
           (b_aspans s) rp (b_atypes s).

    (* grammar.rs:311-348, one iteration *)
    Definition write_prod (ridx : nat) (s : bstate) (pidx : nat) : outcome bstate :=
      do ap <- nth_checked (a_prods a) pidx;
      do prod <- conv_syms (ap_syms ap);
      do pr <- prod_prec_of ap;
      do rp <- push_at (b_rprods s) ridx pidx;
      do p1 <- set_nth (b_prods s) pidx (Some prod);
      do p2 <- set_nth (b_precs s) pidx (Some pr);
      do p3 <- set_nth (b_prules s) pidx (Some ridx);
      match ap_action ap with
      | Some (t, sp) =>
          do p4 <- set_nth (b_actions s) pidx (Some t);
          do p5 <- set_nth (b_aspans s) pidx (Some sp);
          Done (mkSt p1 p2 p3 p4 p5 rp (b_atypes s))
      | None => Done (mkSt p1 p2 p3 (b_actions s) (b_aspans s) rp (b_atypes s))
      end.

    (* one implicit token: grammar.rs:297-306 *)
    Definition implicit_prod (ridx : nat) (s : bstate) (t : name) : outcome bstate :=
      do rp <- push_at (b_rprods s) ridx (length (b_prods s));
      do tk <- token_map t;
      Done (push_prod s rp [GT tk; GR ridx] ridx false).

    (* the body of  for (astrulename, _) in &rule_names  (grammar.rs:255-349) *)
    Definition step (s : bstate) (rn : name) : outcome bstate :=
      do ridx <- rule_map rn;
      if name_eqb rn (e_start_rule E) then
        do rp <- push_at (b_rprods s) ridx (length (b_prods s));
        do tgt <- match e_implicit_start_rule E with
                  | None => rule_map start_name
                  | Some s' => rule_map s'
                  end;
        Done (push_prod s rp [GR tgt] ridx true)
      else if opt_name_is (e_implicit_start_rule E) rn then
        do rp <- push_at (b_rprods s) ridx (length (b_prods s));
        do ir <- match e_implicit_rule E with Some n => rule_map n | None => Panic end;
        do sn <- rule_map start_name;
        Done (push_prod s rp [GR ir; GR sn] ridx false)
      else if opt_name_is (e_implicit_rule E) rn then
        do keys <- match a_implicit a with Some l => Done l | None => Panic end;
        (* for t in ast.tokens.iter().filter(|t| implicit_tokens.contains_key(t)) *)
        do s1 <- ofold (implicit_prod ridx) (filter (fun t => mem t keys) (a_tokens a)) s;
        do rp <- push_at (b_rprods s1) ridx (length (b_prods s1));
        Done (push_prod s1 rp [] ridx false)
      else
        do r <- find_rule rn;
        do ats <- set_nth (b_atypes s) ridx (ar_actiont r);
        do _ <- nth_checked (b_rprods s) ridx;
        ofold (write_prod ridx) (ar_pidxs r)
              (mkSt (b_prods s) (b_precs s) (b_prules s) (b_actions s) (b_aspans s) (b_rprods s) ats).
  End Loop.

  (* grammar.rs:351-359 *)
  Definition mk_avoid (ntoks : nat) : outcome (option (list bool)) :=
    match a_avoid a with
    | None => Done None
    | Some l =>
        do v <- ofold (fun v n => do t <- token_map n; set_nth v t true) l (repeat false ntoks);
        Done (Some v)
    end.

  Definition build_grammar : outcome grammar_obj :=
    do E <- mk_names;
    let rn := map fst (e_rule_names E) in
    do tn <- tok_names (a_tokens a) 0;
    let token_names := tn ++ [None] in
    let n := length (a_prods a) in
    do start_name <- match a_start a with Some s => Done s | None => Panic end;
    let s0 := mkSt (repeat None n) (repeat None n) (repeat None n) (repeat None n) (repeat None n)
                   (repeat [] (length rn)) (repeat None (length rn)) in
    do s <- ofold (step E start_name) rn s0;
    do avoid <- mk_avoid (length token_names);
    do sr <- rule_map E (e_start_rule E);
    do sps <- nth_checked (b_rprods s) sr;
    do start_prod <- nth_checked sps 0;
    do prules <- unwrap_all (b_prules s);
    do prods <- unwrap_all (b_prods s);
    do precs <- unwrap_all (b_precs s);
    do ir <- match e_implicit_rule E with
             | Some x => do i <- rule_map E x; Done (Some i)
             | None => Done None
             end;
    let pl := length prods in
    let spans0 := map ap_span (a_prods a) in
    Done (mkObj (e_rule_names E) token_names tok_precs tok_epp (length tn)
                prods (b_rprods s) prules precs
                (if fixed then resize spans0 pl (0, 0) else spans0)
                start_prod ir
                (if fixed then resize (b_actions s) pl None else b_actions s)
                (if fixed then resize (b_aspans s) pl None else b_aspans s)
                (b_atypes s) avoid
                (a_expect a) (a_expectrr a) (a_parse_param a) (a_parse_generics a) (a_programs a)).
End Build.

(* ---- the accessors (grammar.rs:398-620) ----------------------------------- *)

Definition rules_len (g : grammar_obj) : nat := length (g_rule_names g).
Definition prods_len (g : grammar_obj) : nat := length (g_prods g).
Definition tokens_len (g : grammar_obj) : nat := length (g_token_names g).
Definition iter_rules (g : grammar_obj) : list nat := seq 0 (rules_len g).
Definition iter_pidxs (g : grammar_obj) : list nat := seq 0 (prods_len g).
Definition iter_tidxs (g : grammar_obj) : list nat := seq 0 (tokens_len g).

Definition prod_at (g : grammar_obj) (p : nat) : outcome (list gsym) := nth_checked (g_prods g) p.
Definition prod_len (g : grammar_obj) (p : nat) : outcome nat :=
  do x <- nth_checked (g_prods g) p; Done (length x).
Definition prod_to_rule (g : grammar_obj) (p : nat) : outcome nat := nth_checked (g_prods_rules g) p.
Definition prod_precedence (g : grammar_obj) (p : nat) : outcome (option prec) :=
  nth_checked (g_prod_precs g) p.
Definition prod_span (g : grammar_obj) (p : nat) : outcome span := nth_checked (g_prod_spans g) p.
Definition start_prod (g : grammar_obj) : nat := g_start_prod g.
Definition rule_to_prods (g : grammar_obj) (r : nat) : outcome (list nat) :=
  nth_checked (g_rules_prods g) r.
Definition rule_name_str (g : grammar_obj) (r : nat) : outcome name :=
  do x <- nth_checked (g_rule_names g) r; Done (fst x).
Definition rule_name_span (g : grammar_obj) (r : nat) : outcome span :=
  do x <- nth_checked (g_rule_names g) r; Done (snd x).
Definition implicit_rule (g : grammar_obj) : option nat := g_implicit_rule g.
Definition rule_idx (g : grammar_obj) (n : name) : option nat :=
  index_of n (map fst (g_rule_names g)).
Definition start_rule_idx (g : grammar_obj) : outcome nat := prod_to_rule g (g_start_prod g).
Definition eof_token_idx (g : grammar_obj) : nat := g_eof g.
Definition token_name (g : grammar_obj) (t : nat) : outcome (option name) :=
  do x <- nth_checked (g_token_names g) t; Done (option_map snd x).
Definition token_precedence (g : grammar_obj) (t : nat) : outcome (option prec) :=
  nth_checked (g_token_precs g) t.
Definition token_epp (g : grammar_obj) (t : nat) : outcome (option text) :=
  nth_checked (g_token_epp g) t.
Definition token_span (g : grammar_obj) (t : nat) : outcome (option span) :=
  do x <- nth_checked (g_token_names g) t; Done (option_map fst x).
Definition action (g : grammar_obj) (p : nat) : outcome (option text) := nth_checked (g_actions g) p.
Definition action_span (g : grammar_obj) (p : nat) : outcome (option span) :=
  nth_checked (g_action_spans g) p.
Definition actiontype (g : grammar_obj) (r : nat) : outcome (option text) :=
  nth_checked (g_actiontypes g) r.

(* position of the first token carrying that name *)
Fixpoint token_idx_go (l : list (option (span * name))) (n : name) (i : nat) : option nat :=
  match l with
  | [] => None
  | Some (_, m) :: l' => if name_dec m n then Some i else token_idx_go l' n (S i)
  | None :: l' => token_idx_go l' n (S i)
  end.
Definition token_idx (g : grammar_obj) (n : name) : option nat := token_idx_go (g_token_names g) n 0.

(* tokens_map(): (name, tidx) of every named token, by increasing tidx *)
Fixpoint tokens_map_go (l : list (option (span * name))) (i : nat) : list (name * nat) :=
  match l with
  | [] => []
  | Some (_, m) :: l' => (m, i) :: tokens_map_go l' (S i)
  | None :: l' => tokens_map_go l' (S i)
  end.
Definition tokens_map (g : grammar_obj) : list (name * nat) := tokens_map_go (g_token_names g) 0.

(* ai.get(tidx).unwrap() *)
Definition avoid_insert (g : grammar_obj) (t : nat) : outcome bool :=
  match g_avoid_insert g with
  | Some v => nth_checked v t
  | None => Done false
  end.

(* ---- checkable well-formedness of an AST ---------------------------------
   What YaccParser + complete_and_validate guarantee for a valid AST (and the
   container invariants of IndexMap/IndexSet).  Evaluated on every dumped AST by
   the correspondence run, so the hypotheses of the theorems are checked facts
   about the implementation's ASTs. *)

Fixpoint nodupb (l : list name) : bool :=
  match l with [] => true | x :: l' => negb (mem x l') && nodupb l' end.

Fixpoint nodup_natb (l : list nat) : bool :=
  match l with [] => true | x :: l' => negb (existsb (Nat.eqb x) l') && nodup_natb l' end.

Definition all_pidxs (a : ast) : list nat := concat (map ar_pidxs (a_rules a)).

Definition sym_ok (a : ast) (s : asym) : bool :=
  match s with
  | ARule n => mem n (map ar_name (a_rules a))
  | AToken n => mem n (a_tokens a)
  end.

Definition prod_ok (a : ast) (p : aprod) : bool :=
  forallb (sym_ok a) (ap_syms p) &&
  match ap_prec p with
  | Some n => match assoc n (a_precs a) with Some _ => true | None => false end
  | None => true
  end.

Definition names_in_tokens (a : ast) (o : option (list name)) : bool :=
  match o with Some l => forallb (fun n => mem n (a_tokens a)) l | None => true end.

Definition wf_astb (a : ast) : bool :=
  nodupb (map ar_name (a_rules a)) &&
  nodupb (a_tokens a) &&
  (length (a_spans a) =? length (a_tokens a)) &&
  match a_start a with Some s => mem s (map ar_name (a_rules a)) | None => false end &&
  forallb (fun p => p <? length (a_prods a)) (all_pidxs a) &&
  nodup_natb (all_pidxs a) &&
  (length (all_pidxs a) =? length (a_prods a)) &&
  forallb (prod_ok a) (a_prods a) &&
  names_in_tokens a (a_avoid a) &&
  names_in_tokens a (a_implicit a).
