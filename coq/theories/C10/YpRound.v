(* C10 half (b), round trip — assembly: the declarations section, the whole
   parse, the whole file. *)
From Coq Require Import List Arith NArith ZArith Bool Lia.
From GV Require Import Common.Outcome C10.YpModel C10.YpSpec C10.YpProofs C10.YpTotal C10.YpPrint
  C10.YpRoundSpec C10.YpRoundBase C10.YpRoundInv C10.YpRoundAction C10.YpRoundLex C10.YpRoundRules
  C10.YpRoundDeclSimple C10.YpRoundDeclToken C10.YpRoundDeclLines C10.YpRoundDeclEol C10.YpRoundDeclEu
  C10.YpRoundDeclImplicit C10.YpRoundDeclInv C10.YpRoundValid.
Import ListNotations.
Local Open Scope nat_scope.

(* ======================================================================== *)
(*  Lexical layer and rules: the statements of YpRoundSpec.v                  *)
(* ======================================================================== *)
Lemma rule_roundtrip : rule_roundtrip_stmt.
Proof. intros k fa fp D src pre rl r rest i n a g e Hs Hi Hw Hk Hr Hinv. apply (rule_at k fa fp D src pre rl r rest); assumption. Qed.

Lemma rules_roundtrip : rules_roundtrip_stmt.
Proof.
  intros k fa fp D l src pre gap rs rest i n a g e Hs Hi Hl Hw Hk He Hinv.
  apply (rules_section_at k fa fp D l src pre gap rs rest); assumption.
Qed.

(* ======================================================================== *)
(*  Declarations                                                             *)
(* ======================================================================== *)
Lemma decl_step : decl_step_stmt.
Proof.
  intros yk [nm|ts|k ts|t v|ts|v|v|t|nm t|t|ss|ts].
  - apply decl_step_start.
  - apply decl_step_token.
  - apply decl_step_prec.
  - apply decl_step_epp.
  - apply decl_step_avoid.
  - apply decl_step_expect.
  - apply decl_step_expectrr.
  - apply decl_step_actiontype.
  - apply decl_step_parse_param.
  - apply decl_step_parse_generics.
  - apply decl_step_expect_unused.
  - apply decl_step_implicit.
Qed.

(* every declaration starts with '%' *)
Lemma print_decl_hd : forall dl x, exists t, print_decl dl x = 37%N :: t.
Proof. intros dl [nm|ts|[| |] ts|t v|ts|v|v|t|nm t|t|ss|ts]; eexists; reflexivity. Qed.

Lemma print_decls_pp_hd : forall l ds d rest, exists t, print_decls l d ds ++ kw_pp ++ rest = 37%N :: t.
Proof.
  intros l [|x ds] d rest; cbn [print_decls].
  - eexists. reflexivity.
  - destruct (print_decl_hd (dlay_of l d) x) as [t E]. rewrite E. eexists. reflexivity.
Qed.

Lemma decls_loop_at : forall k l ds d src pre rest i f n a g e lvl,
  src = pre ++ print_decls l d ds ++ kw_pp ++ rest -> i = byte_len pre ->
  wf_decls l d ds -> Forall (decl_kind_ok k) ds -> decls_pre l d i lvl ds a g -> List.length ds < f ->
  exists n',
    decl_loop true k src (byte_len src) (fuel_for src) f (mkSt n a g e) i lvl
    = Done (mkSt n' (decls_eff l d i lvl ds a) (decls_gat l d i ds g) e, Ok (i + byte_len (print_decls l d ds))).
Proof.
  intros k l ds. induction ds as [|x ds IH]; intros d src pre rest i f n a g e lvl Hs Hi Hw Hk Hp Hf.
  - destruct f as [|f]; [cbn in Hf; lia|]. cbn [print_decls app] in Hs.
    exists n. cbn [decl_loop].
    assert (Hs0 : src = pre ++ 37%N :: (37%N :: rest)) by (rewrite Hs; reflexivity).
    rewrite (lt_len_at _ _ _ _ _ Hs0 Hi). cbn [negb].
    look1 Hs Hi. cbn [print_decls byte_len decls_eff decls_gat]. rewrite Nat.add_0_r. reflexivity.
  - destruct f as [|f]; [cbn in Hf; lia|]. cbn [List.length] in Hf.
    cbn [print_decls wf_decls decls_pre decls_eff decls_gat] in *. destruct Hw as [Hwx Hw']. destruct Hp as [Hpx Hp'].
    inversion Hk as [|x' ds' Hkx Hk']; subst x' ds'.
    destruct (print_decls_pp_hd l ds (S d) rest) as [t Et].
    assert (Hs1 : src = pre ++ print_decl (dlay_of l d) x ++ 37%N :: t) by (rewrite Hs, <- Et; lsolve).
    destruct (decl_step k x src pre _ t i f n a g e lvl Hs1 Hi Hwx Hkx Hpx) as [n1 H1].
    rewrite H1. clear H1.
    assert (Hs2 : src = (pre ++ print_decl (dlay_of l d) x) ++ print_decls l (S d) ds ++ kw_pp ++ rest)
      by (rewrite Hs; lsolve).
    assert (Hi2 : i + byte_len (print_decl (dlay_of l d) x) = byte_len (pre ++ print_decl (dlay_of l d) x))
      by (subst i; rewrite byte_len_app; reflexivity).
    destruct (IH (S d) src _ rest _ f n1 _ _ e _ Hs2 Hi2 Hw' Hk' Hp' ltac:(lia)) as [n2 H2].
    exists n2. rewrite H2. f_equal. f_equal. f_equal. rewrite byte_len_app. lia.
Qed.

Lemma decls_length_le : forall l ds d, List.length ds <= byte_len (print_decls l d ds).
Proof.
  intros l ds. induction ds as [|x ds IH]; intros d; [cbn; lia|]. cbn [List.length print_decls].
  rewrite byte_len_app. destruct (print_decl_hd (dlay_of l d) x) as [t E]. rewrite E. cbn [byte_len].
  change (len_utf8 37) with 1. specialize (IH (S d)). lia.
Qed.

Lemma declarations_roundtrip : declarations_roundtrip_stmt.
Proof.
  intros k l ds src rest n a g e Hs Hl Hw Hk Hp.
  unfold parse_declarations.
  destruct (print_decls_pp_hd l ds 0 rest) as [t Et].
  assert (Hs0 : src = [] ++ l_gap l [0] ++ (print_decls l 0 ds ++ kw_pp ++ rest)) by (rewrite Hs; reflexivity).
  rewrite (ws_gap _ _ _ _ _ _ _ _ _ true Hs0 eq_refl Hl ltac:(rewrite Et; reflexivity)) by (intros HH; discriminate HH).
  cbn [sbind byte_len Nat.add].
  assert (Hlen : List.length ds < fuel_for src).
  { unfold fuel_for. rewrite Hs, !byte_len_app. pose proof (decls_length_le l ds 0). lia. }
  destruct (decls_loop_at k l ds 0 src (l_gap l [0]) rest _ (fuel_for src) (n + count_nl (l_gap l [0])) a g e 0
              Hs eq_refl Hw Hk Hp Hlen) as [n' Hn'].
  exists n'. exact Hn'.
Qed.

(* ======================================================================== *)
(*  The whole file                                                           *)
(* ======================================================================== *)
(* no %grmtools header: the text starts with layout, then '%' of a declaration or of "%%" *)
Lemma drop_pws_layout : forall l, layout_text l -> forall rest,
  (exists t, drop_while is_pattern_ws (l ++ rest) = c_slash :: t) \/
  drop_while is_pattern_ws (l ++ rest) = drop_while is_pattern_ws rest.
Proof.
  intros l Hl. induction Hl as [|it l' Hit Hl' IH]; intros rest; [right; reflexivity|].
  destruct Hit as [c Hc | body nl _ _ | body _].
  - cbn [app drop_while].
    assert (Hp : is_pattern_ws c = true).
    { unfold is_blank, is_sptab, is_nl in Hc. unfold is_pattern_ws.
      nbool; subst c; reflexivity. }
    rewrite Hp. apply IH.
  - left. eexists. reflexivity.
  - left. eexists. reflexivity.
Qed.

Lemma header_absent : forall l ag, layout_text (l_gap l [0]) -> header_present (print l ag) = false.
Proof.
  intros l ag Hl. unfold header_present, print.
  destruct (print_decls_pp_hd l (ag_decls ag) 0 (l_gap l [2] ++ print_rules l 0 (ag_rules ag) ++ print_programs l ag)) as [t Et].
  destruct (drop_pws_layout _ Hl (print_decls l 0 (ag_decls ag) ++ kw_pp ++ l_gap l [2] ++ print_rules l 0 (ag_rules ag) ++ print_programs l ag))
    as [[t' E]|E]; rewrite E.
  - reflexivity.
  - rewrite Et. cbn [drop_while]. change (is_pattern_ws 37) with false. cbv iota.
    rewrite <- Et.
    destruct (ag_decls ag) as [|x ds]; [reflexivity|]. cbn [print_decls].
    assert (Hk : forall dl x r, prefix_of kw_grmtools (print_decl dl x ++ r) = false).
    { clear. intros dl [nm|ts|[| |] ts|t v|ts|v|v|t|nm t|t|ss|ts] r; reflexivity. }
    rewrite <- app_assoc. apply Hk.
Qed.

(* the three sections of YaccParser::parse *)
Lemma rules_end_programs : forall l ag, rules_end (print_programs l ag).
Proof. intros l ag. unfold print_programs. destruct (ag_programs ag); [right; eexists; reflexivity | left; reflexivity]. Qed.

Lemma wf_agram_decl_kinds : forall k ag, wf_agram k ag -> Forall (decl_kind_ok k) (ag_decls ag).
Proof. intros k ag H. unfold wf_agram in H. decompose [and] H. assumption. Qed.
Lemma wf_agram_rule_kinds : forall k ag, wf_agram k ag -> Forall (rule_kind_ok k) (ag_rules ag).
Proof. intros k ag H. unfold wf_agram in H. decompose [and] H. assumption. Qed.

Lemma parse_at : forall k fa fp l ag,
  wf_layout l ag ->
  Forall (decl_kind_ok k) (ag_decls ag) -> Forall (rule_kind_ok k) (ag_rules ag) ->
  decls_pre l 0 (decls_off l) 0 (ag_decls ag) ast_new None ->
  tok_inv (declared_b ag) (decls_eff l 0 (decls_off l) 0 (ag_decls ag) ast_new) ->
  exists n',
    parse true fa fp k (print l ag) (byte_len (print l ag)) (fuel_for (print l ag))
    = Done (mkSt n' (ast_of fa fp l ag) (gat_of l ag) [], []).
Proof.
  intros k fa fp l ag [Hl0 [Hwd [Hl2 [Hwr Hwp]]]] Hkd Hkr Hpre Hinv. unfold decls_off in *.
  set (src := print l ag).
  assert (Hs : src = l_gap l [0] ++ print_decls l 0 (ag_decls ag) ++ kw_pp
                     ++ (l_gap l [2] ++ print_rules l 0 (ag_rules ag) ++ print_programs l ag))
    by reflexivity.
  unfold parse, st0.
  destruct (declarations_roundtrip k l (ag_decls ag) src _ 0 ast_new None [] Hs Hl0 Hwd Hkd Hpre) as [n1 H1].
  rewrite H1. clear H1. cbn [obind].
  fold (decls_off l). fold (gat_of l ag). unfold decls_off.
  assert (Hs2 : src = (l_gap l [0] ++ print_decls l 0 (ag_decls ag)) ++ kw_pp ++ l_gap l [2]
                      ++ print_rules l 0 (ag_rules ag) ++ print_programs l ag)
    by (rewrite Hs; lsolve).
  assert (Hi2 : byte_len (l_gap l [0]) + byte_len (print_decls l 0 (ag_decls ag))
                = byte_len (l_gap l [0] ++ print_decls l 0 (ag_decls ag))) by (rewrite byte_len_app; reflexivity).
  destruct (rules_roundtrip k fa fp (declared_b ag) l src _ _ (ag_rules ag) _ _ n1 _ (gat_of l ag) [] Hs2 Hi2 Hl2 Hwr Hkr
              (rules_end_programs l ag) Hinv) as [n2 H2].
  rewrite H2. clear H2. cbn [obind].
  unfold parse_programs.
  set (a2 := rules_eff fa fp l 0 _ _ (ag_rules ag) _).
  assert (Ha : ast_of fa fp l ag = programs_eff ag a2).
  { unfold ast_of, a2, rules_off, decls_off. change (byte_len kw_pp) with 2. reflexivity. }
  assert (Hs3 : src = ((l_gap l [0] ++ print_decls l 0 (ag_decls ag)) ++ kw_pp ++ l_gap l [2] ++ print_rules l 0 (ag_rules ag))
                      ++ print_programs l ag) by (rewrite Hs; lsolve).
  assert (Hi3 : byte_len (l_gap l [0]) + byte_len (print_decls l 0 (ag_decls ag)) + 2 + byte_len (l_gap l [2])
                + byte_len (print_rules l 0 (ag_rules ag))
                = byte_len ((l_gap l [0] ++ print_decls l 0 (ag_decls ag)) ++ kw_pp ++ l_gap l [2] ++ print_rules l 0 (ag_rules ag)))
    by (rewrite !byte_len_app; change (byte_len kw_pp) with 2; lia).
  rewrite Ha. unfold programs_eff, print_programs, wf_programs in *.
  destruct (ag_programs ag) as [p|].
  - destruct Hwp as [Hl5 Hp].
    look1 Hs3 Hi3. change (byte_len kw_pp) with 2.
    assert (Hs4 : src = (((l_gap l [0] ++ print_decls l 0 (ag_decls ag)) ++ kw_pp ++ l_gap l [2] ++ print_rules l 0 (ag_rules ag)) ++ kw_pp)
                        ++ l_gap l [5] ++ p) by (rewrite Hs3; lsolve).
    assert (Hi4 : byte_len (l_gap l [0]) + byte_len (print_decls l 0 (ag_decls ag)) + 2 + byte_len (l_gap l [2])
                  + byte_len (print_rules l 0 (ag_rules ag)) + 2
                  = byte_len (((l_gap l [0] ++ print_decls l 0 (ag_decls ag)) ++ kw_pp ++ l_gap l [2] ++ print_rules l 0 (ag_rules ag)) ++ kw_pp))
      by (rewrite Hi3, (byte_len_app _ kw_pp); reflexivity).
    rewrite (ws_gap_solid _ _ _ _ _ _ _ _ _ true Hs4 Hi4 Hl5 Hp) by (intros HH; discriminate HH).
    cbn [sbind].
    assert (Hs5 : src = ((((l_gap l [0] ++ print_decls l 0 (ag_decls ag)) ++ kw_pp ++ l_gap l [2] ++ print_rules l 0 (ag_rules ag)) ++ kw_pp)
                         ++ l_gap l [5]) ++ p) by (rewrite Hs4; lsolve).
    assert (Hi5 : byte_len (l_gap l [0]) + byte_len (print_decls l 0 (ag_decls ag)) + 2 + byte_len (l_gap l [2])
                  + byte_len (print_rules l 0 (ag_rules ag)) + 2 + byte_len (l_gap l [5])
                  = byte_len ((((l_gap l [0] ++ print_decls l 0 (ag_decls ag)) ++ kw_pp ++ l_gap l [2] ++ print_rules l 0 (ag_rules ag)) ++ kw_pp)
                               ++ l_gap l [5]))
      by (rewrite Hi4, (byte_len_app _ (l_gap l [5])); reflexivity).
    rewrite (slice_from_at _ _ _ _ Hs5 Hi5). cbn [lifto sbind ret obind errs]. stn.
    eexists. reflexivity.
  - rewrite app_nil_r in Hs3.
    assert (Hs3' : src = src ++ []) by (rewrite app_nil_r; reflexivity).
    assert (Hi3' : byte_len (l_gap l [0]) + byte_len (print_decls l 0 (ag_decls ag)) + 2 + byte_len (l_gap l [2])
                   + byte_len (print_rules l 0 (ag_rules ag)) = byte_len src) by (rewrite Hi3, <- Hs3; reflexivity).
    rewrite (look_at _ _ _ _ _ _ Hs3' Hi3'). cbn [prefix_of kw_pp sbind ret obind errs].
    eexists. reflexivity.
Qed.

(* parse, then validate: the AST is the denoted one, the errors are exactly those of validating it *)
Lemma run_case_at : forall k fa fp fu l ag,
  wf_layout l ag ->
  Forall (decl_kind_ok k) (ag_decls ag) -> Forall (rule_kind_ok k) (ag_rules ag) ->
  decls_pre l 0 (decls_off l) 0 (ag_decls ag) ast_new None ->
  tok_inv (declared_b ag) (decls_eff l 0 (decls_off l) 0 (ag_decls ag) ast_new) ->
  forall v, complete_and_validate (ast_of fa fp l ag) = Done v ->
  run_case true fa fp fu k (print l ag)
  = Done (TResult (ast_of fa fp l ag) (match v with Some e => [e] | None => [] end) (warnings_of fa fp fu l ag)).
Proof.
  intros k fa fp fu l ag Hw Hkd Hkr Hpre Hinv v Hv. unfold run_case, yacc_new_gen.
  rewrite (header_absent l ag (proj1 Hw)).
  destruct (parse_at k fa fp l ag Hw Hkd Hkr Hpre Hinv) as [n' Hp]. rewrite Hp. cbn [obind ast].
  rewrite Hv. cbn [obind app]. reflexivity.
Qed.

Lemma yacc_parse_roundtrip : yacc_parse_roundtrip_stmt.
Proof.
  intros k fa fp fu l ag Hag Hlay.
  pose proof (decls_pre_wf k l ag Hag) as Hpre. pose proof (decls_tok_inv l ag) as Hinv.
  pose proof (wf_agram_decl_kinds k ag Hag) as Hkd. pose proof (wf_agram_rule_kinds k ag Hag) as Hkr.
  destruct (yacc_parse_total true fa fp fu k (print l ag)) as [r Hr].
  assert (Hv : exists v, complete_and_validate (ast_of fa fp l ag) = Done v).
  { unfold run_case, yacc_new_gen in Hr. rewrite (header_absent l ag (proj1 Hlay)) in Hr.
    destruct (parse_at k fa fp l ag Hlay Hkd Hkr Hpre Hinv) as [n' Hp]. rewrite Hp in Hr. cbn [obind ast] in Hr.
    destruct (complete_and_validate (ast_of fa fp l ag)) as [v| |]; [exists v; reflexivity | discriminate Hr ..]. }
  destruct Hv as [v Hv]. exists v. split; [exact Hv|].
  apply run_case_at; assumption.
Qed.

(* the round-trip law: whatever the dialect and the layout, the printed grammar parses to its AST,
   without error — for the repaired action span ([fa = true]) and for the code as it is *)
Lemma yacc_roundtrip : yacc_roundtrip_stmt.
Proof.
  intros k fa fp fu l ag Hag Hlay.
  apply (run_case_at k fa fp fu l ag Hlay (wf_agram_decl_kinds k ag Hag) (wf_agram_rule_kinds k ag Hag)
           (decls_pre_wf k l ag Hag) (decls_tok_inv l ag) None).
  apply (validation_clean k); assumption.
Qed.

Lemma yacc_roundtrip_original : yacc_roundtrip_original_stmt.
Proof. exact (yacc_roundtrip KOriginal). Qed.
Lemma yacc_roundtrip_grmtools : yacc_roundtrip_grmtools_stmt.
Proof. exact (yacc_roundtrip KGrmtools). Qed.
Lemma yacc_roundtrip_eco : yacc_roundtrip_eco_stmt.
Proof. exact (yacc_roundtrip KEco). Qed.
