(* C10 half (b), round trip — abstract yacc grammars, layouts, the pretty-printer
   [print : layout -> agram -> str] (code points) and the AST [ast_of] that the
   printed text denotes, every span computed from the offsets the printer
   writes to.

   An abstract grammar is a list of declarations (any order) and a list of rule
   blocks.  A layout chooses, for every gap between two lexical items, the
   layout text (blanks, newlines, // and /* */ comments), for every token
   occurrence its spelling (bare / 'single' / "double" quotes), for %expect
   numbers the numeral, for %epp values the quote and the escaped body, for
   actions the blanks inside the braces and for empty productions whether
   [%empty] is written.  Choices are addressed by paths ([list nat]):

     [0]                gap before the first declaration
     [1; d; j]          declaration d: gap after the keyword (j = 0) / after the
                        j-th item (j >= 1); spelling of its k-th token [1; d; k];
                        numeral / escaped %epp body [1; d; 0]; %epp quote [1; d; 1]
     [2]                gap after "%%"
     [3; r; 0|1]        rule block r: gap after the name / after the colon
     [3; r; 2]          gap after "->" (Grmtools dialect: blocks that carry an action type);
                        the blanks between the type and the colon are text [3; r; 3]
     [4; r; p; 0; k]    production p of block r: gap after (spelling of) symbol k
     [4; r; p; 1|2]     gap after "%prec" / after its token (spelling [4; r; p; 1])
     [4; r; p; 3]       gap after the action's closing brace
     [4; r; p; 4]       gap after "%empty" (written iff flag [4; r; p] and no symbols)
     [4; r; p; 5]       gap after the terminator ('|' or ';')
     [4; r; p; 6|7]     blanks after '{' / before '}' of the action
     [5]                gap after the second "%%" (programs section)

   Declarations of the three dialects: %actiontype (Original only), %implicit_tokens
   (Eco only), %parse-param, %parse-generics, %expect-unused (all).  For %parse-param the
   blanks between the name and the colon are text [1; d; 0], the gap after the colon
   [1; d; 1], the gap after the type [1; d; 2].

   Definitions only (executable, extracted by coq/extract/C10ROUND.v);
   well-formedness and statements are in YpRoundSpec.v, proofs in YpRound*.v. *)
From Coq Require Import List Arith NArith ZArith Bool Lia.
From GV Require Import Common.Outcome C10.YpModel.
Import ListNotations.
Local Open Scope nat_scope.

(* ======================================================================== *)
(*  Abstract grammars                                                        *)
(* ======================================================================== *)
Inductive asym := ARule (n : str) | ATok (n : str).

Record aprod := mkAProd {
  ap_syms : list asym;
  ap_prec : option str;          (* %prec token *)
  ap_action : option str }.      (* action text (trimmed) *)

(* [ar_type]: the action type written after "->" (Grmtools dialect) *)
Record arule := mkARule { ar_name : str; ar_type : option str; ar_prods : list aprod }.

Inductive adecl :=
| DStart (n : str)
| DToken (ts : list str)
| DPrec (k : assoc) (ts : list str)
| DEpp (t : str) (v : str)
| DAvoid (ts : list str)
| DExpect (v : N)
| DExpectRR (v : N)
| DActiontype (t : str)               (* Original dialect only *)
| DParseParam (n t : str)
| DParseGenerics (t : str)
| DExpectUnused (ss : list asym)      (* rule names bare, tokens between quotes *)
| DImplicit (ts : list str).          (* Eco dialect only *)

Record agram := mkAG { ag_decls : list adecl; ag_rules : list arule; ag_programs : option str }.

(* the components an abstract grammar consists of *)
Definition ag_start (ag : agram) : option str :=
  hd_error (flat_map (fun d => match d with DStart n => [n] | _ => [] end) (ag_decls ag)).
Definition ag_tokens (ag : agram) : list str :=
  flat_map (fun d => match d with DToken ts => ts | _ => [] end) (ag_decls ag).
Definition ag_precs (ag : agram) : list (assoc * list str) :=
  flat_map (fun d => match d with DPrec k ts => [(k, ts)] | _ => [] end) (ag_decls ag).
Definition ag_epp (ag : agram) : list (str * str) :=
  flat_map (fun d => match d with DEpp t v => [(t, v)] | _ => [] end) (ag_decls ag).
Definition ag_avoid (ag : agram) : list str :=
  flat_map (fun d => match d with DAvoid ts => ts | _ => [] end) (ag_decls ag).
Definition ag_expect (ag : agram) : option N :=
  hd_error (flat_map (fun d => match d with DExpect v => [v] | _ => [] end) (ag_decls ag)).
Definition ag_expectrr (ag : agram) : option N :=
  hd_error (flat_map (fun d => match d with DExpectRR v => [v] | _ => [] end) (ag_decls ag)).

Definition ag_actiontype (ag : agram) : option str :=
  hd_error (flat_map (fun d => match d with DActiontype t => [t] | _ => [] end) (ag_decls ag)).
Definition ag_parse_param (ag : agram) : option (str * str) :=
  hd_error (flat_map (fun d => match d with DParseParam n t => [(n, t)] | _ => [] end) (ag_decls ag)).
Definition ag_parse_generics (ag : agram) : option str :=
  hd_error (flat_map (fun d => match d with DParseGenerics t => [t] | _ => [] end) (ag_decls ag)).
Definition ag_expect_unused (ag : agram) : list asym :=
  flat_map (fun d => match d with DExpectUnused ss => ss | _ => [] end) (ag_decls ag).
Definition ag_implicit (ag : agram) : list str :=
  flat_map (fun d => match d with DImplicit ts => ts | _ => [] end) (ag_decls ag).

(* ======================================================================== *)
(*  Layouts                                                                  *)
(* ======================================================================== *)
Inductive qstyle := QBare | QSq | QDq.

Record layout := mkLay {
  l_gap : list nat -> str;
  l_q : list nat -> qstyle;
  l_txt : list nat -> str;
  l_flag : list nat -> bool }.

(* the choices inside one production *)
Record play := mkPlay {
  pg_sym : nat -> str;  pq_sym : nat -> qstyle;
  pg_prec1 : str;  pq_prec : qstyle;  pg_prec2 : str;
  p_pad1 : str;  p_pad2 : str;  pg_act : str;
  p_empty : bool;  pg_empty : str;
  pg_term : str }.

Definition play_of (l : layout) (r p : nat) : play :=
  mkPlay (fun k => l_gap l [4; r; p; 0; k]) (fun k => l_q l [4; r; p; 0; k])
         (l_gap l [4; r; p; 1]) (l_q l [4; r; p; 1]) (l_gap l [4; r; p; 2])
         (l_txt l [4; r; p; 6]) (l_txt l [4; r; p; 7]) (l_gap l [4; r; p; 3])
         (l_flag l [4; r; p]) (l_gap l [4; r; p; 4])
         (l_gap l [4; r; p; 5]).

(* the choices inside one rule block *)
Record rlay := mkRlay { rg_name : str; rg_colon : str; r_play : nat -> play; rg_arrow : str; r_tpad : str }.
Definition rlay_of (l : layout) (r : nat) : rlay :=
  mkRlay (l_gap l [3; r; 0]) (l_gap l [3; r; 1]) (play_of l r) (l_gap l [3; r; 2]) (l_txt l [3; r; 3]).

(* the choices inside one declaration *)
Record dlay := mkDlay { dg : nat -> str; dq : nat -> qstyle; d_txt : str; d_sq : qstyle }.
Definition dlay_of (l : layout) (d : nat) : dlay :=
  mkDlay (fun j => l_gap l [1; d; j]) (fun k => l_q l [1; d; k]) (l_txt l [1; d; 0]) (l_q l [1; d; 1]).

(* ======================================================================== *)
(*  The printer                                                              *)
(* ======================================================================== *)
Definition c_semi : N := 59.
Definition c_bar : N := 124.
Definition qchar (q : qstyle) : N := match q with QDq => c_dq | _ => c_sq end.

(* a token occurrence *)
Definition print_tok (q : qstyle) (n : str) : str :=
  match q with QBare => n | _ => qchar q :: n ++ [qchar q] end.
Definition tok_off (q : qstyle) : nat := match q with QBare => 0 | _ => 1 end.
(* the span of the name inside an occurrence printed at [off] *)
Definition tok_span (q : qstyle) (off : nat) (n : str) : span :=
  (off + tok_off q, off + tok_off q + byte_len n).

(* a token list  t0 g1 t1 g2 ...  (the gap after the k-th token is [g (S k)]) *)
Fixpoint print_toks (g : nat -> str) (q : nat -> qstyle) (k : nat) (ts : list str) : str :=
  match ts with
  | [] => []
  | t :: ts' => print_tok (q k) t ++ g (S k) ++ print_toks g q (S k) ts'
  end.

Definition kw_assoc (k : assoc) : str :=
  match k with ALeft => kw_left | ARight => kw_right | ANonassoc => kw_nonassoc end.

(* the items of %expect-unused: rule names bare, tokens in the style chosen (a quoted one) *)
Definition sym_name (s : asym) : str := match s with ARule n | ATok n => n end.
Definition eu_q (q : nat -> qstyle) (k : nat) (s : asym) : qstyle :=
  match s with ARule _ => QBare | ATok _ => q k end.
Fixpoint print_eus (g : nat -> str) (q : nat -> qstyle) (k : nat) (ss : list asym) : str :=
  match ss with
  | [] => []
  | s :: ss' => print_tok (eu_q q k s) (sym_name s) ++ g (S k) ++ print_eus g q (S k) ss'
  end.

Definition print_decl (dl : dlay) (x : adecl) : str :=
  match x with
  | DStart n => kw_start ++ dg dl 0 ++ n ++ dg dl 1
  | DToken ts => kw_token ++ dg dl 0 ++ print_toks (dg dl) (dq dl) 0 ts
  | DPrec k ts => kw_assoc k ++ dg dl 0 ++ print_toks (dg dl) (dq dl) 0 ts
  | DEpp t v => kw_epp ++ dg dl 0 ++ print_tok (dq dl 0) t ++ dg dl 1
                ++ (qchar (d_sq dl) :: d_txt dl ++ [qchar (d_sq dl)]) ++ dg dl 2
  | DAvoid ts => kw_avoid_insert ++ dg dl 0 ++ print_toks (dg dl) (dq dl) 0 ts
  | DExpect _ => kw_expect ++ dg dl 0 ++ d_txt dl ++ dg dl 1
  | DExpectRR _ => kw_expect_rr ++ dg dl 0 ++ d_txt dl ++ dg dl 1
  | DActiontype t => kw_actiontype ++ dg dl 0 ++ t ++ dg dl 1
  | DParseParam n t => kw_parse_param ++ dg dl 0 ++ n ++ d_txt dl ++ c_colon :: dg dl 1 ++ t ++ dg dl 2
  | DParseGenerics t => kw_parse_generics ++ dg dl 0 ++ t ++ dg dl 1
  | DExpectUnused ss => kw_expect_unused ++ dg dl 0 ++ print_eus (dg dl) (dq dl) 0 ss
  | DImplicit ts => kw_implicit_tokens ++ dg dl 0 ++ print_toks (dg dl) (dq dl) 0 ts
  end.

Fixpoint print_decls (l : layout) (d : nat) (ds : list adecl) : str :=
  match ds with
  | [] => []
  | x :: ds' => print_decl (dlay_of l d) x ++ print_decls l (S d) ds'
  end.

(* ---- productions ---------------------------------------------------------- *)
Definition sym_q (pl : play) (k : nat) (s : asym) : qstyle :=
  match s with ARule _ => QBare | ATok _ => pq_sym pl k end.
Definition print_sym (pl : play) (k : nat) (s : asym) : str := print_tok (sym_q pl k s) (sym_name s).

Fixpoint print_syms (pl : play) (k : nat) (ss : list asym) : str :=
  match ss with
  | [] => []
  | s :: ss' => print_sym pl k s ++ pg_sym pl k ++ print_syms pl (S k) ss'
  end.

Definition uses_empty (pl : play) (p : aprod) : bool :=
  p_empty pl && match ap_syms p with [] => true | _ => false end.
Definition print_empty (pl : play) (p : aprod) : str :=
  if uses_empty pl p then kw_empty ++ pg_empty pl else [].
Definition print_prec (pl : play) (p : aprod) : str :=
  match ap_prec p with
  | Some t => kw_prec ++ pg_prec1 pl ++ print_tok (pq_prec pl) t ++ pg_prec2 pl
  | None => []
  end.
Definition print_action (pl : play) (p : aprod) : str :=
  match ap_action p with
  | Some a => c_lbrace :: (p_pad1 pl ++ a ++ p_pad2 pl) ++ c_rbrace :: pg_act pl
  | None => []
  end.
(* one production, without its terminator *)
Definition print_prod (pl : play) (p : aprod) : str :=
  print_empty pl p ++ print_syms pl 0 (ap_syms p) ++ print_prec pl p ++ print_action pl p.

(* alt | alt ... ;  — each terminator is followed by its gap *)
Fixpoint print_prods (rl : rlay) (pi : nat) (ps : list aprod) : str :=
  match ps with
  | [] => []
  | p :: ps' =>
      print_prod (r_play rl pi) p
      ++ (match ps' with [] => c_semi | _ => c_bar end) :: pg_term (r_play rl pi)
      ++ print_prods rl (S pi) ps'
  end.

(* the action type of a block (Grmtools dialect):  -> type  before the colon *)
Definition print_rtype (rl : rlay) (r : arule) : str :=
  match ar_type r with Some t => kw_arrow ++ rg_arrow rl ++ t ++ r_tpad rl | None => [] end.

Definition print_rule (rl : rlay) (r : arule) : str :=
  ar_name r ++ rg_name rl ++ print_rtype rl r ++ c_colon :: rg_colon rl ++ print_prods rl 0 (ar_prods r).

Fixpoint print_rules (l : layout) (r : nat) (rs : list arule) : str :=
  match rs with
  | [] => []
  | x :: rs' => print_rule (rlay_of l r) x ++ print_rules l (S r) rs'
  end.

(* the programs section: everything after the second "%%" and its layout *)
Definition print_programs (l : layout) (ag : agram) : str :=
  match ag_programs ag with Some p => kw_pp ++ l_gap l [5] ++ p | None => [] end.

Definition print (l : layout) (ag : agram) : str :=
  l_gap l [0] ++ print_decls l 0 (ag_decls ag) ++ kw_pp ++ l_gap l [2] ++ print_rules l 0 (ag_rules ag)
  ++ print_programs l ag.

(* ======================================================================== *)
(*  The AST a printed grammar denotes                                        *)
(* ======================================================================== *)
(* token occurrences of a list printed at [off], with the spans of their names *)
Fixpoint tok_occs (g : nat -> str) (q : nat -> qstyle) (k off : nat) (ts : list str) : list (str * span) :=
  match ts with
  | [] => []
  | t :: ts' =>
      (t, tok_span (q k) off t)
      :: tok_occs g q (S k) (off + byte_len (print_tok (q k) t) + byte_len (g (S k))) ts'
  end.

(* %token t : the token is known, and known as declared *)
Definition ins_declared (a : gast) (o : str * span) : gast :=
  let '(idx, fresh, toks) := insert_full (a_tokens a) (fst o) in
  let a1 := if fresh then upd_spans (upd_tokens a toks) (a_spans a ++ [snd o]) else a in
  upd_tokdirs a1 (nat_set_insert (a_token_directives a1) idx).

(* %left/%right/%nonassoc t, at precedence level lvl *)
Definition ins_prec (lvl : nat) (k : assoc) (a : gast) (o : str * span) : gast :=
  upd_precs a (a_precs a ++ [(fst o, (lvl, k, snd o))]).

(* %avoid_insert t *)
Definition ins_avoid (a : gast) (o : str * span) : gast :=
  let a1 := tokens_insert a (fst o) (snd o) in
  upd_avoid a1 (Some (match a_avoid_insert a1 with Some m => m | None => [] end ++ [o])).

(* %implicit_tokens t *)
Definition ins_implicit (a : gast) (o : str * span) : gast :=
  let a1 := tokens_insert a (fst o) (snd o) in
  upd_implicit a1 (Some (match a_implicit_tokens a1 with Some m => m | None => [] end ++ [o])).

(* %expect-unused s *)
Definition ins_eu (a : gast) (s : symbol) : gast :=
  upd_expect_unused a (a_expect_unused a ++ [s]).
(* the symbols of an %expect-unused list printed at [off] *)
Fixpoint eu_occs (g : nat -> str) (q : nat -> qstyle) (k off : nat) (ss : list asym) : list symbol :=
  match ss with
  | [] => []
  | s :: ss' =>
      (match s with
       | ARule n => SRule n (tok_span QBare off n)
       | ATok n => SToken n (tok_span (q k) off n)
       end)
      :: eu_occs g q (S k) (off + byte_len (print_tok (eu_q q k s) (sym_name s)) + byte_len (g (S k))) ss'
  end.

Definition is_prec (x : adecl) : bool := match x with DPrec _ _ => true | _ => false end.

(* the effect of one declaration printed at [off] on the AST; [lvl] = number of
   precedence lines before it *)
Definition decl_eff (dl : dlay) (off lvl : nat) (x : adecl) (a : gast) : gast :=
  let o0 := off + byte_len (dg dl 0) in
  match x with
  | DStart n =>
      let s := o0 + byte_len kw_start in upd_start a (Some (n, (s, s + byte_len n)))
  | DToken ts =>
      fold_left ins_declared (tok_occs (dg dl) (dq dl) 0 (o0 + byte_len kw_token) ts) a
  | DPrec k ts =>
      fold_left (ins_prec lvl k) (tok_occs (dg dl) (dq dl) 0 (o0 + byte_len (kw_assoc k)) ts) a
  | DEpp t v =>
      let s := o0 + byte_len kw_epp in
      let e := s + byte_len (print_tok (dq dl 0) t) in
      let vs := e + byte_len (dg dl 1) in
      (* the key's span covers the whole occurrence, quotes included *)
      upd_epp a (a_epp a ++ [(t, ((s, e), (v, (vs, vs + byte_len (d_txt dl) + 2))))])
  | DAvoid ts =>
      let a0 := match a_avoid_insert a with None => upd_avoid a (Some []) | Some _ => a end in
      fold_left ins_avoid (tok_occs (dg dl) (dq dl) 0 (o0 + byte_len kw_avoid_insert) ts) a0
  | DExpect v =>
      let s := o0 + byte_len kw_expect in upd_expect a (Some (v, (s, s + byte_len (d_txt dl))))
  | DExpectRR v =>
      let s := o0 + byte_len kw_expect_rr in upd_expectrr a (Some (v, (s, s + byte_len (d_txt dl))))
  | DActiontype _ => a
  | DParseParam n t => upd_parse_param a (Some (n, t))
  | DParseGenerics t => upd_parse_generics a (Some t)
  | DExpectUnused ss =>
      fold_left ins_eu (eu_occs (dg dl) (dq dl) 0 (o0 + byte_len kw_expect_unused) ss) a
  | DImplicit ts =>
      let a0 := match a_implicit_tokens a with None => upd_implicit a (Some []) | Some _ => a end in
      fold_left ins_implicit (tok_occs (dg dl) (dq dl) 0 (o0 + byte_len kw_implicit_tokens) ts) a0
  end.

(* the effect on the parser's global action type (%actiontype) *)
Definition decl_gat (dl : dlay) (off : nat) (x : adecl) (g : option (str * span)) : option (str * span) :=
  match x with
  | DActiontype t =>
      let s := off + byte_len kw_actiontype + byte_len (dg dl 0) in Some (t, (s, s + byte_len t))
  | _ => g
  end.

Fixpoint decls_eff (l : layout) (d off lvl : nat) (ds : list adecl) (a : gast) : gast :=
  match ds with
  | [] => a
  | x :: ds' =>
      decls_eff l (S d) (off + byte_len (print_decl (dlay_of l d) x))
                (if is_prec x then S lvl else lvl) ds'
                (decl_eff (dlay_of l d) off lvl x a)
  end.

Fixpoint decls_gat (l : layout) (d off : nat) (ds : list adecl) (g : option (str * span)) : option (str * span) :=
  match ds with
  | [] => g
  | x :: ds' =>
      decls_gat l (S d) (off + byte_len (print_decl (dlay_of l d) x)) ds' (decl_gat (dlay_of l d) off x g)
  end.

Definition actiont_of (g : option (str * span)) : option str :=
  match g with Some (s, _) => Some s | None => None end.

(* ---- productions ---------------------------------------------------------- *)
Definition sym_span_at (pl : play) (k off : nat) (s : asym) : span :=
  tok_span (sym_q pl k s) off (sym_name s).
Definition sym_at (pl : play) (k off : nat) (s : asym) : symbol :=
  match s with
  | ARule n => SRule n (sym_span_at pl k off s)
  | ATok n => SToken n (sym_span_at pl k off s)
  end.
(* offset of the item that follows symbol k printed at off *)
Definition sym_next (pl : play) (k off : nat) (s : asym) : nat :=
  off + byte_len (print_sym pl k s) + byte_len (pg_sym pl k).

(* the symbols of a production printed at [off] *)
Fixpoint syms_out (pl : play) (k off : nat) (ss : list asym) : list symbol :=
  match ss with
  | [] => []
  | s :: ss' => sym_at pl k off s :: syms_out pl (S k) (sym_next pl k off s) ss'
  end.
(* quoted occurrences make the token known *)
Fixpoint syms_ins (pl : play) (k off : nat) (ss : list asym) (a : gast) : gast :=
  match ss with
  | [] => a
  | s :: ss' =>
      syms_ins pl (S k) (sym_next pl k off s) ss'
               (match sym_q pl k s with
                | QBare => a
                | _ => tokens_insert a (sym_name s) (sym_span_at pl k off s)
                end)
  end.
(* end of the last symbol's text (the production span ends there when nothing follows) *)
Fixpoint syms_pend (pl : play) (k off : nat) (ss : list asym) (pend : option nat) : option nat :=
  match ss with
  | [] => pend
  | s :: ss' => syms_pend pl (S k) (sym_next pl k off s) ss' (Some (off + byte_len (print_sym pl k s)))
  end.

(* add_prod, total: the rule exists whenever this is used *)
Definition add_prod_t (a : gast) (rn : str) (syms : list symbol) (prec : option str)
           (action : option (str * span)) (sp : span) : gast :=
  match add_prod a rn syms prec action sp with Done a' => a' | _ => a end.

(* span of an action whose '{' is printed at [off]: the text itself with the
   repaired code ([fa = true]); the code as it is anchors it right after the brace *)
Definition act_span (fa : bool) (pl : play) (off : nat) (t : str) : span :=
  if fa then
    let lead := match t with [] => byte_len (p_pad1 pl) + byte_len (p_pad2 pl) | _ => byte_len (p_pad1 pl) end in
    (off + 1 + lead, off + 1 + lead + byte_len t)
  else (off + 1, off + 1 + byte_len t).

(* offsets inside a production printed at [off] *)
Definition prod_o0 (pl : play) (off : nat) (p : aprod) : nat := off + byte_len (print_empty pl p).
Definition prod_o1 (pl : play) (off : nat) (p : aprod) : nat :=
  prod_o0 pl off p + byte_len (print_syms pl 0 (ap_syms p)).
Definition prod_o2 (pl : play) (off : nat) (p : aprod) : nat := prod_o1 pl off p + byte_len (print_prec pl p).
Definition prod_o3 (pl : play) (off : nat) (p : aprod) : nat := prod_o2 pl off p + byte_len (print_action pl p).

Definition prec_tok_off (pl : play) (off : nat) (p : aprod) : nat :=
  prod_o1 pl off p + byte_len kw_prec + byte_len (pg_prec1 pl).

(* where the production's span ends: the end of its last item (%empty, symbol, %prec token) —
   or, when it has no item at all, the action's opening brace / the terminator.
   [fp = false] is the code before /repo 69c4b9b: an action's opening brace always ends the span. *)
Definition prod_pend (fp : bool) (pl : play) (off : nat) (p : aprod) : option nat :=
  let pe0 := if uses_empty pl p then Some (off + byte_len kw_empty) else None in
  let pe1 := syms_pend pl 0 (prod_o0 pl off p) (ap_syms p) pe0 in
  let pe2 := match ap_prec p with
             | Some t => Some (prec_tok_off pl off p + byte_len (print_tok (pq_prec pl) t))
             | None => pe1
             end in
  match ap_action p with Some _ => brace_pend fp pe2 (prod_o2 pl off p) | None => pe2 end.

Definition prod_eff (fa fp : bool) (pl : play) (rn : str) (off : nat) (p : aprod) (a : gast) : gast :=
  let a1 := syms_ins pl 0 (prod_o0 pl off p) (ap_syms p) a in
  let a2 := match ap_prec p with
            | Some t => tokens_insert a1 t (tok_span (pq_prec pl) (prec_tok_off pl off p) t)
            | None => a1
            end in
  let act := match ap_action p with
             | Some t => Some (t, act_span fa pl (prod_o2 pl off p) t)
             | None => None
             end in
  add_prod_t a2 rn (syms_out pl 0 (prod_o0 pl off p) (ap_syms p)) (ap_prec p) act
             (off, match prod_pend fp pl off p with Some e => e | None => prod_o3 pl off p end).

(* offset of the production after production pi printed at off *)
Definition prod_next (pl : play) (off : nat) (p : aprod) : nat :=
  prod_o3 pl off p + 1 + byte_len (pg_term pl).

Fixpoint prods_eff (fa fp : bool) (rl : rlay) (rn : str) (pi off : nat) (ps : list aprod) (a : gast) : gast :=
  match ps with
  | [] => a
  | p :: ps' =>
      prods_eff fa fp rl rn (S pi) (prod_next (r_play rl pi) off p) ps'
                (prod_eff fa fp (r_play rl pi) rn off p a)
  end.

(* a rule block printed at [off]; [at_] = the action type of the block: its own (Grmtools
   dialect) or the %actiontype in force *)
Definition rule_head_eff (off : nat) (at_ : option str) (n : str) (a : gast) : gast :=
  let sp := (off, off + byte_len n) in
  let a1 := match a_start a with None => upd_start a (Some (n, sp)) | Some _ => a end in
  match get_rule (a_rules a1) n with None => add_rule a1 n sp at_ | Some _ => a1 end.

Definition rule_body_off (rl : rlay) (off : nat) (r : arule) : nat :=
  off + byte_len (ar_name r) + byte_len (rg_name rl) + byte_len (print_rtype rl r) + 1 + byte_len (rg_colon rl).

Definition rule_at_ (at_ : option str) (r : arule) : option str :=
  match ar_type r with Some t => Some t | None => at_ end.

Definition rule_eff (fa fp : bool) (rl : rlay) (off : nat) (at_ : option str) (r : arule) (a : gast) : gast :=
  prods_eff fa fp rl (ar_name r) 0 (rule_body_off rl off r) (ar_prods r)
            (rule_head_eff off (rule_at_ at_ r) (ar_name r) a).

Fixpoint rules_eff (fa fp : bool) (l : layout) (r off : nat) (at_ : option str) (rs : list arule) (a : gast) : gast :=
  match rs with
  | [] => a
  | x :: rs' =>
      rules_eff fa fp l (S r) (off + byte_len (print_rule (rlay_of l r) x)) at_ rs'
                (rule_eff fa fp (rlay_of l r) off at_ x a)
  end.

(* the whole file *)
Definition decls_off (l : layout) : nat := byte_len (l_gap l [0]).
Definition rules_off (l : layout) (ag : agram) : nat :=
  decls_off l + byte_len (print_decls l 0 (ag_decls ag)) + byte_len kw_pp + byte_len (l_gap l [2]).

(* the %actiontype the declarations leave in force *)
Definition gat_of (l : layout) (ag : agram) : option (str * span) :=
  decls_gat l 0 (decls_off l) (ag_decls ag) None.

Definition programs_eff (ag : agram) (a : gast) : gast :=
  match ag_programs ag with Some p => upd_programs a (Some p) | None => a end.

Definition ast_of (fa fp : bool) (l : layout) (ag : agram) : gast :=
  programs_eff ag
    (rules_eff fa fp l 0 (rules_off l ag) (actiont_of (gat_of l ag)) (ag_rules ag)
               (decls_eff l 0 (decls_off l) 0 (ag_decls ag) ast_new)).

Definition warnings_of (fa fp fu : bool) (l : layout) (ag : agram) : outcome (list (wkind * span)) :=
  warnings fu (ast_of fa fp l ag).
