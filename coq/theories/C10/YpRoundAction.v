(* C10 half (b), round trip — actions: parse_action on a printed action and the
   span recorded for it. *)
From Coq Require Import List Arith NArith ZArith Bool Lia.
From GV Require Import Common.Outcome C10.YpModel C10.YpSpec C10.YpProofs C10.YpPrint C10.YpRoundSpec C10.YpRoundBase.
Import ListNotations.
Local Open Scope nat_scope.

(* ---- white space is neither a brace nor ... --------------------------------- *)
Lemma ws_not_lbrace : forall c, is_whitespace c = true -> (c =? c_lbrace)%N = false.
Proof.
  intros c H. destruct (N.eqb_spec c c_lbrace) as [E|E]; [|reflexivity].
  subst c. vm_compute in H. discriminate H.
Qed.
Lemma ws_not_rbrace : forall c, is_whitespace c = true -> (c =? c_rbrace)%N = false.
Proof.
  intros c H. destruct (N.eqb_spec c c_rbrace) as [E|E]; [|reflexivity].
  subst c. vm_compute in H. discriminate H.
Qed.

Lemma wf_pad_cons : forall c p, wf_pad (c :: p) -> is_whitespace c = true /\ wf_pad p.
Proof. intros c p H. unfold wf_pad in *. cbn [forallb] in H. apply andb_true_iff in H. exact H. Qed.

Lemma wf_pad_rev : forall p, wf_pad p -> wf_pad (rev p).
Proof.
  unfold wf_pad. intros p H. apply forallb_forall. intros x Hx.
  apply (proj2 (in_rev p x)) in Hx. rewrite forallb_forall in H. apply H. exact Hx.
Qed.

(* ---- brace_ok ignores the pads ---------------------------------------------- *)
Lemma brace_ok_pad_l : forall p d s, wf_pad p -> brace_ok d (p ++ s) = brace_ok d s.
Proof.
  induction p as [|c p IH]; intros d s H; [reflexivity|].
  apply wf_pad_cons in H. destruct H as [Hc Hp].
  cbn [app brace_ok]. rewrite (ws_not_lbrace c Hc), (ws_not_rbrace c Hc). apply IH. exact Hp.
Qed.

Lemma brace_ok_pad_r : forall s p d, wf_pad p -> brace_ok d (s ++ p) = brace_ok d s.
Proof.
  induction s as [|c s IH]; intros p d H.
  - cbn [app]. rewrite <- (app_nil_r p). rewrite brace_ok_pad_l by exact H. reflexivity.
  - cbn [app brace_ok]. destruct (c =? c_lbrace)%N; [apply IH; exact H|].
    destruct (c =? c_rbrace)%N; [destruct d; [reflexivity | apply IH; exact H] | apply IH; exact H].
Qed.

(* ---- trim --------------------------------------------------------------------- *)
Lemma drop_ws_pad : forall p r, wf_pad p ->
  drop_while is_whitespace (p ++ r) = drop_while is_whitespace r.
Proof.
  induction p as [|c p IH]; intros r H; [reflexivity|].
  apply wf_pad_cons in H. destruct H as [Hc Hp].
  cbn [app drop_while]. rewrite Hc. apply IH. exact Hp.
Qed.

Lemma drop_ws_hd : forall s, s <> [] -> no_ws_hd s -> drop_while is_whitespace s = s.
Proof.
  intros [|c s] Hne H; [congruence|]. cbn [no_ws_hd] in H. cbn [drop_while]. rewrite H. reflexivity.
Qed.

Lemma trim_pads : forall p1 a p2, wf_pad p1 -> wf_pad p2 -> trimmed a -> trim (p1 ++ a ++ p2) = a.
Proof.
  intros p1 a p2 H1 H2 [Hh Hl]. unfold trim, trim_start, trim_end.
  rewrite drop_ws_pad by exact H1.
  destruct a as [|c a].
  - cbn [app]. rewrite <- (app_nil_r p2). rewrite drop_ws_pad by exact H2. reflexivity.
  - rewrite (drop_ws_hd ((c :: a) ++ p2)); [|discriminate|exact Hh].
    rewrite rev_app_distr. rewrite drop_ws_pad by (apply wf_pad_rev; exact H2).
    rewrite drop_ws_hd; [apply rev_involutive| |exact Hl].
    intros E. apply (f_equal (@List.length N)) in E. rewrite rev_length in E. discriminate E.
Qed.

(* ---- the brace-counting loop ------------------------------------------------- *)
Lemma done3 : forall (x x' : nat) (z : Z) (m m' : nat),
  x = x' -> m = m' -> @Done (nat * Z * nat) (x, z, m) = Done (x', z, m').
Proof. intros. subst. reflexivity. Qed.

(* inside the braces, [d] braces opened in the action still pending: the counter is
   1 + d, and the loop stops at the '}' that follows a text closing them all *)
Lemma action_loop_body : forall s d src pre rest n f,
  brace_ok d s = true ->
  src = pre ++ s ++ c_rbrace :: rest ->
  List.length s + 1 <= f ->
  action_loop src (byte_len src) f (byte_len pre) (Z.of_nat (S d)) n
  = Done (byte_len pre + byte_len s, 0%Z, n + count_nl s).
Proof.
  induction s as [|c s IH]; intros d src pre rest n f Hb Hs Hf.
  - cbn [app] in Hs. cbn [brace_ok] in Hb. apply Nat.eqb_eq in Hb. subst d.
    destruct f as [|f]; [cbn [List.length] in Hf; lia|].
    cbn [action_loop].
    rewrite (lt_len_at _ _ _ _ _ Hs eq_refl). cbn [negb].
    destruct (pos_facts _ _ _ _ Hs) as [_ [Hn _]]. rewrite Hn. cbn [obind].
    change (c_rbrace =? c_lbrace)%N with false. change (c_rbrace =? c_rbrace)%N with true.
    change (Z.of_nat 1 =? 1)%Z with true. cbv iota.
    cbn [byte_len]. change (count_nl []) with 0. rewrite !Nat.add_0_r. reflexivity.
  - cbn [app] in Hs. destruct f as [|f]; [cbn [List.length] in Hf; lia|].
    cbn [List.length] in Hf.
    cbn [action_loop].
    rewrite (lt_len_at _ _ _ _ _ Hs eq_refl). cbn [negb].
    destruct (pos_facts _ _ _ _ Hs) as [_ [Hn _]]. rewrite Hn. cbn [obind].
    assert (Hs' : src = (pre ++ [c]) ++ s ++ c_rbrace :: rest) by (rewrite Hs, <- app_assoc; reflexivity).
    rewrite <- byte_len_snoc.
    rewrite count_nl_cons. cbn [brace_ok] in Hb. revert Hb.
    destruct (c =? c_lbrace)%N eqn:El; [|destruct (c =? c_rbrace)%N eqn:Er]; intros Hb.
    + apply Neqb_true in El. subst c.
      replace (Z.of_nat (S d) + 1)%Z with (Z.of_nat (S (S d))) by lia.
      rewrite (IH (S d) src (pre ++ [c_lbrace]) rest n f Hb Hs') by lia.
      change (is_nl c_lbrace) with false. cbv iota.
      apply done3; [rewrite byte_len_snoc; cbn [byte_len]; lia | lia].
    + apply Neqb_true in Er. subst c. destruct d as [|d]; [discriminate Hb|].
      replace (Z.of_nat (S (S d)) =? 1)%Z with false by (symmetry; apply Z.eqb_neq; lia).
      replace (Z.of_nat (S (S d)) - 1)%Z with (Z.of_nat (S d)) by lia.
      rewrite (IH d src (pre ++ [c_rbrace]) rest n f Hb Hs') by lia.
      change (is_nl c_rbrace) with false. cbv iota.
      apply done3; [rewrite byte_len_snoc; cbn [byte_len]; lia | lia].
    + destruct (is_nl c) eqn:En; rewrite (IH d src (pre ++ [c]) rest _ f Hb Hs') by lia;
        (apply done3; [rewrite byte_len_snoc; cbn [byte_len]; lia | lia]).
Qed.

Lemma lookahead_at : forall src pre r s i, src = pre ++ r -> i = byte_len pre ->
  lookahead_is src s i = Done (if prefix_of s r then Some (i + byte_len s) else None).
Proof. intros src pre r s i Hs Hi. subst. unfold lookahead_is. rewrite slice_from_app. reflexivity. Qed.

(* ---- parse_action -------------------------------------------------------------- *)
Lemma parse_action_roundtrip : parse_action_roundtrip_stmt.
Proof.
  intros src pre pad1 a pad2 rest i n.
  assert (Htr : wf_pad pad1 -> wf_pad pad2 -> trimmed a -> trim (pad1 ++ a ++ pad2) = a)
    by (intros; apply trim_pads; assumption).
  assert (Hbr : wf_pad pad1 -> wf_pad pad2 -> brace_ok 0 a = true -> brace_ok 0 (pad1 ++ a ++ pad2) = true).
  { intros H1 H2 H. rewrite brace_ok_pad_l by exact H1. rewrite brace_ok_pad_r by exact H2. exact H. }
  revert Htr Hbr. generalize (pad1 ++ a ++ pad2). intros s Htr Hbr Hs Hi [Hb Ht] Hp1 Hp2.
  specialize (Htr Hp1 Hp2 Ht). specialize (Hbr Hp1 Hp2 Hb).
  unfold parse_action.
  rewrite (lookahead_at _ _ _ [c_lbrace] _ Hs Hi).
  change (prefix_of [c_lbrace] (c_lbrace :: s ++ c_rbrace :: rest)) with true.
  cbn [obind]. unfold fuel_for. cbn [action_loop].
  rewrite (lt_len_at _ _ _ _ _ Hs Hi). cbn [negb].
  destruct (pos_facts _ _ _ _ Hs) as [_ [Hn _]]. rewrite <- Hi in Hn. rewrite Hn. cbn [obind].
  change (c_lbrace =? c_lbrace)%N with true. cbv iota.
  change (len_utf8 c_lbrace) with 1.
  assert (Hs1 : src = (pre ++ [c_lbrace]) ++ s ++ c_rbrace :: rest) by (rewrite Hs, <- app_assoc; reflexivity).
  assert (Hi1 : i + 1 = byte_len (pre ++ [c_lbrace])) by (rewrite byte_len_snoc; subst i; reflexivity).
  rewrite Hi1. change (0 + 1)%Z with (Z.of_nat 1).
  rewrite (action_loop_body s 0 src (pre ++ [c_lbrace]) rest n (byte_len src) Hbr Hs1).
  2:{ rewrite Hs, !byte_len_app. cbn [byte_len]. rewrite byte_len_app. cbn [byte_len].
      pose proof (length_le_byte_len s). pose proof (len_utf8_pos c_lbrace).
      pose proof (len_utf8_pos c_rbrace). lia. }
  cbn [obind]. change (0 <? 0)%Z with false. cbv iota.
  assert (Hs2 : src = ((pre ++ [c_lbrace]) ++ s) ++ c_rbrace :: rest) by (rewrite Hs1; apply app_assoc).
  assert (Hi2 : byte_len (pre ++ [c_lbrace]) + byte_len s = byte_len ((pre ++ [c_lbrace]) ++ s))
    by (symmetry; apply byte_len_app).
  rewrite (lookahead_at _ _ _ [c_rbrace] _ Hs2 Hi2).
  change (prefix_of [c_rbrace] (c_rbrace :: rest)) with true. cbn [obind].
  assert (Hsl : slice src (byte_len (pre ++ [c_lbrace])) (byte_len (pre ++ [c_lbrace]) + byte_len s) = Done s)
    by (rewrite Hs1; apply slice_app).
  rewrite Hsl. cbn [obind]. rewrite Htr. reflexivity.
Qed.

(* ---- the span of the action ------------------------------------------------------ *)
Lemma action_span_roundtrip : action_span_roundtrip_stmt.
Proof.
  intros fa src pre pl a rest i Hs Hi [Hb [Hh Hl]] Hp1 Hp2.
  unfold action_span, act_span. destruct fa.
  - assert (Hs1 : src = (pre ++ [c_lbrace]) ++ (p_pad1 pl ++ a ++ p_pad2 pl ++ c_rbrace :: rest))
      by (rewrite Hs, <- !app_assoc; reflexivity).
    assert (Hi1 : i + 1 = byte_len (pre ++ [c_lbrace])) by (rewrite byte_len_snoc; subst i; reflexivity).
    assert (Hsf : slice_from src (i + 1) = Done (p_pad1 pl ++ a ++ p_pad2 pl ++ c_rbrace :: rest))
      by (rewrite Hi1, Hs1; apply slice_from_app).
    rewrite Hsf. cbn [obind]. unfold trim_start.
    rewrite drop_ws_pad by exact Hp1.
    destruct a as [|c a].
    + cbn [app]. rewrite drop_ws_pad by exact Hp2. cbn [drop_while].
      change (is_whitespace c_rbrace) with false. cbv iota.
      rewrite !byte_len_app. cbn [byte_len]. rewrite mk_span_le by lia. f_equal; f_equal; lia.
    + cbn [no_ws_hd] in Hh. cbn [app drop_while]. rewrite Hh.
      rewrite !byte_len_app. rewrite mk_span_le by lia. f_equal; f_equal; lia.
  - rewrite mk_span_le by lia. reflexivity.
Qed.
