(* C10 half (b), round trip — the declarations section at the level of the AST
   (no parsing here: pure facts about [decl_eff] / [decls_eff]):

   [decls_pre_wf]    the syntactic conditions of [wf_agram] (at most one %start /
                     %expect / %expect-rr, no token with two precedences, two %epp
                     entries, two %avoid_insert entries) give the chained
                     preconditions [decls_pre] from the empty AST;
   [decls_tok_inv]   after the declarations the AST knows exactly the names that
                     %token lines list as %token-declared. *)
From Coq Require Import List Arith NArith ZArith Bool Lia.
From GV Require Import Common.Outcome C10.YpModel C10.YpSpec C10.YpProofs C10.YpTotal C10.YpPrint C10.YpRoundSpec C10.YpRoundBase C10.YpRoundInv C10.YpRoundDeclLines.
Import ListNotations.
Local Open Scope nat_scope.

(* ======================================================================== *)
(*  small list facts                                                          *)
(* ======================================================================== *)
Lemma nodup_app_inv : forall (A : Type) (l1 l2 : list A),
  NoDup (l1 ++ l2) -> NoDup l1 /\ NoDup l2 /\ forall t, In t l1 -> ~ In t l2.
Proof.
  intros A l1 l2. induction l1 as [|x l1 IH]; intros H.
  - simpl in H. split; [constructor|]. split; [exact H|]. intros t Ht. destruct Ht.
  - simpl in H. inversion H as [|y l Hn Hd]; subst.
    destruct (IH Hd) as [H1 [H2 H3]]. split; [|split].
    + constructor; [|exact H1]. intros Hi. apply Hn. apply in_or_app. left. exact Hi.
    + exact H2.
    + intros t [<-|Ht].
      * intros Hi. apply Hn. apply in_or_app. right. exact Hi.
      * apply H3. exact Ht.
Qed.

Lemma assoc_get_not_in : forall V (l : list (str * V)) t,
  ~ In t (map fst l) -> assoc_get l t = None.
Proof.
  intros V l t. induction l as [|[k v] l IH]; intros H; [reflexivity|].
  simpl. destruct (str_eqb k t) eqn:E.
  - apply str_eqb_eq in E. exfalso. apply H. left. exact E.
  - apply IH. intros Hi. apply H. right. exact Hi.
Qed.

Lemma str_eqb_sym : forall a b, str_eqb a b = str_eqb b a.
Proof.
  intros a b. destruct (str_eqb a b) eqn:E1, (str_eqb b a) eqn:E2; try reflexivity.
  - apply str_eqb_eq in E1. subst b. rewrite str_eqb_refl in E2. discriminate E2.
  - apply str_eqb_eq in E2. subst b. rewrite str_eqb_refl in E1. discriminate E1.
Qed.

Lemma mem_str_app : forall l1 l2 x, mem_str (l1 ++ l2) x = mem_str l1 x || mem_str l2 x.
Proof. intros. unfold mem_str. apply existsb_app. Qed.

Lemma map_fst_tok_occs : forall g q ts k off, map fst (tok_occs g q k off ts) = ts.
Proof.
  intros g q ts. induction ts as [|t ts IH]; intros k off; cbn [tok_occs map fst]; [reflexivity|].
  rewrite IH. reflexivity.
Qed.

(* ======================================================================== *)
(*  (A) what a declaration changes in the duplicate-sensitive part of the AST  *)
(* ======================================================================== *)
Definition osome {A} (o : option A) : nat := match o with Some _ => 1 | None => 0 end.
Definition pk (a : gast) : list str := map fst (a_precs a).
Definition ek (a : gast) : list str := map fst (a_epp a).
Definition ak (a : gast) : list str :=
  match a_avoid_insert a with Some m => map fst m | None => [] end.

Definition is_dstart (x : adecl) : bool := match x with DStart _ => true | _ => false end.
Definition is_dexpect (x : adecl) : bool := match x with DExpect _ => true | _ => false end.
Definition is_dexpectrr (x : adecl) : bool := match x with DExpectRR _ => true | _ => false end.
Definition prec_toks (x : adecl) : list str := match x with DPrec _ ts => ts | _ => [] end.
Definition epp_keys (x : adecl) : list str := match x with DEpp t _ => [t] | _ => [] end.
Definition avoid_toks (x : adecl) : list str := match x with DAvoid ts => ts | _ => [] end.
Definition token_toks (x : adecl) : list str := match x with DToken ts => ts | _ => [] end.
Definition ik (a : gast) : list str :=
  match a_implicit_tokens a with Some m => map fst m | None => [] end.
Definition is_dactiontype (x : adecl) : bool := match x with DActiontype _ => true | _ => false end.
Definition implicit_toks (x : adecl) : list str := match x with DImplicit ts => ts | _ => [] end.
(* the duplicate-sensitive part of the AST *)
Definition dsens (a : gast) :=
  (a_start a, a_expect a, a_expectrr a, a_precs a, a_epp a, a_avoid_insert a, a_implicit_tokens a).

(* ---- %token ---------------------------------------------------------------- *)
Lemma ins_declared_frame : forall a o,
  a_start (ins_declared a o) = a_start a /\ a_expect (ins_declared a o) = a_expect a /\
  a_expectrr (ins_declared a o) = a_expectrr a /\ a_precs (ins_declared a o) = a_precs a /\
  a_epp (ins_declared a o) = a_epp a /\ a_avoid_insert (ins_declared a o) = a_avoid_insert a.
Proof.
  intros a o. unfold ins_declared, insert_full.
  destruct (get_index_of (a_tokens a) (fst o)); repeat split; reflexivity.
Qed.

Lemma fold_declared_frame : forall occs a,
  a_start (fold_left ins_declared occs a) = a_start a /\
  a_expect (fold_left ins_declared occs a) = a_expect a /\
  a_expectrr (fold_left ins_declared occs a) = a_expectrr a /\
  a_precs (fold_left ins_declared occs a) = a_precs a /\
  a_epp (fold_left ins_declared occs a) = a_epp a /\
  a_avoid_insert (fold_left ins_declared occs a) = a_avoid_insert a.
Proof.
  induction occs as [|o occs IH]; intros a; cbn [fold_left]; [repeat split; reflexivity|].
  destruct (IH (ins_declared a o)) as [H1 [H2 [H3 [H4 [H5 H6]]]]].
  destruct (ins_declared_frame a o) as [G1 [G2 [G3 [G4 [G5 G6]]]]].
  rewrite H1, H2, H3, H4, H5, H6, G1, G2, G3, G4, G5, G6. repeat split; reflexivity.
Qed.

(* ---- %left / %right / %nonassoc --------------------------------------------- *)
Lemma fold_prec_frame : forall lvl k occs a,
  a_start (fold_left (ins_prec lvl k) occs a) = a_start a /\
  a_expect (fold_left (ins_prec lvl k) occs a) = a_expect a /\
  a_expectrr (fold_left (ins_prec lvl k) occs a) = a_expectrr a /\
  pk (fold_left (ins_prec lvl k) occs a) = pk a ++ map fst occs /\
  a_epp (fold_left (ins_prec lvl k) occs a) = a_epp a /\
  a_avoid_insert (fold_left (ins_prec lvl k) occs a) = a_avoid_insert a /\
  a_tokens (fold_left (ins_prec lvl k) occs a) = a_tokens a /\
  a_token_directives (fold_left (ins_prec lvl k) occs a) = a_token_directives a.
Proof.
  intros lvl k. induction occs as [|o occs IH]; intros a; cbn [fold_left map].
  - rewrite app_nil_r. repeat split; reflexivity.
  - destruct (IH (ins_prec lvl k a o)) as [H1 [H2 [H3 [H4 [H5 [H6 [H7 H8]]]]]]].
    rewrite H1, H2, H3, H4, H5, H6, H7, H8. unfold ins_prec, pk.
    cbn [a_start a_expect a_expectrr a_precs a_epp a_avoid_insert a_tokens a_token_directives upd_precs].
    rewrite map_app. cbn [map fst]. rewrite <- app_assoc. repeat split; reflexivity.
Qed.

(* ---- %avoid_insert ----------------------------------------------------------- *)
Lemma ins_avoid_frame : forall a o,
  a_start (ins_avoid a o) = a_start a /\ a_expect (ins_avoid a o) = a_expect a /\
  a_expectrr (ins_avoid a o) = a_expectrr a /\ a_precs (ins_avoid a o) = a_precs a /\
  a_epp (ins_avoid a o) = a_epp a /\
  a_avoid_insert (ins_avoid a o)
  = Some (match a_avoid_insert a with Some m => m | None => [] end ++ [o]).
Proof.
  intros a o. unfold ins_avoid.
  pose proof (tokens_insert_frame a (fst o) (snd o)) as [G1 [_ [_ [_ [G4 [G6 [_ [G5 [G2 [G3 _]]]]]]]]]].
  cbn [a_start a_expect a_expectrr a_precs a_epp a_avoid_insert upd_avoid].
  rewrite G1, G2, G3, G4, G5, G6. repeat split; reflexivity.
Qed.

Lemma fold_avoid_frame : forall occs a m, a_avoid_insert a = Some m ->
  a_start (fold_left ins_avoid occs a) = a_start a /\
  a_expect (fold_left ins_avoid occs a) = a_expect a /\
  a_expectrr (fold_left ins_avoid occs a) = a_expectrr a /\
  a_precs (fold_left ins_avoid occs a) = a_precs a /\
  a_epp (fold_left ins_avoid occs a) = a_epp a /\
  a_avoid_insert (fold_left ins_avoid occs a) = Some (m ++ occs).
Proof.
  induction occs as [|o occs IH]; intros a m Hm; cbn [fold_left].
  - rewrite app_nil_r. repeat split; try reflexivity. exact Hm.
  - destruct (ins_avoid_frame a o) as [G1 [G2 [G3 [G4 [G5 G6]]]]]. rewrite Hm in G6.
    destruct (IH (ins_avoid a o) (m ++ [o]) G6) as [H1 [H2 [H3 [H4 [H5 H6]]]]].
    rewrite H1, H2, H3, H4, H5, H6, G1, G2, G3, G4, G5, <- app_assoc. repeat split; reflexivity.
Qed.

(* ---- the %implicit_tokens map under the other directives ------------------------ *)
Lemma fold_declared_implicit : forall occs a,
  a_implicit_tokens (fold_left ins_declared occs a) = a_implicit_tokens a.
Proof.
  induction occs as [|o occs IH]; intros a; cbn [fold_left]; [reflexivity|]. rewrite IH.
  unfold ins_declared, insert_full. destruct (get_index_of (a_tokens a) (fst o)); reflexivity.
Qed.
Lemma fold_prec_implicit : forall lvl k occs a,
  a_implicit_tokens (fold_left (ins_prec lvl k) occs a) = a_implicit_tokens a.
Proof.
  intros lvl k. induction occs as [|o occs IH]; intros a; cbn [fold_left]; [reflexivity|]. rewrite IH. reflexivity.
Qed.
Lemma fold_avoid_implicit : forall occs a,
  a_implicit_tokens (fold_left ins_avoid occs a) = a_implicit_tokens a.
Proof.
  induction occs as [|o occs IH]; intros a; cbn [fold_left]; [reflexivity|]. rewrite IH.
  unfold ins_avoid. cbn [a_implicit_tokens upd_avoid]. apply tokens_insert_frame.
Qed.

(* ---- %implicit_tokens ----------------------------------------------------------- *)
Lemma ins_implicit_frame : forall a o,
  a_start (ins_implicit a o) = a_start a /\ a_expect (ins_implicit a o) = a_expect a /\
  a_expectrr (ins_implicit a o) = a_expectrr a /\ a_precs (ins_implicit a o) = a_precs a /\
  a_epp (ins_implicit a o) = a_epp a /\ a_avoid_insert (ins_implicit a o) = a_avoid_insert a /\
  a_implicit_tokens (ins_implicit a o)
  = Some (match a_implicit_tokens a with Some m => m | None => [] end ++ [o]).
Proof.
  intros a o. unfold ins_implicit.
  pose proof (tokens_insert_frame a (fst o) (snd o)) as [G1 [_ [_ [_ [G4 [G6 [G7 [G5 [G2 [G3 _]]]]]]]]]].
  cbn [a_start a_expect a_expectrr a_precs a_epp a_avoid_insert a_implicit_tokens upd_implicit].
  rewrite G1, G2, G3, G4, G5, G6, G7. repeat split; reflexivity.
Qed.

Lemma fold_implicit_frame : forall occs a m, a_implicit_tokens a = Some m ->
  a_start (fold_left ins_implicit occs a) = a_start a /\
  a_expect (fold_left ins_implicit occs a) = a_expect a /\
  a_expectrr (fold_left ins_implicit occs a) = a_expectrr a /\
  a_precs (fold_left ins_implicit occs a) = a_precs a /\
  a_epp (fold_left ins_implicit occs a) = a_epp a /\
  a_avoid_insert (fold_left ins_implicit occs a) = a_avoid_insert a /\
  a_implicit_tokens (fold_left ins_implicit occs a) = Some (m ++ occs).
Proof.
  induction occs as [|o occs IH]; intros a m Hm; cbn [fold_left].
  - rewrite app_nil_r. repeat split; try reflexivity. exact Hm.
  - destruct (ins_implicit_frame a o) as [G1 [G2 [G3 [G4 [G5 [G6 G7]]]]]]. rewrite Hm in G7.
    destruct (IH (ins_implicit a o) (m ++ [o]) G7) as [H1 [H2 [H3 [H4 [H5 [H6 H7]]]]]].
    rewrite H1, H2, H3, H4, H5, H6, H7, G1, G2, G3, G4, G5, G6, <- app_assoc. repeat split; reflexivity.
Qed.

(* ---- %expect-unused -------------------------------------------------------------- *)
Lemma fold_eu_dsens : forall occs a, dsens (fold_left ins_eu occs a) = dsens a.
Proof. induction occs as [|o occs IH]; intros a; cbn [fold_left]; [reflexivity|]. rewrite IH. reflexivity. Qed.
Lemma fold_eu_tokens : forall occs a,
  a_tokens (fold_left ins_eu occs a) = a_tokens a /\ a_token_directives (fold_left ins_eu occs a) = a_token_directives a.
Proof.
  induction occs as [|o occs IH]; intros a; cbn [fold_left]; [split; reflexivity|].
  destruct (IH (ins_eu a o)) as [H1 H2]. rewrite H1, H2. split; reflexivity.
Qed.

(* a declaration that leaves the duplicate-sensitive part alone *)
Lemma summary_same : forall a a' x,
  dsens a' = dsens a ->
  is_dstart x = false -> is_dexpect x = false -> is_dexpectrr x = false ->
  prec_toks x = [] -> epp_keys x = [] -> avoid_toks x = [] -> implicit_toks x = [] ->
  osome (a_start a') = (if is_dstart x then 1 else osome (a_start a)) /\
  osome (a_expect a') = (if is_dexpect x then 1 else osome (a_expect a)) /\
  osome (a_expectrr a') = (if is_dexpectrr x then 1 else osome (a_expectrr a)) /\
  pk a' = pk a ++ prec_toks x /\
  ek a' = ek a ++ epp_keys x /\
  ak a' = ak a ++ avoid_toks x /\
  ik a' = ik a ++ implicit_toks x.
Proof.
  intros a a' x H E1 E2 E3 E4 E5 E6 E7. unfold dsens in H. injection H as H1 H2 H3 H4 H5 H6 H7.
  unfold pk, ek, ak, ik. rewrite E1, E2, E3, E4, E5, E6, E7, H1, H2, H3, H4, H5, H6, H7, !app_nil_r.
  repeat split; reflexivity.
Qed.

(* ---- one declaration ---------------------------------------------------------- *)
Lemma decl_eff_summary : forall dl off lvl x a,
  osome (a_start (decl_eff dl off lvl x a)) = (if is_dstart x then 1 else osome (a_start a)) /\
  osome (a_expect (decl_eff dl off lvl x a)) = (if is_dexpect x then 1 else osome (a_expect a)) /\
  osome (a_expectrr (decl_eff dl off lvl x a)) = (if is_dexpectrr x then 1 else osome (a_expectrr a)) /\
  pk (decl_eff dl off lvl x a) = pk a ++ prec_toks x /\
  ek (decl_eff dl off lvl x a) = ek a ++ epp_keys x /\
  ak (decl_eff dl off lvl x a) = ak a ++ avoid_toks x /\
  ik (decl_eff dl off lvl x a) = ik a ++ implicit_toks x.
Proof.
  intros dl off lvl x a. destruct x as [n|ts|k ts|t v|ts|v|v|t|nm t|t|ss|ts];
    cbn [decl_eff is_dstart is_dexpect is_dexpectrr prec_toks epp_keys avoid_toks implicit_toks].
  - (* %start *) unfold pk, ek, ak, ik. cbn. rewrite !app_nil_r. repeat split; reflexivity.
  - (* %token *)
    destruct (fold_declared_frame
                (tok_occs (dg dl) (dq dl) 0 (off + byte_len (dg dl 0) + byte_len kw_token) ts) a)
      as [H1 [H2 [H3 [H4 [H5 H6]]]]].
    unfold pk, ek, ak, ik. rewrite fold_declared_implicit, H1, H2, H3, H4, H5, H6, !app_nil_r. repeat split; reflexivity.
  - (* %left ... *)
    destruct (fold_prec_frame lvl k
                (tok_occs (dg dl) (dq dl) 0 (off + byte_len (dg dl 0) + byte_len (kw_assoc k)) ts) a)
      as [H1 [H2 [H3 [H4 [H5 [H6 _]]]]]].
    unfold ek, ak, ik. rewrite fold_prec_implicit, H1, H2, H3, H4, H5, H6, map_fst_tok_occs, !app_nil_r. repeat split; reflexivity.
  - (* %epp *) unfold pk, ek, ak, ik. cbn [a_start a_expect a_expectrr a_precs a_epp a_avoid_insert a_implicit_tokens upd_epp].
    rewrite map_app, !app_nil_r. cbn [map fst]. repeat split; reflexivity.
  - (* %avoid_insert *)
    set (occs := tok_occs (dg dl) (dq dl) 0 (off + byte_len (dg dl 0) + byte_len kw_avoid_insert) ts).
    assert (Hocc : map fst occs = ts) by apply map_fst_tok_occs.
    destruct (a_avoid_insert a) as [m|] eqn:Ea.
    + destruct (fold_avoid_frame occs a m Ea) as [H1 [H2 [H3 [H4 [H5 H6]]]]].
      unfold pk, ek, ak, ik. rewrite fold_avoid_implicit, H1, H2, H3, H4, H5, H6, Ea, map_app, Hocc, !app_nil_r.
      repeat split; reflexivity.
    + assert (E0 : a_avoid_insert (upd_avoid a (Some [])) = Some []) by reflexivity.
      destruct (fold_avoid_frame occs (upd_avoid a (Some [])) [] E0) as [H1 [H2 [H3 [H4 [H5 H6]]]]].
      unfold pk, ek, ak, ik. rewrite fold_avoid_implicit, H1, H2, H3, H4, H5, H6, Ea.
      cbn [a_start a_expect a_expectrr a_precs a_epp a_implicit_tokens upd_avoid app].
      rewrite Hocc, !app_nil_r. repeat split; reflexivity.
  - (* %expect *) unfold pk, ek, ak, ik. cbn. rewrite !app_nil_r. repeat split; reflexivity.
  - (* %expect-rr *) unfold pk, ek, ak, ik. cbn. rewrite !app_nil_r. repeat split; reflexivity.
  - (* %actiontype *) apply (summary_same a a (DActiontype t)); reflexivity.
  - (* %parse-param *) apply (summary_same a _ (DParseParam nm t)); reflexivity.
  - (* %parse-generics *) apply (summary_same a _ (DParseGenerics t)); reflexivity.
  - (* %expect-unused *) apply (summary_same a _ (DExpectUnused ss)); try reflexivity. apply fold_eu_dsens.
  - (* %implicit_tokens *)
    set (occs := tok_occs (dg dl) (dq dl) 0 (off + byte_len (dg dl 0) + byte_len kw_implicit_tokens) ts).
    assert (Hocc : map fst occs = ts) by apply map_fst_tok_occs.
    destruct (a_implicit_tokens a) as [m|] eqn:Ea.
    + destruct (fold_implicit_frame occs a m Ea) as [H1 [H2 [H3 [H4 [H5 [H6 H7]]]]]].
      unfold pk, ek, ak, ik. rewrite H1, H2, H3, H4, H5, H6, H7, Ea, map_app, Hocc, !app_nil_r.
      repeat split; reflexivity.
    + assert (E0 : a_implicit_tokens (upd_implicit a (Some [])) = Some []) by reflexivity.
      destruct (fold_implicit_frame occs (upd_implicit a (Some [])) [] E0) as [H1 [H2 [H3 [H4 [H5 [H6 H7]]]]]].
      unfold pk, ek, ak, ik. rewrite H1, H2, H3, H4, H5, H6, H7, Ea.
      cbn [a_start a_expect a_expectrr a_precs a_epp a_avoid_insert upd_implicit app].
      rewrite Hocc, !app_nil_r. repeat split; reflexivity.
Qed.

Lemma decl_gat_summary : forall dl off x g,
  osome (decl_gat dl off x g) = (if is_dactiontype x then 1 else osome g).
Proof. intros dl off x g. destruct x; reflexivity. Qed.

Lemma osome_0 : forall A (o : option A), osome o = 0 -> o = None.
Proof. intros A [x|] H; [discriminate H | reflexivity]. Qed.

(* ---- the chained preconditions, from any AST ------------------------------------ *)
Lemma decls_pre_gen : forall l ds d off lvl a g,
  osome (a_start a) + List.length (filter is_dstart ds) <= 1 ->
  osome (a_expect a) + List.length (filter is_dexpect ds) <= 1 ->
  osome (a_expectrr a) + List.length (filter is_dexpectrr ds) <= 1 ->
  NoDup (pk a ++ flat_map prec_toks ds) ->
  NoDup (ek a ++ flat_map epp_keys ds) ->
  NoDup (ak a ++ flat_map avoid_toks ds) ->
  NoDup (ik a ++ flat_map implicit_toks ds) ->
  osome g + List.length (filter is_dactiontype ds) <= 1 ->
  decls_pre l d off lvl ds a g.
Proof.
  intros l ds. induction ds as [|x ds IH]; intros d off lvl a g Hs He Hr Hp Hk Hv Himp Hg; cbn [decls_pre]; [exact I|].
  split.
  - (* the declaration is accepted *)
    destruct x as [n|ts|k ts|t v|ts|v|v|t|nm t|t|ss|ts]; cbn [decl_pre].
    + cbn [filter is_dstart List.length] in Hs. apply osome_0. lia.
    + exact I.
    + cbn [flat_map prec_toks] in Hp. rewrite app_assoc in Hp.
      destruct (nodup_app_inv _ _ _ Hp) as [Hp1 _]. destruct (nodup_app_inv _ _ _ Hp1) as [_ [Hts Hd]].
      split; [exact Hts|]. intros t Ht. apply assoc_get_not_in. intros Hi. exact (Hd t Hi Ht).
    + cbn [flat_map epp_keys] in Hk. rewrite app_assoc in Hk.
      destruct (nodup_app_inv _ _ _ Hk) as [Hk1 _]. destruct (nodup_app_inv _ _ _ Hk1) as [_ [_ Hd]].
      apply assoc_get_not_in. intros Hi. apply (Hd t Hi). left. reflexivity.
    + cbn [flat_map avoid_toks] in Hv. rewrite app_assoc in Hv.
      destruct (nodup_app_inv _ _ _ Hv) as [Hv1 _]. destruct (nodup_app_inv _ _ _ Hv1) as [_ [Hts Hd]].
      split; [exact Hts|]. intros t Ht. unfold ak in Hd. destruct (a_avoid_insert a) as [m|]; [|exact I].
      apply assoc_get_not_in. intros Hin. exact (Hd t Hin Ht).
    + cbn [filter is_dexpect List.length] in He. apply osome_0. lia.
    + cbn [filter is_dexpectrr List.length] in Hr. apply osome_0. lia.
    + cbn [filter is_dactiontype List.length] in Hg. apply osome_0. lia.
    + exact I.
    + exact I.
    + exact I.
    + cbn [flat_map implicit_toks] in Himp. rewrite app_assoc in Himp.
      destruct (nodup_app_inv _ _ _ Himp) as [Hi1 _]. destruct (nodup_app_inv _ _ _ Hi1) as [_ [Hts Hd]].
      split; [exact Hts|]. intros t Ht. unfold ik in Hd. destruct (a_implicit_tokens a) as [m|]; [|exact I].
      apply assoc_get_not_in. intros Hin. exact (Hd t Hin Ht).
  - (* the rest, from the AST it leaves *)
    destruct (decl_eff_summary (dlay_of l d) off lvl x a) as [E1 [E2 [E3 [E4 [E5 [E6 E7]]]]]].
    apply IH.
    + rewrite E1. destruct x; cbn [filter is_dstart List.length] in *; lia.
    + rewrite E2. destruct x; cbn [filter is_dexpect List.length] in *; lia.
    + rewrite E3. destruct x; cbn [filter is_dexpectrr List.length] in *; lia.
    + rewrite E4, <- app_assoc. exact Hp.
    + rewrite E5, <- app_assoc. exact Hk.
    + rewrite E6, <- app_assoc. exact Hv.
    + rewrite E7, <- app_assoc. exact Himp.
    + rewrite decl_gat_summary. destruct x; cbn [filter is_dactiontype List.length] in *; lia.
Qed.

(* ---- the components of an abstract grammar, declaration by declaration ---------- *)
Lemma ag_precs_toks : forall ds,
  flat_map snd (flat_map (fun d => match d with DPrec k ts => [(k, ts)] | _ => [] end) ds)
  = flat_map prec_toks ds.
Proof.
  induction ds as [|x ds IH]; [reflexivity|]. cbn [flat_map]. rewrite flat_map_app, IH.
  destruct x; cbn [flat_map prec_toks snd app]; rewrite ?app_nil_r; reflexivity.
Qed.

Lemma ag_epp_keys : forall ds,
  map fst (flat_map (fun d => match d with DEpp t v => [(t, v)] | _ => [] end) ds)
  = flat_map epp_keys ds.
Proof.
  induction ds as [|x ds IH]; [reflexivity|]. cbn [flat_map]. rewrite map_app, IH.
  destruct x; reflexivity.
Qed.

Lemma decls_pre_wf : decls_pre_wf_stmt.
Proof.
  intros k l ag Hag.
  destruct Hag as [Hs [He [Hr [Hp [Hk [Hv [_ [_ [_ [_ [_ [_ [_ [_ [Hat [_ [_ [Hi _]]]]]]]]]]]]]]]]]].
  unfold count_decl in Hs, He, Hr, Hat.
  apply decls_pre_gen.
  - exact Hs.
  - exact He.
  - exact Hr.
  - unfold ag_precs in Hp. rewrite ag_precs_toks in Hp. exact Hp.
  - unfold ag_epp in Hk. rewrite ag_epp_keys in Hk. exact Hk.
  - exact Hv.
  - exact Hi.
  - exact Hat.
Qed.

(* ======================================================================== *)
(*  (B) %token-declared names                                                 *)
(* ======================================================================== *)
Lemma tok_inv_ext : forall D D' a, (forall x, D x = D' x) -> tok_inv D a -> tok_inv D' a.
Proof. intros D D' a H [Hr Hd]. split; [exact Hr|]. intros x. rewrite <- H. apply Hd. Qed.

(* two names with the same index are the same *)
Lemma index_of_inj : forall l x y k j, index_of l x k = Some j -> index_of l y k = Some j -> x = y.
Proof.
  induction l as [|h l IH]; intros x y k j Hx Hy; simpl in Hx, Hy; [discriminate Hx|].
  destruct (str_eqb h x) eqn:Ex, (str_eqb h y) eqn:Ey.
  - apply str_eqb_eq in Ex. apply str_eqb_eq in Ey. congruence.
  - injection Hx as <-. apply index_of_bound in Hy. lia.
  - injection Hy as <-. apply index_of_bound in Hx. lia.
  - exact (IH x y (S k) j Hx Hy).
Qed.

Lemma nat_set_insert_mem : forall l i j,
  existsb (Nat.eqb j) (nat_set_insert l i) = existsb (Nat.eqb j) l || (j =? i).
Proof.
  intros l i j. unfold nat_set_insert. destruct (existsb (Nat.eqb i) l) eqn:E.
  - destruct (Nat.eqb_spec j i) as [->|Hn]; [rewrite E; reflexivity | rewrite orb_false_r; reflexivity].
  - rewrite existsb_app. cbn [existsb]. rewrite orb_false_r. reflexivity.
Qed.

Lemma nat_set_insert_in : forall l i j, In j (nat_set_insert l i) -> In j l \/ j = i.
Proof.
  intros l i j. unfold nat_set_insert. destruct (existsb (Nat.eqb i) l); intros H; [left; exact H|].
  apply in_app_or in H. destruct H as [H|[H|[]]]; [left; exact H | right; symmetry; exact H].
Qed.

(* %token n *)
Lemma tok_inv_ins_declared : forall D a o,
  tok_inv D a -> tok_inv (fun x => D x || str_eqb (fst o) x) (ins_declared a o).
Proof.
  intros D a [n sp] [Hr Hd]. cbn [fst]. unfold ins_declared, insert_full. cbn [fst snd].
  destruct (get_index_of (a_tokens a) n) as [k|] eqn:En.
  - (* already a token *)
    assert (Hk : k < List.length (a_tokens a)).
    { unfold get_index_of in En. apply index_of_bound in En. lia. }
    split.
    + intros idx Hi. cbn [a_token_directives a_tokens upd_tokdirs] in *.
      apply nat_set_insert_in in Hi. destruct Hi as [Hi| ->]; [apply Hr; exact Hi | exact Hk].
    + intros x. rewrite <- Hd. unfold is_declared. cbn [a_token_directives a_tokens upd_tokdirs].
      destruct (get_index_of (a_tokens a) x) as [j|] eqn:Ex.
      * rewrite nat_set_insert_mem. f_equal.
        destruct (Nat.eqb_spec j k) as [->|Hn].
        -- symmetry. apply str_eqb_eq. exact (index_of_inj _ _ _ _ _ En Ex).
        -- destruct (str_eqb n x) eqn:E; [|reflexivity]. apply str_eqb_eq in E. subst x.
           rewrite En in Ex. injection Ex as Ex. symmetry in Ex. contradiction.
      * destruct (str_eqb n x) eqn:E; [|reflexivity]. apply str_eqb_eq in E. subst x.
        rewrite En in Ex. discriminate Ex.
  - (* a new token *)
    split.
    + intros idx Hi. cbn [a_token_directives a_tokens upd_tokdirs upd_spans upd_tokens] in *.
      rewrite app_length. cbn [List.length]. apply nat_set_insert_in in Hi.
      destruct Hi as [Hi| ->]; [apply Hr in Hi; lia | lia].
    + intros x. rewrite <- Hd. unfold is_declared.
      cbn [a_token_directives a_tokens upd_tokdirs upd_spans upd_tokens].
      rewrite get_index_of_snoc.
      destruct (get_index_of (a_tokens a) x) as [j|] eqn:Ex.
      * rewrite nat_set_insert_mem. f_equal.
        assert (Hj : j < List.length (a_tokens a)).
        { unfold get_index_of in Ex. apply index_of_bound in Ex. lia. }
        destruct (Nat.eqb_spec j (List.length (a_tokens a))) as [->|_]; [lia|].
        destruct (str_eqb n x) eqn:E; [|reflexivity]. apply str_eqb_eq in E. subst x.
        rewrite En in Ex. discriminate Ex.
      * destruct (str_eqb n x); [|reflexivity].
        rewrite nat_set_insert_mem, Nat.eqb_refl. apply orb_true_r.
Qed.

Lemma tok_inv_fold_declared : forall occs D a,
  tok_inv D a -> tok_inv (fun x => D x || mem_str (map fst occs) x) (fold_left ins_declared occs a).
Proof.
  induction occs as [|o occs IH]; intros D a H; cbn [fold_left map].
  - apply (tok_inv_ext D); [|exact H]. intros x. unfold mem_str. cbn [existsb]. rewrite orb_false_r. reflexivity.
  - apply (tok_inv_ext (fun x => (D x || str_eqb (fst o) x) || mem_str (map fst occs) x)).
    + intros x. unfold mem_str. cbn [existsb]. rewrite (str_eqb_sym x (fst o)), orb_assoc. reflexivity.
    + apply IH. apply tok_inv_ins_declared. exact H.
Qed.

Lemma tok_inv_fold_prec : forall D lvl k occs a,
  tok_inv D a -> tok_inv D (fold_left (ins_prec lvl k) occs a).
Proof.
  intros D lvl k occs a H.
  destruct (fold_prec_frame lvl k occs a) as [_ [_ [_ [_ [_ [_ [Ht Hd]]]]]]].
  exact (tok_inv_same D a _ Ht Hd H).
Qed.

Lemma tok_inv_ins_avoid : forall D a o, tok_inv D a -> tok_inv D (ins_avoid a o).
Proof.
  intros D a o H. unfold ins_avoid.
  apply (tok_inv_same D (tokens_insert a (fst o) (snd o))); [reflexivity | reflexivity|].
  apply tok_inv_tokens_insert. exact H.
Qed.

Lemma tok_inv_fold_avoid : forall D occs a, tok_inv D a -> tok_inv D (fold_left ins_avoid occs a).
Proof.
  intros D occs. induction occs as [|o occs IH]; intros a H; cbn [fold_left]; [exact H|].
  apply IH. apply tok_inv_ins_avoid. exact H.
Qed.

Lemma tok_inv_ins_implicit : forall D a o, tok_inv D a -> tok_inv D (ins_implicit a o).
Proof.
  intros D a o H. unfold ins_implicit.
  apply (tok_inv_same D (tokens_insert a (fst o) (snd o))); [reflexivity | reflexivity|].
  apply tok_inv_tokens_insert. exact H.
Qed.

Lemma tok_inv_fold_implicit : forall D occs a, tok_inv D a -> tok_inv D (fold_left ins_implicit occs a).
Proof.
  intros D occs. induction occs as [|o occs IH]; intros a H; cbn [fold_left]; [exact H|].
  apply IH. apply tok_inv_ins_implicit. exact H.
Qed.

Lemma tok_inv_fold_eu : forall D occs a, tok_inv D a -> tok_inv D (fold_left ins_eu occs a).
Proof.
  intros D occs a H. destruct (fold_eu_tokens occs a) as [Ht Hd]. exact (tok_inv_same D a _ Ht Hd H).
Qed.

Lemma tok_inv_decl_eff : forall D dl off lvl x a,
  tok_inv D a -> tok_inv (fun y => D y || mem_str (token_toks x) y) (decl_eff dl off lvl x a).
Proof.
  intros D dl off lvl x a H.
  assert (Hnil : forall y, D y = D y || mem_str [] y) by (intros y; cbn; rewrite orb_false_r; reflexivity).
  destruct x as [n|ts|k ts|t v|ts|v|v|t|nm t|t|ss|ts]; cbn [decl_eff token_toks].
  - apply (tok_inv_ext D _ _ Hnil). apply (tok_inv_same D a); [reflexivity | reflexivity | exact H].
  - apply (tok_inv_ext (fun y => D y || mem_str (map fst
             (tok_occs (dg dl) (dq dl) 0 (off + byte_len (dg dl 0) + byte_len kw_token) ts)) y)).
    + intros y. rewrite map_fst_tok_occs. reflexivity.
    + apply tok_inv_fold_declared. exact H.
  - apply (tok_inv_ext D _ _ Hnil). apply tok_inv_fold_prec. exact H.
  - apply (tok_inv_ext D _ _ Hnil). apply (tok_inv_same D a); [reflexivity | reflexivity | exact H].
  - apply (tok_inv_ext D _ _ Hnil). apply tok_inv_fold_avoid.
    destruct (a_avoid_insert a); [exact H|].
    apply (tok_inv_same D a); [reflexivity | reflexivity | exact H].
  - apply (tok_inv_ext D _ _ Hnil). apply (tok_inv_same D a); [reflexivity | reflexivity | exact H].
  - apply (tok_inv_ext D _ _ Hnil). apply (tok_inv_same D a); [reflexivity | reflexivity | exact H].
  - apply (tok_inv_ext D _ _ Hnil). exact H.
  - apply (tok_inv_ext D _ _ Hnil). apply (tok_inv_same D a); [reflexivity | reflexivity | exact H].
  - apply (tok_inv_ext D _ _ Hnil). apply (tok_inv_same D a); [reflexivity | reflexivity | exact H].
  - apply (tok_inv_ext D _ _ Hnil). apply tok_inv_fold_eu. exact H.
  - apply (tok_inv_ext D _ _ Hnil). apply tok_inv_fold_implicit.
    destruct (a_implicit_tokens a); [exact H|].
    apply (tok_inv_same D a); [reflexivity | reflexivity | exact H].
Qed.

Lemma tok_inv_decls_eff : forall l ds D d off lvl a,
  tok_inv D a ->
  tok_inv (fun y => D y || mem_str (flat_map token_toks ds) y) (decls_eff l d off lvl ds a).
Proof.
  intros l ds. induction ds as [|x ds IH]; intros D d off lvl a H; cbn [decls_eff flat_map].
  - apply (tok_inv_ext D); [|exact H]. intros y. cbn. rewrite orb_false_r. reflexivity.
  - apply (tok_inv_ext (fun y => (D y || mem_str (token_toks x) y) || mem_str (flat_map token_toks ds) y)).
    + intros y. rewrite mem_str_app, orb_assoc. reflexivity.
    + apply IH. apply tok_inv_decl_eff. exact H.
Qed.

Lemma tok_inv_ast_new : tok_inv (fun _ => false) ast_new.
Proof. split; [intros idx [] | intros x; reflexivity]. Qed.

Lemma decls_tok_inv : decls_tok_inv_stmt.
Proof.
  intros l ag.
  apply (tok_inv_ext (fun y => false || mem_str (flat_map token_toks (ag_decls ag)) y)).
  - intros y. reflexivity.
  - apply tok_inv_decls_eff. exact tok_inv_ast_new.
Qed.
