(* C12 (yacc part) — well-formed spans: every span carried by an error, a
   warning or the AST produced by the mirror of YaccParser (YpModel.v) satisfies
   start <= end <= |src| and lies on character boundaries of the source text.
   Declarative definitions and statements; proofs in YpSpans.v. *)
From Coq Require Import List Arith NArith ZArith Bool Lia.
From GV Require Import Common.Outcome C10.YpModel.
Import ListNotations.
Local Open Scope nat_scope.

(* byte offsets of the character boundaries of a text, its end included
   (as C19's [boundaries], over this mirror's [len_utf8]) *)
Fixpoint boundaries_from (s : str) (off : nat) : list nat :=
  match s with
  | [] => [off]
  | ch :: s' => off :: boundaries_from s' (off + len_utf8 ch)
  end.
Definition boundaries (s : str) : list nat := boundaries_from s 0.

Definition boundary (src : str) (i : nat) : Prop := In i (boundaries src).

(* start <= end <= length of the text, both ends on character boundaries *)
Definition wf_span (src : str) (sp : span) : Prop :=
  fst sp <= snd sp /\ snd sp <= byte_len src /\ boundary src (fst sp) /\ boundary src (snd sp).

(* what is left of it for the action spans of the code as it is: the end need
   not be a boundary *)
Definition wf_span_start (src : str) (sp : span) : Prop :=
  fst sp <= snd sp /\ snd sp <= byte_len src /\ boundary src (fst sp).

(* ---- the spans a result carries ------------------------------------------- *)
Definition sym_span (s : symbol) : span := match s with SRule _ sp | SToken _ sp => sp end.

Definition error_spans (es : list yerr) : list span := flat_map e_spans es.

(* GrammarAST::warnings returns a value only when the mirror's run of it is [Done] *)
Definition warning_spans (w : outcome (list (wkind * span))) : list span :=
  match w with Done l => map snd l | _ => [] end.

Definition opt_list {A} (o : option A) : list A := match o with Some x => [x] | None => [] end.

(* every span stored in the AST, except those of the actions *)
Definition ast_spans (a : gast) : list span :=
  map snd (opt_list (a_start a))                                       (* %start / first rule *)
  ++ map r_span (a_rules a)                                            (* rule names *)
  ++ flat_map (fun p => p_span p :: map sym_span (p_syms p)) (a_prods a)  (* productions, their symbols *)
  ++ a_spans a                                                         (* tokens *)
  ++ map (fun x => snd (snd x)) (a_precs a)                            (* %left/%right/%nonassoc *)
  ++ map snd (concat (opt_list (a_avoid_insert a)))                    (* %avoid_insert *)
  ++ map snd (concat (opt_list (a_implicit_tokens a)))                 (* %implicit_tokens *)
  ++ flat_map (fun x => [fst (snd x); snd (snd (snd x))]) (a_epp a)    (* %epp: token and string *)
  ++ map snd (opt_list (a_expect a))                                   (* %expect *)
  ++ map snd (opt_list (a_expectrr a))                                 (* %expect-rr *)
  ++ map sym_span (a_expect_unused a).                                 (* %expect-unused *)

Definition action_spans (a : gast) : list span :=
  flat_map (fun p => map snd (opt_list (p_action p))) (a_prods a).

(* ---- statements ------------------------------------------------------------- *)
(* whatever the variant (code as it is / either proposed repair), the dialect
   and the text: when the run returns,
   - every span of every error (parse errors, duplicate occurrences, the
     complete_and_validate error) and of every warning is well-formed,
   - every span stored in the AST is well-formed — whether or not there were
     errors (ASTWithValidityInfo keeps the partial AST) —
   - action spans have start <= end <= |src| and start on a boundary; their
     end is on a boundary with the proposed repair of the action span *)
Definition yacc_error_spans_wellformed_stmt : Prop :=
  forall (fixed fixed_aspan fixed_pspan fixed_precused : bool) (kind : ykind) (src : str) (r : top),
    run_case fixed fixed_aspan fixed_pspan fixed_precused kind src = Done r ->
    match r with
    | THeader => True
    | TResult a errs w =>
        Forall (wf_span src) (error_spans errs) /\
        Forall (wf_span src) (warning_spans w) /\
        Forall (wf_span src) (ast_spans a) /\
        Forall (wf_span_start src) (action_spans a) /\
        (fixed_aspan = true -> Forall (wf_span src) (action_spans a))
    end.

(* the positive statement about action spans on its own *)
Definition yacc_action_span_boundary_fixed_stmt : Prop :=
  forall (fixed fixed_pspan fixed_precused : bool) (kind : ykind) (src : str) a errs w,
    run_case fixed true fixed_pspan fixed_precused kind src = Done (TResult a errs w) ->
    Forall (wf_span src) (action_spans a).

(* the code as it is: an action span can end inside a multi-byte character
   (parser.rs: Span::new(pos_action_start, pos_action_start + action.len())
   with [action] trimmed but [pos_action_start] before the blanks) *)
Definition yacc_action_span_boundary_refuted_stmt : Prop :=
  exists (fixed : bool) (kind : ykind) (src : str) a w sp,
    run_case fixed false true true kind src = Done (TResult a [] w) /\
    In sp (action_spans a) /\ ~ boundary src (snd sp).

(* the hypothesis of the main statement is satisfiable with every kind of span
   present: an error with two spans, a warning, AST spans, an action span *)
Definition yacc_spans_example_stmt : Prop :=
  exists src a errs ws,
    run_case false false true true KOriginal src = Done (TResult a errs (Done ws)) /\
    error_spans errs <> [] /\ ws <> [] /\ ast_spans a <> [] /\ action_spans a <> [].
