(* C10 (a) — the lines to copy into Properties/C10.v (with the import of C10.GrmModel C10.GrmSpec C10.GrmProofs). *)
From GV Require Import Common.Outcome C10.GrmModel C10.GrmSpec C10.GrmProofs.

Theorem C10_grm_build_faithful : build_faithful_stmt.
Proof. exact build_faithful. Qed.
Print Assumptions C10_grm_build_faithful.

Theorem C10_grm_build_total : build_total_stmt.
Proof. exact build_total. Qed.
Print Assumptions C10_grm_build_total.

Theorem C10_grm_rule_names_unique : rule_names_unique_stmt.
Proof. exact rule_names_unique. Qed.
Print Assumptions C10_grm_rule_names_unique.

Theorem C10_grm_wf_astb_sound : wf_astb_sound_stmt.
Proof. exact wf_astb_sound. Qed.
Print Assumptions C10_grm_wf_astb_sound.

Theorem C10_grm_build_dense_in_range : build_dense_in_range_stmt.
Proof. exact build_dense_in_range. Qed.
Print Assumptions C10_grm_build_dense_in_range.

Theorem C10_grm_build_dense_in_range_refuted : build_dense_in_range_refuted_stmt.
Proof. exact build_dense_in_range_refuted. Qed.
Print Assumptions C10_grm_build_dense_in_range_refuted.

Theorem C10_grm_build_eco_actions_refuted : build_eco_actions_refuted_stmt.
Proof. exact build_eco_actions_refuted. Qed.
Print Assumptions C10_grm_build_eco_actions_refuted.

