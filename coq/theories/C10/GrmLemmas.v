(* C10 (a) — list lemmas and the fresh-name loop, used by GrmLoop.v / GrmProofs.v. *)
From Coq Require Import List Arith NArith Bool Lia Permutation.
From GV Require Import Common.Outcome C10.GrmModel C10.GrmSpec.
Import ListNotations.

(* ---- lists ---------------------------------------------------------------- *)

Lemma name_eqb_refl x : name_eqb x x = true.
Proof. unfold name_eqb. destruct (name_dec x x) as [_|Hn]; [reflexivity|congruence]. Qed.

Lemma name_eqb_neq x y : x <> y -> name_eqb x y = false.
Proof. intros H. unfold name_eqb. destruct (name_dec x y) as [He|_]; [congruence|reflexivity]. Qed.

Lemma name_eqb_eq x y : name_eqb x y = true -> x = y.
Proof. unfold name_eqb. destruct (name_dec x y) as [He|_]; [auto|discriminate]. Qed.

Lemma index_of_lt x l i : index_of x l = Some i -> i < length l.
Proof.
  revert i. induction l as [|y l IH]; intros i H; simpl in *; [discriminate|].
  destruct (name_dec x y) as [_|_].
  - inversion H; subst; lia.
  - destruct (index_of x l) as [j|]; simpl in H; [|discriminate].
    inversion H; subst. specialize (IH j eq_refl). lia.
Qed.

Lemma index_of_nth x l i : index_of x l = Some i -> nth_error l i = Some x.
Proof.
  revert i. induction l as [|y l IH]; intros i H; simpl in *; [discriminate|].
  destruct (name_dec x y) as [He|_].
  - inversion H; subst; reflexivity.
  - destruct (index_of x l) as [j|]; simpl in H; [|discriminate].
    inversion H; subst. simpl. apply IH; reflexivity.
Qed.

Lemma index_of_None x l : index_of x l = None <-> ~ In x l.
Proof.
  induction l as [|y l IH]; simpl.
  - split; auto.
  - destruct (name_dec x y) as [He|Hn].
    + split; [discriminate|]. intros H; exfalso; apply H; left; auto.
    + destruct (index_of x l) as [j|]; simpl.
      * split; [discriminate|]. intros H. exfalso. apply H. right.
        destruct IH as [_ IH2]. destruct (in_dec name_dec x l) as [Hi|Hi]; [auto|].
        specialize (IH2 Hi); discriminate.
      * split; [|reflexivity]. intros _ [He|Hi]; [congruence|]. destruct IH as [IH1 _].
        apply (IH1 eq_refl Hi).
Qed.

Lemma index_of_In x l : In x l -> exists i, index_of x l = Some i.
Proof.
  intros Hi. destruct (index_of x l) as [i|] eqn:E; [eauto|].
  apply index_of_None in E. contradiction.
Qed.

Lemma index_of_Some_In x l i : index_of x l = Some i -> In x l.
Proof. intros H. apply index_of_nth in H. eapply nth_error_In; eauto. Qed.

Lemma mem_In x l : mem x l = true <-> In x l.
Proof.
  unfold mem. destruct (index_of x l) as [i|] eqn:E.
  - split; [intros _; eapply index_of_Some_In; eauto|reflexivity].
  - split; [discriminate|]. intros Hi. apply index_of_None in E. contradiction.
Qed.

Lemma mem_false x l : mem x l = false <-> ~ In x l.
Proof.
  rewrite <- mem_In. destruct (mem x l); split; intros H; congruence.
Qed.

Lemma index_of_app_l x l1 l2 i : index_of x l1 = Some i -> index_of x (l1 ++ l2) = Some i.
Proof.
  revert i. induction l1 as [|y l1 IH]; intros i H; simpl in *; [discriminate|].
  destruct (name_dec x y) as [_|_]; [assumption|].
  destruct (index_of x l1) as [j|]; simpl in H; [|discriminate].
  rewrite (IH j eq_refl). assumption.
Qed.

Lemma index_of_app_r x l1 l2 :
  ~ In x l1 -> index_of x (l1 ++ l2) = option_map (fun i => length l1 + i) (index_of x l2).
Proof.
  induction l1 as [|y l1 IH]; intros H; simpl.
  - destruct (index_of x l2); reflexivity.
  - destruct (name_dec x y) as [He|_]; [exfalso; apply H; left; auto|].
    rewrite IH by (intros Hi; apply H; right; assumption).
    destruct (index_of x l2); reflexivity.
Qed.

Lemma index_of_nodup_nth x l1 l2 :
  ~ In x l1 -> index_of x (l1 ++ x :: l2) = Some (length l1).
Proof.
  intros H. rewrite index_of_app_r by assumption. simpl.
  destruct (name_dec x x) as [_|Hn]; [|congruence]. simpl. f_equal. lia.
Qed.

Lemma idx_In x l : In x l -> index_of x l = Some (idx x l) /\ idx x l < length l.
Proof.
  intros Hi. destruct (index_of_In x l Hi) as [i E]. unfold idx. rewrite E.
  split; [reflexivity|]. eapply index_of_lt; eauto.
Qed.

Lemma length_upd {A} (l : list A) i v : length (upd l i v) = length l.
Proof.
  revert i. induction l as [|y l IH]; intros [|i]; simpl; auto.
Qed.

Lemma upd_app_mid {A} (X Y : list A) d v : upd (X ++ d :: Y) (length X) v = X ++ v :: Y.
Proof. induction X as [|x X IH]; simpl; [reflexivity|]. rewrite IH. reflexivity. Qed.

Lemma nth_error_app_mid {A} (X Y : list A) d : nth_error (X ++ d :: Y) (length X) = Some d.
Proof. induction X as [|x X IH]; simpl; auto. Qed.

Lemma upd_mapseq {A} (f : nat -> A) t v : forall n s p, p < n ->
  upd (map f (seq s n) ++ t) p v = map (fun i => if i =? s + p then v else f i) (seq s n) ++ t.
Proof.
  induction n as [|n IH]; intros s p Hp; [lia|].
  simpl. destruct p as [|p].
  - rewrite Nat.add_0_r, Nat.eqb_refl. f_equal. f_equal.
    apply map_ext_in. intros i Hi. apply in_seq in Hi.
    destruct (Nat.eqb_spec i s) as [He|_]; [lia|reflexivity].
  - destruct (Nat.eqb_spec s (s + S p)) as [He|_]; [lia|].
    f_equal. rewrite IH by lia. f_equal. apply map_ext. intros i.
    replace (S s + p) with (s + S p) by lia. reflexivity.
Qed.

Lemma map_nth_seq {A B} (f : A -> B) (l : list A) d :
  map (fun i => f (nth i l d)) (seq 0 (length l)) = map f l.
Proof.
  induction l as [|x l IH]; simpl; [reflexivity|].
  f_equal. rewrite <- seq_shift, map_map. exact IH.
Qed.

Lemma map_const_seq {A} (d : A) n s : map (fun _ => d) (seq s n) = repeat d n.
Proof. revert s. induction n as [|n IH]; intros s; simpl; [reflexivity|]. rewrite IH; reflexivity. Qed.

Lemma nth_checked_nth {A} (l : list A) i d : i < length l -> nth_checked l i = Done (nth i l d).
Proof.
  intros H. unfold nth_checked. rewrite (nth_error_nth' l d H). reflexivity.
Qed.

Lemma unwrap_all_map_Some {A} (l : list A) : unwrap_all (map Some l) = Done l.
Proof. induction l as [|x l IH]; simpl; [reflexivity|]. rewrite IH. reflexivity. Qed.

Lemma ofold_app {S X} (f : S -> X -> outcome S) l1 l2 s :
  ofold f (l1 ++ l2) s = (do s' <- ofold f l1 s; ofold f l2 s').
Proof.
  revert s. induction l1 as [|x l1 IH]; intros s; simpl; [reflexivity|].
  destruct (f s x) as [s'| |]; simpl; auto.
Qed.

Definition memn (i : nat) (l : list nat) : bool := existsb (Nat.eqb i) l.

Lemma memn_In i l : memn i l = true <-> In i l.
Proof.
  unfold memn. rewrite existsb_exists. split.
  - intros [x [Hx He]]. apply Nat.eqb_eq in He. subst. assumption.
  - intros H. exists i. split; [assumption|apply Nat.eqb_refl].
Qed.

Lemma memn_app i l1 l2 : memn i (l1 ++ l2) = memn i l1 || memn i l2.
Proof. unfold memn. apply existsb_app. Qed.

Lemma memn_rev i l : memn i (rev l) = memn i l.
Proof.
  destruct (memn i l) eqn:E.
  - apply memn_In. apply -> in_rev. apply memn_In. assumption.
  - destruct (memn i (rev l)) eqn:E2; [|reflexivity].
    apply memn_In in E2. apply in_rev in E2. apply memn_In in E2. congruence.
Qed.

(* ---- fresh names --------------------------------------------------------------- *)

Lemma length_npow base k : length (npow base k) = k * length base.
Proof. induction k as [|k IH]; simpl; [reflexivity|]. rewrite app_length, IH. lia. Qed.

Lemma filter_length_lt {A} (p q : A -> bool) (l : list A) x :
  (forall y, p y = true -> q y = true) -> In x l -> q x = true -> p x = false ->
  length (filter p l) < length (filter q l).
Proof.
  intros Hpq. induction l as [|y l IH]; intros Hi Hq Hp; [destruct Hi|].
  assert (Hle : forall l', length (filter p l') <= length (filter q l')).
  { induction l' as [|z l' IH']; simpl; [lia|].
    destruct (p z) eqn:Ep.
    - rewrite (Hpq z Ep). simpl. lia.
    - destruct (q z); simpl; lia. }
  simpl. destruct Hi as [He|Hi].
  - subst y. rewrite Hp, Hq. simpl. specialize (Hle l). lia.
  - specialize (IH Hi Hq Hp). destruct (p y) eqn:Ep.
    + rewrite (Hpq y Ep). simpl. lia.
    + destruct (q y); simpl; lia.
Qed.

Lemma fresh_go_spec names base : base <> [] -> forall fuel k,
  (forall j, j < k -> In (npow base (S j)) names) ->
  length (filter (fun n => length (npow base (S k)) <=? length n) names) <= fuel ->
  exists k', fresh_go fuel names base (npow base (S k)) = Done (npow base (S k')) /\
             ~ In (npow base (S k')) names /\
             forall j, j < k' -> In (npow base (S j)) names.
Proof.
  intros Hb. assert (Hlb : length base > 0) by (destruct base; [congruence|simpl; lia]).
  induction fuel as [|fuel IH]; intros k Hk Hc.
  - cbn [fresh_go]. destruct (mem (npow base (S k)) names) eqn:E.
    + exfalso. apply mem_In in E.
      assert (H : In (npow base (S k)) (filter (fun n => length (npow base (S k)) <=? length n) names)).
      { apply filter_In. split; [assumption|]. apply Nat.leb_refl. }
      apply Nat.le_0_r in Hc. apply length_zero_iff_nil in Hc. rewrite Hc in H. destruct H.
    + exists k. split; [reflexivity|]. split; [apply mem_false; assumption|assumption].
  - cbn [fresh_go]. destruct (mem (npow base (S k)) names) eqn:E.
    + apply mem_In in E. change (npow base (S k) ++ base) with (npow base (S (S k))).
      apply IH.
      * intros j Hj. destruct (Nat.eq_dec j k) as [->|Hne]; [assumption|]. apply Hk. lia.
      * assert (Hlt : length (filter (fun n => length (npow base (S (S k))) <=? length n) names) <
                      length (filter (fun n => length (npow base (S k)) <=? length n) names)).
        { apply filter_length_lt with (x := npow base (S k)).
          - intros y Hy. apply Nat.leb_le in Hy. apply Nat.leb_le.
            rewrite length_npow in *. lia.
          - assumption.
          - apply Nat.leb_refl.
          - apply Nat.leb_gt. rewrite !length_npow. lia. }
        lia.
    + exists k. split; [reflexivity|]. split; [apply mem_false; assumption|assumption].
Qed.

Lemma filter_len_le {A} (p : A -> bool) l : length (filter p l) <= length l.
Proof. induction l as [|x l IH]; simpl; [lia|]. destruct (p x); simpl; lia. Qed.

Lemma fresh_spec names base : base <> [] ->
  exists nm, fresh names base = Done nm /\ is_fresh base names nm.
Proof.
  intros Hb. unfold fresh.
  destruct (fresh_go_spec names base Hb (length names) 0) as [k' [H1 [H2 H3]]].
  - intros j Hj; lia.
  - apply filter_len_le.
  - exists (npow base (S k')). split; [exact H1|]. exists k'. auto.
Qed.
