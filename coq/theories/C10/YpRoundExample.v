(* C10 half (b), round trip — the hypotheses of the round-trip theorems are
   satisfiable, in each of the three dialects:

   [ex_ag] / [ex_lay]    Original: a grammar with every construct (several %token /
       precedence lines, %start, %epp with an escaped quote, %avoid_insert, %expect,
       %expect-rr, %actiontype, %parse-param, %parse-generics, %expect-unused, a rule
       written in two blocks, empty productions with and without %empty, %prec, actions
       with nested braces / empty text / blanks inside the braces, a programs section)
       under a layout with comments, newlines, all three spellings and empty gaps;
   [gx_ag] / [gx_lay]    Grmtools: every rule block carries an action type
       ([Result<u64, ()>], [std::vec::Vec<u8>], [()]), %parse-param, %parse-generics,
       %expect-unused, a programs section;
   [eco_ag] / [eco_lay]  Eco: an %implicit_tokens line; the gap after %start holds a
       // comment and its newline (a line layout that is not newline-free).

   On each of them the conclusion of the round-trip theorem is evaluated
   ([ex_roundtrip_*], [gx_roundtrip_*], [eco_roundtrip_*]).

   Two refutation witnesses show what the side conditions "blocks of one rule agree on
   the type" and "at most one %parse-param" of [wf_agram] exclude: in both cases the
   parser reports NOTHING (no error, no warning) and silently keeps only one of the two
   values ([rule_type_conflict_refuted], [parse_param_twice_refuted]). *)
From Coq Require Import List Arith NArith ZArith Bool Lia Strings.String Strings.Ascii.
From GV Require Import Common.Outcome C10.YpModel C10.YpSpec C10.YpProofs C10.YpPrint C10.YpRoundSpec.
Import ListNotations.
Local Open Scope nat_scope.
Lemma lt_app : forall a b, layout_text a -> layout_text b -> layout_text (a ++ b).
Proof.
  intros a b Ha Hb. induction Ha as [|it rest Hit Hrest IH]; [exact Hb|].
  rewrite <- app_assoc. constructor; assumption.
Qed.
Lemma lt_blanks : forall l, forallb is_blank l = true -> layout_text l.
Proof.
  induction l as [|c l IH]; intros H; [constructor|]. simpl in H. apply andb_true_iff in H. destruct H as [Hc Hl].
  change (c :: l) with ([c] ++ l). constructor; [constructor; exact Hc | apply IH; exact Hl].
Qed.
Lemma lt_block : forall body, find_close (body ++ [c_star; c_slash]) = Some (List.length body) ->
  layout_text (c_slash :: c_star :: body ++ [c_star; c_slash]).
Proof. intros body H. rewrite <- (app_nil_r (c_slash :: c_star :: body ++ [c_star; c_slash])). constructor; [constructor; exact H | constructor]. Qed.
Lemma lt_line : forall body nl, forallb (fun c => negb (is_nl c)) body = true -> is_nl nl = true ->
  layout_text (c_slash :: c_slash :: body ++ [nl]).
Proof. intros body nl H1 H2. rewrite <- (app_nil_r (c_slash :: c_slash :: body ++ [nl])). constructor; [constructor; assumption | constructor]. Qed.

Definition s (x : string) : str := lit x.
Definition path_eqb (a b : list nat) : bool := if list_eq_dec Nat.eq_dec a b then true else false.
Fixpoint look {A} (d : A) (l : list (list nat * A)) (p : list nat) : A :=
  match l with [] => d | (k, v) :: l' => if path_eqb k p then v else look d l' p end.

Definition nl : str := [c_nl].

(* a line layout that is NOT newline-free: blank, // comment, the comment's newline *)
Lemma ll_comment : line_layout (s " // c" ++ nl).
Proof.
  change (line_layout ([32%N] ++ (c_slash :: c_slash :: s " c" ++ [c_nl]) ++ [])).
  apply LL_cons; [apply LI_blank; reflexivity | left; reflexivity |].
  apply LL_cons; [apply LI_line; reflexivity | right; eexists; reflexivity | apply LL_nil].
Qed.

Ltac lt :=
  first [ apply lt_blanks; reflexivity
        | apply (lt_block (s " c ")); reflexivity
        | apply (lt_block []); reflexivity
        | apply (lt_app (s " ") (c_slash :: c_slash :: s " c" ++ [c_nl])); [apply lt_blanks; reflexivity | apply lt_line; reflexivity]
        | apply (lt_app (c_slash :: c_star :: s " c " ++ [c_star; c_slash]) nl); [apply (lt_block (s " c ")); reflexivity | apply lt_blanks; reflexivity] ].
(* line layouts: newline-free layout texts, or the one with a // comment *)
Ltac ll :=
  first [ apply layout_text_line; [lt | reflexivity]
        | exact ll_comment ].

(* the conjuncts of [wf_decls] / [wf_rules] / [wf_programs] on a concrete instance *)
Ltac wf_tac :=
  repeat split; try (cbn; lt); try (cbn; ll); try reflexivity; try (cbn; discriminate); try (cbn; lia);
  try (cbn; intros; discriminate); try (cbn; intros; congruence);
  try (unfold nl1, nl0; vm_compute; lia); try (vm_compute; reflexivity).

(* the conjuncts of [wf_agram] on a concrete instance *)
Ltac kind_tac :=
  repeat (apply Forall_cons;
          [ let HH := fresh "HH" in
            unfold rule_kind_ok; cbn; split; intro HH;
            first [reflexivity | discriminate HH | (exfalso; apply HH; reflexivity)] |]);
  apply Forall_nil.
Ltac agree_tac :=
  let r1 := fresh "r1" in let r2 := fresh "r2" in let H1 := fresh "H1" in let H2 := fresh "H2" in
  let Hn := fresh "Hn" in
  intros r1 r2 H1 H2 Hn; cbn in H1, H2;
  repeat match goal with
         | H : _ \/ _ |- _ => destruct H as [H|H]
         | H : False |- _ => destruct H
         end;
  subst; vm_compute in Hn |- *; first [reflexivity | discriminate Hn].
Ltac eu_tac :=
  let n := fresh "n" in let H := fresh "H" in
  vm_compute; intros n H;
  repeat (destruct H as [H|H]; [try discriminate H; injection H as <-; tauto|]);
  destruct H.
Ltac ag_tac :=
  first [ vm_compute; lia
        | vm_compute; repeat constructor; cbn; intuition discriminate
        | discriminate
        | vm_compute; intros n H; tauto
        | vm_compute; intros n H; injection H as <-; tauto
        | kind_tac
        | agree_tac
        | eu_tac ].

(* ======================================================================== *)
(*  Original dialect                                                          *)
(* ======================================================================== *)
Definition ex_ag : agram := mkAG
  [DToken [s "x"; s "y"]; DStart (s "A"); DPrec ALeft [s "+"; s "x"]; DPrec ARight [s "-"];
   DEpp (s "x") (s "it's"); DAvoid [s "y"; s "q"]; DExpect 7%N; DExpectRR 0%N;
   DActiontype (s "u64"); DParseParam (s "p") (s "&mut Vec<u8>"); DParseGenerics (s "'a, T: 'a");
   DExpectUnused [ARule (s "B"); ATok (s "q"); ATok (s "+")]]
  [mkARule (s "A") None [mkAProd [ARule (s "A"); ATok (s "+"); ATok (s "x")] None (Some (s "act {}"));
                         mkAProd [ARule (s "B")] (Some (s "-")) None;
                         mkAProd [] None None];
   mkARule (s "B") None [mkAProd [] None (Some (s "")); mkAProd [ATok (s "y"); ATok (s "x")] (Some (s "+")) (Some (s "z"))];
   mkARule (s "A") None [mkAProd [ATok (s "q")] None None]]
  (Some (s "fn main() { }" ++ nl ++ s "%% // not a separator" ++ nl)).

Definition ex_lay : layout := mkLay
  (look (s " ") [([0], s "/* c */" ++ nl); ([1;0;2], nl); ([1;2;2], s " // c" ++ nl); ([1;3;1], nl); ([1;5;2], nl ++ s "   ");
                 ([1;8;1], nl); ([1;9;2], nl ++ s " "); ([1;10;1], nl ++ s "/* c */" ++ nl); ([1;11;2], []); ([1;11;3], nl);
                 ([4;0;0;0;1], []); ([4;0;0;0;2], []);([4;0;0;3], []); ([4;1;0;4], s "/**/"); ([2], nl); ([5], nl)])
  (look QBare [([1;2;0], QSq); ([1;3;0], QDq); ([1;4;1], QSq); ([1;5;1], QDq); ([1;11;1], QSq); ([1;11;2], QDq);
               ([4;0;0;0;1], QSq); ([4;0;1;1], QSq); ([4;1;1;1], QDq); ([4;2;0;0;0], QDq)])
  (look [] [([1;4;0], s "it\'s"); ([1;6;0], s "007"); ([1;7;0], s "0"); ([1;9;0], s "  ");
            ([4;0;0;6], s "  "); ([4;0;0;7], nl); ([4;1;0;6], s " "); ([4;1;0;7], s " ")])
  (look false [([4;1;0], true); ([4;0;2], true)]).

Example ex_wf_layout : wf_layout ex_lay ex_ag.
Proof.
  unfold wf_layout. split; [|split; [|split; [|split]]].
  - cbv [ex_lay l_gap look path_eqb]. cbn. lt.
  - cbn [ex_ag ag_decls wf_decls]. wf_tac.
    + vm_compute.
      repeat (first [apply Esc_nil | apply Esc_quote; [left; reflexivity|] | apply Esc_plain; [discriminate | discriminate | reflexivity |]]).
    + cbn. apply (lt_app nl (s "/* c */" ++ nl)); [apply lt_blanks; reflexivity | lt].
  - cbv [ex_lay l_gap look path_eqb]. cbn. lt.
  - cbn [ex_ag ag_rules wf_rules]. wf_tac.
  - unfold wf_programs. cbn [ex_ag ag_programs]. wf_tac.
Qed.

Example ex_wf_agram : wf_agram KOriginal ex_ag.
Proof. unfold wf_agram. repeat split; ag_tac. Qed.

Example ex_roundtrip_true :
  run_case true true true true KOriginal (print ex_lay ex_ag)
  = Done (TResult (ast_of true true ex_lay ex_ag) [] (warnings_of true true true ex_lay ex_ag)).
Proof. vm_compute. reflexivity. Qed.
Example ex_roundtrip_false :
  run_case true false true true KOriginal (print ex_lay ex_ag)
  = Done (TResult (ast_of false true ex_lay ex_ag) [] (warnings_of false true true ex_lay ex_ag)).
Proof. vm_compute. reflexivity. Qed.

(* ======================================================================== *)
(*  Grmtools dialect                                                          *)
(* ======================================================================== *)
(*   %token INT PLUS
     %start Expr
     %parse-param ctx : &mut Ctx
     %left PLUS
     %expect-unused Unused "INT"
     %parse-generics T: Clone
     %%
     Expr -> Result<u64, ()>: Expr 'PLUS' Term { $1 + $3 } | Term {$1} ;
     Term ->std::vec::Vec<u8> : 'INT' {vec![]} ;
     Unused ->/* c */
     (): ;
     Expr -> Result<u64, ()>: "INT" %prec PLUS ;
     %%
     fn f() {}                                                                  *)
Definition gx_ag : agram := mkAG
  [DToken [s "INT"; s "PLUS"]; DStart (s "Expr"); DParseParam (s "ctx") (s "&mut Ctx");
   DPrec ALeft [s "PLUS"]; DExpectUnused [ARule (s "Unused"); ATok (s "INT")]; DParseGenerics (s "T: Clone")]
  [mkARule (s "Expr") (Some (s "Result<u64, ()>"))
     [mkAProd [ARule (s "Expr"); ATok (s "PLUS"); ARule (s "Term")] None (Some (s "$1 + $3"));
      mkAProd [ARule (s "Term")] None (Some (s "$1"))];
   mkARule (s "Term") (Some (s "std::vec::Vec<u8>")) [mkAProd [ATok (s "INT")] None (Some (s "vec![]"))];
   mkARule (s "Unused") (Some (s "()")) [mkAProd [] None None];
   mkARule (s "Expr") (Some (s "Result<u64, ()>")) [mkAProd [ATok (s "INT")] (Some (s "PLUS")) None]]
  (Some (s "fn f() {}")).

Definition gx_lay : layout := mkLay
  (look (s " ") [([0], []); ([1;0;2], nl); ([1;1;1], nl); ([1;2;2], nl); ([1;3;1], nl); ([1;4;2], nl); ([1;5;1], nl);
                 ([2], nl); ([3;1;2], []); ([3;2;2], s "/* c */" ++ nl); ([4;0;1;5], nl); ([4;1;0;5], nl);
                 ([4;2;0;5], nl); ([4;3;0;5], nl); ([5], nl)])
  (look QBare [([1;4;1], QDq); ([4;0;0;0;1], QSq); ([4;1;0;0;0], QSq); ([4;3;0;0;0], QDq)])
  (look [] [([1;2;0], s " "); ([3;1;3], s " "); ([4;0;0;6], s " "); ([4;0;0;7], s " ")])
  (look false []).

Example gx_wf_layout : wf_layout gx_lay gx_ag.
Proof.
  unfold wf_layout. split; [|split; [|split; [|split]]].
  - cbv [gx_lay l_gap look path_eqb]. cbn. lt.
  - cbn [gx_ag ag_decls wf_decls]. wf_tac.
  - cbv [gx_lay l_gap look path_eqb]. cbn. lt.
  - cbn [gx_ag ag_rules wf_rules]. wf_tac.
  - unfold wf_programs. cbn [gx_ag ag_programs]. wf_tac.
Qed.

Example gx_wf_agram : wf_agram KGrmtools gx_ag.
Proof. unfold wf_agram. repeat split; ag_tac. Qed.

Example gx_roundtrip_true :
  run_case true true true true KGrmtools (print gx_lay gx_ag)
  = Done (TResult (ast_of true true gx_lay gx_ag) [] (warnings_of true true true gx_lay gx_ag)).
Proof. vm_compute. reflexivity. Qed.
Example gx_roundtrip_false :
  run_case true false true true KGrmtools (print gx_lay gx_ag)
  = Done (TResult (ast_of false true gx_lay gx_ag) [] (warnings_of false true true gx_lay gx_ag)).
Proof. vm_compute. reflexivity. Qed.

(* the action types arrive in the AST *)
Example gx_types :
  map (fun r => (r_name r, r_actiont r)) (a_rules (ast_of true true gx_lay gx_ag))
  = [(s "Expr", Some (s "Result<u64, ()>")); (s "Term", Some (s "std::vec::Vec<u8>")); (s "Unused", Some (s "()"))].
Proof. vm_compute. reflexivity. Qed.

(* ======================================================================== *)
(*  Eco dialect                                                               *)
(* ======================================================================== *)
(*   %token x y
     %start // c
     S
     %implicit_tokens ws cm
     %avoid_insert x
     %expect-unused 'y'
     %nonassoc x
     %%
     S : 'x' T | ;
     T : y %prec x {a} ;                                                        *)
Definition eco_ag : agram := mkAG
  [DToken [s "x"; s "y"]; DStart (s "S"); DImplicit [s "ws"; s "cm"]; DAvoid [s "x"];
   DExpectUnused [ATok (s "y")]; DPrec ANonassoc [s "x"]]
  [mkARule (s "S") None [mkAProd [ATok (s "x"); ARule (s "T")] None None; mkAProd [] None None];
   mkARule (s "T") None [mkAProd [ATok (s "y")] (Some (s "x")) (Some (s "a"))]]
  None.

Definition eco_lay : layout := mkLay
  (look (s " ") [([0], []); ([1;0;2], nl); ([1;1;0], s " // c" ++ nl); ([1;1;1], nl); ([1;2;2], nl); ([1;3;1], nl);
                 ([1;4;1], nl); ([1;5;1], nl); ([2], nl); ([4;0;1;5], nl); ([4;1;0;5], nl)])
  (look QBare [([1;4;0], QSq); ([4;0;0;0;0], QSq)])
  (look [] [])
  (look false []).

Example eco_wf_layout : wf_layout eco_lay eco_ag.
Proof.
  unfold wf_layout. split; [|split; [|split; [|split]]].
  - cbv [eco_lay l_gap look path_eqb]. cbn. lt.
  - cbn [eco_ag ag_decls wf_decls]. wf_tac.
  - cbv [eco_lay l_gap look path_eqb]. cbn. lt.
  - cbn [eco_ag ag_rules wf_rules]. wf_tac.
  - exact I.
Qed.

(* the gap after %start really contains a newline: the generalisation of [line_gap] from
   newline-free texts to line layouts is used *)
Example eco_start_gap_has_newline : count_nl (dg (dlay_of eco_lay 1) 0) = 1.
Proof. reflexivity. Qed.

Example eco_wf_agram : wf_agram KEco eco_ag.
Proof. unfold wf_agram. repeat split; ag_tac. Qed.

Example eco_roundtrip_true :
  run_case true true true true KEco (print eco_lay eco_ag)
  = Done (TResult (ast_of true true eco_lay eco_ag) [] (warnings_of true true true eco_lay eco_ag)).
Proof. vm_compute. reflexivity. Qed.
Example eco_roundtrip_false :
  run_case true false true true KEco (print eco_lay eco_ag)
  = Done (TResult (ast_of false true eco_lay eco_ag) [] (warnings_of false true true eco_lay eco_ag)).
Proof. vm_compute. reflexivity. Qed.

(* ======================================================================== *)
(*  The hypotheses are satisfiable in every dialect                           *)
(* ======================================================================== *)
Lemma roundtrip_hyps_satisfiable : roundtrip_hyps_satisfiable_stmt.
Proof.
  intros [| |].
  - exists ex_lay, ex_ag. split; [exact ex_wf_agram | exact ex_wf_layout].
  - exists gx_lay, gx_ag. split; [exact gx_wf_agram | exact gx_wf_layout].
  - exists eco_lay, eco_ag. split; [exact eco_wf_agram | exact eco_wf_layout].
Qed.

(* ======================================================================== *)
(*  What the side conditions of [wf_agram] exclude                            *)
(* ======================================================================== *)
(* [wf_agram] without the conjunct "blocks of one rule agree on the type" *)
Definition wf_agram_but_types (k : ykind) (ag : agram) : Prop :=
  count_decl (fun d => match d with DStart _ => true | _ => false end) ag <= 1 /\
  count_decl (fun d => match d with DExpect _ => true | _ => false end) ag <= 1 /\
  count_decl (fun d => match d with DExpectRR _ => true | _ => false end) ag <= 1 /\
  NoDup (flat_map snd (ag_precs ag)) /\
  NoDup (map fst (ag_epp ag)) /\
  NoDup (ag_avoid ag) /\
  ag_rules ag <> [] /\
  (forall n, ag_start ag = Some n -> In n (map ar_name (ag_rules ag))) /\
  (forall n, In n (rule_refs ag) -> In n (map ar_name (ag_rules ag))) /\
  (forall t, In t (prec_uses ag) -> In t (flat_map snd (ag_precs ag))) /\
  (forall t, In t (map fst (ag_epp ag)) -> In t (known_toks ag)) /\
  Forall (decl_kind_ok k) (ag_decls ag) /\
  Forall (rule_kind_ok k) (ag_rules ag) /\
  count_decl (fun d => match d with DActiontype _ => true | _ => false end) ag <= 1 /\
  count_decl (fun d => match d with DParseParam _ _ => true | _ => false end) ag <= 1 /\
  count_decl (fun d => match d with DParseGenerics _ => true | _ => false end) ag <= 1 /\
  NoDup (ag_implicit ag) /\
  (forall n, In (ARule n) (ag_expect_unused ag) -> In n (map ar_name (ag_rules ag))) /\
  (forall n, In (ATok n) (ag_expect_unused ag) -> In n (known_toks ag)).

(* [wf_agram] without the conjunct "at most one %parse-param" *)
Definition wf_agram_but_pp (k : ykind) (ag : agram) : Prop :=
  count_decl (fun d => match d with DStart _ => true | _ => false end) ag <= 1 /\
  count_decl (fun d => match d with DExpect _ => true | _ => false end) ag <= 1 /\
  count_decl (fun d => match d with DExpectRR _ => true | _ => false end) ag <= 1 /\
  NoDup (flat_map snd (ag_precs ag)) /\
  NoDup (map fst (ag_epp ag)) /\
  NoDup (ag_avoid ag) /\
  ag_rules ag <> [] /\
  (forall n, ag_start ag = Some n -> In n (map ar_name (ag_rules ag))) /\
  (forall n, In n (rule_refs ag) -> In n (map ar_name (ag_rules ag))) /\
  (forall t, In t (prec_uses ag) -> In t (flat_map snd (ag_precs ag))) /\
  (forall t, In t (map fst (ag_epp ag)) -> In t (known_toks ag)) /\
  Forall (decl_kind_ok k) (ag_decls ag) /\
  Forall (rule_kind_ok k) (ag_rules ag) /\
  (forall r1 r2, In r1 (ag_rules ag) -> In r2 (ag_rules ag) -> ar_name r1 = ar_name r2 -> ar_type r1 = ar_type r2) /\
  count_decl (fun d => match d with DActiontype _ => true | _ => false end) ag <= 1 /\
  count_decl (fun d => match d with DParseGenerics _ => true | _ => false end) ag <= 1 /\
  NoDup (ag_implicit ag) /\
  (forall n, In (ARule n) (ag_expect_unused ag) -> In n (map ar_name (ag_rules ag))) /\
  (forall n, In (ATok n) (ag_expect_unused ag) -> In n (known_toks ag)).

(* the two weakened predicates are [wf_agram] minus one conjunct *)
Lemma wf_agram_split : forall k ag,
  wf_agram k ag <->
  wf_agram_but_types k ag /\
  (forall r1 r2, In r1 (ag_rules ag) -> In r2 (ag_rules ag) -> ar_name r1 = ar_name r2 -> ar_type r1 = ar_type r2).
Proof. intros k ag. unfold wf_agram, wf_agram_but_types. tauto. Qed.
Lemma wf_agram_split_pp : forall k ag,
  wf_agram k ag <->
  wf_agram_but_pp k ag /\
  count_decl (fun d => match d with DParseParam _ _ => true | _ => false end) ag <= 1.
Proof. intros k ag. unfold wf_agram, wf_agram_but_pp. tauto. Qed.

(* ---- two blocks of one rule with different action types (Grmtools) ------------- *)
(*     %% A -> u32: 'a' ; A -> u64: 'b' ;
   parses WITHOUT error or warning to a grammar whose rule A has action type u32: the
   type of the second block is silently dropped. *)
Definition tc_ag : agram := mkAG []
  [mkARule (s "A") (Some (s "u32")) [mkAProd [ATok (s "a")] None None];
   mkARule (s "A") (Some (s "u64")) [mkAProd [ATok (s "b")] None None]]
  None.
Definition tc_lay : layout := mkLay (fun _ => s " ") (fun _ => QSq) (fun _ => []) (fun _ => false).

Example tc_source : print tc_lay tc_ag = s " %% A -> u32: 'a' ; A -> u64: 'b' ; ".
Proof. vm_compute. reflexivity. Qed.

Definition rule_type_conflict_refuted_stmt : Prop :=
  exists l ag, wf_layout l ag /\ wf_agram_but_types KGrmtools ag /\
    forall fa fp, exists r1 r2 A,
      In r1 (ag_rules ag) /\ In r2 (ag_rules ag) /\ ar_name r1 = ar_name r2 /\ ar_type r1 <> ar_type r2 /\
      (* accepted: no error; the warnings are those of the AST: none *)
      run_case true fa fp true KGrmtools (print l ag) = Done (TResult A [] (warnings true A)) /\
      warnings true A = Done [] /\
      (* the rule has the first block's type, not the second's *)
      (exists r, In r (a_rules A) /\ r_name r = ar_name r2 /\ r_actiont r = ar_type r1 /\ r_actiont r <> ar_type r2).

Lemma rule_type_conflict_refuted : rule_type_conflict_refuted_stmt.
Proof.
  exists tc_lay, tc_ag. split; [|split].
  - unfold wf_layout. split; [|split; [|split; [|split]]].
    + cbn. lt.
    + exact I.
    + cbn. lt.
    + cbn [tc_ag ag_rules wf_rules]. wf_tac.
    + exact I.
  - unfold wf_agram_but_types. repeat split; ag_tac.
  - intros fa fp.
    exists (mkARule (s "A") (Some (s "u32")) [mkAProd [ATok (s "a")] None None]),
           (mkARule (s "A") (Some (s "u64")) [mkAProd [ATok (s "b")] None None]),
           (ast_of fa fp tc_lay tc_ag).
    split; [left; reflexivity|]. split; [right; left; reflexivity|].
    split; [reflexivity|]. split; [vm_compute; discriminate|].
    split; [destruct fa, fp; vm_compute; reflexivity|]. split; [destruct fa, fp; vm_compute; reflexivity|].
    exists (mkRule (s "A") (4, 5) [0; 1] (Some (s "u32"))).
    split; [destruct fa, fp; vm_compute; left; reflexivity|].
    split; [reflexivity|]. split; [reflexivity|]. vm_compute. discriminate.
Qed.

(* ---- %parse-param given twice (every dialect) ------------------------------------ *)
(*     %parse-param a : u32
       %parse-param b : u64
       %% A : 'x' ;            (Grmtools:  A -> u8: 'x' ;)
   no error, no warning; the AST keeps only the last one. *)
Definition pp_ag (k : ykind) : agram := mkAG
  [DParseParam (s "a") (s "u32"); DParseParam (s "b") (s "u64")]
  [mkARule (s "A") (match k with KGrmtools => Some (s "u8") | _ => None end) [mkAProd [ATok (s "x")] None None]]
  None.
Definition pp_lay : layout := mkLay
  (look (s " ") [([1;0;2], nl); ([1;1;2], nl)]) (fun _ => QSq) (look [] [([1;0;0], s " "); ([1;1;0], s " ")]) (fun _ => false).

Example pp_source :
  print pp_lay (pp_ag KOriginal) = s " %parse-param a : u32" ++ nl ++ s "%parse-param b : u64" ++ nl ++ s "%% A : 'x' ; ".
Proof. vm_compute. reflexivity. Qed.

Definition parse_param_twice_refuted_stmt : Prop :=
  forall k, exists l ag, wf_layout l ag /\ wf_agram_but_pp k ag /\
    forall fa fp, exists n1 t1 n2 t2 A,
      ag_decls ag = [DParseParam n1 t1; DParseParam n2 t2] /\ (n1, t1) <> (n2, t2) /\
      run_case true fa fp true k (print l ag) = Done (TResult A [] (warnings true A)) /\
      warnings true A = Done [] /\
      a_parse_param A = Some (n2, t2).

Lemma parse_param_twice_refuted : parse_param_twice_refuted_stmt.
Proof.
  intros k. exists pp_lay, (pp_ag k). split; [|split].
  - unfold wf_layout. split; [|split; [|split; [|split]]].
    + cbn. lt.
    + cbn [pp_ag ag_decls wf_decls]. wf_tac.
    + cbn. lt.
    + destruct k; cbn [pp_ag ag_rules wf_rules]; wf_tac.
    + exact I.
  - unfold wf_agram_but_pp. destruct k; repeat split; ag_tac.
  - intros fa fp. exists (s "a"), (s "u32"), (s "b"), (s "u64"), (ast_of fa fp pp_lay (pp_ag k)).
    split; [reflexivity|]. split; [vm_compute; discriminate|].
    split; [destruct k, fa, fp; vm_compute; reflexivity|].
    split; [destruct k, fa, fp; vm_compute; reflexivity|].
    destruct k, fa, fp; vm_compute; reflexivity.
Qed.

(* ======================================================================== *)
(*  Comments after a value read by parse_to_eol / parse_to_single_colon       *)
(* ======================================================================== *)
(* Between such a value and the end of its line (the colon) a comment is not layout: it
   becomes part of the value.  This is why the printer has no gap there ([wf_eol_text]
   values are followed by their newline, action types by blanks only): the AST really
   contains the comment text. *)
Definition vc_src1 : str := s "%actiontype u64 // the type" ++ nl ++ s "%%" ++ nl ++ s "A: ;".
Definition vc_src2 : str := s "%parse-param p : u64 /* why */" ++ nl ++ s "%%" ++ nl ++ s "A: ;".
Definition vc_src3 : str := s "%%" ++ nl ++ s "A -> u64 /* why */ : ;".

Definition value_comment_refuted_stmt : Prop :=
  (exists A, run_case true false true true KOriginal vc_src1 = Done (TResult A [] (Done [])) /\
             map r_actiont (a_rules A) = [Some (s "u64 // the type")]) /\
  (exists A, run_case true false true true KOriginal vc_src2 = Done (TResult A [] (Done [])) /\
             a_parse_param A = Some (s "p", s "u64 /* why */")) /\
  (exists A, run_case true false true true KGrmtools vc_src3 = Done (TResult A [] (Done [])) /\
             map r_actiont (a_rules A) = [Some (s "u64 /* why */")]).

Lemma value_comment_refuted : value_comment_refuted_stmt.
Proof.
  split; [|split]; eexists; (split; [vm_compute; reflexivity | vm_compute; reflexivity]).
Qed.
