(* C10 half (b), round trip — the hypotheses of the round-trip theorems are
   satisfiable: a grammar with every construct (several %token / precedence lines,
   %start, %epp with an escaped quote, %avoid_insert, %expect, %expect-rr, a rule
   written in two blocks, empty productions with and without %empty, %prec,
   actions with nested braces / empty text / blanks inside the braces) under a
   layout with comments, newlines, all three spellings and empty gaps. *)
From Coq Require Import List Arith NArith ZArith Bool Lia Strings.String Strings.Ascii.
From GV Require Import Common.Outcome C10.YpModel C10.YpSpec C10.YpProofs C10.YpPrint C10.YpRoundSpec C10.YpRoundBase.
Import ListNotations.
Local Open Scope nat_scope.
Lemma lt_app : forall a b, layout_text a -> layout_text b -> layout_text (a ++ b).
Proof.
  intros a b Ha Hb. induction Ha as [|it rest Hit Hrest IH]; [exact Hb|].
  rewrite <- app_assoc. constructor; assumption.
Qed.
Lemma lt_blanks : forall l, forallb is_blank l = true -> layout_text l.
Proof.
  induction l as [|c l IH]; intros H; [constructor|]. simpl in H. apply andb_true_iff in H. destruct H as [Hc Hl].
  change (c :: l) with ([c] ++ l). constructor; [constructor; exact Hc | apply IH; exact Hl].
Qed.
Lemma lt_block : forall body, find_close (body ++ [c_star; c_slash]) = Some (List.length body) ->
  layout_text (c_slash :: c_star :: body ++ [c_star; c_slash]).
Proof. intros body H. rewrite <- (app_nil_r (c_slash :: c_star :: body ++ [c_star; c_slash])). constructor; [constructor; exact H | constructor]. Qed.
Lemma lt_line : forall body nl, forallb (fun c => negb (is_nl c)) body = true -> is_nl nl = true ->
  layout_text (c_slash :: c_slash :: body ++ [nl]).
Proof. intros body nl H1 H2. rewrite <- (app_nil_r (c_slash :: c_slash :: body ++ [nl])). constructor; [constructor; assumption | constructor]. Qed.

Definition s (x : string) : str := lit x.
Definition path_eqb (a b : list nat) : bool := if list_eq_dec Nat.eq_dec a b then true else false.
Fixpoint look {A} (d : A) (l : list (list nat * A)) (p : list nat) : A :=
  match l with [] => d | (k, v) :: l' => if path_eqb k p then v else look d l' p end.

Definition nl : str := [c_nl].
Definition ex_ag : agram := mkAG
  [DToken [s "x"; s "y"]; DStart (s "A"); DPrec ALeft [s "+"; s "x"]; DPrec ARight [s "-"];
   DEpp (s "x") (s "it's"); DAvoid [s "y"; s "q"]; DExpect 7%N; DExpectRR 0%N]
  [mkARule (s "A") [mkAProd [ARule (s "A"); ATok (s "+"); ATok (s "x")] None (Some (s "act {}"));
                    mkAProd [ARule (s "B")] (Some (s "-")) None;
                    mkAProd [] None None];
   mkARule (s "B") [mkAProd [] None (Some (s "")); mkAProd [ATok (s "y"); ATok (s "x")] (Some (s "+")) (Some (s "z"))];
   mkARule (s "A") [mkAProd [ATok (s "q")] None None]].

Definition ex_lay : layout := mkLay
  (look (s " ") [([0], s "/* c */" ++ nl); ([1;0;2], nl); ([1;2;2], s " // c" ++ nl); ([1;3;1], nl); ([1;5;2], nl ++ s "   ");
                 ([4;0;0;0;1], []); ([4;0;0;0;2], []);([4;0;0;3], []); ([4;1;0;4], s "/**/"); ([2], nl)])
  (look QBare [([1;2;0], QSq); ([1;3;0], QDq); ([1;4;1], QSq); ([1;5;1], QDq); ([4;0;0;0;1], QSq); ([4;0;1;1], QSq); ([4;1;1;1], QDq); ([4;2;0;0;0], QDq)])
  (look [] [([1;4;0], s "it\'s"); ([1;6;0], s "007"); ([1;7;0], s "0"); ([4;0;0;6], s "  "); ([4;0;0;7], nl); ([4;1;0;6], s " "); ([4;1;0;7], s " ")])
  (look false [([4;1;0], true); ([4;0;2], true)]).

Ltac lt :=
  first [ apply lt_blanks; reflexivity
        | apply (lt_block (s " c ")); reflexivity
        | apply (lt_block []); reflexivity
        | apply (lt_app (s " ") (c_slash :: c_slash :: s " c" ++ [c_nl])); [apply lt_blanks; reflexivity | apply lt_line; reflexivity]
        | apply (lt_app (c_slash :: c_star :: s " c " ++ [c_star; c_slash]) nl); [apply (lt_block (s " c ")); reflexivity | apply lt_blanks; reflexivity] ].

Example ex_wf_layout : wf_layout ex_lay ex_ag.
Proof.
  unfold wf_layout. split; [|split; [|split]].
  - cbv [ex_lay l_gap look path_eqb]. cbn. lt.
  - cbn [ex_ag ag_decls wf_decls]. repeat split; try (cbn; lt); try reflexivity; try (cbn; discriminate); try (cbn; lia).
    all: try (cbn; intros; discriminate).
    all: try (cbn; intros; congruence).
    all: try (unfold nl1; vm_compute; lia).
    vm_compute.
    repeat (first [apply Esc_nil | apply Esc_quote; [left; reflexivity|] | apply Esc_plain; [discriminate | discriminate | reflexivity |]]).
  - cbv [ex_lay l_gap look path_eqb]. cbn. lt.
  - cbn [ex_ag ag_rules wf_rules]. repeat split; try (cbn; lt); try reflexivity; try (cbn; discriminate); try (cbn; lia).
    all: try (cbn; intros; discriminate).
    all: try (cbn; intros; congruence).
Qed.

Example ex_wf_agram : wf_agram ex_ag.
Proof.
  unfold wf_agram. repeat split.
  - vm_compute. lia.
  - vm_compute. lia.
  - vm_compute. lia.
  - vm_compute. repeat constructor; cbn; intuition discriminate.
  - vm_compute. repeat constructor; cbn; intuition discriminate.
  - vm_compute. repeat constructor; cbn; intuition discriminate.
  - discriminate.
  - vm_compute. intros n H. injection H as <-. tauto.
  - vm_compute. intros n H. tauto.
  - vm_compute. intros n H. tauto.
  - vm_compute. intros n H. tauto.
Qed.

Lemma roundtrip_hyps_satisfiable : roundtrip_hyps_satisfiable_stmt.
Proof. exists ex_lay, ex_ag. split; [exact ex_wf_agram | exact ex_wf_layout]. Qed.

(* the theorem's conclusion on this instance, by computation (both action-span variants) *)
Example ex_roundtrip_true :
  run_case true true KOriginal (print ex_lay ex_ag)
  = Done (TResult (ast_of true ex_lay ex_ag) [] (warnings_of true ex_lay ex_ag)).
Proof. vm_compute. reflexivity. Qed.
Example ex_roundtrip_false :
  run_case true false KOriginal (print ex_lay ex_ag)
  = Done (TResult (ast_of false ex_lay ex_ag) [] (warnings_of false ex_lay ex_ag)).
Proof. vm_compute. reflexivity. Qed.
