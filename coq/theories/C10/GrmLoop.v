(* C10 (a) — the main loop of the constructor on a valid AST: what each phase
   leaves in the seven vectors.  Used by GrmProofs.v. *)
From Coq Require Import List Arith NArith Bool Lia.
From GV Require Import Common.Outcome C10.GrmModel C10.GrmSpec C10.GrmLemmas.
Import ListNotations.

(* ---- more list facts ----------------------------------------------------------- *)

Lemma upd_same {A} (l : list A) i x : nth_error l i = Some x -> upd l i x = l.
Proof.
  revert i. induction l as [|y l IH]; intros [|i] H; simpl in *; try discriminate.
  - inversion H; reflexivity.
  - rewrite IH by assumption. reflexivity.
Qed.

Lemma nth_error_upd_same {A} (l : list A) i v : i < length l -> nth_error (upd l i v) i = Some v.
Proof.
  revert i. induction l as [|y l IH]; intros [|i] H; simpl in *; try lia; [reflexivity|].
  apply IH. lia.
Qed.

Lemma upd_upd {A} (l : list A) i v v' : upd (upd l i v) i v' = upd l i v'.
Proof.
  revert i. induction l as [|y l IH]; intros [|i]; simpl; try reflexivity.
  rewrite IH. reflexivity.
Qed.

Lemma nodup_app_r {A} (l1 l2 : list A) : NoDup (l1 ++ l2) -> NoDup l2.
Proof.
  induction l1 as [|x l1 IH]; simpl; intros H; [assumption|].
  inversion H; subst. auto.
Qed.

Lemma nodup_app_disj {A} (l1 l2 : list A) x : NoDup (l1 ++ l2) -> In x l1 -> In x l2 -> False.
Proof.
  induction l1 as [|y l1 IH]; simpl; intros H H1 H2; [destruct H1|].
  inversion H as [|z l Hni Hnd]; subst. destruct H1 as [->|H1].
  - apply Hni. apply in_or_app. right. assumption.
  - apply IH; assumption.
Qed.

Lemma set_nth_app_mid {A} (X Y : list A) d v i : i = length X ->
  set_nth (X ++ d :: Y) i v = Done (X ++ v :: Y).
Proof.
  intros ->. unfold set_nth. rewrite upd_app_mid, app_length. simpl.
  destruct (Nat.ltb_spec (length X) (length X + S (length Y))) as [_|H]; [reflexivity|lia].
Qed.

Lemma nth_checked_app_mid {A} (X Y : list A) d i : i = length X ->
  nth_checked (X ++ d :: Y) i = Done d.
Proof. intros ->. unfold nth_checked. rewrite nth_error_app_mid. reflexivity. Qed.

Lemma first_token_app l1 l2 :
  first_token (l1 ++ l2) = match first_token l1 with Some n => Some n | None => first_token l2 end.
Proof.
  induction l1 as [|s l1 IH]; simpl; [reflexivity|]. destruct s as [n|n]; [exact IH|reflexivity].
Qed.

Lemma first_token_rev l : first_token (rev l) = last_token l.
Proof.
  induction l as [|s l IH]; simpl; [reflexivity|].
  rewrite first_token_app, IH. destruct (last_token l); [reflexivity|].
  destruct s; reflexivity.
Qed.

(* ---- the added names are pairwise distinct ---------------------------------------- *)

Lemma npow_single_all c k : Forall (eq c) (npow [c] k).
Proof.
  induction k as [|k IH]; simpl; [constructor|].
  apply Forall_app. split; [assumption|]. constructor; [reflexivity|constructor].
Qed.

Lemma npow_S_nonempty base k : base <> [] -> npow base (S k) <> [].
Proof.
  intros Hb H. apply (f_equal (@length N)) in H. rewrite length_npow in H.
  destruct base; [congruence|]. simpl in H. lia.
Qed.

Lemma added_names_distinct names sn n1 n2 :
  is_fresh START_RULE names sn -> is_fresh IMPLICIT_RULE names n1 ->
  is_fresh IMPLICIT_START_RULE names n2 -> NoDup [sn; n1; n2].
Proof.
  intros [k0 [H0 _]] [k1 [H1 _]] [k2 [H2 _]].
  assert (A0 : Forall (eq 94%N) sn) by (rewrite H0; apply npow_single_all).
  assert (A1 : Forall (eq 126%N) n1) by (rewrite H1; apply npow_single_all).
  assert (B0 : sn <> []) by (rewrite H0; apply npow_S_nonempty; discriminate).
  assert (C1 : In 94%N n2).
  { rewrite H2. change (npow IMPLICIT_START_RULE (S k2)) with (npow IMPLICIT_START_RULE k2 ++ [94%N; 126%N]).
    apply in_or_app. right. left. reflexivity. }
  assert (C2 : In 126%N n2).
  { rewrite H2. change (npow IMPLICIT_START_RULE (S k2)) with (npow IMPLICIT_START_RULE k2 ++ [94%N; 126%N]).
    apply in_or_app. right. right. left. reflexivity. }
  clear H0 H1 H2.
  rewrite Forall_forall in A0, A1.
  constructor.
  - intros [He|[He|[]]].
    + subst n1. destruct sn as [|c sn']; [congruence|].
      assert (E1 : 94%N = c) by (apply A0; left; reflexivity).
      assert (E2 : 126%N = c) by (apply A1; left; reflexivity). congruence.
    + subst n2. specialize (A0 _ C2). discriminate.
  - constructor.
    + intros [He|[]]. subst n2. specialize (A1 _ C1). discriminate.
    + constructor; [intros []|constructor].
Qed.

(* ---- the loop over the source rules -------------------------------------------- *)

Definition dummy_prod : aprod := mkAProd [] None None (0, 0).

Section SourceRules.
  Variable a : ast.
  Hypothesis Hwf : wf_ast a.
  Variable E : names_env.
  Variable added : list name.
  Variable start_name : name.
  Hypothesis HE : map fst (e_rule_names E) = added ++ src_names a.
  Hypothesis Hadd : forall x, In x added -> ~ In x (src_names a).
  Hypothesis Hoff : length added = off a.
  Hypothesis Hsr : In (e_start_rule E) added.
  Hypothesis Hisr : forall x, e_implicit_start_rule E = Some x -> In x added.
  Hypothesis Hir : forall x, e_implicit_rule E = Some x -> In x added.
  Hypothesis Hir1 : match eco_implicit a with
                    | Some _ => exists x, e_implicit_rule E = Some x /\ rule_map E x = Done 1
                    | None => e_implicit_rule E = None
                    end.

  Let n := length (a_prods a).
  Let nthp (i : nat) : aprod := nth i (a_prods a) dummy_prod.

  Lemma rule_map_src x : In x (src_names a) -> rule_map E x = Done (ridx_of a x).
  Proof.
    intros Hi. unfold rule_map. rewrite HE.
    rewrite index_of_app_r by (intros Hx; exact (Hadd x Hx Hi)).
    destruct (idx_In x (src_names a) Hi) as [Hidx _]. rewrite Hidx. simpl.
    unfold ridx_of. rewrite Hoff. reflexivity.
  Qed.

  Lemma token_map_ok x : In x (a_tokens a) -> token_map a x = Done (tidx_of a x).
  Proof.
    intros Hi. unfold token_map. destruct (idx_In x (a_tokens a) Hi) as [Hidx _].
    rewrite Hidx. reflexivity.
  Qed.

  Lemma conv_sym_ok s : sym_resolves a s -> conv_sym a E s = Done (x_sym a s).
  Proof.
    destruct s as [x|x]; simpl; intros Hs.
    - rewrite (rule_map_src x Hs). reflexivity.
    - rewrite (token_map_ok x Hs). simpl. destruct (eco_implicit a) as [l|].
      + destruct Hir1 as [y [Hy1 Hy2]]. rewrite Hy1, Hy2. reflexivity.
      + rewrite Hir1. reflexivity.
  Qed.

  Lemma conv_syms_ok l : (forall s, In s l -> sym_resolves a s) ->
    conv_syms a E l = Done (flat_map (x_sym a) l).
  Proof.
    induction l as [|s l IH]; intros H; simpl; [reflexivity|].
    rewrite conv_sym_ok by (apply H; left; reflexivity). simpl.
    rewrite IH by (intros s' Hs'; apply H; right; assumption). reflexivity.
  Qed.

  Lemma prod_prec_ok p : In p (a_prods a) -> prod_prec_of a p = Done (x_prec a p).
  Proof.
    intros Hp. unfold prod_prec_of, x_prec. destruct (ap_prec p) as [x|] eqn:Ex.
    - destruct (wf_prec a Hwf p x Hp Ex) as [pr Hpr]. rewrite Hpr. reflexivity.
    - rewrite first_token_rev. destruct (last_token (ap_syms p)); reflexivity.
  Qed.

  (* a vector indexed by source production: [w i] where production i has been
     written, the initial [d] elsewhere *)
  Definition G {B} (w : nat -> B) (d : B) (done : list nat) : list B :=
    map (fun i => if memn i done then w i else d) (seq 0 n).

  Lemma length_G {B} (w : nat -> B) d done : length (G w d done) = n.
  Proof. unfold G. rewrite map_length, seq_length. reflexivity. Qed.

  Lemma G_set {B} (w : nat -> B) d done p t : p < n ->
    set_nth (G w d done ++ t) p (w p) = Done (G w d (p :: done) ++ t).
  Proof.
    intros Hp. unfold set_nth. rewrite app_length, length_G.
    destruct (Nat.ltb_spec p (n + length t)) as [_|Hge]; [|lia].
    f_equal. unfold G. rewrite upd_mapseq by assumption. f_equal.
    apply map_ext. intros i. simpl. rewrite (Nat.eqb_sym i p).
    destruct (Nat.eqb_spec p i) as [->|_]; reflexivity.
  Qed.

  Lemma G_skip {B} (w : nat -> B) d done p : w p = d -> G w d (p :: done) = G w d done.
  Proof.
    intros Hw. unfold G. apply map_ext. intros i. simpl.
    destruct (Nat.eqb_spec i p) as [->|_]; simpl; [|reflexivity].
    destruct (memn p done); congruence.
  Qed.

  Lemma G_nil {B} (w : nat -> B) d : G w d [] = repeat d n.
  Proof. unfold G. simpl. apply map_const_seq. Qed.

  Lemma G_full {B} (w : nat -> B) d done : (forall i, i < n -> In i done) ->
    G w d done = map w (seq 0 n).
  Proof.
    intros H. unfold G. apply map_ext_in. intros i Hi. apply in_seq in Hi.
    assert (Hm : memn i done = true) by (apply memn_In; apply H; destruct Hi as [_ Hi]; exact Hi). rewrite Hm. reflexivity.
  Qed.

  Definition w1 (i : nat) : option (list gsym) := Some (x_prod a (nthp i)).
  Definition w2 (i : nat) : option (option prec) := Some (x_prec a (nthp i)).
  Definition w3 (i : nat) : option nat := Some (off a + owner_in (a_rules a) i).
  Definition w4 (i : nat) : option text := option_map fst (ap_action (nthp i)).
  Definition w5 (i : nat) : option span := option_map snd (ap_action (nthp i)).

  (* the state: source part determined by [done], tails = what was pushed *)
  Definition St (done : list nat) t1 t2 t3 t4 rp ats : bstate :=
    mkSt (G w1 None done ++ t1) (G w2 None done ++ t2) (G w3 None done ++ t3)
         (G w4 None done ++ t4) (G w5 None done) rp ats.

  Lemma write_prod_ok ridx done t1 t2 t3 t4 rp ats p cur :
    p < n -> off a + owner_in (a_rules a) p = ridx -> nth_error rp ridx = Some cur ->
    write_prod a E ridx (St done t1 t2 t3 t4 rp ats) p =
    Done (St (p :: done) t1 t2 t3 t4 (upd rp ridx (cur ++ [p])) ats).
  Proof.
    intros Hp Hown Hcur. unfold write_prod.
    rewrite (nth_checked_nth (a_prods a) p dummy_prod Hp). simpl obind.
    assert (Hin : In (nth p (a_prods a) dummy_prod) (a_prods a)) by (apply nth_In; exact Hp).
    rewrite conv_syms_ok by (intros s Hs; eapply wf_syms; eauto). simpl obind.
    rewrite (prod_prec_ok _ Hin). simpl obind.
    unfold push_at. simpl b_rprods. rewrite Hcur. simpl obind.
    unfold St at 1. simpl b_prods. simpl b_precs. simpl b_prules. simpl b_actions. simpl b_aspans.
    simpl b_atypes.
    change (Some (flat_map (x_sym a) (ap_syms (nth p (a_prods a) dummy_prod)))) with (w1 p).
    change (Some (x_prec a (nth p (a_prods a) dummy_prod))) with (w2 p).
    replace (Some ridx) with (w3 p) by (unfold w3; rewrite Hown; reflexivity).
    rewrite !G_set by assumption. simpl obind.
    destruct (ap_action (nth p (a_prods a) dummy_prod)) as [[t sp]|] eqn:Eact.
    - replace (Some t) with (w4 p) by (unfold w4, nthp; rewrite Eact; reflexivity).
      replace (Some sp) with (w5 p) by (unfold w5, nthp; rewrite Eact; reflexivity).
      rewrite G_set by assumption. simpl obind.
      rewrite <- (app_nil_r (G w5 None done)).
      rewrite G_set by assumption. simpl obind. rewrite app_nil_r. reflexivity.
    - unfold St.
      rewrite (G_skip w4 None done p) by (unfold w4, nthp; rewrite Eact; reflexivity).
      rewrite (G_skip w5 None done p) by (unfold w5, nthp; rewrite Eact; reflexivity).
      reflexivity.
  Qed.

  Lemma write_prods_ok ridx t1 t2 t3 t4 ats : forall ps done rp cur,
    (forall p, In p ps -> p < n /\ off a + owner_in (a_rules a) p = ridx) ->
    nth_error rp ridx = Some cur ->
    ofold (write_prod a E ridx) ps (St done t1 t2 t3 t4 rp ats) =
    Done (St (rev ps ++ done) t1 t2 t3 t4 (upd rp ridx (cur ++ ps)) ats).
  Proof.
    induction ps as [|p ps IH]; intros done rp cur H Hcur.
    - simpl. rewrite app_nil_r. rewrite upd_same by assumption. reflexivity.
    - simpl ofold. destruct (H p (or_introl eq_refl)) as [Hp Hown].
      rewrite (write_prod_ok ridx done t1 t2 t3 t4 rp ats p cur Hp Hown Hcur). simpl obind.
      rewrite (IH (p :: done) (upd rp ridx (cur ++ [p])) (cur ++ [p])).
      + rewrite upd_upd. rewrite <- app_assoc. simpl. rewrite <- app_assoc. reflexivity.
      + intros q Hq. apply H. right. assumption.
      + apply nth_error_upd_same. apply nth_error_Some. congruence.
  Qed.

  Lemma idx_mid (rs1 rs2 : list arule) r :
    NoDup (map ar_name (rs1 ++ r :: rs2)) ->
    idx (ar_name r) (map ar_name (rs1 ++ r :: rs2)) = length rs1.
  Proof.
    intros Hnd. rewrite map_app in *. simpl in *.
    apply NoDup_remove_2 in Hnd.
    unfold idx. rewrite index_of_nodup_nth.
    - rewrite map_length. reflexivity.
    - intros Hi. apply Hnd. apply in_or_app. left. assumption.
  Qed.

  Lemma find_mid (rs1 rs2 : list arule) r :
    NoDup (map ar_name (rs1 ++ r :: rs2)) ->
    find (fun r' => name_eqb (ar_name r) (ar_name r')) (rs1 ++ r :: rs2) = Some r.
  Proof.
    induction rs1 as [|r1 rs1 IH]; intros Hnd; simpl.
    - rewrite name_eqb_refl. reflexivity.
    - simpl in Hnd. inversion Hnd as [|x l Hni Hnd']; subst.
      rewrite name_eqb_neq.
      + apply IH. assumption.
      + intros He. apply Hni. rewrite <- He. rewrite map_app. apply in_or_app. right. left. reflexivity.
  Qed.

  Lemma owner_mid (rs1 rs2 : list arule) r p :
    NoDup (concat (map ar_pidxs (rs1 ++ r :: rs2))) -> In p (ar_pidxs r) ->
    owner_in (rs1 ++ r :: rs2) p = length rs1.
  Proof.
    induction rs1 as [|r1 rs1 IH]; intros Hnd Hp; simpl.
    - assert (Hm : existsb (Nat.eqb p) (ar_pidxs r) = true) by (apply memn_In; assumption).
      rewrite Hm. reflexivity.
    - simpl in Hnd.
      assert (Hm : existsb (Nat.eqb p) (ar_pidxs r1) = false).
      { destruct (existsb (Nat.eqb p) (ar_pidxs r1)) eqn:Em; [|reflexivity]. exfalso.
        apply (proj1 (memn_In p (ar_pidxs r1))) in Em.
        apply (nodup_app_disj _ _ p Hnd Em).
        rewrite map_app, concat_app. apply in_or_app. right.
        simpl. apply in_or_app. left. assumption. }
      rewrite Hm. f_equal. apply IH; [|assumption]. apply nodup_app_r in Hnd. assumption.
  Qed.

  Lemma src_rules_ok A t1 t2 t3 t4 : length A = off a -> forall rs2 rs1,
    a_rules a = rs1 ++ rs2 ->
    ofold (step a E start_name) (map ar_name rs2)
          (St (rev (concat (map ar_pidxs rs1))) t1 t2 t3 t4
              ((A ++ map ar_pidxs rs1) ++ repeat [] (length rs2))
              ((repeat None (off a) ++ map ar_actiont rs1) ++ repeat None (length rs2))) =
    Done (St (rev (all_pidxs a)) t1 t2 t3 t4
             (A ++ map ar_pidxs (a_rules a))
             (repeat None (off a) ++ map ar_actiont (a_rules a))).
  Proof.
    intros HA. induction rs2 as [|r rs2 IH]; intros rs1 Hrs.
    - simpl. rewrite app_nil_r in Hrs. rewrite <- Hrs. rewrite !app_nil_r. unfold all_pidxs.
      reflexivity.
    - cbn [map ofold].
      assert (Hnd : NoDup (map ar_name (rs1 ++ r :: rs2))) by (rewrite <- Hrs; apply (wf_rules_nodup a Hwf)).
      assert (Hin : In (ar_name r) (src_names a)).
      { unfold src_names. rewrite Hrs, map_app. apply in_or_app. right. left. reflexivity. }
      assert (Hridx : ridx_of a (ar_name r) = off a + length rs1).
      { unfold ridx_of. rewrite Hrs. rewrite idx_mid by assumption. reflexivity. }
      assert (L1 : off a + length rs1 = length (repeat (@None text) (off a) ++ map ar_actiont rs1)).
      { rewrite app_length, repeat_length, map_length. reflexivity. }
      assert (L2 : off a + length rs1 = length (A ++ map ar_pidxs rs1)).
      { rewrite app_length, map_length, HA. reflexivity. }
      assert (Hfind : find_rule a (ar_name r) = Done r).
      { unfold find_rule. rewrite Hrs, find_mid by assumption. reflexivity. }
      assert (Hn0 : name_eqb (ar_name r) (e_start_rule E) = false).
      { apply name_eqb_neq. intros He. apply (Hadd (e_start_rule E) Hsr). rewrite <- He. exact Hin. }
      assert (Hn1 : opt_name_is (e_implicit_start_rule E) (ar_name r) = false).
      { unfold opt_name_is. destruct (e_implicit_start_rule E) as [m|] eqn:Em; [|reflexivity].
        apply name_eqb_neq. intros He. apply (Hadd m (Hisr m eq_refl)). rewrite He. exact Hin. }
      assert (Hn2 : opt_name_is (e_implicit_rule E) (ar_name r) = false).
      { unfold opt_name_is. destruct (e_implicit_rule E) as [m|] eqn:Em; [|reflexivity].
        apply name_eqb_neq. intros He. apply (Hadd m (Hir m eq_refl)). rewrite He. exact Hin. }
      assert (Hstep :
        step a E start_name
          (St (rev (concat (map ar_pidxs rs1))) t1 t2 t3 t4
              ((A ++ map ar_pidxs rs1) ++ repeat [] (length (r :: rs2)))
              ((repeat None (off a) ++ map ar_actiont rs1) ++ repeat None (length (r :: rs2))))
          (ar_name r) =
        Done (St (rev (ar_pidxs r) ++ rev (concat (map ar_pidxs rs1))) t1 t2 t3 t4
                 ((A ++ map ar_pidxs rs1) ++ ar_pidxs r :: repeat [] (length rs2))
                 ((repeat None (off a) ++ map ar_actiont rs1) ++ ar_actiont r :: repeat None (length rs2)))).
      { unfold step. rewrite (rule_map_src _ Hin). simpl obind. rewrite Hridx, Hn0, Hn1, Hn2, Hfind.
        simpl obind. cbn [length repeat]. unfold St at 1. cbn [b_atypes b_rprods b_prods b_precs b_prules b_actions b_aspans].
        rewrite (set_nth_app_mid _ _ _ _ _ L1). simpl obind.
        rewrite (nth_checked_app_mid _ _ _ _ L2). simpl obind.
        fold (St (rev (concat (map ar_pidxs rs1))) t1 t2 t3 t4
               ((A ++ map ar_pidxs rs1) ++ [] :: repeat [] (length rs2))
               ((repeat None (off a) ++ map ar_actiont rs1) ++ ar_actiont r :: repeat None (length rs2))).
        rewrite (write_prods_ok (off a + length rs1) t1 t2 t3 t4 _ (ar_pidxs r) _ _ []).
        - simpl app. rewrite L2 at 1. rewrite upd_app_mid. reflexivity.
        - intros p Hp. split.
          + apply (wf_pidxs_range a Hwf). unfold all_pidxs. rewrite Hrs, map_app, concat_app.
            apply in_or_app. right. simpl. apply in_or_app. left. assumption.
          + rewrite Hrs. rewrite owner_mid; [reflexivity| |assumption].
            rewrite <- Hrs. apply (wf_pidxs_nodup a Hwf).
        - rewrite L2 at 1. apply nth_error_app_mid. }
      rewrite Hstep. simpl obind.
      specialize (IH (rs1 ++ [r])).
      rewrite !map_app, concat_app, rev_app_distr in IH. simpl in IH. rewrite app_nil_r in IH.
      replace ((A ++ map ar_pidxs rs1 ++ [ar_pidxs r]) ++ repeat [] (length rs2))
        with ((A ++ map ar_pidxs rs1) ++ ar_pidxs r :: repeat [] (length rs2)) in IH
        by (rewrite <- !app_assoc; reflexivity).
      replace ((repeat None (off a) ++ map ar_actiont rs1 ++ [ar_actiont r]) ++ repeat None (length rs2))
        with ((repeat None (off a) ++ map ar_actiont rs1) ++ ar_actiont r :: repeat None (length rs2)) in IH
        by (rewrite <- !app_assoc; reflexivity).
      apply IH. rewrite <- app_assoc. simpl. assumption.
  Qed.
End SourceRules.
