(* C10 half (b), round trip — the line-oriented directives of parse_declarations:
   %left / %right / %nonassoc ([decl_step_prec]) and %avoid_insert ([decl_step_avoid]).
   Their token lists end with the line: the newline counter is tracked exactly
   ([wf_toks nl0 nl1]: inner gaps without newline, the last gap with one). *)
From Coq Require Import List Arith NArith ZArith Bool Lia.
From GV Require Import Common.Outcome C10.YpModel C10.YpSpec C10.YpProofs C10.YpTotal C10.YpPrint C10.YpRoundSpec C10.YpRoundBase.
Import ListNotations.
Local Open Scope nat_scope.

(* ---- small facts ----------------------------------------------------------- *)
Lemma assoc_get_snoc_none : forall V (l : list (str * V)) k v n,
  assoc_get l n = None -> k <> n -> assoc_get (l ++ [(k, v)]) n = None.
Proof.
  intros V l k v n. induction l as [|[k0 v0] l IH]; intros H Hne.
  - simpl. destruct (str_eqb k n) eqn:E; [apply str_eqb_eq in E; contradiction | reflexivity].
  - simpl in *. destruct (str_eqb k0 n); [discriminate H | apply IH; assumption].
Qed.

Lemma tokens_insert_avoid : forall a n sp, a_avoid_insert (tokens_insert a n sp) = a_avoid_insert a.
Proof.
  intros a n sp. unfold tokens_insert, insert_full.
  destruct (get_index_of (a_tokens a) n); reflexivity.
Qed.

Lemma print_tok_len_pos : forall q n, is_qname q n -> 1 <= byte_len (print_tok q n).
Proof.
  intros q n H. destruct (print_tok_hd q n H) as [c [r [E _]]]. rewrite E. cbn [byte_len].
  pose proof (len_utf8_pos c). lia.
Qed.

Lemma length_le_print_toks : forall inner last g q ts k,
  wf_toks inner last g q k ts -> length ts <= byte_len (print_toks g q k ts).
Proof.
  intros inner last g q ts. induction ts as [|t ts IH]; intros k Hw; [cbn; lia|].
  destruct Hw as [Hq [_ [_ Hw]]]. cbn [print_toks length]. rewrite !byte_len_app.
  pose proof (print_tok_len_pos _ _ Hq). pose proof (IH _ Hw). lia.
Qed.

(* what follows a token of a %left / %avoid_insert line *)
Lemma toks_follow : forall inner last g q k t ts rest,
  wf_toks inner last g q k (t :: ts) ->
  tok_follow (q k) (g (S k) ++ print_toks g q (S k) ts ++ 37%N :: rest).
Proof.
  intros inner last g q k t ts rest Hw.
  destruct (q k) eqn:Eq; cbn [tok_follow]; [|exact I|exact I].
  destruct Hw as [_ [Hl [Hsep Hw]]].
  destruct ts as [|t' ts'].
  - cbn [print_toks app]. apply not_starting_gap; [exact tok_cont_first_ok | exact Hl | reflexivity].
  - remember (g (S k)) as gk eqn:Eg. destruct gk as [|c0 g'].
    + destruct Hsep as [_ Hsep]. cbn [app print_toks].
      destruct (q (S k)) eqn:Eq'.
      * exfalso. apply Hsep; [exact Eq | reflexivity | reflexivity].
      * reflexivity.
      * reflexivity.
    + apply not_starting_layout; [exact tok_cont_first_ok | exact Hl | discriminate].
Qed.

Lemma item_start_pct : forall rest, item_start (37%N :: rest).
Proof. intros rest. reflexivity. Qed.

(* ---- %left / %right / %nonassoc: the token loop ---------------------------- *)
Lemma prec_loop_toks : forall g q ts' t k src pre rest i f n a g0 e lvl kd,
  src = pre ++ print_toks g q k (t :: ts') ++ 37%N :: rest -> i = byte_len pre ->
  wf_toks nl0 nl1 g q k (t :: ts') ->
  NoDup (t :: ts') -> (forall x, In x (t :: ts') -> assoc_get (a_precs a) x = None) ->
  length (t :: ts') < f ->
  exists n',
  prec_loop true src (byte_len src) (fuel_for src) f (mkSt n a g0 e) i n lvl kd
  = Done (mkSt n' (fold_left (ins_prec lvl kd) (tok_occs g q k i (t :: ts')) a) g0 e,
          Ok (i + byte_len (print_toks g q k (t :: ts')))).
Proof.
  intros g q ts'. induction ts' as [|t' ts'' IH];
    intros t k src pre rest i f n a g0 e lvl kd Hs Hi Hw Hnd Hnone Hf.
  - (* the last token of the line *)
    destruct f as [|f]; [cbn [length] in Hf; lia|].
    pose proof (toks_follow _ _ g q k t [] rest Hw) as Hfol.
    destruct Hw as [Hq [Hl [Hlast _]]]. unfold nl1 in Hlast.
    cbn [print_toks app] in Hs, Hfol |- *. rewrite app_nil_r in *.
    destruct (print_tok_hd _ _ Hq) as [c [r [Et _]]].
    assert (Hs0 : src = pre ++ c :: (r ++ g (S k) ++ 37%N :: rest)) by (rewrite Hs, Et; lsolve).
    assert (Hs' : src = pre ++ print_tok (q k) t ++ (g (S k) ++ 37%N :: rest)) by (rewrite Hs; lsolve).
    cbn [prec_loop]. rewrite (lt_len_at _ _ _ _ _ Hs0 Hi). cbn [nn]. rewrite Nat.eqb_refl. cbn [andb negb].
    rewrite (parse_token_at _ _ _ _ _ _ Hs' Hi Hq Hfol). cbn [lift sbind ast].
    rewrite (Hnone t (or_introl eq_refl)). cbn [sbind ret]. stn.
    assert (Hs1 : src = (pre ++ print_tok (q k) t) ++ g (S k) ++ 37%N :: rest) by (rewrite Hs; lsolve).
    assert (Hi1 : i + byte_len (print_tok (q k) t) = byte_len (pre ++ print_tok (q k) t)) by (subst i; blen).
    rewrite (ws_gap _ _ _ _ _ _ _ _ _ true Hs1 Hi1 Hl (item_start_pct rest)) by (intros HH; discriminate HH).
    cbn [sbind].
    destruct f as [|f]; [cbn [length] in Hf; lia|].
    cbn [prec_loop]. cbn [nn].
    assert (Hne : (n =? n + count_nl (g (S k))) = false) by (apply Nat.eqb_neq; lia).
    rewrite Hne, andb_false_r. cbn [negb]. unfold ret.
    eexists. cbn [tok_occs fold_left]. unfold ins_prec. cbn [fst snd].
    rewrite byte_len_app, Nat.add_assoc. reflexivity.
  - (* an inner token *)
    destruct f as [|f]; [cbn [length] in Hf; lia|].
    pose proof (toks_follow _ _ g q k t (t' :: ts'') rest Hw) as Hfol.
    destruct Hw as [Hq [Hl [[Hin _] Hw']]]. unfold nl0 in Hin.
    assert (Hq' : is_qname (q (S k)) t') by exact (proj1 Hw').
    change (print_toks g q k (t :: t' :: ts''))
      with (print_tok (q k) t ++ g (S k) ++ print_toks g q (S k) (t' :: ts'')) in *.
    set (T := print_toks g q (S k) (t' :: ts'')) in *.
    destruct (print_tok_hd _ _ Hq) as [c [r [Et _]]].
    assert (Hs0 : src = pre ++ c :: (r ++ g (S k) ++ T ++ 37%N :: rest)) by (rewrite Hs, Et; lsolve).
    assert (Hs' : src = pre ++ print_tok (q k) t ++ (g (S k) ++ T ++ 37%N :: rest)) by (rewrite Hs; lsolve).
    cbn [prec_loop]. rewrite (lt_len_at _ _ _ _ _ Hs0 Hi). cbn [nn]. rewrite Nat.eqb_refl. cbn [andb negb].
    rewrite (parse_token_at _ _ _ _ _ _ Hs' Hi Hq Hfol). cbn [lift sbind ast].
    rewrite (Hnone t (or_introl eq_refl)). cbn [sbind ret]. stn.
    assert (Hs1 : src = (pre ++ print_tok (q k) t) ++ g (S k) ++ (T ++ 37%N :: rest)) by (rewrite Hs; lsolve).
    assert (Hi1 : i + byte_len (print_tok (q k) t) = byte_len (pre ++ print_tok (q k) t)) by (subst i; blen).
    assert (Hr : item_start (T ++ 37%N :: rest)).
    { subst T. cbn [print_toks]. rewrite <- !app_assoc. apply print_tok_item_start. exact Hq'. }
    rewrite (ws_gap _ _ _ _ _ _ _ _ _ true Hs1 Hi1 Hl Hr) by (intros HH; discriminate HH).
    cbn [sbind]. rewrite Hin, Nat.add_0_r.
    assert (Hs2 : src = ((pre ++ print_tok (q k) t) ++ g (S k)) ++ T ++ 37%N :: rest) by (rewrite Hs; lsolve).
    assert (Hi2 : i + byte_len (print_tok (q k) t) + byte_len (g (S k))
                  = byte_len ((pre ++ print_tok (q k) t) ++ g (S k))) by (subst i; blen).
    inversion Hnd as [|? ? Hnin Hnd']; subst.
    edestruct (IH t' (S k) _ _ rest _ f n
                 (upd_precs a (a_precs a ++ [(t, (lvl, kd, tok_span (q k) (byte_len pre) t))]))
                 g0 e lvl kd Hs2 Hi2 Hw' Hnd') as [n' H].
    + intros x Hx. cbn [a_precs upd_precs]. apply assoc_get_snoc_none.
      * apply Hnone. right. exact Hx.
      * intros E. subst x. contradiction.
    + cbn [length] in Hf |- *. lia.
    + exists n'. rewrite H. f_equal. f_equal. f_equal. subst T. rewrite !byte_len_app. lia.
Qed.

(* ---- keyword dispatch of parse_declarations' loop --------------------------- *)
Ltac lookF Hs Hi :=
  rewrite (look_at _ _ _ _ _ _ Hs Hi);
  match goal with |- context [prefix_of ?k ?r] => change (prefix_of k r) with false end;
  cbn [sbind is_some ret].
Ltac lookT Hs Hi :=
  rewrite (look_at _ _ _ _ _ _ Hs Hi); rewrite prefix_of_self; cbn [sbind is_some ret].
(* the lookaheads before %avoid_insert: %% %token [%actiontype] %start %epp %expect-rr
   %expect-unused %expect *)
Ltac cascade1 yk Hs Hi :=
  do 2 lookF Hs Hi;
  rewrite (look_actiontype_skip yk _ _ _ _ _ Hs Hi) by reflexivity; cbn [sbind is_some ret];
  do 5 lookF Hs Hi.
(* ... and those up to %left: %avoid_insert %parse-param %parse-generics [%implicit_tokens: Eco only] *)
Ltac cascade2 yk Hs Hi :=
  do 3 lookF Hs Hi;
  rewrite (look_implicit_skip yk _ _ _ _ _ Hs Hi) by reflexivity; cbn [sbind is_some ret].

Lemma decl_step_prec : forall yk k ts, decl_step_for yk (DPrec k ts).
Proof.
  intros yk kd ts src pre dl rest i f n a g e lvl Hs Hi Hw _ Hp.
  destruct Hw as [[Hl0 Hc0] [Hne Hw]]. destruct Hp as [Hnd Hnone].
  destruct ts as [|t ts']; [congruence|].
  cbn [print_decl] in Hs. cbn [is_prec].
  set (T := print_toks (dg dl) (dq dl) 0 (t :: ts')) in *.
  assert (Hq : is_qname (dq dl 0) t) by exact (proj1 Hw).
  assert (Hr : item_start (T ++ 37%N :: rest)).
  { subst T. cbn [print_toks]. rewrite <- !app_assoc. apply print_tok_item_start. exact Hq. }
  assert (Hs0 : src = pre ++ (kw_assoc kd ++ dg dl 0 ++ T ++ 37%N :: rest)) by (rewrite Hs; lsolve).
  assert (Hs1 : src = (pre ++ kw_assoc kd) ++ dg dl 0 ++ T ++ 37%N :: rest) by (rewrite Hs; lsolve).
  assert (Hi1 : i + byte_len (kw_assoc kd) = byte_len (pre ++ kw_assoc kd)) by (subst i; blen).
  assert (Hs2 : src = ((pre ++ kw_assoc kd) ++ dg dl 0) ++ T ++ 37%N :: rest) by (rewrite Hs; lsolve).
  assert (Hi2 : i + byte_len (kw_assoc kd) + byte_len (dg dl 0) = byte_len ((pre ++ kw_assoc kd) ++ dg dl 0))
    by (subst i; blen).
  assert (Hfuel : length (t :: ts') < fuel_for src).
  { pose proof (length_le_print_toks _ _ _ _ _ _ Hw) as Hlen. fold T in Hlen.
    unfold fuel_for. rewrite Hs, !byte_len_app. lia. }
  destruct (prec_loop_toks (dg dl) (dq dl) ts' t 0 src _ rest _ (fuel_for src)
              (n + count_nl (dg dl 0)) a g e lvl kd Hs2 Hi2 Hw Hnd Hnone Hfuel) as [n' Hloop].
  fold T in Hloop.
  exists n'.
  assert (Hlt : (i <? byte_len src) = true).
  { destruct kd; exact (lt_len_at _ _ _ _ _ Hs0 Hi). }
  cbn [decl_loop]. rewrite Hlt. cbn [negb].
  destruct kd; cbn [kw_assoc] in *.
  - cascade1 yk Hs0 Hi. cascade2 yk Hs0 Hi. lookT Hs0 Hi.
    unfold decl_prec.
    rewrite (ws_gap _ _ _ _ _ _ _ _ _ false Hs1 Hi1 Hl0 Hr) by (intros _; exact Hc0).
    cbn [sbind nn]. rewrite Hloop. cbn [sbind].
    unfold decl_eff. cbn [print_decl kw_assoc]. fold T.
    replace (i + byte_len (dg dl 0) + byte_len kw_left) with (i + byte_len kw_left + byte_len (dg dl 0)) by lia.
    f_equal. rewrite !byte_len_app. lia.
  - cascade1 yk Hs0 Hi. cascade2 yk Hs0 Hi. lookF Hs0 Hi. lookT Hs0 Hi.
    unfold decl_prec.
    rewrite (ws_gap _ _ _ _ _ _ _ _ _ false Hs1 Hi1 Hl0 Hr) by (intros _; exact Hc0).
    cbn [sbind nn]. rewrite Hloop. cbn [sbind].
    unfold decl_eff. cbn [print_decl kw_assoc]. fold T.
    replace (i + byte_len (dg dl 0) + byte_len kw_right) with (i + byte_len kw_right + byte_len (dg dl 0)) by lia.
    f_equal. rewrite !byte_len_app. lia.
  - cascade1 yk Hs0 Hi. cascade2 yk Hs0 Hi. do 2 lookF Hs0 Hi. lookT Hs0 Hi.
    unfold decl_prec.
    rewrite (ws_gap _ _ _ _ _ _ _ _ _ false Hs1 Hi1 Hl0 Hr) by (intros _; exact Hc0).
    cbn [sbind nn]. rewrite Hloop. cbn [sbind].
    unfold decl_eff. cbn [print_decl kw_assoc]. fold T.
    replace (i + byte_len (dg dl 0) + byte_len kw_nonassoc) with (i + byte_len kw_nonassoc + byte_len (dg dl 0)) by lia.
    f_equal. rewrite !byte_len_app. lia.
Qed.

(* ---- %avoid_insert: the token loop ------------------------------------------ *)
Lemma ins_avoid_some : forall a m t sp, a_avoid_insert a = Some m ->
  ins_avoid a (t, sp) = upd_avoid (tokens_insert a t sp) (Some (m ++ [(t, sp)])).
Proof.
  intros a m t sp Ha. unfold ins_avoid. cbn [fst snd]. rewrite tokens_insert_avoid, Ha. reflexivity.
Qed.

Lemma avoid_loop_toks : forall g q ts' t k src pre rest i f n a g0 e kwend m,
  src = pre ++ print_toks g q k (t :: ts') ++ 37%N :: rest -> i = byte_len pre ->
  (kwend <? byte_len src) = true ->
  wf_toks nl0 nl1 g q k (t :: ts') ->
  NoDup (t :: ts') -> a_avoid_insert a = Some m ->
  (forall x, In x (t :: ts') -> assoc_get m x = None) ->
  length (t :: ts') < f ->
  exists n',
  avoid_loop true src (byte_len src) (fuel_for src) f (mkSt n a g0 e) kwend i n
  = Done (mkSt n' (fold_left ins_avoid (tok_occs g q k i (t :: ts')) a) g0 e,
          Ok (i + byte_len (print_toks g q k (t :: ts')))).
Proof.
  intros g q ts'. induction ts' as [|t' ts'' IH];
    intros t k src pre rest i f n a g0 e kwend m Hs Hi Hk Hw Hnd Ha Hnone Hf.
  - (* the last token of the line *)
    destruct f as [|f]; [cbn [length] in Hf; lia|].
    pose proof (toks_follow _ _ g q k t [] rest Hw) as Hfol.
    destruct Hw as [Hq [Hl [Hlast _]]]. unfold nl1 in Hlast.
    cbn [print_toks app] in Hs, Hfol |- *. rewrite app_nil_r in *.
    assert (Hs' : src = pre ++ print_tok (q k) t ++ (g (S k) ++ 37%N :: rest)) by (rewrite Hs; lsolve).
    cbn [avoid_loop]. rewrite Hk. cbn [nn]. rewrite Nat.eqb_refl. cbn [andb negb].
    rewrite (parse_token_at _ _ _ _ _ _ Hs' Hi Hq Hfol). cbn [lift sbind ast].
    rewrite tokens_insert_avoid, Ha.
    rewrite (Hnone t (or_introl eq_refl)). cbn [sbind ret]. stn.
    assert (Hs1 : src = (pre ++ print_tok (q k) t) ++ g (S k) ++ 37%N :: rest) by (rewrite Hs; lsolve).
    assert (Hi1 : i + byte_len (print_tok (q k) t) = byte_len (pre ++ print_tok (q k) t)) by (subst i; blen).
    rewrite (ws_gap _ _ _ _ _ _ _ _ _ true Hs1 Hi1 Hl (item_start_pct rest)) by (intros HH; discriminate HH).
    cbn [sbind].
    destruct f as [|f]; [cbn [length] in Hf; lia|].
    cbn [avoid_loop]. cbn [nn].
    assert (Hne : (n + count_nl (g (S k)) =? n) = false) by (apply Nat.eqb_neq; lia).
    rewrite Hne, andb_false_r. cbn [negb]. unfold ret.
    eexists. cbn [tok_occs fold_left]. rewrite (ins_avoid_some _ _ _ _ Ha).
    rewrite byte_len_app, Nat.add_assoc. reflexivity.
  - (* an inner token *)
    destruct f as [|f]; [cbn [length] in Hf; lia|].
    pose proof (toks_follow _ _ g q k t (t' :: ts'') rest Hw) as Hfol.
    destruct Hw as [Hq [Hl [[Hin _] Hw']]]. unfold nl0 in Hin.
    assert (Hq' : is_qname (q (S k)) t') by exact (proj1 Hw').
    change (print_toks g q k (t :: t' :: ts''))
      with (print_tok (q k) t ++ g (S k) ++ print_toks g q (S k) (t' :: ts'')) in *.
    set (T := print_toks g q (S k) (t' :: ts'')) in *.
    assert (Hs' : src = pre ++ print_tok (q k) t ++ (g (S k) ++ T ++ 37%N :: rest)) by (rewrite Hs; lsolve).
    cbn [avoid_loop]. rewrite Hk. cbn [nn]. rewrite Nat.eqb_refl. cbn [andb negb].
    rewrite (parse_token_at _ _ _ _ _ _ Hs' Hi Hq Hfol). cbn [lift sbind ast].
    rewrite tokens_insert_avoid, Ha.
    rewrite (Hnone t (or_introl eq_refl)). cbn [sbind ret]. stn.
    assert (Hs1 : src = (pre ++ print_tok (q k) t) ++ g (S k) ++ (T ++ 37%N :: rest)) by (rewrite Hs; lsolve).
    assert (Hi1 : i + byte_len (print_tok (q k) t) = byte_len (pre ++ print_tok (q k) t)) by (subst i; blen).
    assert (Hr : item_start (T ++ 37%N :: rest)).
    { subst T. cbn [print_toks]. rewrite <- !app_assoc. apply print_tok_item_start. exact Hq'. }
    rewrite (ws_gap _ _ _ _ _ _ _ _ _ true Hs1 Hi1 Hl Hr) by (intros HH; discriminate HH).
    cbn [sbind]. rewrite Hin, Nat.add_0_r.
    assert (Hs2 : src = ((pre ++ print_tok (q k) t) ++ g (S k)) ++ T ++ 37%N :: rest) by (rewrite Hs; lsolve).
    assert (Hi2 : i + byte_len (print_tok (q k) t) + byte_len (g (S k))
                  = byte_len ((pre ++ print_tok (q k) t) ++ g (S k))) by (subst i; blen).
    inversion Hnd as [|? ? Hnin Hnd']; subst.
    edestruct (IH t' (S k) _ _ rest _ f n
                 (upd_avoid (tokens_insert a t (tok_span (q k) (byte_len pre) t))
                            (Some (m ++ [(t, tok_span (q k) (byte_len pre) t)])))
                 g0 e kwend (m ++ [(t, tok_span (q k) (byte_len pre) t)])
                 Hs2 Hi2 Hk Hw' Hnd' eq_refl) as [n' H].
    + intros x Hx. apply assoc_get_snoc_none.
      * apply Hnone. right. exact Hx.
      * intros E. subst x. contradiction.
    + cbn [length] in Hf |- *. lia.
    + exists n'. rewrite H. cbn [tok_occs fold_left]. rewrite (ins_avoid_some _ _ _ _ Ha).
      f_equal. f_equal. f_equal. subst T. cbn [print_toks]. rewrite !byte_len_app. lia.
Qed.

Lemma decl_step_avoid : forall yk ts, decl_step_for yk (DAvoid ts).
Proof.
  intros yk ts src pre dl rest i f n a g e lvl Hs Hi Hw _ Hp.
  destruct Hw as [[Hl0 Hc0] [Hne Hw]]. destruct Hp as [Hnd Hnone].
  destruct ts as [|t ts']; [congruence|].
  cbn [print_decl] in Hs. cbn [is_prec print_decl].
  set (T := print_toks (dg dl) (dq dl) 0 (t :: ts')) in *.
  assert (Hq : is_qname (dq dl 0) t) by exact (proj1 Hw).
  assert (Hr : item_start (T ++ 37%N :: rest)).
  { subst T. cbn [print_toks]. rewrite <- !app_assoc. apply print_tok_item_start. exact Hq. }
  assert (Hs0 : src = pre ++ (kw_avoid_insert ++ dg dl 0 ++ T ++ 37%N :: rest)) by (rewrite Hs; lsolve).
  assert (Hs1 : src = (pre ++ kw_avoid_insert) ++ dg dl 0 ++ T ++ 37%N :: rest) by (rewrite Hs; lsolve).
  assert (Hi1 : i + byte_len kw_avoid_insert = byte_len (pre ++ kw_avoid_insert)) by (subst i; blen).
  assert (Hs2 : src = ((pre ++ kw_avoid_insert) ++ dg dl 0) ++ T ++ 37%N :: rest) by (rewrite Hs; lsolve).
  assert (Hi2 : i + byte_len kw_avoid_insert + byte_len (dg dl 0)
                = byte_len ((pre ++ kw_avoid_insert) ++ dg dl 0)) by (subst i; blen).
  assert (Hfuel : length (t :: ts') < fuel_for src).
  { pose proof (length_le_print_toks _ _ _ _ _ _ Hw) as Hlen. fold T in Hlen.
    unfold fuel_for. rewrite Hs, !byte_len_app. lia. }
  assert (Hk : (i + byte_len kw_avoid_insert <? byte_len src) = true).
  { apply Nat.ltb_lt. rewrite Hs. subst i. rewrite !byte_len_app. cbn [byte_len].
    pose proof (len_utf8_pos 37%N). lia. }
  assert (Hlt : (i <? byte_len src) = true) by exact (lt_len_at _ _ _ _ _ Hs0 Hi).
  cbn [decl_loop]. rewrite Hlt. cbn [negb].
  cascade1 yk Hs0 Hi. lookT Hs0 Hi.
  unfold decl_avoid_insert.
  rewrite (ws_gap _ _ _ _ _ _ _ _ _ false Hs1 Hi1 Hl0 Hr) by (intros _; exact Hc0).
  cbn [sbind nn ast]. unfold decl_eff.
  replace (i + byte_len (dg dl 0) + byte_len kw_avoid_insert)
    with (i + byte_len kw_avoid_insert + byte_len (dg dl 0)) by lia.
  destruct (a_avoid_insert a) as [m|] eqn:Ha.
  - destruct (avoid_loop_toks (dg dl) (dq dl) ts' t 0 src _ rest _ (fuel_for src)
                (n + count_nl (dg dl 0)) a g e (i + byte_len kw_avoid_insert) m
                Hs2 Hi2 Hk Hw Hnd Ha Hnone Hfuel) as [n' Hloop].
    fold T in Hloop. exists n'. rewrite Hloop. cbn [sbind].
    f_equal. rewrite !byte_len_app. lia.
  - stn.
    destruct (avoid_loop_toks (dg dl) (dq dl) ts' t 0 src _ rest _ (fuel_for src)
                (n + count_nl (dg dl 0)) (upd_avoid a (Some [])) g e (i + byte_len kw_avoid_insert) []
                Hs2 Hi2 Hk Hw Hnd eq_refl (fun x _ => eq_refl) Hfuel) as [n' Hloop].
    fold T in Hloop. exists n'. rewrite Hloop. cbn [sbind].
    f_equal. rewrite !byte_len_app. lia.
Qed.
