(* C10 half (b), round trip — production spans with the repaired end (/repo 69c4b9b:
   pos_prod_end.get_or_insert(i) at an action's brace): the span of every production of a printed
   grammar selects the text of its items (%empty, symbols, %prec TOKEN) without the layout that
   follows — [ast_of_prod_spans] (printer and [ast_of] alone) and
   [prod_span_ends_after_last_symbol] (what the parser builds, through [yacc_roundtrip]). *)
From Coq Require Import List Arith NArith ZArith Bool Lia.
From GV Require Import Common.Outcome C10.YpModel C10.YpSpec C10.YpProofs C10.YpTotal C10.YpPrint
  C10.YpRoundSpec C10.YpRoundBase C10.YpRoundInv C10.YpRoundValid C10.YpRoundFaithful C10.YpRoundSpansSpec
  C10.YpRoundSpans C10.YpRoundRules C10.YpRound.
Import ListNotations.
Local Open Scope nat_scope.

(* ---- the end of the span is the end of the items' text -------------------------------- *)
Lemma syms_pend_core : forall pl ss k off pend, ss <> [] ->
  syms_pend pl k off ss pend = Some (off + byte_len (syms_core pl k ss)).
Proof.
  intros pl ss. induction ss as [|s ss IH]; intros k off pend Hne; [congruence|].
  cbn [syms_pend syms_core]. destruct ss as [|s' ss'].
  - cbn [syms_pend]. reflexivity.
  - rewrite (IH (S k) (sym_next pl k off s) _ ltac:(discriminate)). f_equal. unfold sym_next.
    rewrite !byte_len_app. lia.
Qed.

Lemma print_syms_core : forall pl ss k, ss <> [] -> exists g, print_syms pl k ss = syms_core pl k ss ++ g.
Proof.
  intros pl ss. induction ss as [|s ss IH]; intros k Hne; [congruence|].
  cbn [print_syms syms_core]. destruct ss as [|s' ss'].
  - exists (pg_sym pl k). cbn [print_syms]. rewrite app_nil_r. reflexivity.
  - destruct (IH (S k) ltac:(discriminate)) as [g Hg]. exists g. rewrite Hg. rewrite <- !app_assoc. reflexivity.
Qed.

Lemma uses_empty_syms : forall pl p s ss, ap_syms p = s :: ss -> uses_empty pl p = false.
Proof. intros pl p s ss H. unfold uses_empty. rewrite H. apply andb_false_r. Qed.

Lemma prod_pend_core : forall pl off p,
  pend_or (prod_pend true pl off p) (prod_o3 pl off p) = off + byte_len (prod_core pl p).
Proof.
  intros pl off p. unfold prod_pend, prod_core. cbv zeta.
  destruct (ap_prec p) as [t|] eqn:Ep.
  - assert (E : forall d, pend_or (match ap_action p with
                                   | Some _ => brace_pend true (Some (prec_tok_off pl off p + byte_len (print_tok (pq_prec pl) t))) d
                                   | None => Some (prec_tok_off pl off p + byte_len (print_tok (pq_prec pl) t))
                                   end) (prod_o3 pl off p)
                      = prec_tok_off pl off p + byte_len (print_tok (pq_prec pl) t))
      by (intros d; destruct (ap_action p); reflexivity).
    rewrite E. unfold prec_tok_off, prod_o1, prod_o0. rewrite !byte_len_app. lia.
  - destruct (ap_syms p) as [|s ss] eqn:Es.
    + cbn [syms_pend]. unfold prod_o3, prod_o2, prod_o1, prod_o0, print_prec, print_action, print_empty.
      rewrite Ep, Es. cbn [print_syms byte_len].
      destruct (uses_empty pl p).
      * destruct (ap_action p); reflexivity.
      * destruct (ap_action p); cbn [brace_pend pend_or byte_len]; lia.
    + rewrite (syms_pend_core pl (s :: ss) 0 _ _ ltac:(discriminate)).
      unfold prod_o0, print_empty. rewrite (uses_empty_syms pl p s ss Es). cbn [byte_len].
      rewrite Nat.add_0_r.
      destruct (ap_action p); reflexivity.
Qed.

Lemma print_prod_core : forall pl p, exists g, print_prod pl p = prod_core pl p ++ g.
Proof.
  intros pl p. unfold print_prod, prod_core, print_prec.
  destruct (ap_prec p) as [t|] eqn:Ep.
  - exists (pg_prec2 pl ++ print_action pl p). rewrite <- !app_assoc. reflexivity.
  - destruct (ap_syms p) as [|s ss] eqn:Es.
    + unfold print_empty. destruct (uses_empty pl p).
      * exists (pg_empty pl ++ print_action pl p). cbn [print_syms app]. rewrite <- !app_assoc. reflexivity.
      * exists (print_action pl p). reflexivity.
    + unfold print_empty. rewrite (uses_empty_syms pl p s ss Es). cbn [app].
      destruct (print_syms_core pl (s :: ss) 0 ltac:(discriminate)) as [g Hg].
      exists (g ++ print_action pl p). rewrite Hg. rewrite <- !app_assoc. reflexivity.
Qed.

(* ---- the invariant ------------------------------------------------------------------------ *)
Lemma add_prod_t_prods : forall a rn syms prec act sp, has_rule a rn = true ->
  a_prods (add_prod_t a rn syms prec act sp) = a_prods a ++ [mkProd syms prec act sp].
Proof.
  intros a rn syms prec act sp H. unfold add_prod_t, add_prod. unfold has_rule in H.
  destruct (rules_push_pidx (a_rules a) rn (List.length (a_prods a))) as [rs|] eqn:E; [reflexivity|].
  exfalso. apply (rules_push_some (a_rules a) rn (List.length (a_prods a))); [|exact E].
  destruct (get_rule (a_rules a) rn); [discriminate | discriminate H].
Qed.

Lemma psc_prod_eff : forall fa src pl rn p pre rest off a xs,
  src = pre ++ print_prod pl p ++ rest -> off = byte_len pre -> has_rule a rn = true ->
  prod_spans_core src a xs -> prod_spans_core src (prod_eff fa true pl rn off p a) (xs ++ [(pl, p)]).
Proof.
  intros fa src pl rn p pre rest off a xs Hs Hi Hr H. unfold prod_spans_core in *. unfold prod_eff. cbv zeta.
  set (a1 := syms_ins pl 0 (prod_o0 pl off p) (ap_syms p) a).
  set (a2 := match ap_prec p with Some t => tokens_insert a1 t _ | None => a1 end).
  destruct (syms_ins_frame pl (ap_syms p) 0 (prod_o0 pl off p) a) as [F1 [F2 _]]. fold a1 in F1, F2.
  assert (G1 : a_rules a2 = a_rules a).
  { unfold a2. destruct (ap_prec p); [rewrite tokens_insert_rules|]; exact F1. }
  assert (G2 : a_prods a2 = a_prods a).
  { unfold a2. destruct (ap_prec p); [rewrite tokens_insert_prods|]; exact F2. }
  assert (Hr2 : has_rule a2 rn = true) by (unfold has_rule in *; rewrite G1; exact Hr).
  rewrite (add_prod_t_prods a2 rn _ _ _ _ Hr2), G2.
  apply Forall2_app; [exact H|]. constructor; [|constructor].
  cbn [p_span fst snd]. fold (pend_or (prod_pend true pl off p) (prod_o3 pl off p)).
  rewrite prod_pend_core.
  destruct (print_prod_core pl p) as [g Hg].
  apply (sel_at src pre (prod_core pl p) (g ++ rest)); [|exact Hi|reflexivity].
  rewrite Hs, Hg. rewrite <- !app_assoc. reflexivity.
Qed.

Lemma psc_prods_eff : forall fa src rl rn ps pi pre rest off a xs,
  src = pre ++ print_prods rl pi ps ++ rest -> off = byte_len pre -> has_rule a rn = true ->
  prod_spans_core src a xs ->
  prod_spans_core src (prods_eff fa true rl rn pi off ps a) (xs ++ block_prods rl pi ps).
Proof.
  intros fa src rl rn ps. induction ps as [|p ps IH]; intros pi pre rest off a xs Hs Hi Hr H;
    cbn [prods_eff block_prods]; [rewrite app_nil_r; exact H|].
  cbn [print_prods] in Hs.
  assert (Htc : len_utf8 (match ps with [] => c_semi | _ :: _ => c_bar end) = 1) by (destruct ps; reflexivity).
  set (tc := match ps with [] => c_semi | _ :: _ => c_bar end) in *.
  replace (xs ++ (r_play rl pi, p) :: block_prods rl (S pi) ps)
    with ((xs ++ [(r_play rl pi, p)]) ++ block_prods rl (S pi) ps) by (rewrite <- app_assoc; reflexivity).
  apply (IH (S pi) (pre ++ print_prod (r_play rl pi) p ++ tc :: pg_term (r_play rl pi)) rest).
  - rewrite Hs. lsv.
  - unfold prod_next, prod_o3, prod_o2, prod_o1, prod_o0, print_prod. barith.
  - rewrite prod_eff_has_rule. exact Hr.
  - apply (psc_prod_eff fa src (r_play rl pi) rn p pre
             (tc :: pg_term (r_play rl pi) ++ print_prods rl (S pi) ps ++ rest)); try assumption.
    rewrite Hs. lsv.
Qed.

Lemma psc_rule_eff : forall fa src rl at_ r pre rest off a xs,
  src = pre ++ print_rule rl r ++ rest -> off = byte_len pre ->
  prod_spans_core src a xs ->
  prod_spans_core src (rule_eff fa true rl off at_ r a) (xs ++ block_prods rl 0 (ar_prods r)).
Proof.
  intros fa src rl at_ r pre rest off a xs Hs Hi H. unfold rule_eff. unfold print_rule in Hs.
  apply (psc_prods_eff fa src rl (ar_name r) (ar_prods r) 0
           (pre ++ ar_name r ++ rg_name rl ++ print_rtype rl r ++ c_colon :: rg_colon rl) rest).
  - rewrite Hs. lsv.
  - unfold rule_body_off. barith.
  - apply rule_head_has_rule.
  - unfold prod_spans_core in *. rewrite rule_head_prods. exact H.
Qed.

Lemma psc_rules_eff : forall fa src l rs r at_ pre rest off a xs,
  src = pre ++ print_rules l r rs ++ rest -> off = byte_len pre ->
  prod_spans_core src a xs ->
  prod_spans_core src (rules_eff fa true l r off at_ rs a) (xs ++ all_prods l r rs).
Proof.
  intros fa src l rs. induction rs as [|x rs IH]; intros r at_ pre rest off a xs Hs Hi H;
    cbn [rules_eff all_prods]; [rewrite app_nil_r; exact H|].
  cbn [print_rules] in Hs. rewrite app_assoc.
  apply (IH (S r) at_ (pre ++ print_rule (rlay_of l r) x) rest).
  - rewrite Hs. lsv.
  - barith.
  - apply (psc_rule_eff fa src (rlay_of l r) at_ x pre (print_rules l (S r) rs ++ rest)); try assumption.
    rewrite Hs. lsv.
Qed.

Lemma ast_of_prod_spans : ast_of_prod_spans_stmt.
Proof.
  intros fa l ag. unfold ast_of.
  assert (Hp : forall a xs, prod_spans_core (print l ag) a xs -> prod_spans_core (print l ag) (programs_eff ag a) xs).
  { intros a xs Ha. unfold programs_eff, prod_spans_core in *. destruct (ag_programs ag); exact Ha. }
  apply Hp.
  apply (psc_rules_eff fa (print l ag) l (ag_rules ag) 0 (actiont_of (gat_of l ag))
           (l_gap l [0] ++ print_decls l 0 (ag_decls ag) ++ kw_pp ++ l_gap l [2]) (print_programs l ag)
           (rules_off l ag) _ []).
  - unfold print. lsv.
  - unfold rules_off, decls_off. barith.
  - unfold prod_spans_core.
    destruct (decls_eff_facts (ag_decls ag) l 0 (decls_off l) 0 ast_new) as [_ [_ [E _]]]. rewrite E.
    constructor.
Qed.

Lemma prod_span_ends_after_last_symbol : prod_span_ends_after_last_symbol_stmt.
Proof.
  intros k fa fu l ag Hag Hl. exists (ast_of fa true l ag), (warnings_of fa true fu l ag).
  split; [apply yacc_roundtrip; assumption | apply ast_of_prod_spans].
Qed.
