(* C12 (yacc part) — proofs of YpSpansSpec.v: every span of every error, warning
   and AST node built by the mirror of YaccParser is well-formed.

   Partial-correctness style: "if the function returns, then ...".  Every span
   is built by [mk_span] (which checks start <= end), [mk_error] (off, off) or is
   the literal (0, 0), so it suffices to show that all offsets handed to them
   are valid cursor positions ([vpos], YpTotal.v). *)
From Coq Require Import List Arith NArith ZArith Bool Lia.
From GV Require Import Common.Outcome C10.YpModel C10.YpSpec C10.YpProofs C10.YpTotal C10.YpSpansSpec.
Import ListNotations.
Local Open Scope nat_scope.

(* ======================================================================== *)
(*  boundaries = valid cursor positions                                       *)
(* ======================================================================== *)
Lemma boundaries_from_iff : forall s off i,
  In i (boundaries_from s off) <-> exists pre r, s = pre ++ r /\ off + byte_len pre = i.
Proof.
  induction s as [|c s IH]; intros off i.
  - simpl. split.
    + intros [H|[]]. exists [], []. split; [reflexivity | simpl; lia].
    + intros [pre [r [H1 H2]]]. left. symmetry in H1. apply app_eq_nil in H1. destruct H1 as [-> _].
      simpl in H2. lia.
  - cbn [boundaries_from In]. rewrite IH. split.
    + intros [H|[pre [r [H1 H2]]]].
      * exists [], (c :: s). split; [reflexivity | simpl; lia].
      * exists (c :: pre), r. split; [simpl; congruence | simpl; lia].
    + intros [pre [r [H1 H2]]]. destruct pre as [|d pre].
      * left. simpl in H2. lia.
      * right. simpl in H1. injection H1 as <- H1. exists pre, r. split; [exact H1 | simpl in H2; lia].
Qed.

Lemma boundary_vpos : forall src i, boundary src i <-> vpos src i.
Proof. intros src i. unfold boundary, boundaries, vpos. rewrite boundaries_from_iff. simpl. reflexivity. Qed.

(* internal form of a well-formed span *)
Definition wfs (src : str) (sp : span) : Prop := vpos src (fst sp) /\ vpos src (snd sp) /\ fst sp <= snd sp.

Lemma wfs_wf_span : forall src sp, wfs src sp -> wf_span src sp.
Proof.
  intros src sp [H1 [H2 H3]]. split; [exact H3|]. split; [apply vpos_le; exact H2|].
  split; apply boundary_vpos; assumption.
Qed.

Lemma wfs_point : forall src i, vpos src i -> wfs src (i, i).
Proof. intros src i H. split; [exact H|]. split; [exact H | simpl; lia]. Qed.

Lemma mk_span_wfs : forall src i j sp, vpos src i -> vpos src j -> mk_span i j = Done sp -> wfs src sp.
Proof.
  intros src i j sp Hi Hj H. unfold mk_span in H. destruct (Nat.ltb_spec j i); [discriminate H|].
  injection H as <-. split; [exact Hi|]. split; [exact Hj | simpl; lia].
Qed.

Definition ewf (src : str) (e : yerr) : Prop := Forall (wfs src) (e_spans e).

Lemma ewf_mk_error : forall src k i, vpos src i -> ewf src (mk_error k i).
Proof. intros src k i H. unfold ewf, mk_error. simpl. constructor; [apply wfs_point; exact H | constructor]. Qed.

(* ======================================================================== *)
(*  Lexical layer                                                             *)
(* ======================================================================== *)
(* Ok results satisfy P, Err results carry well-formed spans *)
Definition lexE {A} (src : str) (P : A -> Prop) (x : pres A) : Prop :=
  match x with Done (Ok a) => P a | Done (Err e) => ewf src e | _ => True end.

Lemma lexE_of : forall {A} src (P : A -> Prop) (x : pres A),
  lex_post P x -> (forall e, x = Done (Err e) -> ewf src e) -> lexE src P x.
Proof.
  intros A src P x H1 H2. destruct x as [[a|e]| |]; simpl in *; try exact I; [exact H1 | apply H2; reflexivity].
Qed.

Lemma lexE_weaken : forall {A} src (P Q : A -> Prop) (x : pres A),
  (forall a, P a -> Q a) -> lexE src P x -> lexE src Q x.
Proof. intros A src P Q x H Hx. destruct x as [[a|e]| |]; simpl in *; auto. Qed.

Lemma ws_loop_E : forall fixed src fuel f nn i inc,
  byte_len src < fuel -> vpos src i ->
  lexE src (fun r => vpos src (fst r)) (ws_loop fixed src (byte_len src) fuel f nn i inc).
Proof.
  intros fixed src fuel f. induction f as [|f IH]; intros nn i inc Hfuel Hv; [exact I|].
  cbn [ws_loop]. destruct (Nat.ltb_spec i (byte_len src)) as [Hlt|Hge]; cbn [negb].
  2:{ simpl. exact Hv. }
  destruct (vpos_next src i Hv Hlt) as [c [Hnc [_ Hv1]]]. rewrite Hnc. cbn [obind].
  destruct (is_sptab c); [apply IH; assumption|].
  destruct (is_nl c).
  { destruct inc; cbn [negb]; [apply IH; assumption | simpl; apply ewf_mk_error; exact Hv]. }
  destruct (c =? c_slash)%N; [|simpl; exact Hv].
  destruct (Nat.eqb_spec (i + len_utf8 c) (byte_len src)) as [He|Hne]; [simpl; exact Hv|].
  assert (Hlt1 : i + len_utf8 c < byte_len src) by (pose proof (vpos_le _ _ Hv1); lia).
  destruct (vpos_next src _ Hv1 Hlt1) as [c2 [Hnc2 [_ Hv2]]]. rewrite Hnc2. cbn [obind].
  destruct (c2 =? c_slash)%N.
  - destruct (vpos_slice_from src _ Hv2) as [pre [r [Hs [Hb Hsf]]]]. rewrite Hsf. cbn [obind].
    destruct (line_comment_vpos r src pre (i + len_utf8 c + len_utf8 c2) nn Hs Hb) as [Hl1 _].
    destruct (line_comment r (i + len_utf8 c + len_utf8 c2) nn) as [i2 nn2]. simpl in Hl1.
    apply IH; assumption.
  - destruct (c2 =? c_star)%N; [|simpl; exact Hv].
    destruct (block_loop_total fixed src fuel (i + len_utf8 c + len_utf8 c2) nn inc Hv2) as [b [Hb Hp]]; [lia|].
    rewrite Hb. cbn [obind]. destruct b as [i' nn'| |].
    + destruct Hp as [Hp1 _]. apply IH; assumption.
    + simpl. apply ewf_mk_error; exact Hv.
    + simpl. apply ewf_mk_error; exact Hv.
Qed.

Lemma lex_post_weaken : forall {A} (P Q : A -> Prop) (x : pres A),
  (forall a, P a -> Q a) -> lex_post P x -> lex_post Q x.
Proof. intros A P Q x H Hx. destruct x as [[a|e]| |]; simpl in *; auto. Qed.

Lemma parse_ws_E : forall fixed src fuel nn i inc,
  byte_len src < fuel -> vpos src i ->
  lexE src (fun r => vpos src (fst r)) (parse_ws fixed src (byte_len src) fuel nn i inc).
Proof. intros. unfold parse_ws. apply ws_loop_E; assumption. Qed.

Lemma parse_name_E : forall src i, vpos src i ->
  lexE src (fun r => vpos src (fst r)) (parse_name src i).
Proof.
  intros src i Hv. apply lexE_of.
  - eapply lex_post_weaken; [|apply parse_name_total; exact Hv]. intros a [H _]. exact H.
  - intros e He. unfold parse_name in He.
    destruct (slice_from src i) as [r| |]; cbn [obind] in He; try discriminate He.
    destruct (re_name r) as [n|].
    + destruct (slice src i (i + n)); cbn [obind] in He; discriminate He.
    + injection He as <-. apply ewf_mk_error; exact Hv.
Qed.

(* parse_token: cursor and span *)
Lemma parse_token_E : forall src i, vpos src i ->
  lexE src (fun r => vpos src (fst (fst (fst r))) /\ wfs src (snd (fst r))) (parse_token src i).
Proof.
  intros src i Hv. destruct (vpos_slice_from src i Hv) as [pre [r [Hs [Hb Hsf]]]].
  unfold parse_token. rewrite Hsf. cbn [obind].
  destruct r as [|c r']; [simpl; apply ewf_mk_error; exact Hv|]. cbn [re_token].
  assert (Hnc : next_char src i = Done c) by (rewrite Hs, <- Hb; apply next_char_app).
  destruct ((c =? c_dq) || (c =? c_sq))%N eqn:Hq.
  - assert (Hc1 : len_utf8 c = 1).
    { apply orb_true_iff in Hq. destruct Hq as [H|H]; apply N.eqb_eq in H; subst c; reflexivity. }
    destruct r' as [|c1 r'']; [simpl; apply ewf_mk_error; exact Hv|].
    destruct (c1 =? c_nl)%N; [simpl; apply ewf_mk_error; exact Hv|].
    destruct (scan_quote c r'') as [n|] eqn:Hsq; [|simpl; apply ewf_mk_error; exact Hv].
    destruct (scan_quote_split c r'' n Hsq) as [m [t [Hr Hm]]].
    rewrite Hnc. cbn [obind]. rewrite Hq.
    pose proof (len_utf8_pos c1) as Hc1p.
    destruct (Nat.eqb_spec (i + (1 + len_utf8 c1 + n + 1)) 0) as [H0|_]; [lia|].
    assert (Hsrc1 : src = (pre ++ [c]) ++ (c1 :: m) ++ c :: t)
      by (rewrite Hs, Hr, <- app_assoc; reflexivity).
    assert (Hv1 : vpos src (i + 1)).
    { replace (i + 1) with (byte_len (pre ++ [c])) by (rewrite byte_len_snoc; lia).
      apply (vpos_app _ _ _ Hsrc1). }
    assert (Hsrc2 : src = (pre ++ [c] ++ c1 :: m) ++ c :: t)
      by (rewrite Hsrc1; repeat rewrite <- app_assoc; reflexivity).
    assert (Hv2 : vpos src (i + (1 + len_utf8 c1 + n + 1) - 1)).
    { replace (i + (1 + len_utf8 c1 + n + 1) - 1) with (byte_len (pre ++ [c] ++ c1 :: m))
        by (rewrite !byte_len_app; simpl byte_len; lia).
      apply (vpos_app _ _ _ Hsrc2). }
    destruct (vpos_slice src _ _ Hv1 Hv2) as [s [Hsl _]]; [lia|].
    rewrite Hsl. cbn [obind]. rewrite mk_span_total by lia. cbn [obind]. simpl.
    split; [|split; [exact Hv1 | split; [exact Hv2 | simpl; lia]]].
    assert (Hsrc3 : src = ((pre ++ [c] ++ c1 :: m) ++ [c]) ++ t)
      by (rewrite Hsrc2; repeat rewrite <- app_assoc; reflexivity).
    match goal with |- vpos src ?x =>
      replace x with (byte_len ((pre ++ [c] ++ c1 :: m) ++ [c]))
        by (rewrite !byte_len_app; simpl byte_len; lia) end.
    apply (vpos_app _ _ _ Hsrc3).
  - destruct (tok_start c) eqn:Hc; [|simpl; apply ewf_mk_error; exact Hv].
    destruct (count_while_split tok_cont r') as [m [t [Hr [Hlen Hm]]]].
    set (k := count_while tok_cont r') in *.
    assert (Hbl : byte_len (c :: m) = S k).
    { rewrite (byte_len_ascii tok_cont (c :: m) tok_cont_ascii).
      - simpl. congruence.
      - simpl. unfold tok_cont at 1. unfold tok_start in Hc. rewrite Hc. exact Hm. }
    assert (Hsrc : src = pre ++ (c :: m) ++ t) by (rewrite Hs, Hr; reflexivity).
    assert (Hsl : slice src i (i + S k) = Done (c :: m)).
    { rewrite <- Hbl, <- Hb. rewrite Hsrc. apply slice_app. }
    rewrite Hnc. cbn [obind]. rewrite Hq. rewrite Hsl. cbn [obind].
    rewrite mk_span_total by lia. cbn [obind]. simpl.
    assert (Hsrc' : src = (pre ++ c :: m) ++ t) by (rewrite Hsrc, <- app_assoc; reflexivity).
    assert (Hve : vpos src (i + S k)).
    { replace (i + S k) with (byte_len (pre ++ c :: m)) by (rewrite byte_len_app; lia).
      apply (vpos_app _ _ _ Hsrc'). }
    split; [exact Hve | split; [exact Hv | split; [exact Hve | simpl; lia]]].
Qed.

Lemma parse_to_eol_E : forall src fuel i, byte_len src < fuel -> vpos src i ->
  lexE src (fun r => vpos src (fst r)) (parse_to_eol src (byte_len src) fuel i).
Proof.
  intros src fuel i Hfuel Hv. apply lexE_of.
  - eapply lex_post_weaken; [|apply parse_to_eol_total; assumption]. intros a [H _]. exact H.
  - intros e He. unfold parse_to_eol in He.
    destruct (eol_loop src (byte_len src) fuel i) as [j| |]; cbn [obind] in He; try discriminate He.
    destruct (slice src i j); cbn [obind] in He; discriminate He.
Qed.

Lemma parse_int_E : forall src fuel i, byte_len src < fuel -> vpos src i ->
  lexE src (fun r => vpos src (fst r)) (parse_int src (byte_len src) fuel i).
Proof.
  intros src fuel i Hfuel Hv. apply lexE_of.
  - eapply lex_post_weaken; [|apply parse_int_total; assumption]. intros a [H _]. exact H.
  - intros e He. unfold parse_int in He.
    destruct (int_loop src (byte_len src) fuel i) as [j| |]; cbn [obind] in He; try discriminate He.
    destruct (slice src i j) as [s| |]; cbn [obind] in He; try discriminate He.
    destruct (parse_usize s); [discriminate He|]. injection He as <-. apply ewf_mk_error; exact Hv.
Qed.

Lemma colon_loop_E : forall src f i j nn, vpos src i -> vpos src j ->
  lexE src (fun r => vpos src (fst (fst r))) (colon_loop src (byte_len src) f i j nn).
Proof.
  intros src f. induction f as [|f IH]; intros i j nn Hvi Hv; [exact I|].
  cbn [colon_loop]. destruct (Nat.ltb_spec j (byte_len src)) as [Hlt|Hge]; cbn [negb];
    [|simpl; apply ewf_mk_error; exact Hv].
  destruct (vpos_next src j Hv Hlt) as [c [Hnc [_ Hv1]]]. rewrite Hnc. cbn [obind].
  destruct (c =? c_colon)%N eqn:Hcc.
  2:{ destruct (is_nl c); apply IH; assumption. }
  apply N.eqb_eq in Hcc. subst c. change (len_utf8 c_colon) with 1 in *.
  destruct (Nat.eqb_spec (j + 1) (byte_len src)) as [He|Hne].
  - cbn [obind]. destruct (slice src i j); cbn [obind]; simpl; try exact I. exact Hv.
  - destruct (vpos_slice_from src (j + 1) Hv1) as [pre [r [Hs [Hb Hsf]]]]. rewrite Hsf. cbn [obind].
    destruct (prefix_of [c_colon] r) eqn:Hp; cbn [negb].
    + destruct (prefix_of_app _ _ Hp) as [t Ht].
      assert (Hv2 : vpos src (j + 2)).
      { replace (j + 2) with (byte_len (pre ++ [c_colon]))
          by (rewrite byte_len_snoc; change (len_utf8 c_colon) with 1; lia).
        apply (vpos_app src (pre ++ [c_colon]) t). rewrite Hs, Ht, <- app_assoc. reflexivity. }
      apply IH; assumption.
    + destruct (slice src i j); cbn [obind]; simpl; try exact I. exact Hv.
Qed.

Lemma parse_to_single_colon_E : forall src fuel nn i, vpos src i ->
  lexE src (fun r => vpos src (fst (fst r))) (parse_to_single_colon src (byte_len src) fuel nn i).
Proof. intros. unfold parse_to_single_colon. apply colon_loop_E; assumption. Qed.

Lemma string_loop_E : forall src f qc i j s, len_utf8 qc = 1 -> vpos src j ->
  lexE src (fun r => vpos src (fst r)) (string_loop src (byte_len src) f qc i j s).
Proof.
  intros src f. induction f as [|f IH]; intros qc i j s Hq1 Hv; [exact I|].
  cbn [string_loop]. destruct (Nat.ltb_spec j (byte_len src)) as [Hlt|Hge]; cbn [negb];
    [|simpl; apply ewf_mk_error; exact Hv].
  destruct (vpos_next src j Hv Hlt) as [c [Hnc [_ Hv1]]]. rewrite Hnc. cbn [obind].
  destruct (is_nl c); [simpl; apply ewf_mk_error; exact Hv|].
  destruct (c =? qc)%N eqn:Hq.
  { destruct (slice src i j); cbn [obind]; simpl; try exact I.
    apply N.eqb_eq in Hq. subst qc. rewrite Hq1 in Hv1. exact Hv1. }
  destruct (c =? c_bslash)%N eqn:Hb.
  - apply N.eqb_eq in Hb. subst c. change (len_utf8 c_bslash) with 1 in Hv1.
    destruct (char_at_total src (j + 1) Hv1) as [o Ho]. rewrite Ho. cbn [obind].
    destruct o as [c2|]; [|simpl; apply ewf_mk_error; exact Hv].
    destruct ((c2 =? c_sq) || (c2 =? c_dq))%N eqn:Hc2; [|simpl; apply ewf_mk_error; exact Hv].
    destruct (slice src i j); cbn [obind]; try exact I.
    destruct (char_at_some src (j + 1) c2 Hv1 Ho) as [Hv2 _].
    assert (H21 : len_utf8 c2 = 1).
    { apply orb_true_iff in Hc2. destruct Hc2 as [H|H]; apply N.eqb_eq in H; subst c2; reflexivity. }
    rewrite H21 in Hv2. replace (j + 1 + 1) with (j + 2) in Hv2 by lia.
    apply IH; assumption.
  - apply IH; assumption.
Qed.

Lemma parse_string_E : forall src fuel i, vpos src i ->
  lexE src (fun r => vpos src (fst r)) (parse_string src (byte_len src) fuel i).
Proof.
  intros src fuel i Hv. unfold parse_string.
  destruct (vpos_look src [c_sq] i Hv) as [o1 [H1 P1]]. rewrite H1. cbn [obind].
  destruct o1 as [k1|].
  - cbn [obind]. simpl in P1. destruct P1 as [Hk Hvk]. change (byte_len [c_sq]) with 1 in Hk. subst k1.
    apply string_loop_E; [reflexivity | exact Hvk].
  - destruct (vpos_look src [c_dq] i Hv) as [o2 [H2 P2]]. rewrite H2. cbn [obind].
    destruct o2 as [k2|]; [|simpl; apply ewf_mk_error; exact Hv].
    simpl in P2. destruct P2 as [Hk Hvk]. change (byte_len [c_dq]) with 1 in Hk. subst k2.
    apply string_loop_E; [reflexivity | exact Hvk].
Qed.

Lemma parse_action_E : forall src fuel nn i k,
  byte_len src < fuel -> vpos src i -> lookahead_is src [c_lbrace] i = Done (Some k) ->
  lexE src (fun r => vpos src (fst (fst r)) /\ act_rel src i (fst (fst r)) (snd (fst r)))
       (parse_action src (byte_len src) fuel nn i).
Proof.
  intros src fuel nn i k Hfuel Hv Hla.
  pose proof (parse_action_total src fuel nn i k Hfuel Hv Hla) as H1.
  pose proof (parse_action_rel src fuel nn i k Hfuel Hv Hla) as H2.
  assert (He : forall e, parse_action src (byte_len src) fuel nn i = Done (Err e) -> ewf src e).
  { intros e He. unfold parse_action in He. rewrite Hla in He. cbn [obind] in He.
    destruct (action_loop src (byte_len src) fuel i 0%Z nn) as [[[j c] nn']| |]; cbn [obind] in He;
      try discriminate He.
    destruct (0 <? c)%Z; [injection He as <-; apply ewf_mk_error; exact Hv|].
    destruct (lookahead_is src [c_rbrace] j) as [[lb|]| |]; cbn [obind] in He; try discriminate He.
    destruct (slice src (i + 1) j); cbn [obind] in He; discriminate He. }
  destruct (parse_action src (byte_len src) fuel nn i) as [[a|e]| |]; simpl in *; try exact I.
  - split; [exact (proj1 H1) | exact H2].
  - apply He. reflexivity.
Qed.

(* ======================================================================== *)
(*  Action spans                                                              *)
(* ======================================================================== *)
(* start on a boundary, start <= end <= |src|; end on a boundary with the repair *)
Definition act_wf (fa : bool) (src : str) (act : option (str * span)) : Prop :=
  match act with
  | Some (_, sp) => vpos src (fst sp) /\ fst sp <= snd sp /\ snd sp <= byte_len src /\
                    (fa = true -> vpos src (snd sp))
  | None => True
  end.

Lemma action_span_wf : forall fa src i j a asp,
  act_rel src i j a -> action_span fa src (i + 1) a = Done asp -> act_wf fa src (Some (a, asp)).
Proof.
  intros fa src i j a asp [pre [s [rest [Hsrc [Hi [Hj Ha]]]]]] Hsp.
  assert (Hsrc1 : src = (pre ++ [c_lbrace]) ++ s ++ c_rbrace :: rest)
    by (rewrite Hsrc, <- app_assoc; reflexivity).
  assert (Hi1 : byte_len (pre ++ [c_lbrace]) = i + 1)
    by (rewrite byte_len_snoc; change (len_utf8 c_lbrace) with 1; lia).
  destruct (drop_while_prefix is_whitespace s) as [w1 Hw1].
  destruct (trim_end_suffix (drop_while is_whitespace s)) as [w2 Hw2].
  assert (Hat : a = trim_end (drop_while is_whitespace s)) by (rewrite Ha; reflexivity).
  rewrite <- Hat in Hw2.
  assert (Hlen : byte_len s = byte_len w1 + byte_len a + byte_len w2).
  { rewrite Hw1 at 1. rewrite byte_len_app. rewrite Hw2 at 1. rewrite byte_len_app. lia. }
  assert (Hsl : byte_len src = i + 1 + byte_len s + 1 + byte_len rest).
  { rewrite Hsrc1. rewrite byte_len_app, Hi1, byte_len_app. simpl byte_len. change (len_utf8 c_rbrace) with 1. lia. }
  unfold action_span in Hsp. destruct fa.
  - assert (Hsf : slice_from src (i + 1) = Done (s ++ c_rbrace :: rest)).
    { rewrite <- Hi1. rewrite Hsrc1. apply slice_from_app. }
    rewrite Hsf in Hsp. cbn [obind] in Hsp.
    unfold trim_start in Hsp. rewrite drop_while_app_stop in Hsp by reflexivity.
    assert (Hlead : byte_len (s ++ c_rbrace :: rest) - byte_len (drop_while is_whitespace s ++ c_rbrace :: rest)
                    = byte_len w1).
    { rewrite Hw1 at 1. rewrite !byte_len_app. lia. }
    rewrite Hlead in Hsp. rewrite mk_span_total in Hsp by lia. injection Hsp as <-.
    assert (Hsrc2 : src = (pre ++ [c_lbrace] ++ w1) ++ a ++ (w2 ++ c_rbrace :: rest)).
    { rewrite Hsrc1. rewrite Hw1 at 1. rewrite Hw2 at 1. repeat rewrite <- app_assoc. reflexivity. }
    assert (Hb1 : byte_len (pre ++ [c_lbrace] ++ w1) = i + 1 + byte_len w1)
      by (rewrite !byte_len_app; simpl byte_len; change (len_utf8 c_lbrace) with 1; lia).
    assert (Hv1 : vpos src (i + 1 + byte_len w1)) by (rewrite <- Hb1; apply (vpos_app _ _ _ Hsrc2)).
    assert (Hv2 : vpos src (i + 1 + byte_len w1 + byte_len a)).
    { replace (i + 1 + byte_len w1 + byte_len a) with (byte_len ((pre ++ [c_lbrace] ++ w1) ++ a))
        by (rewrite byte_len_app, Hb1; lia).
      apply (vpos_app src _ (w2 ++ c_rbrace :: rest)). rewrite Hsrc2 at 1. apply app_assoc. }
    simpl. split; [exact Hv1|]. split; [lia|]. split; [lia|]. intros _. exact Hv2.
  - rewrite mk_span_total in Hsp by lia. injection Hsp as <-.
    simpl. split; [rewrite <- Hi1; apply (vpos_app _ _ _ Hsrc1)|]. split; [lia|]. split; [lia|].
    intros H; discriminate H.
Qed.

(* ======================================================================== *)
(*  AST and state invariants                                                  *)
(* ======================================================================== *)
Definition oforall {A} (P : A -> Prop) (o : option A) : Prop :=
  match o with Some x => P x | None => True end.

Section Inv.
Variable fa : bool.
Variable src : str.
Local Notation W := (wfs src).

Definition syms_wf (l : list symbol) : Prop := Forall (fun s => W (sym_span s)) l.
Definition prod_wf (p : production) : Prop :=
  syms_wf (p_syms p) /\ W (p_span p) /\ act_wf fa src (p_action p).
Definition nsp_wf (l : list (str * span)) : Prop := Forall (fun x => W (snd x)) l.

Definition awf (a : gast) : Prop :=
  oforall (fun x : str * span => W (snd x)) (a_start a) /\
  Forall (fun r => W (r_span r)) (a_rules a) /\
  Forall prod_wf (a_prods a) /\
  Forall W (a_spans a) /\
  Forall (fun x : str * (nat * assoc * span) => W (snd (snd x))) (a_precs a) /\
  oforall nsp_wf (a_avoid_insert a) /\
  oforall nsp_wf (a_implicit_tokens a) /\
  Forall (fun x : str * (span * (str * span)) => W (fst (snd x)) /\ W (snd (snd (snd x)))) (a_epp a) /\
  oforall (fun x : N * span => W (snd x)) (a_expect a) /\
  oforall (fun x : N * span => W (snd x)) (a_expectrr a) /\
  syms_wf (a_expect_unused a).

Definition SI (st : pst) : Prop :=
  Forall (ewf src) (errs st) /\ awf (ast st) /\ oforall (fun x : str * span => W (snd x)) (gat st).

Lemma SI_awf : forall st, SI st -> awf (ast st).
Proof. intros st H. exact (proj1 (proj2 H)). Qed.

Lemma SI_set_ast : forall st a, SI st -> awf a -> SI (set_ast st a).
Proof. intros st a [H1 [_ H3]] Ha. split; [exact H1|]. split; [exact Ha | exact H3]. Qed.

Lemma SI_set_gat : forall st n sp, SI st -> W sp -> SI (set_gat st (Some (n, sp))).
Proof. intros st n sp [H1 [H2 _]] Hw. split; [exact H1|]. split; [exact H2 | exact Hw]. Qed.

Lemma SI_set_errs : forall st l, SI st -> Forall (ewf src) l -> SI (set_errs st l).
Proof. intros st l [_ [H2 H3]] Hl. split; [exact Hl|]. split; [exact H2 | exact H3]. Qed.

Lemma Forall_snoc : forall {A} (P : A -> Prop) l x, Forall P l -> P x -> Forall P (l ++ [x]).
Proof. intros A P l x Hl Hx. apply Forall_app. split; [exact Hl | constructor; [exact Hx | constructor]]. Qed.

(* one tactic for all "update one field" lemmas *)
Ltac awf_split H :=
  destruct H as (Hw1 & Hw2 & Hw3 & Hw4 & Hw5 & Hw6 & Hw7 & Hw8 & Hw9 & Hw10 & Hw11);
  unfold awf; simpl; repeat match goal with |- _ /\ _ => split end; try assumption.

Lemma awf_new : awf ast_new.
Proof. unfold awf, ast_new, syms_wf. simpl. repeat split; constructor. Qed.

Lemma awf_upd_start : forall a n sp, awf a -> W sp -> awf (upd_start a (Some (n, sp))).
Proof. intros a n sp H Hw. awf_split H. Qed.
Lemma awf_upd_tokdirs : forall a v, awf a -> awf (upd_tokdirs a v).
Proof. intros a v H. awf_split H. Qed.
Lemma awf_upd_tokspans : forall a t sp, awf a -> W sp -> awf (upd_spans (upd_tokens a t) (a_spans a ++ [sp])).
Proof. intros a t sp H Hw. awf_split H. apply Forall_snoc; assumption. Qed.
Lemma awf_upd_epp : forall a n sp v vsp, awf a -> W sp -> W vsp ->
  awf (upd_epp a (a_epp a ++ [(n, (sp, (v, vsp)))])).
Proof. intros a n sp v vsp H Hw Hw'. awf_split H. apply Forall_snoc; [assumption | split; assumption]. Qed.
Lemma awf_upd_expect : forall a n sp, awf a -> W sp -> awf (upd_expect a (Some (n, sp))).
Proof. intros a n sp H Hw. awf_split H. Qed.
Lemma awf_upd_expectrr : forall a n sp, awf a -> W sp -> awf (upd_expectrr a (Some (n, sp))).
Proof. intros a n sp H Hw. awf_split H. Qed.
Lemma awf_upd_expect_unused : forall a s, awf a -> W (sym_span s) ->
  awf (upd_expect_unused a (a_expect_unused a ++ [s])).
Proof. intros a s H Hw. awf_split H. apply Forall_snoc; assumption. Qed.
Lemma awf_upd_avoid : forall a m, awf a -> nsp_wf m -> awf (upd_avoid a (Some m)).
Proof. intros a m H Hw. awf_split H. Qed.
Lemma awf_upd_implicit : forall a m, awf a -> nsp_wf m -> awf (upd_implicit a (Some m)).
Proof. intros a m H Hw. awf_split H. Qed.
Lemma awf_upd_parse_param : forall a v, awf a -> awf (upd_parse_param a v).
Proof. intros a v H. awf_split H. Qed.
Lemma awf_upd_parse_generics : forall a v, awf a -> awf (upd_parse_generics a v).
Proof. intros a v H. awf_split H. Qed.
Lemma awf_upd_programs : forall a v, awf a -> awf (upd_programs a v).
Proof. intros a v H. awf_split H. Qed.
Lemma awf_upd_precs : forall a n lvl k sp, awf a -> W sp ->
  awf (upd_precs a (a_precs a ++ [(n, (lvl, k, sp))])).
Proof. intros a n lvl k sp H Hw. awf_split H. apply Forall_snoc; assumption. Qed.

Lemma awf_tokens_insert : forall a n sp, awf a -> W sp -> awf (tokens_insert a n sp).
Proof.
  intros a n sp H Hw. unfold tokens_insert. destruct (insert_full (a_tokens a) n) as [[idx fresh] toks].
  destruct fresh; [apply awf_upd_tokspans; assumption | exact H].
Qed.

Lemma rules_insert_wf : forall rs r, Forall (fun r => W (r_span r)) rs -> W (r_span r) ->
  Forall (fun r => W (r_span r)) (rules_insert rs r).
Proof.
  induction rs as [|x rs IH]; intros r H Hr; simpl.
  - constructor; [exact Hr | constructor].
  - inversion H as [|? ? Hx Hrs]; subst. destruct (str_eqb (r_name x) (r_name r)).
    + constructor; assumption.
    + constructor; [exact Hx | apply IH; assumption].
Qed.

Lemma awf_add_rule : forall a n sp at_, awf a -> W sp -> awf (add_rule a n sp at_).
Proof.
  intros a n sp at_ H Hw. unfold add_rule. awf_split H. apply rules_insert_wf; [assumption | exact Hw].
Qed.

Lemma rules_push_pidx_wf : forall rs n k rs', rules_push_pidx rs n k = Some rs' ->
  Forall (fun r => W (r_span r)) rs -> Forall (fun r => W (r_span r)) rs'.
Proof.
  induction rs as [|x rs IH]; intros n k rs' H HF; simpl in H; [discriminate H|].
  inversion HF as [|? ? Hx Hrs]; subst. destruct (str_eqb (r_name x) n).
  - injection H as <-. constructor; [exact Hx | exact Hrs].
  - destruct (rules_push_pidx rs n k) as [l|] eqn:Hl; [|discriminate H]. injection H as <-.
    constructor; [exact Hx | eapply IH; eassumption].
Qed.

Lemma awf_add_prod : forall a rn syms prec action sp a',
  awf a -> syms_wf syms -> act_wf fa src action -> W sp ->
  add_prod a rn syms prec action sp = Done a' -> awf a'.
Proof.
  intros a rn syms prec action sp a' H Hs Ha Hw Hadd. unfold add_prod in Hadd.
  destruct (rules_push_pidx (a_rules a) rn (List.length (a_prods a))) as [rs|] eqn:Hrs; [|discriminate Hadd].
  injection Hadd as <-. awf_split H.
  - eapply rules_push_pidx_wf; eassumption.
  - apply Forall_snoc; [assumption|]. split; [exact Hs | split; [exact Hw | exact Ha]].
Qed.

Lemma assoc_get_In : forall {V} (l : list (str * V)) n v, assoc_get l n = Some v -> exists k, In (k, v) l.
Proof.
  intros V l n v. induction l as [|[k w] l IH]; simpl; intros H; [discriminate H|].
  destruct (str_eqb k n).
  - injection H as <-. exists k. left. reflexivity.
  - destruct (IH H) as [k' Hk]. exists k'. right. exact Hk.
Qed.

(* ---- add_duplicate_occurrence ------------------------------------------- *)
Lemma dup_find_wf : forall l k o d r, Forall (ewf src) l -> W d ->
  dup_find l k o d = Done (Some r) -> Forall (ewf src) r.
Proof.
  induction l as [|e l IH]; intros k o d r Hl Hd H; simpl in H; [discriminate H|].
  inversion Hl as [|? ? He Hl']; subst.
  destruct (e_spans e) as [|s0 ss] eqn:Hsp.
  - destruct (ekind_eqb (e_kind e) k); [discriminate H|].
    destruct (dup_find l k o d) as [[r'|]| |] eqn:Hr; cbn [obind] in H; try discriminate H.
    injection H as <-. constructor; [exact He | eapply IH; eassumption].
  - destruct (ekind_eqb (e_kind e) k && ((fst s0 =? fst o) && (snd s0 =? snd o))).
    + injection H as <-. constructor; [|exact Hl']. unfold ewf in *. simpl. rewrite Hsp in He.
      apply (Forall_snoc W (s0 :: ss) d); assumption.
    + destruct (dup_find l k o d) as [[r'|]| |] eqn:Hr; cbn [obind] in H; try discriminate H.
      injection H as <-. constructor; [exact He | eapply IH; eassumption].
Qed.

Lemma add_dup_wf : forall l k o d r, Forall (ewf src) l -> W o -> W d ->
  add_duplicate_occurrence l k o d = Done r -> Forall (ewf src) r.
Proof.
  intros l k o d r Hl Ho Hd H. unfold add_duplicate_occurrence in H.
  destruct (dup_find l k o d) as [[r'|]| |] eqn:Hr; cbn [obind] in H; try discriminate H; injection H as <-.
  - eapply dup_find_wf; eassumption.
  - apply Forall_snoc; [exact Hl|]. unfold ewf. simpl. constructor; [exact Ho | constructor; [exact Hd | constructor]].
Qed.

(* ---- results of the stateful layer ----------------------------------------- *)
Definition sg {A} (P : A -> Prop) (x : sres A) : Prop :=
  match x with
  | Done (st, Ok a) => SI st /\ P a
  | Done (st, Err e) => SI st /\ ewf src e
  | _ => True
  end.

Lemma sg_bind : forall {A B} (P : A -> Prop) (Q : B -> Prop) (x : sres A) (f : pst -> A -> sres B),
  sg P x -> (forall st a, SI st -> P a -> sg Q (f st a)) -> sg Q (sbind x f).
Proof.
  intros A B P Q x f Hx Hf. destruct x as [[st [a|e]]| |]; simpl in *; try exact I.
  - destruct Hx. apply Hf; assumption.
  - exact Hx.
Qed.

Lemma sg_weaken : forall {A} (P Q : A -> Prop) (x : sres A), (forall a, P a -> Q a) -> sg P x -> sg Q x.
Proof.
  intros A P Q x H Hx. destruct x as [[st [a|e]]| |]; simpl in *; try exact I; [|exact Hx].
  destruct Hx. split; auto.
Qed.

Lemma sg_ret : forall {A} (P : A -> Prop) st a, SI st -> P a -> sg P (ret st a).
Proof. intros. simpl. split; assumption. Qed.
Lemma sg_fail : forall {A} (P : A -> Prop) st k off, SI st -> vpos src off -> sg P (@fail A st k off).
Proof. intros. simpl. split; [assumption | apply ewf_mk_error; assumption]. Qed.

Lemma sg_lift : forall {A} (P : A -> Prop) st (x : pres A), SI st -> lexE src P x -> sg P (lift st x).
Proof. intros A P st x HI Hx. destruct x as [[a|e]| |]; simpl in *; try exact I; split; assumption. Qed.

Lemma sg_lift_nn : forall {A} (P : A -> Prop) st (x : pres (A * nat)),
  SI st -> lexE src (fun r => P (fst r)) x -> sg P (lift_nn st x).
Proof.
  intros A P st x HI Hx. destruct x as [[[a n]|e]| |]; simpl in *; try exact I; split; try assumption.
Qed.

Lemma sg_span : forall st i j, SI st -> vpos src i -> vpos src j -> sg W (lifto st (mk_span i j)).
Proof.
  intros st i j HI Hi Hj. destruct (mk_span i j) as [sp| |] eqn:H; simpl; try exact I.
  split; [exact HI | exact (mk_span_wfs src i j sp Hi Hj H)].
Qed.

Lemma sg_dup : forall st k o d, SI st -> W o -> W d -> sg (fun _ : unit => True) (dup st k o d).
Proof.
  intros st k o d HI Ho Hd. unfold dup.
  destruct (add_duplicate_occurrence (errs st) k o d) as [l| |] eqn:H; simpl; try exact I.
  split; [|exact I]. apply SI_set_errs; [exact HI|]. exact (add_dup_wf (errs st) k o d l (proj1 HI) Ho Hd H).
Qed.

End Inv.
