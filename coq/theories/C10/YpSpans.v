(* C12 (yacc part) — proofs of YpSpansSpec.v: every span of every error, warning
   and AST node built by the mirror of YaccParser is well-formed.

   Partial-correctness style: "if the function returns, then ...".  Every span
   is built by [mk_span] (which checks start <= end), [mk_error] (off, off) or is
   the literal (0, 0), so it suffices to show that all offsets handed to them
   are valid cursor positions ([vpos], YpTotal.v). *)
From Coq Require Import List Arith NArith ZArith Bool Lia.
From GV Require Import Common.Outcome C10.YpModel C10.YpSpec C10.YpProofs C10.YpTotal C10.YpSpansSpec.
Import ListNotations.
Local Open Scope nat_scope.

(* ======================================================================== *)
(*  boundaries = valid cursor positions                                       *)
(* ======================================================================== *)
Lemma boundaries_from_iff : forall s off i,
  In i (boundaries_from s off) <-> exists pre r, s = pre ++ r /\ off + byte_len pre = i.
Proof.
  induction s as [|c s IH]; intros off i.
  - simpl. split.
    + intros [H|[]]. exists [], []. split; [reflexivity | simpl; lia].
    + intros [pre [r [H1 H2]]]. left. symmetry in H1. apply app_eq_nil in H1. destruct H1 as [-> _].
      simpl in H2. lia.
  - cbn [boundaries_from In]. rewrite IH. split.
    + intros [H|[pre [r [H1 H2]]]].
      * exists [], (c :: s). split; [reflexivity | simpl; lia].
      * exists (c :: pre), r. split; [simpl; congruence | simpl; lia].
    + intros [pre [r [H1 H2]]]. destruct pre as [|d pre].
      * left. simpl in H2. lia.
      * right. simpl in H1. injection H1 as <- H1. exists pre, r. split; [exact H1 | simpl in H2; lia].
Qed.

Lemma boundary_vpos : forall src i, boundary src i <-> vpos src i.
Proof. intros src i. unfold boundary, boundaries, vpos. rewrite boundaries_from_iff. simpl. reflexivity. Qed.

(* internal form of a well-formed span *)
Definition wfs (src : str) (sp : span) : Prop := vpos src (fst sp) /\ vpos src (snd sp) /\ fst sp <= snd sp.

Lemma wfs_wf_span : forall src sp, wfs src sp -> wf_span src sp.
Proof.
  intros src sp [H1 [H2 H3]]. split; [exact H3|]. split; [apply vpos_le; exact H2|].
  split; apply boundary_vpos; assumption.
Qed.

Lemma wfs_point : forall src i, vpos src i -> wfs src (i, i).
Proof. intros src i H. split; [exact H|]. split; [exact H | simpl; lia]. Qed.

Lemma mk_span_wfs : forall src i j sp, vpos src i -> vpos src j -> mk_span i j = Done sp -> wfs src sp.
Proof.
  intros src i j sp Hi Hj H. unfold mk_span in H. destruct (Nat.ltb_spec j i); [discriminate H|].
  injection H as <-. split; [exact Hi|]. split; [exact Hj | simpl; lia].
Qed.

Definition ewf (src : str) (e : yerr) : Prop := Forall (wfs src) (e_spans e).

Lemma ewf_mk_error : forall src k i, vpos src i -> ewf src (mk_error k i).
Proof. intros src k i H. unfold ewf, mk_error. simpl. constructor; [apply wfs_point; exact H | constructor]. Qed.

(* ======================================================================== *)
(*  Lexical layer                                                             *)
(* ======================================================================== *)
(* Ok results satisfy P, Err results carry well-formed spans *)
Definition lexE {A} (src : str) (P : A -> Prop) (x : pres A) : Prop :=
  match x with Done (Ok a) => P a | Done (Err e) => ewf src e | _ => True end.

Lemma lexE_of : forall {A} src (P : A -> Prop) (x : pres A),
  lex_post P x -> (forall e, x = Done (Err e) -> ewf src e) -> lexE src P x.
Proof.
  intros A src P x H1 H2. destruct x as [[a|e]| |]; simpl in *; try exact I; [exact H1 | apply H2; reflexivity].
Qed.

Lemma lexE_weaken : forall {A} src (P Q : A -> Prop) (x : pres A),
  (forall a, P a -> Q a) -> lexE src P x -> lexE src Q x.
Proof. intros A src P Q x H Hx. destruct x as [[a|e]| |]; simpl in *; auto. Qed.

Lemma ws_loop_E : forall fixed src fuel f nn i inc,
  byte_len src < fuel -> vpos src i ->
  lexE src (fun r => vpos src (fst r)) (ws_loop fixed src (byte_len src) fuel f nn i inc).
Proof.
  intros fixed src fuel f. induction f as [|f IH]; intros nn i inc Hfuel Hv; [exact I|].
  cbn [ws_loop]. destruct (Nat.ltb_spec i (byte_len src)) as [Hlt|Hge]; cbn [negb].
  2:{ simpl. exact Hv. }
  destruct (vpos_next src i Hv Hlt) as [c [Hnc [_ Hv1]]]. rewrite Hnc. cbn [obind].
  destruct (is_sptab c); [apply IH; assumption|].
  destruct (is_nl c).
  { destruct inc; cbn [negb]; [apply IH; assumption | simpl; apply ewf_mk_error; exact Hv]. }
  destruct (c =? c_slash)%N; [|simpl; exact Hv].
  destruct (Nat.eqb_spec (i + len_utf8 c) (byte_len src)) as [He|Hne]; [simpl; exact Hv|].
  assert (Hlt1 : i + len_utf8 c < byte_len src) by (pose proof (vpos_le _ _ Hv1); lia).
  destruct (vpos_next src _ Hv1 Hlt1) as [c2 [Hnc2 [_ Hv2]]]. rewrite Hnc2. cbn [obind].
  destruct (c2 =? c_slash)%N.
  - destruct (vpos_slice_from src _ Hv2) as [pre [r [Hs [Hb Hsf]]]]. rewrite Hsf. cbn [obind].
    destruct (line_comment_vpos r src pre (i + len_utf8 c + len_utf8 c2) nn Hs Hb) as [Hl1 _].
    destruct (line_comment r (i + len_utf8 c + len_utf8 c2) nn) as [i2 nn2]. simpl in Hl1.
    apply IH; assumption.
  - destruct (c2 =? c_star)%N; [|simpl; exact Hv].
    destruct (block_loop_total fixed src fuel (i + len_utf8 c + len_utf8 c2) nn inc Hv2) as [b [Hb Hp]]; [lia|].
    rewrite Hb. cbn [obind]. destruct b as [i' nn'| |].
    + destruct Hp as [Hp1 _]. apply IH; assumption.
    + simpl. apply ewf_mk_error; exact Hv.
    + simpl. apply ewf_mk_error; exact Hv.
Qed.

Lemma lex_post_weaken : forall {A} (P Q : A -> Prop) (x : pres A),
  (forall a, P a -> Q a) -> lex_post P x -> lex_post Q x.
Proof. intros A P Q x H Hx. destruct x as [[a|e]| |]; simpl in *; auto. Qed.

Lemma parse_ws_E : forall fixed src fuel nn i inc,
  byte_len src < fuel -> vpos src i ->
  lexE src (fun r => vpos src (fst r)) (parse_ws fixed src (byte_len src) fuel nn i inc).
Proof. intros. unfold parse_ws. apply ws_loop_E; assumption. Qed.

Lemma parse_name_E : forall src i, vpos src i ->
  lexE src (fun r => vpos src (fst r)) (parse_name src i).
Proof.
  intros src i Hv. apply lexE_of.
  - eapply lex_post_weaken; [|apply parse_name_total; exact Hv]. intros a [H _]. exact H.
  - intros e He. unfold parse_name in He.
    destruct (slice_from src i) as [r| |]; cbn [obind] in He; try discriminate He.
    destruct (re_name r) as [n|].
    + destruct (slice src i (i + n)); cbn [obind] in He; discriminate He.
    + injection He as <-. apply ewf_mk_error; exact Hv.
Qed.

(* parse_token: cursor and span *)
Lemma parse_token_E : forall src i, vpos src i ->
  lexE src (fun r => vpos src (fst (fst (fst r))) /\ wfs src (snd (fst r))) (parse_token src i).
Proof.
  intros src i Hv. destruct (vpos_slice_from src i Hv) as [pre [r [Hs [Hb Hsf]]]].
  unfold parse_token. rewrite Hsf. cbn [obind].
  destruct r as [|c r']; [simpl; apply ewf_mk_error; exact Hv|]. cbn [re_token].
  assert (Hnc : next_char src i = Done c) by (rewrite Hs, <- Hb; apply next_char_app).
  destruct ((c =? c_dq) || (c =? c_sq))%N eqn:Hq.
  - assert (Hc1 : len_utf8 c = 1).
    { apply orb_true_iff in Hq. destruct Hq as [H|H]; apply N.eqb_eq in H; subst c; reflexivity. }
    destruct r' as [|c1 r'']; [simpl; apply ewf_mk_error; exact Hv|].
    destruct (c1 =? c_nl)%N; [simpl; apply ewf_mk_error; exact Hv|].
    destruct (scan_quote c r'') as [n|] eqn:Hsq; [|simpl; apply ewf_mk_error; exact Hv].
    destruct (scan_quote_split c r'' n Hsq) as [m [t [Hr Hm]]].
    rewrite Hnc. cbn [obind]. rewrite Hq.
    pose proof (len_utf8_pos c1) as Hc1p.
    destruct (Nat.eqb_spec (i + (1 + len_utf8 c1 + n + 1)) 0) as [H0|_]; [lia|].
    assert (Hsrc1 : src = (pre ++ [c]) ++ (c1 :: m) ++ c :: t)
      by (rewrite Hs, Hr, <- app_assoc; reflexivity).
    assert (Hv1 : vpos src (i + 1)).
    { replace (i + 1) with (byte_len (pre ++ [c])) by (rewrite byte_len_snoc; lia).
      apply (vpos_app _ _ _ Hsrc1). }
    assert (Hsrc2 : src = (pre ++ [c] ++ c1 :: m) ++ c :: t)
      by (rewrite Hsrc1; repeat rewrite <- app_assoc; reflexivity).
    assert (Hv2 : vpos src (i + (1 + len_utf8 c1 + n + 1) - 1)).
    { replace (i + (1 + len_utf8 c1 + n + 1) - 1) with (byte_len (pre ++ [c] ++ c1 :: m))
        by (rewrite !byte_len_app; simpl byte_len; lia).
      apply (vpos_app _ _ _ Hsrc2). }
    destruct (vpos_slice src _ _ Hv1 Hv2) as [s [Hsl _]]; [lia|].
    rewrite Hsl. cbn [obind]. rewrite mk_span_total by lia. cbn [obind]. simpl.
    split; [|split; [exact Hv1 | split; [exact Hv2 | simpl; lia]]].
    assert (Hsrc3 : src = ((pre ++ [c] ++ c1 :: m) ++ [c]) ++ t)
      by (rewrite Hsrc2; repeat rewrite <- app_assoc; reflexivity).
    match goal with |- vpos src ?x =>
      replace x with (byte_len ((pre ++ [c] ++ c1 :: m) ++ [c]))
        by (rewrite !byte_len_app; simpl byte_len; lia) end.
    apply (vpos_app _ _ _ Hsrc3).
  - destruct (tok_start c) eqn:Hc; [|simpl; apply ewf_mk_error; exact Hv].
    destruct (count_while_split tok_cont r') as [m [t [Hr [Hlen Hm]]]].
    set (k := count_while tok_cont r') in *.
    assert (Hbl : byte_len (c :: m) = S k).
    { rewrite (byte_len_ascii tok_cont (c :: m) tok_cont_ascii).
      - simpl. congruence.
      - simpl. unfold tok_cont at 1. unfold tok_start in Hc. rewrite Hc. exact Hm. }
    assert (Hsrc : src = pre ++ (c :: m) ++ t) by (rewrite Hs, Hr; reflexivity).
    assert (Hsl : slice src i (i + S k) = Done (c :: m)).
    { rewrite <- Hbl, <- Hb. rewrite Hsrc. apply slice_app. }
    rewrite Hnc. cbn [obind]. rewrite Hq. rewrite Hsl. cbn [obind].
    rewrite mk_span_total by lia. cbn [obind]. simpl.
    assert (Hsrc' : src = (pre ++ c :: m) ++ t) by (rewrite Hsrc, <- app_assoc; reflexivity).
    assert (Hve : vpos src (i + S k)).
    { replace (i + S k) with (byte_len (pre ++ c :: m)) by (rewrite byte_len_app; lia).
      apply (vpos_app _ _ _ Hsrc'). }
    split; [exact Hve | split; [exact Hv | split; [exact Hve | simpl; lia]]].
Qed.

Lemma parse_to_eol_E : forall src fuel i, byte_len src < fuel -> vpos src i ->
  lexE src (fun r => vpos src (fst r)) (parse_to_eol src (byte_len src) fuel i).
Proof.
  intros src fuel i Hfuel Hv. apply lexE_of.
  - eapply lex_post_weaken; [|apply parse_to_eol_total; assumption]. intros a [H _]. exact H.
  - intros e He. unfold parse_to_eol in He.
    destruct (eol_loop src (byte_len src) fuel i) as [j| |]; cbn [obind] in He; try discriminate He.
    destruct (slice src i j); cbn [obind] in He; discriminate He.
Qed.

Lemma parse_int_E : forall src fuel i, byte_len src < fuel -> vpos src i ->
  lexE src (fun r => vpos src (fst r)) (parse_int src (byte_len src) fuel i).
Proof.
  intros src fuel i Hfuel Hv. apply lexE_of.
  - eapply lex_post_weaken; [|apply parse_int_total; assumption]. intros a [H _]. exact H.
  - intros e He. unfold parse_int in He.
    destruct (int_loop src (byte_len src) fuel i) as [j| |]; cbn [obind] in He; try discriminate He.
    destruct (slice src i j) as [s| |]; cbn [obind] in He; try discriminate He.
    destruct (parse_usize s); [discriminate He|]. injection He as <-. apply ewf_mk_error; exact Hv.
Qed.

Lemma colon_loop_E : forall src f i j nn, vpos src i -> vpos src j ->
  lexE src (fun r => vpos src (fst (fst r))) (colon_loop src (byte_len src) f i j nn).
Proof.
  intros src f. induction f as [|f IH]; intros i j nn Hvi Hv; [exact I|].
  cbn [colon_loop]. destruct (Nat.ltb_spec j (byte_len src)) as [Hlt|Hge]; cbn [negb];
    [|simpl; apply ewf_mk_error; exact Hv].
  destruct (vpos_next src j Hv Hlt) as [c [Hnc [_ Hv1]]]. rewrite Hnc. cbn [obind].
  destruct (c =? c_colon)%N eqn:Hcc.
  2:{ destruct (is_nl c); apply IH; assumption. }
  apply N.eqb_eq in Hcc. subst c. change (len_utf8 c_colon) with 1 in *.
  destruct (Nat.eqb_spec (j + 1) (byte_len src)) as [He|Hne].
  - cbn [obind]. destruct (slice src i j); cbn [obind]; simpl; try exact I. exact Hv.
  - destruct (vpos_slice_from src (j + 1) Hv1) as [pre [r [Hs [Hb Hsf]]]]. rewrite Hsf. cbn [obind].
    destruct (prefix_of [c_colon] r) eqn:Hp; cbn [negb].
    + destruct (prefix_of_app _ _ Hp) as [t Ht].
      assert (Hv2 : vpos src (j + 2)).
      { replace (j + 2) with (byte_len (pre ++ [c_colon]))
          by (rewrite byte_len_snoc; change (len_utf8 c_colon) with 1; lia).
        apply (vpos_app src (pre ++ [c_colon]) t). rewrite Hs, Ht, <- app_assoc. reflexivity. }
      apply IH; assumption.
    + destruct (slice src i j); cbn [obind]; simpl; try exact I. exact Hv.
Qed.

Lemma parse_to_single_colon_E : forall src fuel nn i, vpos src i ->
  lexE src (fun r => vpos src (fst (fst r))) (parse_to_single_colon src (byte_len src) fuel nn i).
Proof. intros. unfold parse_to_single_colon. apply colon_loop_E; assumption. Qed.

Lemma string_loop_E : forall src f qc i j s, len_utf8 qc = 1 -> vpos src j ->
  lexE src (fun r => vpos src (fst r)) (string_loop src (byte_len src) f qc i j s).
Proof.
  intros src f. induction f as [|f IH]; intros qc i j s Hq1 Hv; [exact I|].
  cbn [string_loop]. destruct (Nat.ltb_spec j (byte_len src)) as [Hlt|Hge]; cbn [negb];
    [|simpl; apply ewf_mk_error; exact Hv].
  destruct (vpos_next src j Hv Hlt) as [c [Hnc [_ Hv1]]]. rewrite Hnc. cbn [obind].
  destruct (is_nl c); [simpl; apply ewf_mk_error; exact Hv|].
  destruct (c =? qc)%N eqn:Hq.
  { destruct (slice src i j); cbn [obind]; simpl; try exact I.
    apply N.eqb_eq in Hq. subst qc. rewrite Hq1 in Hv1. exact Hv1. }
  destruct (c =? c_bslash)%N eqn:Hb.
  - apply N.eqb_eq in Hb. subst c. change (len_utf8 c_bslash) with 1 in Hv1.
    destruct (char_at_total src (j + 1) Hv1) as [o Ho]. rewrite Ho. cbn [obind].
    destruct o as [c2|]; [|simpl; apply ewf_mk_error; exact Hv].
    destruct ((c2 =? c_sq) || (c2 =? c_dq))%N eqn:Hc2; [|simpl; apply ewf_mk_error; exact Hv].
    destruct (slice src i j); cbn [obind]; try exact I.
    destruct (char_at_some src (j + 1) c2 Hv1 Ho) as [Hv2 _].
    assert (H21 : len_utf8 c2 = 1).
    { apply orb_true_iff in Hc2. destruct Hc2 as [H|H]; apply N.eqb_eq in H; subst c2; reflexivity. }
    rewrite H21 in Hv2. replace (j + 1 + 1) with (j + 2) in Hv2 by lia.
    apply IH; assumption.
  - apply IH; assumption.
Qed.

Lemma parse_string_E : forall src fuel i, vpos src i ->
  lexE src (fun r => vpos src (fst r)) (parse_string src (byte_len src) fuel i).
Proof.
  intros src fuel i Hv. unfold parse_string.
  destruct (vpos_look src [c_sq] i Hv) as [o1 [H1 P1]]. rewrite H1. cbn [obind].
  destruct o1 as [k1|].
  - cbn [obind]. simpl in P1. destruct P1 as [Hk Hvk]. change (byte_len [c_sq]) with 1 in Hk. subst k1.
    apply string_loop_E; [reflexivity | exact Hvk].
  - destruct (vpos_look src [c_dq] i Hv) as [o2 [H2 P2]]. rewrite H2. cbn [obind].
    destruct o2 as [k2|]; [|simpl; apply ewf_mk_error; exact Hv].
    simpl in P2. destruct P2 as [Hk Hvk]. change (byte_len [c_dq]) with 1 in Hk. subst k2.
    apply string_loop_E; [reflexivity | exact Hvk].
Qed.

Lemma parse_action_E : forall src fuel nn i k,
  byte_len src < fuel -> vpos src i -> lookahead_is src [c_lbrace] i = Done (Some k) ->
  lexE src (fun r => vpos src (fst (fst r)) /\ act_rel src i (fst (fst r)) (snd (fst r)))
       (parse_action src (byte_len src) fuel nn i).
Proof.
  intros src fuel nn i k Hfuel Hv Hla.
  pose proof (parse_action_total src fuel nn i k Hfuel Hv Hla) as H1.
  pose proof (parse_action_rel src fuel nn i k Hfuel Hv Hla) as H2.
  assert (He : forall e, parse_action src (byte_len src) fuel nn i = Done (Err e) -> ewf src e).
  { intros e He. unfold parse_action in He. rewrite Hla in He. cbn [obind] in He.
    destruct (action_loop src (byte_len src) fuel i 0%Z nn) as [[[j c] nn']| |]; cbn [obind] in He;
      try discriminate He.
    destruct (0 <? c)%Z; [injection He as <-; apply ewf_mk_error; exact Hv|].
    destruct (lookahead_is src [c_rbrace] j) as [[lb|]| |]; cbn [obind] in He; try discriminate He.
    destruct (slice src (i + 1) j); cbn [obind] in He; discriminate He. }
  destruct (parse_action src (byte_len src) fuel nn i) as [[a|e]| |]; simpl in *; try exact I.
  - split; [exact (proj1 H1) | exact H2].
  - apply He. reflexivity.
Qed.

(* ======================================================================== *)
(*  Action spans                                                              *)
(* ======================================================================== *)
(* start on a boundary, start <= end <= |src|; end on a boundary with the repair *)
Definition act_wf (fa : bool) (src : str) (act : option (str * span)) : Prop :=
  match act with
  | Some (_, sp) => vpos src (fst sp) /\ fst sp <= snd sp /\ snd sp <= byte_len src /\
                    (fa = true -> vpos src (snd sp))
  | None => True
  end.

Lemma action_span_wf : forall fa src i j a asp,
  act_rel src i j a -> action_span fa src (i + 1) a = Done asp -> act_wf fa src (Some (a, asp)).
Proof.
  intros fa src i j a asp [pre [s [rest [Hsrc [Hi [Hj Ha]]]]]] Hsp.
  assert (Hsrc1 : src = (pre ++ [c_lbrace]) ++ s ++ c_rbrace :: rest)
    by (rewrite Hsrc, <- app_assoc; reflexivity).
  assert (Hi1 : byte_len (pre ++ [c_lbrace]) = i + 1)
    by (rewrite byte_len_snoc; change (len_utf8 c_lbrace) with 1; lia).
  destruct (drop_while_prefix is_whitespace s) as [w1 Hw1].
  destruct (trim_end_suffix (drop_while is_whitespace s)) as [w2 Hw2].
  assert (Hat : a = trim_end (drop_while is_whitespace s)) by (rewrite Ha; reflexivity).
  rewrite <- Hat in Hw2.
  assert (Hlen : byte_len s = byte_len w1 + byte_len a + byte_len w2).
  { rewrite Hw1 at 1. rewrite byte_len_app. rewrite Hw2 at 1. rewrite byte_len_app. lia. }
  assert (Hsl : byte_len src = i + 1 + byte_len s + 1 + byte_len rest).
  { rewrite Hsrc1. rewrite byte_len_app, Hi1, byte_len_app. simpl byte_len. change (len_utf8 c_rbrace) with 1. lia. }
  unfold action_span in Hsp. destruct fa.
  - assert (Hsf : slice_from src (i + 1) = Done (s ++ c_rbrace :: rest)).
    { rewrite <- Hi1. rewrite Hsrc1. apply slice_from_app. }
    rewrite Hsf in Hsp. cbn [obind] in Hsp.
    unfold trim_start in Hsp. rewrite drop_while_app_stop in Hsp by reflexivity.
    assert (Hlead : byte_len (s ++ c_rbrace :: rest) - byte_len (drop_while is_whitespace s ++ c_rbrace :: rest)
                    = byte_len w1).
    { rewrite Hw1 at 1. rewrite !byte_len_app. lia. }
    rewrite Hlead in Hsp. rewrite mk_span_total in Hsp by lia. injection Hsp as <-.
    assert (Hsrc2 : src = (pre ++ [c_lbrace] ++ w1) ++ a ++ (w2 ++ c_rbrace :: rest)).
    { rewrite Hsrc1. rewrite Hw1 at 1. rewrite Hw2 at 1. repeat rewrite <- app_assoc. reflexivity. }
    assert (Hb1 : byte_len (pre ++ [c_lbrace] ++ w1) = i + 1 + byte_len w1)
      by (rewrite !byte_len_app; simpl byte_len; change (len_utf8 c_lbrace) with 1; lia).
    assert (Hv1 : vpos src (i + 1 + byte_len w1)) by (rewrite <- Hb1; apply (vpos_app _ _ _ Hsrc2)).
    assert (Hv2 : vpos src (i + 1 + byte_len w1 + byte_len a)).
    { replace (i + 1 + byte_len w1 + byte_len a) with (byte_len ((pre ++ [c_lbrace] ++ w1) ++ a))
        by (rewrite byte_len_app, Hb1; lia).
      apply (vpos_app src _ (w2 ++ c_rbrace :: rest)). rewrite Hsrc2 at 1. apply app_assoc. }
    simpl. split; [exact Hv1|]. split; [lia|]. split; [lia|]. intros _. exact Hv2.
  - rewrite mk_span_total in Hsp by lia. injection Hsp as <-.
    simpl. split; [rewrite <- Hi1; apply (vpos_app _ _ _ Hsrc1)|]. split; [lia|]. split; [lia|].
    intros H; discriminate H.
Qed.

(* ======================================================================== *)
(*  AST and state invariants                                                  *)
(* ======================================================================== *)
Definition oforall {A} (P : A -> Prop) (o : option A) : Prop :=
  match o with Some x => P x | None => True end.

Section Inv.
Variable fa : bool.
Variable src : str.
Local Notation W := (wfs src).

Definition syms_wf (l : list symbol) : Prop := Forall (fun s => W (sym_span s)) l.
Definition prod_wf (p : production) : Prop :=
  syms_wf (p_syms p) /\ W (p_span p) /\ act_wf fa src (p_action p).
Definition nsp_wf (l : list (str * span)) : Prop := Forall (fun x => W (snd x)) l.

Definition awf (a : gast) : Prop :=
  oforall (fun x : str * span => W (snd x)) (a_start a) /\
  Forall (fun r => W (r_span r)) (a_rules a) /\
  Forall prod_wf (a_prods a) /\
  Forall W (a_spans a) /\
  Forall (fun x : str * (nat * assoc * span) => W (snd (snd x))) (a_precs a) /\
  oforall nsp_wf (a_avoid_insert a) /\
  oforall nsp_wf (a_implicit_tokens a) /\
  Forall (fun x : str * (span * (str * span)) => W (fst (snd x)) /\ W (snd (snd (snd x)))) (a_epp a) /\
  oforall (fun x : N * span => W (snd x)) (a_expect a) /\
  oforall (fun x : N * span => W (snd x)) (a_expectrr a) /\
  syms_wf (a_expect_unused a).

Definition SI (st : pst) : Prop :=
  Forall (ewf src) (errs st) /\ awf (ast st) /\ oforall (fun x : str * span => W (snd x)) (gat st).

Lemma SI_awf : forall st, SI st -> awf (ast st).
Proof. intros st H. exact (proj1 (proj2 H)). Qed.

Lemma SI_set_ast : forall st a, SI st -> awf a -> SI (set_ast st a).
Proof. intros st a [H1 [_ H3]] Ha. split; [exact H1|]. split; [exact Ha | exact H3]. Qed.

Lemma SI_set_gat : forall st n sp, SI st -> W sp -> SI (set_gat st (Some (n, sp))).
Proof. intros st n sp [H1 [H2 _]] Hw. split; [exact H1|]. split; [exact H2 | exact Hw]. Qed.

Lemma SI_set_errs : forall st l, SI st -> Forall (ewf src) l -> SI (set_errs st l).
Proof. intros st l [_ [H2 H3]] Hl. split; [exact Hl|]. split; [exact H2 | exact H3]. Qed.

Lemma Forall_snoc : forall {A} (P : A -> Prop) l x, Forall P l -> P x -> Forall P (l ++ [x]).
Proof. intros A P l x Hl Hx. apply Forall_app. split; [exact Hl | constructor; [exact Hx | constructor]]. Qed.

(* one tactic for all "update one field" lemmas *)
Ltac awf_split H :=
  destruct H as (Hw1 & Hw2 & Hw3 & Hw4 & Hw5 & Hw6 & Hw7 & Hw8 & Hw9 & Hw10 & Hw11);
  unfold awf; simpl; repeat match goal with |- _ /\ _ => split end; try assumption.

Lemma awf_new : awf ast_new.
Proof. unfold awf, ast_new, syms_wf. simpl. repeat split; constructor. Qed.

Lemma awf_upd_start : forall a n sp, awf a -> W sp -> awf (upd_start a (Some (n, sp))).
Proof. intros a n sp H Hw. awf_split H. Qed.
Lemma awf_upd_tokdirs : forall a v, awf a -> awf (upd_tokdirs a v).
Proof. intros a v H. awf_split H. Qed.
Lemma awf_upd_tokspans : forall a t sp, awf a -> W sp -> awf (upd_spans (upd_tokens a t) (a_spans a ++ [sp])).
Proof. intros a t sp H Hw. awf_split H. apply Forall_snoc; assumption. Qed.
Lemma awf_upd_epp : forall a n sp v vsp, awf a -> W sp -> W vsp ->
  awf (upd_epp a (a_epp a ++ [(n, (sp, (v, vsp)))])).
Proof. intros a n sp v vsp H Hw Hw'. awf_split H. apply Forall_snoc; [assumption | split; assumption]. Qed.
Lemma awf_upd_expect : forall a n sp, awf a -> W sp -> awf (upd_expect a (Some (n, sp))).
Proof. intros a n sp H Hw. awf_split H. Qed.
Lemma awf_upd_expectrr : forall a n sp, awf a -> W sp -> awf (upd_expectrr a (Some (n, sp))).
Proof. intros a n sp H Hw. awf_split H. Qed.
Lemma awf_upd_expect_unused : forall a s, awf a -> W (sym_span s) ->
  awf (upd_expect_unused a (a_expect_unused a ++ [s])).
Proof. intros a s H Hw. awf_split H. apply Forall_snoc; assumption. Qed.
Lemma awf_upd_avoid : forall a m, awf a -> nsp_wf m -> awf (upd_avoid a (Some m)).
Proof. intros a m H Hw. awf_split H. Qed.
Lemma awf_upd_implicit : forall a m, awf a -> nsp_wf m -> awf (upd_implicit a (Some m)).
Proof. intros a m H Hw. awf_split H. Qed.
Lemma awf_upd_parse_param : forall a v, awf a -> awf (upd_parse_param a v).
Proof. intros a v H. awf_split H. Qed.
Lemma awf_upd_parse_generics : forall a v, awf a -> awf (upd_parse_generics a v).
Proof. intros a v H. awf_split H. Qed.
Lemma awf_upd_programs : forall a v, awf a -> awf (upd_programs a v).
Proof. intros a v H. awf_split H. Qed.
Lemma awf_upd_precs : forall a n lvl k sp, awf a -> W sp ->
  awf (upd_precs a (a_precs a ++ [(n, (lvl, k, sp))])).
Proof. intros a n lvl k sp H Hw. awf_split H. apply Forall_snoc; assumption. Qed.

Lemma awf_tokens_insert : forall a n sp, awf a -> W sp -> awf (tokens_insert a n sp).
Proof.
  intros a n sp H Hw. unfold tokens_insert. destruct (insert_full (a_tokens a) n) as [[idx fresh] toks].
  destruct fresh; [apply awf_upd_tokspans; assumption | exact H].
Qed.

Lemma rules_insert_wf : forall rs r, Forall (fun r => W (r_span r)) rs -> W (r_span r) ->
  Forall (fun r => W (r_span r)) (rules_insert rs r).
Proof.
  induction rs as [|x rs IH]; intros r H Hr; simpl.
  - constructor; [exact Hr | constructor].
  - inversion H as [|? ? Hx Hrs]; subst. destruct (str_eqb (r_name x) (r_name r)).
    + constructor; assumption.
    + constructor; [exact Hx | apply IH; assumption].
Qed.

Lemma awf_add_rule : forall a n sp at_, awf a -> W sp -> awf (add_rule a n sp at_).
Proof.
  intros a n sp at_ H Hw. unfold add_rule. awf_split H. apply rules_insert_wf; [assumption | exact Hw].
Qed.

Lemma rules_push_pidx_wf : forall rs n k rs', rules_push_pidx rs n k = Some rs' ->
  Forall (fun r => W (r_span r)) rs -> Forall (fun r => W (r_span r)) rs'.
Proof.
  induction rs as [|x rs IH]; intros n k rs' H HF; simpl in H; [discriminate H|].
  inversion HF as [|? ? Hx Hrs]; subst. destruct (str_eqb (r_name x) n).
  - injection H as <-. constructor; [exact Hx | exact Hrs].
  - destruct (rules_push_pidx rs n k) as [l|] eqn:Hl; [|discriminate H]. injection H as <-.
    constructor; [exact Hx | eapply IH; eassumption].
Qed.

Lemma awf_add_prod : forall a rn syms prec action sp a',
  awf a -> syms_wf syms -> act_wf fa src action -> W sp ->
  add_prod a rn syms prec action sp = Done a' -> awf a'.
Proof.
  intros a rn syms prec action sp a' H Hs Ha Hw Hadd. unfold add_prod in Hadd.
  destruct (rules_push_pidx (a_rules a) rn (List.length (a_prods a))) as [rs|] eqn:Hrs; [|discriminate Hadd].
  injection Hadd as <-. awf_split H.
  - eapply rules_push_pidx_wf; eassumption.
  - apply Forall_snoc; [assumption|]. split; [exact Hs | split; [exact Hw | exact Ha]].
Qed.

Lemma assoc_get_In : forall {V} (l : list (str * V)) n v, assoc_get l n = Some v -> exists k, In (k, v) l.
Proof.
  intros V l n v. induction l as [|[k w] l IH]; simpl; intros H; [discriminate H|].
  destruct (str_eqb k n).
  - injection H as <-. exists k. left. reflexivity.
  - destruct (IH H) as [k' Hk]. exists k'. right. exact Hk.
Qed.

(* ---- add_duplicate_occurrence ------------------------------------------- *)
Lemma dup_find_wf : forall l k o d r, Forall (ewf src) l -> W d ->
  dup_find l k o d = Done (Some r) -> Forall (ewf src) r.
Proof.
  induction l as [|e l IH]; intros k o d r Hl Hd H; simpl in H; [discriminate H|].
  inversion Hl as [|? ? He Hl']; subst.
  destruct (e_spans e) as [|s0 ss] eqn:Hsp.
  - destruct (ekind_eqb (e_kind e) k); [discriminate H|].
    destruct (dup_find l k o d) as [[r'|]| |] eqn:Hr; cbn [obind] in H; try discriminate H.
    injection H as <-. constructor; [exact He | eapply IH; eassumption].
  - destruct (ekind_eqb (e_kind e) k && ((fst s0 =? fst o) && (snd s0 =? snd o))).
    + injection H as <-. constructor; [|exact Hl']. unfold ewf in *. simpl. rewrite Hsp in He.
      apply (Forall_snoc W (s0 :: ss) d); assumption.
    + destruct (dup_find l k o d) as [[r'|]| |] eqn:Hr; cbn [obind] in H; try discriminate H.
      injection H as <-. constructor; [exact He | eapply IH; eassumption].
Qed.

Lemma add_dup_wf : forall l k o d r, Forall (ewf src) l -> W o -> W d ->
  add_duplicate_occurrence l k o d = Done r -> Forall (ewf src) r.
Proof.
  intros l k o d r Hl Ho Hd H. unfold add_duplicate_occurrence in H.
  destruct (dup_find l k o d) as [[r'|]| |] eqn:Hr; cbn [obind] in H; try discriminate H; injection H as <-.
  - eapply dup_find_wf; eassumption.
  - apply Forall_snoc; [exact Hl|]. unfold ewf. simpl. constructor; [exact Ho | constructor; [exact Hd | constructor]].
Qed.

(* ---- results of the stateful layer ----------------------------------------- *)
Definition sg {A} (P : A -> Prop) (x : sres A) : Prop :=
  match x with
  | Done (st, Ok a) => SI st /\ P a
  | Done (st, Err e) => SI st /\ ewf src e
  | _ => True
  end.

Lemma sg_bind : forall {A B} (P : A -> Prop) (Q : B -> Prop) (x : sres A) (f : pst -> A -> sres B),
  sg P x -> (forall st a, SI st -> P a -> sg Q (f st a)) -> sg Q (sbind x f).
Proof.
  intros A B P Q x f Hx Hf. destruct x as [[st [a|e]]| |]; simpl in *; try exact I.
  - destruct Hx. apply Hf; assumption.
  - exact Hx.
Qed.

Lemma sg_weaken : forall {A} (P Q : A -> Prop) (x : sres A), (forall a, P a -> Q a) -> sg P x -> sg Q x.
Proof.
  intros A P Q x H Hx. destruct x as [[st [a|e]]| |]; simpl in *; try exact I; [|exact Hx].
  destruct Hx. split; auto.
Qed.

Lemma sg_ret : forall {A} (P : A -> Prop) st a, SI st -> P a -> sg P (ret st a).
Proof. intros. simpl. split; assumption. Qed.
Lemma sg_fail : forall {A} (P : A -> Prop) st k off, SI st -> vpos src off -> sg P (@fail A st k off).
Proof. intros. simpl. split; [assumption | apply ewf_mk_error; assumption]. Qed.

Lemma sg_lift : forall {A} (P : A -> Prop) st (x : pres A), SI st -> lexE src P x -> sg P (lift st x).
Proof. intros A P st x HI Hx. destruct x as [[a|e]| |]; simpl in *; try exact I; split; assumption. Qed.

Lemma sg_lift_nn : forall {A} (P : A -> Prop) st (x : pres (A * nat)),
  SI st -> lexE src (fun r => P (fst r)) x -> sg P (lift_nn st x).
Proof.
  intros A P st x HI Hx. destruct x as [[[a n]|e]| |]; simpl in *; try exact I; split; try assumption.
Qed.

Lemma sg_span : forall st i j, SI st -> vpos src i -> vpos src j -> sg W (lifto st (mk_span i j)).
Proof.
  intros st i j HI Hi Hj. destruct (mk_span i j) as [sp| |] eqn:H; simpl; try exact I.
  split; [exact HI | exact (mk_span_wfs src i j sp Hi Hj H)].
Qed.

Lemma sg_dup : forall st k o d, SI st -> W o -> W d -> sg (fun _ : unit => True) (dup st k o d).
Proof.
  intros st k o d HI Ho Hd. unfold dup.
  destruct (add_duplicate_occurrence (errs st) k o d) as [l| |] eqn:H; simpl; try exact I.
  split; [|exact I]. apply SI_set_errs; [exact HI|]. exact (add_dup_wf (errs st) k o d l (proj1 HI) Ho Hd H).
Qed.

End Inv.

Section InvGet.
Variable fa : bool.
Variable src : str.
Local Notation W := (wfs src).
Local Notation awf := (awf fa src).

Lemma awf_start : forall a n sp, awf a -> a_start a = Some (n, sp) -> W sp.
Proof. intros a n sp H E. destruct H as (H1 & _). rewrite E in H1. exact H1. Qed.
Lemma awf_expect : forall a n sp, awf a -> a_expect a = Some (n, sp) -> W sp.
Proof. intros a n sp H E. destruct H as (_ & _ & _ & _ & _ & _ & _ & _ & H9 & _). rewrite E in H9. exact H9. Qed.
Lemma awf_expectrr : forall a n sp, awf a -> a_expectrr a = Some (n, sp) -> W sp.
Proof. intros a n sp H E. destruct H as (_ & _ & _ & _ & _ & _ & _ & _ & _ & H10 & _). rewrite E in H10. exact H10. Qed.
Lemma awf_epp_get : forall a n orig x, awf a -> assoc_get (a_epp a) n = Some (orig, x) -> W orig.
Proof.
  intros a n orig x H E. destruct H as (_ & _ & _ & _ & _ & _ & _ & H8 & _).
  destruct (assoc_get_In _ _ _ E) as [k Hk]. rewrite Forall_forall in H8. exact (proj1 (H8 _ Hk)).
Qed.
Lemma awf_precs_get : forall a n x orig, awf a -> assoc_get (a_precs a) n = Some (x, orig) -> W orig.
Proof.
  intros a n x orig H E. destruct H as (_ & _ & _ & _ & H5 & _).
  destruct (assoc_get_In _ _ _ E) as [k Hk]. rewrite Forall_forall in H5. exact (H5 _ Hk).
Qed.
Lemma awf_avoid : forall a m, awf a -> a_avoid_insert a = Some m -> nsp_wf src m.
Proof. intros a m H E. destruct H as (_ & _ & _ & _ & _ & H6 & _). rewrite E in H6. exact H6. Qed.
Lemma awf_implicit : forall a m, awf a -> a_implicit_tokens a = Some m -> nsp_wf src m.
Proof. intros a m H E. destruct H as (_ & _ & _ & _ & _ & _ & H7 & _). rewrite E in H7. exact H7. Qed.
Lemma nsp_get : forall m n orig, nsp_wf src m -> assoc_get m n = Some orig -> W orig.
Proof.
  intros m n orig H E. destruct (assoc_get_In _ _ _ E) as [k Hk]. unfold nsp_wf in H.
  rewrite Forall_forall in H. exact (H _ Hk).
Qed.
Lemma nsp_snoc : forall m n sp, nsp_wf src m -> W sp -> nsp_wf src (m ++ [(n, sp)]).
Proof. intros m n sp H Hw. unfold nsp_wf. apply Forall_snoc; assumption. Qed.
End InvGet.

(* ======================================================================== *)
(*  parse_declarations                                                        *)
(* ======================================================================== *)
Section Decls.
Variable fixed fixed_aspan fixed_pspan : bool.
Variable kind : ykind.
Variable src : str.
Variable fuel : nat.
Hypothesis Hfuel : byte_len src < fuel.
Let len := byte_len src.

Local Notation SI := (SI fixed_aspan src).
Local Notation sg := (sg fixed_aspan src).
Local Notation awf := (awf fixed_aspan src).
Local Notation W := (wfs src).
Local Notation V := (vpos src).
Local Notation WS := (ws fixed src len fuel).

Lemma ws_sg : forall st i inc, SI st -> V i -> sg V (WS st i inc).
Proof.
  intros st i inc HI Hv. unfold ws.
  pose proof (parse_ws_E fixed src fuel (nn st) i inc Hfuel Hv) as H. fold len in H.
  destruct (parse_ws fixed src len fuel (nn st) i inc) as [[[j n]|e]| |]; simpl in *; try exact I;
    split; assumption.
Qed.

Definition lookP (s : str) (i : nat) (la : option nat) : Prop :=
  look_post src s i la /\ lookahead_is src s i = Done la.

Lemma look_sg : forall st s i, SI st -> V i -> sg (lookP s i) (look src st s i).
Proof.
  intros st s i HI Hv. unfold look. destruct (vpos_look src s i Hv) as [o [H P]].
  rewrite H. simpl. split; [exact HI | split; [exact P | exact H]].
Qed.

Lemma lookP_some : forall s i j, lookP s i (Some j) -> V j /\ j = i + byte_len s.
Proof. intros s i j [[H1 H2] _]. split; assumption. Qed.

(* bind helpers *)
Ltac bws st i HI Hv :=
  eapply sg_bind; [apply ws_sg; eassumption |]; intros st i HI Hv.
Ltac blook st la HI Hla :=
  eapply sg_bind; [apply look_sg; eassumption |]; intros st la HI Hla.
Ltac blift L st t HI Ht :=
  eapply sg_bind; [apply sg_lift; [eassumption | apply L; eassumption] |]; intros st t HI Ht.
Ltac bspan st sp HI Hsp :=
  eapply sg_bind; [apply sg_span; eassumption |]; intros st sp HI Hsp.

Lemma token_loop_sg : forall f st i, SI st -> V i -> sg V (token_loop fixed src len fuel f st i).
Proof.
  induction f as [|f IH]; intros st i HI Hv; [exact I|].
  cbn [token_loop]. destruct (negb (i <? len)); [apply sg_ret; assumption|].
  blook st1 la HI1 Hla. destruct la as [k|]; cbn [is_some]; [apply sg_ret; assumption|].
  blift parse_token_E st2 t HI2 Ht. destruct t as [[[j n] sp] q]. simpl in Ht. destruct Ht as [Hvj Hsp].
  destruct (insert_full (a_tokens (ast st2)) n) as [[idx fresh] toks].
  eapply sg_bind; [apply ws_sg; [|exact Hvj] |].
  { apply SI_set_ast; [exact HI2|]. apply awf_upd_tokdirs.
    destruct fresh; [apply awf_upd_tokspans; [apply SI_awf; exact HI2 | exact Hsp] | apply SI_awf; exact HI2]. }
  intros st3 i' HI3 Hv3. apply IH; assumption.
Qed.

Lemma decl_token_sg : forall st j, SI st -> V j -> sg V (decl_token fixed src len fuel st j).
Proof.
  intros st j HI Hv. unfold decl_token. bws st1 i HI1 Hvi. apply token_loop_sg; assumption.
Qed.

Lemma decl_actiontype_sg : forall st j, SI st -> V j -> sg V (decl_actiontype fixed src len fuel st j).
Proof.
  intros st j HI Hv. unfold decl_actiontype. bws st1 i HI1 Hvi.
  eapply sg_bind; [apply sg_lift; [exact HI1 | apply parse_to_eol_E; assumption] |].
  intros st2 t HI2 Ht. destruct t as [j2 n]. simpl in Ht.
  bspan st3 sp HI3 Hsp.
  eapply sg_bind with (P := fun _ : unit => True).
  { destruct (gat st3) as [[g orig]|] eqn:Hg.
    - apply sg_dup; [exact HI3 | | exact Hsp]. destruct HI3 as [_ [_ H3]]. rewrite Hg in H3. exact H3.
    - apply sg_ret; [apply SI_set_gat; assumption | exact I]. }
  intros st4 u HI4 _. apply ws_sg; assumption.
Qed.

Lemma decl_start_sg : forall st j, SI st -> V j -> sg V (decl_start fixed src len fuel st j).
Proof.
  intros st j HI Hv. unfold decl_start. bws st1 i HI1 Hvi.
  blift parse_name_E st2 t HI2 Ht. destruct t as [j2 n]. simpl in Ht.
  bspan st3 sp HI3 Hsp.
  eapply sg_bind with (P := fun _ : unit => True).
  { destruct (a_start (ast st3)) as [[g orig]|] eqn:Hg.
    - apply sg_dup; [exact HI3 | | exact Hsp]. eapply awf_start; [apply SI_awf; exact HI3 | exact Hg].
    - apply sg_ret; [|exact I]. apply SI_set_ast; [exact HI3|]. apply awf_upd_start; [apply SI_awf; exact HI3 | exact Hsp]. }
  intros st4 u HI4 _. apply ws_sg; assumption.
Qed.

Lemma decl_epp_sg : forall st j, SI st -> V j -> sg V (decl_epp fixed src len fuel st j).
Proof.
  intros st j HI Hv. unfold decl_epp. bws st1 i HI1 Hvi.
  blift parse_token_E st2 t HI2 Ht. destruct t as [[[j2 n] sp0] q]. simpl in Ht. destruct Ht as [Hv2 _].
  bspan st3 sp HI3 Hsp.
  bws st4 i4 HI4 Hv4.
  eapply sg_bind; [apply sg_lift; [exact HI4 | apply parse_string_E; exact Hv4] |].
  intros st5 t2 HI5 Ht2. destruct t2 as [j5 v]. simpl in Ht2.
  bspan st6 vsp HI6 Hvsp.
  eapply sg_bind with (P := fun _ : unit => True).
  { destruct (assoc_get (a_epp (ast st6)) n) as [[orig vv]|] eqn:Hg.
    - apply sg_dup; [exact HI6 | | exact Hsp]. eapply awf_epp_get; [apply SI_awf; exact HI6 | exact Hg].
    - apply sg_ret; [|exact I]. apply SI_set_ast; [exact HI6|].
      apply awf_upd_epp; [apply SI_awf; exact HI6 | exact Hsp | exact Hvsp]. }
  intros st7 u HI7 _. apply ws_sg; assumption.
Qed.

Lemma decl_expectrr_sg : forall st j, SI st -> V j -> sg V (decl_expectrr fixed src len fuel st j).
Proof.
  intros st j HI Hv. unfold decl_expectrr. bws st1 i HI1 Hvi.
  eapply sg_bind; [apply sg_lift; [exact HI1 | apply parse_int_E; assumption] |].
  intros st2 t HI2 Ht. destruct t as [j2 n]. simpl in Ht.
  bspan st3 sp HI3 Hsp.
  eapply sg_bind with (P := fun _ : unit => True).
  { destruct (a_expectrr (ast st3)) as [[g orig]|] eqn:Hg.
    - apply sg_dup; [exact HI3 | | exact Hsp]. eapply awf_expectrr; [apply SI_awf; exact HI3 | exact Hg].
    - apply sg_ret; [|exact I]. apply SI_set_ast; [exact HI3|]. apply awf_upd_expectrr; [apply SI_awf; exact HI3 | exact Hsp]. }
  intros st4 u HI4 _. apply ws_sg; assumption.
Qed.

Lemma decl_expect_sg : forall st j, SI st -> V j -> sg V (decl_expect fixed src len fuel st j).
Proof.
  intros st j HI Hv. unfold decl_expect. bws st1 i HI1 Hvi.
  eapply sg_bind; [apply sg_lift; [exact HI1 | apply parse_int_E; assumption] |].
  intros st2 t HI2 Ht. destruct t as [j2 n]. simpl in Ht.
  bspan st3 sp HI3 Hsp.
  eapply sg_bind with (P := fun _ : unit => True).
  { destruct (a_expect (ast st3)) as [[g orig]|] eqn:Hg.
    - apply sg_dup; [exact HI3 | | exact Hsp]. eapply awf_expect; [apply SI_awf; exact HI3 | exact Hg].
    - apply sg_ret; [|exact I]. apply SI_set_ast; [exact HI3|]. apply awf_upd_expect; [apply SI_awf; exact HI3 | exact Hsp]. }
  intros st4 u HI4 _. apply ws_sg; assumption.
Qed.

Lemma decl_parse_generics_sg : forall st j, SI st -> V j -> sg V (decl_parse_generics fixed src len fuel st j).
Proof.
  intros st j HI Hv. unfold decl_parse_generics. bws st1 i HI1 Hvi.
  eapply sg_bind; [apply sg_lift; [exact HI1 | apply parse_to_eol_E; assumption] |].
  intros st2 t HI2 Ht. destruct t as [j2 ty]. simpl in Ht.
  apply ws_sg; [|exact Ht]. apply SI_set_ast; [exact HI2|]. apply awf_upd_parse_generics. apply SI_awf; exact HI2.
Qed.

Lemma decl_parse_param_sg : forall st j, SI st -> V j -> sg V (decl_parse_param fixed src len fuel st j).
Proof.
  intros st j HI Hv. unfold decl_parse_param. bws st1 i HI1 Hvi.
  eapply sg_bind.
  { apply sg_lift_nn with (P := fun r : nat * str => V (fst r)); [exact HI1|].
    exact (parse_to_single_colon_E src fuel (nn st1) i Hvi). }
  intros st2 t HI2 Ht. destruct t as [j2 name]. simpl in Ht.
  blook st3 la HI3 Hla. destruct la as [j3|]; [|apply sg_fail; assumption].
  destruct (lookP_some _ _ _ Hla) as [Hv3 _].
  bws st4 i4 HI4 Hv4.
  eapply sg_bind; [apply sg_lift; [exact HI4 | apply parse_to_eol_E; assumption] |].
  intros st5 t2 HI5 Ht2. destruct t2 as [j5 ty]. simpl in Ht2.
  apply ws_sg; [|exact Ht2]. apply SI_set_ast; [exact HI5|]. apply awf_upd_parse_param. apply SI_awf; exact HI5.
Qed.

Lemma expect_unused_loop_sg : forall f st i, SI st -> V i ->
  sg V (expect_unused_loop fixed src len fuel f st i).
Proof.
  induction f as [|f IH]; intros st i HI Hv; [exact I|].
  cbn [expect_unused_loop]. destruct (negb (i <? len)); [apply sg_ret; assumption|].
  blook st1 la HI1 Hla. destruct la as [k|]; cbn [is_some]; [apply sg_ret; assumption|].
  eapply sg_bind with (P := V).
  { pose proof (parse_name_E src i Hv) as Hn.
    destruct (parse_name src i) as [[[j n]|e]| |]; simpl in Hn; try exact I.
    - bspan st2 sp HI2 Hsp. apply sg_ret; [|exact Hn]. apply SI_set_ast; [exact HI2|].
      apply awf_upd_expect_unused; [apply SI_awf; exact HI2 | exact Hsp].
    - pose proof (parse_token_E src i Hv) as Ht.
      destruct (parse_token src i) as [[[[[j n] sp] q]|e']| |]; simpl in Ht; try exact I.
      + destruct Ht as [Hvj Hsp]. apply sg_ret; [|exact Hvj]. apply SI_set_ast; [exact HI1|].
        apply awf_upd_expect_unused; [apply SI_awf; exact HI1 | exact Hsp].
      + apply sg_fail; assumption. }
  intros st2 j HI2 Hvj. bws st3 i' HI3 Hvi'. apply IH; assumption.
Qed.

Lemma decl_expect_unused_sg : forall st j, SI st -> V j -> sg V (decl_expect_unused fixed src len fuel st j).
Proof.
  intros st j HI Hv. unfold decl_expect_unused. bws st1 i HI1 Hvi. apply expect_unused_loop_sg; assumption.
Qed.

Lemma avoid_loop_sg : forall f st kwend i nn0, SI st -> V i ->
  sg V (avoid_loop fixed src len fuel f st kwend i nn0).
Proof.
  induction f as [|f IH]; intros st kwend i nn0 HI Hv; [exact I|].
  cbn [avoid_loop]. destruct (negb ((kwend <? len) && (nn st =? nn0))); [apply sg_ret; assumption|].
  blift parse_token_E st2 t HI2 Ht. destruct t as [[[j n] sp] q]. simpl in Ht. destruct Ht as [Hvj Hsp].
  assert (Ha1 : awf (tokens_insert (ast st2) n sp))
    by (apply awf_tokens_insert; [apply SI_awf; exact HI2 | exact Hsp]).
  destruct (a_avoid_insert (tokens_insert (ast st2) n sp)) as [m|] eqn:Hm; [|exact I].
  pose proof (awf_avoid _ _ _ _ Ha1 Hm) as Hmw.
  eapply sg_bind with (P := fun _ : unit => True).
  { destruct (assoc_get m n) as [orig|] eqn:Hg.
    - apply sg_dup; [apply SI_set_ast; assumption | eapply nsp_get; eassumption | exact Hsp].
    - apply sg_ret; [|exact I]. apply SI_set_ast; [exact HI2|].
      apply awf_upd_avoid; [exact Ha1 | apply nsp_snoc; assumption]. }
  intros st3 u HI3 _. bws st4 i' HI4 Hvi'. apply IH; assumption.
Qed.

Lemma decl_avoid_insert_sg : forall st j, SI st -> V j -> sg V (decl_avoid_insert fixed src len fuel st j).
Proof.
  intros st j HI Hv. unfold decl_avoid_insert. bws st1 i HI1 Hvi.
  apply avoid_loop_sg; [|exact Hvi].
  destruct (a_avoid_insert (ast st1)); [exact HI1|].
  apply SI_set_ast; [exact HI1|]. apply awf_upd_avoid; [apply SI_awf; exact HI1 | constructor].
Qed.

Lemma implicit_loop_sg : forall f st kwend i nn0, SI st -> V i ->
  sg V (implicit_loop fixed src len fuel f st kwend i nn0).
Proof.
  induction f as [|f IH]; intros st kwend i nn0 HI Hv; [exact I|].
  cbn [implicit_loop]. destruct (negb ((kwend <? len) && (nn st =? nn0))); [apply sg_ret; assumption|].
  blift parse_token_E st2 t HI2 Ht. destruct t as [[[j n] sp] q]. simpl in Ht. destruct Ht as [Hvj Hsp].
  assert (Ha1 : awf (tokens_insert (ast st2) n sp))
    by (apply awf_tokens_insert; [apply SI_awf; exact HI2 | exact Hsp]).
  destruct (a_implicit_tokens (tokens_insert (ast st2) n sp)) as [m|] eqn:Hm; [|exact I].
  pose proof (awf_implicit _ _ _ _ Ha1 Hm) as Hmw.
  eapply sg_bind with (P := fun _ : unit => True).
  { destruct (assoc_get m n) as [orig|] eqn:Hg.
    - apply sg_dup; [apply SI_set_ast; assumption | eapply nsp_get; eassumption | exact Hsp].
    - apply sg_ret; [|exact I]. apply SI_set_ast; [exact HI2|].
      apply awf_upd_implicit; [exact Ha1 | apply nsp_snoc; assumption]. }
  intros st3 u HI3 _. bws st4 i' HI4 Hvi'. apply IH; assumption.
Qed.

Lemma decl_implicit_tokens_sg : forall st j, SI st -> V j -> sg V (decl_implicit_tokens fixed src len fuel st j).
Proof.
  intros st j HI Hv. unfold decl_implicit_tokens. bws st1 i HI1 Hvi.
  apply implicit_loop_sg; [|exact Hvi].
  destruct (a_implicit_tokens (ast st1)); [exact HI1|].
  apply SI_set_ast; [exact HI1|]. apply awf_upd_implicit; [apply SI_awf; exact HI1 | constructor].
Qed.

Lemma prec_loop_sg : forall f st i nn0 level k, SI st -> V i ->
  sg V (prec_loop fixed src len fuel f st i nn0 level k).
Proof.
  induction f as [|f IH]; intros st i nn0 level k HI Hv; [exact I|].
  cbn [prec_loop]. destruct (negb ((i <? len) && (nn0 =? nn st))); [apply sg_ret; assumption|].
  blift parse_token_E st2 t HI2 Ht. destruct t as [[[j n] sp] q]. simpl in Ht. destruct Ht as [Hvj Hsp].
  eapply sg_bind with (P := fun _ : unit => True).
  { destruct (assoc_get (a_precs (ast st2)) n) as [[pp orig]|] eqn:Hg.
    - apply sg_dup; [exact HI2 | | exact Hsp]. eapply awf_precs_get; [apply SI_awf; exact HI2 | exact Hg].
    - apply sg_ret; [|exact I]. apply SI_set_ast; [exact HI2|].
      apply awf_upd_precs; [apply SI_awf; exact HI2 | exact Hsp]. }
  intros st3 u HI3 _. bws st4 i' HI4 Hvi'. apply IH; assumption.
Qed.

Lemma decl_prec_sg : forall st j level k, SI st -> V j -> sg V (decl_prec fixed src len fuel st j level k).
Proof.
  intros st j level k HI Hv. unfold decl_prec. bws st1 i HI1 Hvi. apply prec_loop_sg; assumption.
Qed.

Lemma look_sgV : forall st s i, SI st -> V i -> sg (oforall V) (look src st s i).
Proof.
  intros st s i HI Hv. eapply sg_weaken; [|apply look_sg; assumption].
  intros [j|] H; simpl; [exact (proj1 (lookP_some _ _ _ H)) | exact I].
Qed.

(* one directive of parse_declarations: lookahead, handler, next iteration *)
Ltac dir IH L :=
  eapply sg_bind; [apply look_sgV; eassumption |];
  let st := fresh "st" in let la := fresh "la" in let HI := fresh "HI" in let Hla := fresh "Hla" in
  intros st la HI Hla; destruct la as [?j|];
  [ simpl in Hla; eapply sg_bind; [apply L; eassumption |];
    let st' := fresh "st" in let i' := fresh "i" in let HI' := fresh "HI" in let Hv' := fresh "Hv" in
    intros st' i' HI' Hv'; apply IH; assumption
  | clear Hla ].

Lemma decl_loop_sg : forall f st i pl, SI st -> V i -> sg V (decl_loop fixed kind src len fuel f st i pl).
Proof.
  induction f as [|f IH]; intros st i pl HI Hv; [exact I|].
  cbn [decl_loop]. destruct (negb (i <? len)).
  { destruct (i =? len); [apply sg_fail; assumption | exact I]. }
  cbn zeta.
  blook st1 la1 HI1 Hla1. destruct la1 as [k1|]; cbn [is_some]; [apply sg_ret; assumption|]. clear Hla1.
  dir IH decl_token_sg.
  eapply sg_bind with (P := oforall V).
  { destruct (is_original kind); [apply look_sgV; assumption | apply sg_ret; [assumption | exact I]]. }
  intros mst3 mla3 mHI3 mHla3. destruct mla3 as [mj3|].
  { simpl in mHla3. eapply sg_bind; [apply decl_actiontype_sg; eassumption |].
    intros mst4 mi4 mHI4 mHv4. apply IH; assumption. }
  clear mHla3.
  dir IH decl_start_sg.
  dir IH decl_epp_sg.
  dir IH decl_expectrr_sg.
  dir IH decl_expect_unused_sg.
  dir IH decl_expect_sg.
  dir IH decl_avoid_insert_sg.
  dir IH decl_parse_param_sg.
  dir IH decl_parse_generics_sg.
  eapply sg_bind with (P := oforall V).
  { destruct (is_eco kind); [apply look_sgV; assumption | apply sg_ret; [assumption | exact I]]. }
  intros mst5 mla5 mHI5 mHla5. destruct mla5 as [mj5|].
  { simpl in mHla5. eapply sg_bind; [apply decl_implicit_tokens_sg; eassumption |].
    intros mst6 mi6 mHI6 mHv6. apply IH; assumption. }
  clear mHla5.
  eapply sg_bind; [apply look_sgV; eassumption |]. intros mst7 mla7 mHI7 mHla7.
  eapply sg_bind with (P := fun ka : option (nat * assoc) => match ka with Some (k, _) => V k | None => True end).
  { destruct mla7 as [mj7|]; [apply sg_ret; assumption|].
    eapply sg_bind; [apply look_sgV; eassumption |]. intros mst8 mla8 mHI8 mHla8.
    destruct mla8 as [mj8|]; [apply sg_ret; assumption|].
    eapply sg_bind; [apply look_sgV; eassumption |]. intros mst9 mla9 mHI9 mHla9.
    destruct mla9 as [mj9|]; apply sg_ret; try assumption; try exact I. }
  intros mst10 ka mHI10 Hka. destruct ka as [[k a]|]; [|apply sg_fail; assumption].
  eapply sg_bind; [apply decl_prec_sg; eassumption |].
  intros mst11 mi11 mHI11 mHv11. apply IH; assumption.
Qed.

Lemma parse_declarations_sg : forall st i, SI st -> V i ->
  sg V (parse_declarations fixed kind src len fuel st i).
Proof.
  intros st i HI Hv. unfold parse_declarations. bws st1 i1 HI1 Hv1. apply decl_loop_sg; assumption.
Qed.

(* ======================================================================== *)
(*  parse_rules / parse_programs / parse                                      *)
(* ======================================================================== *)
Local Notation swf := (syms_wf src).
Local Notation AW := (act_wf fixed_aspan src).

Lemma add_prod_st_sg : forall st rn syms prec action pstart pend i,
  SI st -> swf syms -> AW action -> V pstart -> oforall V pend -> V i ->
  sg (fun _ : unit => True) (add_prod_st st rn syms prec action pstart pend i).
Proof.
  intros st rn syms prec action pstart pend i HI Hs Ha Hps Hpe Hv. unfold add_prod_st.
  eapply sg_bind; [apply sg_span; [exact HI | exact Hps | destruct pend; assumption] |].
  intros st1 sp HI1 Hsp.
  destruct (add_prod (ast st1) rn syms prec action sp) as [a'| |] eqn:Hadd; simpl; try exact I.
  split; [|exact I]. apply SI_set_ast; [exact HI1|].
  exact (awf_add_prod fixed_aspan src _ _ _ _ _ _ _ (SI_awf _ _ _ HI1) Hs Ha Hsp Hadd).
Qed.

Ltac optlook :=
  match goal with
  | |- sg _ (if is_some ?t then ret _ ?t else look _ _ _ _) =>
      destruct (is_some t);
      [apply sg_ret; [eassumption | exact I]
      | eapply sg_weaken; [|apply look_sg; eassumption]; intros; exact I]
  end.

Lemma rule_loop_sg : forall f st rn i syms prec action pstart pend,
  SI st -> V i -> swf syms -> AW action -> V pstart -> oforall V pend ->
  sg V (rule_loop fixed fixed_aspan fixed_pspan src len fuel f st rn i syms prec action pstart pend).
Proof.
  induction f as [|f IH]; intros st rn i syms prec action pstart pend HI Hv Hs Ha Hps Hpe; [exact I|].
  cbn [rule_loop]. destruct (negb (i <? len)); [apply sg_fail; assumption|].
  cbn zeta.
  assert (Hnext : forall st' i' syms' prec' action' pend',
            SI st' -> V i' -> swf syms' -> AW action' -> oforall V pend' ->
            sg V (sbind (WS st' i' true)
                        (fun st i => rule_loop fixed fixed_aspan fixed_pspan src len fuel f st rn i syms' prec' action' pstart pend'))).
  { intros st' i' syms' prec' action' pend' HI' Hv' Hs' Ha' Hpe'.
    bws st2 i2 HI2 Hv2. apply IH; assumption. }
  (* | *)
  blook st1 la1 HI1 Hla1. destruct la1 as [j1|].
  { destruct (lookP_some _ _ _ Hla1) as [Hvj1 _].
    eapply sg_bind; [apply add_prod_st_sg; assumption |].
    intros st2 u HI2 _. bws st3 i3 HI3 Hv3.
    apply IH; try assumption; [constructor | exact I | exact I]. }
  clear Hla1.
  (* ; *)
  blook st2 la2 HI2 Hla2. destruct la2 as [j2|].
  { destruct (lookP_some _ _ _ Hla2) as [Hvj2 _].
    eapply sg_bind; [apply add_prod_st_sg; assumption |].
    intros st3 u HI3 _. apply sg_ret; assumption. }
  clear Hla2.
  (* quoted token *)
  blook st3 l1 HI3 Hl1. clear Hl1.
  eapply sg_bind with (P := fun _ : option nat => True); [optlook|].
  intros st4 l2 HI4 _. destruct (is_some l2).
  { blift parse_token_E st5 t HI5 Ht. destruct t as [[[j sym] sp] q]. simpl in Ht. destruct Ht as [Hvj Hsp].
    bws st6 i6 HI6 Hv6.
    apply Hnext; [| exact Hv6 | apply Forall_snoc; [exact Hs | exact Hsp] | exact Ha | exact Hvj].
    apply SI_set_ast; [exact HI6|]. apply awf_tokens_insert; [apply SI_awf; exact HI6 | exact Hsp]. }
  (* %prec *)
  blook st5 la5 HI5 Hla5. destruct la5 as [j5|].
  { destruct (lookP_some _ _ _ Hla5) as [Hvj5 _].
    bws st6 i6 HI6 Hv6.
    blift parse_token_E st7 t HI7 Ht. destruct t as [[[k sym] sp] q]. simpl in Ht. destruct Ht as [Hvk Hsp].
    apply Hnext; [| exact Hvk | exact Hs | exact Ha | exact Hvk].
    apply SI_set_ast; [exact HI7|]. apply awf_tokens_insert; [apply SI_awf; exact HI7 | exact Hsp]. }
  clear Hla5.
  (* action *)
  blook st6 la6 HI6 Hla6. destruct la6 as [j6|]; cbn [is_some].
  { destruct Hla6 as [[Hj6 Hvj6] Heq6]. change (byte_len kw_lbrace) with 1 in Hj6. subst j6.
    eapply sg_bind.
    { apply sg_lift_nn with (P := fun r : nat * str => V (fst r) /\ act_rel src i (fst r) (snd r)); [exact HI6|].
      exact (parse_action_E src fuel (nn st6) i (i + 1) Hfuel Hv Heq6). }
    intros st7 t HI7 Ht. destruct t as [j a]. simpl in Ht. destruct Ht as [Hvj Hrel].
    bws st8 i8 HI8 Hv8.
    eapply sg_bind with (P := fun asp : span => AW (Some (a, asp))).
    { destruct (action_span fixed_aspan src (i + 1) a) as [asp| |] eqn:Hasp; simpl; try exact I.
      split; [exact HI8 | exact (action_span_wf _ _ _ _ _ _ Hrel Hasp)]. }
    intros st9 asp HI9 Hasp.
    blook st10 t1 HI10 Ht1. clear Ht1.
    eapply sg_bind with (P := fun _ : option nat => True); [optlook|].
    intros st11 t2 HI11 _. destruct (negb (is_some t2)); [apply sg_fail; assumption|].
    apply Hnext; [exact HI11 | exact Hv8 | exact Hs | exact Hasp |].
    unfold brace_pend. destruct fixed_pspan; [destruct pend; simpl in *; assumption | exact Hv]. }
  clear Hla6.
  (* %empty *)
  blook st7 la7 HI7 Hla7. destruct la7 as [j7|].
  { destruct (lookP_some _ _ _ Hla7) as [Hvj7 _].
    bws st8 k HI8 Hvk.
    blook st9 t1 HI9 Ht1. clear Ht1.
    eapply sg_bind with (P := fun _ : option nat => True); [optlook|].
    intros st10 t2 HI10 _.
    eapply sg_bind with (P := fun _ : option nat => True); [optlook|].
    intros st11 t3 HI11 _.
    eapply sg_bind with (P := fun _ : option nat => True); [optlook|].
    intros st12 t4 HI12 _.
    destruct (negb match syms with [] => true | _ :: _ => false end || negb (is_some t4));
      [apply sg_fail; assumption|].
    apply Hnext; [exact HI12 | exact Hvk | exact Hs | exact Ha | exact Hvj7]. }
  clear Hla7.
  (* a name: token or rule reference *)
  blift parse_token_E st8 t HI8 Ht. destruct t as [[[j sym] sp] q]. simpl in Ht. destruct Ht as [Hvj Hsp].
  apply Hnext; [exact HI8 | exact Hvj | | exact Ha | exact Hvj].
  apply Forall_snoc; [exact Hs|].
  match goal with |- context [if ?b then SToken _ _ else SRule _ _] => destruct b end; exact Hsp.
Qed.

Lemma ensure_rule_SI : forall st rn sp at_, SI st -> W sp ->
  SI (match get_rule (a_rules (ast st)) rn with
      | None => set_ast st (add_rule (ast st) rn sp at_)
      | Some _ => st
      end).
Proof.
  intros st rn sp at_ HI Hw. destruct (get_rule (a_rules (ast st)) rn); [exact HI|].
  apply SI_set_ast; [exact HI|]. apply awf_add_rule; [apply SI_awf; exact HI | exact Hw].
Qed.

Lemma parse_rule_sg : forall st i, SI st -> V i ->
  sg V (parse_rule fixed fixed_aspan fixed_pspan kind src len fuel st i).
Proof.
  intros st i HI Hv. unfold parse_rule.
  blift parse_name_E st1 t HI1 Ht. destruct t as [j rn]. simpl in Ht.
  bspan st2 sp HI2 Hsp.
  set (st3 := match a_start (ast st2) with
              | Some _ => st2
              | None => set_ast st2 (upd_start (ast st2) (Some (rn, sp)))
              end).
  assert (HI3 : SI st3).
  { subst st3. destruct (a_start (ast st2)); [exact HI2|].
    apply SI_set_ast; [exact HI2|]. apply awf_upd_start; [apply SI_awf; exact HI2 | exact Hsp]. }
  clearbody st3.
  eapply sg_bind with (P := V).
  { destruct kind.
    - apply sg_ret; [apply ensure_rule_SI; assumption | exact Ht].
    - bws st4 i4 HI4 Hv4.
      blook st5 la HI5 Hla. destruct la as [j5|]; [|apply sg_fail; assumption].
      destruct (lookP_some _ _ _ Hla) as [Hvj5 _].
      bws st6 i6 HI6 Hv6.
      eapply sg_bind.
      { apply sg_lift_nn with (P := fun r : nat * str => V (fst r)); [exact HI6|].
        exact (parse_to_single_colon_E src fuel (nn st6) i6 Hv6). }
      intros st7 t7 HI7 Ht7. destruct t7 as [j7 actiont]. simpl in Ht7.
      apply sg_ret; [apply ensure_rule_SI; assumption | exact Ht7].
    - apply sg_ret; [apply ensure_rule_SI; assumption | exact Ht]. }
  intros st4 i4 HI4 Hv4.
  bws st5 i5 HI5 Hv5.
  blook st6 la HI6 Hla. destruct la as [j6|]; [|apply sg_fail; assumption].
  destruct (lookP_some _ _ _ Hla) as [Hvj6 _].
  bws st7 i7 HI7 Hv7.
  apply rule_loop_sg; try assumption; [constructor | exact I | exact I].
Qed.

Lemma rules_loop_sg : forall f st i, SI st -> V i ->
  sg V (rules_loop fixed fixed_aspan fixed_pspan kind src len fuel f st i).
Proof.
  induction f as [|f IH]; intros st i HI Hv; [exact I|].
  cbn [rules_loop]. destruct (negb (i <? len)); [apply sg_ret; assumption|].
  blook st1 la HI1 Hla. destruct la as [k|]; cbn [is_some]; [apply sg_ret; assumption|].
  eapply sg_bind; [apply parse_rule_sg; assumption |].
  intros st2 i2 HI2 Hv2. bws st3 i3 HI3 Hv3. apply IH; assumption.
Qed.

Lemma parse_rules_sg : forall st i, SI st -> V i ->
  sg V (parse_rules fixed fixed_aspan fixed_pspan kind src len fuel st i).
Proof.
  intros st i HI Hv. unfold parse_rules.
  blook st1 la HI1 Hla. destruct la as [j|]; [|exact I].
  destruct (lookP_some _ _ _ Hla) as [Hvj _].
  bws st2 i2 HI2 Hv2. apply rules_loop_sg; assumption.
Qed.

Lemma parse_programs_sg : forall st i, SI st -> V i ->
  sg (fun _ : nat => True) (parse_programs fixed src len fuel st i).
Proof.
  intros st i HI Hv. unfold parse_programs.
  blook st1 la HI1 Hla. destruct la as [j|]; [|apply sg_ret; [assumption | exact I]].
  destruct (lookP_some _ _ _ Hla) as [Hvj _].
  bws st2 i2 HI2 Hv2.
  destruct (slice_from src i2) as [prog| |]; simpl; try exact I.
  split; [|exact I]. apply SI_set_ast; [exact HI2|]. apply awf_upd_programs. apply SI_awf; exact HI2.
Qed.

Lemma SI_st0 : SI st0.
Proof.
  unfold YpSpans.SI, st0. simpl. split; [constructor|]. split; [apply awf_new | exact I].
Qed.

Lemma parse_spans : forall st es,
  parse fixed fixed_aspan fixed_pspan kind src len fuel = Done (st, es) -> SI st /\ Forall (ewf src) es.
Proof.
  intros st es H. unfold parse in H.
  pose proof (parse_declarations_sg st0 0 SI_st0 (vpos_0 src)) as H1.
  destruct (parse_declarations fixed kind src len fuel st0 0) as [[st1 [i1|e1]]| |];
    cbn [obind] in H; try discriminate H; simpl in H1.
  2:{ injection H as <- <-. destruct H1 as [HI1 He1]. split; [exact HI1|].
      apply Forall_snoc; [exact (proj1 HI1) | exact He1]. }
  destruct H1 as [HI1 Hv1].
  pose proof (parse_rules_sg st1 i1 HI1 Hv1) as H2.
  destruct (parse_rules fixed fixed_aspan fixed_pspan kind src len fuel st1 i1) as [[st2 [i2|e2]]| |];
    cbn [obind] in H; try discriminate H; simpl in H2.
  2:{ injection H as <- <-. destruct H2 as [HI2 He2]. split; [exact HI2|].
      apply Forall_snoc; [exact (proj1 HI2) | exact He2]. }
  destruct H2 as [HI2 Hv2].
  pose proof (parse_programs_sg st2 i2 HI2 Hv2) as H3.
  destruct (parse_programs fixed src len fuel st2 i2) as [[st3 [i3|e3]]| |];
    cbn [obind] in H; try discriminate H; simpl in H3.
  - injection H as <- <-. destruct H3 as [HI3 _]. split; [exact HI3 | exact (proj1 HI3)].
  - injection H as <- <-. destruct H3 as [HI3 He3]. split; [exact HI3|].
    apply Forall_snoc; [exact (proj1 HI3) | exact He3].
Qed.

End Decls.

(* ======================================================================== *)
(*  complete_and_validate and warnings                                        *)
(* ======================================================================== *)
Section Validate.
Variable fa : bool.
Variable src : str.
Local Notation W := (wfs src).
Local Notation awf := (awf fa src).

Lemma W00 : W (0, 0).
Proof. apply wfs_point. apply vpos_0. Qed.

Lemma ewf_one : forall k sp, W sp -> ewf src (mkErr k [sp]).
Proof. intros k sp H. unfold ewf. simpl. constructor; [exact H | constructor]. Qed.

Lemma validate_syms_wf : forall a syms e, syms_wf src syms -> validate_syms a syms = Some e -> ewf src e.
Proof.
  intros a syms e. induction syms as [|s syms IH]; intros Hs H; simpl in H; [discriminate H|].
  inversion Hs as [|? ? Hs1 Hs2]; subst. destruct s as [n sp|n sp].
  - destruct (has_rule a n); [apply IH; assumption|]. injection H as <-. apply ewf_one. exact Hs1.
  - destruct (has_token a n); [apply IH; assumption|]. injection H as <-. apply ewf_one. exact Hs1.
Qed.

Lemma validate_prod_wf : forall a p e, prod_wf fa src p -> validate_prod a p = Some e -> ewf src e.
Proof.
  intros a p e [Hs _] H. unfold validate_prod in H.
  destruct (p_prec p) as [n|].
  - destruct (negb (has_token a n)); [injection H as <-; apply ewf_one; exact W00|].
    destruct (negb (is_some (assoc_get (a_precs a) n))); [injection H as <-; apply ewf_one; exact W00|].
    eapply validate_syms_wf; eassumption.
  - eapply validate_syms_wf; eassumption.
Qed.

Lemma validate_pidxs_wf : forall a pidxs e, Forall (prod_wf fa src) (a_prods a) ->
  validate_pidxs a pidxs = Done (Some e) -> ewf src e.
Proof.
  intros a pidxs e Hp. induction pidxs as [|pidx rest IH]; intros H; simpl in H; [discriminate H|].
  unfold nth_checked in H. destruct (nth_error (a_prods a) pidx) as [p|] eqn:Hn; cbn [obind] in H; [|discriminate H].
  destruct (validate_prod a p) as [e'|] eqn:Hv.
  - injection H as <-. eapply validate_prod_wf; [|exact Hv].
    rewrite Forall_forall in Hp. apply Hp. eapply nth_error_In. exact Hn.
  - apply IH. exact H.
Qed.

Lemma validate_rules_wf : forall a rs e, Forall (prod_wf fa src) (a_prods a) ->
  validate_rules a rs = Done (Some e) -> ewf src e.
Proof.
  intros a rs e Hp. induction rs as [|r rest IH]; intros H; simpl in H; [discriminate H|].
  destruct (validate_pidxs a (r_pidxs r)) as [[e'|]| |] eqn:Hv; cbn [obind] in H; try discriminate H.
  - injection H as <-. eapply validate_pidxs_wf; eassumption.
  - apply IH. exact H.
Qed.

Lemma first_unknown_epp_wf : forall a l e,
  Forall (fun x : str * (span * (str * span)) => W (fst (snd x)) /\ W (snd (snd (snd x)))) l ->
  first_unknown_epp a l = Some e -> ewf src e.
Proof.
  intros a l e. induction l as [|[k [sp v]] l IH]; intros Hl H; simpl in H; [discriminate H|].
  inversion Hl as [|? ? H1 H2]; subst.
  destruct (has_token a k); [apply IH; assumption|].
  destruct (match a_implicit_tokens a with Some it => is_some (assoc_get it k) | None => false end);
    [apply IH; assumption|].
  injection H as <-. apply ewf_one. exact (proj1 H1).
Qed.

Lemma validate_expect_unused_wf : forall a l e, syms_wf src l ->
  validate_expect_unused a l = Some e -> ewf src e.
Proof.
  intros a l e. induction l as [|s l IH]; intros Hs H; simpl in H; [discriminate H|].
  inversion Hs as [|? ? Hs1 Hs2]; subst. destruct s as [n sp|n sp].
  - destruct (has_rule a n); [apply IH; assumption|]. injection H as <-. apply ewf_one. exact Hs1.
  - destruct (has_token a n); [apply IH; assumption|]. injection H as <-. apply ewf_one. exact Hs1.
Qed.

Lemma complete_and_validate_wf : forall a e, awf a ->
  complete_and_validate a = Done (Some e) -> ewf src e.
Proof.
  intros a e Ha H. unfold complete_and_validate in H.
  destruct Ha as (H1 & H2 & H3 & H4 & H5 & H6 & H7 & H8 & H9 & H10 & H11).
  destruct (a_start a) as [[s sp]|].
  2:{ injection H as <-. apply ewf_one. exact W00. }
  destruct (negb (has_rule a s)); [injection H as <-; apply ewf_one; exact H1|].
  destruct (validate_rules a (a_rules a)) as [[e'|]| |] eqn:Hv; cbn [obind] in H; try discriminate H.
  { injection H as <-. eapply validate_rules_wf; eassumption. }
  destruct (first_unknown_epp a (a_epp a)) as [e'|] eqn:He.
  { injection H as <-. eapply first_unknown_epp_wf; eassumption. }
  injection H as H. eapply validate_expect_unused_wf; eassumption.
Qed.

(* the token loop of GrammarAST::unused_symbols, with its skip test abstracted *)
Lemma toks_wf : forall (c : str -> bool) (spans : list span), Forall W spans -> forall l k r,
  (fix toks (l : list str) (k : nat) {struct l} : outcome (list (wkind * str * span)) :=
     match l with
     | [] => Done []
     | t :: l' =>
         do rest <- toks l' (S k);
         if c t then Done rest
         else do sp <- nth_checked spans k; Done ((UnusedToken, t, sp) :: rest)
     end) l k = Done r -> Forall W (map snd r).
Proof.
  intros c spans Hsp. induction l as [|t l IH]; intros k r H.
  - injection H as <-. constructor.
  - match type of H with obind ?x _ = _ => destruct x as [rest| |] eqn:Hr end; cbn [obind] in H;
      try discriminate H.
    specialize (IH _ _ Hr).
    destruct (c t); [injection H as <-; exact IH|].
    unfold nth_checked in H. destruct (nth_error spans k) as [sp|] eqn:Hn; cbn [obind] in H; [|discriminate H].
    injection H as <-. simpl. constructor; [|exact IH].
    rewrite Forall_forall in Hsp. apply Hsp. eapply nth_error_In. exact Hn.
Qed.

Lemma unused_wf : forall fu a l, awf a -> unused fu a = Done l -> Forall W (map snd l).
Proof.
  intros fu a l Ha H. unfold unused in H.
  destruct Ha as (H1 & H2 & H3 & H4 & _).
  match type of H with obind ?x _ = _ => destruct x as [[seen_r seen_t]| |] end; cbn [obind] in H;
    try discriminate H.
  match type of H with obind ?x _ = _ => destruct x as [wt| |] eqn:Hwt end; cbn [obind] in H;
    try discriminate H.
  injection H as <-. rewrite map_app. apply Forall_app. split.
  - apply Forall_forall. intros sp Hin. apply in_map_iff in Hin. destruct Hin as [[wk sp'] [Heq Hin]].
    simpl in Heq. subst sp'. apply in_flat_map in Hin. destruct Hin as [r [Hr Hin]].
    destruct (_ || _) in Hin; [destruct Hin|]. destruct Hin as [Hin|[]]. injection Hin as _ <-.
    rewrite Forall_forall in H2. apply H2. exact Hr.
  - eapply toks_wf; [exact H4 | exact Hwt].
Qed.

Lemma warnings_wf : forall fu a l, awf a -> warnings fu a = Done l -> Forall W (map snd l).
Proof.
  intros fu a l Ha H. unfold warnings in H.
  destruct (unused fu a) as [us| |] eqn:Hu; cbn [obind] in H; try discriminate H.
  injection H as <-. rewrite map_map. cbn [snd].
  exact (unused_wf fu a us Ha Hu).
Qed.

(* ---- from the structured invariant to the flat span lists ------------------ *)
Lemma Forall_map_intro : forall {A B} (P : B -> Prop) (f : A -> B) l,
  Forall (fun x => P (f x)) l -> Forall P (map f l).
Proof. intros A B P f l H. induction H; simpl; constructor; assumption. Qed.

Lemma Forall_flat_map_intro : forall {A B} (P : B -> Prop) (f : A -> list B) l,
  Forall (fun x => Forall P (f x)) l -> Forall P (flat_map f l).
Proof. intros A B P f l H. induction H; simpl; [constructor | apply Forall_app; split; assumption]. Qed.

Lemma opt_map_wf : forall {A} (f : A -> span) (o : option A),
  oforall (fun x => W (f x)) o -> Forall W (map f (opt_list o)).
Proof. intros A f [x|] H; simpl; [constructor; [exact H | constructor] | constructor]. Qed.

Lemma opt_nsp_wf : forall (o : option (list (str * span))),
  oforall (nsp_wf src) o -> Forall W (map snd (concat (opt_list o))).
Proof.
  intros [m|] H; simpl; [|constructor]. rewrite app_nil_r. apply Forall_map_intro. exact H.
Qed.

Lemma ast_spans_wf : forall a, awf a -> Forall W (ast_spans a).
Proof.
  intros a (H1 & H2 & H3 & H4 & H5 & H6 & H7 & H8 & H9 & H10 & H11). unfold ast_spans.
  repeat (apply Forall_app; split).
  - apply opt_map_wf. exact H1.
  - apply Forall_map_intro. exact H2.
  - apply Forall_flat_map_intro. eapply Forall_impl; [|exact H3]. intros p [Hs [Hp _]].
    constructor; [exact Hp | apply Forall_map_intro; exact Hs].
  - exact H4.
  - apply Forall_map_intro. exact H5.
  - apply opt_nsp_wf. exact H6.
  - apply opt_nsp_wf. exact H7.
  - apply Forall_flat_map_intro. eapply Forall_impl; [|exact H8]. intros x [Ha Hb].
    constructor; [exact Ha | constructor; [exact Hb | constructor]].
  - apply opt_map_wf. exact H9.
  - apply opt_map_wf. exact H10.
  - apply Forall_map_intro. exact H11.
Qed.

Lemma action_spans_start : forall a, awf a -> Forall (wf_span_start src) (action_spans a).
Proof.
  intros a (_ & _ & H3 & _). unfold action_spans. apply Forall_flat_map_intro.
  eapply Forall_impl; [|exact H3]. intros p [_ [_ Hact]].
  destruct (p_action p) as [[t sp]|]; simpl; [|constructor].
  destruct Hact as [Hs [Hle [Hlen _]]]. constructor; [|constructor].
  split; [exact Hle|]. split; [exact Hlen | apply boundary_vpos; exact Hs].
Qed.

Lemma action_spans_full : forall a, fa = true -> awf a -> Forall (wf_span src) (action_spans a).
Proof.
  intros a Hfa (_ & _ & H3 & _). unfold action_spans. apply Forall_flat_map_intro.
  eapply Forall_impl; [|exact H3]. intros p [_ [_ Hact]].
  destruct (p_action p) as [[t sp]|]; simpl; [|constructor].
  destruct Hact as [Hs [Hle [Hlen He]]]. constructor; [|constructor].
  apply wfs_wf_span. split; [exact Hs | split; [exact (He Hfa) | exact Hle]].
Qed.

Lemma error_spans_wf : forall es, Forall (ewf src) es -> Forall (wf_span src) (error_spans es).
Proof.
  intros es H. unfold error_spans. apply Forall_flat_map_intro. eapply Forall_impl; [|exact H].
  intros e He. eapply Forall_impl; [|exact He]. intros sp. apply wfs_wf_span.
Qed.

End Validate.

(* ======================================================================== *)
(*  The statements                                                            *)
(* ======================================================================== *)
Lemma yacc_error_spans_wellformed : yacc_error_spans_wellformed_stmt.
Proof.
  intros fixed fixed_aspan fixed_pspan fixed_precused kind src r Hrun. unfold run_case, yacc_new_gen in Hrun.
  destruct (header_present src); [injection Hrun as <-; exact I|].
  assert (Hfuel : byte_len src < fuel_for src) by (unfold fuel_for; lia).
  destruct (parse fixed fixed_aspan fixed_pspan kind src (byte_len src) (fuel_for src)) as [[st es]| |] eqn:Hp;
    cbn [obind] in Hrun; try discriminate Hrun.
  destruct (parse_spans fixed fixed_aspan fixed_pspan kind src (fuel_for src) Hfuel st es Hp) as [HI Hes].
  pose proof (SI_awf _ _ _ HI) as Ha.
  destruct (complete_and_validate (ast st)) as [v| |] eqn:Hv; cbn [obind] in Hrun; try discriminate Hrun.
  injection Hrun as <-.
  split; [|split; [|split; [|split]]].
  - apply error_spans_wf. apply Forall_app. split; [exact Hes|].
    destruct v as [e|]; [|constructor]. constructor; [|constructor].
    eapply complete_and_validate_wf; eassumption.
  - destruct (warnings fixed_precused (ast st)) as [l| |] eqn:Hw; simpl; try constructor.
    eapply Forall_impl; [|eapply warnings_wf; eassumption]. intros sp. apply wfs_wf_span.
  - eapply Forall_impl; [|apply (ast_spans_wf fixed_aspan); exact Ha]. intros sp. apply wfs_wf_span.
  - apply (action_spans_start fixed_aspan). exact Ha.
  - intros Hfa. apply (action_spans_full fixed_aspan); assumption.
Qed.

Lemma yacc_action_span_boundary_fixed : yacc_action_span_boundary_fixed_stmt.
Proof.
  intros fixed fixed_pspan fixed_precused kind src a errs w Hrun.
  pose proof (yacc_error_spans_wellformed fixed true fixed_pspan fixed_precused kind src _ Hrun) as H. simpl in H.
  destruct H as (_ & _ & _ & _ & H). apply H. reflexivity.
Qed.

(* "%%\nA:{ →};" (→ = U+2192, bytes 7..9): the action "→" gets the span (6, 9) *)
Definition aspan_witness : str := [37; 37; 10; 65; 58; 123; 32; 8594; 125; 59]%N.

Lemma yacc_action_span_boundary_refuted : yacc_action_span_boundary_refuted_stmt.
Proof.
  exists false, KOriginal, aspan_witness. do 2 eexists. exists (6, 9).
  split; [vm_compute; reflexivity|]. split; [vm_compute; left; reflexivity|].
  vm_compute. intros H. repeat (destruct H as [H|H]; [discriminate H|]). exact H.
Qed.

(* "%start A\n%start A\n%token x\n%%\nA: 'a' { b };" *)
Definition spans_example : str :=
  [37;115;116;97;114;116;32;65;10; 37;115;116;97;114;116;32;65;10; 37;116;111;107;101;110;32;120;10;
   37;37;10; 65;58;32;39;97;39;32;123;32;98;32;125;59]%N.

Lemma yacc_spans_example : yacc_spans_example_stmt.
Proof.
  exists spans_example. do 3 eexists.
  split; [vm_compute; reflexivity|]. repeat split; discriminate.
Qed.
