(* C10 half (b), round trip — the %token directive: one iteration of
   parse_declarations' loop on  %token t0 t1 ...  followed by the next '%'. *)
From Coq Require Import List Arith NArith ZArith Bool Lia.
From GV Require Import Common.Outcome C10.YpModel C10.YpSpec C10.YpProofs C10.YpPrint C10.YpRoundSpec C10.YpRoundBase.
Import ListNotations.
Local Open Scope nat_scope.

Lemma prefix_pp_token : forall r, prefix_of kw_pp (kw_token ++ r) = false.
Proof. reflexivity. Qed.

Lemma prefix_percent_hd : forall r, prefix_of kw_percent (37%N :: r) = true.
Proof. reflexivity. Qed.

(* a printed token list followed by '%' starts with an item *)
Lemma toks_item_start : forall inner last g q k ts rest,
  wf_toks inner last g q k ts -> item_start (print_toks g q k ts ++ 37%N :: rest).
Proof.
  intros inner last g q k [|t ts] rest Hw.
  - reflexivity.
  - cbn [print_toks]. destruct Hw as [Hq _]. rewrite <- app_assoc.
    apply print_tok_item_start. exact Hq.
Qed.

(* what follows a bare token of a %token list does not continue it *)
Lemma toks_follow : forall inner last g q k t ts rest,
  wf_toks inner last g q k (t :: ts) ->
  tok_follow (q k) (g (S k) ++ print_toks g q (S k) ts ++ 37%N :: rest).
Proof.
  intros inner last g q k t ts rest Hw. destruct Hw as [Hq [Hl [Hm Hw]]].
  unfold tok_follow. destruct (q k) eqn:Eq; try exact I.
  destruct (g (S k)) as [|c l] eqn:Eg.
  - cbn [app]. destruct ts as [|t' ts'].
    + reflexivity.
    + destruct Hm as [_ Hm]. destruct Hw as [Hq' _].
      cbn [print_toks]. destruct (print_tok_hd _ _ Hq') as [c [r [E Hc]]]. rewrite E.
      cbn [app not_starting].
      destruct (q (S k)) eqn:Eq'.
      * exfalso. apply Hm; reflexivity.
      * subst c. reflexivity.
      * subst c. reflexivity.
  - apply not_starting_layout.
    + exact tok_cont_first_ok.
    + exact Hl.
    + discriminate.
Qed.

Lemma print_tok_pos : forall q t, is_qname q t -> 1 <= byte_len (print_tok q t).
Proof.
  intros q t H. rewrite byte_len_print_tok. destruct q; cbn [tok_off]; try lia.
  cbn [is_qname] in H. destruct t as [|c r]; [discriminate H|].
  cbn [byte_len]. pose proof (len_utf8_pos c). lia.
Qed.

Lemma toks_length_le : forall inner last g q ts k,
  wf_toks inner last g q k ts -> List.length ts <= byte_len (print_toks g q k ts).
Proof.
  intros inner last g q ts. induction ts as [|t ts IH]; intros k Hw.
  - cbn [List.length]. lia.
  - destruct Hw as [Hq [_ [_ Hw]]]. cbn [print_toks List.length].
    rewrite !byte_len_app. pose proof (print_tok_pos _ _ Hq). pose proof (IH _ Hw). lia.
Qed.

Lemma token_loop_toks : forall g q ts k src pre rest i f n a g0 e,
  src = pre ++ print_toks g q k ts ++ 37%N :: rest -> i = byte_len pre ->
  wf_toks any_gap any_gap g q k ts ->
  List.length ts < f ->
  exists n',
    token_loop true src (byte_len src) (fuel_for src) f (mkSt n a g0 e) i
    = Done (mkSt n' (fold_left ins_declared (tok_occs g q k i ts) a) g0 e,
            Ok (i + byte_len (print_toks g q k ts))).
Proof.
  intros g q ts. induction ts as [|t ts IH]; intros k src pre rest i f n a g0 e Hs Hi Hw Hf.
  - destruct f as [|f]; [cbn [List.length] in Hf; lia|].
    cbn [print_toks app] in Hs. exists n.
    cbn [token_loop]. rewrite (lt_len_at _ _ _ _ _ Hs Hi). cbn [negb].
    rewrite (look_at _ _ _ _ _ _ Hs Hi). rewrite prefix_percent_hd.
    cbn [sbind is_some ret print_toks tok_occs fold_left byte_len].
    rewrite Nat.add_0_r. reflexivity.
  - destruct f as [|f]; [cbn [List.length] in Hf; lia|].
    cbn [List.length] in Hf.
    pose proof (toks_follow _ _ _ _ _ _ _ rest Hw) as Hfol.
    destruct Hw as [Hq [Hl [_ Hw]]].
    cbn [print_toks] in Hs.
    set (nxt := print_toks g q (S k) ts ++ 37%N :: rest) in *.
    assert (Hst : src = pre ++ print_tok (q k) t ++ g (S k) ++ nxt) by (rewrite Hs; unfold nxt; lsolve).
    destruct (print_tok_hd _ _ Hq) as [c [r [Et Hc]]].
    assert (Hs0 : src = pre ++ c :: (r ++ g (S k) ++ nxt)) by (rewrite Hst, Et; lsolve).
    assert (Hs1 : src = (pre ++ print_tok (q k) t) ++ g (S k) ++ nxt) by (rewrite Hst; lsolve).
    assert (Hi1 : i + byte_len (print_tok (q k) t) = byte_len (pre ++ print_tok (q k) t)) by (subst i; blen).
    assert (Hs2 : src = ((pre ++ print_tok (q k) t) ++ g (S k)) ++ print_toks g q (S k) ts ++ 37%N :: rest)
      by (rewrite Hst; unfold nxt; lsolve).
    assert (Hi2 : i + byte_len (print_tok (q k) t) + byte_len (g (S k))
                  = byte_len ((pre ++ print_tok (q k) t) ++ g (S k))) by (subst i; blen).
    assert (Hnx : item_start nxt) by (unfold nxt; eapply toks_item_start; exact Hw).
    assert (Hf' : List.length ts < f) by lia.
    destruct (IH (S k) src _ rest _ f (n + count_nl (g (S k)))
                 (ins_declared a (t, tok_span (q k) i t)) g0 e Hs2 Hi2 Hw Hf') as [n' Hn'].
    exists n'.
    cbn [token_loop]. rewrite (lt_len_at _ _ _ _ _ Hs0 Hi). cbn [negb].
    rewrite (look_at _ _ _ _ _ _ Hs0 Hi).
    assert (Hpc : prefix_of kw_percent (c :: r ++ g (S k) ++ nxt) = false).
    { apply prefix_of_hd_false. destruct (q k).
      - apply (tok_start_hd c Hc). simpl. tauto.
      - subst c. reflexivity.
      - subst c. reflexivity. }
    rewrite Hpc. cbn [sbind is_some ret].
    rewrite (parse_token_at _ _ _ _ _ _ Hst Hi Hq Hfol). cbn [lift sbind].
    cbn [ast].
    unfold ins_declared in Hn'. cbn [fst snd] in Hn'.
    cbn [tok_occs fold_left print_toks]. unfold ins_declared at 2. cbn [fst snd].
    destruct (insert_full (a_tokens a) t) as [[idx fresh] toks] eqn:E.
    stn.
    rewrite (ws_gap _ _ _ _ _ _ _ _ _ true Hs1 Hi1 Hl Hnx) by (intros HH; discriminate HH).
    cbn [sbind].
    rewrite Hn'. rewrite !byte_len_app. rewrite !Nat.add_assoc. reflexivity.
Qed.

Lemma decl_step_token : forall k ts, decl_step_for k (DToken ts).
Proof.
  intros k ts src pre dl rest i f n a g e lvl Hs Hi Hwf _ _.
  destruct Hwf as [[Hl0 Hnl0] [Hne Hw]].
  cbn [print_decl] in Hs. cbn [is_prec].
  set (body := print_toks (dg dl) (dq dl) 0 ts) in *.
  assert (Hsk : src = pre ++ kw_token ++ dg dl 0 ++ body ++ 37%N :: rest) by (rewrite Hs; lsolve).
  assert (Hs0 : src = pre ++ 37%N :: ([116; 111; 107; 101; 110]%N ++ dg dl 0 ++ body ++ 37%N :: rest))
    by (rewrite Hsk; reflexivity).
  assert (Hs1 : src = (pre ++ kw_token) ++ dg dl 0 ++ body ++ 37%N :: rest) by (rewrite Hsk; lsolve).
  assert (Hi1 : i + byte_len kw_token = byte_len (pre ++ kw_token)) by (subst i; blen).
  assert (Hs2 : src = ((pre ++ kw_token) ++ dg dl 0) ++ body ++ 37%N :: rest) by (rewrite Hsk; lsolve).
  assert (Hi2 : i + byte_len kw_token + byte_len (dg dl 0) = byte_len ((pre ++ kw_token) ++ dg dl 0))
    by (subst i; blen).
  assert (Hnx : item_start (body ++ 37%N :: rest)) by (unfold body; eapply toks_item_start; exact Hw).
  assert (Hfu : List.length ts < fuel_for src).
  { unfold fuel_for. pose proof (toks_length_le _ _ _ _ _ _ Hw) as Hle. fold body in Hle.
    rewrite Hs2, !byte_len_app. lia. }
  destruct (token_loop_toks (dg dl) (dq dl) ts 0 src _ rest _ (fuel_for src) (n + count_nl (dg dl 0))
              a g e Hs2 Hi2 Hw Hfu) as [n' Hn'].
  exists n'.
  cbn [decl_loop].
  rewrite (lt_len_at _ _ _ _ _ Hs0 Hi). cbn [negb].
  rewrite (look_at _ _ _ _ _ _ Hsk Hi). rewrite prefix_pp_token. cbn [sbind is_some ret].
  rewrite (look_at _ _ _ _ _ _ Hsk Hi). rewrite prefix_of_self. cbn [sbind is_some ret].
  unfold decl_token.
  rewrite (ws_gap _ _ _ _ _ _ _ _ _ false Hs1 Hi1 Hl0 Hnx) by (intros _; exact Hnl0).
  cbn [sbind].
  rewrite Hn'. cbn [sbind].
  unfold decl_eff. cbn [print_decl]. fold body.
  replace (i + byte_len (dg dl 0) + byte_len kw_token) with (i + byte_len kw_token + byte_len (dg dl 0)) by lia.
  replace (i + byte_len (kw_token ++ dg dl 0 ++ body))
    with (i + byte_len kw_token + byte_len (dg dl 0) + byte_len body) by (rewrite !byte_len_app; lia).
  reflexivity.
Qed.
