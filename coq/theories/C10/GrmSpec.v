(* C10 (a) — declarative description of the grammar object a valid AST must
   produce, and the statements.  Nothing here refers to the constructor's loop:
   the expected object is written with maps over the AST's ordered lists. *)
From Coq Require Import List Arith NArith Bool Lia.
From GV Require Import Common.Outcome C10.GrmModel.
Import ListNotations.

(* ---- what a valid AST is (parser + complete_and_validate + container invariants) *)

Definition sym_resolves (a : ast) (s : asym) : Prop :=
  match s with
  | ARule n => In n (map ar_name (a_rules a))
  | AToken n => In n (a_tokens a)
  end.

Record wf_ast (a : ast) : Prop := mkWf {
  wf_rules_nodup : NoDup (map ar_name (a_rules a));            (* IndexMap keys *)
  wf_tokens_nodup : NoDup (a_tokens a);                         (* IndexSet *)
  wf_spans_len : length (a_spans a) = length (a_tokens a);      (* one span per token *)
  wf_start : exists s, a_start a = Some s /\ In s (map ar_name (a_rules a));
  (* add_prod: every production belongs to exactly one rule *)
  wf_pidxs_range : forall p, In p (all_pidxs a) -> p < length (a_prods a);
  wf_pidxs_nodup : NoDup (all_pidxs a);
  wf_pidxs_cover : forall p, p < length (a_prods a) -> In p (all_pidxs a);
  (* complete_and_validate *)
  wf_syms : forall p s, In p (a_prods a) -> In s (ap_syms p) -> sym_resolves a s;
  wf_prec : forall p n, In p (a_prods a) -> ap_prec p = Some n ->
            exists pr, assoc n (a_precs a) = Some pr;
  (* %avoid_insert / %implicit_tokens insert their tokens into ast.tokens *)
  wf_avoid : forall l n, a_avoid a = Some l -> In n l -> In n (a_tokens a);
  wf_implicit : forall l n, a_implicit a = Some l -> In n l -> In n (a_tokens a)
}.

(* ---- fresh names ------------------------------------------------------------ *)

Fixpoint npow (base : name) (k : nat) : name :=
  match k with 0 => [] | S k' => npow base k' ++ base end.

(* the shortest power base^(k+1) that is not a rule name *)
Definition is_fresh (base : name) (names : list name) (nm : name) : Prop :=
  exists k, nm = npow base (S k) /\ ~ In nm names /\
            forall j, j < k -> In (npow base (S j)) names.

(* ---- the expected object ------------------------------------------------------ *)

Definition idx (n : name) (l : list name) : nat :=
  match index_of n l with Some i => i | None => 0 end.

(* the last token symbol of a production *)
Fixpoint last_token (l : list asym) : option name :=
  match l with
  | [] => None
  | s :: l' =>
      match last_token l' with
      | Some n => Some n
      | None => match s with AToken n => Some n | ARule _ => None end
      end
  end.

(* position of the rule that lists production i *)
Fixpoint owner_in (rs : list arule) (i : nat) : nat :=
  match rs with
  | [] => 0
  | r :: rs' => if existsb (Nat.eqb i) (ar_pidxs r) then 0 else S (owner_in rs' i)
  end.

Section Expected.
  Variable fixed : bool.
  Variable a : ast.
  Variables sn n1 n2 : name.          (* the names of ^, ~ and ^~ *)

  (* Eco with %implicit_tokens: the implicit tokens in token (= first occurrence) order *)
  Definition eco_implicit : option (list name) :=
    match a_kind a with
    | KEco => option_map (fun keys => filter (fun t => mem t keys) (a_tokens a)) (a_implicit a)
    | _ => None
    end.

  Definition n_src : nat := length (a_prods a).
  Definition off : nat := match eco_implicit with Some _ => 3 | None => 1 end.
  Definition n_added : nat := match eco_implicit with Some l => length l + 3 | None => 1 end.

  Definition ridx_of (n : name) : nat := off + idx n (map ar_name (a_rules a)).
  Definition tidx_of (n : name) : nat := idx n (a_tokens a).
  Definition user_start : nat := match a_start a with Some s => ridx_of s | None => 0 end.

  (* ^ first, then (~, ^~), then the source rules in order *)
  Definition x_rule_names : list (name * span) :=
    match eco_implicit with
    | Some _ => [(sn, (0, 0)); (n1, (0, 0)); (n2, (0, 0))]
    | None => [(sn, (0, 0))]
    end ++ map (fun r => (ar_name r, ar_span r)) (a_rules a).

  (* source tokens in order, then one unnamed end-of-input token *)
  Definition x_token_names : list (option (span * name)) :=
    map Some (combine (a_spans a) (a_tokens a)) ++ [None].
  Definition x_token_precs : list (option prec) :=
    map (fun k => assoc k (a_precs a)) (a_tokens a) ++ [None].
  Definition x_token_epp : list (option text) :=
    map (fun k => Some (match assoc k (a_epp a) with Some s => s | None => k end)) (a_tokens a)
    ++ [None].

  (* in Eco-implicit mode every token is followed by the rule ~ (index 1) *)
  Definition x_sym (s : asym) : list gsym :=
    match s with
    | ARule n => [GR (ridx_of n)]
    | AToken n => GT (tidx_of n) :: match eco_implicit with Some _ => [GR 1] | None => [] end
    end.
  Definition x_prod (p : aprod) : list gsym := flat_map x_sym (ap_syms p).

  (* %prec token's precedence, else the last token's, else none *)
  Definition x_prec (p : aprod) : option prec :=
    match ap_prec p with
    | Some n => assoc n (a_precs a)
    | None => match last_token (ap_syms p) with
              | Some n => assoc n (a_precs a)
              | None => None
              end
    end.

  (* source productions keep their index; the added ones follow:
       ^ : S                                   (plain)
       ^ : ^~ ;  ~ : t1 ~ | … | tk ~ | ;  ^~ : ~ S      (Eco with implicit tokens) *)
  Definition x_added_prods : list (list gsym) :=
    match eco_implicit with
    | None => [[GR user_start]]
    | Some l => [[GR 2]] ++ map (fun t => [GT (tidx_of t); GR 1]) l ++ [[]] ++ [[GR 1; GR user_start]]
    end.
  Definition x_prods : list (list gsym) := map x_prod (a_prods a) ++ x_added_prods.

  Definition x_prods_rules : list nat :=
    map (fun i => off + owner_in (a_rules a) i) (seq 0 n_src) ++
    match eco_implicit with
    | None => [0]
    | Some l => [0] ++ repeat 1 (length l + 1) ++ [2]
    end.

  Definition x_rules_prods : list (list nat) :=
    match eco_implicit with
    | None => [[n_src]]
    | Some l => [[n_src]; seq (n_src + 1) (length l + 1); [n_src + length l + 2]]
    end ++ map ar_pidxs (a_rules a).

  Definition x_prod_precs : list (option prec) := map x_prec (a_prods a) ++ repeat None n_added.

  (* as built today the three tables below are too short (the defect); after the
     fix they cover the added productions *)
  Definition x_prod_spans : list span :=
    map ap_span (a_prods a) ++ (if fixed then repeat (0, 0) n_added else []).
  Definition x_actions : list (option text) :=
    map (fun p => option_map fst (ap_action p)) (a_prods a) ++
    (if fixed then repeat None n_added else [None]).
  Definition x_action_spans : list (option span) :=
    map (fun p => option_map snd (ap_action p)) (a_prods a) ++
    (if fixed then repeat None n_added else []).

  Definition x_actiontypes : list (option text) :=
    repeat None off ++ map ar_actiont (a_rules a).

  Definition x_avoid : option (list bool) :=
    match a_avoid a with
    | Some l => Some (map (fun t => mem t l) (a_tokens a) ++ [false])
    | None => None
    end.

  Definition expected : grammar_obj :=
    mkObj x_rule_names x_token_names x_token_precs x_token_epp (length (a_tokens a))
          x_prods x_rules_prods x_prods_rules x_prod_precs x_prod_spans
          n_src
          (match eco_implicit with Some _ => Some 1 | None => None end)
          x_actions x_action_spans x_actiontypes x_avoid
          (a_expect a) (a_expectrr a) (a_parse_param a) (a_parse_generics a) (a_programs a).
End Expected.

(* ---- "every index the API returns is in range / every accessor is defined on
        every index the API hands out" ----------------------------------------- *)

Definition defined {A} (o : outcome A) : Prop := exists v, o = Done v.

Definition sym_in_range (g : grammar_obj) (s : gsym) : Prop :=
  match s with GT t => t < tokens_len g | GR r => r < rules_len g end.

Record obj_in_range (g : grammar_obj) : Prop := mkInRange {
  ir_start_prod : start_prod g < prods_len g;
  ir_eof : eof_token_idx g < tokens_len g;
  ir_implicit : forall r, implicit_rule g = Some r -> r < rules_len g;
  ir_start_rule : exists r, start_rule_idx g = Done r /\ r < rules_len g;
  ir_rule : forall r, r < rules_len g ->
      defined (rule_name_str g r) /\ defined (rule_name_span g r) /\ defined (actiontype g r) /\
      exists ps, rule_to_prods g r = Done ps /\ forall p, In p ps -> p < prods_len g;
  ir_prod : forall p, p < prods_len g ->
      (exists syms, prod_at g p = Done syms /\ prod_len g p = Done (length syms) /\
                    forall s, In s syms -> sym_in_range g s) /\
      (exists r, prod_to_rule g p = Done r /\ r < rules_len g) /\
      defined (prod_precedence g p) /\ defined (prod_span g p) /\
      defined (action g p) /\ defined (action_span g p);
  ir_token : forall t, t < tokens_len g ->
      defined (token_name g t) /\ defined (token_precedence g t) /\ defined (token_epp g t) /\
      defined (token_span g t) /\ defined (avoid_insert g t);
  ir_rule_idx : forall n r, rule_idx g n = Some r -> r < rules_len g;
  ir_token_idx : forall n t, token_idx g n = Some t -> t < tokens_len g;
  ir_tokens_map : forall n t, In (n, t) (tokens_map g) -> t < tokens_len g
}.

(* ---- statements ---------------------------------------------------------------- *)

(* the constructor, on every valid AST, returns exactly the expected object
   (for the code as it is and for the fixed code) *)
Definition build_faithful_stmt : Prop :=
  forall fixed a, wf_ast a ->
    exists sn n1 n2,
      is_fresh START_RULE (map ar_name (a_rules a)) sn /\
      is_fresh IMPLICIT_RULE (map ar_name (a_rules a)) n1 /\
      is_fresh IMPLICIT_START_RULE (map ar_name (a_rules a)) n2 /\
      build_grammar fixed a = Done (expected fixed a sn n1 n2).

(* in particular it never panics and never runs out of fuel *)
Definition build_total_stmt : Prop :=
  forall fixed a, wf_ast a -> exists g, build_grammar fixed a = Done g.

(* the added names are new and pairwise distinct: rule names stay unique *)
Definition rule_names_unique_stmt : Prop :=
  forall fixed a g, wf_ast a -> build_grammar fixed a = Done g ->
    NoDup (map fst (g_rule_names g)).

(* the boolean check run on every dumped AST establishes the hypothesis *)
Definition wf_astb_sound_stmt : Prop := forall a, wf_astb a = true -> wf_ast a.

(* the property's clause, for the FIXED constructor *)
Definition build_dense_in_range_stmt : Prop :=
  forall a g, wf_ast a -> build_grammar true a = Done g -> obj_in_range g.

(* the code as it is violates it: the start production's span cannot be asked for *)
Definition build_dense_in_range_refuted_stmt : Prop :=
  exists a g, wf_ast a /\ build_grammar false a = Done g /\
    start_prod g < prods_len g /\
    prod_span g (start_prod g) = Panic /\ action_span g (start_prod g) = Panic /\
    ~ obj_in_range g.

(* … and with %implicit_tokens (Eco) also the actions of the inserted productions *)
Definition build_eco_actions_refuted_stmt : Prop :=
  exists a g r ps p, wf_ast a /\ build_grammar false a = Done g /\
    implicit_rule g = Some r /\ rule_to_prods g r = Done ps /\ In p ps /\
    action g p = Panic /\ prod_span g p = Panic.
