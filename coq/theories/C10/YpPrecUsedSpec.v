(* C10 / C03 — GrammarAST::unused_symbols and the tokens named by %prec (/repo 4ff022d).

   [unused fu a] (YpModel.v) is the mirror of unused_symbols with the name kept beside each
   entry; [warnings fu a] projects kind and span.  [fu] = [fixed_precused]: the code as it is
   (true) inserts the %prec token of every production it pops from its work list into
   seen_tokens; the pinned code (false) looked at the symbols of the production only, so a token
   that only lends its precedence ('-' E %prec UMINUS with %left UMINUS) was reported
   UnusedToken and CTParserBuilder (warnings_are_errors = true by default) refused the textbook
   unary-minus grammar although its table has no conflict (C03: a compile-time build fails iff
   the conflict counts differ from %expect / %expect-rr).

   Reachability is stated independently of the work list: a rule is reachable when it is the
   start rule or is named by a symbol of a production of a reachable rule; a production is
   reachable when it belongs ([r_pidxs]) to a reachable rule. *)
From Coq Require Import List Arith NArith Bool.
From GV Require Import Common.Outcome C10.YpModel.
Import ListNotations.
Local Open Scope nat_scope.

(* production [p] is one of the productions of the rule named [rn] *)
Definition rule_prod (a : gast) (rn : str) (p : production) : Prop :=
  exists r pidx, get_rule (a_rules a) rn = Some r /\ In pidx (r_pidxs r) /\
                 nth_error (a_prods a) pidx = Some p.

Inductive reach_rule (a : gast) : str -> Prop :=
| reach_start : forall n sp, a_start a = Some (n, sp) -> reach_rule a n
| reach_step : forall rn p m sp, reach_rule a rn -> rule_prod a rn p -> In (SRule m sp) (p_syms p) ->
    reach_rule a m.

Definition reach_prod (a : gast) (p : production) : Prop :=
  exists rn, reach_rule a rn /\ rule_prod a rn p.

(* the code as it is, every AST whatsoever (no well-formedness needed): when unused_symbols
   returns, a token named by %prec of a reachable production is not among the unused tokens *)
Definition prec_token_is_used_stmt : Prop :=
  forall (a : gast) us p n sp,
    unused true a = Done us -> reach_prod a p -> p_prec p = Some n -> ~ In (UnusedToken, n, sp) us.

(* more generally, for both variants: tokens that occur as a symbol of a reachable production
   are not reported (the part of the walk the repair left alone) *)
Definition symbol_token_is_used_stmt : Prop :=
  forall (fu : bool) (a : gast) us p n sp sp',
    unused fu a = Done us -> reach_prod a p -> In (SToken n sp') (p_syms p) -> ~ In (UnusedToken, n, sp) us.

(* the warnings are the unused symbols without their names *)
Definition warnings_are_unused_stmt : Prop :=
  forall fu a ws, warnings fu a = Done ws <->
    exists us, unused fu a = Done us /\ ws = map (fun x : wkind * str * span => (fst (fst x), snd x)) us.

(* the pinned code: refuted on the AST the parser builds for the unary-minus grammar
     %start E  %left '-'  %left UMINUS  %%  E: E '-' E | '-' E %prec UMINUS | 'n';
   (no error); the same AST under the code as it is has no warning at all; a %prec token of an
   UNREACHABLE production is (rightly) still reported by the code as it is *)
Definition prec_only_token_unused_refuted_stmt : Prop :=
  exists src a us p n sp,
    run_case true false true false KOriginal src = Done (TResult a [] (warnings false a)) /\
    unused false a = Done us /\ reach_prod a p /\ p_prec p = Some n /\ In (UnusedToken, n, sp) us /\
    run_case true false true true KOriginal src = Done (TResult a [] (Done [])).

Definition prec_token_unreachable_reported_stmt : Prop :=
  exists src a us p n sp,
    run_case true false true true KOriginal src = Done (TResult a [] (warnings true a)) /\
    unused true a = Done us /\ In p (a_prods a) /\ ~ reach_prod a p /\ p_prec p = Some n /\
    In (UnusedToken, n, sp) us.
