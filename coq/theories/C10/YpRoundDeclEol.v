(* C10 half (b), round trip — one iteration of parse_declarations' loop for the
   directives whose value is read to the end of the line: %actiontype (Original
   dialect), %parse-generics, %parse-param. *)
From Coq Require Import List Arith NArith ZArith Bool Lia.
From GV Require Import Common.Outcome C10.YpModel C10.YpSpec C10.YpProofs C10.YpPrint C10.YpRoundSpec C10.YpRoundBase C10.YpRoundAction C10.YpRoundLex.
Import ListNotations.
Local Open Scope nat_scope.

Lemma pct_item_start_eol : forall r, item_start (37%N :: r).
Proof. intros r. reflexivity. Qed.

(* a lookahead that fails / succeeds by computation on the keyword at the cursor *)
Ltac lookF Hs Hi :=
  rewrite (look_at _ _ _ _ _ _ Hs Hi);
  match goal with |- context [prefix_of ?k ?r] => change (prefix_of k r) with false end;
  cbn [sbind is_some ret].
Ltac lookT Hs Hi :=
  rewrite (look_at _ _ _ _ _ _ Hs Hi); rewrite prefix_of_self; cbn [sbind is_some ret].
(* the lookaheads before %avoid_insert: %% %token [%actiontype] %start %epp %expect-rr
   %expect-unused %expect *)
Ltac cascade1 yk Hs Hi :=
  do 2 lookF Hs Hi;
  rewrite (look_actiontype_skip yk _ _ _ _ _ Hs Hi) by reflexivity; cbn [sbind is_some ret];
  do 5 lookF Hs Hi.

(* the value of an end-of-line directive starts an item *)
Lemma eol_text_item_start : forall t r, wf_eol_text t -> item_start (t ++ r).
Proof.
  intros t r [Hne [Hst _]]. apply item_start_app; assumption.
Qed.

Lemma not_starting_app : forall (p : N -> bool) a r, a <> [] -> not_starting p a -> not_starting p (a ++ r).
Proof. intros p [|c a] r Hne H; [congruence|]. exact H. Qed.

(* ---- %actiontype ------------------------------------------------------------ *)
Lemma decl_step_actiontype : forall k t, decl_step_for k (DActiontype t).
Proof.
  intros k t src pre dl rest i f n a g e lvl Hs Hi Hwf Hk Hpre.
  cbn [print_decl] in Hs. cbn [wf_decl] in Hwf. destruct Hwf as [[Hl0 Hn0] [Hwt Hg1]].
  cbn [decl_kind_ok] in Hk. subst k. cbn [decl_pre] in Hpre. subst g.
  destruct (nl_gap_hd _ Hg1) as [c [r [Eg [Hc Hl1]]]].
  pose proof (eol_text_item_start t (dg dl 1 ++ 37%N :: rest) Hwt) as Hr1.
  destruct Hwt as [Hne [Hst Hnl]].
  assert (Hs0 : src = pre ++ (kw_actiontype ++ (dg dl 0 ++ t ++ dg dl 1 ++ 37%N :: rest))) by (rewrite Hs; lsolve).
  cbn [decl_loop is_prec is_original].
  rewrite (lt_len_at _ _ _ _ _ Hs0 Hi). cbn [negb].
  do 2 lookF Hs0 Hi. lookT Hs0 Hi.
  unfold decl_actiontype.
  (* gap after the keyword *)
  assert (Hs1 : src = (pre ++ kw_actiontype) ++ dg dl 0 ++ (t ++ dg dl 1 ++ 37%N :: rest)) by (rewrite Hs; lsolve).
  assert (Hi1 : i + byte_len kw_actiontype = byte_len (pre ++ kw_actiontype)) by (subst i; blen).
  rewrite (ws_gap _ _ _ _ _ _ _ _ _ false Hs1 Hi1 Hl0 Hr1) by (intros _; exact Hn0).
  cbn [sbind].
  (* the type, up to the end of the line *)
  assert (Hs2 : src = ((pre ++ kw_actiontype) ++ dg dl 0) ++ t ++ c :: (r ++ 37%N :: rest)) by (rewrite Hs, Eg; lsolve).
  assert (Hi2 : i + byte_len kw_actiontype + byte_len (dg dl 0) = byte_len ((pre ++ kw_actiontype) ++ dg dl 0)) by (subst i; blen).
  rewrite (to_eol_at _ _ _ _ _ _ _ Hs2 Hi2 Hc Hnl). cbn [sbind].
  rewrite mk_span_le by lia. cbn [lifto sbind gat ret]. stn.
  (* gap after the type *)
  assert (Hs3 : src = (((pre ++ kw_actiontype) ++ dg dl 0) ++ t) ++ dg dl 1 ++ 37%N :: rest) by (rewrite Hs; lsolve).
  assert (Hi3 : i + byte_len kw_actiontype + byte_len (dg dl 0) + byte_len t = byte_len (((pre ++ kw_actiontype) ++ dg dl 0) ++ t)) by (subst i; blen).
  rewrite (ws_gap _ _ _ _ _ _ _ _ _ true Hs3 Hi3 Hl1 (pct_item_start_eol rest)) by (intros HH; discriminate HH).
  cbn [sbind]. eexists. unfold decl_eff, decl_gat. cbn [print_decl]. rewrite !byte_len_app. feq.
Qed.

(* ---- %parse-generics -------------------------------------------------------- *)
Lemma decl_step_parse_generics : forall k t, decl_step_for k (DParseGenerics t).
Proof.
  intros k t src pre dl rest i f n a g e lvl Hs Hi Hwf Hk Hpre.
  cbn [print_decl] in Hs. cbn [wf_decl] in Hwf. destruct Hwf as [[Hl0 Hn0] [Hwt Hg1]].
  destruct (nl_gap_hd _ Hg1) as [c [r [Eg [Hc Hl1]]]].
  pose proof (eol_text_item_start t (dg dl 1 ++ 37%N :: rest) Hwt) as Hr1.
  destruct Hwt as [Hne [Hst Hnl]].
  assert (Hs0 : src = pre ++ (kw_parse_generics ++ (dg dl 0 ++ t ++ dg dl 1 ++ 37%N :: rest))) by (rewrite Hs; lsolve).
  cbn [decl_loop is_prec].
  rewrite (lt_len_at _ _ _ _ _ Hs0 Hi). cbn [negb].
  cascade1 k Hs0 Hi. do 2 lookF Hs0 Hi. lookT Hs0 Hi.
  unfold decl_parse_generics.
  (* gap after the keyword *)
  assert (Hs1 : src = (pre ++ kw_parse_generics) ++ dg dl 0 ++ (t ++ dg dl 1 ++ 37%N :: rest)) by (rewrite Hs; lsolve).
  assert (Hi1 : i + byte_len kw_parse_generics = byte_len (pre ++ kw_parse_generics)) by (subst i; blen).
  rewrite (ws_gap _ _ _ _ _ _ _ _ _ false Hs1 Hi1 Hl0 Hr1) by (intros _; exact Hn0).
  cbn [sbind].
  (* the generics, up to the end of the line *)
  assert (Hs2 : src = ((pre ++ kw_parse_generics) ++ dg dl 0) ++ t ++ c :: (r ++ 37%N :: rest)) by (rewrite Hs, Eg; lsolve).
  assert (Hi2 : i + byte_len kw_parse_generics + byte_len (dg dl 0) = byte_len ((pre ++ kw_parse_generics) ++ dg dl 0)) by (subst i; blen).
  rewrite (to_eol_at _ _ _ _ _ _ _ Hs2 Hi2 Hc Hnl). cbn [sbind ast]. stn.
  (* gap after the generics *)
  assert (Hs3 : src = (((pre ++ kw_parse_generics) ++ dg dl 0) ++ t) ++ dg dl 1 ++ 37%N :: rest) by (rewrite Hs; lsolve).
  assert (Hi3 : i + byte_len kw_parse_generics + byte_len (dg dl 0) + byte_len t = byte_len (((pre ++ kw_parse_generics) ++ dg dl 0) ++ t)) by (subst i; blen).
  rewrite (ws_gap _ _ _ _ _ _ _ _ _ true Hs3 Hi3 Hl1 (pct_item_start_eol rest)) by (intros HH; discriminate HH).
  cbn [sbind]. eexists. unfold decl_eff, decl_gat. cbn [print_decl]. rewrite !byte_len_app. feq.
Qed.

(* ---- %parse-param ----------------------------------------------------------- *)
Lemma decl_step_parse_param : forall k n t, decl_step_for k (DParseParam n t).
Proof.
  intros k nm t src pre dl rest i f n a g e lvl Hs Hi Hwf Hk Hpre.
  cbn [print_decl] in Hs. cbn [wf_decl] in Hwf.
  destruct Hwf as [[Hl0 Hn0] [Hnm [Hpad [Hit [[Hl1 Hn1] [Hnc [Hwt Hg2]]]]]]].
  destruct (nl_gap_hd _ Hg2) as [c [r [Eg [Hc Hl2]]]].
  pose proof (eol_text_item_start t (dg dl 2 ++ 37%N :: rest) Hwt) as Hr3.
  destruct Hwt as [Hne [Hst Hnl]].
  assert (Hs0 : src = pre ++ (kw_parse_param ++ (dg dl 0 ++ nm ++ d_txt dl ++ c_colon :: dg dl 1 ++ t ++ dg dl 2 ++ 37%N :: rest)))
    by (rewrite Hs; lsolve).
  cbn [decl_loop is_prec].
  rewrite (lt_len_at _ _ _ _ _ Hs0 Hi). cbn [negb].
  cascade1 k Hs0 Hi. lookF Hs0 Hi. lookT Hs0 Hi.
  unfold decl_parse_param.
  (* gap after the keyword *)
  assert (Hs1 : src = (pre ++ kw_parse_param) ++ dg dl 0 ++ ((nm ++ d_txt dl ++ [c_colon]) ++ (dg dl 1 ++ t ++ dg dl 2 ++ 37%N :: rest)))
    by (rewrite Hs; lsolve).
  assert (Hi1 : i + byte_len kw_parse_param = byte_len (pre ++ kw_parse_param)) by (subst i; blen).
  assert (Hr1 : item_start ((nm ++ d_txt dl ++ [c_colon]) ++ (dg dl 1 ++ t ++ dg dl 2 ++ 37%N :: rest))).
  { apply item_start_app; [|exact Hit].
    intros E. apply (f_equal (@List.length N)) in E. rewrite !app_length in E. cbn [List.length] in E. lia. }
  rewrite (ws_gap _ _ _ _ _ _ _ _ _ false Hs1 Hi1 Hl0 Hr1) by (intros _; exact Hn0).
  cbn [sbind nn].
  (* the name, up to the single colon *)
  assert (Hs2 : src = ((pre ++ kw_parse_param) ++ dg dl 0) ++ nm ++ d_txt dl ++ c_colon :: (dg dl 1 ++ t ++ dg dl 2 ++ 37%N :: rest))
    by (rewrite Hs; lsolve).
  assert (Hi2 : i + byte_len kw_parse_param + byte_len (dg dl 0) = byte_len ((pre ++ kw_parse_param) ++ dg dl 0)) by (subst i; blen).
  assert (Hnc2 : not_starting is_colon (dg dl 1 ++ t ++ dg dl 2 ++ 37%N :: rest)).
  { rewrite app_assoc. apply not_starting_app; [|exact Hnc].
    intros E. apply app_eq_nil in E. destruct E as [_ E]. contradiction. }
  rewrite (to_colon_at _ _ _ _ _ _ _ _ _ _ Hs2 Hi2 Hnm Hpad Hnc2). cbn [sbind].
  (* the colon *)
  assert (Hs3 : src = (((pre ++ kw_parse_param) ++ dg dl 0) ++ nm ++ d_txt dl) ++ kw_colon ++ (dg dl 1 ++ t ++ dg dl 2 ++ 37%N :: rest))
    by (rewrite Hs; lsolve).
  assert (Hi3 : i + byte_len kw_parse_param + byte_len (dg dl 0) + byte_len (nm ++ d_txt dl)
                = byte_len (((pre ++ kw_parse_param) ++ dg dl 0) ++ nm ++ d_txt dl)) by (subst i; blen).
  lookT Hs3 Hi3.
  (* gap after the colon *)
  assert (Hs4 : src = ((((pre ++ kw_parse_param) ++ dg dl 0) ++ nm ++ d_txt dl) ++ kw_colon) ++ dg dl 1 ++ (t ++ dg dl 2 ++ 37%N :: rest))
    by (rewrite Hs; lsolve).
  assert (Hi4 : i + byte_len kw_parse_param + byte_len (dg dl 0) + byte_len (nm ++ d_txt dl) + byte_len kw_colon
                = byte_len ((((pre ++ kw_parse_param) ++ dg dl 0) ++ nm ++ d_txt dl) ++ kw_colon)) by (subst i; blen).
  rewrite (ws_gap _ _ _ _ _ _ _ _ _ false Hs4 Hi4 Hl1 Hr3) by (intros _; exact Hn1).
  cbn [sbind].
  (* the type, up to the end of the line *)
  assert (Hs5 : src = (((((pre ++ kw_parse_param) ++ dg dl 0) ++ nm ++ d_txt dl) ++ kw_colon) ++ dg dl 1) ++ t ++ c :: (r ++ 37%N :: rest))
    by (rewrite Hs, Eg; lsolve).
  assert (Hi5 : i + byte_len kw_parse_param + byte_len (dg dl 0) + byte_len (nm ++ d_txt dl) + byte_len kw_colon + byte_len (dg dl 1)
                = byte_len (((((pre ++ kw_parse_param) ++ dg dl 0) ++ nm ++ d_txt dl) ++ kw_colon) ++ dg dl 1)) by (subst i; blen).
  rewrite (to_eol_at _ _ _ _ _ _ _ Hs5 Hi5 Hc Hnl). cbn [sbind ast]. stn.
  (* gap after the type *)
  assert (Hs6 : src = ((((((pre ++ kw_parse_param) ++ dg dl 0) ++ nm ++ d_txt dl) ++ kw_colon) ++ dg dl 1) ++ t) ++ dg dl 2 ++ 37%N :: rest)
    by (rewrite Hs; lsolve).
  assert (Hi6 : i + byte_len kw_parse_param + byte_len (dg dl 0) + byte_len (nm ++ d_txt dl) + byte_len kw_colon + byte_len (dg dl 1) + byte_len t
                = byte_len ((((((pre ++ kw_parse_param) ++ dg dl 0) ++ nm ++ d_txt dl) ++ kw_colon) ++ dg dl 1) ++ t)) by (subst i; blen).
  rewrite (ws_gap _ _ _ _ _ _ _ _ _ true Hs6 Hi6 Hl2 (pct_item_start_eol rest)) by (intros HH; discriminate HH).
  cbn [sbind]. eexists. unfold decl_eff, decl_gat. cbn [print_decl].
  rewrite ?byte_len_app. cbn [byte_len]. rewrite ?byte_len_app.
  change (len_utf8 c_colon) with 1. change (byte_len kw_colon) with 1. feq.
Qed.
