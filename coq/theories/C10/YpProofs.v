(* C10 half (b) / C12 (yacc part) — proofs about the mirror of YaccParser. *)
From Coq Require Import List Arith NArith ZArith Bool Lia.
From GV Require Import Common.Outcome C10.YpModel C10.YpSpec.
Import ListNotations.
Local Open Scope nat_scope.

(* ---- bytes and positions -------------------------------------------------- *)
Lemma len_utf8_pos : forall c, 1 <= len_utf8 c.
Proof.
  intros c. unfold len_utf8.
  destruct (c <? 128)%N; [lia|]. destruct (c <? 2048)%N; [lia|]. destruct (c <? 65536)%N; lia.
Qed.

Lemma len_utf8_le4 : forall c, len_utf8 c <= 4.
Proof.
  intros c. unfold len_utf8.
  destruct (c <? 128)%N; [lia|]. destruct (c <? 2048)%N; [lia|]. destruct (c <? 65536)%N; lia.
Qed.

Lemma byte_len_app : forall a b, byte_len (a ++ b) = byte_len a + byte_len b.
Proof. induction a as [|c a IH]; intros b; simpl; [reflexivity | rewrite IH; lia]. Qed.

Lemma slice_from_0 : forall s, slice_from s 0 = Done s.
Proof. destruct s; reflexivity. Qed.

Lemma slice_from_step : forall c s i,
  len_utf8 c <= i -> slice_from (c :: s) i = slice_from s (i - len_utf8 c).
Proof.
  intros c s i H. pose proof (len_utf8_pos c) as Hc.
  destruct i as [|i]; [lia|]. cbn [slice_from].
  destruct (Nat.leb_spec (len_utf8 c) (S i)); [reflexivity | lia].
Qed.

Lemma slice_from_app : forall pre r, slice_from (pre ++ r) (byte_len pre) = Done r.
Proof.
  induction pre as [|c pre IH]; intros r.
  - apply slice_from_0.
  - simpl app. simpl byte_len. rewrite slice_from_step by lia.
    replace (len_utf8 c + byte_len pre - len_utf8 c) with (byte_len pre) by lia. apply IH.
Qed.

Lemma next_char_app : forall pre c tl, next_char (pre ++ c :: tl) (byte_len pre) = Done c.
Proof. intros. unfold next_char, char_at. rewrite slice_from_app. reflexivity. Qed.

Lemma lt_len_app : forall pre c tl, (byte_len pre <? byte_len (pre ++ c :: tl)) = true.
Proof.
  intros. apply Nat.ltb_lt. rewrite byte_len_app. simpl. pose proof (len_utf8_pos c). lia.
Qed.

Lemma snoc_app : forall (pre : str) c tl, pre ++ c :: tl = (pre ++ [c]) ++ tl.
Proof. intros. rewrite <- app_assoc. reflexivity. Qed.

Lemma byte_len_snoc : forall pre c, byte_len (pre ++ [c]) = byte_len pre + len_utf8 c.
Proof. intros. rewrite byte_len_app. simpl. lia. Qed.

(* ---- character facts ------------------------------------------------------- *)
Lemma Neqb_true : forall a b : N, (a =? b)%N = true -> a = b.
Proof. intros a b H. apply N.eqb_eq. exact H. Qed.

Lemma slash_not_blank : is_sptab c_slash = false /\ is_nl c_slash = false.
Proof. split; reflexivity. Qed.
Lemma star_not_nl : is_nl c_star = false.
Proof. reflexivity. Qed.

Lemma count_nl_app : forall a b, count_nl (a ++ b) = count_nl a + count_nl b.
Proof. intros. unfold count_nl. rewrite filter_app, app_length. reflexivity. Qed.

Lemma count_nl_cons : forall c s, count_nl (c :: s) = (if is_nl c then 1 else 0) + count_nl s.
Proof. intros. unfold count_nl. simpl. destruct (is_nl c); reflexivity. Qed.

(* ======================================================================== *)
(*  parse_ws skips layout (repaired block-comment scan)                       *)
(* ======================================================================== *)

(* a // comment: the [for] loop consumes the body and the newline *)
Lemma line_comment_body : forall body nl tl i nn,
  forallb (fun c => negb (is_nl c)) body = true -> is_nl nl = true ->
  line_comment (body ++ nl :: tl) i nn = (i + byte_len body + len_utf8 nl, S nn).
Proof.
  induction body as [|c body IH]; intros nl tl i nn Hb Hnl.
  - simpl. rewrite Hnl. f_equal. lia.
  - simpl in Hb. apply andb_true_iff in Hb. destruct Hb as [Hc Hb].
    simpl. apply negb_true_iff in Hc. rewrite Hc. rewrite IH by assumption. f_equal. lia.
Qed.

(* the /* */ scan of the repaired code finds the first "*/" *)
Lemma block_scan_fixed : forall s pre tl n nn inc f,
  find_close s = Some n ->
  (inc = false -> count_nl (firstn n s) = 0) ->
  n + 2 <= f ->
  let src := pre ++ s ++ tl in
  block_loop true src (byte_len src) f (byte_len pre) nn inc
  = Done (BFound (byte_len pre + byte_len (firstn (n + 2) s)) (nn + count_nl (firstn n s))).
Proof.
  induction s as [|c s IH]; intros pre tl n nn inc f Hfc Hinc Hf src.
  - discriminate Hfc.
  - simpl in Hfc. destruct s as [|d s']; [discriminate Hfc|].
    destruct f as [|f]; [lia|].
    subst src. cbn [block_loop].
    change ((c :: d :: s') ++ tl) with (c :: (d :: s') ++ tl).
    rewrite lt_len_app. cbn [negb]. rewrite next_char_app. cbn [obind].
    assert (Hk1 : byte_len pre + len_utf8 c = byte_len (pre ++ [c])) by (rewrite byte_len_snoc; reflexivity).
    assert (Hsrc : pre ++ c :: (d :: s') ++ tl = (pre ++ [c]) ++ d :: s' ++ tl)
      by (rewrite <- app_assoc; reflexivity).
    destruct ((c =? c_star) && (d =? c_slash))%N eqn:Hcd.
    + (* the closing pair *)
      injection Hfc as <-. apply andb_true_iff in Hcd. destruct Hcd as [Hc Hd].
      apply Neqb_true in Hc. apply Neqb_true in Hd. subst c d.
      rewrite star_not_nl. rewrite N.eqb_refl.
      rewrite Hk1, Hsrc. rewrite lt_len_app. rewrite next_char_app. cbn [obind].
      rewrite N.eqb_refl. simpl firstn. simpl count_nl. f_equal. f_equal.
      * rewrite byte_len_snoc. change (len_utf8 c_star) with 1. change (len_utf8 c_slash) with 1. simpl. lia.
      * unfold count_nl. simpl. lia.
    + destruct (find_close (d :: s')) as [n'|] eqn:Hfc'; [|discriminate Hfc].
      injection Hfc as <-.
      assert (Hf' : n' + 2 <= f) by lia.
      assert (IHs := fun nn' Hi => IH (pre ++ [c]) tl n' nn' inc f eq_refl Hi Hf').
      cbn zeta in IHs.
      change (S n' + 2) with (S (n' + 2)). cbn [firstn].
      rewrite count_nl_cons. cbn [byte_len].
      destruct (is_nl c) eqn:Hnl.
      * (* newline inside the comment *)
        destruct inc.
        -- cbn [negb]. rewrite Hk1. rewrite Hsrc.
           change (d :: s' ++ tl) with ((d :: s') ++ tl).
           rewrite IHs by (intros Habs; discriminate Habs).
           f_equal. f_equal; rewrite ?byte_len_snoc; lia.
        -- exfalso. specialize (Hinc eq_refl). cbn [firstn] in Hinc.
           rewrite count_nl_cons, Hnl in Hinc. lia.
      * assert (Hinc' : inc = false -> count_nl (firstn n' (d :: s')) = 0).
        { intros Hi. specialize (Hinc Hi). cbn [firstn] in Hinc.
          rewrite count_nl_cons, Hnl in Hinc. lia. }
        destruct (c =? c_star)%N eqn:Hc.
        -- (* a star not followed by a slash *)
           cbn [andb] in Hcd.
           rewrite Hk1, Hsrc. rewrite lt_len_app. rewrite next_char_app. cbn [obind].
           rewrite Hcd.
           change (d :: s' ++ tl) with ((d :: s') ++ tl).
           rewrite IHs by assumption.
           f_equal. f_equal; rewrite ?byte_len_snoc; lia.
        -- rewrite Hk1, Hsrc.
           change (d :: s' ++ tl) with ((d :: s') ++ tl).
           rewrite IHs by assumption.
           f_equal. f_equal; rewrite ?byte_len_snoc; lia.
Qed.
