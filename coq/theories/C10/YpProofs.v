(* C10 half (b) / C12 (yacc part) — proofs about the mirror of YaccParser. *)
From Coq Require Import List Arith NArith ZArith Bool Lia.
From GV Require Import Common.Outcome C10.YpModel C10.YpSpec.
Import ListNotations.
Local Open Scope nat_scope.

(* ---- bytes and positions -------------------------------------------------- *)
Lemma len_utf8_pos : forall c, 1 <= len_utf8 c.
Proof.
  intros c. unfold len_utf8.
  destruct (c <? 128)%N; [lia|]. destruct (c <? 2048)%N; [lia|]. destruct (c <? 65536)%N; lia.
Qed.

Lemma len_utf8_le4 : forall c, len_utf8 c <= 4.
Proof.
  intros c. unfold len_utf8.
  destruct (c <? 128)%N; [lia|]. destruct (c <? 2048)%N; [lia|]. destruct (c <? 65536)%N; lia.
Qed.

Lemma byte_len_app : forall a b, byte_len (a ++ b) = byte_len a + byte_len b.
Proof. induction a as [|c a IH]; intros b; simpl; [reflexivity | rewrite IH; lia]. Qed.

Lemma slice_from_0 : forall s, slice_from s 0 = Done s.
Proof. destruct s; reflexivity. Qed.

Lemma slice_from_step : forall c s i,
  len_utf8 c <= i -> slice_from (c :: s) i = slice_from s (i - len_utf8 c).
Proof.
  intros c s i H. pose proof (len_utf8_pos c) as Hc.
  destruct i as [|i]; [lia|]. cbn [slice_from].
  destruct (Nat.leb_spec (len_utf8 c) (S i)); [reflexivity | lia].
Qed.

Lemma slice_from_app : forall pre r, slice_from (pre ++ r) (byte_len pre) = Done r.
Proof.
  induction pre as [|c pre IH]; intros r.
  - apply slice_from_0.
  - simpl app. simpl byte_len. rewrite slice_from_step by lia.
    replace (len_utf8 c + byte_len pre - len_utf8 c) with (byte_len pre) by lia. apply IH.
Qed.

Lemma next_char_app : forall pre c tl, next_char (pre ++ c :: tl) (byte_len pre) = Done c.
Proof. intros. unfold next_char, char_at. rewrite slice_from_app. reflexivity. Qed.

Lemma lt_len_app : forall pre c tl, (byte_len pre <? byte_len (pre ++ c :: tl)) = true.
Proof.
  intros. apply Nat.ltb_lt. rewrite byte_len_app. simpl. pose proof (len_utf8_pos c). lia.
Qed.

Lemma snoc_app : forall (pre : str) c tl, pre ++ c :: tl = (pre ++ [c]) ++ tl.
Proof. intros. rewrite <- app_assoc. reflexivity. Qed.

Lemma byte_len_snoc : forall pre c, byte_len (pre ++ [c]) = byte_len pre + len_utf8 c.
Proof. intros. rewrite byte_len_app. simpl. lia. Qed.

(* ---- character facts ------------------------------------------------------- *)
Lemma Neqb_true : forall a b : N, (a =? b)%N = true -> a = b.
Proof. intros a b H. apply N.eqb_eq. exact H. Qed.

Lemma slash_not_blank : is_sptab c_slash = false /\ is_nl c_slash = false.
Proof. split; reflexivity. Qed.
Lemma star_not_nl : is_nl c_star = false.
Proof. reflexivity. Qed.

Lemma count_nl_app : forall a b, count_nl (a ++ b) = count_nl a + count_nl b.
Proof. intros. unfold count_nl. rewrite filter_app, app_length. reflexivity. Qed.

Lemma count_nl_cons : forall c s, count_nl (c :: s) = (if is_nl c then 1 else 0) + count_nl s.
Proof. intros. unfold count_nl. simpl. destruct (is_nl c); reflexivity. Qed.

(* ======================================================================== *)
(*  parse_ws skips layout (repaired block-comment scan)                       *)
(* ======================================================================== *)

(* a // comment: the [for] loop consumes the body and the newline *)
Lemma line_comment_body : forall body nl tl i nn,
  forallb (fun c => negb (is_nl c)) body = true -> is_nl nl = true ->
  line_comment (body ++ nl :: tl) i nn = (i + byte_len body + len_utf8 nl, S nn).
Proof.
  induction body as [|c body IH]; intros nl tl i nn Hb Hnl.
  - simpl. rewrite Hnl. f_equal. lia.
  - simpl in Hb. apply andb_true_iff in Hb. destruct Hb as [Hc Hb].
    simpl. apply negb_true_iff in Hc. rewrite Hc. rewrite IH by assumption. f_equal. lia.
Qed.

(* the /* */ scan of the repaired code finds the first "*/" *)
Lemma block_scan_fixed : forall s pre tl n nn inc f,
  find_close s = Some n ->
  (inc = false -> count_nl (firstn n s) = 0) ->
  n + 2 <= f ->
  let src := pre ++ s ++ tl in
  block_loop true src (byte_len src) f (byte_len pre) nn inc
  = Done (BFound (byte_len pre + byte_len (firstn (n + 2) s)) (nn + count_nl (firstn n s))).
Proof.
  induction s as [|c s IH]; intros pre tl n nn inc f Hfc Hinc Hf src.
  - discriminate Hfc.
  - simpl in Hfc. destruct s as [|d s']; [discriminate Hfc|].
    destruct f as [|f]; [lia|].
    subst src. cbn [block_loop].
    change ((c :: d :: s') ++ tl) with (c :: (d :: s') ++ tl).
    rewrite lt_len_app. cbn [negb]. rewrite next_char_app. cbn [obind].
    assert (Hk1 : byte_len pre + len_utf8 c = byte_len (pre ++ [c])) by (rewrite byte_len_snoc; reflexivity).
    assert (Hsrc : pre ++ c :: (d :: s') ++ tl = (pre ++ [c]) ++ d :: s' ++ tl)
      by (rewrite <- app_assoc; reflexivity).
    destruct ((c =? c_star) && (d =? c_slash))%N eqn:Hcd.
    + (* the closing pair *)
      injection Hfc as <-. apply andb_true_iff in Hcd. destruct Hcd as [Hc Hd].
      apply Neqb_true in Hc. apply Neqb_true in Hd. subst c d.
      rewrite star_not_nl. rewrite N.eqb_refl.
      rewrite Hk1, Hsrc. rewrite lt_len_app. rewrite next_char_app. cbn [obind].
      rewrite N.eqb_refl. simpl firstn. simpl count_nl. f_equal. f_equal.
      * rewrite byte_len_snoc. change (len_utf8 c_star) with 1. change (len_utf8 c_slash) with 1. simpl. lia.
      * unfold count_nl. simpl. lia.
    + destruct (find_close (d :: s')) as [n'|] eqn:Hfc'; [|discriminate Hfc].
      injection Hfc as <-.
      assert (Hf' : n' + 2 <= f) by lia.
      assert (IHs := fun nn' Hi => IH (pre ++ [c]) tl n' nn' inc f eq_refl Hi Hf').
      cbn zeta in IHs.
      change (S n' + 2) with (S (n' + 2)). cbn [firstn].
      rewrite count_nl_cons. cbn [byte_len].
      destruct (is_nl c) eqn:Hnl.
      * (* newline inside the comment *)
        destruct inc.
        -- cbn [negb]. rewrite Hk1. rewrite Hsrc.
           change (d :: s' ++ tl) with ((d :: s') ++ tl).
           rewrite IHs by (intros Habs; discriminate Habs).
           f_equal. f_equal; rewrite ?byte_len_snoc; lia.
        -- exfalso. specialize (Hinc eq_refl). cbn [firstn] in Hinc.
           rewrite count_nl_cons, Hnl in Hinc. lia.
      * assert (Hinc' : inc = false -> count_nl (firstn n' (d :: s')) = 0).
        { intros Hi. specialize (Hinc Hi). cbn [firstn] in Hinc.
          rewrite count_nl_cons, Hnl in Hinc. lia. }
        destruct (c =? c_star)%N eqn:Hc.
        -- (* a star not followed by a slash *)
           cbn [andb] in Hcd.
           rewrite Hk1, Hsrc. rewrite lt_len_app. rewrite next_char_app. cbn [obind].
           rewrite Hcd.
           change (d :: s' ++ tl) with ((d :: s') ++ tl).
           rewrite IHs by assumption.
           f_equal. f_equal; rewrite ?byte_len_snoc; lia.
        -- rewrite Hk1, Hsrc.
           change (d :: s' ++ tl) with ((d :: s') ++ tl).
           rewrite IHs by assumption.
           f_equal. f_equal; rewrite ?byte_len_snoc; lia.
Qed.

Lemma length_le_byte_len : forall s, List.length s <= byte_len s.
Proof. induction s as [|c s IH]; simpl; [lia | pose proof (len_utf8_pos c); lia]. Qed.

Lemma is_blank_false : forall c, is_blank c = false -> is_sptab c = false /\ is_nl c = false.
Proof. intros c H. unfold is_blank in H. apply orb_false_iff in H. exact H. Qed.

(* parse_ws stops at a solid character *)
Lemma ws_stop : forall fixed pre rest nn inc fuel f,
  starts_solid rest ->
  ws_loop fixed (pre ++ rest) (byte_len (pre ++ rest)) fuel (S f) nn (byte_len pre) inc
  = Done (Ok (byte_len pre, nn)).
Proof.
  intros fixed pre rest nn inc fuel f Hs. destruct rest as [|c r].
  - cbn [ws_loop]. rewrite app_nil_r, Nat.ltb_irrefl. reflexivity.
  - destruct Hs as [Hb Hsl]. apply is_blank_false in Hb. destruct Hb as [Hst Hnl].
    cbn [ws_loop]. rewrite lt_len_app. cbn [negb]. rewrite next_char_app. cbn [obind].
    rewrite Hst, Hnl.
    destruct (c =? c_slash)%N eqn:Hc; [|reflexivity].
    apply Neqb_true in Hc. subst c. specialize (Hsl eq_refl).
    change (len_utf8 c_slash) with 1.
    destruct r as [|d r'].
    + rewrite byte_len_app. simpl byte_len. change (len_utf8 c_slash) with 1.
      rewrite ?Nat.add_0_r. rewrite Nat.eqb_refl. reflexivity.
    + destruct Hsl as [Hd1 Hd2].
      replace (byte_len pre + 1 =? byte_len (pre ++ c_slash :: d :: r')) with false.
      2:{ symmetry. apply Nat.eqb_neq. rewrite byte_len_app. simpl byte_len.
          change (len_utf8 c_slash) with 1. pose proof (len_utf8_pos d). lia. }
      replace (byte_len pre + 1) with (byte_len (pre ++ [c_slash]))
        by (rewrite byte_len_snoc; reflexivity).
      rewrite (snoc_app pre c_slash (d :: r')). rewrite next_char_app. cbn [obind].
      apply N.eqb_neq in Hd1. apply N.eqb_neq in Hd2. rewrite Hd1, Hd2. reflexivity.
Qed.

(* one layout item = one iteration of the outer loop *)
Lemma ws_item : forall it, layout_item it -> forall pre tl nn inc fuel f,
  (inc = false -> count_nl it = 0 \/ exists r, it = c_slash :: c_slash :: r) ->
  byte_len it <= fuel ->
  let src := pre ++ it ++ tl in
  ws_loop true src (byte_len src) fuel (S f) nn (byte_len pre) inc
  = ws_loop true src (byte_len src) fuel f (nn + count_nl it) (byte_len pre + byte_len it) inc.
Proof.
  intros it Hit pre tl nn inc fuel f Hinc Hfuel src. subst src.
  destruct Hit as [c Hc | body nl Hbody Hnl | body Hclose].
  - (* blank *)
    cbn [app]. cbn [ws_loop]. rewrite lt_len_app. cbn [negb]. rewrite next_char_app. cbn [obind].
    simpl byte_len. rewrite Nat.add_0_r. rewrite count_nl_cons. change (count_nl (@nil N)) with 0.
    unfold is_blank in Hc. destruct (is_sptab c) eqn:Hst.
    + assert (Hn : is_nl c = false).
      { unfold is_sptab in Hst. apply orb_true_iff in Hst.
        destruct Hst as [H|H]; apply Neqb_true in H; subst c; reflexivity. }
      rewrite Hn. rewrite ?Nat.add_0_r. reflexivity.
    + cbn [orb] in Hc. rewrite Hc. destruct inc.
      * cbn [negb]. f_equal. lia.
      * exfalso. destruct (Hinc eq_refl) as [Hz|[r Hr]]; [|discriminate Hr].
        rewrite count_nl_cons, Hc in Hz. lia.
  - (* // comment *)
    cbn [app]. cbn [ws_loop]. rewrite lt_len_app. cbn [negb]. rewrite next_char_app. cbn [obind].
    destruct slash_not_blank as [H1 H2]. rewrite H1, H2. rewrite N.eqb_refl.
    change (len_utf8 c_slash) with 1.
    replace (byte_len pre + 1 =? byte_len (pre ++ c_slash :: c_slash :: (body ++ [nl]) ++ tl)) with false.
    2:{ symmetry. apply Nat.eqb_neq. rewrite byte_len_app. simpl byte_len.
        change (len_utf8 c_slash) with 1. lia. }
    replace (byte_len pre + 1) with (byte_len (pre ++ [c_slash]))
      by (rewrite byte_len_snoc; reflexivity).
    rewrite (snoc_app pre c_slash). rewrite next_char_app. cbn [obind]. rewrite N.eqb_refl.
    change (len_utf8 c_slash) with 1.
    replace (byte_len (pre ++ [c_slash]) + 1) with (byte_len ((pre ++ [c_slash]) ++ [c_slash]))
      by (rewrite byte_len_snoc; reflexivity).
    rewrite (snoc_app (pre ++ [c_slash]) c_slash). rewrite slice_from_app. cbn [obind].
    rewrite <- app_assoc. cbn [app].
    rewrite line_comment_body by assumption.
    f_equal.
    + rewrite count_nl_cons, count_nl_cons. change (is_nl c_slash) with false. cbn [Nat.add].
      rewrite count_nl_app. rewrite count_nl_cons, Hnl. change (count_nl (@nil N)) with 0.
      assert (Hz : count_nl body = 0).
      { clear - Hbody. induction body as [|c b IH]; [reflexivity|].
        simpl in Hbody. apply andb_true_iff in Hbody. destruct Hbody as [Hc Hb].
        rewrite count_nl_cons. apply negb_true_iff in Hc. rewrite Hc. apply IH. exact Hb. }
      rewrite Hz. lia.
    + rewrite !byte_len_snoc. simpl byte_len. change (len_utf8 c_slash) with 1.
      rewrite byte_len_app. simpl byte_len. lia.
  - (* /* */ comment *)
    cbn [app]. cbn [ws_loop]. rewrite lt_len_app. cbn [negb]. rewrite next_char_app. cbn [obind].
    destruct slash_not_blank as [H1 H2]. rewrite H1, H2. rewrite N.eqb_refl.
    change (len_utf8 c_slash) with 1.
    replace (byte_len pre + 1 =? byte_len (pre ++ c_slash :: c_star :: (body ++ [c_star; c_slash]) ++ tl)) with false.
    2:{ symmetry. apply Nat.eqb_neq. rewrite byte_len_app. simpl byte_len.
        change (len_utf8 c_slash) with 1. change (len_utf8 c_star) with 1. lia. }
    replace (byte_len pre + 1) with (byte_len (pre ++ [c_slash]))
      by (rewrite byte_len_snoc; reflexivity).
    rewrite (snoc_app pre c_slash). rewrite next_char_app. cbn [obind].
    change (c_star =? c_slash)%N with false. rewrite N.eqb_refl. cbv iota.
    change (len_utf8 c_star) with 1.
    replace (byte_len (pre ++ [c_slash]) + 1) with (byte_len ((pre ++ [c_slash]) ++ [c_star]))
      by (rewrite byte_len_snoc; reflexivity).
    rewrite (snoc_app (pre ++ [c_slash]) c_star).
    assert (Hcnt : count_nl (c_slash :: c_star :: body ++ [c_star; c_slash]) = count_nl body).
    { rewrite count_nl_cons, count_nl_cons, count_nl_app. change (is_nl c_slash) with false.
      change (is_nl c_star) with false. unfold count_nl at 2. simpl. lia. }
    assert (Hfn : firstn (List.length body) (body ++ [c_star; c_slash]) = body).
    { rewrite firstn_app, Nat.sub_diag, firstn_all. simpl. apply app_nil_r. }
    assert (Hfn2 : firstn (List.length body + 2) (body ++ [c_star; c_slash]) = body ++ [c_star; c_slash]).
    { apply firstn_all2. rewrite app_length. simpl. lia. }
    rewrite (block_scan_fixed (body ++ [c_star; c_slash]) ((pre ++ [c_slash]) ++ [c_star]) tl
               (List.length body) nn inc fuel Hclose).
    + cbn [obind]. rewrite Hfn, Hfn2, Hcnt. f_equal.
      rewrite !byte_len_snoc. simpl byte_len. change (len_utf8 c_slash) with 1.
      change (len_utf8 c_star) with 1. lia.
    + intros Hi. rewrite Hfn. destruct (Hinc Hi) as [Hz|[r Hr]]; [|discriminate Hr].
      rewrite Hcnt in Hz. exact Hz.
    + pose proof (length_le_byte_len body) as Hl. simpl byte_len in Hfuel.
      rewrite byte_len_app in Hfuel. simpl byte_len in Hfuel.
      change (len_utf8 c_slash) with 1 in Hfuel. change (len_utf8 c_star) with 1 in Hfuel. lia.
Qed.

Lemma layout_item_nonempty : forall it, layout_item it -> 1 <= byte_len it.
Proof.
  intros it H. destruct H as [c _ | body nl _ _ | body _]; simpl;
    pose proof (len_utf8_pos c_slash); try pose proof (len_utf8_pos c); lia.
Qed.

Lemma ws_layout_gen : forall l, layout_text l -> forall pre rest nn inc fuel f,
  starts_solid rest -> (inc = false -> count_nl l = 0) ->
  byte_len l + 1 <= f -> byte_len l <= fuel ->
  let src := pre ++ l ++ rest in
  ws_loop true src (byte_len src) fuel f nn (byte_len pre) inc
  = Done (Ok (byte_len pre + byte_len l, nn + count_nl l)).
Proof.
  intros l Hl. induction Hl as [|it l' Hit Hl' IH]; intros pre rest nn inc fuel f Hs Hinc Hf Hfuel src; subst src.
  - destruct f as [|f]; [simpl in Hf; lia|]. cbn [app]. rewrite ws_stop by assumption.
    simpl. rewrite !Nat.add_0_r. reflexivity.
  - destruct f as [|f]; [lia|].
    rewrite byte_len_app in Hf, Hfuel. rewrite count_nl_app in Hinc.
    pose proof (layout_item_nonempty it Hit) as Hne.
    rewrite <- app_assoc.
    rewrite (ws_item it Hit pre (l' ++ rest) nn inc fuel f) by (try (intros Hi; specialize (Hinc Hi); left); lia).
    replace (byte_len pre + byte_len it) with (byte_len (pre ++ it)) by apply byte_len_app.
    rewrite (app_assoc pre it (l' ++ rest)).
    rewrite IH by (try (intros Hi; specialize (Hinc Hi)); try assumption; lia).
    rewrite byte_len_app, byte_len_app, count_nl_app. f_equal. f_equal. f_equal; lia.
Qed.

(* the same for [inc = false] over line layouts *)
Lemma ws_line_gen : forall l, line_layout l -> forall pre rest nn fuel f,
  starts_solid rest ->
  byte_len l + 1 <= f -> byte_len l <= fuel ->
  let src := pre ++ l ++ rest in
  ws_loop true src (byte_len src) fuel f nn (byte_len pre) false
  = Done (Ok (byte_len pre + byte_len l, nn + count_nl l)).
Proof.
  intros l Hl. induction Hl as [|it l' Hit Hok Hl' IH]; intros pre rest nn fuel f Hs Hf Hfuel src; subst src.
  - destruct f as [|f]; [simpl in Hf; lia|]. cbn [app]. rewrite ws_stop by assumption.
    simpl. rewrite !Nat.add_0_r. reflexivity.
  - destruct f as [|f]; [lia|].
    rewrite byte_len_app in Hf, Hfuel.
    pose proof (layout_item_nonempty it Hit) as Hne.
    rewrite <- app_assoc.
    rewrite (ws_item it Hit pre (l' ++ rest) nn false fuel f) by (try (intros _; exact Hok); lia).
    replace (byte_len pre + byte_len it) with (byte_len (pre ++ it)) by apply byte_len_app.
    rewrite (app_assoc pre it (l' ++ rest)).
    rewrite IH by (try assumption; lia).
    rewrite byte_len_app, byte_len_app, count_nl_app. f_equal. f_equal. f_equal; lia.
Qed.

Lemma ws_skips_line_layout : ws_skips_line_layout_stmt.
Proof.
  intros pre l rest nn Hl Hs src. subst src. unfold parse_ws, fuel_for.
  apply ws_line_gen; try assumption; rewrite !byte_len_app; lia.
Qed.

Lemma line_layout_text : forall l, line_layout l -> layout_text l.
Proof. intros l H. induction H as [|it rest Hit _ _ IH]; constructor; assumption. Qed.

(* a layout text without newline characters is a line layout *)
Lemma layout_text_line : forall l, layout_text l -> count_nl l = 0 -> line_layout l.
Proof.
  intros l H. induction H as [|it rest Hit Hr IH]; intros Hz; [constructor|].
  rewrite count_nl_app in Hz. constructor; [exact Hit | left; lia | apply IH; lia].
Qed.

Lemma ws_skips_layout_fixed : ws_skips_layout_fixed_stmt.
Proof.
  intros pre l rest nn inc Hl Hs Hinc src. subst src. unfold parse_ws, fuel_for.
  apply ws_layout_gen; try assumption;
    rewrite !byte_len_app; lia.
Qed.

(* ======================================================================== *)
(*  Lexical round trips                                                       *)
(* ======================================================================== *)
Lemma take_bytes_0 : forall s, take_bytes s 0 = Done [].
Proof. destruct s; reflexivity. Qed.

Lemma take_bytes_app : forall b c, take_bytes (b ++ c) (byte_len b) = Done b.
Proof.
  induction b as [|x b IH]; intros c.
  - apply take_bytes_0.
  - simpl app. simpl byte_len. pose proof (len_utf8_pos x) as Hx.
    destruct (len_utf8 x + byte_len b) as [|m] eqn:Hm; [lia|].
    cbn [take_bytes]. rewrite <- Hm.
    destruct (Nat.leb_spec (len_utf8 x) (len_utf8 x + byte_len b)); [|lia].
    replace (len_utf8 x + byte_len b - len_utf8 x) with (byte_len b) by lia.
    rewrite IH. reflexivity.
Qed.

Lemma slice_app : forall a b c,
  slice (a ++ b ++ c) (byte_len a) (byte_len a + byte_len b) = Done b.
Proof.
  intros. unfold slice.
  destruct (Nat.ltb_spec (byte_len a + byte_len b) (byte_len a)); [lia|].
  rewrite slice_from_app. cbn [obind].
  replace (byte_len a + byte_len b - byte_len a) with (byte_len b) by lia.
  apply take_bytes_app.
Qed.

Ltac nbool :=
  repeat match goal with
         | H : (_ || _)%bool = true |- _ => apply orb_true_iff in H; destruct H as [H|H]
         | H : (_ && _)%bool = true |- _ => apply andb_true_iff in H; destruct H
         | H : (_ <=? _)%N = true |- _ => apply N.leb_le in H
         | H : (_ =? _)%N = true |- _ => apply N.eqb_eq in H
         end.

Lemma ascii_len1 : forall c, (c < 128)%N -> len_utf8 c = 1.
Proof. intros c H. unfold len_utf8. apply N.ltb_lt in H. rewrite H. reflexivity. Qed.

Lemma is_alpha_ascii : forall c, is_alpha_ c = true -> (c < 128)%N.
Proof. intros c H. unfold is_alpha_ in H. nbool; lia. Qed.
Lemma is_digit_ascii : forall c, is_digit c = true -> (c < 128)%N.
Proof. intros c H. unfold is_digit in H. nbool; lia. Qed.
Lemma name_cont_ascii : forall c, name_cont c = true -> (c < 128)%N.
Proof.
  intros c H. unfold name_cont, name_start in H. nbool;
    try (apply is_alpha_ascii; assumption); try (apply is_digit_ascii; assumption); lia.
Qed.
Lemma tok_cont_ascii : forall c, tok_cont c = true -> (c < 128)%N.
Proof.
  intros c H. unfold tok_cont in H. nbool; [apply is_alpha_ascii | apply is_digit_ascii]; assumption.
Qed.

Lemma byte_len_ascii : forall (p : N -> bool) s,
  (forall c, p c = true -> (c < 128)%N) -> forallb p s = true -> byte_len s = List.length s.
Proof.
  intros p s Hp. induction s as [|c s IH]; intros H; [reflexivity|].
  simpl in H. apply andb_true_iff in H. destruct H as [Hc Hs].
  simpl. rewrite (ascii_len1 c) by (apply Hp; exact Hc). rewrite IH by exact Hs. reflexivity.
Qed.

Lemma count_while_app : forall p s rest,
  forallb p s = true -> not_starting p rest -> count_while p (s ++ rest) = List.length s.
Proof.
  intros p s rest. induction s as [|c s IH]; intros Hs Hr.
  - simpl. destruct rest as [|d r]; [reflexivity|]. simpl in *. rewrite Hr. reflexivity.
  - simpl in Hs. apply andb_true_iff in Hs. destruct Hs as [Hc Hs]. simpl. rewrite Hc.
    rewrite IH by assumption. reflexivity.
Qed.

Lemma parse_name_roundtrip : parse_name_roundtrip_stmt.
Proof.
  intros pre n rest Hn Hr src. subst src.
  assert (Hsl : slice (pre ++ n ++ rest) (byte_len pre) (byte_len pre + byte_len n) = Done n)
    by apply slice_app.
  split; [|exact Hsl].
  unfold parse_name. rewrite slice_from_app. cbn [obind].
  destruct n as [|c r]; [discriminate Hn|]. simpl in Hn. apply andb_true_iff in Hn.
  destruct Hn as [Hc Hrs].
  assert (Hlen : byte_len (c :: r) = S (List.length r)).
  { rewrite (byte_len_ascii name_cont (c :: r) name_cont_ascii).
    - reflexivity.
    - simpl. unfold name_cont at 1. rewrite Hc. exact Hrs. }
  cbn [app re_name]. rewrite Hc. rewrite count_while_app by assumption.
  rewrite <- Hlen. change (c :: r ++ rest) with ((c :: r) ++ rest). rewrite Hsl. reflexivity.
Qed.

Lemma tok_start_not_quote : forall c, tok_start c = true -> ((c =? c_dq) || (c =? c_sq))%N = false.
Proof.
  intros c H. unfold tok_start, is_alpha_ in H. apply orb_false_iff.
  split; apply N.eqb_neq; unfold c_dq, c_sq; nbool; lia.
Qed.

Lemma parse_token_bare_roundtrip : parse_token_bare_roundtrip_stmt.
Proof.
  intros pre n rest Hn Hr src. subst src.
  assert (Hsl : slice (pre ++ n ++ rest) (byte_len pre) (byte_len pre + byte_len n) = Done n)
    by apply slice_app.
  split; [|exact Hsl].
  unfold parse_token. rewrite slice_from_app. cbn [obind].
  destruct n as [|c r]; [discriminate Hn|]. simpl in Hn. apply andb_true_iff in Hn.
  destruct Hn as [Hc Hrs].
  assert (Hlen : byte_len (c :: r) = S (List.length r)).
  { rewrite (byte_len_ascii tok_cont (c :: r) tok_cont_ascii).
    - reflexivity.
    - simpl. unfold tok_cont at 1. unfold tok_start in Hc. rewrite Hc. exact Hrs. }
  cbn [app re_token]. rewrite (tok_start_not_quote c Hc). rewrite Hc.
  rewrite count_while_app by assumption.
  change (pre ++ c :: r ++ rest) with (pre ++ c :: (r ++ rest)). rewrite next_char_app. cbn [obind].
  rewrite (tok_start_not_quote c Hc).
  rewrite <- Hlen. change (pre ++ c :: (r ++ rest)) with (pre ++ (c :: r) ++ rest). rewrite Hsl.
  cbn [obind]. unfold mk_span.
  destruct (Nat.ltb_spec (byte_len pre + byte_len (c :: r)) (byte_len pre)); [lia|]. reflexivity.
Qed.

Lemma scan_quote_app : forall q n rest,
  forallb (fun c => negb (c =? q)%N && negb (c =? c_nl)%N) n = true ->
  scan_quote q (n ++ q :: rest) = Some (byte_len n).
Proof.
  intros q n rest. induction n as [|c n IH]; intros H.
  - simpl. rewrite N.eqb_refl. reflexivity.
  - simpl in H. apply andb_true_iff in H. destruct H as [Hc Hn].
    apply andb_true_iff in Hc. destruct Hc as [Hq Hnl].
    apply negb_true_iff in Hq. apply negb_true_iff in Hnl.
    simpl. rewrite Hq, Hnl, IH by exact Hn. reflexivity.
Qed.

Lemma parse_token_quoted_roundtrip : parse_token_quoted_roundtrip_stmt.
Proof.
  intros pre q n rest Hq Hne Hn src. subst src.
  assert (Hq1 : len_utf8 q = 1) by (destruct Hq; subst q; reflexivity).
  assert (Hqq : ((q =? c_dq) || (q =? c_sq))%N = true) by (destruct Hq; subst q; reflexivity).
  assert (Hsl : slice (pre ++ q :: n ++ q :: rest) (byte_len pre + 1) (byte_len pre + 1 + byte_len n) = Done n).
  { rewrite (snoc_app pre q). rewrite <- Hq1 at 1 2. rewrite <- byte_len_snoc. apply slice_app. }
  split; [|exact Hsl].
  unfold parse_token. rewrite slice_from_app. cbn [obind].
  destruct n as [|c1 n']; [congruence|].
  simpl in Hn. apply andb_true_iff in Hn. destruct Hn as [Hc1 Hn'].
  apply andb_true_iff in Hc1. destruct Hc1 as [_ Hc1nl]. apply negb_true_iff in Hc1nl.
  cbn [app re_token]. rewrite Hqq. rewrite Hc1nl. rewrite scan_quote_app by exact Hn'.
  rewrite next_char_app. cbn [obind]. rewrite Hqq.
  assert (He : byte_len pre + (1 + len_utf8 c1 + byte_len n' + 1) = byte_len pre + 1 + byte_len (c1 :: n') + 1)
    by (simpl; lia).
  rewrite He.
  destruct (Nat.eqb_spec (byte_len pre + 1 + byte_len (c1 :: n') + 1) 0); [lia|].
  replace (byte_len pre + 1 + byte_len (c1 :: n') + 1 - 1) with (byte_len pre + 1 + byte_len (c1 :: n')) by lia.
  change (pre ++ q :: c1 :: n' ++ q :: rest) with (pre ++ q :: (c1 :: n') ++ q :: rest).
  rewrite Hsl. cbn [obind]. unfold mk_span.
  destruct (Nat.ltb_spec (byte_len pre + 1 + byte_len (c1 :: n')) (byte_len pre + 1)); [lia|].
  cbn [obind].
  replace (byte_len pre + 1 + byte_len (c1 :: n') + 1) with (byte_len pre + byte_len (c1 :: n') + 2) by lia.
  reflexivity.
Qed.

Lemma char_at_app : forall pre c tl, char_at (pre ++ c :: tl) (byte_len pre) = Done (Some c).
Proof. intros. unfold char_at. rewrite slice_from_app. reflexivity. Qed.

Lemma pos_facts : forall src p c tl, src = p ++ c :: tl ->
  (byte_len p <? byte_len src) = true /\ next_char src (byte_len p) = Done c
  /\ char_at src (byte_len p) = Done (Some c).
Proof.
  intros src p c tl H. subst src. split; [apply lt_len_app|]. split; [apply next_char_app|apply char_at_app].
Qed.

Lemma quote_facts : forall q, q = c_sq \/ q = c_dq ->
  len_utf8 q = 1 /\ is_nl q = false /\ (c_bslash =? q)%N = false.
Proof. intros q [H|H]; subst q; repeat split; reflexivity. Qed.

Lemma string_loop_escaped : forall q v body, escaped q v body -> (q = c_sq \/ q = c_dq) ->
  forall src pre0 chunk rest s f,
  src = pre0 ++ chunk ++ body ++ q :: rest ->
  List.length body + 1 <= f ->
  string_loop src (byte_len src) f q (byte_len pre0) (byte_len pre0 + byte_len chunk) s
  = Done (Ok (byte_len pre0 + byte_len chunk + byte_len body + 1, s ++ chunk ++ v)).
Proof.
  intros q v body He Hq. destruct (quote_facts q Hq) as [Hq1 [Hqnl Hbq]].
  induction He as [|c v b Hcq Hcb Hcnl He IH | c v b Hc He IH]; intros src pre0 chunk rest s f Hsrc Hf.
  - destruct f as [|f]; [simpl in Hf; lia|]. cbn [string_loop].
    assert (Hs : src = (pre0 ++ chunk) ++ q :: rest) by (rewrite Hsrc; rewrite <- app_assoc; reflexivity).
    destruct (pos_facts _ _ _ _ Hs) as [Hlt [Hnc _]]. rewrite byte_len_app in Hlt, Hnc.
    rewrite Hlt. cbn [negb]. rewrite Hnc. cbn [obind]. rewrite Hqnl. rewrite N.eqb_refl.
    assert (Hsl : slice src (byte_len pre0) (byte_len pre0 + byte_len chunk) = Done chunk)
      by (rewrite Hsrc; apply slice_app).
    rewrite Hsl. cbn [obind].
    rewrite app_nil_r. simpl byte_len. rewrite Nat.add_0_r. reflexivity.
  - destruct f as [|f]; [simpl in Hf; lia|]. cbn [string_loop].
    assert (Hs : src = (pre0 ++ chunk) ++ c :: b ++ q :: rest)
      by (rewrite Hsrc; repeat rewrite <- app_assoc; reflexivity).
    destruct (pos_facts _ _ _ _ Hs) as [Hlt [Hnc _]]. rewrite byte_len_app in Hlt, Hnc.
    rewrite Hlt. cbn [negb]. rewrite Hnc. cbn [obind]. rewrite Hcnl.
    apply N.eqb_neq in Hcq. apply N.eqb_neq in Hcb. rewrite Hcq, Hcb.
    replace (byte_len pre0 + byte_len chunk + len_utf8 c) with (byte_len pre0 + byte_len (chunk ++ [c]))
      by (rewrite byte_len_snoc; lia).
    rewrite (IH src pre0 (chunk ++ [c]) rest s f).
    + rewrite byte_len_snoc. simpl byte_len. rewrite <- app_assoc. cbn [app].
      f_equal. f_equal. f_equal. lia.
    + rewrite Hsrc. repeat rewrite <- app_assoc. reflexivity.
    + simpl in Hf. lia.
  - destruct f as [|f]; [simpl in Hf; lia|]. cbn [string_loop].
    assert (Hs : src = (pre0 ++ chunk) ++ c_bslash :: c :: b ++ q :: rest)
      by (rewrite Hsrc; repeat rewrite <- app_assoc; reflexivity).
    destruct (pos_facts _ _ _ _ Hs) as [Hlt [Hnc _]]. rewrite byte_len_app in Hlt, Hnc.
    rewrite Hlt. cbn [negb]. rewrite Hnc. cbn [obind]. change (is_nl c_bslash) with false. rewrite Hbq.
    rewrite N.eqb_refl.
    assert (Hs2 : src = ((pre0 ++ chunk) ++ [c_bslash]) ++ c :: b ++ q :: rest)
      by (rewrite Hs; repeat rewrite <- app_assoc; reflexivity).
    destruct (pos_facts _ _ _ _ Hs2) as [_ [_ Hca]]. rewrite byte_len_snoc, byte_len_app in Hca.
    change (len_utf8 c_bslash) with 1 in Hca. rewrite Hca. cbn [obind].
    assert (Hcq : ((c =? c_sq) || (c =? c_dq))%N = true) by (destruct Hc; subst c; reflexivity).
    rewrite Hcq.
    assert (Hsl : slice src (byte_len pre0) (byte_len pre0 + byte_len chunk) = Done chunk)
      by (rewrite Hsrc; apply slice_app).
    rewrite Hsl. cbn [obind].
    assert (Hc1 : len_utf8 c = 1) by (destruct Hc; subst c; reflexivity).
    pose proof (IH src ((pre0 ++ chunk) ++ [c_bslash]) [c] rest (s ++ chunk) f Hs2) as IH'.
    rewrite byte_len_snoc, byte_len_app in IH'. simpl byte_len in IH'. rewrite Hc1 in IH'.
    change (len_utf8 c_bslash) with 1 in IH'.
    replace (byte_len pre0 + byte_len chunk + 2) with (byte_len pre0 + byte_len chunk + 1 + (1 + 0)) by lia.
    rewrite IH' by (simpl in Hf; lia).
    simpl byte_len. change (len_utf8 c_bslash) with 1. rewrite Hc1.
    rewrite <- app_assoc. cbn [app].
    f_equal. f_equal. f_equal. lia.
Qed.
Lemma parse_string_roundtrip : parse_string_roundtrip_stmt.
Proof.
  intros pre q v body rest Hq He src.
  destruct (quote_facts q Hq) as [Hq1 _].
  assert (Hloop : string_loop src (byte_len src) (fuel_for src) q (byte_len pre + 1) (byte_len pre + 1) []
                  = Done (Ok (byte_len pre + byte_len body + 2, v))).
  { pose proof (string_loop_escaped q v body He Hq src (pre ++ [q]) [] rest [] (fuel_for src)) as H.
    rewrite byte_len_snoc, Hq1 in H. simpl byte_len in H. rewrite Nat.add_0_r in H.
    rewrite H.
    - cbn [app]. f_equal. f_equal. f_equal. lia.
    - subst src. rewrite <- app_assoc. reflexivity.
    - subst src. unfold fuel_for. rewrite byte_len_app. simpl byte_len. rewrite byte_len_app.
      pose proof (length_le_byte_len body). lia. }
  unfold parse_string, lookahead_is.
  assert (Hsf : slice_from src (byte_len pre) = Done (q :: body ++ q :: rest))
    by (subst src; apply slice_from_app).
  rewrite Hsf. cbn [obind prefix_of].
  destruct Hq as [Hq|Hq]; subst q.
  - rewrite N.eqb_refl. cbn [andb obind]. exact Hloop.
  - change (c_sq =? c_dq)%N with false. cbn [andb obind]. rewrite N.eqb_refl. cbn [andb obind].
    exact Hloop.
Qed.

Lemma int_loop_digits : forall ds src pre rest f,
  forallb is_digit ds = true -> not_starting is_digit rest ->
  src = pre ++ ds ++ rest -> List.length ds + 1 <= f ->
  int_loop src (byte_len src) f (byte_len pre) = Done (byte_len pre + List.length ds).
Proof.
  induction ds as [|d ds IH]; intros src pre rest f Hd Hr Hsrc Hf.
  - destruct f as [|f]; [simpl in Hf; lia|]. cbn [int_loop]. cbn [app] in Hsrc.
    destruct rest as [|c r].
    + subst src. rewrite app_nil_r, Nat.ltb_irrefl. cbn [negb]. simpl. f_equal. lia.
    + destruct (pos_facts _ _ _ _ Hsrc) as [Hlt [Hnc _]]. rewrite Hlt, Hnc. cbn [negb obind].
      simpl in Hr. rewrite Hr. simpl. f_equal. lia.
  - destruct f as [|f]; [simpl in Hf; lia|]. cbn [int_loop].
    simpl in Hd. apply andb_true_iff in Hd. destruct Hd as [Hd Hds].
    assert (Hs : src = pre ++ d :: ds ++ rest) by (rewrite Hsrc; reflexivity).
    destruct (pos_facts _ _ _ _ Hs) as [Hlt [Hnc _]]. rewrite Hlt, Hnc. cbn [negb obind]. rewrite Hd.
    pose proof (IH src (pre ++ [d]) rest f Hds Hr) as IH'.
    rewrite byte_len_snoc, (ascii_len1 d (is_digit_ascii d Hd)) in IH'.
    rewrite IH'.
    + simpl. f_equal. lia.
    + rewrite Hs, <- app_assoc. reflexivity.
    + simpl in Hf. lia.
Qed.

Lemma parse_int_roundtrip : parse_int_roundtrip_stmt.
Proof.
  intros pre ds rest v Hne Hd Hv Hr src.
  assert (Hbl : byte_len ds = List.length ds) by (apply (byte_len_ascii is_digit ds is_digit_ascii Hd)).
  assert (Hsl : slice src (byte_len pre) (byte_len pre + byte_len ds) = Done ds)
    by (subst src; apply slice_app).
  split; [|exact Hsl].
  unfold parse_int.
  rewrite (int_loop_digits ds src pre rest (fuel_for src) Hd Hr eq_refl).
  - cbn [obind]. rewrite <- Hbl. rewrite Hsl. cbn [obind]. rewrite Hv. reflexivity.
  - subst src. unfold fuel_for. rewrite !byte_len_app. lia.
Qed.

Lemma fold_dec_value : forall ds acc,
  fold_left (fun a c => (a * 10 + (c - 48))%N) ds acc = dec_value acc ds.
Proof. induction ds as [|d ds IH]; intros acc; simpl; [reflexivity | apply IH]. Qed.

Lemma parse_usize_value : parse_usize_value_stmt.
Proof.
  intros ds Hne Hle. unfold parse_usize. destruct ds as [|d ds]; [congruence|].
  rewrite fold_dec_value. apply N.leb_le in Hle. rewrite Hle. reflexivity.
Qed.

(* the code as it is: "/*\n/ */" followed by "x" — the scan stops at the '/' after the newline
   (the implementation's answer on "%%\nA: /* a\n// b */ 'a';" is replayed by checks/c10_parser.py) *)
Lemma ws_skips_layout_refuted : ws_skips_layout_refuted_stmt.
Proof.
  exists [], [c_slash; c_star; c_nl; c_slash; c_sp; c_star; c_slash], [120%N], 0.
  split; [|split].
  - change [c_slash; c_star; c_nl; c_slash; c_sp; c_star; c_slash]
      with ((c_slash :: c_star :: [c_nl; c_slash; c_sp] ++ [c_star; c_slash]) ++ []).
    apply LT_cons; [apply LI_block; reflexivity | apply LT_nil].
  - simpl. split; [reflexivity | intro H; discriminate H].
  - vm_compute. intro H; discriminate H.
Qed.
