(* C10 half (b), round trip — the spans of the denoted AST select, in the printed
   text, the text that defines the item ([ast_of_spans_select], statement in
   YpRoundSpansSpec.v).  Pure functions only: the printer and [ast_of].

   [Good fa src a] collects the conjuncts of the statement for an arbitrary AST [a].
   Every elementary update keeps it when the span it stores selects the right text
   ([good_tokens_insert], [good_ins_declared], [good_add_prod_t], ...), and every
   effect function of YpPrint.v, applied at the offset where the corresponding
   piece of text really is ([src = pre ++ piece ++ rest], [off = byte_len pre]),
   keeps it ([good_decl_eff], [good_prod_eff], [good_rule_eff], ...). *)
From Coq Require Import List Arith NArith ZArith Bool Lia.
From GV Require Import Common.Outcome C10.YpModel C10.YpSpec C10.YpProofs C10.YpTotal C10.YpPrint
  C10.YpRoundSpec C10.YpRoundBase C10.YpRoundInv C10.YpRoundDeclLines C10.YpRoundDeclInv C10.YpRoundSpansSpec.
Import ListNotations.
Local Open Scope nat_scope.

(* ======================================================================== *)
(*  The invariant                                                             *)
(* ======================================================================== *)
Definition occ_sel (src : str) (o : str * span) : Prop := sel src (snd o) (fst o).

Definition epp_sel (src : str) (x : str * (span * (str * span))) : Prop :=
  (exists q, sel src (fst (snd x)) (print_tok q (fst x))) /\
  (exists q body, sel src (snd (snd (snd x))) (q :: body ++ [q]) /\
                  escaped q (fst (snd (snd x))) body).

Definition num_sel (src : str) (v : N) (sp : span) : Prop :=
  exists ds, sel src sp ds /\ wf_numeral ds v.

Record Good (fa : bool) (src : str) (a : gast) : Prop := mkGood {
  g_start : forall n sp, a_start a = Some (n, sp) -> sel src sp n;
  g_rules : Forall (fun r => sel src (r_span r) (r_name r)) (a_rules a);
  g_syms : Forall (fun p => Forall (sym_sel src) (p_syms p)) (a_prods a);
  g_toks : Forall2 (fun n sp => sel src sp n) (a_tokens a) (a_spans a);
  g_precs : Forall (fun x => sel src (snd (snd x)) (fst x)) (a_precs a);
  g_avoid : forall m, a_avoid_insert a = Some m -> Forall (fun x => sel src (snd x) (fst x)) m;
  g_epp : Forall (epp_sel src) (a_epp a);
  g_expect : forall v sp, a_expect a = Some (v, sp) -> num_sel src v sp;
  g_expectrr : forall v sp, a_expectrr a = Some (v, sp) -> num_sel src v sp;
  g_act : fa = true -> Forall (fun p => action_ok src (p_action p)) (a_prods a);
  g_impl : forall m, a_implicit_tokens a = Some m -> Forall (fun x => sel src (snd x) (fst x)) m;
  g_eu : Forall (sym_sel src) (a_expect_unused a) }.

(* projections of updated ASTs *)
Ltac prj :=
  cbn [a_start a_rules a_prods a_token_directives a_tokens a_spans a_precs a_avoid_insert
       a_implicit_tokens a_epp a_expect a_expectrr a_expect_unused a_parse_param a_parse_generics a_programs
       upd_start upd_rules upd_prods upd_tokdirs upd_tokens upd_spans upd_precs upd_avoid
       upd_epp upd_expect upd_expectrr upd_implicit upd_expect_unused upd_parse_param upd_parse_generics
       upd_programs].

(* list equalities modulo re-association (no [subst]) *)
Ltac lsv := repeat (progress (repeat rewrite <- app_assoc; cbn [app])); try reflexivity.

Lemma len_qchar : forall q, len_utf8 (qchar q) = 1.
Proof. intros [| |]; reflexivity. Qed.

(* offsets: both sides are sums of the byte lengths of the same pieces *)
Ltac barith :=
  subst; rewrite ?byte_len_app; cbn [byte_len]; rewrite ?byte_len_app; cbn [byte_len];
  rewrite ?len_qchar;
  try change (len_utf8 c_lbrace) with 1; try change (len_utf8 c_rbrace) with 1;
  try change (len_utf8 c_colon) with 1; try lia.

(* ======================================================================== *)
(*  Selecting a piece of a concatenation                                      *)
(* ======================================================================== *)
Lemma sel_at : forall src pre t rest s e,
  src = pre ++ t ++ rest -> s = byte_len pre -> e = s + byte_len t -> sel src (s, e) t.
Proof.
  intros src pre t rest s e Hs Hb He. subst s e. unfold sel. cbn [fst snd]. rewrite Hs. apply slice_app.
Qed.

(* the name inside an occurrence *)
Lemma sel_tok : forall src q n pre rest off,
  src = pre ++ print_tok q n ++ rest -> off = byte_len pre -> sel src (tok_span q off n) n.
Proof.
  intros src q n pre rest off Hs Hi. unfold tok_span. destruct q; cbn [print_tok tok_off] in *.
  - apply (sel_at src pre n rest); [exact Hs | lia | lia].
  - apply (sel_at src (pre ++ [qchar QSq]) n (qchar QSq :: rest)); [rewrite Hs; lsv | barith | lia].
  - apply (sel_at src (pre ++ [qchar QDq]) n (qchar QDq :: rest)); [rewrite Hs; lsv | barith | lia].
Qed.

(* the occurrences of a token list *)
Lemma occs_sel : forall src g q ts k off pre rest,
  src = pre ++ print_toks g q k ts ++ rest -> off = byte_len pre ->
  Forall (occ_sel src) (tok_occs g q k off ts).
Proof.
  intros src g q ts. induction ts as [|t ts IH]; intros k off pre rest Hs Hi; cbn [tok_occs]; constructor.
  - unfold occ_sel. cbn [fst snd]. cbn [print_toks] in Hs.
    apply (sel_tok src (q k) t pre (g (S k) ++ print_toks g q (S k) ts ++ rest)); [|exact Hi].
    rewrite Hs. lsv.
  - cbn [print_toks] in Hs.
    apply (IH (S k) _ (pre ++ print_tok (q k) t ++ g (S k)) rest).
    + rewrite Hs. lsv.
    + barith.
Qed.

(* the symbols of an %expect-unused list *)
Lemma eu_occs_sel : forall src g q ss k off pre rest,
  src = pre ++ print_eus g q k ss ++ rest -> off = byte_len pre ->
  Forall (sym_sel src) (eu_occs g q k off ss).
Proof.
  intros src g q ss. induction ss as [|s ss IH]; intros k off pre rest Hs Hi; cbn [eu_occs]; constructor.
  - cbn [print_eus] in Hs.
    destruct s as [n|n]; cbn [sym_sel eu_q sym_name] in *.
    + apply (sel_tok src QBare n pre (g (S k) ++ print_eus g q (S k) ss ++ rest)); [|exact Hi].
      rewrite Hs. lsv.
    + apply (sel_tok src (q k) n pre (g (S k) ++ print_eus g q (S k) ss ++ rest)); [|exact Hi].
      rewrite Hs. lsv.
  - cbn [print_eus] in Hs.
    apply (IH (S k) _ (pre ++ print_tok (eu_q q k s) (sym_name s) ++ g (S k)) rest).
    + rewrite Hs. lsv.
    + barith.
Qed.

(* ======================================================================== *)
(*  Elementary updates                                                        *)
(* ======================================================================== *)
Lemma good_new : forall fa src, Good fa src ast_new.
Proof.
  intros fa src. constructor; cbn [ast_new a_start a_rules a_prods a_tokens a_spans a_precs a_avoid_insert
                                   a_epp a_expect a_expectrr a_implicit_tokens a_expect_unused];
    try (intros; discriminate); constructor.
Qed.

Lemma good_tokens_insert : forall fa src a n sp,
  Good fa src a -> sel src sp n -> Good fa src (tokens_insert a n sp).
Proof.
  intros fa src a n sp H Hsel. destruct (tokens_insert_cases a n sp) as [[_ E]|[_ E]]; rewrite E; [exact H|].
  destruct H as [H1 H2 H3 H4 H5 H6 H7 H8 H9 H10 H11 H12]. constructor; prj; try assumption.
  apply Forall2_app; [assumption|]. constructor; [exact Hsel | constructor].
Qed.

Lemma good_upd_tokdirs : forall fa src a v, Good fa src a -> Good fa src (upd_tokdirs a v).
Proof. intros fa src a v H. destruct H as [H1 H2 H3 H4 H5 H6 H7 H8 H9 H10 H11 H12]. constructor; prj; assumption. Qed.

Lemma good_ins_declared : forall fa src a o,
  Good fa src a -> occ_sel src o -> Good fa src (ins_declared a o).
Proof.
  intros fa src a o H Hsel. unfold ins_declared.
  pose proof (good_tokens_insert fa src a (fst o) (snd o) H Hsel) as G. unfold tokens_insert in G.
  destruct (insert_full (a_tokens a) (fst o)) as [[idx fresh] toks].
  cbv beta iota zeta. apply good_upd_tokdirs. exact G.
Qed.

Lemma good_ins_prec : forall fa src lvl k a o,
  Good fa src a -> occ_sel src o -> Good fa src (ins_prec lvl k a o).
Proof.
  intros fa src lvl k a o H Hsel. unfold ins_prec.
  destruct H as [H1 H2 H3 H4 H5 H6 H7 H8 H9 H10 H11 H12]. constructor; prj; try assumption.
  apply Forall_app. split; [assumption|]. constructor; [exact Hsel | constructor].
Qed.

Lemma good_upd_avoid_nil : forall fa src a,
  Good fa src a -> Good fa src (upd_avoid a (Some [])).
Proof.
  intros fa src a H. destruct H as [H1 H2 H3 H4 H5 H6 H7 H8 H9 H10 H11 H12]. constructor; prj; try assumption.
  intros m E. injection E as <-. constructor.
Qed.

Lemma good_upd_avoid_snoc : forall fa src a o,
  Good fa src a -> occ_sel src o ->
  Good fa src (upd_avoid a (Some (match a_avoid_insert a with Some m => m | None => [] end ++ [o]))).
Proof.
  intros fa src a o H Hsel. destruct H as [H1 H2 H3 H4 H5 H6 H7 H8 H9 H10 H11 H12]. constructor; prj; try assumption.
  intros m E. injection E as <-. apply Forall_app. split.
  - destruct (a_avoid_insert a) as [m0|]; [apply H6; reflexivity | constructor].
  - constructor; [exact Hsel | constructor].
Qed.

Lemma good_ins_avoid : forall fa src a o,
  Good fa src a -> occ_sel src o -> Good fa src (ins_avoid a o).
Proof.
  intros fa src a o H Hsel. unfold ins_avoid. cbv zeta.
  apply good_upd_avoid_snoc; [|exact Hsel]. apply good_tokens_insert; assumption.
Qed.

Lemma good_upd_implicit_nil : forall fa src a,
  Good fa src a -> Good fa src (upd_implicit a (Some [])).
Proof.
  intros fa src a H. destruct H as [H1 H2 H3 H4 H5 H6 H7 H8 H9 H10 H11 H12]. constructor; prj; try assumption.
  intros m E. injection E as <-. constructor.
Qed.

Lemma good_upd_implicit_snoc : forall fa src a o,
  Good fa src a -> occ_sel src o ->
  Good fa src (upd_implicit a (Some (match a_implicit_tokens a with Some m => m | None => [] end ++ [o]))).
Proof.
  intros fa src a o H Hsel. destruct H as [H1 H2 H3 H4 H5 H6 H7 H8 H9 H10 H11 H12]. constructor; prj; try assumption.
  intros m E. injection E as <-. apply Forall_app. split.
  - destruct (a_implicit_tokens a) as [m0|]; [apply H11; reflexivity | constructor].
  - constructor; [exact Hsel | constructor].
Qed.

Lemma good_ins_implicit : forall fa src a o,
  Good fa src a -> occ_sel src o -> Good fa src (ins_implicit a o).
Proof.
  intros fa src a o H Hsel. unfold ins_implicit. cbv zeta.
  apply good_upd_implicit_snoc; [|exact Hsel]. apply good_tokens_insert; assumption.
Qed.

Lemma good_ins_eu : forall fa src a s,
  Good fa src a -> sym_sel src s -> Good fa src (ins_eu a s).
Proof.
  intros fa src a s H Hsel. unfold ins_eu.
  destruct H as [H1 H2 H3 H4 H5 H6 H7 H8 H9 H10 H11 H12]. constructor; prj; try assumption.
  apply Forall_app. split; [assumption|]. constructor; [exact Hsel | constructor].
Qed.

Lemma good_upd_parse_param : forall fa src a v, Good fa src a -> Good fa src (upd_parse_param a v).
Proof. intros fa src a v H. destruct H as [H1 H2 H3 H4 H5 H6 H7 H8 H9 H10 H11 H12]. constructor; prj; assumption. Qed.

Lemma good_upd_parse_generics : forall fa src a v, Good fa src a -> Good fa src (upd_parse_generics a v).
Proof. intros fa src a v H. destruct H as [H1 H2 H3 H4 H5 H6 H7 H8 H9 H10 H11 H12]. constructor; prj; assumption. Qed.

Lemma good_upd_programs : forall fa src a v, Good fa src a -> Good fa src (upd_programs a v).
Proof. intros fa src a v H. destruct H as [H1 H2 H3 H4 H5 H6 H7 H8 H9 H10 H11 H12]. constructor; prj; assumption. Qed.

Lemma good_upd_start : forall fa src a n sp,
  Good fa src a -> sel src sp n -> Good fa src (upd_start a (Some (n, sp))).
Proof.
  intros fa src a n sp H Hsel. destruct H as [H1 H2 H3 H4 H5 H6 H7 H8 H9 H10 H11 H12]. constructor; prj; try assumption.
  intros n' sp' E. injection E as <- <-. exact Hsel.
Qed.

Lemma good_upd_epp_snoc : forall fa src a x,
  Good fa src a -> epp_sel src x -> Good fa src (upd_epp a (a_epp a ++ [x])).
Proof.
  intros fa src a x H Hx. destruct H as [H1 H2 H3 H4 H5 H6 H7 H8 H9 H10 H11 H12]. constructor; prj; try assumption.
  apply Forall_app. split; [assumption|]. constructor; [exact Hx | constructor].
Qed.

Lemma good_upd_expect : forall fa src a v sp,
  Good fa src a -> num_sel src v sp -> Good fa src (upd_expect a (Some (v, sp))).
Proof.
  intros fa src a v sp H Hx. destruct H as [H1 H2 H3 H4 H5 H6 H7 H8 H9 H10 H11 H12]. constructor; prj; try assumption.
  intros v' sp' E. injection E as <- <-. exact Hx.
Qed.

Lemma good_upd_expectrr : forall fa src a v sp,
  Good fa src a -> num_sel src v sp -> Good fa src (upd_expectrr a (Some (v, sp))).
Proof.
  intros fa src a v sp H Hx. destruct H as [H1 H2 H3 H4 H5 H6 H7 H8 H9 H10 H11 H12]. constructor; prj; try assumption.
  intros v' sp' E. injection E as <- <-. exact Hx.
Qed.

(* rules *)
Lemma rules_insert_forall : forall (P : rule -> Prop) rs r,
  Forall P rs -> P r -> Forall P (rules_insert rs r).
Proof.
  intros P rs r H Hr. induction H as [|x rs Hx Hrs IH]; cbn [rules_insert].
  - constructor; [exact Hr | constructor].
  - destruct (str_eqb (r_name x) (r_name r)); constructor; assumption.
Qed.

Lemma push_pidx_forall : forall src rs n k rs',
  rules_push_pidx rs n k = Some rs' ->
  Forall (fun r => sel src (r_span r) (r_name r)) rs ->
  Forall (fun r => sel src (r_span r) (r_name r)) rs'.
Proof.
  intros src rs. induction rs as [|x rs IH]; intros n k rs' E H; cbn [rules_push_pidx] in E; [discriminate E|].
  inversion H as [|y l Hx Hrs]; subst.
  destruct (str_eqb (r_name x) n).
  - injection E as <-. constructor; [exact Hx | exact Hrs].
  - destruct (rules_push_pidx rs n k) as [l|] eqn:El; [|discriminate E]. injection E as <-.
    constructor; [exact Hx | exact (IH n k l El Hrs)].
Qed.

Lemma good_add_rule : forall fa src a n sp at_,
  Good fa src a -> sel src sp n -> Good fa src (add_rule a n sp at_).
Proof.
  intros fa src a n sp at_ H Hsel. unfold add_rule.
  destruct H as [H1 H2 H3 H4 H5 H6 H7 H8 H9 H10 H11 H12]. constructor; prj; try assumption.
  apply rules_insert_forall; [assumption | exact Hsel].
Qed.

Lemma good_add_prod_t : forall fa src a rn syms prec act sp,
  Good fa src a -> Forall (sym_sel src) syms -> (fa = true -> action_ok src act) ->
  Good fa src (add_prod_t a rn syms prec act sp).
Proof.
  intros fa src a rn syms prec act sp H Hsy Hact. unfold add_prod_t, add_prod.
  destruct (rules_push_pidx (a_rules a) rn (List.length (a_prods a))) as [rs|] eqn:E; [|exact H].
  destruct H as [H1 H2 H3 H4 H5 H6 H7 H8 H9 H10 H11 H12]. constructor; prj; try assumption.
  - exact (push_pidx_forall src _ _ _ _ E H2).
  - apply Forall_app. split; [assumption|]. constructor; [exact Hsy | constructor].
  - intros Hfa. apply Forall_app. split; [exact (H10 Hfa)|]. constructor; [exact (Hact Hfa) | constructor].
Qed.

(* a list of occurrences, one update per occurrence *)
Lemma fold_good : forall fa src (f : gast -> str * span -> gast),
  (forall a o, Good fa src a -> occ_sel src o -> Good fa src (f a o)) ->
  forall occs a, Forall (occ_sel src) occs -> Good fa src a -> Good fa src (fold_left f occs a).
Proof.
  intros fa src f Hf occs. induction occs as [|o occs IH]; intros a Ho H; cbn [fold_left]; [exact H|].
  inversion Ho as [|o' l Ho1 Ho2]; subst. apply IH; [exact Ho2|]. apply Hf; assumption.
Qed.

Lemma fold_good_gen : forall fa src (X : Type) (P : X -> Prop) (f : gast -> X -> gast),
  (forall a o, Good fa src a -> P o -> Good fa src (f a o)) ->
  forall occs a, Forall P occs -> Good fa src a -> Good fa src (fold_left f occs a).
Proof.
  intros fa src X P f Hf occs. induction occs as [|o occs IH]; intros a Ho H; cbn [fold_left]; [exact H|].
  inversion Ho as [|o' l Ho1 Ho2]; subst. apply IH; [exact Ho2|]. apply Hf; assumption.
Qed.

(* ======================================================================== *)
(*  Declarations                                                              *)
(* ======================================================================== *)
Lemma good_decl_eff : forall fa src dl x lvl pre rest off a,
  src = pre ++ print_decl dl x ++ rest -> off = byte_len pre -> wf_decl dl x ->
  Good fa src a -> Good fa src (decl_eff dl off lvl x a).
Proof.
  intros fa src dl x lvl pre rest off a Hs Hi [_ Hwf] H.
  destruct x as [n|ts|k ts|t v|ts|v|v|t|nm t|t|ss|ts]; cbn [decl_eff print_decl] in *.
  - (* %start *)
    apply good_upd_start; [exact H|].
    apply (sel_at src (pre ++ kw_start ++ dg dl 0) n (dg dl 1 ++ rest)); [rewrite Hs; lsv | barith | lia].
  - (* %token *)
    apply fold_good; [apply good_ins_declared | | exact H].
    apply (occs_sel src (dg dl) (dq dl) ts 0 _ (pre ++ kw_token ++ dg dl 0) rest); [rewrite Hs; lsv | barith].
  - (* %left / %right / %nonassoc *)
    apply fold_good; [apply good_ins_prec | | exact H].
    apply (occs_sel src (dg dl) (dq dl) ts 0 _ (pre ++ kw_assoc k ++ dg dl 0) rest); [rewrite Hs; lsv | barith].
  - (* %epp *)
    destruct Hwf as [_ [_ [_ [Hesc _]]]].
    apply good_upd_epp_snoc; [exact H|]. unfold epp_sel. cbn [fst snd]. split.
    + exists (dq dl 0).
      apply (sel_at src (pre ++ kw_epp ++ dg dl 0) (print_tok (dq dl 0) t)
                    (dg dl 1 ++ (qchar (d_sq dl) :: d_txt dl ++ [qchar (d_sq dl)]) ++ dg dl 2 ++ rest));
        [rewrite Hs; lsv | barith | lia].
    + exists (qchar (d_sq dl)), (d_txt dl). split; [|exact Hesc].
      apply (sel_at src (pre ++ kw_epp ++ dg dl 0 ++ print_tok (dq dl 0) t ++ dg dl 1)
                    (qchar (d_sq dl) :: d_txt dl ++ [qchar (d_sq dl)]) (dg dl 2 ++ rest));
        [rewrite Hs; lsv | barith | barith].
  - (* %avoid_insert *)
    apply fold_good; [apply good_ins_avoid | | ].
    + apply (occs_sel src (dg dl) (dq dl) ts 0 _ (pre ++ kw_avoid_insert ++ dg dl 0) rest); [rewrite Hs; lsv | barith].
    + destruct (a_avoid_insert a); [exact H | apply good_upd_avoid_nil; exact H].
  - (* %expect *)
    destruct Hwf as [Hnum _].
    apply good_upd_expect; [exact H|]. exists (d_txt dl). split; [|exact Hnum].
    apply (sel_at src (pre ++ kw_expect ++ dg dl 0) (d_txt dl) (dg dl 1 ++ rest)); [rewrite Hs; lsv | barith | lia].
  - (* %expect-rr *)
    destruct Hwf as [Hnum _].
    apply good_upd_expectrr; [exact H|]. exists (d_txt dl). split; [|exact Hnum].
    apply (sel_at src (pre ++ kw_expect_rr ++ dg dl 0) (d_txt dl) (dg dl 1 ++ rest)); [rewrite Hs; lsv | barith | lia].
  - (* %actiontype *)
    exact H.
  - (* %parse-param *)
    apply good_upd_parse_param. exact H.
  - (* %parse-generics *)
    apply good_upd_parse_generics. exact H.
  - (* %expect-unused *)
    apply (fold_good_gen fa src symbol (sym_sel src)); [apply good_ins_eu | | exact H].
    apply (eu_occs_sel src (dg dl) (dq dl) ss 0 _ (pre ++ kw_expect_unused ++ dg dl 0) rest); [rewrite Hs; lsv | barith].
  - (* %implicit_tokens *)
    apply fold_good; [apply good_ins_implicit | | ].
    + apply (occs_sel src (dg dl) (dq dl) ts 0 _ (pre ++ kw_implicit_tokens ++ dg dl 0) rest); [rewrite Hs; lsv | barith].
    + destruct (a_implicit_tokens a); [exact H | apply good_upd_implicit_nil; exact H].
Qed.

Lemma good_decls_eff : forall fa src l ds d lvl pre rest off a,
  src = pre ++ print_decls l d ds ++ rest -> off = byte_len pre -> wf_decls l d ds ->
  Good fa src a -> Good fa src (decls_eff l d off lvl ds a).
Proof.
  intros fa src l ds. induction ds as [|x ds IH]; intros d lvl pre rest off a Hs Hi Hwf H;
    cbn [decls_eff]; [exact H|].
  cbn [print_decls] in Hs. cbn [wf_decls] in Hwf. destruct Hwf as [Hx Hds].
  apply (IH (S d) _ (pre ++ print_decl (dlay_of l d) x) rest).
  - rewrite Hs. lsv.
  - barith.
  - exact Hds.
  - apply (good_decl_eff fa src (dlay_of l d) x lvl pre (print_decls l (S d) ds ++ rest)); try assumption.
    rewrite Hs. lsv.
Qed.

(* ======================================================================== *)
(*  Productions                                                               *)
(* ======================================================================== *)
Lemma sel_sym : forall src pl k s pre rest off,
  src = pre ++ print_sym pl k s ++ rest -> off = byte_len pre ->
  sel src (sym_span_at pl k off s) (sym_name s).
Proof. intros src pl k s pre rest off Hs Hi. unfold sym_span_at. unfold print_sym in Hs. exact (sel_tok _ _ _ _ _ _ Hs Hi). Qed.

Lemma syms_out_sel : forall src pl ss k off pre rest,
  src = pre ++ print_syms pl k ss ++ rest -> off = byte_len pre ->
  Forall (sym_sel src) (syms_out pl k off ss).
Proof.
  intros src pl ss. induction ss as [|s ss IH]; intros k off pre rest Hs Hi; cbn [syms_out]; constructor;
    cbn [print_syms] in Hs.
  - assert (Hsel : sel src (sym_span_at pl k off s) (sym_name s)).
    { apply (sel_sym src pl k s pre (pg_sym pl k ++ print_syms pl (S k) ss ++ rest)); [|exact Hi]. rewrite Hs. lsv. }
    destruct s; exact Hsel.
  - apply (IH (S k) _ (pre ++ print_sym pl k s ++ pg_sym pl k) rest).
    + rewrite Hs. lsv.
    + unfold sym_next. barith.
Qed.

Lemma syms_ins_good : forall fa src pl ss k off pre rest a,
  src = pre ++ print_syms pl k ss ++ rest -> off = byte_len pre ->
  Good fa src a -> Good fa src (syms_ins pl k off ss a).
Proof.
  intros fa src pl ss. induction ss as [|s ss IH]; intros k off pre rest a Hs Hi H; cbn [syms_ins]; [exact H|].
  cbn [print_syms] in Hs.
  assert (Hsel : sel src (sym_span_at pl k off s) (sym_name s)).
  { apply (sel_sym src pl k s pre (pg_sym pl k ++ print_syms pl (S k) ss ++ rest)); [|exact Hi]. rewrite Hs. lsv. }
  apply (IH (S k) _ (pre ++ print_sym pl k s ++ pg_sym pl k) rest).
  - rewrite Hs. lsv.
  - unfold sym_next. barith.
  - destruct (sym_q pl k s); [exact H | apply good_tokens_insert; assumption ..].
Qed.

Lemma action_ok_sel : forall src t sp, sel src sp t -> action_ok src (Some (t, sp)).
Proof. intros src t [s e] H. exact H. Qed.

(* the repaired action span selects the action text *)
Lemma act_span_sel : forall src pl t pre rest off,
  src = pre ++ (c_lbrace :: (p_pad1 pl ++ t ++ p_pad2 pl) ++ c_rbrace :: pg_act pl) ++ rest ->
  off = byte_len pre ->
  sel src (act_span true pl off t) t.
Proof.
  intros src pl t pre rest off Hs Hi. unfold act_span. destruct t as [|c t].
  - apply (sel_at src (pre ++ c_lbrace :: p_pad1 pl ++ p_pad2 pl) [] (c_rbrace :: pg_act pl ++ rest));
      [rewrite Hs; lsv | barith | barith].
  - apply (sel_at src (pre ++ c_lbrace :: p_pad1 pl) (c :: t) (p_pad2 pl ++ c_rbrace :: pg_act pl ++ rest));
      [rewrite Hs; lsv | barith | barith].
Qed.

Lemma good_prod_eff : forall fa fp src pl rn p pre rest off a,
  src = pre ++ print_prod pl p ++ rest -> off = byte_len pre ->
  Good fa src a -> Good fa src (prod_eff fa fp pl rn off p a).
Proof.
  intros fa fp src pl rn p pre rest off a Hs Hi H. unfold prod_eff. cbv zeta. unfold print_prod in Hs.
  assert (Hins : Good fa src (syms_ins pl 0 (prod_o0 pl off p) (ap_syms p) a)).
  { apply (syms_ins_good fa src pl (ap_syms p) 0 _ (pre ++ print_empty pl p)
                         (print_prec pl p ++ print_action pl p ++ rest)); [rewrite Hs; lsv | unfold prod_o0; barith | exact H]. }
  apply good_add_prod_t.
  - (* tokens made known by the symbols and %prec *)
    destruct (ap_prec p) as [t|] eqn:Ep; [|exact Hins].
    apply good_tokens_insert; [exact Hins|].
    unfold print_prec in Hs. rewrite Ep in Hs.
    apply (sel_tok src (pq_prec pl) t
                   (pre ++ print_empty pl p ++ print_syms pl 0 (ap_syms p) ++ kw_prec ++ pg_prec1 pl)
                   (pg_prec2 pl ++ print_action pl p ++ rest)).
    + rewrite Hs. lsv.
    + unfold prec_tok_off, prod_o1, prod_o0. barith.
  - (* the symbols *)
    apply (syms_out_sel src pl (ap_syms p) 0 _ (pre ++ print_empty pl p)
                        (print_prec pl p ++ print_action pl p ++ rest)); [rewrite Hs; lsv | unfold prod_o0; barith].
  - (* the action *)
    intros ->. destruct (ap_action p) as [t|] eqn:Ea; [|exact I].
    apply action_ok_sel. unfold print_action in Hs. rewrite Ea in Hs.
    apply (act_span_sel src pl t (pre ++ print_empty pl p ++ print_syms pl 0 (ap_syms p) ++ print_prec pl p) rest).
    + rewrite Hs. lsv.
    + unfold prod_o2, prod_o1, prod_o0. barith.
Qed.

Lemma good_prods_eff : forall fa fp src rl rn ps pi pre rest off a,
  src = pre ++ print_prods rl pi ps ++ rest -> off = byte_len pre ->
  Good fa src a -> Good fa src (prods_eff fa fp rl rn pi off ps a).
Proof.
  intros fa fp src rl rn ps. induction ps as [|p ps IH]; intros pi pre rest off a Hs Hi H; cbn [prods_eff]; [exact H|].
  cbn [print_prods] in Hs.
  assert (Htc : len_utf8 (match ps with [] => c_semi | _ :: _ => c_bar end) = 1) by (destruct ps; reflexivity).
  set (tc := match ps with [] => c_semi | _ :: _ => c_bar end) in *.
  apply (IH (S pi) (pre ++ print_prod (r_play rl pi) p ++ tc :: pg_term (r_play rl pi)) rest).
  - rewrite Hs. lsv.
  - unfold prod_next, prod_o3, prod_o2, prod_o1, prod_o0, print_prod. barith.
  - apply (good_prod_eff fa fp src (r_play rl pi) rn p pre
                         (tc :: pg_term (r_play rl pi) ++ print_prods rl (S pi) ps ++ rest)); try assumption.
    rewrite Hs. lsv.
Qed.

(* ======================================================================== *)
(*  Rule blocks                                                               *)
(* ======================================================================== *)
Lemma good_rule_head : forall fa src at_ n pre rest off a,
  src = pre ++ n ++ rest -> off = byte_len pre ->
  Good fa src a -> Good fa src (rule_head_eff off at_ n a).
Proof.
  intros fa src at_ n pre rest off a Hs Hi H. unfold rule_head_eff. cbv zeta.
  assert (Hsel : sel src (off, off + byte_len n) n) by (apply (sel_at src pre n rest); [exact Hs | exact Hi | reflexivity]).
  set (a1 := match a_start a with None => _ | Some _ => a end).
  assert (H1 : Good fa src a1).
  { unfold a1. destruct (a_start a); [exact H | apply good_upd_start; assumption]. }
  destruct (get_rule (a_rules a1) n); [exact H1 | apply good_add_rule; assumption].
Qed.

Lemma good_rule_eff : forall fa fp src rl at_ r pre rest off a,
  src = pre ++ print_rule rl r ++ rest -> off = byte_len pre ->
  Good fa src a -> Good fa src (rule_eff fa fp rl off at_ r a).
Proof.
  intros fa fp src rl at_ r pre rest off a Hs Hi H. unfold rule_eff. unfold print_rule in Hs.
  apply (good_prods_eff fa fp src rl (ar_name r) (ar_prods r) 0
                        (pre ++ ar_name r ++ rg_name rl ++ print_rtype rl r ++ c_colon :: rg_colon rl) rest).
  - rewrite Hs. lsv.
  - unfold rule_body_off. barith.
  - apply (good_rule_head fa src (rule_at_ at_ r) (ar_name r) pre
                          (rg_name rl ++ print_rtype rl r ++ c_colon :: rg_colon rl ++ print_prods rl 0 (ar_prods r) ++ rest));
      try assumption.
    rewrite Hs. lsv.
Qed.

Lemma good_rules_eff : forall fa fp src l rs r at_ pre rest off a,
  src = pre ++ print_rules l r rs ++ rest -> off = byte_len pre ->
  Good fa src a -> Good fa src (rules_eff fa fp l r off at_ rs a).
Proof.
  intros fa fp src l rs. induction rs as [|x rs IH]; intros r at_ pre rest off a Hs Hi H; cbn [rules_eff]; [exact H|].
  cbn [print_rules] in Hs.
  apply (IH (S r) at_ (pre ++ print_rule (rlay_of l r) x) rest).
  - rewrite Hs. lsv.
  - barith.
  - apply (good_rule_eff fa fp src (rlay_of l r) at_ x pre (print_rules l (S r) rs ++ rest)); try assumption.
    rewrite Hs. lsv.
Qed.

(* ======================================================================== *)
(*  The whole file                                                            *)
(* ======================================================================== *)
(* only the declarations' part of [wf_layout] is used (escaped %epp bodies, numerals) *)
Lemma ast_of_good : forall fa fp l ag, wf_decls l 0 (ag_decls ag) -> Good fa (print l ag) (ast_of fa fp l ag).
Proof.
  intros fa fp l ag Hd. unfold ast_of.
  assert (Hp : forall a, Good fa (print l ag) a -> Good fa (print l ag) (programs_eff ag a)).
  { intros a Ha. unfold programs_eff. destruct (ag_programs ag); [apply good_upd_programs|]; exact Ha. }
  apply Hp.
  apply (good_rules_eff fa fp (print l ag) l (ag_rules ag) 0 (actiont_of (gat_of l ag))
                        (l_gap l [0] ++ print_decls l 0 (ag_decls ag) ++ kw_pp ++ l_gap l [2]) (print_programs l ag)).
  - unfold print. lsv.
  - unfold rules_off, decls_off. barith.
  - apply (good_decls_eff fa (print l ag) l (ag_decls ag) 0 0 (l_gap l [0])
                          (kw_pp ++ l_gap l [2] ++ print_rules l 0 (ag_rules ag) ++ print_programs l ag)).
    + reflexivity.
    + reflexivity.
    + exact Hd.
    + apply good_new.
Qed.

Lemma ast_of_spans_select : ast_of_spans_select_stmt.
Proof.
  intros fa fp l ag Hwf A src. destruct Hwf as [_ [Hd _]].
  destruct (ast_of_good fa fp l ag Hd) as [H1 H2 H3 H4 H5 H6 H7 H8 H9 H10 H11 H12].
  exact (conj H1 (conj H2 (conj H3 (conj H4 (conj H5 (conj H6 (conj H11 (conj H12 (conj H7 (conj H8 (conj H9 H10))))))))))).
Qed.
