(* C10 half (b), round trip — the spans of the denoted AST select, in the printed
   text, the text that defines the item (statement; proof in YpRoundSpans.v).
   This is about the printer and [ast_of] alone (no parser involved): it says that
   the offsets [ast_of] computes are the offsets the printer writes to. *)
From Coq Require Import List Arith NArith ZArith Bool Lia.
From GV Require Import Common.Outcome C10.YpModel C10.YpSpec C10.YpPrint C10.YpRoundSpec.
Import ListNotations.
Local Open Scope nat_scope.

(* the span selects the text t *)
Definition sel (src : str) (sp : span) (t : str) : Prop := slice src (fst sp) (snd sp) = Done t.

Definition sym_sel (src : str) (s : symbol) : Prop :=
  match s with SRule n sp | SToken n sp => sel src sp n end.

Definition ast_of_spans_select_stmt : Prop :=
  forall fa l ag, wf_layout l ag ->
    let A := ast_of fa l ag in
    let src := print l ag in
    (* start rule, rule names: the name *)
    (forall n sp, a_start A = Some (n, sp) -> sel src sp n) /\
    Forall (fun r => sel src (r_span r) (r_name r)) (a_rules A) /\
    (* symbols of productions: the name (without quotes) *)
    Forall (fun p => Forall (sym_sel src) (p_syms p)) (a_prods A) /\
    (* tokens: the name at its first occurrence *)
    Forall2 (fun n sp => sel src sp n) (a_tokens A) (a_spans A) /\
    (* precedences and %avoid_insert: the name *)
    Forall (fun x => sel src (snd (snd x)) (fst x)) (a_precs A) /\
    (forall m, a_avoid_insert A = Some m -> Forall (fun x => sel src (snd x) (fst x)) m) /\
    (* %implicit_tokens (Eco dialect) and %expect-unused: the name *)
    (forall m, a_implicit_tokens A = Some m -> Forall (fun x => sel src (snd x) (fst x)) m) /\
    Forall (sym_sel src) (a_expect_unused A) /\
    (* %epp: the key's span covers the occurrence (quotes included), the value's span
       the quoted string whose body is the value with its quotes escaped *)
    Forall (fun x => (exists q, sel src (fst (snd x)) (print_tok q (fst x))) /\
                     (exists q body, sel src (snd (snd (snd x))) (q :: body ++ [q]) /\
                                     escaped q (fst (snd (snd x))) body))
           (a_epp A) /\
    (* %expect / %expect-rr: a numeral denoting the value *)
    (forall v sp, a_expect A = Some (v, sp) -> exists ds, sel src sp ds /\ wf_numeral ds v) /\
    (forall v sp, a_expectrr A = Some (v, sp) -> exists ds, sel src sp ds /\ wf_numeral ds v) /\
    (* actions, with the repaired span: the action text *)
    (fa = true -> Forall (fun p => action_ok src (p_action p)) (a_prods A)).
