(* C10 half (b), round trip — the spans of the denoted AST select, in the printed
   text, the text that defines the item (statement; proof in YpRoundSpans.v).
   This is about the printer and [ast_of] alone (no parser involved): it says that
   the offsets [ast_of] computes are the offsets the printer writes to. *)
From Coq Require Import List Arith NArith ZArith Bool Lia.
From GV Require Import Common.Outcome C10.YpModel C10.YpSpec C10.YpPrint C10.YpRoundSpec.
Import ListNotations.
Local Open Scope nat_scope.

(* the span selects the text t *)
Definition sel (src : str) (sp : span) (t : str) : Prop := slice src (fst sp) (snd sp) = Done t.

Definition sym_sel (src : str) (s : symbol) : Prop :=
  match s with SRule n sp | SToken n sp => sel src sp n end.

Definition ast_of_spans_select_stmt : Prop :=
  forall fa fp l ag, wf_layout l ag ->
    let A := ast_of fa fp l ag in
    let src := print l ag in
    (* start rule, rule names: the name *)
    (forall n sp, a_start A = Some (n, sp) -> sel src sp n) /\
    Forall (fun r => sel src (r_span r) (r_name r)) (a_rules A) /\
    (* symbols of productions: the name (without quotes) *)
    Forall (fun p => Forall (sym_sel src) (p_syms p)) (a_prods A) /\
    (* tokens: the name at its first occurrence *)
    Forall2 (fun n sp => sel src sp n) (a_tokens A) (a_spans A) /\
    (* precedences and %avoid_insert: the name *)
    Forall (fun x => sel src (snd (snd x)) (fst x)) (a_precs A) /\
    (forall m, a_avoid_insert A = Some m -> Forall (fun x => sel src (snd x) (fst x)) m) /\
    (* %implicit_tokens (Eco dialect) and %expect-unused: the name *)
    (forall m, a_implicit_tokens A = Some m -> Forall (fun x => sel src (snd x) (fst x)) m) /\
    Forall (sym_sel src) (a_expect_unused A) /\
    (* %epp: the key's span covers the occurrence (quotes included), the value's span
       the quoted string whose body is the value with its quotes escaped *)
    Forall (fun x => (exists q, sel src (fst (snd x)) (print_tok q (fst x))) /\
                     (exists q body, sel src (snd (snd (snd x))) (q :: body ++ [q]) /\
                                     escaped q (fst (snd (snd x))) body))
           (a_epp A) /\
    (* %expect / %expect-rr: a numeral denoting the value *)
    (forall v sp, a_expect A = Some (v, sp) -> exists ds, sel src sp ds /\ wf_numeral ds v) /\
    (forall v sp, a_expectrr A = Some (v, sp) -> exists ds, sel src sp ds /\ wf_numeral ds v) /\
    (* actions, with the repaired span: the action text *)
    (fa = true -> Forall (fun p => action_ok src (p_action p)) (a_prods A)).

(* ======================================================================== *)
(*  Production spans (/repo 69c4b9b)                                          *)
(* ======================================================================== *)
(* the printed items of a production — its %empty, its symbols, its %prec TOKEN —
   WITHOUT the layout that follows the last of them *)
Fixpoint syms_core (pl : play) (k : nat) (ss : list asym) : str :=
  match ss with
  | [] => []
  | s :: ss' =>
      match ss' with
      | [] => print_sym pl k s
      | _ :: _ => print_sym pl k s ++ pg_sym pl k ++ syms_core pl (S k) ss'
      end
  end.
Definition prod_core (pl : play) (p : aprod) : str :=
  match ap_prec p with
  | Some t => print_empty pl p ++ print_syms pl 0 (ap_syms p) ++ kw_prec ++ pg_prec1 pl ++ print_tok (pq_prec pl) t
  | None =>
      match ap_syms p with
      | [] => if uses_empty pl p then kw_empty else []
      | _ :: _ => syms_core pl 0 (ap_syms p)
      end
  end.

(* every production of the grammar with the layout choices it is printed under, in source order *)
Fixpoint block_prods (rl : rlay) (pi : nat) (ps : list aprod) : list (play * aprod) :=
  match ps with
  | [] => []
  | p :: ps' => (r_play rl pi, p) :: block_prods rl (S pi) ps'
  end.
Fixpoint all_prods (l : layout) (r : nat) (rs : list arule) : list (play * aprod) :=
  match rs with
  | [] => []
  | x :: rs' => block_prods (rlay_of l r) 0 (ar_prods x) ++ all_prods l (S r) rs'
  end.

(* the production spans of [a] select, production by production, the items' text *)
Definition prod_spans_core (src : str) (a : gast) (xs : list (play * aprod)) : Prop :=
  Forall2 (fun pr x => sel src (p_span pr) (prod_core (fst x) (snd x))) (a_prods a) xs.

(* printer side (no parser involved): with the repaired end of the span the offsets of [ast_of]
   delimit exactly the items' text — with or without an action, whatever layout (blanks,
   newlines, comments) stands between the last item and the action's brace or the terminator;
   a production without any item has an empty span *)
Definition ast_of_prod_spans_stmt : Prop :=
  forall fa l ag, prod_spans_core (print l ag) (ast_of fa true l ag) (all_prods l 0 (ag_rules ag)).

(* parser side: what the parser (repaired production span, either action-span variant) builds
   from the printed text of a well-formed pair *)
Definition prod_span_ends_after_last_symbol_stmt : Prop :=
  forall k fa fu l ag, wf_agram k ag -> wf_layout l ag ->
    exists A w,
      run_case true fa true fu k (print l ag) = Done (TResult A [] w) /\
      prod_spans_core (print l ag) A (all_prods l 0 (ag_rules ag)).

(* the code before 69c4b9b (fp = false): refuted by a production followed by blanks, a comment
   and an action — the span runs up to the brace *)
Definition prod_span_action_layout_refuted_stmt : Prop :=
  exists l ag, wf_agram KOriginal ag /\ wf_layout l ag /\
    forall fa fu, exists A w,
      run_case true fa false fu KOriginal (print l ag) = Done (TResult A [] w) /\
      ~ prod_spans_core (print l ag) A (all_prods l 0 (ag_rules ag)).
