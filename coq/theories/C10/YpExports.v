(* C10 half (b): the statements/lemmas that Properties/C10.v (and C12.v) re-export *)
From GV Require Export Common.Outcome C10.YpModel C10.YpSpec C10.YpProofs C10.YpTotal.
