(* C10 half (b), round trip — facts about the AST updates the parser performs:
   what each of them leaves unchanged, and the invariant that ties the state's
   notion of "%token-declared" to a fixed predicate D on names. *)
From Coq Require Import List Arith NArith ZArith Bool Lia.
From GV Require Import Common.Outcome C10.YpModel C10.YpSpec C10.YpProofs C10.YpTotal C10.YpPrint C10.YpRoundSpec.
Import ListNotations.
Local Open Scope nat_scope.

(* ---- IndexSet ---------------------------------------------------------------- *)
Lemma index_of_bound : forall l x k j, index_of l x k = Some j -> k <= j < k + List.length l.
Proof.
  induction l as [|y l IH]; intros x k j H; simpl in H; [discriminate H|].
  destruct (str_eqb y x).
  - injection H as <-. simpl. lia.
  - apply IH in H. simpl. lia.
Qed.

Lemma index_of_app_some : forall l x k j m, index_of l x k = Some j -> index_of (l ++ m) x k = Some j.
Proof.
  induction l as [|y l IH]; intros x k j m H; simpl in H; [discriminate H|].
  simpl. destruct (str_eqb y x); [exact H | apply IH; exact H].
Qed.

Lemma index_of_app_none : forall l x k m, index_of l x k = None ->
  index_of (l ++ m) x k = index_of m x (k + List.length l).
Proof.
  induction l as [|y l IH]; intros x k m H; simpl in *.
  - rewrite Nat.add_0_r. reflexivity.
  - destruct (str_eqb y x); [discriminate H|]. rewrite IH by exact H. f_equal. lia.
Qed.

Lemma get_index_of_snoc : forall l n x,
  get_index_of (l ++ [n]) x =
  match get_index_of l x with
  | Some j => Some j
  | None => if str_eqb n x then Some (List.length l) else None
  end.
Proof.
  intros l n x. unfold get_index_of. destruct (index_of l x 0) as [j|] eqn:E.
  - apply index_of_app_some. exact E.
  - rewrite index_of_app_none by exact E. simpl. reflexivity.
Qed.

(* ---- what tokens_insert leaves alone ------------------------------------------ *)
Lemma tokens_insert_cases : forall a n sp,
  (get_index_of (a_tokens a) n <> None /\ tokens_insert a n sp = a) \/
  (get_index_of (a_tokens a) n = None /\
   tokens_insert a n sp = upd_spans (upd_tokens a (a_tokens a ++ [n])) (a_spans a ++ [sp])).
Proof.
  intros a n sp. unfold tokens_insert, insert_full.
  destruct (get_index_of (a_tokens a) n) as [k|] eqn:E.
  - left. split; [discriminate | reflexivity].
  - right. split; reflexivity.
Qed.

Lemma tokens_insert_frame : forall a n sp,
  a_start (tokens_insert a n sp) = a_start a /\
  a_rules (tokens_insert a n sp) = a_rules a /\
  a_prods (tokens_insert a n sp) = a_prods a /\
  a_token_directives (tokens_insert a n sp) = a_token_directives a /\
  a_precs (tokens_insert a n sp) = a_precs a /\
  a_avoid_insert (tokens_insert a n sp) = a_avoid_insert a /\
  a_implicit_tokens (tokens_insert a n sp) = a_implicit_tokens a /\
  a_epp (tokens_insert a n sp) = a_epp a /\
  a_expect (tokens_insert a n sp) = a_expect a /\
  a_expectrr (tokens_insert a n sp) = a_expectrr a /\
  a_parse_param (tokens_insert a n sp) = a_parse_param a /\
  a_parse_generics (tokens_insert a n sp) = a_parse_generics a /\
  a_programs (tokens_insert a n sp) = a_programs a /\
  a_expect_unused (tokens_insert a n sp) = a_expect_unused a.
Proof.
  intros a n sp. destruct (tokens_insert_cases a n sp) as [[_ E]|[_ E]]; rewrite E; repeat split; reflexivity.
Qed.

Lemma tokens_insert_rules : forall a n sp, a_rules (tokens_insert a n sp) = a_rules a.
Proof. intros. apply tokens_insert_frame. Qed.
Lemma tokens_insert_prods : forall a n sp, a_prods (tokens_insert a n sp) = a_prods a.
Proof. intros. apply tokens_insert_frame. Qed.
Lemma tokens_insert_start : forall a n sp, a_start (tokens_insert a n sp) = a_start a.
Proof. intros. apply tokens_insert_frame. Qed.
Lemma tokens_insert_dirs : forall a n sp, a_token_directives (tokens_insert a n sp) = a_token_directives a.
Proof. intros. apply tokens_insert_frame. Qed.

(* ---- the invariant -------------------------------------------------------------- *)

Lemma existsb_eqb_false : forall k l, ~ In k l -> existsb (Nat.eqb k) l = false.
Proof.
  intros k l H. induction l as [|y l IH]; [reflexivity|]. simpl.
  destruct (Nat.eqb_spec k y) as [->|Hn].
  - exfalso. apply H. left. reflexivity.
  - apply IH. intros Hi. apply H. right. exact Hi.
Qed.

Lemma tok_inv_tokens_insert : forall D a n sp, tok_inv D a -> tok_inv D (tokens_insert a n sp).
Proof.
  intros D a n sp [Hr Hd]. destruct (tokens_insert_cases a n sp) as [[_ E]|[En E]]; rewrite E.
  - split; assumption.
  - split.
    + intros idx Hi. cbn in Hi. cbn. rewrite app_length. apply Hr in Hi. simpl. lia.
    + intros x. rewrite <- Hd. unfold is_declared. cbn [a_tokens a_token_directives upd_spans upd_tokens].
      rewrite get_index_of_snoc.
      destruct (get_index_of (a_tokens a) x) as [j|] eqn:Ex; [reflexivity|].
      destruct (str_eqb n x); [|reflexivity].
      apply existsb_eqb_false. intros Hi. apply Hr in Hi. lia.
Qed.

(* updates that do not touch tokens / directives *)
Lemma tok_inv_same : forall D a a',
  a_tokens a' = a_tokens a -> a_token_directives a' = a_token_directives a ->
  tok_inv D a -> tok_inv D a'.
Proof.
  intros D a a' Ht Hd [Hr Hx]. split.
  - intros idx Hi. rewrite Ht. apply Hr. rewrite <- Hd. exact Hi.
  - intros x. rewrite <- Hx. unfold is_declared. rewrite Ht, Hd. reflexivity.
Qed.

(* ---- rules ------------------------------------------------------------------------ *)
Lemma get_rule_push : forall rs n pidx rs' m,
  rules_push_pidx rs n pidx = Some rs' ->
  (get_rule rs' m = None <-> get_rule rs m = None).
Proof.
  induction rs as [|x rs IH]; intros n pidx rs' m H; simpl in H; [discriminate H|].
  destruct (str_eqb (r_name x) n) eqn:E.
  - injection H as <-. simpl. destruct (str_eqb (r_name x) m); [split; intros H; discriminate H | tauto].
  - destruct (rules_push_pidx rs n pidx) as [l|] eqn:El; [|discriminate H]. injection H as <-.
    simpl. destruct (str_eqb (r_name x) m); [split; intros H; discriminate H|].
    apply (IH n pidx l m El).
Qed.

Lemma rules_push_some : forall rs n pidx, get_rule rs n <> None -> rules_push_pidx rs n pidx <> None.
Proof.
  induction rs as [|x rs IH]; intros n pidx H; simpl in *; [congruence|].
  destruct (str_eqb (r_name x) n); [discriminate|].
  specialize (IH n pidx H). destruct (rules_push_pidx rs n pidx); [discriminate | congruence].
Qed.

Lemma add_prod_done : forall a rn syms prec act sp, has_rule a rn = true ->
  add_prod a rn syms prec act sp = Done (add_prod_t a rn syms prec act sp).
Proof.
  intros a rn syms prec act sp H. unfold add_prod_t, add_prod.
  unfold has_rule in H.
  destruct (rules_push_pidx (a_rules a) rn (List.length (a_prods a))) as [rs|] eqn:E; [reflexivity|].
  exfalso. apply (rules_push_some (a_rules a) rn (List.length (a_prods a))); [|exact E].
  destruct (get_rule (a_rules a) rn); [discriminate | discriminate H].
Qed.

Lemma add_prod_t_frame : forall a rn syms prec act sp,
  a_tokens (add_prod_t a rn syms prec act sp) = a_tokens a /\
  a_token_directives (add_prod_t a rn syms prec act sp) = a_token_directives a /\
  a_start (add_prod_t a rn syms prec act sp) = a_start a /\
  (forall m, has_rule (add_prod_t a rn syms prec act sp) m = has_rule a m).
Proof.
  intros a rn syms prec act sp. unfold add_prod_t, add_prod.
  destruct (rules_push_pidx (a_rules a) rn (List.length (a_prods a))) as [rs|] eqn:E.
  - repeat split; try reflexivity. intros m. unfold has_rule. cbn [a_rules upd_prods upd_rules].
    pose proof (get_rule_push _ _ _ _ m E) as H.
    destruct (get_rule rs m), (get_rule (a_rules a) m); try reflexivity.
    + destruct H as [_ H]. discriminate (H eq_refl).
    + destruct H as [H _]. discriminate (H eq_refl).
  - repeat split; reflexivity.
Qed.

Lemma has_rule_tokens_insert : forall a n sp m, has_rule (tokens_insert a n sp) m = has_rule a m.
Proof. intros. unfold has_rule. rewrite tokens_insert_rules. reflexivity. Qed.

Lemma tok_inv_add_prod_t : forall D a rn syms prec act sp,
  tok_inv D a -> tok_inv D (add_prod_t a rn syms prec act sp).
Proof.
  intros D a rn syms prec act sp H.
  destruct (add_prod_t_frame a rn syms prec act sp) as [Ht [Hd _]].
  exact (tok_inv_same D a _ Ht Hd H).
Qed.

(* the rule head: start rule and rule table *)
Lemma get_rule_insert : forall rs r, get_rule (rules_insert rs r) (r_name r) <> None.
Proof.
  induction rs as [|x rs IH]; intros r; simpl.
  - rewrite str_eqb_refl. discriminate.
  - destruct (str_eqb (r_name x) (r_name r)) eqn:E.
    + simpl. rewrite str_eqb_refl. discriminate.
    + simpl. rewrite E. apply IH.
Qed.

Lemma rule_head_has_rule : forall off at_ n a, has_rule (rule_head_eff off at_ n a) n = true.
Proof.
  intros off at_ n a. unfold rule_head_eff, has_rule.
  set (a1 := match a_start a with None => _ | Some _ => a end).
  destruct (get_rule (a_rules a1) n) eqn:E.
  - rewrite E. reflexivity.
  - unfold add_rule. cbn [a_rules upd_rules].
    pose proof (get_rule_insert (a_rules a1) (mkRule n (off, off + byte_len n) [] at_)) as H.
    cbn [r_name] in H. destruct (get_rule (rules_insert _ _) n); [reflexivity | congruence].
Qed.

Lemma tok_inv_rule_head : forall D off at_ n a, tok_inv D a -> tok_inv D (rule_head_eff off at_ n a).
Proof.
  intros D off at_ n a H. apply (tok_inv_same D a); [| |exact H]; unfold rule_head_eff;
    destruct (a_start a); cbn; destruct (get_rule _ n); reflexivity.
Qed.

(* ---- the effects keep the invariant ------------------------------------------------ *)
Lemma syms_ins_frame : forall pl ss k off a,
  a_rules (syms_ins pl k off ss a) = a_rules a /\ a_prods (syms_ins pl k off ss a) = a_prods a /\
  a_start (syms_ins pl k off ss a) = a_start a.
Proof.
  intros pl ss. induction ss as [|s ss IH]; intros k off a; cbn [syms_ins]; [repeat split; reflexivity|].
  destruct (IH (S k) (sym_next pl k off s)
               (match sym_q pl k s with QBare => a | _ => tokens_insert a (sym_name s) (sym_span_at pl k off s) end))
    as [H1 [H2 H3]].
  rewrite H1, H2, H3. destruct (sym_q pl k s); repeat split; try reflexivity;
    first [apply tokens_insert_rules | apply tokens_insert_prods | apply tokens_insert_start].
Qed.

Lemma tok_inv_syms_ins : forall D pl ss k off a, tok_inv D a -> tok_inv D (syms_ins pl k off ss a).
Proof.
  intros D pl ss. induction ss as [|s ss IH]; intros k off a H; cbn [syms_ins]; [exact H|].
  apply IH. destruct (sym_q pl k s); [exact H | apply tok_inv_tokens_insert; exact H ..].
Qed.

Lemma has_rule_syms_ins : forall pl ss k off a m, has_rule (syms_ins pl k off ss a) m = has_rule a m.
Proof. intros. unfold has_rule. destruct (syms_ins_frame pl ss k off a) as [H _]. rewrite H. reflexivity. Qed.

Lemma prod_eff_inv : forall fa fp D pl rn off p a,
  tok_inv D a -> tok_inv D (prod_eff fa fp pl rn off p a).
Proof.
  intros fa fp D pl rn off p a H. unfold prod_eff. apply tok_inv_add_prod_t.
  destruct (ap_prec p); [apply tok_inv_tokens_insert|]; apply tok_inv_syms_ins; exact H.
Qed.

Lemma prod_eff_has_rule : forall fa fp pl rn off p a m,
  has_rule (prod_eff fa fp pl rn off p a) m = has_rule a m.
Proof.
  intros fa fp pl rn off p a m. unfold prod_eff.
  destruct (add_prod_t_frame
              (match ap_prec p with
               | Some t => tokens_insert (syms_ins pl 0 (prod_o0 pl off p) (ap_syms p) a) t
                             (tok_span (pq_prec pl) (prec_tok_off pl off p) t)
               | None => syms_ins pl 0 (prod_o0 pl off p) (ap_syms p) a
               end) rn (syms_out pl 0 (prod_o0 pl off p) (ap_syms p)) (ap_prec p)
              (match ap_action p with Some t => Some (t, act_span fa pl (prod_o2 pl off p) t) | None => None end)
              (off, match prod_pend fp pl off p with Some e => e | None => prod_o3 pl off p end)) as [_ [_ [_ H]]].
  rewrite H. destruct (ap_prec p); rewrite ?has_rule_tokens_insert; apply has_rule_syms_ins.
Qed.

Lemma prods_eff_inv : forall fa fp D rl rn ps pi off a,
  tok_inv D a -> tok_inv D (prods_eff fa fp rl rn pi off ps a).
Proof.
  intros fa fp D rl rn ps. induction ps as [|p ps IH]; intros pi off a H; cbn [prods_eff]; [exact H|].
  apply IH. apply prod_eff_inv. exact H.
Qed.

Lemma rule_eff_inv : forall fa fp D rl off at_ r a, tok_inv D a -> tok_inv D (rule_eff fa fp rl off at_ r a).
Proof. intros. unfold rule_eff. apply prods_eff_inv. apply tok_inv_rule_head. assumption. Qed.
