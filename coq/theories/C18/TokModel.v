(* C18 — the third compile-time builder and the "manual lexer" build script
   (lrlex/examples/calc_manual_lex/build.rs):
       let ctp = CTParserBuilder::new()....build()?;                       (C18/Model.v, parser_build)
       CTTokenMapBuilder::<StorageT>::new(mod, ctp.token_map())
           [.rename_map(..)] [.allow_dead_code(..)] .build()?;             (this file)
     lrlex/src/lib/ctbuilder.rs  CTTokenMapBuilder::build / build_inner
   The builder writes `$OUT_DIR/<mod_name>.rs`: the module name IS the name of the
   output file, so the output directory is a map from module names to files and a
   build addresses the entry of its current module name.  The text of the module
   is a function of the token map (names and ids: [y_toks] of the grammar the
   parser stage just read), the rename map, StorageT (`type_name::<StorageT>()` and
   the suffix of the id literals), allow_dead_code and the module name.  The build
   fails iff some token name — after renaming — is not a Rust identifier once
   prefixed with `T_` (`syn::parse_str::<Ident>`); it panics iff the module name is
   not an identifier (`format_ident!`).  There is no cache and no time stamp test:
   the text is always generated and "identical content is not rewritten".
   Executable definitions only. *)
From Coq Require Import List Arith Bool.
From GV Require Import Common.Outcome C18.Model.
Import ListNotations.

(* ---- settings of the token map builder -------------------------------- *)
Record tsettings := {
  t_mod : nat;      (* mod_name: names the module and the output file *)
  t_modok : bool;   (* the module name is an identifier (a property of the name: `a-b` is not) *)
  t_st : nat;       (* StorageT *)
  t_adc : bool;     (* allow_dead_code *)
  t_ren : nat       (* rename_map: 0 = None, otherwise the name of a map *)
}.

(* ---- the generated module --------------------------------------------- *)
(* [tc_names]: the sorted list of (identifier after renaming, token id) pairs,
   see [renamed] below *)
Record tcontent := { tc_names : nat; tc_st : nat; tc_adc : bool; tc_mod : nat }.

Definition tcontent_eqb (a b : tcontent) : bool :=
  (tc_names a =? tc_names b) && (tc_st a =? tc_st b) && Bool.eqb (tc_adc a) (tc_adc b) &&
  (tc_mod a =? tc_mod b).

(* $OUT_DIR as far as this builder is concerned: module name -> file (content, mtime) *)
Definition tdir := nat -> option (tcontent * nat).
Definition tdir_empty : tdir := fun _ => None.
Definition tdir_set (d : tdir) (k : nat) (v : option (tcontent * nat)) : tdir :=
  fun j => if j =? k then v else d j.

(* result of the token map stage *)
Inductive tres :=
| TOk (written : bool)   (* Ok(()); the file was (re)written / identical content kept *)
| TErr                   (* Err: a token name is not a valid Rust identifier *)
| TPanic.                (* format_ident! on the module name *)

Section Renamed.
  (* token map, rename map -> None: some token's name (the rename map's entry for it
     if there is one, else its own) is not an identifier after `T_` + to_ascii_uppercase;
     Some n: all are, and n names the resulting list of (identifier, id) pairs.
     ANY function: which names are identifiers, and which maps rename what, is
     left to the texts. *)
  Variable renamed : nat -> nat -> option nat.

  (* build_inner up to the comparison with the existing file *)
  Definition gen_t (toks : nat) (c : tsettings) : option tcontent :=
    if t_modok c then
      match renamed toks (t_ren c) with
      | Some n => Some {| tc_names := n; tc_st := t_st c; tc_adc := t_adc c; tc_mod := t_mod c |}
      | None => None
      end
    else None.

  (* CTTokenMapBuilder::build.  [old]: `$OUT_DIR/<mod_name>.rs` before the build.
     [tfixed] = false is the code before /repo 746e223: every early return (and the
     panic) leaves the function without touching the file; true: build() removes
     the file on Err, the RemoveOnPanic guard on a panic. *)
  Definition tokmap_build (tfixed : bool) (toks : nat) (c : tsettings)
    (old : option (tcontent * nat)) (t : nat) : tres * option (tcontent * nat) :=
    if negb (t_modok c) then (TPanic, if tfixed then None else old)        (* format_ident!("{}", mod_name) *)
    else
      match renamed toks (t_ren c) with
      | None => (TErr, if tfixed then None else old)                        (* syn::parse_str(..)? *)
      | Some n =>
          let text := {| tc_names := n; tc_st := t_st c; tc_adc := t_adc c; tc_mod := t_mod c |} in
          match old with
          | Some (oc, omt) =>
              if tcontent_eqb oc text then (TOk false, old)                 (* read_to_string(outp) == outs *)
              else (TOk true, Some (text, t))                               (* File::create; write_all *)
          | None => (TOk true, Some (text, t))
          end
      end.

  (* ---- the build script ------------------------------------------------ *)
  Record mstate := { m_s : state; m_tcfg : tsettings; m_tdir : tdir }.

  Definition init_m (y : ysrc) (l : lsrc) (c : settings) (tc : tsettings) : mstate :=
    {| m_s := init y l c; m_tcfg := tc; m_tdir := tdir_empty |}.

  Record mres := {
    mr_p : pres;            (* parser stage *)
    mr_ywritten : bool;
    mr_t : option tres      (* token map stage; None: not reached (`?` on the parser's Err) *)
  }.

  (* one run of the build script: the parser stage is CTParserBuilder alone
     (build_step MParser); on its Err the script ends — the token map builder is
     not run and its file is not touched (two independent builders) *)
  Definition build_step_m (fixed tfixed : bool) (x : mstate) (t : nat) : mstate * mres :=
    let '(pr, _, yw) := parser_build fixed (m_s x) t in
    let s' := fst (build_step MParser fixed (m_s x) t) in
    match pr with
    | PErr _ =>
        ({| m_s := s'; m_tcfg := m_tcfg x; m_tdir := m_tdir x |},
         {| mr_p := pr; mr_ywritten := yw; mr_t := None |})
    | POk _ =>
        let c := m_tcfg x in
        (* ctp.token_map(): the token map of the grammar as it is now, also on a cache hit *)
        let '(tr, fo) := tokmap_build tfixed (y_toks (s_y (m_s x))) c (m_tdir x (t_mod c)) t in
        ({| m_s := s'; m_tcfg := c; m_tdir := tdir_set (m_tdir x) (t_mod c) fo |},
         {| mr_p := pr; mr_ywritten := yw; mr_t := Some tr |})
    end.

  Inductive mop :=
  | MBase (o : op)            (* an operation of C18/Model.v (EditL is a no-op of this flow) *)
  | SetT (c : tsettings).     (* the build script is changed: settings of the token map builder *)

  Definition mhist := list (nat * mop).

  Definition step_m (fixed tfixed : bool) (x : mstate) (t : nat) (o : mop) : mstate * option mres :=
    match o with
    | MBase Build => let '(x', r) := build_step_m fixed tfixed x t in (x', Some r)
    | MBase o => ({| m_s := fst (step MParser fixed (m_s x) t o); m_tcfg := m_tcfg x; m_tdir := m_tdir x |}, None)
    | SetT c => ({| m_s := m_s x; m_tcfg := c; m_tdir := m_tdir x |}, None)
    end.

  Fixpoint run_m (fixed tfixed : bool) (x : mstate) (h : mhist) : mstate :=
    match h with
    | [] => x
    | (t, o) :: h' => run_m fixed tfixed (fst (step_m fixed tfixed x t o)) h'
    end.

  (* the state a build into an empty OUT_DIR starts from *)
  Definition clean_mstate (x : mstate) : mstate :=
    {| m_s := clean_state (m_s x); m_tcfg := m_tcfg x; m_tdir := tdir_empty |}.

  (* the token map module the build script addresses, modification time aside *)
  Definition tokfile (x : mstate) : option tcontent := option_map fst (m_tdir x (t_mod (m_tcfg x))).

  (* contents of the generated files of the flow *)
  Definition outputs_m (x : mstate) : option ycontent * option tcontent :=
    (option_map fst (s_yout (m_s x)), tokfile x).

  Definition clean_build_m (fixed tfixed : bool) (x : mstate) (t : nat) : option ycontent * option tcontent :=
    outputs_m (fst (build_step_m fixed tfixed (clean_mstate x) t)).

  (* trace for the correspondence run *)
  Fixpoint trace_m (fixed tfixed : bool) (x : mstate) (h : mhist)
    : list (mstate * option (mres * (mres * (option ycontent * option tcontent)))) :=
    match h with
    | [] => []
    | (t, o) :: h' =>
        let '(x', r) := step_m fixed tfixed x t o in
        (x', match r with
             | Some r => Some (r, (snd (build_step_m fixed tfixed (clean_mstate x) t), clean_build_m fixed tfixed x t))
             | None => None
             end) :: trace_m fixed tfixed x' h'
    end.
End Renamed.
