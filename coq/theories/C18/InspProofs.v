(* C18 — proofs about the build script with the `test_files` inspector. *)
From Coq Require Import List Arith Bool Lia.
From GV Require Import Common.Outcome C18.Model C18.Spec C18.Proofs C18.InspModel C18.InspSpec.
Import ListNotations.

Section WithVerdict.
Variable verdict : ysrc -> lsrc -> settings -> nat -> bool.

(* ---- an accepting inspector changes nothing ------------------------------ *)
Lemma parser_build_i_accepts :
  forall m fixed s tf t, accepts verdict m s tf = true ->
    parser_build_i verdict m fixed s tf t = parser_build fixed s t.
Proof.
  intros m fixed s tf t H. unfold parser_build_i. rewrite H.
  destruct (parser_build fixed s t) as [[pr yo] yw]. destruct pr as [[|]|e]; reflexivity.
Qed.

Lemma build_step_i_accepts :
  forall m fixed x t, accepts verdict m (i_s x) (i_tf x) = true ->
    i_s (fst (build_step_i verdict m fixed x t)) = fst (build_step m fixed (i_s x) t) /\
    snd (build_step_i verdict m fixed x t) = snd (build_step m fixed (i_s x) t).
Proof.
  intros m fixed x t H. unfold build_step_i. rewrite (parser_build_i_accepts _ _ _ _ _ H).
  fold (build_step m fixed (i_s x) t). destruct (build_step m fixed (i_s x) t) as [s' r]. split; reflexivity.
Qed.

Lemma accepts_clean : forall m s tf, accepts verdict m (clean_state s) tf = accepts verdict m s tf.
Proof. intros m s tf. destruct m; reflexivity. Qed.

Lemma clean_build_i_accepts :
  forall m fixed x t, accepts verdict m (i_s x) (i_tf x) = true ->
    clean_build_i verdict m fixed x t = clean_build m fixed (i_s x) t.
Proof.
  intros m fixed x t H. unfold clean_build_i, clean_build.
  assert (H' : accepts verdict m (i_s (clean_istate x)) (i_tf (clean_istate x)) = true).
  { cbn [clean_istate i_s i_tf]. rewrite accepts_clean. exact H. }
  rewrite (proj1 (build_step_i_accepts m fixed (clean_istate x) t H')). reflexivity.
Qed.

(* ---- under "accepts in every build" the two scripts coincide -------------- *)
Lemma run_i_is_run_v :
  forall m fixed h x,
    accepts_all verdict m fixed x h ->
    i_s (run_i verdict m fixed x h) = run m fixed (i_s x) (base_hist h).
Proof.
  intros m fixed h. induction h as [|[t o] h IH]; intros x Ha; [reflexivity|].
  cbn [accepts_all] in Ha. destruct Ha as [Ha1 Ha2]. cbn [run_i].
  rewrite (IH _ Ha2). clear IH Ha2.
  destruct o as [o|tf]; cbn [base_hist run].
  - destruct o as [y|l|c|]; cbn [step_i fst i_s]; try reflexivity.
    destruct (build_step_i_accepts m fixed x t Ha1) as [E _].
    destruct (build_step_i verdict m fixed x t) as [x' r] eqn:Hb. cbn [fst] in *.
    rewrite E. cbn [step]. destruct (build_step m fixed (i_s x) t) as [s' r']. reflexivity.
  - reflexivity.
Qed.

Lemma accepts_all_app :
  forall m fixed h x t o,
    accepts_all verdict m fixed x (h ++ [(t, o)]) ->
    accepts_all verdict m fixed x h /\
    match o with
    | IBase Build => accepts verdict m (i_s (run_i verdict m fixed x h)) (i_tf (run_i verdict m fixed x h)) = true
    | _ => True
    end.
Proof.
  intros m fixed h. induction h as [|[t' o'] h IH]; intros x t o Ha.
  - cbn in Ha. destruct Ha as [Ha _]. split; [exact I|]. exact Ha.
  - cbn [app accepts_all] in Ha. destruct Ha as [Ha1 Ha2].
    destruct (IH _ _ _ Ha2) as [H1 H2]. split.
    + cbn [accepts_all]. split; assumption.
    + cbn [run_i]. exact H2.
Qed.

Lemma base_hist_app : forall h1 h2, base_hist (h1 ++ h2) = base_hist h1 ++ base_hist h2.
Proof.
  induction h1 as [|[t o] h1 IH]; intros h2; [reflexivity|].
  destruct o as [o|tf]; cbn [app base_hist]; rewrite IH; reflexivity.
Qed.

(* ---- invariant of C18/Proofs.v along a history with ANY inspector --------- *)
Definition pb_shape (pb : pres * option (ycontent * nat) * bool) (s : state) (t : nat) : Prop :=
  let yo := snd (fst pb) in
  yo = None \/ yo = s_yout s \/
  (yo = Some (gen_y (s_y s) (s_cfg s), t) /\ p_eoc (s_cfg s) && y_conf (s_y s) = false).

Lemma parser_build_i_shape :
  forall m fixed s tf t, pb_shape (parser_build_i verdict m fixed s tf t) s t.
Proof.
  intros m fixed s tf t. unfold parser_build_i, pb_shape.
  destruct (parser_build fixed s t) as [[pr yo] yw] eqn:Hp.
  pose proof (parser_build_shape _ _ _ _ _ _ Hp) as Hs.
  destruct pr as [[|]|e]; cbn [fst snd]; try exact Hs.
  destruct (accepts verdict m s tf); cbn [fst snd]; [exact Hs | left; reflexivity].
Qed.

Lemma build_step_with_frame :
  forall pb m fixed s t,
    let s' := fst (build_step_with pb m fixed s t) in
    s_y s' = s_y s /\ s_ymt s' = s_ymt s /\ s_l s' = s_l s /\ s_lmt s' = s_lmt s /\
    s_cfg s' = s_cfg s /\ s_now s' = t.
Proof.
  intros [[pr yo] yw] m fixed s t. unfold build_step_with.
  destruct m.
  - cbn. auto 10.
  - destruct (negb (l_syn (s_l s))); [cbn; auto 10|].
    destruct pr; [|cbn; auto 10].
    destruct (l_miss (s_l s)); [cbn; auto 10|].
    destruct (s_lout s) as [[oc omt]|]; [|cbn; auto 10].
    destruct (lcontent_eqb oc _); cbn; auto 10.
Qed.

Lemma build_step_with_yout :
  forall pb m fixed s t,
    s_yout (fst (build_step_with pb m fixed s t)) = snd (fst pb) \/
    (m = MCombined /\ l_syn (s_l s) = false /\
     s_yout (fst (build_step_with pb m fixed s t)) = if fixed then None else s_yout s).
Proof.
  intros [[pr yo] yw] m fixed s t. unfold build_step_with. destruct m.
  - cbn. auto.
  - destruct (l_syn (s_l s)) eqn:Hl; cbn [negb].
    + left. destruct pr; [|cbn; auto].
      destruct (l_miss (s_l s)); [cbn; auto|].
      destruct (s_lout s) as [[oc omt]|]; [|cbn; auto].
      destruct (lcontent_eqb oc _); cbn; auto.
    + right. cbn. auto.
Qed.

Lemma build_step_with_lout_parser :
  forall pb fixed s t, s_lout (fst (build_step_with pb MParser fixed s t)) = s_lout s.
Proof. intros [[pr yo] yw] fixed s t. reflexivity. Qed.

Lemma inv_build_with :
  forall pb m U fixed s t,
    Inv m U s -> s_now s <= t -> pb_shape pb s t -> Inv m U (fst (build_step_with pb m fixed s t)).
Proof.
  intros pb m U fixed s t HI Ht Hsh.
  destruct (build_step_with_frame pb m fixed s t) as [Hy [Hymt [Hl [Hlmt [Hcfg Hnow]]]]].
  constructor.
  - rewrite Hymt, Hnow. pose proof (inv_ymt _ _ _ HI). lia.
  - rewrite Hcfg. exact (inv_cfg _ _ _ HI).
  - intros Hm. subst m. rewrite build_step_with_lout_parser. apply (inv_lout _ _ _ HI). reflexivity.
  - intros oc omt Hout. rewrite Hnow, Hymt, Hy.
    assert (Hcases : s_yout (fst (build_step_with pb m fixed s t)) = None \/
                     s_yout (fst (build_step_with pb m fixed s t)) = s_yout s \/
                     (s_yout (fst (build_step_with pb m fixed s t)) = Some (gen_y (s_y s) (s_cfg s), t) /\
                      p_eoc (s_cfg s) && y_conf (s_y s) = false)).
    { destruct (build_step_with_yout pb m fixed s t) as [H|[_ [_ H]]].
      - rewrite H. exact Hsh.
      - rewrite H. destruct fixed; auto. }
    destruct Hcases as [H|[H|[H Hconf]]]; rewrite H in Hout.
    + discriminate Hout.
    + destruct (inv_yout _ _ _ HI _ _ Hout) as [Hle [Hex Hsrc]].
      split; [lia|]. split; auto.
    + inversion Hout; subst oc omt. split; [lia|]. split.
      * exists (s_cfg s). split; [exact (inv_cfg _ _ _ HI)|]. cbn [gen_y yc_src]. auto.
      * intros _. reflexivity.
Qed.

Lemma build_step_i_s :
  forall m fixed x t,
    i_s (fst (build_step_i verdict m fixed x t)) =
    fst (build_step_with (parser_build_i verdict m fixed (i_s x) (i_tf x) t) m fixed (i_s x) t) /\
    snd (build_step_i verdict m fixed x t) =
    snd (build_step_with (parser_build_i verdict m fixed (i_s x) (i_tf x) t) m fixed (i_s x) t) /\
    i_tf (fst (build_step_i verdict m fixed x t)) = i_tf x.
Proof.
  intros m fixed x t. unfold build_step_i.
  destruct (build_step_with _ m fixed (i_s x) t) as [s' r]. repeat split.
Qed.

Lemma inv_step_i :
  forall m U fixed x t o,
    Inv m U (i_s x) -> s_now (i_s x) <= t -> (forall c, o = SetOpt c -> In c U) ->
    Inv m U (i_s (fst (step_i verdict m fixed x t (IBase o)))) /\
    s_now (i_s (fst (step_i verdict m fixed x t (IBase o)))) = t.
Proof.
  intros m U fixed x t o HI Ht Ho.
  destruct o as [y|l|c|].
  - exact (inv_step m U fixed (i_s x) t (EditY y) HI Ht Ho).
  - exact (inv_step m U fixed (i_s x) t (EditL l) HI Ht Ho).
  - exact (inv_step m U fixed (i_s x) t (SetOpt c) HI Ht Ho).
  - cbn [step_i]. destruct (build_step_i_s m fixed x t) as [E [_ _]].
    destruct (build_step_i verdict m fixed x t) as [x' r]. cbn [fst] in *. rewrite E. split.
    + apply inv_build_with; [exact HI | exact Ht | apply parser_build_i_shape].
    + apply build_step_with_frame.
Qed.

Lemma inv_run_i :
  forall m U fixed h x t o,
    (forall t' c, In (t', SetOpt c) (base_hist h) -> In c U) ->
    Inv m U (i_s x) -> mono_from false (s_now (i_s x)) (base_hist h ++ [(t, o)]) ->
    Inv m U (i_s (run_i verdict m fixed x h)) /\ s_now (i_s (run_i verdict m fixed x h)) <= t.
Proof.
  intros m U fixed h. induction h as [|[t' o'] h IH]; intros x t o HU HI Hm.
  - cbn in Hm. split; [exact HI|]. exact (later_le _ _ _ _ (proj1 Hm)).
  - destruct o' as [o'|tf]; cbn [base_hist run_i] in *.
    + cbn [app mono_from] in Hm. destruct Hm as [Hlt Hm]. apply later_le in Hlt.
      destruct (inv_step_i m U fixed x t' o' HI Hlt) as [HI' Hnow'].
      { intros c Hc. subst o'. apply (HU t'). left. reflexivity. }
      apply (IH _ t o).
      * intros t'' c Hin. apply (HU t''). right. exact Hin.
      * exact HI'.
      * rewrite Hnow'. exact Hm.
    + apply (IH _ t o); assumption.
Qed.

Lemma inv_at_end_i :
  forall m fixed y0 l0 c0 tf0 h t,
    clock_weak_i (h ++ [(t, IBase Build)]) ->
    let x := run_i verdict m fixed (init_i y0 l0 c0 tf0) h in
    Inv m (used c0 (base_hist h)) (i_s x) /\ s_now (i_s x) <= t.
Proof.
  intros m fixed y0 l0 c0 tf0 h t Hm. unfold clock_weak_i in Hm. rewrite base_hist_app in Hm.
  cbn [base_hist] in Hm.
  apply (inv_run_i m (used c0 (base_hist h)) fixed h (init_i y0 l0 c0 tf0) t Build).
  - apply used_setopt.
  - cbn [init_i i_s]. apply inv_init. apply used_c0.
  - exact Hm.
Qed.

(* ---- the last build of a history ------------------------------------------ *)
(* a rejecting inspector that lets a build succeed / a parser stage succeed was
   not asked: the parser stage reported "not regenerated" *)
Lemma rejecting_inspector_cases :
  forall m fixed x t,
    accepts verdict m (i_s x) (i_tf x) = false ->
    (* the build failed with nothing of the parser left, or the inspector was skipped *)
    (exists e lo r, fst (build_step_with (parser_build_i verdict m fixed (i_s x) (i_tf x) t) m fixed (i_s x) t)
                    = upd_out (i_s x) (if fixed then None else match e with EInspect | EYConflict => None | _ => s_yout (i_s x) end) lo t
                    /\ snd (build_step_with (parser_build_i verdict m fixed (i_s x) (i_tf x) t) m fixed (i_s x) t) = Done r
                    /\ b_err r = Some e /\ lo = (if fixed then None else s_lout (i_s x))) \/
    parser_stage_i verdict m fixed x t = Some (POk false).
Proof.
  intros m fixed x t Hacc. destruct m; [discriminate Hacc|].
  unfold parser_stage_i, build_step_with, parser_build_i. rewrite Hacc.
  destruct (l_syn (s_l (i_s x))) eqn:Hl; cbn [negb].
  - destruct (parser_build fixed (i_s x) t) as [[pr yo] yw] eqn:Hp.
    destruct pr as [[|]|e]; cbn [fst snd].
    + left. exists EInspect, (if fixed then None else s_lout (i_s x)). eexists.
      split; [destruct fixed; reflexivity|]. split; [reflexivity|]. split; reflexivity.
    + right. reflexivity.
    + left. destruct (parser_build_err_shape _ _ _ _ _ _ Hp) as [Hyo _].
      unfold parser_build in Hp.
      destruct (negb (y_syn (s_y (i_s x)))).
      { inversion Hp; subst. exists EYSyntax, (if fixed then None else s_lout (i_s x)). eexists.
        split; [destruct fixed; reflexivity|]. split; [reflexivity|]. split; reflexivity. }
      destruct (p_wae (s_cfg (i_s x)) && y_warn (s_y (i_s x))).
      { inversion Hp; subst. exists EYWarn, (if fixed then None else s_lout (i_s x)). eexists.
        split; [destruct fixed; reflexivity|]. split; [reflexivity|]. split; reflexivity. }
      destruct (match s_yout (i_s x) with
                | Some (oc, omt) => (s_ymt (i_s x) <? omt) && cache_eqb (yc_cache oc) (cache_of (s_cfg (i_s x)) (y_toks (s_y (i_s x))))
                | None => false end); [discriminate Hp|].
      destruct (p_eoc (s_cfg (i_s x)) && y_conf (s_y (i_s x))); inversion Hp; subst.
      exists EYConflict, (if fixed then None else s_lout (i_s x)). eexists.
      split; [destruct fixed; reflexivity|]. split; [reflexivity|]. split; reflexivity.
  - left. exists ELSyntax, (if fixed then None else s_lout (i_s x)). eexists.
    split; [destruct fixed; reflexivity|]. split; [reflexivity|]. split; reflexivity.
Qed.

Lemma incremental_differs_only_by_skipped_inspector_v :
  forall m fixed y0 l0 c0 tf0 h t,
    clock_weak_i (h ++ [(t, IBase Build)]) ->
    cache_injective c0 (base_hist h) ->
    let x := run_i verdict m fixed (init_i y0 l0 c0 tf0) h in
    build_ok (snd (build_step_i verdict m fixed x t)) ->
    outputs (i_s (fst (build_step_i verdict m fixed x t))) = clean_build_i verdict m fixed x t \/
    (parser_stage_i verdict m fixed x t = Some (POk false) /\ accepts verdict m (i_s x) (i_tf x) = false).
Proof.
  intros m fixed y0 l0 c0 tf0 h t Hm Hinj x Hok.
  destruct (inv_at_end_i m fixed y0 l0 c0 tf0 h t Hm) as [HI Hnow]. fold x in HI, Hnow.
  destruct (accepts verdict m (i_s x) (i_tf x)) eqn:Hacc.
  - left. destruct (build_step_i_accepts m fixed x t Hacc) as [E1 E2].
    rewrite E1, (clean_build_i_accepts m fixed x t Hacc). rewrite E2 in Hok.
    exact (build_ok_equals_clean m _ fixed (i_s x) t HI Hinj Hnow Hok).
  - right. split; [|reflexivity].
    destruct (build_step_i_s m fixed x t) as [_ [E2 _]]. rewrite E2 in Hok.
    destruct (rejecting_inspector_cases m fixed x t Hacc) as [[e [lo [r [_ [Hr [He _]]]]]]|H]; [|exact H].
    exfalso. destruct Hok as [b [Hb Hbe]]. rewrite Hr in Hb. inversion Hb; subst b. congruence.
Qed.

Lemma failed_build_no_stale_or_skipped_inspector_v :
  forall m y0 l0 c0 tf0 h t,
    clock_weak_i (h ++ [(t, IBase Build)]) ->
    cache_injective c0 (base_hist h) ->
    let x := run_i verdict m true (init_i y0 l0 c0 tf0) h in
    build_failed (snd (build_step_i verdict m true x t)) ->
    no_stale (outputs (i_s (fst (build_step_i verdict m true x t)))) (clean_build_i verdict m true x t) \/
    (parser_stage_i verdict m true x t = Some (POk false) /\ accepts verdict m (i_s x) (i_tf x) = false).
Proof.
  intros m y0 l0 c0 tf0 h t Hm Hinj x Hfail.
  destruct (inv_at_end_i m true y0 l0 c0 tf0 h t Hm) as [HI Hnow]. fold x in HI, Hnow.
  destruct (accepts verdict m (i_s x) (i_tf x)) eqn:Hacc.
  - left. destruct (build_step_i_accepts m true x t Hacc) as [E1 E2].
    rewrite E1, (clean_build_i_accepts m true x t Hacc). rewrite E2 in Hfail.
    exact (failed_no_stale_state m _ (i_s x) t HI Hinj Hnow Hfail).
  - destruct (rejecting_inspector_cases m true x t Hacc) as [[e [lo [r [Hs [_ [_ Hlo]]]]]]|H].
    + left. destruct (build_step_i_s m true x t) as [E1 _]. rewrite E1, Hs, Hlo.
      unfold no_stale, outputs. cbn. auto.
    + right. split; [exact H | reflexivity].
Qed.
End WithVerdict.

(* ---- the statements ---------------------------------------------------------- *)
Lemma run_i_is_run : run_i_is_run_stmt.
Proof. intros verdict m fixed x h. apply run_i_is_run_v. Qed.

Lemma incremental_equals_clean_inspector : incremental_equals_clean_inspector_stmt.
Proof.
  intros verdict m fixed y0 l0 c0 tf0 h t Hm Hinj Hacc x Hok.
  destruct (accepts_all_app verdict m fixed h _ t (IBase Build) Hacc) as [Hah Hat]. fold x in Hat.
  destruct (build_step_i_accepts verdict m fixed x t Hat) as [E1 E2].
  rewrite E1, (clean_build_i_accepts verdict m fixed x t Hat). rewrite E2 in Hok.
  unfold x in *. rewrite (run_i_is_run_v verdict m fixed h _ Hah) in *. cbn [init_i i_s] in *.
  unfold clock_weak_i in Hm. rewrite base_hist_app in Hm. cbn [base_hist] in Hm.
  exact (incremental_equals_clean m fixed y0 l0 c0 (base_hist h) t Hm Hinj Hok).
Qed.

Lemma incremental_differs_only_by_skipped_inspector : incremental_differs_only_by_skipped_inspector_stmt.
Proof. intros verdict. apply incremental_differs_only_by_skipped_inspector_v. Qed.

Lemma failed_build_no_stale_or_skipped_inspector : failed_build_no_stale_or_skipped_inspector_stmt.
Proof. intros verdict. apply failed_build_no_stale_or_skipped_inspector_v. Qed.

Lemma incremental_equals_clean_refuted_inspector : incremental_equals_clean_refuted_inspector_stmt.
Proof.
  intros fixed. exists ex_verdict, (ex_y 0), ex_l, ex_l1, (ex_r 2 0), 0.
  cbn zeta. split; [cbn; lia|]. split.
  - apply ex_cache_injective_single. intros t c [H|[H|[]]]; discriminate H.
  - destruct fixed; vm_compute; (split; [eexists; split; reflexivity|]);
      (split; [eexists; eexists; reflexivity|]); (split; [|reflexivity]);
      right; eexists; eexists; split; reflexivity.
Qed.

Lemma incremental_equals_clean_refuted_inspector_testfile : incremental_equals_clean_refuted_inspector_testfile_stmt.
Proof.
  intros fixed. exists ex_verdict, (ex_y 0), ex_l, (ex_r 2 0), 0, 1.
  cbn zeta. split; [cbn; lia|]. split.
  - apply ex_cache_injective_single. intros t c [H|[]]; discriminate H.
  - destruct fixed; vm_compute; (split; [eexists; split; reflexivity | reflexivity]).
Qed.

(* ---- the hypotheses are satisfiable ------------------------------------------ *)
(* a history with lexer edits, test-file edits and an inspector that is not constant,
   in which the inspector accepts at every build (it would reject lexer 1 / test files 1,
   which are in place between the builds only) *)
Example accepts_all_satisfiable :
  let h := [(1, IBase Build); (2, IBase (EditL ex_l1)); (2, EditT 1); (3, IBase (EditL ex_l)); (3, EditT 2);
            (4, IBase Build); (5, IBase (EditY (ex_y 1)))] in
  clock_weak_i (h ++ [(6, IBase Build)]) /\ cache_injective (ex_r 2 0) (base_hist h) /\
  accepts_all ex_verdict MCombined true (init_i (ex_y 0) ex_l (ex_r 2 0) 0) (h ++ [(6, IBase Build)]) /\
  build_ok (snd (build_step_i ex_verdict MCombined true (run_i ex_verdict MCombined true (init_i (ex_y 0) ex_l (ex_r 2 0) 0) h) 6)) /\
  ex_verdict (ex_y 0) ex_l1 (ex_r 2 0) 0 = false.
Proof.
  cbn zeta. split; [cbn; lia|]. split.
  - apply ex_cache_injective_single. intros t c H. cbn in H.
    repeat (destruct H as [H|H]; [discriminate H|]). destruct H.
  - split; [vm_compute; tauto|]. split; [|reflexivity].
    vm_compute. eexists. split; reflexivity.
Qed.

(* the second disjunct of incremental_differs_only_by_skipped_inspector is met by the
   witness of the refutation, the first by every history of accepts_all_satisfiable *)
Example skipped_inspector_disjunct_met :
  let h := [(1, IBase Build); (2, IBase (EditL ex_l1))] in
  let x := run_i ex_verdict MCombined true (init_i (ex_y 0) ex_l (ex_r 2 0) 0) h in
  parser_stage_i ex_verdict MCombined true x 3 = Some (POk false) /\
  accepts ex_verdict MCombined (i_s x) (i_tf x) = false.
Proof. vm_compute. split; reflexivity. Qed.

(* a failed build whose parser output is stale because the inspector was skipped: lexer 1
   also lacks a token of the grammar (the build panics after the parser stage) *)
Example failed_build_skipped_inspector_witness :
  let l1m := {| l_id := 1; l_syn := true; l_miss := true |} in
  let h := [(1, IBase Build); (2, IBase (EditL l1m))] in
  let x := run_i ex_verdict MCombined true (init_i (ex_y 0) ex_l (ex_r 2 0) 0) h in
  clock_weak_i (h ++ [(3, IBase Build)]) /\ cache_injective (ex_r 2 0) (base_hist h) /\
  build_failed (snd (build_step_i ex_verdict MCombined true x 3)) /\
  ~ no_stale (outputs (i_s (fst (build_step_i ex_verdict MCombined true x 3)))) (clean_build_i ex_verdict MCombined true x 3).
Proof.
  cbn zeta. split; [cbn; lia|]. split.
  { apply ex_cache_injective_single. intros t c [H|[H|[]]]; discriminate H. }
  split.
  - left. vm_compute. reflexivity.
  - vm_compute. intros [[H|H] _]; discriminate H.
Qed.
