(* C18 — mirror of the skip/regenerate/delete decisions of the two compile-time
   builders:
     lrpar/src/lib/ctbuilder.rs  CTParserBuilder::build  (661-982), rebuild_cache (1177-1240)
     lrlex/src/lib/ctbuilder.rs  CTLexerBuilder::build   (479-926)
   Generated text is abstract: a generated file is described by the record of
   everything its bytes are a function of (source text, settings, token map);
   two generated files are equal iff their descriptors are equal (this reading
   is what the correspondence run checks in both directions against the real
   files).  Executable definitions only. *)
From Coq Require Import List Arith Bool.
From GV Require Import Common.Outcome.
Import ListNotations.

(* ---- sources ----------------------------------------------------------- *)

(* a grammar text.  [y_id] names the text; the flags say how the real
   pipeline treats it: [y_syn] it parses (header, grammar, validation);
   [y_warn] the AST has warnings (e.g. an unused rule); [y_conf] the table has
   conflicts not matched by %expect / %expect-rr; [y_toks] names its token map
   (token names and their indices, RULE_IDS_MAP of the cache string). *)
Record ysrc := { y_id : nat; y_syn : bool; y_warn : bool; y_conf : bool; y_toks : nat }.

(* a lexer text: [l_syn] it parses; [l_miss] it lacks a rule for a token of the
   grammar (lrlex ctbuilder.rs:665-751 prints the tokens, removes the output
   and panics) *)
Record lsrc := { l_id : nat; l_syn : bool; l_miss : bool }.

(* ---- builder settings -------------------------------------------------- *)
(* enumerations are plain codes; the builders only ever compare them *)
Record settings := {
  (* CTParserBuilder *)
  p_yk : nat;      (* yacckind *)
  p_rec : nat;     (* recoverer *)
  p_vis : nat;     (* visibility *)
  p_ed : nat;      (* rust_edition *)
  p_eoc : bool;    (* error_on_conflicts *)
  p_wae : bool;    (* warnings_are_errors *)
  p_sw : bool;     (* show_warnings *)
  p_ser : nat;     (* serialisation_format *)
  p_mod : nat;     (* mod_name *)
  (* the type parameter LexerTypesT / StorageT of both builders *)
  p_st : nat;
  (* what the cache string records about the type parameter.  The code as it is
     records nothing: the correspondence run passes the constant 0 here.  (A
     builder that wrote the type name into the cache string is the same mirror
     run with p_stc = p_st.) *)
  p_stc : nat;
  (* the associated type LexerTypesT::LexemeT of the parser builder's type
     parameter: `type_name::<LexerTypesT::LexemeT>()` is spliced into the
     signature of every action wrapper whose production mentions a token
     (gen_user_actions), i.e. into the generated text under the yacc kinds that
     have user actions.  A user who owns the LexerTypes implementation can change
     it while the names of LexerTypesT and StorageT stay the same. *)
  p_lx : nat;
  (* what the cache string records about it (LEXEME_T, /repo 9933a08): the
     correspondence run passes p_lxc = p_lx for the code as it is; 0 is the
     code before that commit *)
  p_lxc : nat;
  (* CTLexerBuilder *)
  l_vis : nat;     (* visibility *)
  l_ed : nat;      (* rust_edition: stored (ctbuilder.rs:443) but never read by build *)
  l_mod : nat;     (* mod_name *)
  l_ci : nat       (* a lex flag (case_insensitive): 0 unset, 1 false, 2 true *)
}.

(* ---- the cache string (rebuild_cache, lrpar ctbuilder.rs) -------------- *)
(* The keys of `cache_info` (checks/C18.py part static_cache_coverage compares this
   list with the source text on every run):
     BUILD_TIME DERIVED_MOD_NAME GRAMMAR_PATH        constants of a history (one lrpar
                                                     build, one grammar path; the derived
                                                     name is a function of MOD_NAME + path)
     ENCODING_CONFIG c_ser   MOD_NAME c_mod          RECOVERER c_rec     YACC_KIND c_yk
     ERROR_ON_CONFLICTS c_eoc  SHOW_WARNINGS c_sw    WARNINGS_ARE_ERRORS c_wae
     RUST_EDITION c_ed       STORAGE_T + LEXER_TYPES_T c_stc             LEXEME_T c_lxc
     RULE_IDS_MAP c_toks     VISIBILITY c_vis
   Builder fields that rebuild_cache ignores by its own comments: grammar_src, from_ast
   (feature `_unstable_api`, not in the operation set), output_path, inspect_rt
   (C18/InspModel.v), inspect_callback (cfg(test)), phantom. *)
Record cache := {
  c_ser : nat; c_mod : nat; c_rec : nat; c_yk : nat; c_eoc : bool; c_sw : bool;
  c_wae : bool; c_ed : nat; c_toks : nat; c_vis : nat; c_stc : nat; c_lxc : nat
}.

Definition cache_of (c : settings) (toks : nat) : cache :=
  {| c_ser := p_ser c; c_mod := p_mod c; c_rec := p_rec c; c_yk := p_yk c;
     c_eoc := p_eoc c; c_sw := p_sw c; c_wae := p_wae c; c_ed := p_ed c;
     c_toks := toks; c_vis := p_vis c; c_stc := p_stc c; c_lxc := p_lxc c |}.

Definition cache_eqb (a b : cache) : bool :=
  (c_ser a =? c_ser b) && (c_mod a =? c_mod b) && (c_rec a =? c_rec b) &&
  (c_yk a =? c_yk b) && Bool.eqb (c_eoc a) (c_eoc b) && Bool.eqb (c_sw a) (c_sw b) &&
  Bool.eqb (c_wae a) (c_wae b) && (c_ed a =? c_ed b) && (c_toks a =? c_toks b) &&
  (c_vis a =? c_vis b) && (c_stc a =? c_stc b) && (c_lxc a =? c_lxc b).

(* ---- generated files --------------------------------------------------- *)
(* <grammar>.y.rs: code generated from the grammar text under yacckind,
   recoverer, visibility, edition, serialisation format, module name — all of
   which are also in the trailing CACHE INFORMATION comment [yc_cache] — and
   under the type parameter StorageT/LexerTypesT ([yc_st]: `type_name::<StorageT>()`
   is spliced into the code, gen_parse_function 1248-1249, gen_rule_consts, …)
   and, under the yacc kinds with user actions, under LexerTypesT::LexemeT
   ([yc_lx]).  Whether the two type names are in the cache string is what
   [p_stc] / [p_lxc] say. *)
Record ycontent := { yc_src : ysrc; yc_cache : cache; yc_st : nat; yc_lx : nat }.

(* yacc kinds whose generated text has action wrappers (output_file:
   `Original(UserAction) | Grmtools` -> gen_wrappers / gen_user_actions); codes of
   the correspondence run: 0 NoAction, 1 GenericParseTree, 2 UserAction, 3 Grmtools.
   (Every grammar of the correspondence run has a token in some production.) *)
Definition mentions_lexemet (yk : nat) : bool := 2 <=? yk.

(* the part of LexemeT the generated text depends on *)
Definition eff_lx (c : settings) : nat := if mentions_lexemet (p_yk c) then p_lx c else 0.

Definition gen_y (y : ysrc) (c : settings) : ycontent :=
  {| yc_src := y; yc_cache := cache_of c (y_toks y); yc_st := p_st c; yc_lx := eff_lx c |}.

(* <lexer>.l.rs: lrlex ctbuilder.rs:780-908 — rules of the lexer text with the
   token ids of the parser's token map, lex flags, visibility, module name,
   type parameter.  (rust_edition is not used.) *)
Record lcontent := { lc_src : lsrc; lc_toks : nat; lc_vis : nat; lc_mod : nat; lc_ci : nat; lc_st : nat }.

Definition gen_l (l : lsrc) (c : settings) (toks : nat) : lcontent :=
  {| lc_src := l; lc_toks := toks; lc_vis := l_vis c; lc_mod := l_mod c;
     lc_ci := l_ci c; lc_st := p_st c |}.

Definition lsrc_eqb (a b : lsrc) : bool :=
  (l_id a =? l_id b) && Bool.eqb (l_syn a) (l_syn b) && Bool.eqb (l_miss a) (l_miss b).

Definition lcontent_eqb (a b : lcontent) : bool :=
  lsrc_eqb (lc_src a) (lc_src b) && (lc_toks a =? lc_toks b) && (lc_vis a =? lc_vis b) &&
  (lc_mod a =? lc_mod b) && (lc_ci a =? lc_ci b) && (lc_st a =? lc_st b).

(* ---- state ------------------------------------------------------------- *)
Record state := {
  s_y : ysrc; s_ymt : nat;                 (* grammar file: text, mtime *)
  s_l : lsrc; s_lmt : nat;                 (* lexer file: text, mtime *)
  s_cfg : settings;
  s_yout : option (ycontent * nat);        (* parser output: content, mtime *)
  s_lout : option (lcontent * nat);        (* lexer output *)
  s_now : nat                              (* logical clock: time of the last operation *)
}.

Definition init (y : ysrc) (l : lsrc) (c : settings) : state :=
  {| s_y := y; s_ymt := 0; s_l := l; s_lmt := 0; s_cfg := c;
     s_yout := None; s_lout := None; s_now := 0 |}.

(* which builders the build script runs *)
Inductive mode := MParser      (* CTParserBuilder alone *)
                | MCombined.   (* CTLexerBuilder with lrpar_config (the documented use) *)

(* ---- results of a build ------------------------------------------------ *)
Inductive errkind :=
| EYSyntax    (* grammar does not parse: lrpar 733-744, 816-828 *)
| EYWarn      (* warnings_are_errors and warnings: 784-797 *)
| EYConflict  (* error_on_conflicts and unexpected conflicts: 905-928 *)
| ELSyntax    (* lexer does not parse: lrlex 500-513, 534-548 *)
| EInspect.   (* the `inspect_rt` callback returned Err (C18/InspModel.v: the
                 `test_files` check CTLexerBuilder installs); never produced by
                 the definitions of this file *)

(* parser stage: Ok (regenerated) or an error *)
Inductive pres := POk (regenerated : bool) | PErr (e : errkind).

Record bres := {
  b_pstage : option pres;   (* None: parser builder not reached *)
  b_err : option errkind;   (* overall: None = Ok(..) returned *)
  b_ywritten : bool;        (* parser output created by this build *)
  b_lwritten : bool         (* lexer output created by this build *)
}.

(* ---- CTParserBuilder::build -------------------------------------------- *)
(* [fixed] selects the proposed repair: every failing return removes the
   builder's own output first.  Returns the result, the new parser output and
   whether it was written. *)
Definition parser_build (fixed : bool) (s : state) (t : nat)
  : pres * option (ycontent * nat) * bool :=
  let y := s_y s in
  let c := s_cfg s in
  let on_early_error := if fixed then None else s_yout s in
  if negb (y_syn y) then (PErr EYSyntax, on_early_error, false)          (* 733-744 / 816-828 *)
  else if p_wae c && y_warn y then (PErr EYWarn, on_early_error, false)  (* 784-797 *)
  else
    let ch := cache_of c (y_toks y) in                                    (* 861 *)
    let skip :=                                                           (* 870-876 *)
      match s_yout s with
      | Some (oc, omt) => (s_ymt s <? omt) && cache_eqb (yc_cache oc) ch
      | None => false
      end in
    if skip then (POk false, s_yout s, false)                             (* 877-884 *)
    else
      (* 902: fs::remove_file(outp) *)
      if p_eoc c && y_conf y then (PErr EYConflict, None, false)          (* 905-928 *)
      else (POk true, Some (gen_y y c, t), true).                         (* 959-979 *)

(* ---- one build of the build script ------------------------------------- *)
Definition upd_out (s : state) (yo : option (ycontent * nat)) (lo : option (lcontent * nat)) (t : nat) : state :=
  {| s_y := s_y s; s_ymt := s_ymt s; s_l := s_l s; s_lmt := s_lmt s; s_cfg := s_cfg s;
     s_yout := yo; s_lout := lo; s_now := t |}.

(* [pb] is what the parser builder did (parser_build below; C18/InspModel.v runs
   the same script with a parser builder that also calls the inspector) *)
Definition build_step_with (pb : pres * option (ycontent * nat) * bool)
  (m : mode) (fixed : bool) (s : state) (t : nat) : state * outcome bres :=
  match m with
  | MParser =>
      let '(pr, yo, yw) := pb in
      (upd_out s yo (s_lout s) t,
       Done {| b_pstage := Some pr;
               b_err := match pr with POk _ => None | PErr e => Some e end;
               b_ywritten := yw; b_lwritten := false |})
  | MCombined =>
      let l := s_l s in
      if negb (l_syn l) then
        (* lrlex 500-548: early return; the parser builder is never run *)
        (upd_out s (if fixed then None else s_yout s) (if fixed then None else s_lout s) t,
         Done {| b_pstage := None; b_err := Some ELSyntax; b_ywritten := false; b_lwritten := false |})
      else
        let '(pr, yo, yw) := pb in                                         (* 628: ctp.build()? *)
        match pr with
        | PErr e =>
            (upd_out s yo (if fixed then None else s_lout s) t,
             Done {| b_pstage := Some pr; b_err := Some e; b_ywritten := yw; b_lwritten := false |})
        | POk _ =>
            if l_miss l then
              (* 748-751: fs::remove_file(outp).ok(); panic!() *)
              (upd_out s yo None t, Panic)
            else
              let text := gen_l l (s_cfg s) (y_toks (s_y s)) in            (* 780-908 *)
              match s_lout s with
              | Some (oc, omt) =>
                  if lcontent_eqb oc text then                              (* 912-919 *)
                    (upd_out s yo (s_lout s) t,
                     Done {| b_pstage := Some pr; b_err := None; b_ywritten := yw; b_lwritten := false |})
                  else
                    (upd_out s yo (Some (text, t)) t,                       (* 920-921 *)
                     Done {| b_pstage := Some pr; b_err := None; b_ywritten := yw; b_lwritten := true |})
              | None =>
                  (upd_out s yo (Some (text, t)) t,
                   Done {| b_pstage := Some pr; b_err := None; b_ywritten := yw; b_lwritten := true |})
              end
        end
  end.

Definition build_step (m : mode) (fixed : bool) (s : state) (t : nat) : state * outcome bres :=
  build_step_with (parser_build fixed s t) m fixed s t.

(* ---- operations of a history ------------------------------------------- *)
Inductive op :=
| EditY (y : ysrc)        (* the grammar file is (re)written: new text, fresh mtime *)
| EditL (l : lsrc)        (* the lexer file is (re)written *)
| SetOpt (c : settings)   (* the build script is changed: new builder settings *)
| Build.

(* the named edits of the plan are instances of EditY / EditL *)
Definition BreakYSyntax (id : nat) : op :=
  EditY {| y_id := id; y_syn := false; y_warn := false; y_conf := false; y_toks := 0 |}.
Definition BreakYConflict (id toks : nat) : op :=
  EditY {| y_id := id; y_syn := true; y_warn := false; y_conf := true; y_toks := toks |}.
Definition FixY (id toks : nat) : op :=
  EditY {| y_id := id; y_syn := true; y_warn := false; y_conf := false; y_toks := toks |}.
Definition BreakL (id : nat) : op := EditL {| l_id := id; l_syn := false; l_miss := false |}.

(* an operation happening at time t *)
Definition step (m : mode) (fixed : bool) (s : state) (t : nat) (o : op) : state * option (outcome bres) :=
  match o with
  | EditY y => ({| s_y := y; s_ymt := t; s_l := s_l s; s_lmt := s_lmt s; s_cfg := s_cfg s;
                   s_yout := s_yout s; s_lout := s_lout s; s_now := t |}, None)
  | EditL l => ({| s_y := s_y s; s_ymt := s_ymt s; s_l := l; s_lmt := t; s_cfg := s_cfg s;
                   s_yout := s_yout s; s_lout := s_lout s; s_now := t |}, None)
  | SetOpt c => ({| s_y := s_y s; s_ymt := s_ymt s; s_l := s_l s; s_lmt := s_lmt s; s_cfg := c;
                    s_yout := s_yout s; s_lout := s_lout s; s_now := t |}, None)
  | Build => let '(s', r) := build_step m fixed s t in (s', Some r)
  end.

Definition hist := list (nat * op).

Fixpoint run (m : mode) (fixed : bool) (s : state) (h : hist) : state :=
  match h with
  | [] => s
  | (t, o) :: h' => run m fixed (fst (step m fixed s t o)) h'
  end.

(* the state a build into an empty output directory starts from *)
Definition clean_state (s : state) : state :=
  {| s_y := s_y s; s_ymt := s_ymt s; s_l := s_l s; s_lmt := s_lmt s; s_cfg := s_cfg s;
     s_yout := None; s_lout := None; s_now := s_now s |}.

(* contents of the generated files, modification times aside *)
Definition outputs (s : state) : option ycontent * option lcontent :=
  (option_map fst (s_yout s), option_map fst (s_lout s)).

Definition clean_build (m : mode) (fixed : bool) (s : state) (t : nat) : option ycontent * option lcontent :=
  outputs (fst (build_step m fixed (clean_state s) t)).

(* trace for the correspondence run: after every operation the state, and for
   a Build its result and what a clean build of the state before it leaves *)
Fixpoint trace (m : mode) (fixed : bool) (s : state) (h : hist)
  : list (state * option (outcome bres * (option ycontent * option lcontent))) :=
  match h with
  | [] => []
  | (t, o) :: h' =>
      let '(s', r) := step m fixed s t o in
      (s', match r with
           | Some r => Some (r, clean_build m fixed s t)
           | None => None
           end) :: trace m fixed s' h'
  end.
